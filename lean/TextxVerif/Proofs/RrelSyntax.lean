import TextxVerif.RrelSyntax
/-!
Helper lemmas for C12: the RREL parser reads back what the printer wrote.
-/
namespace RrelSyntax

/-- a predicate on the first character of the remaining input (true at the end) -/
def HeadP (P : Char → Prop) : Str → Prop
  | [] => True
  | c :: _ => P c

/-- what can follow a path element / a path / a sequence in a printed expression -/
def stopElem (c : Char) : Prop := c = '.' ∨ c = ',' ∨ c = ')'
def stopPath (c : Char) : Prop := c = ',' ∨ c = ')'
def stopSeq (c : Char) : Prop := c = ')'

theorem HeadP.mono {P Q : Char → Prop} (h : ∀ c, P c → Q c) : ∀ {r : Str}, HeadP P r → HeadP Q r
  | [], _ => trivial
  | _ :: _, hp => h _ hp

/-! ### whitespace, literals -/

theorem skipWs_cons {c : Char} (h : isWs c = false) (r : Str) : skipWs (c :: r) = c :: r := by
  simp [skipWs, h]

theorem litc_nil (ch : Char) : litc ch [] = none := by simp [litc, skipWs]

theorem litc_cons {c : Char} (h : isWs c = false) (ch : Char) (r : Str) :
    litc ch (c :: r) = if c = ch then some r else none := by
  simp [litc, skipWs_cons h]

theorem litc_self {ch : Char} (h : isWs ch = false) (r : Str) : litc ch (ch :: r) = some r := by
  simp [litc_cons h]

theorem litc_ne {c ch : Char} (h : isWs c = false) (hne : c ≠ ch) (r : Str) : litc ch (c :: r) = none := by
  simp [litc_cons h, hne]

theorem litc_none_of_head {P : Char → Prop} {ch : Char} (hP : ∀ c, P c → isWs c = false ∧ c ≠ ch) :
    ∀ {r : Str}, HeadP P r → litc ch r = none
  | [], _ => litc_nil ch
  | c :: r, h => litc_ne (hP c h).1 (hP c h).2 r

theorem dropPrefix_append (p r : Str) : dropPrefix p (p ++ r) = some r := by
  induction p with
  | nil => simp [dropPrefix]
  | cons c p ih => simp [dropPrefix, ih]

theorem dropPrefix_eq_some {p inp r : Str} (h : dropPrefix p inp = some r) : inp = p ++ r := by
  induction p generalizing inp with
  | nil => simp [dropPrefix] at h; simp [h]
  | cons c p ih =>
    cases inp with
    | nil => simp [dropPrefix] at h
    | cons d inp =>
      simp only [dropPrefix] at h
      by_cases hcd : c = d
      · simp [hcd] at h; simp [hcd, ih h]
      · simp [hcd] at h

/-! ### character classes -/

theorem CC.Sane.not_punct {cc : CC} (hs : cc.Sane) {c : Char} (hw : cc.isWord c = true) : c ∉ punctChars := by
  intro hc
  rw [hs.punct c hc] at hw
  exact Bool.noConfusion hw

theorem isWs_punct {c : Char} (h : isWs c = true) : c ∈ punctChars := by
  simp [isWs] at h
  rcases h with ((h | h) | h) | h <;> simp [h, punctChars]

theorem CC.Sane.word_not_ws {cc : CC} (hs : cc.Sane) {c : Char} (hw : cc.isWord c = true) : isWs c = false := by
  cases h : isWs c with
  | false => rfl
  | true => exact absurd (isWs_punct h) (hs.not_punct hw)

theorem CC.Sane.word_ne {cc : CC} (hs : cc.Sane) {c p : Char} (hw : cc.isWord c = true) (hp : p ∈ punctChars) : c ≠ p := by
  intro h
  exact hs.not_punct hw (h ▸ hp)

theorem isStart_word {cc : CC} {c : Char} (h : cc.isStart c = true) : cc.isWord c = true := by
  simp [CC.isStart] at h
  exact h.1

theorem stopElem_punct {c : Char} (h : stopElem c) : c ∈ punctChars := by
  rcases h with h | h | h <;> simp [h, punctChars]

theorem stopElem_not_ws {c : Char} (h : stopElem c) : isWs c = false := by
  rcases h with h | h | h <;> subst h <;> decide

theorem stopPath_elem {c : Char} (h : stopPath c) : stopElem c := Or.inr h
theorem stopSeq_path {c : Char} (h : stopSeq c) : stopPath c := Or.inr h

theorem stop_not_word {cc : CC} (hs : cc.Sane) {c : Char} (h : stopElem c) : cc.isWord c = false :=
  hs.punct c (stopElem_punct h)

/-! ### identifiers -/

theorem takeWhile_append_stop {p : Char → Bool} {w rest : Str} (hw : ∀ c ∈ w, p c = true)
    (hr : HeadP (fun c => p c = false) rest) :
    (w ++ rest).takeWhile p = w ∧ (w ++ rest).dropWhile p = rest := by
  induction w with
  | nil =>
    cases rest with
    | nil => simp
    | cons c r =>
      have : p c = false := hr
      simp [this]
  | cons c w ih =>
    have hc : p c = true := hw c (by simp)
    have := ih (fun x hx => hw x (by simp [hx]))
    simp [hc, this]

theorem identOk_cons {cc : CC} {n : Str} (h : identOk cc n = true) :
    ∃ c w, n = c :: w ∧ cc.isStart c = true ∧ ∀ x ∈ w, cc.isWord x = true := by
  cases n with
  | nil => simp [identOk] at h
  | cons c w =>
    simp [identOk] at h
    exact ⟨c, w, rfl, h.1, h.2⟩

theorem identOk_all_word {cc : CC} {n : Str} (h : identOk cc n = true) : ∀ x ∈ n, cc.isWord x = true := by
  obtain ⟨c, w, rfl, hc, hw⟩ := identOk_cons h
  intro x hx
  rcases List.mem_cons.mp hx with rfl | hx
  · exact isStart_word hc
  · exact hw x hx

theorem ident_print {cc : CC} (hs : cc.Sane) {n rest : Str} (hn : identOk cc n = true)
    (hr : HeadP (fun c => cc.isWord c = false) rest) : ident cc (n ++ rest) = some (n, rest) := by
  obtain ⟨c, w, rfl, hc, hw⟩ := identOk_cons hn
  have hws : isWs c = false := hs.word_not_ws (isStart_word hc)
  have := takeWhile_append_stop (p := cc.isWord) hw hr
  simp [ident, skipWs_cons hws, hc, this]

theorem ident_none_of_not_start {cc : CC} {c : Char} (hws : isWs c = false) (h : cc.isStart c = false) (r : Str) :
    ident cc (c :: r) = none := by
  simp [ident, skipWs_cons hws, h]

theorem ident_nil (cc : CC) : ident cc [] = none := by simp [ident, skipWs]

theorem not_start_of_not_word {cc : CC} {c : Char} (h : cc.isWord c = false) : cc.isStart c = false := by
  simp [CC.isStart, h]

/-! ### quoted fixed names -/

theorem quoteOk_iff {q : Char} {s : Str} :
    quoteOk q s = true ↔ q ∉ removeEsc q s ∧ s.getLast? ≠ some '\\' := by
  simp [quoteOk, endsWithBackslash]

theorem scan_q (q : Char) (rest : Str) : scan q (q :: rest) = some ([], rest) := by
  rw [scan.eq_def]; simp
theorem scan_other {q c : Char} (h1 : c ≠ q) (h2 : c ≠ '\\') (rest : Str) :
    scan q (c :: rest) = (scan q rest).map fun x => (c :: x.1, x.2) := by
  rw [scan.eq_def]; simp [h1, h2]
theorem scan_esc_some {q : Char} (h1 : q ≠ '\\') {rest b r : Str} (h : scan q rest = some (b, r)) :
    scan q ('\\' :: q :: rest) = some ('\\' :: q :: b, r) := by
  have : ('\\' : Char) ≠ q := fun h => h1 h.symm
  rw [scan.eq_def]; simp [this, h]
theorem scan_esc_none {q : Char} (h1 : q ≠ '\\') {rest : Str} (h : scan q rest = none) :
    scan q ('\\' :: q :: rest) = some (['\\'], rest) := by
  have : ('\\' : Char) ≠ q := fun h => h1 h.symm
  rw [scan.eq_def]; simp [this, h]
theorem scan_bs {q c2 : Char} (h1 : q ≠ '\\') (h2 : c2 ≠ q) (rest : Str) :
    scan q ('\\' :: c2 :: rest) = (scan q (c2 :: rest)).map fun x => ('\\' :: x.1, x.2) := by
  have : ('\\' : Char) ≠ q := fun h => h1 h.symm
  rw [scan.eq_def]; simp [this, h2]
theorem scan_bs_end {q : Char} (h1 : q ≠ '\\') : scan q ['\\'] = none := by
  have : ('\\' : Char) ≠ q := fun h => h1 h.symm
  rw [scan.eq_def]; simp [this]

/-- a name that `_quote_fixed_name` accepts under `q` is read back by the string
regex exactly, whatever follows the closing quote -/
theorem scan_quoted {q : Char} (hq : q ≠ '\\') :
    ∀ (s rest : Str), quoteOk q s = true → scan q (s ++ q :: rest) = some (s, rest)
  | [], rest, _ => by simp [scan_q]
  | [c], rest, h => by
    rw [quoteOk_iff] at h
    have hc : c ≠ '\\' := by
      intro hc; subst hc; simp at h
    have hcq : c ≠ q := by
      intro hcq; subst hcq; simp [removeEsc, hc] at h
    simp [scan_other hcq hc, scan_q]
  | c :: c2 :: rest2, rest, h => by
    rw [quoteOk_iff] at h
    obtain ⟨hmem, hlast⟩ := h
    by_cases hc : c = '\\'
    · subst hc
      by_cases hc2 : c2 = q
      · subst hc2
        have h2 : quoteOk c2 rest2 = true := by
          rw [quoteOk_iff]
          refine ⟨by simpa [removeEsc] using hmem, ?_⟩
          cases rest2 with
          | nil => simp
          | cons d r => simpa using hlast
        have ih := scan_quoted hq rest2 rest h2
        simpa using scan_esc_some hq ih
      · have h2 : quoteOk q (c2 :: rest2) = true := by
          rw [quoteOk_iff]
          refine ⟨?_, by simpa using hlast⟩
          simp [removeEsc, hc2] at hmem
          exact hmem.2
        have ih := scan_quoted hq (c2 :: rest2) rest h2
        simp only [List.cons_append] at ih ⊢
        rw [scan_bs hq hc2, ih]; rfl
    · have hcq : c ≠ q := by
        intro hcq; subst hcq; simp [removeEsc, hc] at hmem
      have h2 : quoteOk q (c2 :: rest2) = true := by
        rw [quoteOk_iff]
        refine ⟨?_, by simpa using hlast⟩
        simp [removeEsc, hc] at hmem
        exact hmem.2
      have ih := scan_quoted hq (c2 :: rest2) rest h2
      simp only [List.cons_append] at ih ⊢
      rw [scan_other hcq hc, ih]; rfl

theorem quote_head (fx : Str) : ∃ q tl, quote fx = q :: tl ∧ (q = '\'' ∨ q = '"') := by
  unfold quote
  split
  · exact ⟨_, _, rfl, Or.inl rfl⟩
  · split
    · exact ⟨_, _, rfl, Or.inr rfl⟩
    · exact ⟨_, _, rfl, Or.inl rfl⟩

theorem strP_quote {fx : Str} (h : printable fx = true) (rest : Str) :
    strP (quote fx ++ rest) = some (fx, rest) := by
  unfold quote
  by_cases h1 : quoteOk '\'' fx = true
  · have := scan_quoted (q := '\'') (by decide) fx rest h1
    simp [h1, strP, skipWs, isWs, this]
  · have h2 : quoteOk '"' fx = true := by
      simp [printable] at h
      rcases h with h | h
      · exact absurd h h1
      · exact h
    have := scan_quoted (q := '"') (by decide) fx rest h2
    simp [h1, h2, strP, skipWs, isWs, this]

/-! ### path elements -/

theorem parentP_none_of_head {cc : CC} {c : Char} (hws : isWs c = false) (hne : c ≠ 'p') (r : Str) :
    parentP cc (c :: r) = none := by
  have : ('p' : Char) ≠ c := fun h => hne h.symm
  simp [parentP, lits, skipWs_cons hws, kwParent, dropPrefix, this]

theorem parentP_nil (cc : CC) : parentP cc [] = none := by
  simp [parentP, lits, skipWs, kwParent, dropPrefix]

theorem bracketsP_none_of_head {c : Char} (hws : isWs c = false) (hne : c ≠ '(') (seqP : SeqParser) (r : Str) :
    bracketsP seqP (c :: r) = none := by
  simp [bracketsP, litc_ne hws hne]

theorem bracketsP_nil (seqP : SeqParser) : bracketsP seqP [] = none := by
  simp [bracketsP, litc_nil]

theorem append_split {p r n rest : Str} (h : p ++ r = n ++ rest) (hp : ∀ c ∈ p, ¬ stopElem c)
    (hr : HeadP stopElem rest) : ∃ n', n = p ++ n' ∧ r = n' ++ rest := by
  induction p generalizing n with
  | nil => exact ⟨n, rfl, h⟩
  | cons c p ih =>
    cases n with
    | nil =>
      simp only [List.nil_append, List.cons_append] at h
      subst h
      exact absurd hr (hp c (by simp))
    | cons d n =>
      simp only [List.cons_append, List.cons.injEq] at h
      obtain ⟨n', hn, hr'⟩ := ih h.2 (fun x hx => hp x (by simp [hx]))
      exact ⟨n', by simp [h.1, hn], hr'⟩

theorem kwParent_not_stop : ∀ c ∈ kwParent, ¬ stopElem c := by
  intro c hc
  simp [kwParent] at hc
  rcases hc with h | h | h | h | h | h <;> subst h <;> simp [stopElem]

theorem stopElem_ne_lparen : ∀ c, stopElem c → isWs c = false ∧ c ≠ '(' := by
  intro c h
  rcases h with h | h | h <;> subst h <;> decide

/-- a name is never read as `parent(…)`, even when it starts with `parent` -/
theorem parentP_ident_none {cc : CC} (hs : cc.Sane) {n rest : Str} (hn : identOk cc n = true)
    (hr : HeadP stopElem rest) : parentP cc (n ++ rest) = none := by
  have hall := identOk_all_word hn
  obtain ⟨c, w, rfl, hc, _⟩ := identOk_cons hn
  have hws : isWs c = false := hs.word_not_ws (isStart_word hc)
  unfold parentP
  cases h : lits kwParent (c :: w ++ rest) with
  | none => simp
  | some r =>
    simp only [lits, List.cons_append, skipWs_cons hws] at h
    have heq := dropPrefix_eq_some h
    obtain ⟨n', hn', hr'⟩ := append_split (n := c :: w) heq.symm kwParent_not_stop hr
    have hlp : litc '(' r = none := by
      subst hr'
      cases n' with
      | nil => exact litc_none_of_head stopElem_ne_lparen hr
      | cons d n'' =>
        have hd : cc.isWord d = true := hall d (by rw [hn']; simp)
        exact litc_ne (hs.word_not_ws hd) (hs.word_ne hd (by simp [punctChars])) _
    simp [hlp]

theorem stop_head_not_word {cc : CC} (hs : cc.Sane) {rest : Str} (hr : HeadP stopElem rest) :
    HeadP (fun c => cc.isWord c = false) rest :=
  HeadP.mono (fun _ h => stop_not_word hs h) hr

theorem navP_consume {cc : CC} (hs : cc.Sane) {n rest : Str} (hn : identOk cc n = true)
    (hr : HeadP stopElem rest) : navP cc (n ++ rest) = some (Elem.nav n true none, rest) := by
  have hid := ident_print hs hn (stop_head_not_word hs hr)
  obtain ⟨c, w, rfl, hc, _⟩ := identOk_cons hn
  have hw := isStart_word hc
  have ht : litc '~' (c :: (w ++ rest)) = none :=
    litc_ne (hs.word_not_ws hw) (hs.word_ne hw (by simp [punctChars])) _
  simp only [List.cons_append] at hid ⊢
  simp [navP, ht, hid]

theorem navP_tilde {cc : CC} (hs : cc.Sane) {n rest : Str} (hn : identOk cc n = true)
    (hr : HeadP stopElem rest) : navP cc ('~' :: n ++ rest) = some (Elem.nav n false none, rest) := by
  have hid := ident_print hs hn (stop_head_not_word hs hr)
  have ht : litc '~' ('~' :: (n ++ rest)) = some (n ++ rest) := litc_self (by decide) _
  simp only [List.cons_append] at *
  simp [navP, ht, hid]

theorem navP_fixed {cc : CC} (hs : cc.Sane) {n fx rest : Str} (hn : identOk cc n = true)
    (hfx : printable fx = true) (hr : HeadP stopElem rest) :
    navP cc (quote fx ++ '~' :: n ++ rest) = some (Elem.nav n false (some fx), rest) := by
  have hid := ident_print hs hn (stop_head_not_word hs hr)
  have hstr := strP_quote hfx ('~' :: (n ++ rest))
  obtain ⟨q, tl, hq, hqq⟩ := quote_head fx
  have hqw : cc.isWord q = false := by
    rcases hqq with h | h <;> subst h <;> exact hs.punct _ (by simp [punctChars])
  have hqws : isWs q = false := by rcases hqq with h | h <;> subst h <;> decide
  have hqt : q ≠ '~' := by rcases hqq with h | h <;> subst h <;> decide
  have e : quote fx ++ '~' :: n ++ rest = q :: (tl ++ '~' :: (n ++ rest)) := by simp [hq]
  have ht : litc '~' (q :: (tl ++ '~' :: (n ++ rest))) = none := litc_ne hqws hqt _
  have hi : ident cc (q :: (tl ++ '~' :: (n ++ rest))) = none :=
    ident_none_of_not_start hqws (not_start_of_not_word hqw) _
  have hstr' : strP (q :: (tl ++ '~' :: (n ++ rest))) = some (fx, '~' :: (n ++ rest)) := by
    rw [← hstr, hq]; simp
  have ht2 : litc '~' ('~' :: (n ++ rest)) = some (n ++ rest) := litc_self (by decide) _
  rw [e]
  simp [navP, ht, hi, hstr', ht2, hid]

/-! ### `[rrel_zero_or_more, rrel_path_element]` on a printed element -/

/-- the nested-sequence parser reads back every printed well-formed sequence of depth `< d` -/
def Good (cc : CC) (seqP : SeqParser) (d : Nat) : Prop :=
  ∀ s rest, depthPaths s < d → wfSeq cc s = true → HeadP stopSeq rest →
    seqP (printSeq s ++ rest) = some (s, rest)

theorem stopElem_ne_star : ∀ c, stopElem c → isWs c = false ∧ c ≠ '*' := by
  intro c h
  rcases h with h | h | h <;> subst h <;> decide

theorem xP_of_pelem {cc : CC} {seqP : SeqParser} {inp rest : Str} {e : Elem}
    (h : pelemP cc seqP inp = some (e, rest)) (hr : HeadP stopElem rest) :
    xP cc seqP inp = some (e, rest) := by
  simp [xP, h, litc_none_of_head stopElem_ne_star hr]

theorem pelemP_parent {cc : CC} (hs : cc.Sane) (seqP : SeqParser) {t rest : Str} (ht : identOk cc t = true) :
    pelemP cc seqP (kwParent ++ '(' :: t ++ [')'] ++ rest) = some (Elem.parent t, rest) := by
  have hid : ident cc (t ++ ')' :: rest) = some (t, ')' :: rest) :=
    ident_print hs ht (hs.punct _ (by simp [punctChars]))
  have e : kwParent ++ '(' :: t ++ [')'] ++ rest = kwParent ++ '(' :: (t ++ ')' :: rest) := by simp
  have h1 : lits kwParent (kwParent ++ '(' :: (t ++ ')' :: rest)) = some ('(' :: (t ++ ')' :: rest)) := by
    simp [lits, kwParent, skipWs, isWs, dropPrefix]
  have h2 : litc '(' ('(' :: (t ++ ')' :: rest)) = some (t ++ ')' :: rest) := litc_self (by decide) _
  have h3 : litc ')' (')' :: rest) = some rest := litc_self (by decide) _
  rw [e]
  simp [pelemP, parentP, h1, h2, hid, h3]

theorem pelemP_nav_consume {cc : CC} (hs : cc.Sane) (seqP : SeqParser) {n rest : Str}
    (hn : identOk cc n = true) (hr : HeadP stopElem rest) :
    pelemP cc seqP (n ++ rest) = some (Elem.nav n true none, rest) := by
  have hp := parentP_ident_none hs hn hr
  have hnav := navP_consume hs hn hr
  obtain ⟨c, w, rfl, hc, _⟩ := identOk_cons hn
  have hw := isStart_word hc
  have hb : bracketsP seqP (c :: (w ++ rest)) = none :=
    bracketsP_none_of_head (hs.word_not_ws hw) (hs.word_ne hw (by simp [punctChars])) _ _
  simp only [List.cons_append] at hp hnav ⊢
  simp [pelemP, hp, hb, hnav]

theorem pelemP_nav_tilde {cc : CC} (hs : cc.Sane) (seqP : SeqParser) {n rest : Str}
    (hn : identOk cc n = true) (hr : HeadP stopElem rest) :
    pelemP cc seqP ('~' :: n ++ rest) = some (Elem.nav n false none, rest) := by
  have hnav := navP_tilde hs hn hr
  have hp : parentP cc ('~' :: (n ++ rest)) = none := parentP_none_of_head (by decide) (by decide) _
  have hb : bracketsP seqP ('~' :: (n ++ rest)) = none := bracketsP_none_of_head (by decide) (by decide) _ _
  simp only [List.cons_append] at hnav ⊢
  simp [pelemP, hp, hb, hnav]

theorem pelemP_nav_fixed {cc : CC} (hs : cc.Sane) (seqP : SeqParser) {n fx rest : Str}
    (hn : identOk cc n = true) (hfx : printable fx = true) (hr : HeadP stopElem rest) :
    pelemP cc seqP (quote fx ++ '~' :: n ++ rest) = some (Elem.nav n false (some fx), rest) := by
  have hnav := navP_fixed hs hn hfx hr
  obtain ⟨q, tl, hq, hqq⟩ := quote_head fx
  have hqws : isWs q = false := by rcases hqq with h | h <;> subst h <;> decide
  have hqp : q ≠ 'p' := by rcases hqq with h | h <;> subst h <;> decide
  have hqb : q ≠ '(' := by rcases hqq with h | h <;> subst h <;> decide
  have e : quote fx ++ '~' :: n ++ rest = q :: (tl ++ '~' :: (n ++ rest)) := by simp [hq]
  rw [e] at hnav ⊢
  have hp : parentP cc (q :: (tl ++ '~' :: (n ++ rest))) = none := parentP_none_of_head hqws hqp _
  have hb : bracketsP seqP (q :: (tl ++ '~' :: (n ++ rest))) = none := bracketsP_none_of_head hqws hqb _ _
  simp [pelemP, hp, hb, hnav]

theorem pelemP_brackets {cc : CC} {seqP : SeqParser} {d : Nat} (hg : Good cc seqP d) {s : Seq} {rest : Str}
    (hd : depthPaths s < d) (hw : wfSeq cc s = true) :
    pelemP cc seqP ('(' :: printSeq s ++ ')' :: rest) = some (Elem.brackets s, rest) := by
  have hseq := hg s (')' :: rest) hd hw rfl
  have hp : parentP cc ('(' :: (printSeq s ++ ')' :: rest)) = none := parentP_none_of_head (by decide) (by decide) _
  have h1 : litc '(' ('(' :: (printSeq s ++ ')' :: rest)) = some (printSeq s ++ ')' :: rest) := litc_self (by decide) _
  have h2 : litc ')' (')' :: rest) = some rest := litc_self (by decide) _
  simp only [List.cons_append]
  simp [pelemP, hp, bracketsP, h1, hseq, h2]

/-- every printed well-formed element other than dots is read back -/
theorem xP_print {cc : CC} (hs : cc.Sane) {seqP : SeqParser} {d : Nat} (hg : Good cc seqP d) {e : Elem} {rest : Str}
    (hd : depthElem e ≤ d) (hw : wfElem cc e = true) (hnd : e.isDots = false) (hr : HeadP stopElem rest) :
    xP cc seqP (printElem e ++ rest) = some (e, rest) := by
  cases e with
  | parent t =>
    simp only [wfElem] at hw
    exact xP_of_pelem (by simpa [printElem] using pelemP_parent hs seqP hw) hr
  | nav n c f =>
    simp only [wfElem, Bool.and_eq_true] at hw
    cases f with
    | none =>
      cases c with
      | true => exact xP_of_pelem (by simpa [printElem] using pelemP_nav_consume hs seqP hw.1 hr) hr
      | false => exact xP_of_pelem (by simpa [printElem] using pelemP_nav_tilde hs seqP hw.1 hr) hr
    | some fx =>
      have h2 := hw.2
      simp only [Bool.and_eq_true, Bool.not_eq_true'] at h2
      obtain ⟨hc, hfx⟩ := h2
      subst hc
      exact xP_of_pelem (by simpa [printElem] using pelemP_nav_fixed hs seqP hw.1 hfx hr) hr
  | brackets s =>
    have hw' : wfSeq cc s = true := by simpa [wfElem, wfSeq] using hw
    have hd' : depthPaths s < d := by simp only [depthElem] at hd; omega
    have := pelemP_brackets (rest := rest) hg hd' hw'
    exact xP_of_pelem (by simpa [printElem, printSeq] using this) hr
  | star s =>
    have hw' : wfSeq cc s = true := by simpa [wfElem, wfSeq] using hw
    have hd' : depthPaths s < d := by simp only [depthElem] at hd; omega
    have hp := pelemP_brackets (rest := '*' :: rest) hg hd' hw'
    have h3 : litc '*' ('*' :: rest) = some rest := litc_self (by decide) _
    have e : printElem (Elem.star s) ++ rest = '(' :: printSeq s ++ ')' :: '*' :: rest := by
      simp [printElem, printSeq]
    rw [e]
    simp only [List.cons_append] at hp ⊢
    simp [xP, hp, h3, mkStar]
  | dots n => simp [Elem.isDots] at hnd

theorem stopPath_not_p : ∀ c, stopPath c → isWs c = false ∧ c ≠ 'p' ∧ c ≠ '(' ∧ c ≠ '~' ∧ c ≠ '\'' ∧ c ≠ '"' := by
  intro c h
  rcases h with h | h <;> subst h <;> decide

/-- nothing that can follow a path starts a path element -/
theorem xP_none_of_stop {cc : CC} (hs : cc.Sane) (seqP : SeqParser) {rest : Str} (hr : HeadP stopPath rest) :
    xP cc seqP rest = none := by
  cases rest with
  | nil => simp [xP, pelemP, parentP_nil, bracketsP_nil, navP, litc_nil, ident_nil, strP, skipWs]
  | cons c r =>
    obtain ⟨hws, hp, hb, ht, hq1, hq2⟩ := stopPath_not_p c hr
    have hnw : cc.isWord c = false := stop_not_word hs (stopPath_elem hr)
    have hid : ident cc (c :: r) = none := ident_none_of_not_start hws (not_start_of_not_word hnw) _
    have hstr : strP (c :: r) = none := by simp [strP, skipWs_cons hws, hq1, hq2]
    simp [xP, pelemP, parentP_none_of_head hws hp, bracketsP_none_of_head hws hb, navP, litc_ne hws ht, hid, hstr]

/-! ### `(X sep)* X` on a printed list -/

theorem joinSep_cons_ne (sep : Char) (x : Str) {l : List Str} (h : l ≠ []) :
    joinSep sep (x :: l) = x ++ sep :: joinSep sep l := by
  cases l with
  | nil => exact absurd rfl h
  | cons y r => simp [joinSep]

theorem joinSep_single (sep : Char) (x : Str) : joinSep sep [x] = x := by simp [joinSep]

theorem length_joinSep_ge (sep : Char) : ∀ (l : List Str), l.length ≤ (joinSep sep l).length + 1
  | [] => by simp
  | [x] => by simp [joinSep]
  | x :: y :: r => by
    have := length_joinSep_ge sep (y :: r)
    simp only [joinSep, List.length_cons, List.length_append] at this ⊢
    omega

section SepList
variable {α : Type} (X : Str → Option (α × Str)) (sep : Char) (pr : α → Str) (ok : α → Prop) (Stop : Char → Prop)

theorem manySep_print
    (hX : ∀ a rest, ok a → HeadP (fun c => Stop c ∨ c = sep) rest → X (pr a ++ rest) = some (a, rest))
    (hsep : isWs sep = false) (hstop : ∀ c, Stop c → isWs c = false ∧ c ≠ sep) :
    ∀ (init : List α) (z : α) (k : Nat) (rest : Str), init.length ≤ k → (∀ a ∈ init, ok a) → ok z →
      HeadP Stop rest →
      manySep X sep k (joinSep sep ((init ++ [z]).map pr) ++ rest) = (init, pr z ++ rest) := by
  intro init
  induction init with
  | nil =>
    intro z k rest _ _ hz hr
    simp only [List.nil_append, List.map_cons, List.map_nil, joinSep_single]
    cases k with
    | zero => simp [manySep]
    | succ k =>
      have h1 := hX z rest hz (HeadP.mono (fun _ h => Or.inl h) hr)
      have h2 : litc sep rest = none := litc_none_of_head hstop hr
      simp [manySep, h1, h2]
  | cons a init ih =>
    intro z k rest hk hall hz hr
    cases k with
    | zero => simp at hk
    | succ k =>
      have hne : (init ++ [z]).map pr ≠ [] := by simp
      have e : joinSep sep ((a :: init ++ [z]).map pr) ++ rest =
          pr a ++ sep :: (joinSep sep ((init ++ [z]).map pr) ++ rest) := by
        simp only [List.cons_append, List.map_cons]
        rw [joinSep_cons_ne sep (pr a) hne]
        simp
      have h1 := hX a (sep :: (joinSep sep ((init ++ [z]).map pr) ++ rest)) (hall a (by simp)) (Or.inr rfl)
      have h2 : litc sep (sep :: (joinSep sep ((init ++ [z]).map pr) ++ rest)) = some _ := litc_self hsep _
      have h3 := ih z k rest (by simp at hk; omega) (fun x hx => hall x (by simp [hx])) hz hr
      rw [e]
      simp only [manySep, h1, h2, h3]

theorem sepList_print
    (hX : ∀ a rest, ok a → HeadP (fun c => Stop c ∨ c = sep) rest → X (pr a ++ rest) = some (a, rest))
    (hsep : isWs sep = false) (hstop : ∀ c, Stop c → isWs c = false ∧ c ≠ sep)
    {l : List α} (hne : l ≠ []) (hall : ∀ a ∈ l, ok a) {rest : Str} (hr : HeadP Stop rest) :
    sepList X sep (joinSep sep (l.map pr) ++ rest) = some (l, rest) := by
  obtain ⟨init, z, rfl⟩ : ∃ init z, l = init ++ [z] :=
    ⟨l.dropLast, l.getLast hne, (List.dropLast_concat_getLast hne).symm⟩
  have hk : init.length ≤ (joinSep sep ((init ++ [z]).map pr) ++ rest).length := by
    have := length_joinSep_ge sep ((init ++ [z]).map pr)
    simp only [List.length_map, List.length_append, List.length_cons, List.length_nil] at this ⊢
    omega
  have hm := manySep_print X sep pr ok Stop hX hsep hstop init z _ rest hk
    (fun a ha => hall a (by simp [ha])) (hall z (by simp)) hr
  have hz := hX z rest (hall z (by simp)) (HeadP.mono (fun _ h => Or.inl h) hr)
  simp only [sepList, hm, hz, Option.map_some]

theorem manySep_none {k : Nat} {inp : Str} (h : X inp = none) : manySep X sep k inp = ([], inp) := by
  cases k <;> simp [manySep, h]

theorem sepList_none {inp : Str} (h : X inp = none) : sepList X sep inp = none := by
  simp [sepList, manySep_none X sep h, h]

end SepList

/-! ### paths and sequences -/

theorem printElems_eq_map : ∀ (es : List Elem), printElems es = es.map printElem
  | [] => by simp [printElems]
  | e :: es => by simp [printElems, printElems_eq_map es]

theorem printPaths_eq_map : ∀ (ps : List (List Elem)), printPaths ps = ps.map printPath
  | [] => by simp [printPaths]
  | p :: ps => by simp [printPaths, printPaths_eq_map ps]

/-- first character of a printed element: no whitespace, none of `^ . +` -/
def FirstOk (c : Char) : Prop := isWs c = false ∧ c ≠ '^' ∧ c ≠ '.' ∧ c ≠ '+'

instance (c : Char) : Decidable (FirstOk c) := by unfold FirstOk; infer_instance

theorem printElem_first {cc : CC} (hs : cc.Sane) {e : Elem} (hw : wfElem cc e = true) (hnd : e.isDots = false) :
    ∃ c tl, printElem e = c :: tl ∧ FirstOk c := by
  have word_first : ∀ {c : Char}, cc.isStart c = true → FirstOk c := by
    intro c hc
    have hw := isStart_word hc
    exact ⟨hs.word_not_ws hw, hs.word_ne hw (by simp [punctChars]), hs.word_ne hw (by simp [punctChars]),
      hs.word_ne hw (by simp [punctChars])⟩
  cases e with
  | parent t => exact ⟨'p', ['a', 'r', 'e', 'n', 't'] ++ '(' :: t ++ [')'], by simp [printElem, kwParent], by decide⟩
  | nav n c f =>
    simp only [wfElem, Bool.and_eq_true] at hw
    obtain ⟨c0, w, rfl, hc0, _⟩ := identOk_cons hw.1
    cases f with
    | some fx =>
      obtain ⟨q, tl, hq, hqq⟩ := quote_head fx
      refine ⟨q, tl ++ '~' :: c0 :: w, by simp [printElem, hq], ?_⟩
      rcases hqq with h | h <;> subst h <;> decide
    | none =>
      cases c with
      | true => exact ⟨c0, w, by simp [printElem], word_first hc0⟩
      | false => exact ⟨'~', c0 :: w, by simp [printElem], by decide⟩
  | brackets s => exact ⟨'(', joinSep ',' (printPaths s) ++ [')'], by simp [printElem], by decide⟩
  | star s => exact ⟨'(', joinSep ',' (printPaths s) ++ [')', '*'], by simp [printElem], by decide⟩
  | dots n => simp [Elem.isDots] at hnd

theorem dotsP_of_first {c : Char} (h : FirstOk c) (r : Str) : dotsP (c :: r) = none := by
  simp [dotsP, skipWs_cons h.1, h.2.2.1]

theorem dotsP_print {n : Nat} (hn : 0 < n) {tail : Str} (ht : HeadP (fun c => c ≠ '.') tail) :
    dotsP (List.replicate n '.' ++ tail) = some (n, tail) := by
  obtain ⟨m, rfl⟩ : ∃ m, n = m + 1 := ⟨n - 1, by omega⟩
  have := takeWhile_append_stop (p := fun c => decide (c = '.')) (w := List.replicate m '.') (rest := tail)
    (by intro c hc; simp [List.eq_of_mem_replicate hc])
    (HeadP.mono (fun c h => by simpa using h) ht)
  simp only [List.replicate_succ, List.cons_append]
  simp [dotsP, skipWs, isWs, this]
  omega

theorem wfTail_all {cc : CC} : ∀ {es : List Elem}, wfTail cc es = true →
    ∀ e ∈ es, wfElem cc e = true ∧ e.isDots = false
  | [], _ => by simp
  | e :: es, h => by
    simp only [wfTail, Bool.and_eq_true, Bool.not_eq_true'] at h
    intro x hx
    rcases List.mem_cons.mp hx with rfl | hx
    · exact ⟨h.1.2, h.1.1⟩
    · exact wfTail_all h.2 x hx

theorem depthPath_mem : ∀ {es : List Elem} {e : Elem}, e ∈ es → depthElem e ≤ depthPath es
  | e' :: es, e, h => by
    simp only [depthPath]
    rcases List.mem_cons.mp h with rfl | h
    · omega
    · have := depthPath_mem h; omega

theorem depthPaths_mem : ∀ {ps : List (List Elem)} {p : List Elem}, p ∈ ps → depthPath p ≤ depthPaths ps
  | p' :: ps, p, h => by
    simp only [depthPaths]
    rcases List.mem_cons.mp h with rfl | h
    · omega
    · have := depthPaths_mem h; omega

theorem stopPath_ne_dot : ∀ c, stopPath c → isWs c = false ∧ c ≠ '.' := by
  intro c h
  rcases h with h | h <;> subst h <;> decide

theorem stopSeq_ne_comma : ∀ c, stopSeq c → isWs c = false ∧ c ≠ ',' := by
  intro c h
  subst h; decide

/-- `(X ".")* X` reads back the printed elements of a path (no dots among them) -/
theorem elems_print {cc : CC} (hs : cc.Sane) {seqP : SeqParser} {d : Nat} (hg : Good cc seqP d)
    {es : List Elem} (hne : es ≠ []) (hall : ∀ e ∈ es, wfElem cc e = true ∧ e.isDots = false)
    (hd : depthPath es ≤ d) {rest : Str} (hr : HeadP stopPath rest) :
    sepList (xP cc seqP) '.' (joinSep '.' (printElems es) ++ rest) = some (es, rest) := by
  rw [printElems_eq_map]
  refine sepList_print (xP cc seqP) '.' printElem
    (fun e => depthElem e ≤ d ∧ wfElem cc e = true ∧ e.isDots = false) stopPath ?_ (by decide)
    stopPath_ne_dot hne ?_ hr
  · intro e rest' ⟨h1, h2, h3⟩ hr'
    refine xP_print hs hg h1 h2 h3 (HeadP.mono ?_ hr')
    intro c hc
    rcases hc with hc | hc
    · exact stopPath_elem hc
    · exact Or.inl hc
  · intro e he
    exact ⟨Nat.le_trans (depthPath_mem he) hd, hall e he⟩

theorem joinSep_first {sep : Char} {x : Str} {c : Char} {tl : Str} (h : x = c :: tl) (l : List Str) :
    ∃ tl', joinSep sep (x :: l) = c :: tl' := by
  cases l with
  | nil => exact ⟨tl, by simp [joinSep, h]⟩
  | cons y r => exact ⟨tl ++ sep :: joinSep sep (y :: r), by simp [joinSep, h]⟩

theorem pathP_print {cc : CC} (hs : cc.Sane) {seqP : SeqParser} {d : Nat} (hg : Good cc seqP d)
    {p : List Elem} (hw : wfPath cc p = true) (hd : depthPath p ≤ d) {rest : Str} (hr : HeadP stopPath rest) :
    pathP cc seqP (printPath p ++ rest) = some (p, rest) := by
  cases p with
  | nil => simp [wfPath] at hw
  | cons e es =>
    simp only [wfPath, Bool.and_eq_true] at hw
    have htail := wfTail_all hw.2
    have hdes : depthPath es ≤ d := by simp only [depthPath] at hd; omega
    by_cases hdots : e.isDots = true
    · -- leading dots
      cases e with
      | dots n =>
        have hn : 0 < n := by simpa [wfElem] using hw.1
        have hcaret : ∀ tail, litc '^' (List.replicate n '.' ++ tail) = none := by
          intro tail
          obtain ⟨m, rfl⟩ : ∃ m, n = m + 1 := ⟨n - 1, by omega⟩
          simp only [List.replicate_succ, List.cons_append]
          exact litc_ne (by decide) (by decide) _
        cases es with
        | nil =>
          have hdp : dotsP (List.replicate n '.' ++ rest) = some (n, rest) :=
            dotsP_print hn (HeadP.mono (fun c h => (stopPath_ne_dot c h).2) hr)
          have hx : sepList (xP cc seqP) '.' rest = none :=
            sepList_none _ _ (xP_none_of_stop hs seqP hr)
          simp [printPath, printElems, joinSep, pathP, hcaret, hdp, hx]
        | cons e2 es2 =>
          have he2 := htail e2 (by simp)
          obtain ⟨c, tl, hc, hfirst⟩ := printElem_first hs he2.1 he2.2
          obtain ⟨tl', htl'⟩ := joinSep_first (sep := '.') hc (printElems es2)
          have hdp : dotsP (List.replicate n '.' ++ (joinSep '.' (printElems (e2 :: es2)) ++ rest)) =
              some (n, joinSep '.' (printElems (e2 :: es2)) ++ rest) := by
            refine dotsP_print hn ?_
            simp only [printElems, htl', List.cons_append]
            exact hfirst.2.2.1
          have hl := elems_print hs hg (es := e2 :: es2) (by simp) htail hdes hr
          simp [printPath, pathP, hcaret, hdp, hl]
      | parent _ => simp [Elem.isDots] at hdots
      | nav _ _ _ => simp [Elem.isDots] at hdots
      | brackets _ => simp [Elem.isDots] at hdots
      | star _ => simp [Elem.isDots] at hdots
    · have hnd : e.isDots = false := by simpa using hdots
      have hall : ∀ x ∈ e :: es, wfElem cc x = true ∧ x.isDots = false := by
        intro x hx
        rcases List.mem_cons.mp hx with rfl | hx
        · exact ⟨hw.1, hnd⟩
        · exact htail x hx
      have hl := elems_print hs hg (es := e :: es) (by simp) hall hd hr
      obtain ⟨c, tl, hc, hfirst⟩ := printElem_first hs hw.1 hnd
      obtain ⟨tl', htl'⟩ := joinSep_first (sep := '.') hc (printElems es)
      have hpp : printPath (e :: es) = joinSep '.' (printElems (e :: es)) := by
        cases e <;> simp_all [printPath, printElems, Elem.isDots]
      rw [hpp] at *
      simp only [printElems] at hl ⊢
      rw [htl'] at hl ⊢
      simp only [List.cons_append] at hl ⊢
      have h1 : litc '^' (c :: (tl' ++ rest)) = none := litc_ne hfirst.1 hfirst.2.1 _
      have h2 : dotsP (c :: (tl' ++ rest)) = none := dotsP_of_first hfirst _
      simp [pathP, h1, h2, hl]

theorem wfPaths_all {cc : CC} : ∀ {ps : List (List Elem)}, wfPaths cc ps = true → ∀ p ∈ ps, wfPath cc p = true
  | [], _ => by simp
  | p :: ps, h => by
    simp only [wfPaths, Bool.and_eq_true] at h
    intro x hx
    rcases List.mem_cons.mp hx with rfl | hx
    · exact h.1
    · exact wfPaths_all h.2 x hx

theorem seqWith_print {cc : CC} (hs : cc.Sane) {seqP : SeqParser} {d : Nat} (hg : Good cc seqP d)
    {s : Seq} (hw : wfSeq cc s = true) (hd : depthPaths s ≤ d) {rest : Str} (hr : HeadP stopSeq rest) :
    seqWith cc seqP (printSeq s ++ rest) = some (s, rest) := by
  simp only [wfSeq, Bool.and_eq_true, Bool.not_eq_true', List.isEmpty_eq_false_iff] at hw
  unfold seqWith printSeq
  rw [printPaths_eq_map]
  refine sepList_print (pathP cc seqP) ',' printPath
    (fun p => depthPath p ≤ d ∧ wfPath cc p = true) stopSeq ?_ (by decide) stopSeq_ne_comma hw.2 ?_ hr
  · intro p rest' ⟨h1, h2⟩ hr'
    refine pathP_print hs hg h2 h1 (HeadP.mono ?_ hr')
    intro c hc
    rcases hc with hc | hc
    · exact stopSeq_path hc
    · exact Or.inl hc
  · intro p hp
    exact ⟨Nat.le_trans (depthPaths_mem hp) hd, wfPaths_all hw.1 p hp⟩

theorem good_parseSeq {cc : CC} (hs : cc.Sane) : ∀ n, Good cc (parseSeq cc n) n
  | 0 => by intro s rest hd; omega
  | n + 1 => by
    intro s rest hd hw hr
    exact seqWith_print hs (good_parseSeq hs n) hw (by omega) hr

/-! ### the nesting fuel `length + 1` is enough -/

theorem length_joinSep_cons_ge (sep : Char) (x : Str) (l : List Str) :
    x.length ≤ (joinSep sep (x :: l)).length ∧ (joinSep sep l).length ≤ (joinSep sep (x :: l)).length := by
  cases l with
  | nil => simp [joinSep]
  | cons y r => simp only [joinSep, List.length_append, List.length_cons]; omega

mutual
theorem depthElem_le : ∀ (e : Elem), depthElem e ≤ (printElem e).length
  | .parent _ => by simp [depthElem]
  | .nav _ _ _ => by simp [depthElem]
  | .dots _ => by simp [depthElem]
  | .brackets s => by
    have := depthPaths_le s
    simp only [depthElem, printElem, List.length_cons, List.length_append, List.length_nil]
    omega
  | .star s => by
    have := depthPaths_le s
    simp only [depthElem, printElem, List.length_cons, List.length_append, List.length_nil]
    omega
theorem depthElems_le : ∀ (es : List Elem), depthPath es ≤ (joinSep '.' (printElems es)).length
  | [] => by simp [depthPath]
  | e :: es => by
    have h1 := depthElem_le e
    have h2 := depthElems_le es
    have := length_joinSep_cons_ge '.' (printElem e) (printElems es)
    simp only [depthPath, printElems]
    omega
theorem depthPaths_le : ∀ (ps : List (List Elem)), depthPaths ps ≤ (joinSep ',' (printPaths ps)).length
  | [] => by simp [depthPaths]
  | p :: ps => by
    have h2 := depthPaths_le ps
    have := length_joinSep_cons_ge ',' (printPath p) (printPaths ps)
    have h1 : depthPath p ≤ (printPath p).length := by
      cases p with
      | nil => simp [depthPath]
      | cons e es =>
        have h3 := depthElems_le (e :: es)
        have h4 := depthElems_le es
        cases e <;> simp only [printPath, depthPath, depthElem, printElems, List.length_append] at * <;> omega
    simp only [depthPaths, printPaths]
    omega
end

/-! ### flags -/

theorem flagsP_print {fl : Str} (hne : fl ≠ []) (hmp : fl.all isMP = true) (tail : Str) :
    flagsP ('+' :: fl ++ ':' :: tail) = some (fl, tail) := by
  have := takeWhile_append_stop (p := isMP) (w := fl) (rest := ':' :: tail)
    (by simpa using hmp) (show isMP ':' = false by decide)
  cases fl with
  | nil => exact absurd rfl hne
  | cons c fl' =>
    simp only [List.cons_append] at this ⊢
    simp [flagsP, skipWs, isWs, this]

theorem flagsP_of_first {c : Char} (h : FirstOk c) (r : Str) : flagsP (c :: r) = none := by
  simp [flagsP, skipWs_cons h.1, h.2.2.2]

theorem printPath_first {cc : CC} (hs : cc.Sane) {p : List Elem} (hw : wfPath cc p = true) :
    ∃ c tl, printPath p = c :: tl ∧ isWs c = false ∧ c ≠ '+' := by
  cases p with
  | nil => simp [wfPath] at hw
  | cons e es =>
    simp only [wfPath, Bool.and_eq_true] at hw
    cases e with
    | dots n =>
      have hn : 0 < n := by simpa [wfElem] using hw.1
      obtain ⟨m, rfl⟩ : ∃ m, n = m + 1 := ⟨n - 1, by omega⟩
      exact ⟨'.', List.replicate m '.' ++ joinSep '.' (printElems es), by simp [printPath, List.replicate_succ],
        by decide, by decide⟩
    | parent t =>
      obtain ⟨c, tl, hc, hf⟩ := printElem_first hs hw.1 rfl
      obtain ⟨tl', h⟩ := joinSep_first (sep := '.') hc (printElems es)
      exact ⟨c, tl', by simpa [printPath] using h, hf.1, hf.2.2.2⟩
    | nav n c0 f =>
      obtain ⟨c, tl, hc, hf⟩ := printElem_first hs hw.1 rfl
      obtain ⟨tl', h⟩ := joinSep_first (sep := '.') hc (printElems es)
      exact ⟨c, tl', by simpa [printPath] using h, hf.1, hf.2.2.2⟩
    | brackets s =>
      obtain ⟨c, tl, hc, hf⟩ := printElem_first hs hw.1 rfl
      obtain ⟨tl', h⟩ := joinSep_first (sep := '.') hc (printElems es)
      exact ⟨c, tl', by simpa [printPath] using h, hf.1, hf.2.2.2⟩
    | star s =>
      obtain ⟨c, tl, hc, hf⟩ := printElem_first hs hw.1 rfl
      obtain ⟨tl', h⟩ := joinSep_first (sep := '.') hc (printElems es)
      exact ⟨c, tl', by simpa [printPath] using h, hf.1, hf.2.2.2⟩

theorem printSeq_first {cc : CC} (hs : cc.Sane) {s : Seq} (hw : wfSeq cc s = true) :
    ∃ c tl, printSeq s = c :: tl ∧ isWs c = false ∧ c ≠ '+' := by
  simp only [wfSeq, Bool.and_eq_true, Bool.not_eq_true', List.isEmpty_eq_false_iff] at hw
  cases s with
  | nil => exact absurd rfl hw.2
  | cons p ps =>
    obtain ⟨c, tl, hc, hf⟩ := printPath_first hs (wfPaths_all hw.1 p (by simp))
    obtain ⟨tl', h⟩ := joinSep_first (sep := ',') hc (printPaths ps)
    exact ⟨c, tl', by simpa [printSeq, printPaths] using h, hf⟩

/-- a printed well-formed sequence is read back with any fuel above its length -/
theorem parseSeq_print {cc : CC} (hs : cc.Sane) {s : Seq} (hw : wfSeq cc s = true) {n : Nat}
    (hn : (printSeq s).length < n) : parseSeq cc n (printSeq s) = some (s, []) := by
  have hd : depthPaths s < n := Nat.lt_of_le_of_lt (depthPaths_le s) hn
  have := good_parseSeq hs n s [] hd hw trivial
  simpa using this

theorem parse_of_flags {cc : CC} {inp fl rest : Str} {s : Seq} (hf : flagsP inp = some (fl, rest))
    (hp : parseSeq cc (inp.length + 1) rest = some (s, [])) : parse cc inp = some ⟨s, fl⟩ := by
  simp [parse, hf, hp, skipWs]

theorem parse_of_noflags {cc : CC} {inp : Str} {s : Seq} (hf : flagsP inp = none)
    (hp : parseSeq cc (inp.length + 1) inp = some (s, [])) : parse cc inp = some ⟨s, []⟩ := by
  simp [parse, hf, hp, skipWs]

theorem parse_print {cc : CC} (hs : cc.Sane) {e : Expr} (hw : wfExpr cc e = true) :
    parse cc (printExpr e) = some e := by
  obtain ⟨s, fl⟩ := e
  simp only [wfExpr, Bool.and_eq_true] at hw
  by_cases hfl : fl = []
  · subst hfl
    obtain ⟨c, tl, hc, hws, hplus⟩ := printSeq_first hs hw.2
    have hf : flagsP (printSeq s) = none := by
      rw [hc]
      simp [flagsP, skipWs_cons hws, hplus]
    have e : printExpr ⟨s, []⟩ = printSeq s := by simp [printExpr]
    rw [e]
    exact parse_of_noflags hf (parseSeq_print hs hw.2 (by omega))
  · have hf := flagsP_print hfl hw.1 (printSeq s)
    have hemp : fl.isEmpty = false := by simpa using hfl
    have e : printExpr ⟨s, fl⟩ = '+' :: fl ++ ':' :: printSeq s := by simp [printExpr, hemp]
    rw [e]
    exact parse_of_flags hf (parseSeq_print hs hw.2
      (by simp only [List.length_cons, List.length_append]; omega))

end RrelSyntax
