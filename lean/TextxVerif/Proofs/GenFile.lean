import TextxVerif.Out.GenFile
/-!
Helper lemmas for C31: what one export leaves behind, and the invariant of
`gen_file` histories.
-/
namespace GenFile

theorem FS.set_apply (fs : FS) (p q : Path) (c : Option Content) :
    (fs.set p c) q = if q = p then c else fs q := rfl

theorem tmpOf_out (n : Nat) : tmpOf (.out n) = .tmp n := rfl

theorem written_ok (chunks : List Nat) (crash : Crash) (h : (written chunks crash).2 = true) :
    (written chunks crash).1 = fullContent chunks := by
  unfold written at h ⊢
  cases crash with
  | atWrite k partly =>
    simp only at h ⊢
    by_cases hk : k < chunks.length
    · simp [hk] at h
    · simp [hk]
  | none => rfl
  | atOpen => rfl
  | atClose => rfl
  | atReplace => rfl

/-- when does the write phase get through -/
theorem written_ok_iff (chunks : List Nat) (crash : Crash) :
    (written chunks crash).2 = true ↔ ∀ k partly, crash = .atWrite k partly → chunks.length ≤ k := by
  unfold written
  cases crash with
  | atWrite k partly =>
    simp only
    by_cases hk : k < chunks.length
    · simp only [hk, if_true]
      constructor
      · intro h; cases h
      · intro h; have := h k partly rfl; omega
    · simp only [hk, if_false, true_iff]
      intro k' p' e; cases e; omega
  | none => simp
  | atOpen => simp
  | atClose => simp
  | atReplace => simp

/-- a failed export leaves every path as it was, except that its temporary sibling is gone -/
theorem exportNew_failed (fs : FS) (n : Nat) (chunks : List Nat) (crash : Crash)
    (h : (exportNew fs (.out n) chunks crash).2 = false) (q : Path) :
    (exportNew fs (.out n) chunks crash).1 q = if q = .tmp n then none else fs q := by
  cases crash with
  | atOpen => simp [exportNew, FS.set_apply, tmpOf_out]
  | none => simp [exportNew, written] at h
  | atClose =>
    simp only [exportNew, tmpOf_out, decide_true, Bool.or_true, Bool.true_or, if_true, FS.set_apply]
    by_cases hq : q = .tmp n <;> simp [hq]
  | atReplace =>
    simp only [exportNew, tmpOf_out, decide_true, Bool.or_true, if_true, FS.set_apply]
    by_cases hq : q = .tmp n <;> simp [hq]
  | atWrite k partly =>
    by_cases hk : k < chunks.length
    · simp only [exportNew, tmpOf_out, written, hk, if_true, Bool.not_false, Bool.true_or, FS.set_apply]
      by_cases hq : q = .tmp n <;> simp [hq]
    · simp [exportNew, written, hk] at h

/-- a successful export: the target holds the complete content, the temporary is gone, the rest is untouched -/
theorem exportNew_ok (fs : FS) (n : Nat) (chunks : List Nat) (crash : Crash)
    (h : (exportNew fs (.out n) chunks crash).2 = true) (q : Path) :
    (exportNew fs (.out n) chunks crash).1 q =
      if q = .out n then some (fullContent chunks) else if q = .tmp n then none else fs q := by
  cases crash with
  | atOpen => simp [exportNew] at h
  | atClose => simp [exportNew] at h
  | atReplace => simp [exportNew] at h
  | none =>
    simp only [exportNew, tmpOf_out, written, Bool.not_true, reduceCtorEq, decide_false, Bool.or_false,
      Bool.false_eq_true, if_false, FS.set_apply]
    by_cases hq : q = .out n
    · simp [hq]
    · by_cases hq2 : q = .tmp n <;> simp [hq, hq2]
  | atWrite k partly =>
    by_cases hk : k < chunks.length
    · simp [exportNew, written, hk] at h
    · simp only [exportNew, tmpOf_out, written, hk, if_false, Bool.not_true, reduceCtorEq, decide_false,
        Bool.or_false, Bool.false_eq_true, FS.set_apply]
      by_cases hq : q = .out n
      · simp [hq]
      · by_cases hq2 : q = .tmp n <;> simp [hq, hq2]

/-- the export returns normally iff no operation of its sequence raised -/
theorem exportNew_ok_iff (fs : FS) (p : Path) (chunks : List Nat) (crash : Crash) :
    (exportNew fs p chunks crash).2 = true ↔
      crash = .none ∨ ∃ k partly, crash = .atWrite k partly ∧ chunks.length ≤ k := by
  unfold exportNew
  cases crash with
  | atOpen => simp
  | atClose => simp
  | atReplace => simp
  | none => simp [written]
  | atWrite k partly =>
    simp only [written]
    by_cases hk : k < chunks.length
    · simp [hk]
    · simp [hk]; omega

/-! ## histories -/

/-- `S n c`: content `c` is acceptable for output file `n`; no temporary file exists -/
def Inv (S : Nat → Content → Prop) (fs : FS) : Prop :=
  (∀ n c, fs (.out n) = some c → S n c) ∧ ∀ n, fs (.tmp n) = none

theorem genFile_inv (S : Nat → Content → Prop) (fs : FS) (hinv : Inv S fs)
    (n : Nat) (ov : Bool) (chunks : List Nat) (crash : Crash) :
    Inv (fun m c => S m c ∨
        ((genFile exportNew fs (.out n) ov chunks crash).2 = .done ∧ m = n ∧ c = fullContent chunks))
      (genFile exportNew fs (.out n) ov chunks crash).1 := by
  obtain ⟨h1, h2⟩ := hinv
  unfold genFile
  split
  · -- the export runs
    cases hok : (exportNew fs (.out n) chunks crash).2 with
    | true =>
      have hq := exportNew_ok fs n chunks crash hok
      constructor
      · intro m c hm
        simp only at hm
        rw [hq] at hm
        by_cases hmn : m = n
        · subst hmn
          simp only [if_true, Option.some.injEq] at hm
          exact .inr ⟨by simp [hok], rfl, hm.symm⟩
        · have : Path.out m ≠ Path.out n := fun e => hmn (by cases e; rfl)
          simp only [this, if_false, reduceCtorEq] at hm
          exact .inl (h1 m c hm)
      · intro m
        simp only
        rw [hq]
        by_cases hmn : m = n <;> simp [hmn, h2]
    | false =>
      have hq := exportNew_failed fs n chunks crash hok
      constructor
      · intro m c hm
        simp only at hm
        rw [hq] at hm
        simp only [reduceCtorEq, if_false] at hm
        exact .inl (h1 m c hm)
      · intro m
        simp only
        rw [hq]
        by_cases hmn : m = n <;> simp [hmn, h2]
  · exact ⟨fun m c hm => .inl (h1 m c hm), h2⟩

/-- the complete outputs of the runs of a history that completed, per output file -/
def Produced (runs : List Run) (outs : List Outcome) (n : Nat) (c : Content) : Prop :=
  ∃ r, (r, Outcome.done) ∈ runs.zip outs ∧ r.path = n ∧ c = fullContent r.chunks

theorem runAll_length (exp : FS → Path → List Nat → Crash → FS × Bool) (fs : FS) (runs : List Run) :
    (runAll exp fs runs).2.length = runs.length := by
  induction runs generalizing fs with
  | nil => simp [runAll]
  | cons r rs ih => simp [runAll, ih]

theorem runAll_inv (S : Nat → Content → Prop) (fs : FS) (hinv : Inv S fs) (runs : List Run) :
    Inv (fun m c => S m c ∨ Produced runs (runAll exportNew fs runs).2 m c)
      (runAll exportNew fs runs).1 := by
  induction runs generalizing fs S with
  | nil =>
    obtain ⟨h1, h2⟩ := hinv
    exact ⟨fun m c hm => .inl (h1 m c hm), h2⟩
  | cons r rs ih =>
    have hstep := genFile_inv S fs hinv r.path r.overwrite r.chunks r.crash
    have hrest := ih _ _ hstep
    obtain ⟨h1, h2⟩ := hrest
    refine ⟨?_, ?_⟩
    · intro m c hm
      simp only [runAll] at hm ⊢
      rcases h1 m c hm with (hS | ⟨hd, hmn, hc⟩) | ⟨r', hmem, hp, hc⟩
      · exact .inl hS
      · refine .inr ⟨r, ?_, hmn.symm, hc⟩
        simp only [List.zip_cons_cons, List.mem_cons]
        exact .inl (by rw [hd])
      · refine .inr ⟨r', ?_, hp, hc⟩
        simp only [List.zip_cons_cons, List.mem_cons]
        exact .inr hmem
    · intro m
      simp only [runAll]
      exact h2 m

theorem inv_empty : Inv (fun _ _ => False) FS.empty :=
  ⟨fun _ _ h => by simp [FS.empty] at h, fun _ => rfl⟩

/-! ## the driver's `traceOn` is `runAll` observed after every run -/

theorem traceOn_outcomes (exp : FS → Path → List Nat → Crash → FS × Bool) (ps : List Nat) (fs : FS)
    (runs : List Run) : (traceOn exp ps fs runs).map (·.1) = (runAll exp fs runs).2 := by
  induction runs generalizing fs with
  | nil => simp [traceOn, runAll]
  | cons r rs ih => simp [traceOn, runAll, ih]

/-- step `k` of `traceOn` lists, for every requested output file, the content and the presence of the
temporary sibling in the file system reached by the first `k+1` runs -/
theorem traceOn_states (exp : FS → Path → List Nat → Crash → FS × Bool) (ps : List Nat) (fs : FS)
    (runs : List Run) (k : Nat) (hk : k < runs.length) :
    ((traceOn exp ps fs runs)[k]?).map (·.2.2.2) =
      some (ps.map fun n => ((runAll exp fs (runs.take (k + 1))).1 (.out n),
                             ((runAll exp fs (runs.take (k + 1))).1 (.tmp n)).isSome)) := by
  induction runs generalizing fs k with
  | nil => simp at hk
  | cons r rs ih =>
    cases k with
    | zero => simp [traceOn, runAll]
    | succ k =>
      have hk' : k < rs.length := by simpa using hk
      simpa [traceOn, runAll] using ih (genFile exp fs (.out r.path) r.overwrite r.chunks r.crash).1 k hk'

end GenFile
