import TextxVerif.Proofs.RrelClosed
/-!
Completeness of the RREL search — part 2: a closed visited set that covers the
start leaves no expansion of the expression that ends in a match; the top-level
theorems about `eval … kTop` and `findPaths`.
-/
set_option linter.unusedVariables false
namespace Rrel

section covered
variable {H : Heap} {ns0 : List String} {N : List (E × Cov)} {A : Nat → Prop} {W : Vis}

theorem zeros_ns (e : E) (f : Bool) (s t : St) (ht : t ∈ zeros H e f s) : t.ns = s.ns := by
  simp only [zeros] at ht
  split at ht
  · simp only [List.mem_append] at ht
    rcases ht with ht | ht
    · split at ht
      · simp at ht; subst ht; rfl
      · simp at ht
    · split at ht
      · simp at ht; subst ht; rfl
      · simp at ht
  · simp at ht; subst ht; rfl

/-- every non-first expansion from a covered entry stays covered -/
theorem exp_covered (hgood : ∀ x ∈ W, A x.2.1 → Good H ns0 N W x) :
    ∀ (e : E) (κ : Cov), (∀ p ∈ nodes e κ, p ∈ N) → (∀ i ∈ e.ids, A i) →
      ∀ s t : St, s.ns <:+ ns0 → entry e W s.o s.ns → Exp H e false s t →
        κ W t.o t.ns ∧ t.ns <:+ ns0
  | .atom i a, κ, hN, hA, s, t, hs, hent, hexp => by
    obtain ⟨r, hr, rfl⟩ := hexp
    obtain ⟨l, hl, hrl⟩ := atomRes_complete H a false s.o s.ns r hr
    have hg := hgood _ hent (hA i (by simp [E.ids])) (.atom i a, κ) (hN _ (by simp [nodes])) rfl
    exact ⟨hg s.ns hs rfl l hl r hrl, (atomRes_ns H a false s.o s.ns l r hl hrl).trans hs⟩
  | .grp i e, κ, hN, hA, s, t, hs, hent, hexp => by
    have hg := hgood _ hent (hA i (by simp [E.ids])) (.grp i e, κ) (hN _ (by simp [nodes])) rfl
    exact exp_covered hgood e κ (fun p hp => hN p (by simp [nodes, hp]))
      (fun j hj => hA j (by simp [E.ids, hj])) s t hs (hg s.ns hs rfl) hexp
  | .alt a b, κ, hN, hA, s, t, hs, hent, hexp => by
    rcases hexp with h | h
    · exact exp_covered hgood a κ (fun p hp => hN p (by simp [nodes, hp]))
        (fun j hj => hA j (by simp [E.ids, hj])) s t hs hent.1 h
    · exact exp_covered hgood b κ (fun p hp => hN p (by simp [nodes, hp]))
        (fun j hj => hA j (by simp [E.ids, hj])) s t hs hent.2 h
  | .cat a b, κ, hN, hA, s, t, hs, hent, hexp => by
    obtain ⟨m, h1, h2⟩ := hexp
    obtain ⟨hm, hms⟩ := exp_covered hgood a (entry b) (fun p hp => hN p (by simp [nodes, hp]))
      (fun j hj => hA j (by simp [E.ids, hj])) s m hs hent h1
    exact exp_covered hgood b κ (fun p hp => hN p (by simp [nodes, hp]))
      (fun j hj => hA j (by simp [E.ids, hj])) m t hms hm h2
  | .star i e, κ, hN, hA, s, t, hs, hent, hexp => by
    have hstep : ∀ u v : St, (inV i W u.o u.ns ∧ u.ns <:+ ns0) → Exp H e false u v →
        (inV i W v.o v.ns ∧ v.ns <:+ ns0) := by
      intro u v hu huv
      have hg := hgood _ hu.1 (hA i (by simp [E.ids])) (.star i e, κ) (hN _ (by simp [nodes])) rfl
      exact exp_covered hgood e (inV i) (fun p hp => hN p (by simp [nodes, hp]))
        (fun j hj => hA j (by simp [E.ids, hj])) u v hu.2 (hg u.ns hu.2 rfl).2 huv
    have hstar : ∀ u v : St, Star (fun x y => Exp H e false x y) u v →
        (inV i W u.o u.ns ∧ u.ns <:+ ns0) → (inV i W v.o v.ns ∧ v.ns <:+ ns0) := by
      intro u v huv
      induction huv with
      | refl a => exact fun h => h
      | step h1 _ ih => exact fun h => ih (hstep _ _ h h1)
    have hfin : inV i W t.o t.ns ∧ t.ns <:+ ns0 :=
      hstar s t (star_of_exp_star H i e s t hexp) ⟨hent, hs⟩
    have hg := hgood _ hfin.1 (hA i (by simp [E.ids])) (.star i e, κ) (hN _ (by simp [nodes])) rfl
    exact ⟨(hg t.ns hfin.2 rfl).1, hfin.2⟩

/-- every first expansion from a covered start stays covered -/
theorem expF_covered (hgood : ∀ x ∈ W, A x.2.1 → Good H ns0 N W x) :
    ∀ (e : E) (κ : Cov), (∀ p ∈ nodes e κ, p ∈ N) → (∀ i ∈ e.ids, A i) →
      ∀ s t : St, s.ns <:+ ns0 → CovF H e κ W s → Exp H e true s t →
        κ W t.o t.ns ∧ t.ns <:+ ns0
  | .atom i a, κ, hN, hA, s, t, hs, hcov, hexp => by
    obtain ⟨r, hr, rfl⟩ := hexp
    obtain ⟨l, hl, hrl⟩ := atomRes_complete H a true s.o s.ns r hr
    exact ⟨hcov l hl r hrl, (atomRes_ns H a true s.o s.ns l r hl hrl).trans hs⟩
  | .grp i e, κ, hN, hA, s, t, hs, hcov, hexp =>
    expF_covered hgood e κ (fun p hp => hN p (by simp [nodes, hp]))
      (fun j hj => hA j (by simp [E.ids, hj])) s t hs hcov hexp
  | .alt a b, κ, hN, hA, s, t, hs, hcov, hexp => by
    rcases hexp with h | h
    · exact expF_covered hgood a κ (fun p hp => hN p (by simp [nodes, hp]))
        (fun j hj => hA j (by simp [E.ids, hj])) s t hs hcov.1 h
    · exact expF_covered hgood b κ (fun p hp => hN p (by simp [nodes, hp]))
        (fun j hj => hA j (by simp [E.ids, hj])) s t hs hcov.2 h
  | .cat a b, κ, hN, hA, s, t, hs, hcov, hexp => by
    obtain ⟨m, h1, h2⟩ := hexp
    obtain ⟨hm, hms⟩ := expF_covered hgood a (entry b) (fun p hp => hN p (by simp [nodes, hp]))
      (fun j hj => hA j (by simp [E.ids, hj])) s m hs hcov h1
    exact exp_covered hgood b κ (fun p hp => hN p (by simp [nodes, hp]))
      (fun j hj => hA j (by simp [E.ids, hj])) m t hms hm h2
  | .star i e, κ, hN, hA, s, t, hs, hcov, hexp => by
    rcases hexp with hz | ⟨m, h1, h2⟩
    · exact ⟨hcov.1 t hz, by rw [zeros_ns e true s t hz]; exact hs⟩
    · obtain ⟨hm, hms⟩ := expF_covered hgood e (inV i) (fun p hp => hN p (by simp [nodes, hp]))
        (fun j hj => hA j (by simp [E.ids, hj])) s m hs hcov.2 h1
      -- from `m` on this is a non-first evaluation of the same `*`
      have hrest : Exp H (.star i e) false m t := by
        cases h2 with
        | refl _ => exact Or.inl (by simp [zeros])
        | step h3 h4 => exact Or.inr ⟨_, h3, h4⟩
      exact exp_covered hgood (.star i e) κ hN hA m t hms hm hrest

end covered

/-! ## top level -/

theorem nodes_mono : ∀ (e : E) (κ : Cov), Mono κ → ∀ p ∈ nodes e κ, Mono p.2
  | .atom i a, κ, hκ, p, hp => by simp [nodes] at hp; subst hp; exact hκ
  | .grp i e, κ, hκ, p, hp => by
    simp only [nodes, List.mem_cons] at hp
    rcases hp with rfl | hp
    · exact hκ
    · exact nodes_mono e κ hκ p hp
  | .alt a b, κ, hκ, p, hp => by
    simp only [nodes, List.mem_append] at hp
    rcases hp with hp | hp
    · exact nodes_mono a κ hκ p hp
    · exact nodes_mono b κ hκ p hp
  | .cat a b, κ, hκ, p, hp => by
    simp only [nodes, List.mem_append] at hp
    rcases hp with hp | hp
    · exact nodes_mono a (entry b) (entry_mono b) p hp
    · exact nodes_mono b κ hκ p hp
  | .star i e, κ, hκ, p, hp => by
    simp only [nodes, List.mem_cons] at hp
    rcases hp with rfl | hp
    · exact hκ
    · exact nodes_mono e (inV i) (inV_mono i) p hp

theorem nodes_nid : ∀ (e : E) (κ : Cov), (nodes e κ).map (fun p => nid p.1) = e.ids.map some
  | .atom i a, κ => by simp [nodes, E.ids, nid]
  | .grp i e, κ => by simp only [nodes, E.ids, List.map_cons, nodes_nid e κ]; rfl
  | .alt a b, κ => by simp [nodes, E.ids, nodes_nid a κ, nodes_nid b κ]
  | .cat a b, κ => by simp [nodes, E.ids, nodes_nid a (entry b), nodes_nid b κ]
  | .star i e, κ => by simp only [nodes, E.ids, List.map_cons, nodes_nid e (inV i)]; rfl

theorem inj_of_nodup_map {α β : Type} (g : α → β) :
    ∀ l : List α, (l.map g).Nodup → ∀ p ∈ l, ∀ q ∈ l, g p = g q → p = q
  | [], _, p, hp, _, _, _ => by simp at hp
  | a :: l, hnd, p, hp, q, hq, hpq => by
    simp only [List.map_cons, List.nodup_cons, List.mem_map, not_exists, not_and] at hnd
    rcases List.mem_cons.1 hp with hpa | hpl
    · rcases List.mem_cons.1 hq with hqa | hql
      · rw [hpa, hqa]
      · exact absurd (by rw [← hpq, hpa]) (hnd.1 q hql)
    · rcases List.mem_cons.1 hq with hqa | hql
      · exact absurd (by rw [hpq, hqa]) (hnd.1 p hpl)
      · exact inj_of_nodup_map g l hnd.2 p hpl q hql hpq

theorem nodup_map_some : ∀ l : List Nat, l.Nodup → (l.map some).Nodup
  | [], _ => by simp
  | a :: l, h => by
    simp only [List.nodup_cons] at h
    simp only [List.map_cons, List.nodup_cons, List.mem_map, Option.some.injEq, exists_eq_right]
    exact ⟨h.1, nodup_map_some l h.2⟩

theorem nodes_inj (e : E) (κ : Cov) (hnd : e.ids.Nodup) :
    ∀ p ∈ nodes e κ, ∀ q ∈ nodes e κ, nid p.1 = nid q.1 → nid p.1 ≠ none → p = q := by
  intro p hp q hq h _
  refine inj_of_nodup_map (fun p => nid p.1) (nodes e κ) ?_ p hp q hq h
  rw [nodes_nid]
  exact nodup_map_some _ hnd

/-- coverage predicate of the final success test: "not a match" -/
def κTop (H : Heap) (cls : Option String) : Cov := fun _ o ns => ¬ (ns = [] ∧ confOpt H o cls = true)

theorem κTop_mono (H : Heap) (cls : Option String) : Mono (κTop H cls) := fun _ _ _ _ _ h => h

theorem kTop_KOK (H : Heap) (cls : Option String) (ns0 : List String) (N : List (E × Cov))
    (A : Nat → Prop) : KOK H ns0 N A (kTop H cls) (κTop H cls) := by
  intro t V1 V2 _ h
  simp only [kTop] at h
  split at h
  · cases h
  · rename_i hm
    cases h
    refine ⟨fun _ hx => hx, ?_, fun x hx hnx => absurd hx hnx⟩
    intro ⟨h1, h2⟩
    apply hm
    simp [isMatch, h1, h2]

/-- **completeness of one top-level alternative**: if its evaluation gives up, no
expansion of it ends in a match — from any visited set whose keys belong to other nodes -/
theorem eval_top_complete (H : Heap) (cls : Option String) (n : Nat) (e : E) (s0 : St) (V W : Vis)
    (hnd : e.ids.Nodup) (hfor : ∀ x ∈ V, x.2.1 ∉ e.ids)
    (h : eval H n e true s0 V (kTop H cls) = .cont W) :
    (∀ x ∈ V, x ∈ W) ∧ (∀ x ∈ W, x ∉ V → x.2.1 ∈ e.ids) ∧
    ¬ ∃ t, Exp H e true s0 t ∧ IsMatch H cls t := by
  have hmono := nodes_mono e (κTop H cls) (κTop_mono H cls)
  obtain ⟨h1, h2, h3, _⟩ := eval_closed (H := H) (ns0 := s0.ns) (N := nodes e (κTop H cls))
    (A := fun i => i ∈ e.ids) (nodes_inj e _ hnd) hmono n e true s0 V (kTop H cls) (κTop H cls) W
    (List.suffix_refl _) (κTop_mono H cls) (fun p hp => hp) (fun i hi => hi)
    (kTop_KOK H cls _ _ _) h
  refine ⟨h1, fun x hx hnx => (h2 x hx hnx).2, ?_⟩
  rintro ⟨t, ht, hm⟩
  have hgood : ∀ x ∈ W, x.2.1 ∈ e.ids → Good H s0.ns (nodes e (κTop H cls)) W x := by
    intro x hx hA
    by_cases hxV : x ∈ V
    · exact absurd hA (hfor x hxV)
    · exact (h2 x hx hxV).1
  have := (expF_covered (A := fun i => i ∈ e.ids) hgood e (κTop H cls) (fun p hp => hp)
    (fun i hi => hi) s0 t (List.suffix_refl _) (h3 rfl) ht).1
  exact this hm

theorem kTop_found (H : Heap) (cls : Option String) (t r : St) (V : Vis)
    (h : kTop H cls t V = .found r) : t = r ∧ IsMatch H cls r := by
  simp only [kTop] at h
  split at h
  · rename_i hm
    cases h
    simp only [isMatch, Bool.and_eq_true, List.isEmpty_iff] at hm
    exact ⟨rfl, hm.1, hm.2⟩
  · cases h

/-- soundness of the top-level loop -/
theorem findPaths_sound (H : Heap) (n : Nat) (cls : Option String) (s0 : St) :
    ∀ (ps : List E) (V : Vis) (r : St), findPaths H n cls s0 ps V = .found r →
      ∃ p ∈ ps, Exp H p true s0 r ∧ IsMatch H cls r
  | [], V, r, h => by simp [findPaths] at h
  | p :: ps, V, r, h => by
    simp only [findPaths] at h
    cases he : eval H n p true s0 V (kTop H cls) with
    | cont V1 =>
      simp only [he] at h
      obtain ⟨q, hq, h1⟩ := findPaths_sound H n cls s0 ps V1 r h
      exact ⟨q, by simp [hq], h1⟩
    | found s' =>
      simp only [he] at h
      cases h
      obtain ⟨t, V', h1, h2⟩ := eval_sound H n p true s0 V _ r he
      obtain ⟨rfl, hm⟩ := kTop_found H cls t r V' h2
      exact ⟨p, by simp, h1, hm⟩
    | postponed => simp [he] at h
    | fuel => simp [he] at h

/-- alternatives that were given up have no matching expansion; the first one
that yields the result is preceded only by such -/
theorem findPaths_spec (H : Heap) (n : Nat) (cls : Option String) (s0 : St) :
    ∀ (ps : List E) (V : Vis), (ps.flatMap E.ids).Nodup →
      (∀ x ∈ V, ∀ p ∈ ps, x.2.1 ∉ p.ids) →
      (∀ W, findPaths H n cls s0 ps V = .cont W →
        ∀ p ∈ ps, ¬ ∃ t, Exp H p true s0 t ∧ IsMatch H cls t) ∧
      (∀ r, findPaths H n cls s0 ps V = .found r →
        ∃ pre p post, ps = pre ++ p :: post ∧ Exp H p true s0 r ∧ IsMatch H cls r ∧
          ∀ q ∈ pre, ¬ ∃ t, Exp H q true s0 t ∧ IsMatch H cls t)
  | [], V, _, _ => by
    refine ⟨fun W _ p hp => by simp at hp, fun r h => by simp [findPaths] at h⟩
  | p :: ps, V, hnd, hfor => by
    simp only [List.flatMap_cons, List.nodup_append] at hnd
    obtain ⟨hndp, hndps, hdisj⟩ := hnd
    have hforp : ∀ x ∈ V, x.2.1 ∉ p.ids := fun x hx => hfor x hx p (by simp)
    cases he : eval H n p true s0 V (kTop H cls) with
    | cont V1 =>
      obtain ⟨c1, c2, c3⟩ := eval_top_complete H cls n p s0 V V1 hndp hforp he
      have hfor1 : ∀ x ∈ V1, ∀ q ∈ ps, x.2.1 ∉ q.ids := by
        intro x hx q hq
        by_cases hxV : x ∈ V
        · exact hfor x hxV q (by simp [hq])
        · intro hmem
          exact hdisj _ (c2 x hx hxV) _ (List.mem_flatMap.2 ⟨q, hq, hmem⟩) rfl
      obtain ⟨ih1, ih2⟩ := findPaths_spec H n cls s0 ps V1 hndps hfor1
      refine ⟨?_, ?_⟩
      · intro W hW q hq
        simp only [findPaths, he] at hW
        rcases List.mem_cons.1 hq with rfl | hq
        · exact c3
        · exact ih1 W hW q hq
      · intro r hr
        simp only [findPaths, he] at hr
        obtain ⟨pre, q, post, h1, h2, h3, h4⟩ := ih2 r hr
        refine ⟨p :: pre, q, post, by simp [h1], h2, h3, ?_⟩
        intro q' hq'
        rcases List.mem_cons.1 hq' with rfl | hq'
        · exact c3
        · exact h4 q' hq'
    | found s' =>
      refine ⟨fun W hW => by simp [findPaths, he] at hW, ?_⟩
      intro r hr
      simp only [findPaths, he] at hr
      have hsr : s' = r := by simpa using hr
      rw [hsr] at he
      obtain ⟨t, V', h1, h2⟩ := eval_sound H n p true s0 V _ r he
      obtain ⟨rfl, hm⟩ := kTop_found H cls t r V' h2
      exact ⟨[], p, ps, by simp, h1, hm, by simp⟩
    | postponed =>
      exact ⟨fun W hW => by simp [findPaths, he] at hW, fun r hr => by simp [findPaths, he] at hr⟩
    | fuel =>
      exact ⟨fun W hW => by simp [findPaths, he] at hW, fun r hr => by simp [findPaths, he] at hr⟩

end Rrel
