import TextxVerif.Proofs.ArpMemoAt
import TextxVerif.Proofs.ArpLim
/-!
# The plain parser terminates wherever the memoizing parser does (C19, converse direction)

`memo_rev`: the memoizing interpreter with fuel `n` is simulated by the *limit* of the plain interpreter
(`parseLim g` = `parse g` with sufficient fuel).  A cache hit is answered by the finished plain run the
invariant `CacheValidA` records for the entry (re-run from the current state by position-determinism); a
cache miss runs the `_parse` body over the limit parser, which by compactness (`bodyNode_ev`) is a run over
`parse g m` for one concrete `m`.  So memoization can not cut a recursion the plain parser would not get out of:
only *completed* results are ever stored.
-/
namespace Peg

variable {sk : Bool} {w : List Char}

/-- memoizing state vs plain state (`QmA` read from right to left) -/
def QmR (g : Grammar) (sk : Bool) (w : List Char) (sM sP : PState) : Prop := QmA g sk w sP sM

theorem qmR_ok (g : Grammar) (sk : Bool) (w : List Char) : QOKc (QmR g sk w) sk w := (qmA_ok g sk w).swap

theorem memo_rev_step (g : Grammar) (hu : UniformAt g sk w) (hm : g.memo = false) (n : Nat)
    (ih : Sim (QmR g sk w) (parse (g.withMemo true) n) (parseLim g)) :
    Sim (QmR g sk w) (parse (g.withMemo true) (n+1)) (parseLim g) := by
  intro id sM sP r tM hq h1 hr
  have hQ := qmR_ok g sk w
  simp only [parse] at h1
  unfold nodeParse at h1
  have hnodes : (g.withMemo true).nodes = g.nodes := rfl
  have hmemo : (g.withMemo true).memo = true := rfl
  rw [hnodes, hmemo] at h1
  cases hn : g.nodes[id]? with
  | none =>
    simp only [hn] at h1; cases h1
    have h2 : parse g 1 id sP = (.bad, sP) := by simp only [parse, nodeParse, hn]
    exact ⟨sP, parseLim_of g h2 (by simp), hq⟩
  | some nd =>
    simp only [hn] at h1
    obtain ⟨hws, hsk, heol⟩ := hu.ctx id nd hn
    have hmN : matchNode (g.withMemo true) (commentsLoop (g.withMemo true) (parse (g.withMemo true) n) n) id nd sM
          = (r, tM) →
        parse g 1 id sP = matchNode g (commentsLoop g (parse g 0) 0) id nd sP →
        ∃ tP, parseLim g id sP = (r, tP) ∧ QmR g sk w tM tP := by
      intro h1 hpl
      rw [matchNode_withMemo g hu.noComments true _ (parse g 0) n 0] at h1
      obtain ⟨tP, hB, hq'⟩ :=
        matchNode_sim hQ.ok g hu.noComments (parse g 0) (parse g 0) 0 0 id nd sM sP r tM hq h1 hr
      exact ⟨tP, parseLim_of g (hpl.trans hB) hr, hq'⟩
    have hbody := bodyNode_sim_at hQ ih n nd hws hsk heol
    have hwr : wrap true id nd (bodyNode (parse (g.withMemo true) n) n nd) sM = (r, tM) →
        (∀ M, parse g (M+1) id sP = wrap false id nd (bodyNode (parse g M) M nd) sP) →
        ∃ tP, parseLim g id sP = (r, tP) ∧ QmR g sk w tM tP := by
      intro h1 hpl
      unfold wrap at h1
      have hposPM : sP.pos = sM.pos := hq.1.1
      cases hl : lookupCache sM id sM.pos with
      | some x =>
        obtain ⟨ro, np⟩ := x
        obtain ⟨k, u, u', hsu, hup, hrun, hnp, hbound⟩ := hq.2.2 id sM.pos ro np (lookupCache_mem hl)
        have hne : resOf ro ≠ .fuel := by cases ro <;> simp [resOf]
        have hqus : Qa sk w u sP := ⟨hup.trans hposPM.symm, hsu, hq.1.2.1⟩
        obtain ⟨tP, hP, hqt⟩ := plain_sim_at (qa_ok sk w) g hu hm k id u sP (resOf ro) u' hqus hrun hne
        obtain ⟨F, hF1, hF2⟩ := plain_det_nm_at g hu hm hqus hrun hne hP hne
        have hnmP : tP.nm = sM.nm := by
          apply nmv_inj
          rw [hF2, hq.2.1]
          have : F ≤ nmv sM.nm := by omega
          omega
        have hqM : QmA g sk w tP { sM with pos := np } :=
          ⟨⟨hqt.1.symm.trans hnp, hqt.2.2, hq.1.2.2⟩, hnmP, hq.2.2⟩
        cases ro with
        | some v =>
          simp only [cacheHit, if_true, hl] at h1; cases h1
          exact ⟨tP, parseLim_of g hP hne, hqM⟩
        | none =>
          simp only [cacheHit, if_true, hl] at h1; cases h1
          exact ⟨tP, parseLim_of g hP hne, hqM⟩
      | none =>
        simp only [cacheHit, if_true, hl] at h1
        cases hb : bodyNode (parse (g.withMemo true) n) n nd sM with | mk r1 s1M =>
        rw [hb] at h1
        have hne : r1 ≠ .fuel := by intro e; subst e; simp only [cacheStore] at h1; cases h1; exact hr rfl
        obtain ⟨s1P, hB, hq1⟩ := hbody sM sP r1 s1M hq hb hne
        obtain ⟨m, hmm⟩ := bodyNode_ev (parseLim_ev g) n nd sP r1 s1P hB hne
        have hM : bodyNode (parse g (max m n)) (max m n) nd sP = (r1, s1P) :=
          bodyNode_le (Le.refl _) (Nat.le_max_right m n) nd sP r1 s1P (hmm (max m n) (Nat.le_max_left m n)) hne
        have hfull : parse g (max m n + 1) id sP = cacheStore false id nd sP.pos (r1, s1P) := by
          rw [hpl, wrap]; simp only [cacheHit, Bool.false_eq_true, if_false]; rw [hM]
        rcases r1 with v | _ | _ | _
        · simp only [cacheStore, if_true] at h1; cases h1
          simp only [cacheStore, Bool.false_eq_true, if_false] at hfull
          refine ⟨s1P, parseLim_of g hfull (by simp), ⟨hq1.1.1, hq1.1.2.1, hq1.1.2.2⟩, hq1.2.1, ?_⟩
          intro i p ro np hmem
          simp only [List.mem_cons, Prod.mk.injEq] at hmem
          rcases hmem with ⟨⟨rfl, rfl⟩, rfl, rfl⟩ | hmem
          · exact ⟨max m n + 1, sP, s1P, hq.1.2.1, hposPM, hfull, hq1.1.1, by rw [hq1.2.1]; exact Nat.le_refl _⟩
          · exact hq1.2.2 i p ro np hmem
        · simp only [cacheStore, if_true] at h1; cases h1
          simp only [cacheStore, Bool.false_eq_true, if_false] at hfull
          refine ⟨{ s1P with pos := sP.pos }, parseLim_of g hfull (by simp), ⟨hposPM, hq1.1.2.1, hq1.1.2.2⟩, hq1.2.1, ?_⟩
          intro i p ro np hmem
          simp only [List.mem_cons, Prod.mk.injEq] at hmem
          rcases hmem with ⟨⟨rfl, rfl⟩, rfl, rfl⟩ | hmem
          · exact ⟨max m n + 1, sP, _, hq.1.2.1, hposPM, hfull, hposPM, by
              show nmv s1P.nm ≤ nmv s1M.nm
              rw [hq1.2.1]; exact Nat.le_refl _⟩
          · exact hq1.2.2 i p ro np hmem
        · exact absurd rfl hne
        · simp only [cacheStore] at h1 hfull; cases h1
          exact ⟨s1P, parseLim_of g hfull (by simp), hq1⟩
    cases hkind : nd.kind <;> simp only [hkind] at h1
    all_goals first
      | exact hmN h1 (by simp only [parse, nodeParse, hn, hkind])
      | exact hwr h1 (fun M => by simp only [parse, nodeParse, hn, hm, hkind])

/-- the memoizing parser (any fuel) is simulated by the plain parser with sufficient fuel -/
theorem memo_rev (g : Grammar) (hu : UniformAt g sk w) (hm : g.memo = false) :
    ∀ n, Sim (QmR g sk w) (parse (g.withMemo true) n) (parseLim g)
  | 0 => by intro e sA sB r tA _ h1 hr; simp only [parse] at h1; cases h1; exact absurd rfl hr
  | n+1 => memo_rev_step g hu hm n (memo_rev g hu hm n)

/-- **Converse termination**: if the memoizing parser finishes, the plain parser finishes with some fuel —
same result, related end state (same position, same failure record) -/
theorem memo_fin_plain (g : Grammar) (hu : UniformAt g sk w) (hm : g.memo = false)
    {n e : Nat} {sP sM tM : PState} {r : Res} (hq : QmA g sk w sP sM)
    (h : parse (g.withMemo true) n e sM = (r, tM)) (hr : r ≠ .fuel) :
    ∃ m tP, parse g m e sP = (r, tP) ∧ QmA g sk w tP tM := by
  obtain ⟨tP, hP, hq'⟩ := memo_rev g hu hm n e sM sP r tM hq h hr
  obtain ⟨m, hm'⟩ := parseLim_fin g hP hr
  exact ⟨m, tP, hm', hq'⟩

end Peg
