import TextxVerif.Proofs.ExportModel
/-! The fuel `h.length + 1` given to `_export` is always enough: on a closed object graph
the model export produces a text.  (The recursion depth is bounded by the number of
objects, because every nested call works on an object that was not yet processed.) -/
namespace Dot

theorem length_le_of_nodup_subset {l m : List Nat} (hn : l.Nodup) (hs : ∀ x ∈ l, x ∈ m) : l.length ≤ m.length := by
  induction l generalizing m with
  | nil => simp
  | cons a l ih =>
    have ha : a ∈ m := hs a (by simp)
    have hn' := List.nodup_cons.mp hn
    have hsub : ∀ x ∈ l, x ∈ m.erase a := by
      intro x hx
      have hne : x ≠ a := fun e => hn'.1 (e ▸ hx)
      exact (List.mem_erase_of_ne hne).mpr (hs x (by simp [hx]))
    have := ih hn'.2 hsub
    rw [List.length_erase_of_mem ha] at this
    have hpos : 0 < m.length := List.length_pos_of_mem ha
    simp only [List.length_cons]
    omega

def Valid (h : Heap) (i : Nat) : Prop := ∃ o, h.get i = some o

/-- every object an object of the heap refers to is in the heap -/
def Closed (h : Heap) : Prop := ∀ o ∈ h, ∀ t ∈ o.refs, Valid h t

/-- processed ids are distinct ids of heap objects, at least `k` of them -/
def Good (h : Heap) (k : Nat) (st : ESt) : Prop :=
  st.processed.Nodup ∧ (∀ n ∈ st.processed, Valid h n) ∧ k ≤ st.processed.length

theorem Good.emit {h : Heap} {k : Nat} {st : ESt} (g : Good h k st) (x : Stmt) : Good h k (st.emit x) := g

theorem valid_mem_ids {h : Heap} {n : Nat} (hv : Valid h n) : n ∈ h.map (·.id) := by
  obtain ⟨o, ho⟩ := hv
  obtain ⟨hm, hid⟩ := Heap.get_mem ho
  exact List.mem_map.mpr ⟨o, hm, hid⟩

theorem Good.length_le {h : Heap} {k : Nat} {st : ESt} (g : Good h k st) : st.processed.length ≤ h.length := by
  have := length_le_of_nodup_subset g.1 (fun x hx => valid_mem_ids (g.2.1 x hx))
  simpa using this

def RecTotal (h : Heap) (k : Nat) (rec : ESt → Nat → Option ESt) : Prop :=
  ∀ st t, Good h k st → Valid h t → ∃ st', rec st t = some st' ∧ Good h k st'

theorem exportItems_total {h : Heap} {k : Nat} {rec : ESt → Nat → Option ESt} (hrec : RecTotal h k rec)
    (src : Nat) (an : Str) (c : Bool) (idx : Nat) (its : List Item) (st : ESt) (g : Good h k st)
    (hv : ∀ t ∈ its.flatMap Item.refs, Valid h t) :
    ∃ st', exportItems rec src an c idx its st = some st' ∧ Good h k st' := by
  induction its generalizing idx st with
  | nil => exact ⟨st, rfl, g⟩
  | cons x xs ih =>
    have hxs : ∀ t ∈ xs.flatMap Item.refs, Valid h t := fun t ht => hv t (by simp [ht])
    cases x with
    | none => simpa [exportItems] using ih (idx + 1) st g hxs
    | prim p => simpa [exportItems] using ih (idx + 1) _ (g.emit _) hxs
    | obj t =>
      have ht : Valid h t := hv t (by simp [Item.refs])
      obtain ⟨st1, h1, g1⟩ := hrec _ t (g.emit (.edgeObj src t (an ++ ':' :: digits idx) c)) ht
      obtain ⟨st2, h2, g2⟩ := ih (idx + 1) st1 g1 hxs
      exact ⟨st2, by simp [exportItems, h1, h2], g2⟩

theorem exportAttrs_total {h : Heap} {k : Nat} {rec : ESt → Nat → Option ESt} (hrec : RecTotal h k rec)
    (src : Nat) (as : List AttrV) (acc : Str × Str) (st : ESt) (g : Good h k st)
    (hv : ∀ t ∈ as.flatMap (fun a => a.val.refs), Valid h t) :
    ∃ r, exportAttrs rec src as acc st = some r ∧ Good h k r.2 := by
  induction as generalizing acc st with
  | nil => exact ⟨(acc, st), by simp [exportAttrs], g⟩
  | cons a as ih =>
    obtain ⟨nm, tx⟩ := acc
    have has : ∀ t ∈ as.flatMap (fun a => a.val.refs), Valid h t := fun t ht => hv t (by simp [ht])
    have hav : ∀ t ∈ a.val.refs, Valid h t := fun t ht => hv t (by simp [ht])
    simp only [exportAttrs]
    cases hval : a.val with
    | none => simpa using ih (nm, tx) st g has
    | many xs =>
      simp only
      split
      · exact ih _ st g has
      · have hxs : ∀ t ∈ xs.flatMap Item.refs, Valid h t := by simpa [hval, Val.refs] using hav
        obtain ⟨st1, h1, g1⟩ := exportItems_total hrec src a.name a.cont 0 xs st g hxs
        obtain ⟨r, h2, g2⟩ := ih (nm, tx) st1 g1 has
        exact ⟨r, by simp [h1, h2], g2⟩
    | one p =>
      simp only
      split
      · exact ih _ st g has
      · exact ih _ st g has
    | ref t =>
      have ht : Valid h t := hav t (by simp [hval, Val.refs])
      obtain ⟨st1, h1, g1⟩ := hrec _ t (g.emit (.edgeObj src t a.name a.cont)) ht
      obtain ⟨r, h2, g2⟩ := ih (nm, tx) st1 g1 has
      exact ⟨r, by simp [h1, h2], g2⟩

theorem Good.mono {h : Heap} {k k' : Nat} {st : ESt} (g : Good h k st) (hk : k' ≤ k) : Good h k' st :=
  ⟨g.1, g.2.1, Nat.le_trans hk g.2.2⟩

/-- with `fuel + k > h.length`, every call from a state with at least `k` processed objects succeeds -/
theorem exportObj_total (h : Heap) (hc : Closed h) (fuel k : Nat) (hk : h.length < fuel + k) :
    RecTotal h k (exportObj h fuel) := by
  induction fuel generalizing k with
  | zero =>
    intro st t g _
    have := g.length_le
    have := g.2.2
    omega
  | succ fuel ih =>
    intro st i g hv
    simp only [exportObj]
    split
    · exact ⟨st, rfl, g⟩
    · rename_i hin
      obtain ⟨o, ho⟩ := hv
      simp only [ho]
      have g1 : Good h (k + 1) { st with processed := i :: st.processed } :=
        ⟨List.nodup_cons.mpr ⟨hin, g.1⟩,
         fun n hn => by
           rcases List.mem_cons.mp hn with rfl | hn
           · exact ⟨o, ho⟩
           · exact g.2.1 n hn,
         by simpa using g.2.2⟩
      cases hat : o.attrs with
      | none => exact ⟨_, rfl, (g1.emit _).mono (by omega)⟩
      | some as =>
        simp only
        have hrefs : ∀ t ∈ as.flatMap (fun a => a.val.refs), Valid h t := by
          intro t ht
          exact hc o (Heap.get_mem ho).1 t (by simpa [Obj.refs, hat] using ht)
        obtain ⟨r, hr, gr⟩ := exportAttrs_total (ih (k + 1) (by omega)) i as ([], [])
          { st with processed := i :: st.processed } g1 hrefs
        obtain ⟨⟨nm, tx⟩, st2⟩ := r
        exact ⟨st2.emit (.node false i (nm ++ ':' :: o.cls) tx), by simp [hr], (gr.emit _).mono (by omega)⟩

theorem exportRoots_total (h : Heap) (hc : Closed h) (roots : List Root) (st : ESt) (g : Good h 0 st)
    (hr : ∀ r ∈ roots, Valid h r.id) : ∃ st', exportRoots h (h.length + 1) roots st = some st' ∧ Good h 0 st' := by
  have hrec := exportObj_total h hc (h.length + 1) 0 (by omega)
  induction roots generalizing st with
  | nil => exact ⟨st, rfl, g⟩
  | cons r rs ih =>
    have hrs : ∀ r ∈ rs, Valid h r.id := fun x hx => hr x (by simp [hx])
    cases r with
    | plain i =>
      obtain ⟨st1, h1, g1⟩ := hrec st i g (hr (.plain i) (by simp))
      obtain ⟨st2, h2, g2⟩ := ih st1 g1 hrs
      exact ⟨st2, by simp [exportRoots, h1, h2], g2⟩
    | sub f ks i =>
      obtain ⟨st1, h1, g1⟩ := hrec _ i (g.emit (.cluster (dotEscape f) ks)) (hr (.sub f ks i) (by simp))
      obtain ⟨st2, h2, g2⟩ := ih st1 g1 hrs
      exact ⟨st2, by simp [exportRoots, h1, h2], g2⟩

theorem exportModel_total (h : Heap) (hc : Closed h) (roots : List Root) (hr : ∀ r ∈ roots, Valid h r.id) :
    ∃ text, exportModel h roots = some text := by
  obtain ⟨st', hs, _⟩ := exportRoots_total h hc roots { processed := [], out := [] }
    ⟨List.nodup_nil, by simp, by simp⟩ hr
  exact ⟨renderDoc st'.out.reverse, by simp [exportModel, exportModelStmts, hs]⟩

end Dot
