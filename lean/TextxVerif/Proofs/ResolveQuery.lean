import TextxVerif.ResolveQuery
import TextxVerif.Proofs.Resolve
import TextxVerif.Proofs.ResolveAttrs
/-! Helper lemmas for the resolver loop with providers that ask the resolver (C09):
`loopQ` resolves exactly the references derivable under `specP`. -/
namespace Resolve

/-- the provider as seen during one pass: the `_crossrefs` lists do not change -/
def snapP (W : Ref → List Wait) (snap : List (List CRef)) : Provider where
  ready S r := readyQ W snap S r
  mono := by
    intro S S' r h hr
    simp only [readyQ, List.all_eq_true] at hr ⊢
    intro w hw
    have := hr w hw
    cases w with
    | val d => simp only [waitOk, decide_eq_true_eq] at this ⊢; exact h d this
    | qry f o a => simpa [waitOk] using this

/-- a pass of one file is a pass of `step` under the snapshot provider -/
theorem stepQ_eq (W : Ref → List Wait) (snap : List (List CRef)) : ∀ cs res,
    ((stepQ W snap cs res).1.map (·.id), (stepQ W snap cs res).2) =
      step (snapP W snap) (cs.map (·.id)) res
  | [], res => by simp [stepQ, step]
  | c :: cs, res => by
      by_cases h : readyQ W snap res c.id = true
      · have h' : (snapP W snap).ready res c.id = true := h
        simp only [stepQ, h, if_true, List.map_cons, step, h']
        exact stepQ_eq W snap cs (c.id :: res)
      · have h' : ¬ (snapP W snap).ready res c.id = true := h
        have ih := stepQ_eq W snap cs res
        simp only [stepQ, h, List.map_cons, step, h']
        rw [← ih]
        rfl

theorem stepQ_res (W : Ref → List Wait) (snap : List (List CRef)) (cs : List CRef) (res : List Ref) :
    (stepQ W snap cs res).2 = (step (snapP W snap) (cs.map (·.id)) res).2 :=
  congrArg Prod.snd (stepQ_eq W snap cs res)

theorem stepQ_ids (W : Ref → List Wait) (snap : List (List CRef)) (cs : List CRef) (res : List Ref) :
    (stepQ W snap cs res).1.map (·.id) = (step (snapP W snap) (cs.map (·.id)) res).1 :=
  congrArg Prod.fst (stepQ_eq W snap cs res)

theorem stepQ_sublist (W : Ref → List Wait) (snap : List (List CRef)) : ∀ cs res,
    (stepQ W snap cs res).1.Sublist cs
  | [], res => by simp [stepQ]
  | c :: cs, res => by
      by_cases h : readyQ W snap res c.id = true
      · simp only [stepQ, h, if_true]
        exact (stepQ_sublist W snap cs _).cons c
      · simp only [stepQ, h]
        exact (stepQ_sublist W snap cs res).cons_cons c

theorem stepQ_length (W : Ref → List Wait) (snap : List (List CRef)) (cs : List CRef) (res : List Ref) :
    (stepQ W snap cs res).1.length ≤ cs.length :=
  (stepQ_sublist W snap cs res).length_le

theorem eq_of_map_nodup {α β : Type} (f : α → β) : ∀ l : List α, (l.map f).Nodup →
    ∀ a b, a ∈ l → b ∈ l → f a = f b → a = b
  | [], _, a, _, ha, _, _ => by simp at ha
  | x :: xs, h, a, b, ha, hb, hab => by
      simp only [List.map_cons, List.nodup_cons, List.mem_map, not_exists, not_and] at h
      rcases List.mem_cons.1 ha with hax | ha' <;> rcases List.mem_cons.1 hb with hbx | hb'
      · rw [hax, hbx]
      · exact absurd (hax ▸ hab).symm (h.1 b hb')
      · exact absurd (hbx ▸ hab) (h.1 a ha')
      · exact eq_of_map_nodup f xs h.2 a b ha' hb' hab

/-- what a pass leaves pending: the entries whose reference it did not resolve -/
theorem stepQ_mem (W : Ref → List Wait) (snap : List (List CRef)) (cs : List CRef) (res : List Ref)
    (hnd : (cs.map (·.id)).Nodup) (hdis : ∀ c, c ∈ cs → c.id ∉ res) (c : CRef) :
    c ∈ (stepQ W snap cs res).1 ↔ (c ∈ cs ∧ c.id ∉ (stepQ W snap cs res).2) := by
  have hdis' : ∀ x, x ∈ cs.map (·.id) → x ∉ res := by
    intro x hx
    obtain ⟨c', hc', rfl⟩ := List.mem_map.1 hx
    exact hdis c' hc'
  have hd := step_disjoint (snapP W snap) (cs.map (·.id)) res hnd hdis'
  constructor
  · intro hc
    refine ⟨(stepQ_sublist W snap cs res).subset hc, ?_⟩
    rw [stepQ_res]
    refine hd.2 c.id ?_
    rw [← stepQ_ids]
    exact List.mem_map.2 ⟨c, hc, rfl⟩
  · rintro ⟨hc, hn⟩
    have hp := (step_partition (snapP W snap) (cs.map (·.id)) res c.id).1
      (Or.inl (List.mem_map.2 ⟨c, hc, rfl⟩))
    rw [← stepQ_res, ← stepQ_ids] at hp
    rcases hp with hp | hp
    · obtain ⟨c', hc', hid⟩ := List.mem_map.1 hp
      have hc'' := (stepQ_sublist W snap cs res).subset hc'
      have : c' = c := eq_of_map_nodup (·.id) cs hnd c' c hc'' hc hid
      exact this ▸ hc'
    · exact absurd hp hn

theorem stepQ_res_mono (W : Ref → List Wait) (snap : List (List CRef)) (cs : List CRef) (res : List Ref)
    (x : Ref) (h : x ∈ res) : x ∈ (stepQ W snap cs res).2 := by
  rw [stepQ_res]; exact step_res_mono _ _ _ x h

theorem stepQ_res_new (W : Ref → List Wait) (snap : List (List CRef)) (cs : List CRef) (res : List Ref)
    (x : Ref) (h : x ∈ (stepQ W snap cs res).2) : x ∈ res ∨ x ∈ cs.map (·.id) := by
  rw [stepQ_res] at h
  rcases (step_partition (snapP W snap) (cs.map (·.id)) res x).2 (Or.inr h) with h | h
  · exact Or.inr h
  · exact Or.inl h

theorem stepQ_noprogress (W : Ref → List Wait) (snap : List (List CRef)) (cs : List CRef) (res : List Ref)
    (h : (stepQ W snap cs res).1.length = cs.length) :
    (stepQ W snap cs res).2 = res ∧ ∀ c, c ∈ cs → readyQ W snap res c.id = false := by
  have h' : (step (snapP W snap) (cs.map (·.id)) res).1.length = (cs.map (·.id)).length := by
    rw [← stepQ_ids]; simpa using h
  have := step_noprogress (snapP W snap) (cs.map (·.id)) res h'
  refine ⟨by rw [stepQ_res]; exact this.1, ?_⟩
  intro c hc
  exact this.2 c.id (List.mem_map.2 ⟨c, hc, rfl⟩)

/-- soundness of a pass run with a provider `P'` that is at least as strict as `P` on every
set that contains what was resolved when the pass started -/
theorem step_sound_of (P P' : Provider) (U res0 : List Ref)
    (himp : ∀ S r, (∀ x, x ∈ res0 → x ∈ S) → P'.ready S r = true → P.ready S r = true) :
    ∀ p res, (∀ x, x ∈ res0 → x ∈ res) → (∀ x, x ∈ p → x ∈ U) →
    (∀ x, x ∈ res → Derivable P U x) → ∀ x, x ∈ (step P' p res).2 → Derivable P U x
  | [], res, _, _, h, x, hx => by simp [step] at hx; exact h x hx
  | r :: rs, res, h0, hU, h, x, hx => by
      have hUrs : ∀ x, x ∈ rs → x ∈ U := fun y hy => hU y (by simp [hy])
      by_cases hr : P'.ready res r = true
      · simp only [step, hr, if_true] at hx
        refine step_sound_of P P' U res0 himp rs (r :: res) (fun y hy => by simp [h0 y hy]) hUrs ?_ x hx
        intro y hy
        cases hy with
        | head => exact Derivable.step res (hU r (by simp)) h (himp res r h0 hr)
        | tail _ hy => exact h y hy
      · simp only [step, hr] at hx
        exact step_sound_of P P' U res0 himp rs res h0 hUrs h x hx

/-! ## the state between two passes is exact -/

/-- `f` = the entries of the parsed file `f0` whose references are not resolved -/
def Ex (res : List Ref) (f0 f : List CRef) : Prop :=
  f.Sublist f0 ∧ ∀ c, c ∈ f ↔ (c ∈ f0 ∧ c.id ∉ res)

theorem Ex.nil (res : List Ref) : Ex res [] [] := ⟨List.Sublist.refl _, by simp⟩

theorem Ex.start (f0 : List CRef) : Ex [] f0 f0 := ⟨List.Sublist.refl _, by simp⟩

theorem Ex.mono_res {res res' : List Ref} {f0 f : List CRef} (N : List Ref) (h : Ex res f0 f)
    (hsub : ∀ x, x ∈ res → x ∈ res') (hnew : ∀ x, x ∈ res' → x ∈ res ∨ x ∈ N)
    (hdis : ∀ c, c ∈ f0 → c.id ∉ N) : Ex res' f0 f := by
  refine ⟨h.1, fun c => ?_⟩
  rw [h.2 c]
  constructor
  · rintro ⟨hc, hn⟩
    refine ⟨hc, fun hin => ?_⟩
    rcases hnew _ hin with h1 | h1
    · exact hn h1
    · exact hdis c hc h1
  · rintro ⟨hc, hn⟩
    exact ⟨hc, fun hin => hn (hsub _ hin)⟩

/-- two lists related element by element -/
inductive Forall₂ {α β : Type} (R : α → β → Prop) : List α → List β → Prop
  | nil : Forall₂ R [] []
  | cons {a : α} {b : β} {l₁ : List α} {l₂ : List β} : R a b → Forall₂ R l₁ l₂ → Forall₂ R (a :: l₁) (b :: l₂)

theorem forall₂_append {α β : Type} {R : α → β → Prop} : ∀ {a0 : List α} {a : List β} {b0 : List α} {b : List β},
    Forall₂ R a0 a → Forall₂ R b0 b → Forall₂ R (a0 ++ b0) (a ++ b)
  | _, _, _, _, .nil, h => h
  | _, _, _, _, .cons h t, h' => .cons h (forall₂_append t h')

theorem forall₂_imp_mem {α β : Type} {R R' : α → β → Prop} : ∀ {l0 : List α} {l : List β},
    Forall₂ R l0 l → (∀ a, a ∈ l0 → ∀ b, R a b → R' a b) → Forall₂ R' l0 l
  | _, _, .nil, _ => .nil
  | _, _, .cons h t, himp =>
      .cons (himp _ (by simp) _ h) (forall₂_imp_mem t (fun a ha b => himp a (by simp [ha]) b))

theorem forall₂_getD {α β : Type} {R : α → β → Prop} {d0 : α} {d : β} (hd : R d0 d) :
    ∀ {l0 : List α} {l : List β}, Forall₂ R l0 l → ∀ i, R (l0.getD i d0) (l.getD i d)
  | _, _, .nil, i => by simpa using hd
  | _, _, .cons h _, 0 => by simpa using h
  | _, _, .cons _ t, i+1 => by simpa using forall₂_getD hd t i

theorem forall₂_refl {α : Type} {R : α → α → Prop} (h : ∀ a, R a a) : ∀ l : List α, Forall₂ R l l
  | [] => .nil
  | a :: l => .cons (h a) (forall₂_refl h l)

/-- pending entries of the whole state = parsed entries that are not resolved -/
theorem ex_flatten_mem {res : List Ref} : ∀ {fs0 fs : List (List CRef)}, Forall₂ (Ex res) fs0 fs →
    ∀ c, c ∈ fs.flatten ↔ (c ∈ fs0.flatten ∧ c.id ∉ res)
  | _, _, .nil, c => by simp
  | _, _, .cons h t, c => by
      have ih := ex_flatten_mem t c
      have h2 := h.2 c
      simp only [List.flatten_cons, List.mem_append]
      rw [h2, ih]
      constructor
      · rintro (⟨a, b⟩ | ⟨a, b⟩)
        · exact ⟨Or.inl a, b⟩
        · exact ⟨Or.inr a, b⟩
      · rintro ⟨a | a, b⟩
        · exact Or.inl ⟨a, b⟩
        · exact Or.inr ⟨a, b⟩

/-- with an exact state a provider that is ready is ready by the meaning of its conditions -/
theorem spec_of_ready (W : Ref → List Wait) {fs0 snap : List (List CRef)} {res : List Ref}
    (hinv : Forall₂ (Ex res) fs0 snap) (S : List Ref) (hS : ∀ x, x ∈ res → x ∈ S) (r : Ref)
    (h : readyQ W snap S r = true) : (specP W fs0).ready S r = true := by
  simp only [specP, readyQ, List.all_eq_true] at h ⊢
  intro w hw
  have hw' := h w hw
  cases w with
  | val d => simpa [specOk, waitOk] using hw'
  | qry f o a =>
    simp only [specOk, List.all_eq_true, Bool.or_eq_true, Bool.not_eq_true', decide_eq_true_eq]
    intro c hc
    by_cases hm : c.matches o a = true
    · right
      apply Classical.byContradiction
      intro hn
      have hex := forall₂_getD (Ex.nil res) hinv f
      have hcs : c ∈ snap.getD f [] := (hex.2 c).2 ⟨hc, fun hin => hn (hS _ hin)⟩
      have : hasUnresolved (snap.getD f []) o a = true := by
        simp only [hasUnresolved, List.any_eq_true]
        exact ⟨c, hcs, hm⟩
      simp only [waitOk, Bool.not_eq_true'] at hw'
      rw [this] at hw'
      cases hw'
    · left
      simpa using hm

/-- …and the other way round when the resolved set is the one of the state -/
theorem ready_of_spec (W : Ref → List Wait) {fs0 snap : List (List CRef)} {res : List Ref}
    (hinv : Forall₂ (Ex res) fs0 snap) (r : Ref)
    (h : (specP W fs0).ready res r = true) : readyQ W snap res r = true := by
  simp only [specP, readyQ, List.all_eq_true] at h ⊢
  intro w hw
  have hw' := h w hw
  cases w with
  | val d => simpa [specOk, waitOk] using hw'
  | qry f o a =>
    simp only [specOk, List.all_eq_true, Bool.or_eq_true, Bool.not_eq_true', decide_eq_true_eq] at hw'
    simp only [waitOk, Bool.not_eq_true', hasUnresolved]
    apply Classical.byContradiction
    intro hn
    have hn' : (snap.getD f []).any (fun c => c.matches o a) = true := by simpa using hn
    obtain ⟨c, hc, hm⟩ := List.any_eq_true.1 hn'
    have hex := forall₂_getD (Ex.nil res) hinv f
    have hc0 := (hex.2 c).1 hc
    rcases hw' c hc0.1 with h1 | h1
    · simp [hm] at h1
    · exact hc0.2 h1

theorem idsOf_append_cons (d0 t0 : List (List CRef)) (f0 : List CRef) :
    idsOf (d0 ++ f0 :: t0) = idsOf d0 ++ (f0.map (·.id) ++ idsOf t0) := by
  simp [idsOf]

theorem mem_idsOf {fs : List (List CRef)} {g : List CRef} {c : CRef} (hg : g ∈ fs) (hc : c ∈ g) :
    c.id ∈ idsOf fs :=
  List.mem_map.2 ⟨c, List.mem_flatten.2 ⟨g, hg, hc⟩, rfl⟩

/-- reference ids are unique over all files: a file's ids are distinct and occur in no other file -/
theorem ids_disjoint_of_nodup {d0 t0 : List (List CRef)} {f0 : List CRef}
    (h : (idsOf (d0 ++ f0 :: t0)).Nodup) :
    (f0.map (·.id)).Nodup ∧ (∀ g0, g0 ∈ d0 → ∀ c, c ∈ g0 → c.id ∉ f0.map (·.id)) ∧
      (∀ g0, g0 ∈ t0 → ∀ c, c ∈ g0 → c.id ∉ f0.map (·.id)) := by
  rw [idsOf_append_cons] at h
  have h1 := List.nodup_append.1 h
  have h2 := List.nodup_append.1 h1.2.1
  refine ⟨h2.1, ?_, ?_⟩
  · intro g0 hg c hc hin
    exact h1.2.2 c.id (mem_idsOf hg hc) c.id (List.mem_append_left _ hin) rfl
  · intro g0 hg c hc hin
    exact h2.2.2 c.id hin c.id (mem_idsOf hg hc) rfl

theorem pendingCount_split (done todo : List (List CRef)) (f : List CRef) :
    pendingCount (done ++ f :: todo) = pendingCount done + f.length + pendingCount todo := by
  simp [pendingCount]; omega

theorem pendingCount_snoc (done todo : List (List CRef)) (p : List CRef) :
    pendingCount ((done ++ [p]) ++ todo) = pendingCount done + p.length + pendingCount todo := by
  simp [pendingCount]; omega

/-- a round never adds pending references -/
theorem roundQ_count_le (W : Ref → List Wait) : ∀ todo done res,
    pendingCount (roundQ W done todo res).1 ≤ pendingCount (done ++ todo)
  | [], done, res => by simp [roundQ]
  | f :: todo, done, res => by
      simp only [roundQ]
      have ih := roundQ_count_le W todo (done ++ [(stepQ W (done ++ f :: todo) f res).1])
        (stepQ W (done ++ f :: todo) f res).2
      have hl := stepQ_length W (done ++ f :: todo) f res
      rw [pendingCount_snoc] at ih
      rw [pendingCount_split]
      omega

/-- one round from an exact state: exact again, sound, and — when it resolved nothing — every pending
reference is stuck by the meaning of its conditions -/
theorem roundQ_spec (W : Ref → List Wait) (fs0 : List (List CRef)) (hnd : (idsOf fs0).Nodup) :
    ∀ (todo t0 done d0 : List (List CRef)) (res : List Ref), fs0 = d0 ++ t0 →
    Forall₂ (Ex res) d0 done → Forall₂ (Ex res) t0 todo → res.Nodup →
    (∀ x, x ∈ res → Derivable (specP W fs0) (idsOf fs0) x) →
    Forall₂ (Ex (roundQ W done todo res).2) fs0 (roundQ W done todo res).1 ∧
    (roundQ W done todo res).2.Nodup ∧
    (∀ x, x ∈ (roundQ W done todo res).2 → Derivable (specP W fs0) (idsOf fs0) x) ∧
    (pendingCount (roundQ W done todo res).1 = pendingCount (done ++ todo) →
      (roundQ W done todo res).2 = res ∧
        ∀ c, c ∈ todo.flatten → (specP W fs0).ready res c.id = false)
  | [], t0, done, d0, res, hfs, hd, ht, hres, hs => by
      cases ht
      simp only [roundQ, List.append_nil] at hfs ⊢
      subst hfs
      refine ⟨hd, hres, hs, ?_⟩
      simp
  | f :: todo, t0, done, d0, res, hfs, hd, ht, hres, hs => by
      cases ht with
      | @cons f0 _ t0' _ hf ht' =>
      subst hfs
      have hdis := ids_disjoint_of_nodup hnd
      -- the state when the pass of `f` starts
      have hinv : Forall₂ (Ex res) (d0 ++ f0 :: t0') (done ++ f :: todo) :=
        forall₂_append hd (.cons hf ht')
      have hfnd : (f.map (·.id)).Nodup := (hf.1.map (·.id)).nodup hdis.1
      have hfdis : ∀ c, c ∈ f → c.id ∉ res := fun c hc => ((hf.2 c).1 hc).2
      have hfU : ∀ x, x ∈ f.map (·.id) → x ∈ idsOf (d0 ++ f0 :: t0') := by
        intro x hx
        obtain ⟨c, hc, rfl⟩ := List.mem_map.1 hx
        exact mem_idsOf (g := f0) (by simp) ((hf.2 c).1 hc).1
      have hfsub : ∀ x, x ∈ f.map (·.id) → x ∈ f0.map (·.id) := by
        intro x hx
        obtain ⟨c, hc, rfl⟩ := List.mem_map.1 hx
        exact List.mem_map.2 ⟨c, ((hf.2 c).1 hc).1, rfl⟩
      simp only [roundQ]
      generalize hsq : stepQ W (done ++ f :: todo) f res = sq
      have hmono : ∀ x, x ∈ res → x ∈ sq.2 := fun x hx => hsq ▸ stepQ_res_mono W _ f res x hx
      have hnew : ∀ x, x ∈ sq.2 → x ∈ res ∨ x ∈ f0.map (·.id) := by
        intro x hx
        rcases stepQ_res_new W (done ++ f :: todo) f res x (hsq ▸ hx) with h | h
        · exact Or.inl h
        · exact Or.inr (hfsub x h)
      -- the new pending list of the file is exact
      have hp : Ex sq.2 f0 sq.1 := by
        refine ⟨(hsq ▸ stepQ_sublist W _ f res).trans hf.1, fun c => ?_⟩
        have hm := stepQ_mem W (done ++ f :: todo) f res hfnd hfdis c
        rw [hsq] at hm
        rw [hm, hf.2 c]
        constructor
        · rintro ⟨⟨a, _⟩, b⟩; exact ⟨a, b⟩
        · rintro ⟨a, b⟩; exact ⟨⟨a, fun hin => b (hmono _ hin)⟩, b⟩
      -- the other files are not touched
      have hd' : Forall₂ (Ex sq.2) d0 done :=
        forall₂_imp_mem hd (fun g0 hg g h => h.mono_res (f0.map (·.id)) hmono hnew (hdis.2.1 g0 hg))
      have ht'' : Forall₂ (Ex sq.2) t0' todo :=
        forall₂_imp_mem ht' (fun g0 hg g h => h.mono_res (f0.map (·.id)) hmono hnew (hdis.2.2 g0 hg))
      have hres' : sq.2.Nodup := by
        rw [← hsq, stepQ_res]
        refine step_res_nodup _ _ _ hfnd hres ?_
        intro x hx
        obtain ⟨c, hc, rfl⟩ := List.mem_map.1 hx
        exact hfdis c hc
      have hs' : ∀ x, x ∈ sq.2 → Derivable (specP W (d0 ++ f0 :: t0')) (idsOf (d0 ++ f0 :: t0')) x := by
        intro x hx
        rw [← hsq, stepQ_res] at hx
        exact step_sound_of (specP W (d0 ++ f0 :: t0')) (snapP W (done ++ f :: todo)) _ res
          (fun S r hS hr => spec_of_ready W hinv S hS r hr) _ res (fun _ h => h) hfU hs x hx
      have ih := roundQ_spec W (d0 ++ f0 :: t0') hnd todo t0' (done ++ [sq.1]) (d0 ++ [f0]) sq.2
        (by simp) (forall₂_append hd' (.cons hp .nil)) ht'' hres' hs'
      refine ⟨ih.1, ih.2.1, ih.2.2.1, ?_⟩
      intro hcount
      have hle := roundQ_count_le W todo (done ++ [sq.1]) sq.2
      have hl : sq.1.length ≤ f.length := hsq ▸ stepQ_length W _ f res
      rw [pendingCount_snoc] at hle
      rw [pendingCount_split] at hcount
      have hlen : sq.1.length = f.length := by omega
      have hnp := stepQ_noprogress W (done ++ f :: todo) f res (by rw [hsq]; exact hlen)
      rw [hsq] at hnp
      have ih4 := ih.2.2.2 (by rw [pendingCount_snoc]; omega)
      refine ⟨ih4.1.trans hnp.1, ?_⟩
      intro c hc
      rw [List.flatten_cons] at hc
      rcases List.mem_append.1 hc with hc | hc
      · cases hrd : (specP W (d0 ++ f0 :: t0')).ready res c.id with
        | false => rfl
        | true =>
          have := ready_of_spec W hinv c.id hrd
          rw [hnp.2 c hc] at this
          exact absurd this (by simp)
      · have := ih4.2 c hc
        rw [hnp.1] at this
        exact this

/-- the exit state of the loop: exact, sound, and nothing pending or everybody stuck -/
theorem loopQ_spec (W : Ref → List Wait) (fs0 : List (List CRef)) (hnd : (idsOf fs0).Nodup) :
    ∀ (n : Nat) (fs : List (List CRef)) (res : List Ref), Forall₂ (Ex res) fs0 fs → res.Nodup →
    (∀ x, x ∈ res → Derivable (specP W fs0) (idsOf fs0) x) → pendingCount fs < n →
    Forall₂ (Ex (loopQ W n fs res).2) fs0 (loopQ W n fs res).1 ∧
    (loopQ W n fs res).2.Nodup ∧
    (∀ x, x ∈ (loopQ W n fs res).2 → Derivable (specP W fs0) (idsOf fs0) x) ∧
    (pendingCount (loopQ W n fs res).1 = 0 ∨
      ∀ c, c ∈ (loopQ W n fs res).1.flatten → (specP W fs0).ready (loopQ W n fs res).2 c.id = false)
  | 0, fs, res, _, _, _, hn => by omega
  | n+1, fs, res, hinv, hres, hs, hn => by
      have hr := roundQ_spec W fs0 hnd fs fs0 [] [] res (by simp) .nil hinv hres hs
      have hle := roundQ_count_le W fs [] res
      simp only [List.nil_append] at hr hle
      simp only [loopQ]
      by_cases h1 : pendingCount (roundQ W [] fs res).1 = 0 ∨
          pendingCount (roundQ W [] fs res).1 = pendingCount fs
      · simp only [h1, if_true]
        refine ⟨hr.1, hr.2.1, hr.2.2.1, ?_⟩
        rcases h1 with h1 | h1
        · exact Or.inl h1
        · right
          have h4 := hr.2.2.2 h1
          intro c hc
          rw [h4.1]
          refine h4.2 c ?_
          have h5 := (ex_flatten_mem hr.1 c).1 hc
          rw [h4.1] at h5
          exact (ex_flatten_mem hinv c).2 h5
      · simp only [h1, if_false]
        have : pendingCount (roundQ W [] fs res).1 ≠ pendingCount fs := fun e => h1 (Or.inr e)
        exact loopQ_spec W fs0 hnd n _ _ hr.1 hr.2.1 hr.2.2.1 (by omega)

theorem pendingCount_eq_ids (fs : List (List CRef)) : pendingCount fs = (idsOf fs).length := by
  unfold pendingCount idsOf
  rw [List.length_map]

/-- the loop started on the parsed files -/
theorem loopQ_start (W : Ref → List Wait) (fs0 : List (List CRef)) (hnd : (idsOf fs0).Nodup) (n : Nat)
    (hn : pendingCount fs0 < n) :
    Forall₂ (Ex (loopQ W n fs0 []).2) fs0 (loopQ W n fs0 []).1 ∧
    (loopQ W n fs0 []).2.Nodup ∧
    (∀ x, x ∈ (loopQ W n fs0 []).2 → Derivable (specP W fs0) (idsOf fs0) x) ∧
    (pendingCount (loopQ W n fs0 []).1 = 0 ∨
      ∀ c, c ∈ (loopQ W n fs0 []).1.flatten → (specP W fs0).ready (loopQ W n fs0 []).2 c.id = false) :=
  loopQ_spec W fs0 hnd n fs0 [] (forall₂_refl Ex.start fs0) List.nodup_nil (by simp) hn

/-- the resolved references are exactly the derivable ones -/
theorem loopQ_lfp (W : Ref → List Wait) (fs0 : List (List CRef)) (hnd : (idsOf fs0).Nodup) (n : Nat)
    (hn : pendingCount fs0 < n) (x : Ref) :
    x ∈ (loopQ W n fs0 []).2 ↔ Derivable (specP W fs0) (idsOf fs0) x := by
  have hsp := loopQ_start W fs0 hnd n hn
  constructor
  · exact hsp.2.2.1 x
  · refine fixpoint_complete (specP W fs0) (idsOf fs0) (idsOf (loopQ W n fs0 []).1) _ ?_ ?_ x
    · intro r hr
      obtain ⟨c, hc, rfl⟩ := List.mem_map.1 hr
      rcases hsp.2.2.2 with h0 | hst
      · have : (loopQ W n fs0 []).1.flatten = [] := List.eq_nil_of_length_eq_zero h0
        rw [this] at hc
        simp at hc
      · exact hst c hc
    · intro y hy
      obtain ⟨c, hc, rfl⟩ := List.mem_map.1 hy
      by_cases hin : c.id ∈ (loopQ W n fs0 []).2
      · exact Or.inr hin
      · exact Or.inl (List.mem_map.2 ⟨c, (ex_flatten_mem hsp.1 c).2 ⟨hc, hin⟩, rfl⟩)

/-- what stays pending: the references that are not derivable -/
theorem loopQ_pending (W : Ref → List Wait) (fs0 : List (List CRef)) (hnd : (idsOf fs0).Nodup) (n : Nat)
    (hn : pendingCount fs0 < n) (x : Ref) :
    x ∈ idsOf (loopQ W n fs0 []).1 ↔ (x ∈ idsOf fs0 ∧ ¬ Derivable (specP W fs0) (idsOf fs0) x) := by
  have hsp := loopQ_start W fs0 hnd n hn
  constructor
  · intro hx
    obtain ⟨c, hc, rfl⟩ := List.mem_map.1 hx
    have h := (ex_flatten_mem hsp.1 c).1 hc
    exact ⟨List.mem_map.2 ⟨c, h.1, rfl⟩, fun hd => h.2 ((loopQ_lfp W fs0 hnd n hn c.id).2 hd)⟩
  · rintro ⟨hx, hnd'⟩
    obtain ⟨c, hc, rfl⟩ := List.mem_map.1 hx
    exact List.mem_map.2 ⟨c, (ex_flatten_mem hsp.1 c).2 ⟨hc, fun hin => hnd' (hsp.2.2.1 _ hin)⟩, rfl⟩

/-- extra fuel changes nothing: the loop leaves by its own test -/
theorem loopQ_fuel_succ (W : Ref → List Wait) : ∀ n fs res, pendingCount fs < n →
    loopQ W (n+1) fs res = loopQ W n fs res
  | 0, fs, res, h => by omega
  | n+1, fs, res, h => by
      rw [loopQ]
      conv => rhs; rw [loopQ]
      have hle := roundQ_count_le W fs [] res
      simp only [List.nil_append] at hle
      by_cases h1 : pendingCount (roundQ W [] fs res).1 = 0 ∨
          pendingCount (roundQ W [] fs res).1 = pendingCount fs
      · simp only [h1, if_true]
      · simp only [h1, if_false]
        have : pendingCount (roundQ W [] fs res).1 ≠ pendingCount fs := fun e => h1 (Or.inr e)
        exact loopQ_fuel_succ W n _ _ (by omega)

theorem loopQ_fuel (W : Ref → List Wait) (fs : List (List CRef)) (res : List Ref) : ∀ n m,
    pendingCount fs < n → n ≤ m → loopQ W m fs res = loopQ W n fs res := by
  intro n m hn hm
  induction m with
  | zero => omega
  | succ m ih =>
    by_cases h : n = m + 1
    · subst h; rfl
    · rw [loopQ_fuel_succ W m fs res (by omega)]
      exact ih (by omega)

/-- `Derivable` only depends on what the provider answers and on which references exist -/
theorem Derivable.congr_provider (P P' : Provider) (U U' : List Ref) (hU : ∀ x, x ∈ U → x ∈ U')
    (hP : ∀ S r, P.ready S r = true → P'.ready S r = true) :
    ∀ x, Derivable P U x → Derivable P' U' x := by
  intro x hx
  induction hx with
  | step S hin _ hready ih => exact Derivable.step S (hU _ hin) ih (hP _ _ hready)

end Resolve
