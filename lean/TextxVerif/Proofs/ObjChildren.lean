import TextxVerif.Proofs.ObjNav
/-! Helper lemmas for C05: `get_children` = filtered pre/post-order of the contained objects. -/
namespace Obj

/-- specification of the traversal: pre-order (`cf = false`) or post-order (`cf = true`) of the
objects contained in `x`, descending only into objects satisfying `fol`; no visited set, no
accumulator. -/
def descO (h : Heap) (fol : Nat → Bool) (cf : Bool) : Nat → Nat → List Nat
  | 0, _ => []
  | f + 1, x =>
    match h.get x with
    | none => []
    | some o =>
      if cf then (o.contIds.filter fol).flatMap (descO h fol cf f) ++ [x]
      else x :: (o.contIds.filter fol).flatMap (descO h fol cf f)

theorem perm_flatMap_congr {α β : Type} (l : List α) {f g : α → List β} (hfg : ∀ a ∈ l, (f a).Perm (g a)) :
    (l.flatMap f).Perm (l.flatMap g) := by
  induction l with
  | nil => exact List.Perm.refl _
  | cons a l ih =>
    simp only [List.flatMap_cons]
    exact (hfg a List.mem_cons_self).append (ih fun b hb => hfg b (List.mem_cons_of_mem _ hb))

theorem descO_perm (h : Heap) (fol : Nat → Bool) (cf : Bool) :
    ∀ f x, (descO h fol cf f x).Perm (descO h fol false f x) := by
  intro f
  induction f with
  | zero => intro x; exact List.Perm.refl _
  | succ f ih =>
    intro x
    unfold descO
    cases hx : h.get x with
    | none => exact List.Perm.refl _
    | some o =>
      simp only []
      have hk := perm_flatMap_congr (o.contIds.filter fol) (fun c _ => ih c)
      cases cf with
      | false => exact List.Perm.refl _
      | true =>
        simp only [if_true, Bool.false_eq_true, if_false]
        exact (List.perm_append_comm.trans (List.Perm.refl _)).trans (List.Perm.cons x hk)

theorem mem_descO_iff (h : Heap) (fol : Nat → Bool) (cf : Bool) (f x y : Nat) :
    y ∈ descO h fol cf f x ↔ y ∈ descO h fol false f x :=
  (descO_perm h fol cf f x).mem_iff

theorem mem_desc_cases {h : Heap} {fol : Nat → Bool} {f x y : Nat} (hy : y ∈ descO h fol false (f + 1) x) :
    y = x ∨ ∃ c, c ∈ contIds h x ∧ fol c = true ∧ y ∈ descO h fol false f c := by
  unfold descO at hy
  cases hx : h.get x with
  | none => simp [hx] at hy
  | some o =>
    simp only [hx, Bool.false_eq_true, if_false, List.mem_cons, List.mem_flatMap, List.mem_filter] at hy
    rcases hy with rfl | ⟨c, ⟨hc1, hc2⟩, hc3⟩
    · exact Or.inl rfl
    · exact Or.inr ⟨c, by simpa [contIds, hx] using hc1, hc2, hc3⟩

theorem mem_desc_ancS {h : Heap} (T : TreeHeap h) {fol : Nat → Bool} :
    ∀ f x y, y ∈ descO h fol false f x → AncS h x y := by
  intro f
  induction f with
  | zero => intro x y hy; simp [descO] at hy
  | succ f ih =>
    intro x y hy
    rcases mem_desc_cases hy with rfl | ⟨c, hc, _, hyc⟩
    · exact Or.inl rfl
    · exact (AncS.of_cont T hc).trans T.parent_lt (ih c y hyc)

theorem desc_reach {h : Heap} {fol : Nat → Bool} :
    ∀ f x y, y ∈ descO h fol false f x → Reach h fol x y := by
  intro f
  induction f with
  | zero => intro x y hy; simp [descO] at hy
  | succ f ih =>
    intro x y hy
    rcases mem_desc_cases hy with rfl | ⟨c, hc, hf, hyc⟩
    · unfold descO at hy
      cases hx : h.get y with
      | none => simp [hx] at hy
      | some o => exact Reach.here (by simp [hx])
    · exact Reach.down hc hf (ih c y hyc)

theorem reach_desc {h : Heap} (T : TreeHeap h) {fol : Nat → Bool} {x y : Nat} (r : Reach h fol x y) :
    ∀ f, h.length ≤ x + f → y ∈ descO h fol false f x := by
  induction r with
  | @here x hx =>
    intro f hf
    cases hg : h.get x with
    | none => simp [hg] at hx
    | some o =>
      have := get_lt hg
      cases f with
      | zero => omega
      | succ f => unfold descO; simp [hg]
  | @down x c y hc hfol _ ih =>
    intro f hf
    have hxc := T.lt_of_cont hc
    cases hg : h.get x with
    | none => simp [contIds, hg] at hc
    | some o =>
      have := get_lt hg
      cases f with
      | zero => omega
      | succ f =>
        have := ih f (by omega)
        unfold descO
        simp only [hg, Bool.false_eq_true, if_false, List.mem_cons, List.mem_flatMap, List.mem_filter]
        exact Or.inr ⟨c, ⟨by simpa [contIds, hg] using hc, hfol⟩, this⟩

theorem nodup_flatMap_of {α β : Type} {l : List α} {f : α → List β} (h1 : ∀ a ∈ l, (f a).Nodup)
    (h2 : l.Pairwise (fun a b => ∀ y, y ∈ f a → y ∈ f b → False)) : (l.flatMap f).Nodup := by
  induction l with
  | nil => simp
  | cons a l ih =>
    simp only [List.flatMap_cons]
    have hp := List.pairwise_cons.mp h2
    refine List.nodup_append.mpr ⟨h1 a List.mem_cons_self, ih (fun b hb => h1 b (List.mem_cons_of_mem _ hb)) hp.2, ?_⟩
    intro y hy z hz hyz
    subst hyz
    obtain ⟨b, hb, hyb⟩ := List.mem_flatMap.mp hz
    exact hp.1 b hb y hy hyb

theorem desc_nodup {h : Heap} (T : TreeHeap h) {fol : Nat → Bool} :
    ∀ f x, (descO h fol false f x).Nodup := by
  intro f
  induction f with
  | zero => intro x; simp [descO]
  | succ f ih =>
    intro x
    unfold descO
    cases hx : h.get x with
    | none => simp
    | some o =>
      simp only [Bool.false_eq_true, if_false, List.nodup_cons]
      have hcont : ∀ c ∈ o.contIds.filter fol, c ∈ contIds h x := by
        intro c hc; simpa [contIds, hx] using (List.mem_filter.mp hc).1
      constructor
      · intro hmem
        obtain ⟨c, hc, hy⟩ := List.mem_flatMap.mp hmem
        have h1 := (mem_desc_ancS T f c x hy).le T.parent_lt
        have h2 := T.lt_of_cont (hcont c hc)
        omega
      · refine nodup_flatMap_of (fun c _ => ih c) ?_
        have hnd : (o.contIds.filter fol).Nodup := by
          have := T.nodup x
          simp only [contIds, hx] at this
          exact this.filter _
        refine List.Pairwise.imp_of_mem ?_ hnd
        intro c1 c2 h1 h2 hne
        intro y hy1 hy2
        exact hne (child_unique T (hcont c1 h1) (hcont c2 h2) (mem_desc_ancS T f c1 y hy1) (mem_desc_ancS T f c2 y hy2))

/-! ## the implementation follows the specification -/

theorem foldl_follow {h : Heap} {sel fol : Nat → Bool} {cf : Bool} {f : Nat}
    (P : ∀ x acc, (∀ y ∈ descO h fol false f x, y ∉ acc) →
      follow h sel fol cf f x acc = acc ++ (descO h fol cf f x).filter sel) :
    ∀ (cs : List Nat) (acc : List Nat), (∀ y ∈ (cs.filter fol).flatMap (descO h fol false f), y ∉ acc) →
      ((cs.filter fol).flatMap (descO h fol false f)).Nodup →
      cs.foldl (fun a c => if fol c then follow h sel fol cf f c a else a) acc
        = acc ++ ((cs.filter fol).flatMap (descO h fol cf f)).filter sel := by
  intro cs
  induction cs with
  | nil => intro acc _ _; simp
  | cons c cs ih =>
    intro acc hdis hnd
    simp only [List.foldl_cons]
    by_cases hf : fol c = true
    · simp only [hf, if_true]
      simp only [List.filter_cons, hf, if_true, List.flatMap_cons] at hdis hnd ⊢
      have hnd' := List.nodup_append.mp hnd
      rw [P c acc (fun y hy => hdis y (List.mem_append_left _ hy))]
      rw [ih _ ?_ hnd'.2.1]
      · simp [List.filter_append, List.append_assoc]
      · intro y hy hmem
        rcases List.mem_append.mp hmem with hm | hm
        · exact hdis y (List.mem_append_right _ hy) hm
        · have hyc : y ∈ descO h fol false f c := (mem_descO_iff h fol cf f c y).mp (List.mem_filter.mp hm).1
          exact hnd'.2.2 y hyc y hy rfl
    · have hf' : fol c = false := by simpa using hf
      simp only [hf', Bool.false_eq_true, if_false]
      simp only [List.filter_cons, hf', Bool.false_eq_true, if_false] at hdis hnd ⊢
      exact ih acc hdis hnd

theorem follow_eq {h : Heap} (T : TreeHeap h) (sel fol : Nat → Bool) (cf : Bool) :
    ∀ f x acc, (∀ y ∈ descO h fol false f x, y ∉ acc) →
      follow h sel fol cf f x acc = acc ++ (descO h fol cf f x).filter sel := by
  intro f
  induction f with
  | zero => intro x acc _; simp [follow, descO]
  | succ f ih =>
    intro x acc hdis
    have hnd := desc_nodup T (fol := fol) (f + 1) x
    unfold follow
    unfold descO at hdis hnd ⊢
    cases hx : h.get x with
    | none => simp
    | some o =>
      simp only [hx, Bool.false_eq_true, if_false] at hdis hnd
      have hxacc : x ∉ acc := hdis x List.mem_cons_self
      have hcont : acc.contains x = false := by simpa using hxacc
      simp only [hcont, Bool.false_eq_true, if_false]
      have hnd' := List.nodup_cons.mp hnd
      cases cf with
      | false =>
        simp only [Bool.not_false, Bool.true_and, Bool.false_and, Bool.false_eq_true, if_false]
        rw [foldl_follow (ih) o.contIds _ ?_ hnd'.2]
        · by_cases hs : sel x = true
          · simp [hs, List.append_assoc]
          · have hs' : sel x = false := by simpa using hs
            simp [hs']
        · intro y hy hmem
          have hyacc : y ∉ acc := hdis y (List.mem_cons_of_mem _ hy)
          by_cases hs : sel x = true
          · simp only [hs, if_true, List.mem_append, List.mem_singleton] at hmem
            rcases hmem with hm | rfl
            · exact hyacc hm
            · exact hnd'.1 hy
          · have hs' : sel x = false := by simpa using hs
            simp only [hs', Bool.false_eq_true, if_false] at hmem
            exact hyacc hmem
      | true =>
        simp only [Bool.not_true, Bool.false_and, Bool.true_and, Bool.false_eq_true, if_false, if_true]
        rw [foldl_follow (ih) o.contIds acc (fun y hy => hdis y (List.mem_cons_of_mem _ hy)) hnd'.2]
        by_cases hs : sel x = true
        · simp [hs, List.filter_append, List.append_assoc]
        · have hs' : sel x = false := by simpa using hs
          simp [hs', List.filter_append]

theorem getChildren_eq {h : Heap} (T : TreeHeap h) (sel fol : Nat → Bool) (cf : Bool) (fuel root : Nat) :
    getChildren h sel fol cf fuel root = (descO h fol cf fuel root).filter sel := by
  unfold getChildren
  rw [follow_eq T sel fol cf fuel root [] (by simp)]
  simp

/-! ## pruning (type-directed search that skips sub-trees) -/

theorem flatMap_filter_nil {α β : Type} (l : List α) (p : α → Bool) (g : α → List β)
    (hn : ∀ a ∈ l, p a = false → g a = []) : (l.filter p).flatMap g = l.flatMap g := by
  induction l with
  | nil => rfl
  | cons a l ih =>
    have ih' := ih (fun b hb => hn b (List.mem_cons_of_mem _ hb))
    cases hp : p a with
    | true => simp [hp, ih']
    | false => simp [hp, ih', hn a List.mem_cons_self hp]

/-- refusing to descend into objects below which nothing is selected does not change the selected
part of the traversal (as a list: same objects, same order) -/
theorem descO_filter_prune {h : Heap} (sel fol worth : Nat → Bool) (cf : Bool)
    (hw : ∀ y, worth y = false → ∀ x, Reach h fol y x → sel x = false) :
    ∀ f x, (descO h (fun c => worth c && fol c) cf f x).filter sel = (descO h fol cf f x).filter sel := by
  intro f
  induction f with
  | zero => intro x; simp [descO]
  | succ f ih =>
    intro x
    unfold descO
    cases hx : h.get x with
    | none => rfl
    | some o =>
      simp only []
      have key : ((o.contIds.filter (fun c => worth c && fol c)).flatMap
            (descO h (fun c => worth c && fol c) cf f)).filter sel
          = ((o.contIds.filter fol).flatMap (descO h fol cf f)).filter sel := by
        rw [List.filter_flatMap, List.filter_flatMap]
        have e1 : o.contIds.filter (fun c => worth c && fol c) = (o.contIds.filter fol).filter worth := by
          rw [List.filter_filter]
        rw [e1]
        have e2 : ((o.contIds.filter fol).filter worth).flatMap
              (fun c => (descO h (fun c => worth c && fol c) cf f c).filter sel)
            = ((o.contIds.filter fol).filter worth).flatMap (fun c => (descO h fol cf f c).filter sel) := by
          congr 1; funext c; exact ih c
        rw [e2]
        apply flatMap_filter_nil
        intro c _ hwc
        rw [List.filter_eq_nil_iff]
        intro y hy
        have hr := desc_reach f c y ((mem_descO_iff h fol cf f c y).1 hy)
        simp [hw c hwc y hr]
      cases cf with
      | false => simp only [Bool.false_eq_true, if_false, List.filter_cons, key]
      | true => simp only [if_true, List.filter_append, key]

/-! ## order -/

theorem sublist_flatMap_of_mem {α β : Type} {l : List α} {f : α → List β} {a : α} (ha : a ∈ l) :
    (f a).Sublist (l.flatMap f) := by
  induction l with
  | nil => cases ha
  | cons b l ih =>
    simp only [List.flatMap_cons]
    rcases List.mem_cons.mp ha with rfl | hm
    · exact List.sublist_append_left _ _
    · exact (ih hm).trans (List.sublist_append_right _ _)

theorem desc_order {h : Heap} (T : TreeHeap h) {fol : Nat → Bool} (cf : Bool) :
    ∀ f x y z, y ∈ descO h fol false f x → z ∈ descO h fol false f x → AncS h y z → y ≠ z →
      (if cf then [z, y] else [y, z]).Sublist (descO h fol cf f x) := by
  intro f
  induction f with
  | zero => intro x y z hy; simp [descO] at hy
  | succ f ih =>
    intro x y z hy hz hyz hne
    have hlt := T.parent_lt
    -- z is not x unless y = x
    have hzK : y ≠ x → ∃ c, c ∈ contIds h x ∧ fol c = true ∧ y ∈ descO h fol false f c ∧ z ∈ descO h fol false f c := by
      intro hyx
      rcases mem_desc_cases hy with rfl | ⟨c1, hc1, hf1, hy1⟩
      · exact absurd rfl hyx
      · have hxc1 := T.lt_of_cont hc1
        have hc1y := (mem_desc_ancS T f c1 y hy1).le hlt
        rcases mem_desc_cases hz with rfl | ⟨c2, hc2, _, hz2⟩
        · have := hyz.le hlt; omega
        · have : c1 = c2 := child_unique T hc1 hc2 ((mem_desc_ancS T f c1 y hy1).trans hlt hyz) (mem_desc_ancS T f c2 z hz2)
          subst this
          exact ⟨c1, hc1, hf1, hy1, hz2⟩
    unfold descO
    cases hx : h.get x with
    | none => unfold descO at hy; simp [hx] at hy
    | some o =>
      simp only []
      by_cases hyx : y = x
      · subst hyx
        have hzk : z ∈ (o.contIds.filter fol).flatMap (descO h fol cf f) := by
          rcases mem_desc_cases hz with rfl | ⟨c, hc, hf, hzc⟩
          · exact absurd rfl hne
          · refine List.mem_flatMap.mpr ⟨c, List.mem_filter.mpr ⟨by simpa [contIds, hx] using hc, hf⟩, ?_⟩
            exact (mem_descO_iff h fol cf f c z).mpr hzc
        cases cf with
        | false =>
          simp only [Bool.false_eq_true, if_false]
          exact List.Sublist.cons_cons _ (List.singleton_sublist.mpr hzk)
        | true =>
          simp only [if_true]
          exact List.Sublist.append (List.singleton_sublist.mpr hzk) (List.Sublist.refl [y])
      · obtain ⟨c, hc, hf, hyc, hzc⟩ := hzK hyx
        have hsub := ih c y z hyc hzc hyz hne
        have hcm : c ∈ o.contIds.filter fol := List.mem_filter.mpr ⟨by simpa [contIds, hx] using hc, hf⟩
        have hK := hsub.trans (sublist_flatMap_of_mem (f := descO h fol cf f) hcm)
        cases cf with
        | false =>
          simp only [Bool.false_eq_true, if_false] at hK ⊢
          exact hK.trans (List.sublist_cons_self _ _)
        | true =>
          simp only [if_true] at hK ⊢
          exact hK.trans (List.sublist_append_left _ _)

/-! ## references are inert -/

theorem follow_congr {h h' : Heap} (hex : ∀ x, (h.get x).isSome = (h'.get x).isSome)
    (hc : ∀ x, contIds h x = contIds h' x) (sel fol : Nat → Bool) (cf : Bool) :
    ∀ f x acc, follow h sel fol cf f x acc = follow h' sel fol cf f x acc := by
  intro f
  induction f with
  | zero => intro x acc; rfl
  | succ f ih =>
    intro x acc
    unfold follow
    by_cases hacc : acc.contains x = true
    · rw [if_pos hacc, if_pos hacc]
    · rw [if_neg hacc, if_neg hacc]
      have hex' := hex x
      have hc' := hc x
      cases hx : h.get x with
      | none =>
        cases hx' : h'.get x with
        | none => rfl
        | some o' => simp [hx, hx'] at hex'
      | some o =>
        cases hx' : h'.get x with
        | none => simp [hx, hx'] at hex'
        | some o' =>
          simp only [contIds, hx, hx'] at hc'
          simp only [hc']
          have : ∀ (cs : List Nat) (a : List Nat),
              cs.foldl (fun a c => if fol c then follow h sel fol cf f c a else a) a
                = cs.foldl (fun a c => if fol c then follow h' sel fol cf f c a else a) a := by
            intro cs
            induction cs with
            | nil => intro a; rfl
            | cons c cs ihc => intro a; simp only [List.foldl_cons, ih c a]; exact ihc _
          rw [this]

end Obj
