import TextxVerif.Proofs.ArpSim2
import TextxVerif.Peg.ArpUniform
/-!
# Simulation lemmas for parser models whose rule modifiers restate the context in force

`UniformAt g sk w`: no comment model, no `eolterm`, and every `ws` / `skipws` rule modifier of the
parser model restates the whitespace context `(sk, w)` the parse runs under (`Rule[skipws]` in a
meta-model with `skipws=True`, `Rule[ws=' ']` in a meta-model with `ws=' '`).  On states whose context is
`(sk, w)` (`Ctx`) the context manager of `Sequence` / `OrderedChoice` (`withWsCtx`: set, run, restore in
`finally`) is then the identity around its body, so the body lemmas of `ArpSim2` go through for every
closed relation that pins the context (`QOKc`).
-/
namespace Peg

/-- the whitespace context of a parser state is the constant `(sk, w)` and no `eolterm` repetition is active -/
def Ctx (sk : Bool) (w : List Char) (s : PState) : Prop :=
  s.skipws = sk ∧ s.ws = w ∧ s.realWs = w ∧ s.eolterm = false

/-- parser models for which results are determined by the position when the parse runs in context `(sk, w)` -/
structure UniformAt (g : Grammar) (sk : Bool) (w : List Char) : Prop where
  noComments : g.comments = none
  ctx : ∀ (id : Nat) (nd : Node), g.nodes[id]? = some nd →
    (nd.ws = none ∨ nd.ws = some w) ∧ (nd.skipws = none ∨ nd.skipws = some sk) ∧ nd.eolterm = false

theorem Uniform.toAt {g : Grammar} (h : Uniform g) (sk : Bool) (w : List Char) : UniformAt g sk w :=
  ⟨h.noComments, fun id nd hn => ⟨Or.inl (h.noCtx id nd hn).1, Or.inl (h.noCtx id nd hn).2.1, (h.noCtx id nd hn).2.2⟩⟩

theorem uniformAtB_sound {g : Grammar} {sk : Bool} {w : List Char} (h : uniformAtB g sk w = true) :
    UniformAt g sk w := by
  unfold uniformAtB at h
  simp only [Bool.and_eq_true, Option.isNone_iff_eq_none, Array.all_eq_true] at h
  refine ⟨h.1, ?_⟩
  intro id nd hn
  obtain ⟨hlt, hget⟩ := Array.getElem?_eq_some_iff.mp hn
  have h2 := h.2 id hlt
  rw [hget] at h2
  simp only [Bool.not_eq_true'] at h2
  obtain ⟨⟨h3, h4⟩, h5⟩ := h2
  refine ⟨?_, ?_, h5⟩
  · cases hw : nd.ws with
    | none => exact Or.inl rfl
    | some w' => rw [hw] at h3; simp only [beq_iff_eq] at h3; subst h3; exact Or.inr rfl
  · cases hs : nd.skipws with
    | none => exact Or.inl rfl
    | some b => rw [hs] at h4; simp only [beq_iff_eq] at h4; subst h4; exact Or.inr rfl

/-- the `finally` block of `withWsCtx` -/
def restoreCtx (nd : Node) (oldWs : List Char) (oldSkip : Bool) (s2 : PState) : PState :=
  let s2 := match nd.ws with | some _ => s2.setWs oldWs | .none => s2
  match nd.skipws with | some _ => { s2 with skipws := oldSkip } | .none => s2

theorem restoreCtx_id {sk : Bool} {w : List Char} (nd : Node) {t : PState} (ht : Ctx sk w t) :
    restoreCtx nd w sk t = t := by
  obtain ⟨h1, h2, h3, h4⟩ := ht
  rcases t with ⟨pos, skipws, ws, realWs, eol, cp, nm, ic, cache⟩
  simp only at h1 h2 h3 h4
  subst h1 h2 h3 h4
  unfold restoreCtx PState.setWs
  cases nd.ws <;> cases nd.skipws <;> simp

/-- entering the context manager in a state whose context is already `(sk, w)` changes nothing: the body
runs in the state itself, and what remains is the `finally` block -/
theorem withWsCtx_eq {sk : Bool} {w : List Char} (nd : Node) (hws : nd.ws = none ∨ nd.ws = some w)
    (hsk : nd.skipws = none ∨ nd.skipws = some sk) (b : PState → Res × PState) {s : PState} (hs : Ctx sk w s) :
    withWsCtx nd b s = ((b s).1, restoreCtx nd w sk (b s).2) := by
  obtain ⟨h1, h2, h3, h4⟩ := hs
  rcases s with ⟨pos, skipws, ws, realWs, eol, cp, nm, ic, cache⟩
  simp only at h1 h2 h3 h4
  subst h1 h2 h3 h4
  unfold withWsCtx restoreCtx PState.setWs
  rcases hws with hw | hw <;> rcases hsk with hk | hk <;> simp only [hw, hk] <;> rfl

/-- a closed state relation that pins the whitespace context of both states to `(sk, w)` -/
structure QOKc (Q : PState → PState → Prop) (sk : Bool) (w : List Char) : Prop where
  ok : QOK Q
  ctx : ∀ {a b}, Q a b → Ctx sk w a ∧ Ctx sk w b

variable {Q : PState → PState → Prop} {sk : Bool} {w : List Char}

theorem withWsCtx_sim (hQ : QOKc Q sk w) (nd : Node) (hws : nd.ws = none ∨ nd.ws = some w)
    (hsk : nd.skipws = none ∨ nd.skipws = some sk) {bA bB : PState → Res × PState} (h : SimB Q bA bB) :
    SimB Q (withWsCtx nd bA) (withWsCtx nd bB) := by
  intro sA sB r tA hq h1 hr
  rw [withWsCtx_eq nd hws hsk bA (hQ.ctx hq).1] at h1
  rw [withWsCtx_eq nd hws hsk bB (hQ.ctx hq).2]
  cases hb : bA sA with | mk r1 s1 =>
  rw [hb] at h1
  simp only [Prod.mk.injEq] at h1
  obtain ⟨e1, e2⟩ := h1
  subst e1
  obtain ⟨tB1, hB, hq1⟩ := h sA sB r1 s1 hq hb hr
  rw [restoreCtx_id nd (hQ.ctx hq1).1] at e2
  subst e2
  rw [hB]
  exact ⟨tB1, by simp only [restoreCtx_id nd (hQ.ctx hq1).2], hq1⟩

theorem withEol_sim_off (nd : Node) (heol : nd.eolterm = false) {bA bB : PState → Res × PState} (h : SimB Q bA bB) :
    SimB Q (withEol nd bA) (withEol nd bB) := by
  rw [show withEol nd bA = bA from funext (withEol_uniform nd heol bA),
      show withEol nd bB = bB from funext (withEol_uniform nd heol bB)]
  exact h

/-- the `_parse` methods on nodes whose modifiers restate the context `(sk, w)` -/
theorem bodyNode_sim_at (hQ : QOKc Q sk w) {pA pB : SubParser} (h : Sim Q pA pB) (k : Nat) (nd : Node)
    (hws : nd.ws = none ∨ nd.ws = some w) (hsk : nd.skipws = none ∨ nd.skipws = some sk) (heol : nd.eolterm = false) :
    SimB Q (bodyNode pA k nd) (bodyNode pB k nd) :=
  bodyNode_sim_gen hQ.ok h k nd (fun hb => withWsCtx_sim hQ nd hws hsk hb) (fun hb => withEol_sim_off nd heol hb)

theorem QOKc.swap (hQ : QOKc Q sk w) : QOKc (fun a b => Q b a) sk w where
  ok := {
    pos := fun h => (hQ.ok.pos h).symm
    skipws := fun h => (hQ.ok.skipws h).symm
    ws := fun h => (hQ.ok.ws h).symm
    notInC := fun h => ⟨(hQ.ok.notInC h).2, (hQ.ok.notInC h).1⟩
    idcp := fun h => ⟨(hQ.ok.idcp h).2, (hQ.ok.idcp h).1⟩
    setPos := fun h c => hQ.ok.setPos h c
    nmR := fun h c => hQ.ok.nmR h c
    setCP := fun h l l' hl hl' => hQ.ok.setCP h l' l hl' hl }
  ctx := fun h => ⟨(hQ.ctx h).2, (hQ.ctx h).1⟩

end Peg
