import TextxVerif.Tx.Sem
import TextxVerif.Proofs.MultVisit
import TextxVerif.Proofs.TxCompileSpec
/-!
# Bridge between the two mirrors of `_update_attr_multiplicities`

`Tx.walk true` (Tx/Compile.lean: attributes by name in a list, errors as exceptions; what
`Tx.compile` runs) and `Mult.walk` (Mult.lean: attributes numbered, multiplicities as a
function, rejections as a flag; what the C02 theorems are about) were written
independently.  This file maps a textX expression to the body `Mult` works on
(`toBody`, attribute names numbered by any injective `idx`) and shows that the two
visitor passes (`applyEvs` / `Mult.visit`) and the two walks compute the same
multiplicities whenever the `Tx` side does not raise.  Consequently `Mult.isList_iff_count`
(C02's static half) holds of the classes `Tx.ruleClass true` and `Tx.compile` produce,
with the count of the documented semantics (`Sem.count`) on the grammar as written.
-/
namespace Tx.Bridge
open Tx

/-! ## an injective numbering of names -/

def codeL : List Char → Nat
  | [] => 0
  | c :: cs => codeL cs * 1114112 + c.toNat + 1

def code (s : String) : Nat := codeL s.toList

theorem char_lt (c : Char) : c.toNat < 1114112 := by
  have h := c.valid
  simp only [UInt32.isValidChar, Nat.isValidChar] at h
  show c.val.toNat < 1114112
  omega

theorem codeL_inj : ∀ (a b : List Char), codeL a = codeL b → a = b
  | [], [], _ => rfl
  | [], d :: ds, h => by simp only [codeL] at h; omega
  | c :: cs, [], h => by simp only [codeL] at h; omega
  | c :: cs, d :: ds, h => by
    simp only [codeL] at h
    have hc := char_lt c
    have hd := char_lt d
    have h1 : codeL cs = codeL ds := by omega
    have h2 : c.toNat = d.toNat := by omega
    have h3 : c = d := by
      have := congrArg Char.ofNat h2
      simpa [Char.ofNat_toNat] using this
    rw [codeL_inj cs ds h1, h3]

theorem code_inj (a b : String) (h : code a = code b) : a = b := by
  have := codeL_inj _ _ h
  exact String.toList_inj.mp this

/-! ## translation -/

def toM : Tx.Mult → Mult.M
  | .optional => .opt | .one => .one | .zeroOrMore => .zeroMore | .oneOrMore => .oneMore

def toOp : AsgOp → Mult.Op
  | .plain => .plain | .opt => .bool | .star => .star | .plus => .plus

def toCnt : Sem.Cnt → Mult.Cnt
  | .zero => .zero | .one => .one | .many => .many

section
variable (idx : String → Nat)

mutual
/-- the rule body as `Mult` sees it: matches and rule references are leaves, a syntactic
predicate hands its operand the same `mult` and branch set (like `?`) -/
def toBody : Expr → Mult.Body
  | .asgn a op _ _ _ _ => .asgn (idx a) (toOp op)
  | .seq xs _ => .seq (toBodyL xs)
  | .alt xs _ => .choice (toBodyL xs)
  | .unord xs _ _ _ => .unordered (toBodyL xs)
  | .rep op x _ _ _ =>
      match op with
      | .opt => .opt (toBody x)
      | .star => .rep false (toBody x)
      | .plus => .rep true (toBody x)
  | .pred _ x _ => .opt (toBody x)
  | .str .. | .re .. | .ref .. => .leaf
def toBodyL : List Expr → List Mult.Body
  | [] => []
  | x :: xs => toBody x :: toBodyL xs
end

theorem toM_many (m : Tx.Mult) : (toM m).isMany = m.many := by cases m <;> rfl
theorem toM_prio (m : Tx.Mult) : (toM m).prio = m.prio := by cases m <;> rfl
theorem toM_inj (a b : Tx.Mult) (h : toM a = toM b) : a = b := by cases a <;> cases b <;> first | rfl | cases h

theorem toM_asgMult (op : AsgOp) (m : Tx.Mult) : toM (asgMult op m) = Mult.asgnMult (toOp op) (toM m) := by
  cases op <;> cases m <;> rfl

theorem toM_repMult_star (m : Tx.Mult) : toM (repMult .star m) = Mult.repMult false (toM m) := by cases m <;> rfl
theorem toM_repMult_plus (m : Tx.Mult) : toM (repMult .plus m) = Mult.repMult true (toM m) := by cases m <;> rfl

/-! ## the walk -/

/-- the two walker states agree -/
structure WR (st : WalkSt) (s : Mult.St) : Prop where
  set : ∀ a, st.set.contains a = true ↔ idx a ∈ s.seen
  mult : ∀ b ∈ st.attrs, toM b.mult = s.mult (idx b.name)
  rej : s.rej = false

variable (hinj : ∀ a b, idx a = idx b → a = b)
include hinj

theorem setMult_rel (attrs : List Attr) (a : String) (f : Tx.Mult → Tx.Mult) (mu mu' : Nat → Mult.M)
    (h : ∀ b ∈ attrs, toM b.mult = mu (idx b.name))
    (h1 : ∀ b ∈ attrs, b.name = a → toM (f b.mult) = mu' (idx a))
    (h2 : ∀ n, n ≠ idx a → mu' n = mu n) :
    ∀ b ∈ setMult attrs a f, toM b.mult = mu' (idx b.name) := by
  intro b hb
  unfold setMult at hb
  obtain ⟨b0, hb0, rfl⟩ := List.mem_map.mp hb
  by_cases hn : b0.name = a
  · simp only [hn, beq_self_eq_true, if_true]
    exact h1 b0 hb0 hn
  · have : (b0.name == a) = false := by simpa using hn
    simp only [this, Bool.false_eq_true, if_false]
    rw [h2 _ (fun hh => hn (hinj _ _ hh))]
    exact h b0 hb0

omit hinj in
theorem unionStr_contains (a b : List String) (x : String) :
    (unionStr a b).contains x = true ↔ a.contains x = true ∨ b.contains x = true := by
  unfold unionStr
  simp only [List.contains_eq_mem, List.mem_append, List.mem_filter, decide_eq_true_eq, Bool.not_eq_true',
    decide_eq_false_iff_not]
  constructor
  · rintro (h | ⟨h, _⟩)
    · exact Or.inl h
    · exact Or.inr h
  · rintro (h | h)
    · exact Or.inl h
    · by_cases ha : x ∈ a
      · exact Or.inl ha
      · exact Or.inr ⟨h, ha⟩

mutual
/-- **The two mirrors of the multiplicity walk agree** (whenever `Tx.walk` does not raise). -/
theorem walk_sim : ∀ (e : Expr) (m : Tx.Mult) (st st' : WalkSt) (s : Mult.St),
    WR idx st s → walk true e m st = .ok st' → WR idx st' (Mult.walk (toM m) (toBody idx e) s)
  | .asgn a op rhs sep eol sup, m, st, st', s, hr, h => by
    simp only [walk] at h
    simp only [toBody, Mult.walk, Mult.walkAsgn, ← toM_asgMult, toM_many]
    by_cases h1 : (asgMult op m).many = true
    · simp only [h1, if_true] at h ⊢
      by_cases h2 : op = .opt
      · simp [h2] at h
      · simp only [h2, if_false, Except.ok.injEq] at h
        subst h
        refine ⟨hr.set, ?_, ?_⟩
        · dsimp only
          apply setMult_rel idx hinj st.attrs a _ s.mult _ hr.mult
          · intro b hb hn
            have hb' := hr.mult b hb
            rw [hn] at hb'
            by_cases hlt : b.mult.prio < (asgMult op m).prio
            · have : Mult.M.lt (s.mult (idx a)) (toM (asgMult op m)) = true := by
                simp [Mult.M.lt, ← hb', toM_prio, hlt]
              simp [hlt, this, Mult.upd]
            · have : Mult.M.lt (s.mult (idx a)) (toM (asgMult op m)) = false := by
                simp [Mult.M.lt, ← hb', toM_prio, hlt]
              simp [hlt, this, hb']
          · intro n hn
            by_cases hlt : Mult.M.lt (s.mult (idx a)) (toM (asgMult op m)) = true
            · simp [hlt, Mult.upd, hn]
            · simp [hlt]
        · have : (toOp op == Mult.Op.bool) = false := by cases op <;> first | rfl | exact absurd rfl h2
          simp [hr.rej, this]
    · simp only [h1, Bool.false_eq_true, if_false] at h ⊢
      by_cases h3 : st.set.contains a = true
      · have h3' : idx a ∈ s.seen := (hr.set a).mp h3
        simp only [h3, if_true, Except.ok.injEq] at h
        subst h
        simp only [h3', if_true]
        refine ⟨hr.set, ?_, hr.rej⟩
        dsimp only
        apply setMult_rel idx hinj st.attrs a _ s.mult _ hr.mult
        · intro b _ _; simp [Mult.upd, toM]
        · intro n hn; simp [Mult.upd, hn]
      · have h3' : ¬ idx a ∈ s.seen := fun hh => h3 ((hr.set a).mpr hh)
        simp only [h3, Bool.false_eq_true, if_false, Except.ok.injEq] at h
        subst h
        simp only [h3', if_false]
        refine ⟨?_, hr.mult, hr.rej⟩
        intro x
        simp only [List.contains_cons, Bool.or_eq_true, beq_iff_eq, List.mem_cons]
        constructor
        · rintro (hx | hx)
          · exact Or.inl (by rw [hx])
          · exact Or.inr ((hr.set x).mp hx)
        · rintro (hx | hx)
          · exact Or.inl (hinj _ _ hx)
          · exact Or.inr ((hr.set x).mpr hx)
  | .alt xs sup, m, st, st', s, hr, h => by
    simp only [walk, if_true] at h
    simp only [toBody, Mult.walk]
    exact walkAlts_sim xs m st.set st st' s.seen s hr.set hr h
  | .seq xs sup, m, st, st', s, hr, h => by
    simp only [walk] at h
    simp only [toBody, Mult.walk]
    exact walkSeq_sim xs m st st' s hr h
  | .unord xs sep eol sup, m, st, st', s, hr, h => by
    simp only [walk] at h
    simp only [toBody, Mult.walk]
    exact walkSeq_sim xs m st st' s hr h
  | .rep op x sep eol sup, m, st, st', s, hr, h => by
    simp only [walk] at h
    cases op with
    | opt =>
      have hm : repMult .opt m = m := rfl
      rw [hm] at h
      simpa only [toBody, Mult.walk] using walk_sim x m st st' s hr h
    | star =>
      have := walk_sim x _ st st' s hr h
      rw [toM_repMult_star] at this
      simpa only [toBody, Mult.walk] using this
    | plus =>
      have := walk_sim x _ st st' s hr h
      rw [toM_repMult_plus] at this
      simpa only [toBody, Mult.walk] using this
  | .pred neg x sup, m, st, st', s, hr, h => by
    simp only [walk] at h
    simpa only [toBody, Mult.walk] using walk_sim x m st st' s hr h
  | .str .., m, st, st', s, hr, h => by
    simp only [walk, Except.ok.injEq] at h
    subst h
    simpa only [toBody, Mult.walk] using hr
  | .re .., m, st, st', s, hr, h => by
    simp only [walk, Except.ok.injEq] at h
    subst h
    simpa only [toBody, Mult.walk] using hr
  | .ref .., m, st, st', s, hr, h => by
    simp only [walk, Except.ok.injEq] at h
    subst h
    simpa only [toBody, Mult.walk] using hr
theorem walkSeq_sim : ∀ (xs : List Expr) (m : Tx.Mult) (st st' : WalkSt) (s : Mult.St),
    WR idx st s → walkSeq true xs m st = .ok st' → WR idx st' (Mult.walkSeq (toM m) (toBodyL idx xs) s)
  | [], m, st, st', s, hr, h => by
    simp only [walkSeq, Except.ok.injEq] at h
    subst h
    simpa only [toBodyL, Mult.walkSeq] using hr
  | x :: xs, m, st, st', s, hr, h => by
    simp only [walkSeq, bind, Except.bind] at h
    cases hw : walk true x m st with
    | error e => simp [hw] at h
    | ok st1 =>
      simp only [hw] at h
      simp only [toBodyL, Mult.walkSeq]
      exact walkSeq_sim xs m st1 st' _ (walk_sim x m st st1 s hr hw) h
theorem walkAlts_sim : ∀ (xs : List Expr) (m : Tx.Mult) (s0 : List String) (acc st' : WalkSt) (seen0 : List Nat)
    (accM : Mult.St), (∀ a, s0.contains a = true ↔ idx a ∈ seen0) → WR idx acc accM →
    walkAlts true xs m s0 acc = .ok st' → WR idx st' (Mult.walkAlts (toM m) (toBodyL idx xs) seen0 accM)
  | [], m, s0, acc, st', seen0, accM, h0, hr, h => by
    simp only [walkAlts, if_true, Except.ok.injEq] at h
    subst h
    simpa only [toBodyL, Mult.walkAlts] using hr
  | x :: xs, m, s0, acc, st', seen0, accM, h0, hr, h => by
    simp only [walkAlts, if_true, bind, Except.bind] at h
    cases hw : walk true x m { attrs := acc.attrs, set := s0 } with
    | error e => simp [hw] at h
    | ok r =>
      simp only [hw] at h
      simp only [toBodyL, Mult.walkAlts]
      have hr0 : WR idx { attrs := acc.attrs, set := s0 } { seen := seen0, mult := accM.mult, rej := accM.rej } :=
        ⟨h0, hr.mult, hr.rej⟩
      have hr1 := walk_sim x m _ r _ hr0 hw
      refine walkAlts_sim xs m s0 { attrs := r.attrs, set := unionStr acc.set r.set } st' seen0 _ h0
        ⟨?_, hr1.mult, hr1.rej⟩ h
      intro a
      dsimp only
      rw [unionStr_contains]
      simp only [List.mem_append]
      constructor
      · rintro (ha | ha)
        · exact Or.inr ((hr.set a).mp ha)
        · exact Or.inl ((hr1.set a).mp ha)
      · rintro (ha | ha)
        · exact Or.inr ((hr1.set a).mpr ha)
        · exact Or.inl ((hr.set a).mpr ha)
end

/-! ## the visitor pass -/

def evPair : Ev → Option (Nat × Mult.Op)
  | .asg a op _ _ => some (idx a, toOp op)
  | .optMods => none

omit hinj in
mutual
theorem asgns_toBody : ∀ (e : Expr), Mult.asgns (toBody idx e) = (events e).filterMap (evPair idx)
  | .asgn a op rhs sep eol sup => by simp [toBody, Mult.asgns, events, evPair]
  | .seq xs _ => by simp only [toBody, Mult.asgns, events]; exact asgnsL_toBody xs
  | .alt xs _ => by simp only [toBody, Mult.asgns, events]; exact asgnsL_toBody xs
  | .unord xs _ _ _ => by simp only [toBody, Mult.asgns, events]; exact asgnsL_toBody xs
  | .rep op x sep eol sup => by
    have := asgns_toBody x
    cases op <;> simp only [toBody, Mult.asgns, events, List.filterMap_append, this] <;>
      split <;> simp [evPair]
  | .pred _ x _ => by simp only [toBody, Mult.asgns, events]; exact asgns_toBody x
  | .str .. => by simp [toBody, Mult.asgns, events]
  | .re .. => by simp [toBody, Mult.asgns, events]
  | .ref .. => by simp [toBody, Mult.asgns, events]
theorem asgnsL_toBody : ∀ (xs : List Expr), Mult.asgnsL (toBodyL idx xs) = (eventsList xs).filterMap (evPair idx)
  | [] => by simp [toBodyL, Mult.asgnsL, eventsList]
  | x :: xs => by
    simp only [toBodyL, Mult.asgnsL, eventsList, List.filterMap_append, asgns_toBody x, asgnsL_toBody xs]
end

/-- the two visitor states agree -/
structure VR (attrs : List Attr) (v : Mult.VSt) : Prop where
  known : ∀ x, (∃ b ∈ attrs, b.name = x) ↔ idx x ∈ v.known
  mult : ∀ b ∈ attrs, toM b.mult = v.mult (idx b.name)
  bool : ∀ b ∈ attrs, b.boolAsg = true ↔ idx b.name ∈ v.boolA
  boolSub : ∀ n ∈ v.boolA, n ∈ v.known
  fresh : ∀ n, n ∉ v.known → v.mult n = .one
  rej : v.rej = false

omit hinj in
theorem mem_setAttr {attrs : List Attr} {a b : Attr} (h : b ∈ setAttr attrs a) :
    b = a ∨ (b ∈ attrs ∧ b.name ≠ a.name) := by
  unfold setAttr at h
  split at h
  · obtain ⟨b0, hb0, rfl⟩ := List.mem_map.mp h
    by_cases hn : b0.name = a.name
    · simp [hn]
    · have : (b0.name == a.name) = false := by simpa using hn
      simp only [this, Bool.false_eq_true, if_false]
      exact Or.inr ⟨hb0, hn⟩
  · rename_i hany
    rcases List.mem_append.mp h with h | h
    · refine Or.inr ⟨h, fun hn => hany ?_⟩
      exact List.any_eq_true.mpr ⟨b, h, by simp [hn]⟩
    · simp only [List.mem_singleton] at h
      exact Or.inl h

omit hinj in
theorem name_setAttr (attrs : List Attr) (a : Attr) (x : String) :
    (∃ b ∈ setAttr attrs a, b.name = x) ↔ (∃ b ∈ attrs, b.name = x) ∨ x = a.name := by
  constructor
  · rintro ⟨b, hb, rfl⟩
    rcases mem_setAttr hb with rfl | ⟨h, _⟩
    · exact Or.inr rfl
    · exact Or.inl ⟨b, h, rfl⟩
  · intro h
    unfold setAttr
    split
    · rename_i hany
      rcases h with ⟨b, hb, rfl⟩ | rfl
      · by_cases hn : b.name = a.name
        · exact ⟨a, List.mem_map.mpr ⟨b, hb, by simp [hn]⟩, hn.symm⟩
        · have : (b.name == a.name) = false := by simpa using hn
          exact ⟨b, List.mem_map.mpr ⟨b, hb, by simp [this]⟩, rfl⟩
      · obtain ⟨b, hb, hn⟩ := List.any_eq_true.mp hany
        exact ⟨a, List.mem_map.mpr ⟨b, hb, by simp [hn]⟩, rfl⟩
    · rcases h with ⟨b, hb, rfl⟩ | rfl
      · exact ⟨b, List.mem_append.mpr (Or.inl hb), rfl⟩
      · exact ⟨a, List.mem_append.mpr (Or.inr (by simp)), rfl⟩

omit hinj in
theorem visitAsgn_mult_self (v : Mult.VSt) (n : Nat) (op : AsgOp) (m0 : Tx.Mult) (h : toM m0 = v.mult n) :
    toM (opMult op m0) = (Mult.visitAsgn v (n, toOp op)).mult n := by
  cases op <;> cases m0 <;> simp [toM] at h <;> simp [Mult.visitAsgn, opMult, toM, toOp, Mult.upd, ← h]

omit hinj in
theorem visitAsgn_mult_ne (v : Mult.VSt) (n n' : Nat) (op : Mult.Op) (hne : n' ≠ n) :
    (Mult.visitAsgn v (n, op)).mult n' = v.mult n' := by
  cases op <;> simp only [Mult.visitAsgn, Mult.upd, hne, if_false]
  split <;> simp [Mult.upd, hne]

/-- one `visit_assignment` on both sides -/
theorem applyEv_sim (attrs attrs' : List Attr) (v : Mult.VSt) (name : String) (op : AsgOp) (ty : String) (mods : Bool)
    (hr : VR idx attrs v) (h : applyEv attrs (.asg name op ty mods) = .ok attrs') :
    VR idx attrs' (Mult.visitAsgn v (idx name, toOp op)) := by
  simp only [applyEv] at h
  split at h
  · simp at h
  split at h
  · simp at h
  rename_i hrejT
  split at h
  · simp at h
  simp only [Except.ok.injEq] at h
  -- the attribute record found / created
  generalize hold : attrs.find? (fun x => x.name == name) = old at h hrejT
  have hbase : ∀ o, old = some o → o ∈ attrs ∧ o.name = name := by
    intro o ho
    rw [ho] at hold
    exact ⟨List.mem_of_find?_eq_some hold, by simpa using List.find?_some hold⟩
  have hknown : idx name ∈ v.known ↔ old.isSome = true := by
    rw [← hr.known name]
    constructor
    · rintro ⟨b, hb, hn⟩
      rw [← hold, List.find?_isSome]
      exact ⟨b, hb, by simp [hn]⟩
    · intro hs
      cases old with
      | none => cases hs
      | some o => exact ⟨o, (hbase o rfl).1, (hbase o rfl).2⟩
  generalize ha0 : old.getD { name := name, cls := "" } = a0 at h
  have hn0 : a0.name = name := by
    cases old with
    | none => rw [← ha0]; rfl
    | some o => rw [← ha0]; exact (hbase o rfl).2
  have hm0 : toM a0.mult = v.mult (idx name) := by
    cases old with
    | none =>
      have : idx name ∉ v.known := fun hh => by simpa using hknown.mp hh
      rw [← ha0, hr.fresh _ this]; rfl
    | some o =>
      obtain ⟨ho, hn⟩ := hbase o rfl
      rw [← ha0]
      simpa [hn] using hr.mult o ho
  have hb0 : a0.boolAsg = false ∧ idx name ∉ v.boolA := by
    cases old with
    | none =>
      have hk : idx name ∉ v.known := fun hh => by simpa using hknown.mp hh
      exact ⟨by rw [← ha0]; rfl, fun hh => hk (hr.boolSub _ hh)⟩
    | some o =>
      obtain ⟨ho, hn⟩ := hbase o rfl
      have hf : o.boolAsg = false := by
        simp only [Option.any_some, Bool.or_eq_true, decide_eq_true_eq, not_or, Bool.not_eq_true] at hrejT
        exact hrejT.2
      refine ⟨by rw [← ha0]; exact hf, fun hh => ?_⟩
      have := (hr.bool o ho).mpr (by rw [hn]; exact hh)
      rw [hf] at this
      cases this
  have hopt : old.isSome = true → op ≠ .opt := by
    intro hs ho
    cases old with
    | none => cases hs
    | some o => simp [ho] at hrejT
  -- no rejection on the `Mult` side
  have hrej : (Mult.visitAsgn v (idx name, toOp op)).rej = false := by
    rw [Mult.visitAsgn_rej]
    simp only [hr.rej, Bool.false_or, Bool.and_eq_false_imp, decide_eq_true_eq, Bool.or_eq_false_iff,
      decide_eq_false_iff_not]
    intro hk
    refine ⟨?_, hb0.2⟩
    have := hopt (hknown.mp hk)
    cases op <;> first | rfl | exact absurd rfl this
  subst h
  have hmkn : (mkAttr a0 op ty).name = name := hn0
  refine ⟨?_, ?_, ?_, ?_, ?_, hrej⟩
  · -- known
    intro x
    rw [name_setAttr, Mult.visitAsgn_known, hr.known, hmkn]
    constructor
    · rintro (hx | hx)
      · exact Or.inl hx
      · exact Or.inr (by rw [hx])
    · rintro (hx | hx)
      · exact Or.inl hx
      · exact Or.inr (hinj _ _ hx)
  · -- mult
    intro b hb
    rcases mem_setAttr hb with rfl | ⟨hb, hne⟩
    · rw [hmkn]
      exact visitAsgn_mult_self v (idx name) op a0.mult hm0
    · rw [hmkn] at hne
      rw [visitAsgn_mult_ne v _ _ _ (fun hh => hne (hinj _ _ hh))]
      exact hr.mult b hb
  · -- bool
    intro b hb
    rw [Mult.visitAsgn_boolA]
    rcases mem_setAttr hb with rfl | ⟨hb, hne⟩
    · rw [hmkn]
      simp only [mkAttr, hb0.1, Bool.false_or, decide_eq_true_eq]
      constructor
      · intro ho; subst ho; simp [toOp]
      · rintro (hh | hh)
        · exact absurd hh hb0.2
        · cases op <;> simp [toOp] at hh ⊢
    · rw [hmkn] at hne
      rw [hr.bool b hb]
      constructor
      · exact Or.inl
      · rintro (hh | ⟨hh, _⟩)
        · exact hh
        · exact absurd (hinj _ _ hh) hne
  · -- boolA ⊆ known
    intro n hn
    rw [Mult.visitAsgn_known]
    rcases (Mult.visitAsgn_boolA v _ n).mp hn with hh | ⟨hh, _⟩
    · exact Or.inl (hr.boolSub n hh)
    · exact Or.inr hh
  · -- fresh
    intro n hn
    rw [Mult.visitAsgn_known] at hn
    have h1 : n ∉ v.known := fun hh => hn (Or.inl hh)
    have h2 : n ≠ idx name := fun hh => hn (Or.inr hh)
    rw [visitAsgn_mult_ne v _ _ _ h2]
    exact hr.fresh n h1

theorem applyEvs_sim : ∀ (evs : List Ev) (attrs attrs' : List Attr) (v : Mult.VSt), VR idx attrs v →
    applyEvs attrs evs = .ok attrs' → VR idx attrs' ((evs.filterMap (evPair idx)).foldl Mult.visitAsgn v)
  | [], attrs, attrs', v, hr, h => by
    simp only [applyEvs, Except.ok.injEq] at h
    subst h
    simpa using hr
  | e :: es, attrs, attrs', v, hr, h => by
    simp only [applyEvs, bind, Except.bind] at h
    cases he : applyEv attrs e with
    | error x => simp [he] at h
    | ok a1 =>
      simp only [he] at h
      cases e with
      | optMods => simp [applyEv] at he
      | asg name op ty mods =>
        simp only [List.filterMap_cons, evPair, List.foldl_cons]
        exact applyEvs_sim es a1 attrs' _ (applyEv_sim idx hinj attrs a1 v name op ty mods hr he) h

omit hinj in
theorem VR_init : VR idx [] { known := [], boolA := [], mult := fun _ => .one, rej := false } :=
  ⟨by simp, by simp, by simp, by simp, fun _ _ => rfl, rfl⟩

/-- **`Tx.ruleClass true` computes the multiplicities `Mult.infer` computes.** -/
theorem ruleClass_mult (r : Rule) (cls : Cls) (h : ruleClass true r = .ok cls) :
    ∀ b ∈ cls.attrs, toM b.mult = Mult.multOf (toBody idx r.body) (idx b.name) := by
  unfold ruleClass at h
  simp only [bind, Except.bind] at h
  split at h
  · simp [throw, throwThe, MonadExceptOf.throw] at h
  cases he : applyEvs [] (events r.body) with
  | error e => simp [he] at h
  | ok attrs =>
    simp only [he] at h
    cases hw : walk true r.body .one { attrs := attrs, set := [] } with
    | error e => simp [hw] at h
    | ok st =>
      simp only [hw, Except.ok.injEq] at h
      subst h
      have hv := applyEvs_sim idx hinj _ _ _ _ (VR_init idx) he
      rw [← asgns_toBody] at hv
      have hv' : VR idx attrs (Mult.visit (Mult.asgns (toBody idx r.body))) := hv
      have hw0 : WR idx { attrs := attrs, set := [] }
          { seen := [], mult := (Mult.visit (Mult.asgns (toBody idx r.body))).mult,
            rej := (Mult.visit (Mult.asgns (toBody idx r.body))).rej } :=
        ⟨by simp, hv'.mult, hv'.rej⟩
      have := walk_sim idx hinj r.body .one _ st _ hw0 hw
      exact this.mult

/-! ## the count -/

omit hinj in
theorem toCnt_add (a b : Sem.Cnt) : toCnt (a.add b) = (toCnt a).add (toCnt b) := by
  cases a <;> cases b <;> rfl

omit hinj in
theorem toCnt_max (a b : Sem.Cnt) : toCnt (a.max b) = (toCnt a).max (toCnt b) := by
  cases a <;> cases b <;> rfl

mutual
theorem count_toBody (a : String) : ∀ (e : Expr), Mult.count (idx a) (toBody idx e) = toCnt (Sem.count a e)
  | .asgn b op rhs sep eol sup => by
    simp only [toBody, Mult.count, Sem.count]
    by_cases hab : a = b
    · subst hab
      cases op <;> simp [toOp, Mult.Op.isList, toCnt]
    · have h1 : idx a ≠ idx b := fun hh => hab (hinj _ _ hh)
      have h2 : (a == b) = false := by simpa using hab
      simp [h1, h2, toCnt]
  | .seq xs _ => by simp only [toBody, Mult.count, Sem.count]; exact countSum_toBody a xs
  | .unord xs _ _ _ => by simp only [toBody, Mult.count, Sem.count]; exact countSum_toBody a xs
  | .alt xs _ => by simp only [toBody, Mult.count, Sem.count]; exact countMax_toBody a xs
  | .rep op x sep eol sup => by
    have := count_toBody a x
    cases op <;> simp only [toBody, Mult.count, Sem.count, this]
    all_goals (cases Sem.count a x <;> simp [toCnt])
  | .pred _ x _ => by simp only [toBody, Mult.count, Sem.count]; exact count_toBody a x
  | .str .. => by simp [toBody, Mult.count, Sem.count, toCnt]
  | .re .. => by simp [toBody, Mult.count, Sem.count, toCnt]
  | .ref .. => by simp [toBody, Mult.count, Sem.count, toCnt]
theorem countSum_toBody (a : String) : ∀ (xs : List Expr),
    Mult.countSum (idx a) (toBodyL idx xs) = toCnt (Sem.countSum a xs)
  | [] => by simp [toBodyL, Mult.countSum, Sem.countSum, toCnt]
  | x :: xs => by
    simp only [toBodyL, Mult.countSum, Sem.countSum, toCnt_add, count_toBody a x, countSum_toBody a xs]
theorem countMax_toBody (a : String) : ∀ (xs : List Expr),
    Mult.countMax (idx a) (toBodyL idx xs) = toCnt (Sem.countMax a xs)
  | [] => by simp [toBodyL, Mult.countMax, Sem.countMax, toCnt]
  | x :: xs => by
    simp only [toBodyL, Mult.countMax, Sem.countMax, toCnt_max, count_toBody a x, countMax_toBody a xs]
end

end

/-- **C02's static half on the classes the compiler mirror builds**: an attribute of the class of
rule `r` has a list multiplicity exactly when the count of the documented semantics is "many". -/
theorem ruleClass_list_iff (r : Rule) (cls : Cls) (h : ruleClass true r = .ok cls) (b : Attr) (hb : b ∈ cls.attrs) :
    b.mult.many = true ↔ Sem.count b.name r.body = .many := by
  have h1 := ruleClass_mult code code_inj r cls h b hb
  have h2 := Mult.isList_iff_count (toBody code r.body) (code b.name)
  rw [count_toBody code code_inj] at h2
  unfold Mult.isList at h2
  rw [← h1, toM_many] at h2
  rw [h2]
  cases Sem.count b.name r.body <;> simp [toCnt]

/-! ## from the rule classes to the compiled metamodel -/

/-- what the later passes leave alone: class names, attribute names and multiplicities -/
def sig (cs : List Cls) : List (String × List (String × Tx.Mult)) :=
  cs.map fun c => (c.name, c.attrs.map fun a => (a.name, a.mult))

theorem kindStep_sig (nodes : Array CNode) (roots : List (String × Nat)) (cs : List Cls) :
    sig (kindStep nodes roots cs) = sig cs := by
  unfold sig kindStep
  rw [List.map_map]
  apply List.map_congr_left
  intro c _
  simp only [Function.comp]
  repeat' split
  all_goals rfl

theorem iterate_sig (f : List Cls → List Cls) (hf : ∀ cs, sig (f cs) = sig cs) :
    ∀ (n : Nat) (cs : List Cls), sig (iterate f n cs) = sig cs
  | 0, _ => rfl
  | n+1, cs => by rw [iterate, iterate_sig f hf n, hf]

theorem finishClasses_sig (nodes : Array CNode) (roots : List (String × Nat)) (cs : List Cls) :
    sig (finishClasses nodes roots cs) = sig cs := by
  unfold finishClasses
  rw [← iterate_sig (kindStep nodes roots) (kindStep_sig nodes roots) (cs.length + 1) cs]
  generalize iterate (kindStep nodes roots) (cs.length + 1) cs = cl
  unfold sig
  rw [List.map_map]
  apply List.map_congr_left
  intro c _
  simp only [Function.comp, List.map_map, Prod.mk.injEq, true_and]
  apply List.map_congr_left
  intro a _
  simp only [Function.comp, resolveAttr]
  repeat' split
  all_goals rfl

theorem ruleClasses_mem : ∀ (rs : List Rule) (cs : List Cls), ruleClasses true rs = .ok cs → ∀ r ∈ rs,
    ∃ cls ∈ cs, ruleClass true r = .ok cls
  | [], _, _, r, hr => by simp at hr
  | q :: qs, cs, h, r, hr => by
    simp only [ruleClasses, bind, Except.bind] at h
    cases hq : ruleClass true q with
    | error e => simp [hq] at h
    | ok c =>
      simp only [hq] at h
      cases hqs : ruleClasses true qs with
      | error e => simp [hqs] at h
      | ok cs1 =>
        simp only [hqs, Except.ok.injEq] at h
        subst h
        rcases List.mem_cons.mp hr with rfl | hr
        · exact ⟨c, List.mem_cons_self .., hq⟩
        · obtain ⟨cls, hc, hcls⟩ := ruleClasses_mem qs cs1 hqs r hr
          exact ⟨cls, List.mem_cons_of_mem _ hc, hcls⟩

theorem ruleClass_name (r : Rule) (cls : Cls) (h : ruleClass true r = .ok cls) : cls.name = r.name := by
  unfold ruleClass at h
  simp only [bind, Except.bind] at h
  split at h
  · simp [throw, throwThe, MonadExceptOf.throw] at h
  cases he : applyEvs [] (events r.body) with
  | error e => simp [he] at h
  | ok attrs =>
    simp only [he] at h
    cases hw : walk true r.body .one { attrs := attrs, set := [] } with
    | error e => simp [hw] at h
    | ok st =>
      simp only [hw, Except.ok.injEq] at h
      subst h
      rfl

/-- **C02's static half on the compiled metamodel**: for every rule of a grammar that compiles, the
metamodel has a class of that name, and each of its attributes is a list exactly when the count of
the documented semantics over the rule body as written is "many". -/
theorem compile_list_iff (g : Gram) (c : Compiled) (hc : compile g = .ok c) (r : Rule) (hr : r ∈ g.rules) :
    ∃ cls ∈ c.classes, cls.name = r.name ∧
      ∀ b ∈ cls.attrs, (b.mult.many = true ↔ Sem.count b.name r.body = .many) := by
  obtain ⟨_, _, classes0, roots, _, _, hcls, hfin⟩ := compile_spec hc
  obtain ⟨cls0, hmem0, hrc⟩ := ruleClasses_mem g.rules classes0 hcls r hr
  have hsig : sig c.classes = sig classes0 := by rw [hfin, finishClasses_sig]
  have h1 : (cls0.name, cls0.attrs.map fun a => (a.name, a.mult)) ∈ sig c.classes := by
    rw [hsig]
    exact List.mem_map.mpr ⟨cls0, hmem0, rfl⟩
  obtain ⟨cls, hmem, heq⟩ := List.mem_map.mp h1
  simp only [Prod.mk.injEq] at heq
  refine ⟨cls, hmem, by rw [heq.1, ruleClass_name r cls0 hrc], ?_⟩
  intro b hb
  have h2 : (b.name, b.mult) ∈ cls0.attrs.map fun a => (a.name, a.mult) := by
    rw [← heq.2]
    exact List.mem_map.mpr ⟨b, hb, rfl⟩
  obtain ⟨b0, hb0, hbeq⟩ := List.mem_map.mp h2
  simp only [Prod.mk.injEq] at hbeq
  have := ruleClass_list_iff r cls0 hrc b0 hb0
  rw [hbeq.1, hbeq.2] at this
  exact this

end Tx.Bridge
