import TextxVerif.ProcWalk
/-! Helper lemmas for the object-processor walk (C13). -/
namespace Proc

/-! ### values without objects -/
mutual
theorem noObj_occ : ∀ (v : Val) (g : Nat), noObj v = true → occ v g = []
  | .none, g, _ => by simp [occ]
  | .prim _, g, _ => by simp [occ]
  | .obj _ _ _, g, h => by simp [noObj] at h
  | .list xs, g, h => by
      rw [noObj] at h
      simpa [occ] using noObjItems_occ xs g h
theorem noObjItems_occ : ∀ (xs : Vals) (g : Nat), noObjItems xs = true → occItems xs g = []
  | .nil, g, _ => by simp [occItems]
  | .cons x xs, g, h => by
      rw [noObjItems, Bool.and_eq_true] at h
      simp [occItems, noObj_occ x g h.1, noObjItems_occ xs g h.2]
end

theorem typedOcc_not_match {M : MM} {cls gm : Nat} (h : typedOcc M cls gm = true) : M.kind gm ≠ .mtch := by
  intro hk
  simp [typedOcc, hk] at h

theorem objStep_log_key (M : MM) (S : Script) (id cls : Nat) (fs : Fields) (gm : Nat) (r : List Entry × Fields)
    (hk : M.kind gm ≠ .mtch) :
    (objStep M S id cls fs gm r).log.map Entry.key = r.1.map Entry.key ++ calls M ⟨id, cls, gm⟩ := by
  simp only [objStep, hk, if_false, List.map_append, calls]
  cases (decide (cls ≠ gm) && M.hasProc cls) <;> cases M.hasProc gm <;> simp [Entry.key]

/-! ### the log is the post-order list of entitled calls -/
mutual
theorem walkFields_log (M : MM) (S : Script) : ∀ (fs : Fields), wfFields M fs = true →
    (walkFields M S fs).1.map Entry.key = (occFields fs).flatMap (calls M)
  | .nil, _ => by simp [walkFields, occFields]
  | .cons a v rest, h => by
      rw [wfFields, Bool.and_eq_true] at h
      have ih2 := walkFields_log M S rest h.2
      rw [walkFields, occFields]
      simp only [List.map_append, List.flatMap_append, ih2]
      congr 1
      by_cases hc : a.cont = true
      · simp only [hc, if_true] at h ⊢
        exact walkSlot_log M S a.many a.cls v h.1
      · simp only [hc] at h ⊢
        simp [noObj_occ v a.cls (by simpa using h.1)]
theorem walkSlot_log (M : MM) (S : Script) (many : Bool) (gm : Nat) : ∀ (v : Val), wfSlot M many gm v = true →
    (walkSlot M S many gm v).1.map Entry.key = (occ v gm).flatMap (calls M)
  | .none, _ => by simp [walkSlot, occ]
  | .prim _, _ => by simp [walkSlot, occ]
  | .list xs, h => by
      rw [wfSlot, Bool.and_eq_true] at h
      rw [walkSlot, occ]
      simp only [h.1, if_true]
      exact walkItems_log M S xs gm h.2
  | .obj id cls fs, h => by
      rw [wfSlot] at h
      simp only [Bool.and_eq_true, Bool.not_eq_true'] at h
      have hk := typedOcc_not_match h.1.2
      rw [walkSlot, occ]
      simp only [h.1.1, Bool.false_eq_true, if_false]
      rw [objStep_log_key M S id cls fs gm _ hk, walkFields_log M S fs h.2]
      simp
theorem walkItems_log (M : MM) (S : Script) : ∀ (xs : Vals) (gm : Nat), wfItems M xs gm = true →
    (walkItems M S gm xs).1.map Entry.key = (occItems xs gm).flatMap (calls M)
  | .nil, gm, _ => by simp [walkItems, occItems]
  | .cons x xs, gm, h => by
      rw [wfItems, Bool.and_eq_true] at h
      rw [walkItems, occItems]
      simp [walkSlot_log M S false gm x h.1, walkItems_log M S xs gm h.2]
end

theorem walkSlot_false (M : MM) (S : Script) (gm : Nat) (v : Val) :
    walkSlot M S false gm v = ((walk M S v gm).log, slotVal (walk M S v gm)) := by
  cases v <;> simp [walkSlot, walk, slotVal]

theorem walk_log (M : MM) (S : Script) (v : Val) (gm : Nat) (h : wf M v gm = true) :
    (walk M S v gm).log.map Entry.key = (occ v gm).flatMap (calls M) := by
  have := walkSlot_log M S false gm v h
  rwa [walkSlot_false] at this

/-! ### every occurrence of a well-formed value is well typed -/
mutual
theorem wfFields_typed (M : MM) : ∀ (fs : Fields), wfFields M fs = true →
    ∀ o ∈ occFields fs, typedOcc M o.cls o.gm = true
  | .nil, _ => by simp [occFields]
  | .cons a v rest, h => by
      rw [wfFields, Bool.and_eq_true] at h
      rw [occFields]
      intro o ho
      rcases List.mem_append.1 ho with ho | ho
      · by_cases hc : a.cont = true
        · simp only [hc, if_true] at h
          exact wfSlot_typed M a.many a.cls v h.1 o ho
        · simp only [hc] at h
          rw [noObj_occ v a.cls (by simpa using h.1)] at ho
          simp at ho
      · exact wfFields_typed M rest h.2 o ho
theorem wfSlot_typed (M : MM) (many : Bool) (gm : Nat) : ∀ (v : Val), wfSlot M many gm v = true →
    ∀ o ∈ occ v gm, typedOcc M o.cls o.gm = true
  | .none, _ => by simp [occ]
  | .prim _, _ => by simp [occ]
  | .list xs, h => by
      rw [wfSlot, Bool.and_eq_true] at h
      rw [occ]
      exact wfItems_typed M xs gm h.2
  | .obj id cls fs, h => by
      rw [wfSlot] at h
      simp only [Bool.and_eq_true, Bool.not_eq_true'] at h
      rw [occ]
      intro o ho
      rcases List.mem_append.1 ho with ho | ho
      · exact wfFields_typed M fs h.2 o ho
      · simp only [List.mem_singleton] at ho
        subst ho
        exact h.1.2
theorem wfItems_typed (M : MM) : ∀ (xs : Vals) (gm : Nat), wfItems M xs gm = true →
    ∀ o ∈ occItems xs gm, typedOcc M o.cls o.gm = true
  | .nil, gm, _ => by simp [occItems]
  | .cons x xs, gm, h => by
      rw [wfItems, Bool.and_eq_true] at h
      rw [occItems]
      intro o ho
      rcases List.mem_append.1 ho with ho | ho
      · exact wfSlot_typed M false gm x h.1 o ho
      · exact wfItems_typed M xs gm h.2 o ho
end

theorem wf_typed (M : MM) (v : Val) (gm : Nat) (h : wf M v gm = true) :
    ∀ o ∈ occ v gm, typedOcc M o.cls o.gm = true := wfSlot_typed M false gm v h

/-! ### list facts about `calls` -/

theorem filter_flatMap_eq {α β : Type} (l : List α) (f : α → List β) (p : β → Bool) (q : α → Bool) (g : α → β)
    (h : ∀ x ∈ l, (f x).filter p = if q x then [g x] else []) :
    (l.flatMap f).filter p = (l.filter q).map g := by
  induction l with
  | nil => simp
  | cons x xs ih =>
    simp only [List.flatMap_cons, List.filter_append]
    rw [h x (by simp), ih (fun y hy => h y (by simp [hy]))]
    by_cases hq : q x = true <;> simp [hq]

theorem count_map_pair (c : Nat) (l : List Nat) (i : Nat) :
    (l.map (fun x => (c, x))).count (c, i) = l.count i := by
  induction l with
  | nil => simp
  | cons x xs ih => simp [List.count_cons, ih]

/-- calls for a common rule `c`: exactly the occurrences of class `c` -/
theorem calls_filter_common (M : MM) (c : Nat) (hc : M.kind c = .common) (hp : M.hasProc c = true)
    (o : Occ) (ht : typedOcc M o.cls o.gm = true) :
    (calls M o).filter (fun k => k.1 = c) = if o.cls = c then [(c, o.id)] else [] := by
  obtain ⟨id, cls, gm⟩ := o
  simp only [typedOcc, Bool.and_eq_true, decide_eq_true_eq] at ht
  simp only [calls, List.filter_append]
  by_cases h1 : cls = c
  · subst h1
    by_cases h2 : gm = cls
    · subst h2; simp [hp]
    · have : cls ≠ gm := fun h => h2 h.symm
      have hg : ¬ (gm = cls) := h2
      cases hgp : M.hasProc gm <;> simp [this, hp, hg]
  · have hg : gm ≠ c := by
      intro hgc
      subst hgc
      rw [hc] at ht
      simp at ht
      exact h1 ht.2
    cases hgp : M.hasProc gm <;> cases hcp : M.hasProc cls <;> simp [h1, hg]

/-- calls for an abstract rule `a`: exactly the occurrences declared `a` -/
theorem calls_filter_abstr (M : MM) (a : Nat) (ha : M.kind a = .abstr) (hp : M.hasProc a = true)
    (o : Occ) (ht : typedOcc M o.cls o.gm = true) :
    (calls M o).filter (fun k => k.1 = a) = if o.gm = a then [(a, o.id)] else [] := by
  obtain ⟨id, cls, gm⟩ := o
  simp only [typedOcc, Bool.and_eq_true, decide_eq_true_eq] at ht
  have hca : cls ≠ a := by
    intro h; subst h; rw [ha] at ht; simp at ht
  simp only [calls, List.filter_append]
  by_cases h2 : gm = a
  · subst h2
    cases hcp : M.hasProc cls <;> simp [hp, hca]
  · cases hgp : M.hasProc gm <;> cases hcp : M.hasProc cls <;> simp [h2, hca]

/-! ### ids -/
mutual
theorem occ_ids : ∀ (v : Val) (g : Nat), (occ v g).map (·.id) = oids v
  | .none, g => by simp [occ, oids]
  | .prim _, g => by simp [occ, oids]
  | .list xs, g => by rw [occ, oids]; exact occItems_ids xs g
  | .obj id cls fs, g => by rw [occ, oids]; simp [occFields_ids fs]
theorem occFields_ids : ∀ (fs : Fields), (occFields fs).map (·.id) = oidsFields fs
  | .nil => by simp [occFields, oidsFields]
  | .cons a v rest => by rw [occFields, oidsFields]; simp [occ_ids v a.cls, occFields_ids rest]
theorem occItems_ids : ∀ (xs : Vals) (g : Nat), (occItems xs g).map (·.id) = oidsItems xs
  | .nil, g => by simp [occItems, oidsItems]
  | .cons x xs, g => by rw [occItems, oidsItems]; simp [occ_ids x g, occItems_ids xs g]
end

theorem objStep_log_ids (M : MM) (S : Script) (id cls : Nat) (fs : Fields) (gm : Nat) (r : List Entry × Fields)
    (e : Entry) (he : e ∈ (objStep M S id cls fs gm r).log) : e ∈ r.1 ∨ e.id = id := by
  unfold objStep at he
  by_cases hk : M.kind gm = .mtch
  · simp [hk] at he
  · simp only [hk, if_false, List.mem_append] at he
    rcases he with he | he | he
    · exact Or.inl he
    · right
      split at he
      · simp only [List.mem_singleton] at he; rw [he]
      · simp at he
    · right
      split at he
      · simp only [List.mem_singleton] at he; rw [he]
      · simp at he

/-! processors are only ever called on objects of the value -/
mutual
theorem walkFields_ids (M : MM) (S : Script) : ∀ (fs : Fields) (e : Entry), e ∈ (walkFields M S fs).1 →
    e.id ∈ oidsFields fs
  | .nil, e, he => by simp [walkFields] at he
  | .cons a v rest, e, he => by
      rw [walkFields] at he
      rw [oidsFields]
      rcases List.mem_append.1 he with he | he
      · by_cases hc : a.cont = true
        · simp only [hc, if_true] at he
          exact List.mem_append.2 (Or.inl (walkSlot_ids M S a.many a.cls v e he))
        · simp [hc] at he
      · exact List.mem_append.2 (Or.inr (walkFields_ids M S rest e he))
theorem walkSlot_ids (M : MM) (S : Script) (many : Bool) (gm : Nat) : ∀ (v : Val) (e : Entry),
    e ∈ (walkSlot M S many gm v).1 → e.id ∈ oids v
  | .none, e, he => by simp [walkSlot] at he
  | .prim _, e, he => by simp [walkSlot] at he
  | .list xs, e, he => by
      rw [walkSlot] at he
      rw [oids]
      cases many
      · simp at he
      · simp only [if_true] at he
        exact walkItems_ids M S gm xs e he
  | .obj id cls fs, e, he => by
      rw [walkSlot] at he
      rw [oids]
      cases many
      · simp only [Bool.false_eq_true, if_false] at he
        rcases objStep_log_ids M S id cls fs gm _ e he with h | h
        · exact List.mem_append.2 (Or.inl (walkFields_ids M S fs e h))
        · simp [h]
      · simp at he
theorem walkItems_ids (M : MM) (S : Script) (gm : Nat) : ∀ (xs : Vals) (e : Entry),
    e ∈ (walkItems M S gm xs).1 → e.id ∈ oidsItems xs
  | .nil, e, he => by simp [walkItems] at he
  | .cons x xs, e, he => by
      rw [walkItems] at he
      rw [oidsItems]
      rcases List.mem_append.1 he with he | he
      · exact List.mem_append.2 (Or.inl (walkSlot_ids M S false gm x e he))
      · exact List.mem_append.2 (Or.inr (walkItems_ids M S gm xs e he))
end

/-! both ends of a containment pair are objects of the value -/
mutual
theorem inside_mem : ∀ (v : Val) (a b : Nat), inside v a b → a ∈ oids v ∧ b ∈ oids v
  | .none, a, b, h => by simp [inside] at h
  | .prim _, a, b, h => by simp [inside] at h
  | .list xs, a, b, h => by
      rw [inside] at h; rw [oids]; exact insideItems_mem xs a b h
  | .obj id cls fs, a, b, h => by
      rw [inside] at h
      rw [oids]
      rcases h with ⟨h1, h2⟩ | h
      · subst h1; exact ⟨by simp, List.mem_append.2 (Or.inl h2)⟩
      · have := insideFields_mem fs a b h
        exact ⟨List.mem_append.2 (Or.inl this.1), List.mem_append.2 (Or.inl this.2)⟩
theorem insideFields_mem : ∀ (fs : Fields) (a b : Nat), insideFields fs a b → a ∈ oidsFields fs ∧ b ∈ oidsFields fs
  | .nil, a, b, h => by simp [insideFields] at h
  | .cons at' v rest, a, b, h => by
      rw [insideFields] at h
      rw [oidsFields]
      rcases h with h | h
      · have := inside_mem v a b h
        exact ⟨List.mem_append.2 (Or.inl this.1), List.mem_append.2 (Or.inl this.2)⟩
      · have := insideFields_mem rest a b h
        exact ⟨List.mem_append.2 (Or.inr this.1), List.mem_append.2 (Or.inr this.2)⟩
theorem insideItems_mem : ∀ (xs : Vals) (a b : Nat), insideItems xs a b → a ∈ oidsItems xs ∧ b ∈ oidsItems xs
  | .nil, a, b, h => by simp [insideItems] at h
  | .cons x xs, a, b, h => by
      rw [insideItems] at h
      rw [oidsItems]
      rcases h with h | h
      · have := inside_mem x a b h
        exact ⟨List.mem_append.2 (Or.inl this.1), List.mem_append.2 (Or.inl this.2)⟩
      · have := insideItems_mem xs a b h
        exact ⟨List.mem_append.2 (Or.inr this.1), List.mem_append.2 (Or.inr this.2)⟩
end

/-- two runs of log entries over id-disjoint parts, each in children-first order,
concatenate to a children-first run w.r.t. containment in the whole -/
theorem pairwise_two {R1 R2 R : Entry → Entry → Prop} {l1 l2 : List Entry} {A B : List Nat}
    (h1 : l1.Pairwise R1) (h2 : l2.Pairwise R2)
    (m1 : ∀ e ∈ l1, e.id ∈ A) (m2 : ∀ e ∈ l2, e.id ∈ B)
    (r1 : ∀ x y, x.id ∈ A → y.id ∈ A → R1 x y → R x y)
    (r2 : ∀ x y, x.id ∈ B → y.id ∈ B → R2 x y → R x y)
    (r12 : ∀ x y, x.id ∈ A → y.id ∈ B → R x y) :
    (l1 ++ l2).Pairwise R := by
  rw [List.pairwise_append]
  refine ⟨h1.imp_of_mem (fun ha hb h => r1 _ _ (m1 _ ha) (m1 _ hb) h),
          h2.imp_of_mem (fun ha hb h => r2 _ _ (m2 _ ha) (m2 _ hb) h), ?_⟩
  intro x hx y hy
  exact r12 x y (m1 x hx) (m2 y hy)

/-! ### children first -/
mutual
theorem walkFields_children_first (M : MM) (S : Script) : ∀ (fs : Fields), (oidsFields fs).Nodup →
    (walkFields M S fs).1.Pairwise (fun x y => ¬ insideFields fs x.id y.id)
  | .nil, _ => by simp [walkFields]
  | .cons a v rest, hn => by
      rw [oidsFields, List.nodup_append] at hn
      obtain ⟨hn1, hn2, hd⟩ := hn
      rw [walkFields]
      have ih2 := walkFields_children_first M S rest hn2
      by_cases hc : a.cont = true
      · simp only [hc, if_true]
        have ih1 := walkSlot_children_first M S a.many a.cls v hn1
        refine pairwise_two ih1 ih2 (walkSlot_ids M S a.many a.cls v) (walkFields_ids M S rest) ?_ ?_ ?_
        · intro x y hx _ h hin
          rw [insideFields] at hin
          rcases hin with hin | hin
          · exact h hin
          · exact hd _ hx _ (insideFields_mem rest _ _ hin).1 rfl
        · intro x y hx _ h hin
          rw [insideFields] at hin
          rcases hin with hin | hin
          · exact hd _ (inside_mem v _ _ hin).1 _ hx rfl
          · exact h hin
        · intro x y hx hy hin
          rw [insideFields] at hin
          rcases hin with hin | hin
          · exact hd _ (inside_mem v _ _ hin).2 _ hy rfl
          · exact hd _ hx _ (insideFields_mem rest _ _ hin).1 rfl
      · simp only [hc, Bool.false_eq_true, if_false, List.nil_append]
        refine ih2.imp_of_mem ?_
        intro x y hx _ h hin
        rw [insideFields] at hin
        rcases hin with hin | hin
        · exact hd _ (inside_mem v _ _ hin).1 _ (walkFields_ids M S rest x hx) rfl
        · exact h hin
theorem walkSlot_children_first (M : MM) (S : Script) (many : Bool) (gm : Nat) : ∀ (v : Val), (oids v).Nodup →
    (walkSlot M S many gm v).1.Pairwise (fun x y => ¬ inside v x.id y.id)
  | .none, _ => by simp [walkSlot]
  | .prim _, _ => by simp [walkSlot]
  | .list xs, hn => by
      rw [oids] at hn
      rw [walkSlot]
      cases many
      · simp
      · simp only [if_true]
        refine (walkItems_children_first M S gm xs hn).imp ?_
        intro x y h hin
        rw [inside] at hin
        exact h hin
  | .obj id cls fs, hn => by
      rw [oids, List.nodup_append] at hn
      obtain ⟨hn1, _, hd⟩ := hn
      have hid : id ∉ oidsFields fs := fun h => hd _ h id (by simp) rfl
      rw [walkSlot]
      cases many
      · simp only [Bool.false_eq_true, if_false]
        unfold objStep
        by_cases hk : M.kind gm = .mtch
        · simp [hk]
        · simp only [hk, if_false]
          have ih := walkFields_children_first M S fs hn1
          refine pairwise_two (A := oidsFields fs) (B := [id]) ih
            (List.pairwise_of_forall_mem_list (r := fun _ _ => True) (fun _ _ _ _ => trivial))
            (walkFields_ids M S fs) ?_ ?_ ?_ ?_
          · intro e he
            rcases List.mem_append.1 he with he | he <;>
              (split at he
               · simp only [List.mem_singleton] at he; simp [he]
               · simp at he)
          · intro x y hx _ h hin
            rw [inside] at hin
            rcases hin with ⟨h1, _⟩ | hin
            · exact hid (h1 ▸ hx)
            · exact h hin
          · intro x y hx hy _ hin
            simp only [List.mem_singleton] at hx hy
            rw [inside] at hin
            rcases hin with ⟨_, h2⟩ | hin
            · exact hid (hy ▸ h2)
            · exact hid (hx ▸ (insideFields_mem fs _ _ hin).1)
          · intro x y hx hy hin
            simp only [List.mem_singleton] at hy
            rw [inside] at hin
            rcases hin with ⟨h1, _⟩ | hin
            · exact hid (h1 ▸ hx)
            · exact hid (hy ▸ (insideFields_mem fs _ _ hin).2)
      · simp
theorem walkItems_children_first (M : MM) (S : Script) (gm : Nat) : ∀ (xs : Vals), (oidsItems xs).Nodup →
    (walkItems M S gm xs).1.Pairwise (fun x y => ¬ insideItems xs x.id y.id)
  | .nil, _ => by simp [walkItems]
  | .cons x xs, hn => by
      rw [oidsItems, List.nodup_append] at hn
      obtain ⟨hn1, hn2, hd⟩ := hn
      rw [walkItems]
      have ih1 := walkSlot_children_first M S false gm x hn1
      have ih2 := walkItems_children_first M S gm xs hn2
      refine pairwise_two ih1 ih2 (walkSlot_ids M S false gm x) (walkItems_ids M S gm xs) ?_ ?_ ?_
      · intro a b ha _ h hin
        rw [insideItems] at hin
        rcases hin with hin | hin
        · exact h hin
        · exact hd _ ha _ (insideItems_mem xs _ _ hin).1 rfl
      · intro a b ha _ h hin
        rw [insideItems] at hin
        rcases hin with hin | hin
        · exact hd _ (inside_mem x _ _ hin).1 _ ha rfl
        · exact h hin
      · intro a b ha hb hin
        rw [insideItems] at hin
        rcases hin with hin | hin
        · exact hd _ (inside_mem x _ _ hin).2 _ hb rfl
        · exact hd _ ha _ (insideItems_mem xs _ _ hin).1 rfl
end

/-! ### final state -/

theorem objStep_slot (M : MM) (S : Script) (id cls : Nat) (fs : Fields) (gm : Nat) (r : List Entry × Fields) :
    slotVal (objStep M S id cls fs gm r) = slotOf M S id cls fs r.2 gm := by
  unfold objStep slotOf
  by_cases hk : M.kind gm = .mtch
  · simp [hk, slotVal]
  · simp only [hk, if_false, slotVal, chosen]

mutual
theorem walkFields_fin (M : MM) (S : Script) : ∀ (fs : Fields), (walkFields M S fs).2 = finFields M S fs
  | .nil => by simp [walkFields, finFields]
  | .cons a v rest => by
      rw [walkFields, finFields]
      simp only [walkFields_fin M S rest]
      congr 1
      by_cases hc : a.cont = true
      · simp only [hc, if_true]; exact walkSlot_fin M S a.many a.cls v
      · simp [hc]
theorem walkSlot_fin (M : MM) (S : Script) (many : Bool) (gm : Nat) : ∀ (v : Val),
    (walkSlot M S many gm v).2 = finSlot M S many gm v
  | .none => by simp [walkSlot, finSlot]
  | .prim _ => by simp [walkSlot, finSlot]
  | .list xs => by
      rw [walkSlot, finSlot]
      cases many
      · simp
      · simp only [if_true]; rw [walkItems_fin M S gm xs]
  | .obj id cls fs => by
      rw [walkSlot, finSlot]
      cases many
      · simp only [Bool.false_eq_true, if_false]
        rw [objStep_slot, walkFields_fin M S fs]
      · simp
theorem walkItems_fin (M : MM) (S : Script) (gm : Nat) : ∀ (xs : Vals), (walkItems M S gm xs).2 = finItems M S gm xs
  | .nil => by simp [walkItems, finItems]
  | .cons x xs => by
      rw [walkItems, finItems]
      simp only [walkSlot_fin M S false gm x, walkItems_fin M S gm xs]
end

theorem objStep_snap (M : MM) (S : Script) (id cls : Nat) (fs : Fields) (gm : Nat) (r : List Entry × Fields)
    (e : Entry) (he : e ∈ (objStep M S id cls fs gm r).log) :
    e ∈ r.1 ∨ (e.id = id ∧ e.snap = .obj id cls r.2) := by
  unfold objStep at he
  by_cases hk : M.kind gm = .mtch
  · simp [hk] at he
  · simp only [hk, if_false, List.mem_append] at he
    rcases he with he | he | he
    · exact Or.inl he
    · right
      split at he
      · simp only [List.mem_singleton] at he; rw [he]; exact ⟨rfl, rfl⟩
      · simp at he
    · right
      split at he
      · simp only [List.mem_singleton] at he; rw [he]; exact ⟨rfl, rfl⟩
      · simp at he

/-! every processor call sees its object with everything below already in its final state -/
mutual
theorem walkFields_snap (M : MM) (S : Script) : ∀ (fs : Fields) (e : Entry), e ∈ (walkFields M S fs).1 →
    ∃ id cls f, Val.obj id cls f ∈ subObjsFields fs ∧ e.id = id ∧ e.snap = .obj id cls (finFields M S f)
  | .nil, e, he => by simp [walkFields] at he
  | .cons a v rest, e, he => by
      rw [walkFields] at he
      rw [subObjsFields]
      rcases List.mem_append.1 he with he | he
      · by_cases hc : a.cont = true
        · simp only [hc, if_true] at he
          obtain ⟨id, cls, f, h1, h2⟩ := walkSlot_snap M S a.many a.cls v e he
          exact ⟨id, cls, f, List.mem_append.2 (Or.inl h1), h2⟩
        · simp [hc] at he
      · obtain ⟨id, cls, f, h1, h2⟩ := walkFields_snap M S rest e he
        exact ⟨id, cls, f, List.mem_append.2 (Or.inr h1), h2⟩
theorem walkSlot_snap (M : MM) (S : Script) (many : Bool) (gm : Nat) : ∀ (v : Val) (e : Entry),
    e ∈ (walkSlot M S many gm v).1 →
    ∃ id cls f, Val.obj id cls f ∈ subObjs v ∧ e.id = id ∧ e.snap = .obj id cls (finFields M S f)
  | .none, e, he => by simp [walkSlot] at he
  | .prim _, e, he => by simp [walkSlot] at he
  | .list xs, e, he => by
      rw [walkSlot] at he
      rw [subObjs]
      cases many
      · simp at he
      · simp only [if_true] at he
        exact walkItems_snap M S gm xs e he
  | .obj id cls fs, e, he => by
      rw [walkSlot] at he
      rw [subObjs]
      cases many
      · simp only [Bool.false_eq_true, if_false] at he
        rcases objStep_snap M S id cls fs gm _ e he with h | h
        · obtain ⟨i, c, f, h1, h2⟩ := walkFields_snap M S fs e h
          exact ⟨i, c, f, List.mem_cons_of_mem _ h1, h2⟩
        · refine ⟨id, cls, fs, by simp, h.1, ?_⟩
          rw [h.2, walkFields_fin]
      · simp at he
theorem walkItems_snap (M : MM) (S : Script) (gm : Nat) : ∀ (xs : Vals) (e : Entry),
    e ∈ (walkItems M S gm xs).1 →
    ∃ id cls f, Val.obj id cls f ∈ subObjsItems xs ∧ e.id = id ∧ e.snap = .obj id cls (finFields M S f)
  | .nil, e, he => by simp [walkItems] at he
  | .cons x xs, e, he => by
      rw [walkItems] at he
      rw [subObjsItems]
      rcases List.mem_append.1 he with he | he
      · obtain ⟨id, cls, f, h1, h2⟩ := walkSlot_snap M S false gm x e he
        exact ⟨id, cls, f, List.mem_append.2 (Or.inl h1), h2⟩
      · obtain ⟨id, cls, f, h1, h2⟩ := walkItems_snap M S gm xs e he
        exact ⟨id, cls, f, List.mem_append.2 (Or.inr h1), h2⟩
end

/-- without any replacement value the walk leaves the model as it was -/
theorem slotOf_none (M : MM) (S : Script) (hS : ∀ r i, S r i = .none) (id cls : Nat) (fs : Fields) (gm : Nat) :
    slotOf M S id cls fs fs gm = .obj id cls fs := by
  unfold slotOf chosen
  by_cases hk : M.kind gm = .mtch
  · simp [hk]
  · simp only [hk, if_false, hS, retOf]
    cases (decide (cls ≠ gm) && M.hasProc cls) <;> cases M.hasProc gm <;> simp [pick]

mutual
theorem finFields_none (M : MM) (S : Script) (hS : ∀ r i, S r i = .none) : ∀ (fs : Fields), finFields M S fs = fs
  | .nil => by simp [finFields]
  | .cons a v rest => by
      rw [finFields, finFields_none M S hS rest]
      congr 1
      by_cases hc : a.cont = true
      · simp only [hc, if_true]; exact finSlot_none M S hS a.many a.cls v
      · simp [hc]
theorem finSlot_none (M : MM) (S : Script) (hS : ∀ r i, S r i = .none) (many : Bool) (gm : Nat) : ∀ (v : Val),
    finSlot M S many gm v = v
  | .none => by simp [finSlot]
  | .prim _ => by simp [finSlot]
  | .list xs => by
      rw [finSlot]
      cases many
      · simp
      · simp only [if_true]; rw [finItems_none M S hS gm xs]
  | .obj id cls fs => by
      rw [finSlot]
      cases many
      · simp only [Bool.false_eq_true, if_false]
        rw [finFields_none M S hS fs, slotOf_none M S hS]
      · simp
theorem finItems_none (M : MM) (S : Script) (hS : ∀ r i, S r i = .none) (gm : Nat) : ∀ (xs : Vals),
    finItems M S gm xs = xs
  | .nil => by simp [finItems]
  | .cons x xs => by
      rw [finItems, finSlot_none M S hS false gm x, finItems_none M S hS gm xs]
end

/-! ### the tail of a load -/

theorem initsFrom_not_proc (isUser : Nat → Bool) : ∀ (vs : List Val) (k : Nat) (e : Ev),
    e ∈ initsFrom isUser k vs → e.isProc = false
  | [], k, e, h => by simp [initsFrom] at h
  | v :: vs, k, e, h => by
      rw [initsFrom] at h
      rcases List.mem_append.1 h with h | h
      · simp only [userInits, List.mem_map] at h
        obtain ⟨o, _, rfl⟩ := h
        rfl
      · exact initsFrom_not_proc isUser vs (k + 1) e h

theorem procsFrom_proc (M : MM) (S : Script) : ∀ (vs : List Val) (k : Nat) (e : Ev),
    e ∈ procsFrom M S k vs → e.isProc = true
  | [], k, e, h => by simp [procsFrom] at h
  | v :: vs, k, e, h => by
      rw [procsFrom] at h
      rcases List.mem_append.1 h with h | h
      · simp only [procEvents, List.mem_map] at h
        obtain ⟨o, _, rfl⟩ := h
        rfl
      · exact procsFrom_proc M S vs (k + 1) e h

theorem procsFromMM_proc (S : Script) : ∀ (vs : List (MM × Val)) (k : Nat) (e : Ev),
    e ∈ procsFromMM S k vs → e.isProc = true
  | [], k, e, h => by simp [procsFromMM] at h
  | mv :: vs, k, e, h => by
      rw [procsFromMM] at h
      rcases List.mem_append.1 h with h | h
      · simp only [procEvents, List.mem_map] at h
        obtain ⟨o, _, rfl⟩ := h
        rfl
      · exact procsFromMM_proc S vs (k + 1) e h

/-- one metamodel for all models: the single-metamodel tail -/
theorem procsFromMM_const (M : MM) (S : Script) : ∀ (vs : List Val) (k : Nat),
    procsFromMM S k (vs.map (fun v => (M, v))) = procsFrom M S k vs
  | [], k => by simp [procsFromMM, procsFrom]
  | v :: vs, k => by
      simp only [List.map_cons, procsFromMM, procsFrom]
      rw [procsFromMM_const M S vs (k + 1)]

end Proc
