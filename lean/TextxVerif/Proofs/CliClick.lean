import TextxVerif.Out.CliClick
import TextxVerif.Proofs.Cli
/-!
Helper definitions and lemmas for the click stage of C30: command lines as typed
(custom items interleaved with click's own options) and what `clickStrip` makes
of them.
-/
namespace Cli

/-- one element of a command line as typed -/
inductive CItem
  | item (it : Item)            -- a model file or a custom argument
  | flagOpt (t : Str)           -- a click-owned flag (`--overwrite`, `-i`, …)
  | valOpt (t v : Str)          -- a click-owned option with its value (`--target T`, `-o P`, …)
  deriving DecidableEq, Repr

def renderC : List CItem → List Str
  | [] => []
  | .item (.file f) :: r => f :: renderC r
  | .item (.arg n none) :: r => ('-' :: '-' :: n) :: renderC r
  | .item (.arg n (some v)) :: r => ('-' :: '-' :: n) :: v :: renderC r
  | .flagOpt t :: r => t :: renderC r
  | .valOpt t v :: r => t :: v :: renderC r

/-- the custom part of the line: what the user means the generator to get -/
def itemsOf : List CItem → List Item
  | [] => []
  | .item it :: r => it :: itemsOf r
  | _ :: r => itemsOf r

/-- a token click does not claim -/
def Plain (t : Str) : Prop := isClickFlag t = false ∧ isClickValued t = false

/-- the typed line is in canonical spelling: click's options are click's, nothing else is -/
def WFc : List CItem → Prop
  | [] => True
  | .item (.file f) :: r => Plain f ∧ WFc r
  | .item (.arg n none) :: r => Plain ('-' :: '-' :: n) ∧ WFc r
  | .item (.arg n (some v)) :: r => Plain ('-' :: '-' :: n) ∧ Plain v ∧ WFc r
  | .flagOpt t :: r => isClickFlag t = true ∧ WFc r
  | .valOpt t _ :: r => isClickFlag t = false ∧ isClickValued t = true ∧ WFc r

theorem clickStrip_plain (t : Str) (rest : List Str) (h : Plain t) :
    clickStrip (t :: rest) = t :: clickStrip rest := by
  cases rest <;> simp [clickStrip, h.1, h.2]

theorem clickStrip_flag (t : Str) (rest : List Str) (h : isClickFlag t = true) :
    clickStrip (t :: rest) = clickStrip rest := by
  cases rest <;> simp [clickStrip, h]

theorem clickStrip_valued (t v : Str) (rest : List Str) (h1 : isClickFlag t = false)
    (h2 : isClickValued t = true) : clickStrip (t :: v :: rest) = clickStrip rest := by
  simp [clickStrip, h1, h2]

/-- click hands over exactly the rendering of the custom part -/
theorem clickStrip_renderC (line : List CItem) (h : WFc line) :
    clickStrip (renderC line) = render (itemsOf line) := by
  induction line with
  | nil => simp [renderC, itemsOf, render, clickStrip]
  | cons c r ih =>
    cases c with
    | flagOpt t =>
      obtain ⟨h1, hr⟩ := h
      simp only [renderC, itemsOf]
      rw [clickStrip_flag _ _ h1, ih hr]
    | valOpt t v =>
      obtain ⟨h1, h2, hr⟩ := h
      simp only [renderC, itemsOf]
      rw [clickStrip_valued _ _ _ h1 h2, ih hr]
    | item it =>
      cases it with
      | file f =>
        obtain ⟨h1, hr⟩ := h
        simp only [renderC, itemsOf, render]
        rw [clickStrip_plain _ _ h1, ih hr]
      | arg n v =>
        cases v with
        | none =>
          obtain ⟨h1, hr⟩ := h
          simp only [renderC, itemsOf, render]
          rw [clickStrip_plain _ _ h1, ih hr]
        | some v =>
          obtain ⟨h1, h2, hr⟩ := h
          simp only [renderC, itemsOf, render]
          rw [clickStrip_plain _ _ h1, clickStrip_plain _ _ h2, ih hr]

end Cli
