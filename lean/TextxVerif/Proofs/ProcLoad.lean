import TextxVerif.ProcLoad
import TextxVerif.Proofs.LinkLocLoop
/-! Helper lemmas for `Proc.loadEvents` (C13: processors run on a fully linked model). -/
namespace Proc
open LinkLoc

theorem entryOf_refs (ans : Nat → Nat → Answer) : ∀ (refs : List RefSpec) (l : List LinkLoc.Entry),
    All2 (EntryOf ans) refs l →
    l.map (·.ref) = refs.map (·.id) ∧ ∀ r ∈ refs, ∃ k t, FirstAnswer ans r.id k (.resolved t)
  | _, _, .nil => ⟨rfl, fun r hr => by simp at hr⟩
  | _, _, .cons hab t => by
      obtain ⟨ih1, ih2⟩ := entryOf_refs ans _ _ t
      obtain ⟨k, t', hfa, rfl⟩ := hab
      refine ⟨by simp only [List.map_cons, ih1], ?_⟩
      intro r hr
      rcases List.mem_cons.1 hr with rfl | hr
      · exact ⟨k, t', hfa⟩
      · exact ih2 r hr

/-- what the resolution loop guarantees when it ends without error: no model has a
pending cross-reference, and the resolution record of each model lists exactly the
references of its file, each answered with an object by the scope provider the first
time it was not postponed -/
theorem run_ok_linked (files : List FileSpec) (ans : Nat → Nat → Answer) (fuel : Nat) (ms : List MRec)
    (htext : ∀ f ∈ files, f.refs.Pairwise (fun a b => a.pos < b.pos))
    (h : run files ans fuel = .ok ms) :
    All2 (fun f m => m.crossrefs = [] ∧ m.posList.map (·.ref) = f.refs.map (·.id) ∧
                     ∀ r ∈ f.refs, ∃ k t, FirstAnswer ans r.id k (.resolved t)) files ms := by
  unfold run at h
  cases hl : loadFrom 0 files with
  | error e' => rw [hl] at h; cases h
  | ok ms0 =>
    rw [hl] at h
    have hinv := (loadFrom_ok ans files 0 ms0 hl).1
    obtain ⟨k', hfin⟩ := (resolveLoop_spec ans files fuel 0 ms0 hinv).2.1 ms h
    clear hl hinv h
    induction hfin with
    | nil => exact All2.nil
    | @cons f m fs ms' hfm _ ih =>
      refine All2.cons ?_ (ih (fun g hg => htext g (List.mem_cons_of_mem _ hg)))
      obtain ⟨inv, hnil⟩ := hfm
      have hp := htext f (by simp)
      have hperm : (m.posList.map (·.refStart)).Perm (f.refs.map (·.pos)) := by
        have := inv.perm; rw [hnil] at this; simpa using this
      have hsorted : (m.posList.map (·.refStart)).Pairwise (· ≤ ·) := by
        rw [List.pairwise_map]; exact inv.sorted
      have hrefs : (f.refs.map (·.pos)).Pairwise (· ≤ ·) := by
        rw [List.pairwise_map]; exact hp.imp Nat.le_of_lt
      have hkeys : m.posList.map (·.refStart) = f.refs.map (·.pos) :=
        List.Perm.eq_of_pairwise (le := (· ≤ ·)) (fun a b _ _ h1 h2 => Nat.le_antisymm h1 h2)
          hsorted hrefs hperm
      have hall : All2 (EntryOf ans) f.refs m.posList := by
        refine forall₂_of_keys f.refs m.posList hp hkeys ?_
        intro e he
        obtain ⟨r, hr, hE⟩ := inv.good e he
        refine ⟨r, hr, hE, ?_⟩
        obtain ⟨_, _, _, rfl⟩ := hE
        rfl
      exact ⟨hnil, entryOf_refs ans f.refs m.posList hall⟩

theorem resolvedRefs_eq (files : List FileSpec) (ms : List MRec)
    (h : All2 (fun (f : FileSpec) (m : MRec) => m.posList.map (·.ref) = f.refs.map (·.id)) files ms) :
    resolvedRefs ms = files.flatMap (fun f => f.refs.map (·.id)) := by
  unfold resolvedRefs
  induction h with
  | nil => rfl
  | cons hab _ ih => simp only [List.flatMap_cons, hab, ih]

theorem All2.mem_right {α β : Type} {R : α → β → Prop} : ∀ {as : List α} {bs : List β}, All2 R as bs →
    ∀ b ∈ bs, ∃ a ∈ as, R a b
  | _, _, .nil, b, hb => by simp at hb
  | _, _, .cons hab t, b, hb => by
      rcases List.mem_cons.1 hb with rfl | hb
      · exact ⟨_, by simp, hab⟩
      · obtain ⟨a, ha, hr⟩ := All2.mem_right t b hb
        exact ⟨a, List.mem_cons_of_mem _ ha, hr⟩

theorem All2.mem_left {α β : Type} {R : α → β → Prop} : ∀ {as : List α} {bs : List β}, All2 R as bs →
    ∀ a ∈ as, ∃ b ∈ bs, R a b
  | _, _, .nil, a, ha => by simp at ha
  | _, _, .cons hab t, a, ha => by
      rcases List.mem_cons.1 ha with rfl | ha
      · exact ⟨_, by simp, hab⟩
      · obtain ⟨b, hb, hr⟩ := All2.mem_left t a ha
        exact ⟨b, List.mem_cons_of_mem _ hb, hr⟩

end Proc
