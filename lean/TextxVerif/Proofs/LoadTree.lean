import TextxVerif.LoadTree
/-!
# Lemmas about the load-tree machine

The frame invariant: relative to the state `ctx` in which a load attempt starts,
* the instrumentation state of every class is the canonical state `canon a (k + w)`,
  where `canon a k` is its state at the start and `w` the number of counts currently
  held by parsers of the attempt (`hold`),
* the keys of the per-object storage are the initial ones plus keys owned by
  (`∈ allocs` of) parsers of the attempt.
When no parser of the attempt holds anything any more, the state is the initial one.
-/
namespace LoadTree

variable {α : Type}

/-! ## one class -/

/-- the states a class can be in: uninstrumented with its own methods `a`, or
instrumented `k+1` times with `a` cached -/
def canon (a : α) : Nat → Core α
  | 0 => ⟨0, .real a, none⟩
  | k + 1 => ⟨k + 1, .instr, some (.real a)⟩

theorem incC_canon (a : α) (k : Nat) : incC (canon a k) = canon a (k + 1) := by
  cases k <;> simp [incC, canon]

theorem decC_canon_succ (a : α) (k : Nat) : decC (canon a (k + 1)) = canon a k := by
  cases k <;> simp [decC, canon]

theorem decC_canon_zero (a : α) : decC (canon a 0) = canon a 0 := by
  simp [decC, canon]

/-! ## all classes of a parser -/

@[simp] theorem modCore_attrs (f : Core α → Core α) (c : ClassId) (sh : Sh α) : (modCore f c sh).attrs = sh.attrs := rfl
@[simp] theorem modCore_next (f : Core α → Core α) (c : ClassId) (sh : Sh α) : (modCore f c sh).next = sh.next := rfl
@[simp] theorem modCore_log (f : Core α → Core α) (c : ClassId) (sh : Sh α) : (modCore f c sh).log = sh.log := rfl
@[simp] theorem modCore_own (f : Core α → Core α) (c : ClassId) (sh : Sh α) : (modCore f c sh).own = sh.own := rfl

theorem foldMod_rest (f : Core α → Core α) (cs : List ClassId) (sh : Sh α) :
    (cs.foldl (fun s c => modCore f c s) sh).attrs = sh.attrs ∧
    (cs.foldl (fun s c => modCore f c s) sh).next = sh.next ∧
    (cs.foldl (fun s c => modCore f c s) sh).log = sh.log ∧
    (cs.foldl (fun s c => modCore f c s) sh).own = sh.own := by
  induction cs generalizing sh with
  | nil => simp
  | cons d cs ih => simp only [List.foldl_cons]; have := ih (modCore f d sh); simpa using this

@[simp] theorem incAll_attrs (cs : List ClassId) (sh : Sh α) : (incAll cs sh).attrs = sh.attrs := (foldMod_rest _ cs sh).1
@[simp] theorem incAll_next (cs : List ClassId) (sh : Sh α) : (incAll cs sh).next = sh.next := (foldMod_rest _ cs sh).2.1
@[simp] theorem incAll_log (cs : List ClassId) (sh : Sh α) : (incAll cs sh).log = sh.log := (foldMod_rest _ cs sh).2.2.1
@[simp] theorem incAll_own (cs : List ClassId) (sh : Sh α) : (incAll cs sh).own = sh.own := (foldMod_rest _ cs sh).2.2.2
@[simp] theorem decAll_attrs (cs : List ClassId) (sh : Sh α) : (decAll cs sh).attrs = sh.attrs := (foldMod_rest _ cs sh).1
@[simp] theorem decAll_next (cs : List ClassId) (sh : Sh α) : (decAll cs sh).next = sh.next := (foldMod_rest _ cs sh).2.1
@[simp] theorem decAll_log (cs : List ClassId) (sh : Sh α) : (decAll cs sh).log = sh.log := (foldMod_rest _ cs sh).2.2.1
@[simp] theorem decAll_own (cs : List ClassId) (sh : Sh α) : (decAll cs sh).own = sh.own := (foldMod_rest _ cs sh).2.2.2

theorem incAll_core (cs : List ClassId) (sh : Sh α) (c : ClassId) (a : α) (k : Nat)
    (h : sh.core c = canon a k) : (incAll cs sh).core c = canon a (k + cs.count c) := by
  induction cs generalizing sh k with
  | nil => simpa [incAll] using h
  | cons d cs ih =>
    simp only [incAll, List.foldl_cons] at ih ⊢
    by_cases hd : c = d
    · subst hd
      have h1 : (modCore incC c sh).core c = canon a (k + 1) := by simp [modCore, h, incC_canon]
      rw [ih _ _ h1]
      have : (c :: cs).count c = cs.count c + 1 := by simp
      rw [this]; congr 1; omega
    · have h1 : (modCore incC d sh).core c = canon a k := by simp [modCore, hd, h]
      rw [ih _ _ h1]
      have : (d == c) = false := by simp; exact fun e => hd e.symm
      simp [List.count_cons, this]

theorem decAll_core (cs : List ClassId) (sh : Sh α) (c : ClassId) (a : α) (k : Nat)
    (h : sh.core c = canon a (k + cs.count c)) : (decAll cs sh).core c = canon a k := by
  induction cs generalizing sh k with
  | nil => simpa [decAll] using h
  | cons d cs ih =>
    simp only [decAll, List.foldl_cons] at ih ⊢
    by_cases hd : c = d
    · subst hd
      have h1 : (modCore decC c sh).core c = canon a (k + cs.count c) := by
        have : k + (c :: cs).count c = (k + cs.count c) + 1 := by simp; omega
        rw [this] at h
        simp only [modCore, if_true, h, decC_canon_succ]
      exact ih _ _ h1
    · have : (d == c) = false := by simp; exact fun e => hd e.symm
      have h1 : (modCore decC d sh).core c = canon a (k + cs.count c) := by
        simp [modCore, hd, h, List.count_cons, this]
      exact ih _ _ h1

/-! ## the frame invariant -/

/-- counts on class `c` held by the parser `r` -/
def hold (r : PRec) (c : ClassId) : Nat := if r.replaced then r.classes.count c else 0

def holdL : List PRec → ClassId → Nat
  | [], _ => 0
  | r :: rs, c => hold r c + holdL rs c

/-- keys owned by a parser of the list -/
def Own (A : List PRec) (p : ClassId × ObjId) : Prop := ∃ r, r ∈ A ∧ p ∈ r.allocs

theorem holdL_append (A B : List PRec) (c : ClassId) : holdL (A ++ B) c = holdL A c + holdL B c := by
  induction A with
  | nil => simp [holdL]
  | cons r A ih => simp [holdL, ih]; omega

theorem Own_append (A B : List PRec) (p) : Own (A ++ B) p ↔ Own A p ∨ Own B p := by
  simp only [Own, List.mem_append]
  constructor
  · rintro ⟨r, h | h, hp⟩
    · exact .inl ⟨r, h, hp⟩
    · exact .inr ⟨r, h, hp⟩
  · rintro (⟨r, h, hp⟩ | ⟨r, h, hp⟩)
    · exact ⟨r, .inl h, hp⟩
    · exact ⟨r, .inr h, hp⟩

theorem Own_cons (r : PRec) (A : List PRec) (p) : Own (r :: A) p ↔ p ∈ r.allocs ∨ Own A p := by
  simp only [Own, List.mem_cons]
  constructor
  · rintro ⟨x, h | h, hp⟩
    · exact .inl (h ▸ hp)
    · exact .inr ⟨x, h, hp⟩
  · rintro (hp | ⟨x, h, hp⟩)
    · exact ⟨r, .inl rfl, hp⟩
    · exact ⟨x, .inr h, hp⟩

theorem Own_nil (p) : ¬ Own [] p := by simp [Own]

/-- the state in which the load attempt starts -/
structure Ctx (α : Type) where
  b : ClassId → Core α
  base : List (ClassId × ObjId)
  n0 : Nat

/-- `w c` counts on class `c` are held, the keys in `O` are owned, by parsers of the attempt -/
structure Inv (ctx : Ctx α) (w : ClassId → Nat) (O : ClassId × ObjId → Prop) (sh : Sh α) : Prop where
  core : ∀ c, ∃ a k, ctx.b c = canon a k ∧ sh.core c = canon a (k + w c)
  base : sh.attrs.filter (fun p => decide (p.2 < ctx.n0)) = ctx.base
  nodup : sh.attrs.Nodup
  lt : ∀ p, p ∈ sh.attrs → p.2 < sh.next
  own : ∀ p, p ∈ sh.attrs → ctx.n0 ≤ p.2 → O p
  fresh : ∀ p, O p → ctx.n0 ≤ p.2
  le : ctx.n0 ≤ sh.next

/-- what nested loads may assume about the state they start in -/
structure Good (sh : Sh α) : Prop where
  core : ∀ c, ∃ a k, sh.core c = canon a k
  nodup : sh.attrs.Nodup
  lt : ∀ p, p ∈ sh.attrs → p.2 < sh.next

theorem Inv.good {ctx : Ctx α} {w O} {sh : Sh α} (h : Inv ctx w O sh) : Good sh :=
  ⟨fun c => let ⟨a, k, _, h2⟩ := h.core c; ⟨a, _, h2⟩, h.nodup, h.lt⟩

theorem Inv.congr {ctx : Ctx α} {w w' O O'} {sh : Sh α} (h : Inv ctx w O sh)
    (hw : ∀ c, w c = w' c) (hO : ∀ p, O p ↔ O' p) : Inv ctx w' O' sh :=
  ⟨fun c => by rw [← hw c]; exact h.core c, h.base, h.nodup, h.lt,
   fun p hp hn => (hO p).1 (h.own p hp hn), fun p hp => h.fresh p ((hO p).2 hp), h.le⟩

/-- same classes and keys, allocator not smaller -/
theorem Inv.of_eq {ctx : Ctx α} {w O} {sh sh' : Sh α} (h : Inv ctx w O sh)
    (hc : sh'.core = sh.core) (ha : sh'.attrs = sh.attrs) (hn : sh.next ≤ sh'.next) : Inv ctx w O sh' :=
  ⟨fun c => by rw [hc]; exact h.core c, by rw [ha]; exact h.base, by rw [ha]; exact h.nodup,
   fun p hp => Nat.lt_of_lt_of_le (h.lt p (ha ▸ hp)) hn, fun p hp => h.own p (ha ▸ hp), h.fresh,
   Nat.le_trans h.le hn⟩

theorem Inv.incAll {ctx : Ctx α} {w O} {sh : Sh α} (h : Inv ctx w O sh) (cs : List ClassId) :
    Inv ctx (fun c => w c + cs.count c) O (incAll cs sh) :=
  ⟨fun c => by
      obtain ⟨a, k, h1, h2⟩ := h.core c
      exact ⟨a, k, h1, by rw [incAll_core cs sh c a _ h2]; congr 1; omega⟩,
   by simpa using h.base, by simpa using h.nodup, by simpa using h.lt, by simpa using h.own, h.fresh,
   by simpa using h.le⟩

theorem Inv.decAll {ctx : Ctx α} {w O} {sh : Sh α} (cs : List ClassId)
    (h : Inv ctx (fun c => w c + cs.count c) O sh) : Inv ctx w O (decAll cs sh) :=
  ⟨fun c => by
      obtain ⟨a, k, h1, h2⟩ := h.core c
      refine ⟨a, k, h1, decAll_core cs sh c a _ ?_⟩
      rw [h2]; congr 1; omega,
   by simpa using h.base, by simpa using h.nodup, by simpa using h.lt, by simpa using h.own, h.fresh,
   by simpa using h.le⟩

/-- keys which are no longer stored need no owner -/
theorem Inv.shrink {ctx : Ctx α} {w O O'} {sh : Sh α} (h : Inv ctx w O sh)
    (h1 : ∀ p, p ∈ sh.attrs → O p → O' p) (h2 : ∀ p, O' p → ctx.n0 ≤ p.2) : Inv ctx w O' sh :=
  ⟨h.core, h.base, h.nodup, h.lt, fun p hp hn => h1 p hp (h.own p hp hn), h2, h.le⟩

theorem Inv.alloc {ctx : Ctx α} {w O} {sh : Sh α} (h : Inv ctx w O sh) (c : ClassId) :
    Inv ctx w (fun p => O p ∨ p = (c, sh.next))
      { sh with attrs := sh.attrs ++ [(c, sh.next)], next := sh.next + 1 } := by
  have hnot : (c, sh.next) ∉ sh.attrs := fun hm => Nat.lt_irrefl _ (h.lt _ hm)
  refine ⟨h.core, ?_, ?_, ?_, ?_, ?_, ?_⟩
  · have : ¬ sh.next < ctx.n0 := Nat.not_lt.mpr h.le
    simp [List.filter_append, this, h.base]
  · simp only [List.nodup_append]
    refine ⟨h.nodup, by simp, ?_⟩
    intro a ha b hb
    simp at hb; subst hb
    exact fun e => hnot (e ▸ ha)
  · intro p hp
    simp at hp
    rcases hp with hp | hp
    · exact Nat.lt_succ_of_lt (h.lt p hp)
    · subst hp; exact Nat.lt_succ_self _
  · intro p hp hn
    simp at hp
    rcases hp with hp | hp
    · exact .inl (h.own p hp hn)
    · exact .inr hp
  · intro p hp
    rcases hp with hp | hp
    · exact h.fresh p hp
    · subst hp; exact h.le
  · exact Nat.le_succ_of_le h.le

theorem filter_erase_of_not {β : Type} [BEq β] [LawfulBEq β] (q : β → Bool) (l : List β) (p : β)
    (hq : q p = false) : (l.erase p).filter q = l.filter q := by
  induction l with
  | nil => simp
  | cons x xs ih =>
    by_cases hx : x = p
    · subst hx; simp [hq]
    · have : (x == p) = false := by simpa using hx
      simp [List.erase_cons, this, List.filter_cons, ih]

theorem Inv.erase {ctx : Ctx α} {w O} {sh : Sh α} (h : Inv ctx w O sh) (p : ClassId × ObjId)
    (hp : ctx.n0 ≤ p.2) : Inv ctx w O { sh with attrs := sh.attrs.erase p } := by
  refine ⟨h.core, ?_, h.nodup.erase p, fun q hq => h.lt q (List.mem_of_mem_erase hq),
    fun q hq => h.own q (List.mem_of_mem_erase hq), h.fresh, h.le⟩
  have hq : (fun q : ClassId × ObjId => decide (q.2 < ctx.n0)) p = false := by simpa using hp
  show (sh.attrs.erase p).filter _ = ctx.base
  rw [filter_erase_of_not (β := ClassId × ObjId) (fun q => decide (q.2 < ctx.n0)) sh.attrs p hq]; exact h.base

theorem Inv.eraseAll {ctx : Ctx α} {w O} {sh : Sh α} (ps : List (ClassId × ObjId))
    (h : Inv ctx w O sh) (hps : ∀ p, p ∈ ps → ctx.n0 ≤ p.2) :
    Inv ctx w O { sh with attrs := eraseAll ps sh.attrs } ∧
    (∀ p, p ∈ ps → p ∉ eraseAll ps sh.attrs) ∧ (∀ q, q ∈ eraseAll ps sh.attrs → q ∈ sh.attrs) := by
  induction ps generalizing sh with
  | nil => exact ⟨h, by simp, fun q hq => hq⟩
  | cons p ps ih =>
    have h1 := h.erase p (hps p (by simp))
    obtain ⟨i1, i2, i3⟩ := ih h1 (fun q hq => hps q (by simp [hq]))
    refine ⟨i1, ?_, fun q hq => List.mem_of_mem_erase (i3 q hq)⟩
    intro q hq
    simp at hq
    rcases hq with hq | hq
    · subst hq
      intro hm
      have := i3 _ hm
      exact (h.nodup.mem_erase_iff.1 this).1 rfl
    · exact i2 q hq

/-! ## user code -/

/-- nested loads leave the classes and the stored keys as they found them, and
keep the event list of the enclosing attempt -/
def FrameEnv (env : Env α) : Prop :=
  ∀ a sh, Good sh → (env a sh).1.core = sh.core ∧ (env a sh).1.attrs = sh.attrs ∧
    sh.next ≤ (env a sh).1.next ∧ (env a sh).1.own = sh.own

/-- classes and keys unchanged, allocator not smaller -/
structure Same (sh sh' : Sh α) : Prop where
  core : sh'.core = sh.core
  attrs : sh'.attrs = sh.attrs
  next : sh.next ≤ sh'.next

theorem Same.rfl' (sh : Sh α) : Same sh sh := ⟨rfl, rfl, Nat.le_refl _⟩
theorem Same.trans {a b c : Sh α} (h1 : Same a b) (h2 : Same b c) : Same a c :=
  ⟨h2.core.trans h1.core, h2.attrs.trans h1.attrs, Nat.le_trans h1.next h2.next⟩

theorem Good.same {sh sh' : Sh α} (h : Good sh) (s : Same sh sh') : Good sh' :=
  ⟨fun c => by rw [s.core]; exact h.core c, by rw [s.attrs]; exact h.nodup,
   fun p hp => Nat.lt_of_lt_of_le (h.lt p (s.attrs ▸ hp)) s.next⟩

theorem Inv.same {ctx : Ctx α} {w O} {sh sh' : Sh α} (h : Inv ctx w O sh) (s : Same sh sh') :
    Inv ctx w O sh' := h.of_eq s.core s.attrs s.next

theorem runActs_same {env : Env α} (henv : FrameEnv env) (acts : List (Nat × Bool)) (sh : Sh α)
    (hg : Good sh) : Same sh (runActs env acts sh).1 ∧ (runActs env acts sh).1.own = sh.own := by
  induction acts generalizing sh with
  | nil => exact ⟨Same.rfl' _, rfl⟩
  | cons x rest ih =>
    obtain ⟨a, sw⟩ := x
    obtain ⟨e1, e2, e3, e4⟩ := henv a sh hg
    have s1 : Same sh (env a sh).1 := ⟨e1, e2, e3⟩
    simp only [runActs]
    split
    · obtain ⟨i1, i2⟩ := ih (env a sh).1 (hg.same s1)
      exact ⟨s1.trans i1, i2.trans e4⟩
    · exact ⟨s1, e4⟩

theorem runHook_same {env : Env α} (henv : FrameEnv env) (kind pid : Nat) (cs : List ClassId) (h : Hook)
    (sh : Sh α) (hg : Good sh) : Same sh (runHook env kind pid cs h sh).1 := by
  simp only [runHook]
  have hg' : Good { sh with log := sh.log ++ [⟨kind, pid, h.lab, snapOf cs sh⟩],
                            own := sh.own ++ [⟨kind, pid, h.lab, snapOf cs sh⟩] } :=
    ⟨hg.core, hg.nodup, hg.lt⟩
  have := (runActs_same henv h.acts _ hg').1
  exact ⟨this.core, this.attrs, this.next⟩

theorem runHooks_same {env : Env α} (henv : FrameEnv env) (kind pid : Nat) (cs : List ClassId)
    (hs : List Hook) (sh : Sh α) (hg : Good sh) : Same sh (runHooks env kind pid cs hs sh).1 := by
  induction hs generalizing sh with
  | nil => exact Same.rfl' _
  | cons h hs ih =>
    have s1 := runHook_same henv kind pid cs h sh hg
    simp only [runHooks]
    split
    · exact s1.trans (ih _ (hg.same s1))
    · exact s1

/-! ## parsers -/

/-- the invariant with the holdings of a list of parsers made explicit -/
def InvL (ctx : Ctx α) (w : ClassId → Nat) (O : ClassId × ObjId → Prop) (A : List PRec) (sh : Sh α) : Prop :=
  Inv ctx (fun c => w c + holdL A c) (fun p => O p ∨ Own A p) sh

theorem InvL.congrL {ctx : Ctx α} {w O} {A B : List PRec} {sh : Sh α} (h : InvL ctx w O A sh)
    (h1 : ∀ c, holdL A c = holdL B c) (h2 : ∀ p, Own A p ↔ Own B p) : InvL ctx w O B sh :=
  Inv.congr h (fun c => by rw [h1 c]) (fun p => by rw [h2 p])

theorem InvL.same {ctx : Ctx α} {w O} {A : List PRec} {sh sh' : Sh α} (h : InvL ctx w O A sh)
    (s : Same sh sh') : InvL ctx w O A sh' := Inv.same h s

theorem InvL.fresh {ctx : Ctx α} {w O} {A : List PRec} {sh : Sh α} (h : InvL ctx w O A sh)
    {r : PRec} (hr : r ∈ A) {p} (hp : p ∈ r.allocs) : ctx.n0 ≤ p.2 :=
  Inv.fresh h p (.inr ⟨r, hr, hp⟩)

/-- moving parsers between the explicit list and the anonymous part -/
theorem InvL.split {ctx : Ctx α} {w O} {A B : List PRec} {sh : Sh α} :
    InvL ctx w O (A ++ B) sh ↔ InvL ctx (fun c => w c + holdL A c) (fun p => O p ∨ Own A p) B sh := by
  constructor
  · intro h
    exact Inv.congr h (fun c => by simp only [holdL_append, Nat.add_assoc])
      (fun p => by rw [Own_append]; exact or_assoc.symm)
  · intro h
    exact Inv.congr h (fun c => by simp only [holdL_append, Nat.add_assoc])
      (fun p => by rw [Own_append]; exact or_assoc)

theorem InvL.replace {ctx : Ctx α} {w O} {A : List PRec} {sh : Sh α} {r : PRec}
    (hr : r.replaced = false) (h : InvL ctx w O (r :: A) sh) :
    InvL ctx w O ((replace r sh).2 :: A) (replace r sh).1 := by
  have := Inv.incAll h r.classes
  refine Inv.congr this (fun c => ?_) (fun p => ?_)
  · simp only [holdL, hold, hr, LoadTree.replace]; simp; omega
  · simp [Own_cons, LoadTree.replace]

theorem InvL.restore {ctx : Ctx α} {w O} {A : List PRec} {sh : Sh α} {r : PRec}
    (h : InvL ctx w O (r :: A) sh) : InvL ctx w O ((restore r sh).2 :: A) (restore r sh).1 := by
  unfold LoadTree.restore
  split
  · rename_i hr
    have h' : Inv ctx (fun c => (w c + holdL ({ r with replaced := false } :: A) c) + r.classes.count c)
        (fun p => O p ∨ Own ({ r with replaced := false } :: A) p) sh :=
      Inv.congr h (fun c => by simp [holdL, hold, hr]; omega) (fun p => by simp [Own_cons])
    exact Inv.decAll r.classes h'
  · exact h

theorem restore_fields (r : PRec) (sh : Sh α) :
    (restore r sh).2.replaced = false ∧ (restore r sh).2.allocs = r.allocs ∧
    (restore r sh).2.insts = r.insts ∧ (restore r sh).2.hasParser = r.hasParser ∧
    (restore r sh).2.pid = r.pid ∧ (restore r sh).2.classes = r.classes ∧
    (restore r sh).2.resolve = r.resolve ∧ (restore r sh).2.oprocs = r.oprocs ∧
    (restore r sh).2.unresolved = r.unresolved ∧
    (restore r sh).1.attrs = sh.attrs ∧ (restore r sh).1.next = sh.next ∧
    (restore r sh).1.own = sh.own ∧ (restore r sh).1.log = sh.log := by
  unfold LoadTree.restore
  split
  · simp
  · rename_i hr; simp at hr; simp [hr]

theorem InvL.discard {ctx : Ctx α} {w O} {A : List PRec} {sh : Sh α} {r : PRec}
    (h : InvL ctx w O (r :: A) sh) : InvL ctx w O ((discard r sh).2 :: A) (discard r sh).1 := by
  have hf : ∀ p, p ∈ r.allocs → ctx.n0 ≤ p.2 := fun p hp => InvL.fresh h (List.mem_cons_self) hp
  obtain ⟨i1, i2, _⟩ := Inv.eraseAll r.allocs h hf
  simp only [LoadTree.discard]
  refine Inv.congr (Inv.shrink i1 (O' := fun p => O p ∨ Own ({ r with allocs := [] } :: A) p) ?_ ?_)
    (fun c => by simp [holdL, hold]) (fun p => Iff.rfl)
  · intro p hp hO
    rcases hO with hO | hO
    · exact .inl hO
    · rw [Own_cons] at hO
      rcases hO with hO | hO
      · exact absurd hp (i2 p hO)
      · exact .inr (by rw [Own_cons]; exact .inr hO)
  · intro p hp
    rcases hp with hp | hp
    · exact Inv.fresh h p (.inl hp)
    · rw [Own_cons] at hp
      rcases hp with hp | hp
      · simp at hp
      · exact Inv.fresh h p (.inr (by rw [Own_cons]; exact .inr hp))

/-- a parser that holds nothing can be forgotten -/
theorem InvL.drop {ctx : Ctx α} {w O} {A : List PRec} {sh : Sh α} {r : PRec}
    (hr : r.replaced = false) (hp : ∀ p, p ∈ r.allocs → p ∉ sh.attrs)
    (h : InvL ctx w O (r :: A) sh) : InvL ctx w O A sh := by
  refine Inv.congr (Inv.shrink h (O' := fun p => O p ∨ Own A p) ?_ ?_) (fun c => by simp [holdL, hold, hr])
    (fun p => Iff.rfl)
  · intro p hm hO
    rcases hO with hO | hO
    · exact .inl hO
    · rw [Own_cons] at hO
      rcases hO with hO | hO
      · exact absurd hm (hp p hO)
      · exact .inr hO
  · intro p hO
    rcases hO with hO | hO
    · exact Inv.fresh h p (.inl hO)
    · exact Inv.fresh h p (.inr (by rw [Own_cons]; exact .inr hO))

/-- ... and remembered again -/
theorem InvL.add {ctx : Ctx α} {w O} {A : List PRec} {sh : Sh α} {r : PRec}
    (hr : r.replaced = false) (hp : ∀ p, p ∈ r.allocs → ctx.n0 ≤ p.2)
    (h : InvL ctx w O A sh) : InvL ctx w O (r :: A) sh := by
  refine ⟨fun c => by simpa [holdL, hold, hr] using Inv.core h c, Inv.base h, Inv.nodup h, Inv.lt h,
    fun p hm hn => ?_, fun p hO => ?_, Inv.le h⟩
  · rcases Inv.own h p hm hn with hO | hO
    · exact .inl hO
    · exact .inr (by rw [Own_cons]; exact .inr hO)
  · rcases hO with hO | hO
    · exact Inv.fresh h p (.inl hO)
    · rw [Own_cons] at hO
      rcases hO with hO | hO
      · exact hp p hO
      · exact Inv.fresh h p (.inr hO)

theorem giveUp_fields (r : PRec) (sh : Sh α) :
    (giveUp r sh).2.replaced = false ∧ (giveUp r sh).2.allocs = [] := by
  simp [giveUp, LoadTree.discard, (restore_fields r sh).1]

/-- handler of `get_model_from_str`: afterwards the parser holds nothing -/
theorem InvL.giveUp {ctx : Ctx α} {w O} {A : List PRec} {sh : Sh α} {r : PRec}
    (h : InvL ctx w O (r :: A) sh) : InvL ctx w O A (giveUp r sh).1 := by
  have h1 := InvL.restore h
  have h2 := InvL.discard h1
  have hf := giveUp_fields r sh
  have : (LoadTree.giveUp r sh) = LoadTree.discard (LoadTree.restore r sh).2 (LoadTree.restore r sh).1 := rfl
  rw [this] at hf ⊢
  exact InvL.drop hf.1 (by simp [hf.2]) h2

theorem abortList_spec {ctx : Ctx α} {w O} {A : List PRec} (rs : List PRec) (sh : Sh α)
    (hp : ∀ r, r ∈ rs → r.hasParser = true) (h : InvL ctx w O (rs ++ A) sh) :
    InvL ctx w O A (abortList rs sh).1 ∧
    (∀ r, r ∈ (abortList rs sh).2 → r.replaced = false ∧ r.allocs = []) ∧
    (abortList rs sh).2.length = rs.length := by
  induction rs generalizing sh with
  | nil => exact ⟨h, by simp [abortList], rfl⟩
  | cons r rs ih =>
    have hr : r.hasParser = true := hp r (by simp)
    have h1 : InvL ctx w O (rs ++ A) (LoadTree.giveUp r sh).1 := InvL.giveUp (by simpa using h)
    obtain ⟨i1, i2, i3⟩ := ih (LoadTree.giveUp r sh).1 (fun x hx => hp x (by simp [hx])) h1
    simp only [abortList, abort, hr, if_true]
    refine ⟨i1, ?_, by simp [i3]⟩
    intro x hx
    simp at hx
    rcases hx with hx | hx
    · subst hx; exact giveUp_fields r sh
    · exact i2 x hx

/-! ## `process_node` -/

/-- every object in `_user_class_inst` was allocated by this parser -/
def CovI (P : PRec) : Prop := ∀ x, x ∈ P.insts → (x.1, x.2.1) ∈ P.allocs

/-- every allocated object is in `_user_class_inst` -/
def CovA (P : PRec) : Prop := ∀ p, p ∈ P.allocs → ∃ h, (p.1, p.2, h) ∈ P.insts

/-- `P'` continues `P` -/
structure Ext (P P' : PRec) (ok : Bool) : Prop where
  pid : P'.pid = P.pid
  classes : P'.classes = P.classes
  replaced : P'.replaced = P.replaced
  hasParser : P'.hasParser = P.hasParser
  resolve : P'.resolve = P.resolve
  unresolved : P'.unresolved = P.unresolved
  oprocs : P'.oprocs = P.oprocs
  insts : ∀ x, x ∈ P.insts → x ∈ P'.insts
  allocs : ∀ p, p ∈ P.allocs → p ∈ P'.allocs
  new : ok = true → ∀ p, p ∈ P'.allocs → p ∈ P.allocs ∨ ∃ h, (p.1, p.2, h) ∈ P'.insts

theorem Ext.rfl' (P : PRec) (ok : Bool) : Ext P P ok :=
  ⟨rfl, rfl, rfl, rfl, rfl, rfl, rfl, fun _ h => h, fun _ h => h, fun _ p hp => .inl hp⟩

theorem Ext.trans {P Q R : PRec} {ok : Bool} (h1 : Ext P Q true) (h2 : Ext Q R ok) : Ext P R ok :=
  ⟨h2.pid.trans h1.pid, h2.classes.trans h1.classes, h2.replaced.trans h1.replaced,
   h2.hasParser.trans h1.hasParser, h2.resolve.trans h1.resolve, h2.unresolved.trans h1.unresolved,
   h2.oprocs.trans h1.oprocs, fun x hx => h2.insts x (h1.insts x hx),
   fun x hx => h2.allocs x (h1.allocs x hx),
   fun hok p hp => by
     rcases h2.new hok p hp with h | ⟨h, hh⟩
     · rcases h1.new rfl p h with h' | ⟨h', hh'⟩
       · exact .inl h'
       · exact .inr ⟨h', h2.insts _ hh'⟩
     · exact .inr ⟨h, hh⟩⟩

theorem Ext.fail {P Q : PRec} {ok : Bool} (h : Ext P Q ok) : Ext P Q false :=
  ⟨h.pid, h.classes, h.replaced, h.hasParser, h.resolve, h.unresolved, h.oprocs, h.insts, h.allocs,
   fun hf => by simp at hf⟩

theorem InvL.alloc {ctx : Ctx α} {w O} {A : List PRec} {sh : Sh α} {P : PRec} (c : ClassId)
    (h : InvL ctx w O (P :: A) sh) : InvL ctx w O ((alloc c P sh).2.1 :: A) (alloc c P sh).1 := by
  have := Inv.alloc h c
  refine Inv.congr this (fun c' => rfl) (fun p => ?_)
  simp only [Own_cons, LoadTree.alloc, List.mem_append, List.mem_singleton]
  constructor
  · rintro ((h1 | h1 | h1) | h1)
    · exact .inl h1
    · exact .inr (.inl (.inl h1))
    · exact .inr (.inr h1)
    · exact .inr (.inl (.inr h1))
  · rintro (h1 | (h1 | h1) | h1)
    · exact .inl (.inl h1)
    · exact .inl (.inr (.inl h1))
    · exact .inr h1
    · exact .inl (.inr (.inr h1))

section build
variable {env : Env α} (henv : FrameEnv env) {ctx : Ctx α} {w : ClassId → Nat} {O : ClassId × ObjId → Prop}
include henv

mutual
theorem buildOT_spec : (t : OT) → ∀ (P : PRec) (A : List PRec) (sh : Sh α),
    InvL ctx w O (P :: A) sh → CovI P →
    InvL ctx w O ((buildOT env P t sh).2.1 :: A) (buildOT env P t sh).1 ∧
      CovI (buildOT env P t sh).2.1 ∧ Ext P (buildOT env P t sh).2.1 (buildOT env P t sh).2.2
  | .conv h, P, A, sh, hI, hC => by
    simp only [buildOT]
    exact ⟨InvL.same hI (runHook_same henv 0 P.pid P.classes h sh (Inv.good hI)), hC, Ext.rfl' _ _⟩
  | .obj none init kids, P, A, sh, hI, hC => by
    simp only [buildOT]
    exact buildKids_spec kids P A sh hI hC
  | .obj (some c) init kids, P, A, sh, hI, hC => by
    simp only [buildOT]
    have hI1 := InvL.alloc c hI
    have hC1 : CovI (alloc c P sh).2.1 := by
      intro x hx
      have := hC x (by simpa [LoadTree.alloc] using hx)
      simp [LoadTree.alloc, this]
    obtain ⟨j1, j2, j3⟩ := buildKids_spec kids _ A _ hI1 hC1
    have hmem : (c, sh.next) ∈ (buildKids env (alloc c P sh).2.1 kids (alloc c P sh).1).2.1.allocs :=
      j3.allocs _ (by simp [LoadTree.alloc])
    split
    · rename_i hok
      rw [hok] at j3
      refine ⟨Inv.congr j1 (fun c' => rfl) (fun p => by simp [Own_cons]), ?_, ?_⟩
      · intro x hx
        simp only [List.mem_append, List.mem_singleton] at hx
        rcases hx with hx | hx
        · exact j2 x hx
        · subst hx; exact hmem
      · refine ⟨j3.pid, j3.classes, j3.replaced, j3.hasParser, j3.resolve, j3.unresolved, j3.oprocs,
          fun x hx => by simp [j3.insts x hx],
          fun p hp => j3.allocs p (by simp [LoadTree.alloc, hp]), fun _ p hp => ?_⟩
        rcases j3.new rfl p hp with h | ⟨h, hh⟩
        · simp only [LoadTree.alloc, List.mem_append, List.mem_singleton] at h
          rcases h with h | h
          · exact .inl h
          · subst h; exact .inr ⟨init, by simp [LoadTree.alloc]⟩
        · exact .inr ⟨h, by simp [hh]⟩
    · exact ⟨j1, j2, ⟨j3.pid, j3.classes, j3.replaced, j3.hasParser, j3.resolve, j3.unresolved, j3.oprocs,
        j3.insts, fun p hp => j3.allocs p (by simp [LoadTree.alloc, hp]), fun hf => by simp at hf⟩⟩
theorem buildKids_spec : (ts : List OT) → ∀ (P : PRec) (A : List PRec) (sh : Sh α),
    InvL ctx w O (P :: A) sh → CovI P →
    InvL ctx w O ((buildKids env P ts sh).2.1 :: A) (buildKids env P ts sh).1 ∧
      CovI (buildKids env P ts sh).2.1 ∧ Ext P (buildKids env P ts sh).2.1 (buildKids env P ts sh).2.2
  | [], P, A, sh, hI, hC => by
    simp only [buildKids]
    exact ⟨hI, hC, Ext.rfl' _ _⟩
  | t :: ts, P, A, sh, hI, hC => by
    simp only [buildKids]
    obtain ⟨i1, i2, i3⟩ := buildOT_spec t P A sh hI hC
    split
    · rename_i hok
      obtain ⟨j1, j2, j3⟩ := buildKids_spec ts _ A _ i1 i2
      rw [hok] at i3
      exact ⟨j1, j2, i3.trans j3⟩
    · exact ⟨i1, i2, i3.fail⟩
end

end build

/-! ## the main model's phases -/

/-- a completely parsed model -/
structure RecOK (r : PRec) : Prop where
  hasParser : r.hasParser = true
  covI : CovI r
  covA : CovA r

def AllOK (rs : List PRec) : Prop := ∀ r, r ∈ rs → RecOK r

/-- keys only disappear -/
def Sub (sh sh' : Sh α) : Prop := ∀ q, q ∈ sh'.attrs → q ∈ sh.attrs

theorem Same.sub {sh sh' : Sh α} (s : Same sh sh') : Sub sh sh' := fun q hq => s.attrs ▸ hq

theorem holdL_mid (r : PRec) (rs A : List PRec) (c : ClassId) :
    holdL (r :: (rs ++ A)) c = holdL (rs ++ r :: A) c := by
  simp only [holdL, holdL_append]; omega

theorem Own_mid (r : PRec) (rs A : List PRec) (p) : Own (r :: (rs ++ A)) p ↔ Own (rs ++ r :: A) p := by
  simp only [Own_cons, Own_append]
  constructor
  · rintro (h | h | h)
    · exact .inr (.inl h)
    · exact .inl h
    · exact .inr (.inr h)
  · rintro (h | h | h)
    · exact .inr (.inl h)
    · exact .inl h
    · exact .inr (.inr h)

/-- parsers that hold nothing can all be forgotten -/
theorem InvL.dropAll {ctx : Ctx α} {w : ClassId → Nat} {O : ClassId × ObjId → Prop} {A : List PRec} (rs : List PRec) (sh : Sh α)
    (hr : ∀ r, r ∈ rs → r.replaced = false ∧ ∀ p, p ∈ r.allocs → p ∉ sh.attrs)
    (h : InvL ctx w O (rs ++ A) sh) : InvL ctx w O A sh := by
  induction rs with
  | nil => exact h
  | cons r rs ih =>
    have := hr r (by simp)
    exact ih (fun x hx => hr x (by simp [hx])) (InvL.drop this.1 this.2 (by simpa using h))

/-- what `front` guarantees -/
def FrontPost (ctx : Ctx α) (w : ClassId → Nat) (O : ClassId × ObjId → Prop) (A repo : List PRec) (root : OT)
    (isMain hasImports : Bool) : (Sh α × Except (List PRec) (List PRec)) ⊕ (PRec × Sh α) → Prop
  | .inl res => ∃ left, res.2 = .error left ∧ InvL ctx w O (left ++ A) res.1 ∧ AllOK left ∧
      (left = repo ∨ left = [])
  | .inr (P, sh1) => InvL ctx w O (P :: (repo ++ A)) sh1 ∧ CovI P ∧ CovA P ∧
      (root.isConv = true → P.allocs = []) ∧ (isMain = false → root.isConv = false) ∧
      (root.isConv = true → hasImports = false)

section phases
variable {env : Env α} (henv : FrameEnv env) {ctx : Ctx α} {w : ClassId → Nat} {O : ClassId × ObjId → Prop}
include henv

theorem initAll_spec (pid : Nat) (cs : List ClassId) {A : List PRec} (l : List (ClassId × ObjId × Hook)) (sh : Sh α)
    (h : InvL ctx w O A sh) (hl : ∀ x, x ∈ l → ctx.n0 ≤ x.2.1) :
    InvL ctx w O A (initAll env pid cs l sh).1 ∧ Sub sh (initAll env pid cs l sh).1 ∧
      ((initAll env pid cs l sh).2 = true → ∀ x, x ∈ l → (x.1, x.2.1) ∉ (initAll env pid cs l sh).1.attrs) := by
  induction l generalizing sh with
  | nil => exact ⟨h, fun q hq => hq, by simp [initAll]⟩
  | cons x l ih =>
    obtain ⟨c, i, hk⟩ := x
    have h1 : InvL ctx w O A { sh with attrs := sh.attrs.erase (c, i) } :=
      Inv.erase h (c, i) (hl (c, i, hk) (by simp))
    have hnot : (c, i) ∉ ({ sh with attrs := sh.attrs.erase (c, i) } : Sh α).attrs := by
      intro hm
      exact ((Inv.nodup h).mem_erase_iff.1 hm).1 rfl
    have s1 := runHook_same henv 3 pid cs hk _ (Inv.good h1)
    have h2 := InvL.same h1 s1
    have sub1 : Sub sh (runHook env 3 pid cs hk { sh with attrs := sh.attrs.erase (c, i) }).1 := by
      intro q hq
      have : q ∈ sh.attrs.erase (c, i) := by
        have := s1.attrs; simp only at this; rw [this] at hq; exact hq
      exact List.mem_of_mem_erase this
    simp only [initAll]
    split
    · obtain ⟨j1, j2, j3⟩ := ih _ h2 (fun y hy => hl y (by simp [hy]))
      refine ⟨j1, fun q hq => sub1 q (j2 q hq), fun hok y hy => ?_⟩
      simp only [List.mem_cons] at hy
      rcases hy with hy | hy
      · subst hy
        intro hm
        have := j2 _ hm
        rw [s1.attrs] at this
        exact hnot this
      · exact j3 hok y hy
    · exact ⟨h2, sub1, fun hf => by simp at hf⟩

theorem endRec_spec {A : List PRec} (r : PRec) (sh : Sh α)
    (h : InvL ctx w O (r :: A) sh) (hr : RecOK r) :
    InvL ctx w O ((endRec env r sh).2.1 :: A) (endRec env r sh).1 ∧ Sub sh (endRec env r sh).1 ∧
      RecOK (endRec env r sh).2.1 ∧ (endRec env r sh).2.1.replaced = false ∧
      ((endRec env r sh).2.2 = true → ∀ p, p ∈ (endRec env r sh).2.1.allocs → p ∉ (endRec env r sh).1.attrs) := by
  have f := restore_fields r sh
  have h1 := InvL.restore h
  have hl : ∀ x, x ∈ r.insts → ctx.n0 ≤ x.2.1 := fun x hx =>
    InvL.fresh h (List.mem_cons_self) (hr.covI x hx)
  obtain ⟨j1, j2, j3⟩ := initAll_spec henv r.pid r.classes r.insts _ h1 hl
  simp only [endRec]
  refine ⟨j1, fun q hq => by have := j2 q hq; rw [f.2.2.2.2.2.2.2.2.2.1] at this; exact this,
    ⟨f.2.2.2.1.trans hr.hasParser, ?_, ?_⟩, f.1, fun hok p hp => ?_⟩
  · intro x hx; rw [f.2.2.1] at hx; rw [f.2.1]; exact hr.covI x hx
  · intro p hp; rw [f.2.1] at hp; rw [f.2.2.1]; exact hr.covA p hp
  · rw [f.2.1] at hp
    obtain ⟨hk, hh⟩ := hr.covA p hp
    exact j3 hok _ hh

theorem endAll_spec {A : List PRec} (rs : List PRec) (sh : Sh α)
    (h : InvL ctx w O (rs ++ A) sh) (hr : AllOK rs) :
    InvL ctx w O ((endAll env rs sh).2.1 ++ A) (endAll env rs sh).1 ∧ Sub sh (endAll env rs sh).1 ∧
      AllOK (endAll env rs sh).2.1 ∧ (endAll env rs sh).2.1.length = rs.length ∧
      ((endAll env rs sh).2.2 = true → ∀ r, r ∈ (endAll env rs sh).2.1 →
        r.replaced = false ∧ ∀ p, p ∈ r.allocs → p ∉ (endAll env rs sh).1.attrs) := by
  induction rs generalizing sh A with
  | nil => exact ⟨h, fun q hq => hq, hr, rfl, by simp [endAll]⟩
  | cons r rs ih =>
    obtain ⟨i1, i2, i3, i4, i5⟩ := endRec_spec henv r sh (by simpa using h) (hr r (by simp))
    simp only [endAll]
    split
    · rename_i hok
      have i1' : InvL ctx w O (rs ++ (endRec env r sh).2.1 :: A) (endRec env r sh).1 :=
        InvL.congrL i1 (holdL_mid _ _ _) (Own_mid _ _ _)
      obtain ⟨j1, j2, j3, j4, j5⟩ := ih (endRec env r sh).1 i1' (fun x hx => hr x (by simp [hx]))
      refine ⟨?_, fun q hq => i2 q (j2 q hq), ?_, by simp [j4], fun hok2 x hx => ?_⟩
      · exact InvL.congrL j1 (fun c => (holdL_mid _ _ _ c).symm) (fun p => (Own_mid _ _ _ p).symm)
      · intro x hx
        simp only [List.mem_cons] at hx
        rcases hx with hx | hx
        · subst hx; exact i3
        · exact j3 x hx
      · simp only [List.mem_cons] at hx
        rcases hx with hx | hx
        · subst hx
          exact ⟨i4, fun p hp hm => i5 hok p hp (j2 p hm)⟩
        · exact j5 hok2 x hx
    · refine ⟨by simpa using i1, i2, ?_, by simp, fun hf => by simp at hf⟩
      intro x hx
      simp only [List.mem_cons] at hx
      rcases hx with hx | hx
      · subst hx; exact i3
      · exact hr x (by simp [hx])

theorem resolveAll_same (rs : List PRec) (sh : Sh α) (hg : Good sh) : Same sh (resolveAll env rs sh).1 := by
  induction rs generalizing sh with
  | nil => exact Same.rfl' _
  | cons r rs ih =>
    have s1 := runHooks_same henv 2 r.pid r.classes r.resolve sh hg
    simp only [resolveAll]
    split
    · exact s1.trans (ih _ (hg.same s1))
    · exact s1

theorem procAll_same (rs : List PRec) (sh : Sh α) (hg : Good sh) : Same sh (procAll env rs sh).1 := by
  induction rs generalizing sh with
  | nil => exact Same.rfl' _
  | cons r rs ih =>
    have s1 := runHooks_same henv 4 r.pid r.classes r.oprocs sh hg
    simp only [procAll]
    split
    · exact s1.trans (ih _ (hg.same s1))
    · exact s1

/-- after `phase2` no parser of the list holds anything, whatever the outcome -/
theorem phase2_spec {A : List PRec} (ms : List PRec) (sh : Sh α)
    (h : InvL ctx w O (ms ++ A) sh) (hr : AllOK ms) :
    InvL ctx w O A (phase2 env ms sh).1 ∧ (phase2 env ms sh).2.1.length = ms.length ∧
      (∀ r, r ∈ (phase2 env ms sh).2.1 → r.replaced = false ∧
        ∀ p, p ∈ r.allocs → p ∉ (phase2 env ms sh).1.attrs ∧ ctx.n0 ≤ p.2) := by
  have sa := resolveAll_same henv ms sh (Inv.good h)
  have ha := InvL.same h sa
  simp only [phase2]
  split
  · obtain ⟨a1, a2, a3⟩ := abortList_spec ms _ (fun r hr' => (hr r hr').hasParser) ha
    exact ⟨a1, a3, fun r hr' => ⟨(a2 r hr').1, by simp [(a2 r hr').2]⟩⟩
  · obtain ⟨b1, _, b3, b4, b5⟩ := endAll_spec henv ms _ ha hr
    split
    · obtain ⟨a1, a2, a3⟩ := abortList_spec _ _ (fun r hr' => (b3 r hr').hasParser) b1
      exact ⟨a1, a3.trans b4, fun r hr' => ⟨(a2 r hr').1, by simp [(a2 r hr').2]⟩⟩
    · rename_i hok
      simp only [Bool.not_eq_true, Bool.not_eq_false'] at hok
      have sc := procAll_same henv (endAll env ms (resolveAll env ms sh).1).2.1 _ (Inv.good b1)
      have hc := InvL.same b1 sc
      split
      · obtain ⟨a1, a2, a3⟩ := abortList_spec _ _ (fun r hr' => (b3 r hr').hasParser) hc
        exact ⟨a1, a3.trans b4, fun r hr' => ⟨(a2 r hr').1, by simp [(a2 r hr').2]⟩⟩
      · have hfin : ∀ r, r ∈ (endAll env ms (resolveAll env ms sh).1).2.1 → r.replaced = false ∧
            ∀ p, p ∈ r.allocs → p ∉ (procAll env (endAll env ms (resolveAll env ms sh).1).2.1
              (endAll env ms (resolveAll env ms sh).1).1).1.attrs := by
          intro r hr'
          obtain ⟨q1, q2⟩ := b5 hok r hr'
          exact ⟨q1, fun p hp hm => q2 p hp (sc.attrs ▸ hm)⟩
        exact ⟨InvL.dropAll _ _ hfin hc, b4, fun r hr' => ⟨(hfin r hr').1, fun p hp =>
          ⟨(hfin r hr').2 p hp, InvL.fresh hc (List.mem_append_left _ hr') hp⟩⟩⟩

theorem giveUp_clean {A : List PRec} (r : PRec) (sh : Sh α)
    (hr : r.replaced = false) (hp : ∀ p, p ∈ r.allocs → ctx.n0 ≤ p.2)
    (h : InvL ctx w O A sh) : InvL ctx w O A (giveUp r sh).1 :=
  InvL.giveUp (InvL.add hr hp h)

omit henv in
theorem failOuter_spec {A : List PRec} (P : PRec) (left : List PRec) (sh : Sh α)
    (h : InvL ctx w O (P :: (left ++ A)) sh) (hl : AllOK left) :
    (failOuter P left sh).2 = .error [] ∧ InvL ctx w O A (failOuter P left sh).1 := by
  have h' : InvL ctx w O (left ++ P :: A) sh := InvL.congrL h (holdL_mid _ _ _) (Own_mid _ _ _)
  obtain ⟨a1, _, _⟩ := abortList_spec left sh (fun r hr => (hl r hr).hasParser) h'
  refine ⟨rfl, ?_⟩
  simp only [failOuter, abort]
  split
  · have b1 := InvL.giveUp a1
    have bf := giveUp_fields P (abortList left sh).1
    exact InvL.giveUp (InvL.add bf.1 (by simp [bf.2]) b1)
  · exact InvL.giveUp a1

theorem front_spec {A : List PRec} (isMain hasImports : Bool) (pid : Nat) (classes : List ClassId) (syntaxOk : Bool)
    (root : OT) (pre : Option Hook) (resolve : List Hook) (unresolved : Bool) (oprocs : List Hook)
    (repo : List PRec) (sh : Sh α) (h : InvL ctx w O (repo ++ A) sh) (hr : AllOK repo) :
    FrontPost ctx w O A repo root isMain hasImports
      (front env isMain hasImports pid classes syntaxOk root pre resolve unresolved oprocs repo sh) := by
  generalize hres : front env isMain hasImports pid classes syntaxOk root pre resolve unresolved oprocs repo sh = res
  simp only [front] at hres
  have h0 : InvL ctx w O (newRec pid classes resolve unresolved oprocs :: (repo ++ A)) sh :=
    InvL.add rfl (by simp [newRec]) h
  have h1 := InvL.replace rfl h0
  have hc0 : CovI (LoadTree.replace (newRec pid classes resolve unresolved oprocs) sh).2 := by
    intro x hx; simp [LoadTree.replace, newRec] at hx
  obtain ⟨b1, b2, b3⟩ := buildOT_spec henv root _ _ _ h1 hc0
  split at hres
  · subst hres; exact ⟨repo, rfl, h, hr, .inl rfl⟩
  · split at hres
    · subst hres; exact ⟨repo, rfl, InvL.giveUp b1, hr, .inl rfl⟩
    · rename_i hok
      simp only [Bool.not_eq_true, Bool.not_eq_false'] at hok
      rw [hok] at b3
      have hcovA : CovA (buildOT env (LoadTree.replace (newRec pid classes resolve unresolved oprocs) sh).2 root
          (LoadTree.replace (newRec pid classes resolve unresolved oprocs) sh).1).2.1 := by
        intro p hp
        rcases b3.new rfl p hp with h' | h'
        · simp [LoadTree.replace, newRec] at h'
        · exact h'
      have hconv : root.isConv = true → (buildOT env (LoadTree.replace (newRec pid classes resolve unresolved oprocs) sh).2 root
          (LoadTree.replace (newRec pid classes resolve unresolved oprocs) sh).1).2.1.allocs = [] := by
        intro hc
        cases root with
        | conv hk => simp [buildOT, LoadTree.replace, newRec]
        | obj _ _ _ => simp [OT.isConv] at hc
      split at hres
      · subst hres
        obtain ⟨f1, f2⟩ := failOuter_spec _ repo _ b1 hr
        exact ⟨[], f1, by simpa using f2, fun _ hx => by simp at hx, .inr rfl⟩
      · rename_i hmain
        have hmain' : isMain = false → root.isConv = false := by
          intro hm; cases hc : root.isConv <;> simp_all
        cases pre with
        | none =>
          simp only [] at hres
          split at hres
          · rename_i hq; simp at hq
          · split at hres
            · subst hres
              obtain ⟨f1, f2⟩ := failOuter_spec _ repo _ b1 hr
              exact ⟨[], f1, by simpa using f2, fun _ hx => by simp at hx, .inr rfl⟩
            · rename_i himp
              subst hres
              exact ⟨b1, b2, hcovA, hconv, hmain', fun hc => by simpa [hc] using himp⟩
        | some hk =>
          simp only [] at hres
          have sq := runHook_same henv 1 pid classes hk _ (Inv.good b1)
          split at hres
          · subst hres
            obtain ⟨f1, f2⟩ := failOuter_spec _ repo _ (InvL.same b1 sq) hr
            exact ⟨[], f1, by simpa using f2, fun _ hx => by simp at hx, .inr rfl⟩
          · split at hres
            · subst hres
              obtain ⟨f1, f2⟩ := failOuter_spec _ repo _ (InvL.same b1 sq) hr
              exact ⟨[], f1, by simpa using f2, fun _ hx => by simp at hx, .inr rfl⟩
            · rename_i himp
              subst hres
              exact ⟨InvL.same b1 sq, b2, hcovA, hconv, hmain', fun hc => by simpa [hc] using himp⟩

end phases

end LoadTree
