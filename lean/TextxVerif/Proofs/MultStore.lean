import TextxVerif.Proofs.MultEvents
/-!
Helper lemmas for C02, part 4 — the attribute store.  `store_stored`: on a
well-kinded trace (scalar attributes get at most one scalar event, `?=` events
only hit scalar attributes) the store never fails and after every prefix holds
exactly the values matched so far.
-/
namespace Mult

variable {V : Type}

/-- the kinds of the events agree with the multiplicities -/
def WellKinded (mult : Attr → M) (t : List (Ev V)) : Prop :=
  (∀ a, (mult a).isMany = false → tw a t ≤ 1) ∧
  (∀ a v, Ev.bool a v ∈ t → (mult a).isMany = false)

theorem WellKinded.prefix {mult : Attr → M} {t1 t2 : List (Ev V)} (h : WellKinded mult (t1 ++ t2)) :
    WellKinded mult t1 := by
  refine ⟨fun a ha => ?_, fun a v hm => h.2 a v (by simp [hm])⟩
  have := h.1 a ha
  rw [tw_append] at this
  omega

@[simp] theorem Heap.set_same (h : Heap V) (a : Attr) (s : Slot V) : h.set a s a = s := by simp [Heap.set]

theorem Heap.set_other (h : Heap V) {a b : Attr} (s : Slot V) (hab : a ≠ b) : h.set b s a = h a := by
  simp [Heap.set, hab]

theorem storeList_list (b : Attr) : ∀ (vs : List V) (h : Heap V) (xs : List V), h b = .list xs →
    ∃ h', storeList h b vs = .ok h' ∧ h' b = .list (xs ++ vs) ∧ ∀ a, a ≠ b → h' a = h a
  | [], h, xs, hb => ⟨h, rfl, by simp [hb], fun _ _ => rfl⟩
  | v :: vs, h, xs, hb => by
      obtain ⟨h', h1, h2, h3⟩ := storeList_list b vs (h.set b (.list (xs ++ [v]))) (xs ++ [v]) (by simp)
      refine ⟨h', ?_, by simpa using h2, ?_⟩
      · simp only [storeList, hb]; exact h1
      · intro a hab
        rw [h3 a hab, Heap.set_other _ _ hab]

theorem valsOf_snoc_same (a : Attr) (p : List (Ev V)) (e : Ev V) (h : e.attr = a) :
    valsOf a (p ++ [e]) = valsOf a p ++ e.vals := by
  simp [valsOf_append, valsOf, h]

theorem valsOf_snoc_other (a : Attr) (p : List (Ev V)) (e : Ev V) (h : e.attr ≠ a) :
    valsOf a (p ++ [e]) = valsOf a p := by
  simp [valsOf_append, valsOf, h]

/-- one event: the store succeeds and `Stored` moves on by that event -/
theorem storeEv_stored (truthy : V → Bool) (mult : Attr → M) (dflt : Attr → Slot V)
    (hd : ∀ a, Falsy truthy (dflt a)) (p : List (Ev V)) (h : Heap V) (e : Ev V)
    (hs : Stored mult dflt p h)
    (hk1 : ∀ a, (mult a).isMany = false → tw a p + e.w a ≤ 1)
    (hk2 : ∀ a v, e = Ev.bool a v → (mult a).isMany = false) :
    ∃ h', storeEv truthy h e = .ok h' ∧ Stored mult dflt (p ++ [e]) h' := by
  -- attributes other than the event's keep slot and values
  have other : ∀ (h' : Heap V), (∀ a, a ≠ e.attr → h' a = h a) → ∀ a, a ≠ e.attr →
      ((mult a).isMany = true → h' a = .list (valsOf a (p ++ [e]))) ∧
       ((mult a).isMany = false →
          (valsOf a (p ++ [e]) = [] ∧ h' a = dflt a) ∨ (∃ v, valsOf a (p ++ [e]) = [v] ∧ h' a = .scalar v)) := by
    intro h' hh a ha
    rw [valsOf_snoc_other a p e (fun x => ha x.symm), hh a ha]
    exact hs a
  -- a scalar attribute hit by an event of weight ≥ 1 has nothing stored yet
  have fresh : ∀ b, (mult b).isMany = false → 1 ≤ e.w b → valsOf b p = [] ∧ h b = dflt b := by
    intro b hb hw
    have h0 : tw b p = 0 := by have := hk1 b hb; omega
    have hv := nvals_le_of_tw_zero b p h0
    rcases (hs b).2 hb with h1 | ⟨v, h1, _⟩
    · exact h1
    · rw [hv] at h1; cases h1
  cases e with
  | plain b v =>
      cases hm : (mult b).isMany with
      | true =>
          have hb := (hs b).1 hm
          refine ⟨h.set b (.list (valsOf b p ++ [v])), by simp [storeEv, hb], ?_⟩
          intro a
          by_cases hab : a = b
          · subst hab
            simp [hm, valsOf_snoc_same a p (Ev.plain a v) rfl, Ev.vals]
          · simpa [Ev.attr] using other _ (fun x hx => Heap.set_other _ _ hx) a hab
      | false =>
          obtain ⟨hv, hb⟩ := fresh b hm (by simp [Ev.w])
          have hok : storeEv truthy h (Ev.plain b v) = .ok (h.set b (.scalar v)) := by
            have hf := hd b
            rw [← hb] at hf
            cases hhb : h b with
            | none => simp [storeEv, hhb]
            | scalar old => rw [hhb] at hf; simp [Falsy] at hf; simp [storeEv, hhb, hf]
            | list xs => rw [hhb] at hf; simp [Falsy] at hf
          refine ⟨_, hok, ?_⟩
          intro a
          by_cases hab : a = b
          · subst hab
            simp [hm, valsOf_snoc_same a p (Ev.plain a v) rfl, Ev.vals, hv]
          · simpa [Ev.attr] using other _ (fun x hx => Heap.set_other _ _ hx) a hab
  | bool b v =>
      have hm := hk2 b v rfl
      obtain ⟨hv, _⟩ := fresh b hm (by simp [Ev.w])
      refine ⟨h.set b (.scalar v), by simp [storeEv], ?_⟩
      intro a
      by_cases hab : a = b
      · subst hab
        simp [hm, valsOf_snoc_same a p (Ev.bool a v) rfl, Ev.vals, hv]
      · simpa [Ev.attr] using other _ (fun x hx => Heap.set_other _ _ hx) a hab
  | list b pl vs =>
      have hm : (mult b).isMany = true := by
        cases hm : (mult b).isMany with
        | true => rfl
        | false => have := hk1 b hm; simp [Ev.w] at this
      have hb := (hs b).1 hm
      obtain ⟨h', h1, h2, h3⟩ := storeList_list b vs h _ hb
      refine ⟨h', by simpa [storeEv] using h1, ?_⟩
      intro a
      by_cases hab : a = b
      · subst hab
        simp [hm, valsOf_snoc_same a p (Ev.list a pl vs) rfl, Ev.vals, h2]
      · simpa [Ev.attr] using other h' h3 a hab

theorem store_stored (truthy : V → Bool) (mult : Attr → M) (dflt : Attr → Slot V)
    (hd : ∀ a, Falsy truthy (dflt a)) : ∀ (t p : List (Ev V)) (h : Heap V),
    Stored mult dflt p h → WellKinded mult (p ++ t) →
      ∃ h', store truthy h t = .ok h' ∧ Stored mult dflt (p ++ t) h'
  | [], p, h, hs, _ => ⟨h, rfl, by simpa using hs⟩
  | e :: t, p, h, hs, hk => by
      have hk' : WellKinded mult ((p ++ [e]) ++ t) := by simpa using hk
      obtain ⟨h1, he, hs1⟩ := storeEv_stored truthy mult dflt hd p h e hs
        (fun a ha => by
          have := hk'.prefix.1 a ha
          rw [tw_append] at this
          simpa [tw] using this)
        (fun a v hev => hk.2 a v (by simp [hev]))
      obtain ⟨h2, ht, hs2⟩ := store_stored truthy mult dflt hd t (p ++ [e]) h1 hs1 hk'
      refine ⟨h2, ?_, by simpa using hs2⟩
      simp only [store, he]
      exact ht

theorem initHeap_stored (mult : Attr → M) (dflt : Attr → Slot V) :
    Stored mult dflt [] (initHeap mult dflt) := by
  intro a
  constructor
  · intro h; simp [initHeap, h, valsOf]
  · intro h; left; simp [initHeap, h, valsOf]

/-- traces of an accepted grammar are well-kinded for the inferred multiplicities -/
theorem events_wellKinded (b : Body) (hacc : accepted b = true) (t : List (Ev V)) (ht : Events b t) :
    WellKinded (multOf b) t := by
  constructor
  · intro a ha
    have hc : count a b ≠ .many := by
      intro hc
      have := (isList_iff_count b a).mpr hc
      simp [isList] at this
      rw [this] at ha; cases ha
    have := events_le a b t ht
    have h2 : (count a b).toNat ≤ 1 := by
      cases hcb : count a b <;> simp_all [Cnt.toNat]
    omega
  · intro a v hm
    have hsite := events_bool_mem a v b t ht hm
    have hc := bool_attr_scalar b a hacc hsite
    cases hl : (multOf b a).isMany with
    | false => rfl
    | true => exact absurd ((isList_iff_count b a).mp (by simpa [isList] using hl)) hc

end Mult
