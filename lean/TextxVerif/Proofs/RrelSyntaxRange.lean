import TextxVerif.Proofs.RrelSyntax
/-!
The range of the RREL parser: every tree `parse` returns is well-formed up to the
notation of its fixed names (`gwfExpr cc lexable`), hence an RREL expression in
the sense of `wfExpr` as soon as no fixed name ends with a backslash.
-/
namespace RrelSyntax

/-! ### `gwf… printable` is `wf…` -/
mutual
theorem gwfElem_printable (cc : CC) : ∀ e, gwfElem cc printable e = wfElem cc e
  | .parent _ => by simp [gwfElem, wfElem]
  | .nav _ _ _ => by simp [gwfElem, wfElem]
  | .dots _ => by simp [gwfElem, wfElem]
  | .brackets s => by simp [gwfElem, wfElem, gwfPaths_printable cc s]
  | .star s => by simp [gwfElem, wfElem, gwfPaths_printable cc s]
theorem gwfTail_printable (cc : CC) : ∀ es, gwfTail cc printable es = wfTail cc es
  | [] => by simp [gwfTail, wfTail]
  | e :: es => by simp [gwfTail, wfTail, gwfElem_printable cc e, gwfTail_printable cc es]
theorem gwfPath_printable (cc : CC) : ∀ es, gwfPath cc printable es = wfPath cc es
  | [] => by simp [gwfPath, wfPath]
  | e :: es => by simp [gwfPath, wfPath, gwfElem_printable cc e, gwfTail_printable cc es]
theorem gwfPaths_printable (cc : CC) : ∀ ps, gwfPaths cc printable ps = wfPaths cc ps
  | [] => by simp [gwfPaths, wfPaths]
  | p :: ps => by simp [gwfPaths, wfPaths, gwfPath_printable cc p, gwfPaths_printable cc ps]
end

theorem gwfExpr_printable (cc : CC) (e : Expr) : gwfExpr cc printable e = wfExpr cc e := by
  simp [gwfExpr, wfExpr, gwfSeq, wfSeq, gwfPaths_printable]

/-! ### monotone in the fixed names that occur -/
mutual
theorem gwfElem_mono {cc : CC} {okf okf' : Str → Bool} : ∀ e, gwfElem cc okf e = true →
    (∀ f ∈ fixedElem e, okf f = true → okf' f = true) → gwfElem cc okf' e = true
  | .parent _, h, _ => by simpa [gwfElem] using h
  | .dots _, h, _ => by simpa [gwfElem] using h
  | .nav _ _ none, h, _ => by simpa [gwfElem] using h
  | .nav _ _ (some fx), h, hf => by
    simp only [gwfElem, Bool.and_eq_true, Bool.not_eq_true'] at h ⊢
    exact ⟨h.1, h.2.1, hf fx (by simp [fixedElem]) h.2.2⟩
  | .brackets s, h, hf => by
    simp only [gwfElem, Bool.and_eq_true] at h ⊢
    exact ⟨gwfPaths_mono s h.1 (fun f hm => hf f (by simpa [fixedElem] using hm)), h.2⟩
  | .star s, h, hf => by
    simp only [gwfElem, Bool.and_eq_true] at h ⊢
    exact ⟨gwfPaths_mono s h.1 (fun f hm => hf f (by simpa [fixedElem] using hm)), h.2⟩
theorem gwfTail_mono {cc : CC} {okf okf' : Str → Bool} : ∀ es, gwfTail cc okf es = true →
    (∀ f ∈ fixedPath es, okf f = true → okf' f = true) → gwfTail cc okf' es = true
  | [], _, _ => by simp [gwfTail]
  | e :: es, h, hf => by
    simp only [gwfTail, Bool.and_eq_true] at h ⊢
    exact ⟨⟨h.1.1, gwfElem_mono e h.1.2 (fun f hm => hf f (by simp [fixedPath, hm]))⟩,
      gwfTail_mono es h.2 (fun f hm => hf f (by simp [fixedPath, hm]))⟩
theorem gwfPath_mono {cc : CC} {okf okf' : Str → Bool} : ∀ es, gwfPath cc okf es = true →
    (∀ f ∈ fixedPath es, okf f = true → okf' f = true) → gwfPath cc okf' es = true
  | [], h, _ => by simp [gwfPath] at h
  | e :: es, h, hf => by
    simp only [gwfPath, Bool.and_eq_true] at h ⊢
    exact ⟨gwfElem_mono e h.1 (fun f hm => hf f (by simp [fixedPath, hm])),
      gwfTail_mono es h.2 (fun f hm => hf f (by simp [fixedPath, hm]))⟩
theorem gwfPaths_mono {cc : CC} {okf okf' : Str → Bool} : ∀ ps, gwfPaths cc okf ps = true →
    (∀ f ∈ fixedPaths ps, okf f = true → okf' f = true) → gwfPaths cc okf' ps = true
  | [], _, _ => by simp [gwfPaths]
  | p :: ps, h, hf => by
    simp only [gwfPaths, Bool.and_eq_true] at h ⊢
    exact ⟨gwfPath_mono p h.1 (fun f hm => hf f (by simp [fixedPaths, hm])),
      gwfPaths_mono ps h.2 (fun f hm => hf f (by simp [fixedPaths, hm]))⟩
end

/-- a tree in the parser's range whose fixed names do not end with a backslash is well-formed -/
theorem wfExpr_of_lexable {cc : CC} {e : Expr} (h : gwfExpr cc lexable e = true)
    (hb : ∀ f ∈ fixedNames e, endsWithBackslash f = false) : wfExpr cc e = true := by
  rw [← gwfExpr_printable]
  simp only [gwfExpr, gwfSeq, Bool.and_eq_true] at h ⊢
  refine ⟨h.1, gwfPaths_mono e.seq h.2.1 ?_, h.2.2⟩
  intro f hf hl
  have := hb f hf
  simpa [lexable, this] using hl

/-! ### terminals -/

theorem mem_takeWhile_true {p : Char → Bool} : ∀ {l : Str} {x : Char}, x ∈ l.takeWhile p → p x = true
  | [], _, h => by simp at h
  | c :: l, x, h => by
    by_cases hc : p c = true
    · simp only [List.takeWhile_cons, hc, if_true, List.mem_cons] at h
      rcases h with rfl | h
      · exact hc
      · exact mem_takeWhile_true h
    · simp [hc] at h

theorem removeEsc_plain {q c : Char} (hb : c ≠ '\\') (rest : Str) :
    removeEsc q (c :: rest) = c :: removeEsc q rest := by
  rw [removeEsc.eq_def]; simp [hb]

theorem removeEsc_esc (q : Char) (rest : Str) : removeEsc q ('\\' :: q :: rest) = removeEsc q rest := by
  rw [removeEsc.eq_def]; simp

theorem removeEsc_bs {q c2 : Char} (h : c2 ≠ q) (rest : Str) :
    removeEsc q ('\\' :: c2 :: rest) = '\\' :: removeEsc q (c2 :: rest) := by
  rw [removeEsc.eq_def]; simp [h]

theorem ident_sound {cc : CC} {inp n r : Str} (h : ident cc inp = some (n, r)) : identOk cc n = true := by
  unfold ident at h
  split at h
  · simp at h
  · split at h
    · rename_i c r' hc
      simp only [Option.some.injEq, Prod.mk.injEq] at h
      rw [← h.1]
      simp only [identOk, hc, Bool.true_and, List.all_eq_true]
      intro x hx
      exact mem_takeWhile_true hx
    · simp at h

theorem dotsP_sound {inp r : Str} {n : Nat} (h : dotsP inp = some (n, r)) : 0 < n := by
  unfold dotsP at h
  split at h
  · simp at h
  · split at h
    · simp only [Option.some.injEq, Prod.mk.injEq] at h
      omega
    · simp at h

theorem flagsP_sound {inp f r : Str} (h : flagsP inp = some (f, r)) : f.all isMP = true := by
  unfold flagsP at h
  split at h
  · simp at h
  · split at h
    · split at h
      · split at h
        · simp only [Option.some.injEq, Prod.mk.injEq] at h
          rw [← h.1]
          simp only [List.all_eq_true]
          intro x hx
          exact mem_takeWhile_true hx
        · simp at h
      · simp at h
    · simp at h

/-- what the string regex can deliver between quotes `q` -/
def Q (q : Char) (b : Str) : Prop := quoteOk q b = true ∨ endsWithBackslash b = true

theorem Q_nil (q : Char) : Q q [] := Or.inl (by simp [quoteOk, removeEsc, endsWithBackslash])

theorem ends_cons_cons (c d : Char) (t : Str) : endsWithBackslash (c :: d :: t) = endsWithBackslash (d :: t) := by
  simp [endsWithBackslash]

theorem quoteOk_iff' {q : Char} {s : Str} :
    quoteOk q s = true ↔ q ∉ removeEsc q s ∧ endsWithBackslash s = false := by
  simp [quoteOk]

theorem Q_cons_plain {q c : Char} {b : Str} (hq : c ≠ q) (hb : c ≠ '\\') (h : Q q b) : Q q (c :: b) := by
  cases b with
  | nil =>
    left
    rw [quoteOk_iff', removeEsc_plain hb]
    simp [removeEsc, endsWithBackslash, hb, Ne.symm hq]
  | cons d t =>
    rcases h with h | h
    · left
      rw [quoteOk_iff'] at h ⊢
      rw [removeEsc_plain hb, ends_cons_cons]
      exact ⟨by simp [Ne.symm hq, h.1], h.2⟩
    · right
      rw [ends_cons_cons]; exact h

theorem Q_single_bs (q : Char) : Q q ['\\'] := Or.inr (by simp [endsWithBackslash])

theorem Q_cons_esc {q : Char} {b : Str} (hq : q ≠ '\\') (h : Q q b) : Q q ('\\' :: q :: b) := by
  cases b with
  | nil =>
    left
    rw [quoteOk_iff', removeEsc_esc]
    simp [removeEsc, endsWithBackslash, hq]
  | cons d t =>
    rcases h with h | h
    · left
      rw [quoteOk_iff'] at h ⊢
      rw [removeEsc_esc, ends_cons_cons, ends_cons_cons]
      exact h
    · right
      rw [ends_cons_cons, ends_cons_cons]; exact h

theorem Q_cons_bs {q : Char} {b : Str} (hq : q ≠ '\\') (h : Q q b) : Q q ('\\' :: b) := by
  cases b with
  | nil => exact Q_single_bs q
  | cons d t =>
    rcases h with h | h
    · left
      rw [quoteOk_iff'] at h ⊢
      by_cases hd : d = q
      · subst hd
        rw [removeEsc_plain hq] at h
        simp at h
      · rw [removeEsc_bs hd, ends_cons_cons]
        exact ⟨by simp [hq, h.1], h.2⟩
    · right
      rw [ends_cons_cons]; exact h

theorem scan_sound {q : Char} (hq : q ≠ '\\') : ∀ (inp : Str) {b r : Str}, scan q inp = some (b, r) → Q q b
  | [], b, r, h => by simp [scan] at h
  | [c], b, r, h => by
    rw [scan.eq_def] at h
    by_cases hc : c = q
    · simp [hc] at h; obtain ⟨hb', _⟩ := h; subst hb'; exact Q_nil q
    · by_cases hb : c = '\\'
      · simp [hb] at h
        simp [hb ▸ hc] at h
      · simp [hc, hb, scan] at h
  | c :: c2 :: rest2, b, r, h => by
    by_cases hc : c = q
    · rw [scan.eq_def] at h
      simp [hc] at h; obtain ⟨hb', _⟩ := h; subst hb'; exact Q_nil q
    · by_cases hb : c = '\\'
      · subst hb
        by_cases hc2 : c2 = q
        · subst hc2
          cases hs : scan c2 rest2 with
          | none =>
            rw [scan_esc_none hq hs] at h
            simp at h; obtain ⟨hb', _⟩ := h; subst hb'; exact Q_single_bs c2
          | some br =>
            obtain ⟨b', r'⟩ := br
            rw [scan_esc_some hq hs] at h
            simp at h; obtain ⟨hb', _⟩ := h; subst hb'
            exact Q_cons_esc hq (scan_sound hq rest2 hs)
        · rw [scan_bs hq hc2] at h
          cases hs : scan q (c2 :: rest2) with
          | none => simp [hs] at h
          | some br =>
            obtain ⟨b', r'⟩ := br
            simp [hs] at h; obtain ⟨hb', _⟩ := h; subst hb'
            exact Q_cons_bs hq (scan_sound hq (c2 :: rest2) hs)
      · rw [scan_other hc hb] at h
        cases hs : scan q (c2 :: rest2) with
        | none => simp [hs] at h
        | some br =>
          obtain ⟨b', r'⟩ := br
          simp [hs] at h; obtain ⟨hb', _⟩ := h; subst hb'
          exact Q_cons_plain hc hb (scan_sound hq (c2 :: rest2) hs)

theorem strP_sound {inp f r : Str} (h : strP inp = some (f, r)) : lexable f = true := by
  unfold strP at h
  split at h
  · simp at h
  · split at h
    · have := scan_sound (q := '\'') (by decide) _ h
      rcases this with h1 | h1 <;> simp [lexable, printable, h1]
    · split at h
      · have := scan_sound (q := '"') (by decide) _ h
        rcases this with h1 | h1 <;> simp [lexable, printable, h1]
      · simp at h

/-! ### path elements -/

/-- result of a path-element parser: well-formed (fixed names lexable) and not dots -/
def ElemOk (cc : CC) (e : Elem) : Prop := gwfElem cc lexable e = true ∧ e.isDots = false

theorem parentP_sound {cc : CC} {inp r : Str} {e : Elem} (h : parentP cc inp = some (e, r)) : ElemOk cc e := by
  unfold parentP at h
  cases h1 : lits kwParent inp with
  | none => simp [h1] at h
  | some r1 =>
    cases h2 : litc '(' r1 with
    | none => simp [h1, h2] at h
    | some r2 =>
      cases h3 : ident cc r2 with
      | none => simp [h1, h2, h3] at h
      | some tr =>
        obtain ⟨t, r3⟩ := tr
        cases h4 : litc ')' r3 with
        | none => simp [h1, h2, h3, h4] at h
        | some r4 =>
          simp [h1, h2, h3, h4] at h
          obtain ⟨he, _⟩ := h
          subst he
          exact ⟨by simpa [gwfElem] using ident_sound h3, rfl⟩

theorem navP_sound {cc : CC} {inp r : Str} {e : Elem} (h : navP cc inp = some (e, r)) : ElemOk cc e := by
  have key : ∀ {inp' : Str} {c : Bool} {f : Option Str} {e : Elem} {r : Str},
      (ident cc inp').map (fun x => (Elem.nav x.1 c f, x.2)) = some (e, r) →
      (∀ fx, f = some fx → c = false ∧ lexable fx = true) → ElemOk cc e := by
    intro inp' c f e r hm hf
    cases hi : ident cc inp' with
    | none => simp [hi] at hm
    | some nr =>
      obtain ⟨n, r'⟩ := nr
      simp [hi] at hm
      obtain ⟨he, _⟩ := hm
      subst he
      refine ⟨?_, rfl⟩
      cases f with
      | none => simpa [gwfElem] using ident_sound hi
      | some fx =>
        obtain ⟨hc, hl⟩ := hf fx rfl
        simp [gwfElem, ident_sound hi, hc, hl]
  unfold navP at h
  simp only at h
  split at h
  · -- first alternative matched
    rename_i x halt
    simp only [Option.some.injEq] at h
    subst h
    split at halt
    · exact key halt (by simp)
    · exact key halt (by simp)
  · split at h
    · rename_i f r1 hstr
      cases ht : litc '~' r1 with
      | none => simp [ht] at h
      | some r2 =>
        simp only [ht, Option.bind_some] at h
        exact key h (by intro fx hfx; simp at hfx; subst hfx; exact ⟨rfl, strP_sound hstr⟩)
    · cases ht : litc '~' inp with
      | none => simp [ht] at h
      | some r2 =>
        simp only [ht, Option.bind_some] at h
        exact key h (by simp)

/-- the nested-sequence parser returns only well-formed sequences -/
def SeqSound (cc : CC) (seqP : SeqParser) : Prop :=
  ∀ inp s r, seqP inp = some (s, r) → gwfSeq cc lexable s = true

theorem pelemP_sound {cc : CC} {seqP : SeqParser} (hs : SeqSound cc seqP) {inp r : Str} {e : Elem}
    (h : pelemP cc seqP inp = some (e, r)) : ElemOk cc e := by
  unfold pelemP at h
  split at h
  · rename_i x hp
    simp only [Option.some.injEq] at h
    subst h
    exact parentP_sound hp
  · split at h
    · rename_i s r1 hb
      simp only [Option.some.injEq, Prod.mk.injEq] at h
      obtain ⟨he, _⟩ := h
      subst he
      unfold bracketsP at hb
      cases h1 : litc '(' inp with
      | none => simp [h1] at hb
      | some r2 =>
        cases h2 : seqP r2 with
        | none => simp [h1, h2] at hb
        | some sr =>
          obtain ⟨s', r3⟩ := sr
          cases h3 : litc ')' r3 with
          | none => simp [h1, h2, h3] at hb
          | some r4 =>
            simp [h1, h2, h3] at hb
            obtain ⟨hs', _⟩ := hb
            subst hs'
            have := hs _ _ _ h2
            exact ⟨by simpa [gwfElem, gwfSeq] using this, rfl⟩
    · exact navP_sound h

theorem star_single_ok {cc : CC} {e : Elem} (hw : gwfElem cc lexable e = true) :
    gwfElem cc lexable (.star [[e]]) = true := by
  rw [gwfElem]
  simp [gwfPaths, gwfPath, gwfTail, hw]

theorem mkStar_ok {cc : CC} {e : Elem} (h : ElemOk cc e) : ElemOk cc (mkStar e) := by
  obtain ⟨hw, hd⟩ := h
  cases e with
  | brackets s => exact ⟨by simpa [mkStar, gwfElem] using hw, rfl⟩
  | dots n => simp [Elem.isDots] at hd
  | parent t => exact ⟨star_single_ok hw, rfl⟩
  | nav n c f => exact ⟨star_single_ok hw, rfl⟩
  | star s => exact ⟨star_single_ok hw, rfl⟩

theorem xP_sound {cc : CC} {seqP : SeqParser} (hs : SeqSound cc seqP) {inp r : Str} {e : Elem}
    (h : xP cc seqP inp = some (e, r)) : ElemOk cc e := by
  unfold xP at h
  split at h
  · simp at h
  · rename_i e0 r0 hp
    have h0 := pelemP_sound hs hp
    split at h
    · simp only [Option.some.injEq, Prod.mk.injEq] at h
      obtain ⟨he, _⟩ := h
      subst he
      exact mkStar_ok h0
    · simp only [Option.some.injEq, Prod.mk.injEq] at h
      obtain ⟨he, _⟩ := h
      subst he
      exact h0

/-! ### lists -/

section SepSound
variable {α : Type} {X : Str → Option (α × Str)} {sep : Char} {ok : α → Prop}

theorem manySep_sound (hX : ∀ inp a r, X inp = some (a, r) → ok a) :
    ∀ (k : Nat) (inp : Str), ∀ a ∈ (manySep X sep k inp).1, ok a
  | 0, inp => by simp [manySep]
  | k + 1, inp => by
    intro a ha
    unfold manySep at ha
    split at ha
    · simp at ha
    · rename_i e r hx
      split at ha
      · simp at ha
      · rename_i r' hsep
        simp only [List.mem_cons] at ha
        rcases ha with rfl | ha
        · exact hX _ _ _ hx
        · exact manySep_sound hX k r' a ha

theorem sepList_sound (hX : ∀ inp a r, X inp = some (a, r) → ok a) {inp r : Str} {l : List α}
    (h : sepList X sep inp = some (l, r)) : l ≠ [] ∧ ∀ a ∈ l, ok a := by
  unfold sepList at h
  have hm := manySep_sound (sep := sep) hX inp.length inp
  cases hx : X (manySep X sep inp.length inp).2 with
  | none => simp [hx] at h
  | some er =>
    obtain ⟨e, r'⟩ := er
    simp [hx] at h
    obtain ⟨hl, _⟩ := h
    subst hl
    refine ⟨by simp, ?_⟩
    intro a ha
    rcases List.mem_append.mp ha with ha | ha
    · exact hm a ha
    · simp at ha; subst ha; exact hX _ _ _ hx

end SepSound

theorem gwfTail_of_all {cc : CC} : ∀ {es : List Elem}, (∀ e ∈ es, ElemOk cc e) → gwfTail cc lexable es = true
  | [], _ => by simp [gwfTail]
  | e :: es, h => by
    have he := h e (by simp)
    simp only [gwfTail, Bool.and_eq_true, Bool.not_eq_true']
    exact ⟨⟨he.2, he.1⟩, gwfTail_of_all (fun x hx => h x (by simp [hx]))⟩

theorem gwfPath_of_all {cc : CC} {es : List Elem} (hne : es ≠ []) (h : ∀ e ∈ es, ElemOk cc e) :
    gwfPath cc lexable es = true := by
  cases es with
  | nil => exact absurd rfl hne
  | cons e es =>
    simp only [gwfPath, Bool.and_eq_true]
    exact ⟨(h e (by simp)).1, gwfTail_of_all (fun x hx => h x (by simp [hx]))⟩

theorem caret_ok (cc : CC) : gwfElem cc lexable caretElem = true := by
  simp [caretElem, gwfElem, gwfPaths, gwfPath, gwfTail]

theorem pathP_sound {cc : CC} {seqP : SeqParser} (hs : SeqSound cc seqP) {inp r : Str} {p : Path}
    (h : pathP cc seqP inp = some (p, r)) : gwfPath cc lexable p = true := by
  unfold pathP at h
  simp only at h
  split at h
  · -- first alternative
    rename_i es r1 hl
    simp only [Option.some.injEq, Prod.mk.injEq] at h
    obtain ⟨hp, _⟩ := h
    subst hp
    obtain ⟨hne, hall⟩ := sepList_sound (ok := ElemOk cc) (fun _ _ _ hx => xP_sound hs hx) hl
    split
    · -- `^`
      simp only [Option.toList_some, List.singleton_append, gwfPath, Bool.and_eq_true]
      exact ⟨caret_ok cc, gwfTail_of_all hall⟩
    · split
      · rename_i n r2 hd
        simp only [Option.toList_some, List.singleton_append, gwfPath, Bool.and_eq_true]
        exact ⟨by simpa [gwfElem] using dotsP_sound hd, gwfTail_of_all hall⟩
      · simpa using gwfPath_of_all hne hall
  · split at h
    · simp only [Option.some.injEq, Prod.mk.injEq] at h
      obtain ⟨hp, _⟩ := h
      subst hp
      simp [gwfPath, gwfTail, caret_ok]
    · cases hd : dotsP inp with
      | none => simp [hd] at h
      | some nr =>
        obtain ⟨n, r2⟩ := nr
        simp [hd] at h
        obtain ⟨hp, _⟩ := h
        subst hp
        simpa [gwfPath, gwfTail, gwfElem] using dotsP_sound hd

theorem gwfPaths_of_all {cc : CC} : ∀ {ps : List (List Elem)}, (∀ p ∈ ps, gwfPath cc lexable p = true) →
    gwfPaths cc lexable ps = true
  | [], _ => by simp [gwfPaths]
  | p :: ps, h => by
    simp only [gwfPaths, Bool.and_eq_true]
    exact ⟨h p (by simp), gwfPaths_of_all (fun x hx => h x (by simp [hx]))⟩

theorem seqWith_sound {cc : CC} {seqP : SeqParser} (hs : SeqSound cc seqP) : SeqSound cc (seqWith cc seqP) := by
  intro inp s r h
  unfold seqWith at h
  obtain ⟨hne, hall⟩ := sepList_sound (ok := fun p => gwfPath cc lexable p = true)
    (fun _ _ _ hx => pathP_sound hs hx) h
  simp only [gwfSeq, Bool.and_eq_true, Bool.not_eq_true', List.isEmpty_eq_false_iff]
  exact ⟨gwfPaths_of_all hall, hne⟩

theorem parseSeq_sound (cc : CC) : ∀ n, SeqSound cc (parseSeq cc n)
  | 0 => by intro inp s r h; simp [parseSeq] at h
  | n + 1 => seqWith_sound (parseSeq_sound cc n)

/-- every tree the parser returns is in `gwfExpr cc lexable` -/
theorem parse_sound {cc : CC} {inp : Str} {e : Expr} (h : parse cc inp = some e) :
    gwfExpr cc lexable e = true := by
  unfold parse at h
  simp only at h
  split at h
  · simp at h
  · rename_i s r hp
    split at h
    · simp only [Option.some.injEq] at h
      subst h
      have hseq := parseSeq_sound cc _ _ _ _ hp
      simp only [gwfExpr, Bool.and_eq_true]
      refine ⟨?_, hseq⟩
      split
      · rename_i f r' hf
        exact flagsP_sound hf
      · simp
    · simp at h

end RrelSyntax
