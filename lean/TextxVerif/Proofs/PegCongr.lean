import TextxVerif.Peg.Arp
/-!
# `Peg.parse` sees the input only through the token table, its length and the whitespace test

`Similar P g g'`: the two parser configurations have the same parser model, the
same token table, inputs of equal length, and whitespace skipping behaves the
same on both inputs for every whitespace set satisfying `P`.  `WsOk P g`: `P`
holds for every `ws` rule modifier of the model and is closed under the
`eolterm` stripping.  `Inv P s`: the whitespace sets of the parser state satisfy
`P` (an invariant of the interpreter, proved along with the congruence).

`parse_congr`: under these hypotheses every function of the mirror returns the
same result and the same final state on both configurations — by induction on
the fuel, simultaneously for the eight mutually recursive functions.
-/
namespace Peg

structure Similar (P : List Char → Prop) (g g' : Grammar) : Prop where
  nodes : g'.nodes = g.nodes
  comments : g'.comments = g.comments
  memo : g'.memo = g.memo
  toks : g'.toks = g.toks
  size : g'.input.size = g.input.size
  skip : ∀ ws, P ws → ∀ f p, skipWsFrom g'.input ws f p = skipWsFrom g.input ws f p

structure WsOk (P : List Char → Prop) (g : Grammar) : Prop where
  strip : ∀ ws, P ws → P (stripEol ws)
  node : ∀ (id : Nat) (nd : Node), g.nodes[id]? = some nd → ∀ w, nd.ws = some w → P w

def Inv (P : List Char → Prop) (s : PState) : Prop := P s.ws ∧ P s.realWs

section
variable {P : List Char → Prop}

@[simp] theorem nmRaise_ws (s : PState) (p : Nat) : (s.nmRaise p).ws = s.ws := by
  unfold PState.nmRaise; repeat' split
  all_goals rfl
@[simp] theorem nmRaise_realWs (s : PState) (p : Nat) : (s.nmRaise p).realWs = s.realWs := by
  unfold PState.nmRaise; repeat' split
  all_goals rfl

theorem Inv.of_eq {s t : PState} (h : Inv P s) (h1 : t.ws = s.ws) (h2 : t.realWs = s.realWs) : Inv P t := by
  unfold Inv at *; rw [h1, h2]; exact h

theorem Inv.nmRaise {s : PState} (h : Inv P s) (p : Nat) : Inv P (s.nmRaise p) :=
  h.of_eq (by simp) (by simp)

theorem Inv.setWs {g : Grammar} (w : WsOk P g) {s : PState} (h : Inv P s) {v : List Char} (hv : P v) :
    Inv P (s.setWs v) := by
  unfold PState.setWs Inv; dsimp only
  refine ⟨?_, hv⟩
  split
  · exact w.strip _ hv
  · exact hv

theorem Inv.setEolterm {g : Grammar} (w : WsOk P g) {s : PState} (h : Inv P s) (b : Bool) :
    Inv P (s.setEolterm b) := by
  unfold PState.setEolterm Inv; dsimp only
  refine ⟨?_, h.2⟩
  split
  · exact w.strip _ h.1
  · exact h.2

theorem Inv.skipWs {s : PState} (h : Inv P s) (g : Grammar) : Inv P (skipWs g s) := h

theorem skipWs_congr {g g' : Grammar} (sim : Similar P g g') {s : PState} (h : Inv P s) :
    skipWs g' s = skipWs g s := by
  unfold Peg.skipWs
  rw [sim.size, sim.skip _ h.1]

theorem tokLen_congr {g g' : Grammar} (sim : Similar P g g') (t p : Nat) : tokLen g' t p = tokLen g t p := by
  unfold tokLen; rw [sim.toks]

end
end Peg

namespace Peg
section
variable {P : List Char → Prop} {g g' : Grammar}

/-- the statement proved by induction on the fuel `n`, for all eight functions at once -/
structure IH (P : List Char → Prop) (g g' : Grammar) (n : Nat) : Prop where
  parse : ∀ id s, Inv P s → parse g' n id s = parse g n id s ∧ Inv P (parse g n id s).2
  matchParse : ∀ id nd s, Inv P s →
    matchParse g' n id nd s = matchParse g n id nd s ∧ Inv P (matchParse g n id nd s).2
  parseComments : ∀ s, Inv P s → parseComments g' n s = parseComments g n s ∧ Inv P (parseComments g n s).2
  parseBody : ∀ id nd s, (∀ w, nd.ws = some w → P w) → Inv P s →
    parseBody g' n id nd s = parseBody g n id nd s ∧ Inv P (parseBody g n id nd s).2
  parseSeq : ∀ es s acc, Inv P s →
    parseSeq g' n es s acc = parseSeq g n es s acc ∧ Inv P (parseSeq g n es s acc).2
  parseChoice : ∀ es cpos s, Inv P s →
    parseChoice g' n es cpos s = parseChoice g n es cpos s ∧ Inv P (parseChoice g n es cpos s).2
  parseRep : ∀ k sep s acc first prev, Inv P s →
    parseRep g' n k sep s acc first prev = parseRep g n k sep s acc first prev ∧
      Inv P (parseRep g n k sep s acc first prev).2
  parseUnord : ∀ todo sep s acc first sepRes, Inv P s →
    parseUnord g' n todo sep s acc first sepRes = parseUnord g n todo sep s acc first sepRes ∧
      Inv P (parseUnord g n todo sep s acc first sepRes).2
  unordFor : ∀ es posLoc s sepExc mtch, Inv P s →
    unordFor g' n es posLoc s sepExc mtch = unordFor g n es posLoc s sepExc mtch ∧
      Inv P (unordFor g n es posLoc s sepExc mtch).2

theorem IH.zero : IH P g g' 0 := by
  constructor <;> intros <;> refine ⟨?_, ?_⟩ <;>
    simp only [Peg.parse, Peg.matchParse, Peg.parseComments, Peg.parseBody, Peg.parseSeq, Peg.parseChoice,
      Peg.parseRep, Peg.parseUnord, Peg.unordFor] <;> assumption

/-- closes `A = A ∧ Inv …` goals -/
macro "fin " h:term : tactic => `(tactic| first | exact ⟨rfl, $h⟩ | exact ⟨trivial, $h⟩ | exact $h)

theorem cacheHit_inv {memo : Bool} {id : Nat} {s : PState} {r : Res × PState}
    (h : cacheHit memo id s = some r) (hs : Inv P s) : Inv P r.2 := by
  unfold cacheHit at h
  split at h
  · cases h; exact hs
  · cases h; exact hs
  · cases h

theorem cacheStore_inv {memo : Bool} {id : Nat} {nd : Node} {cpos : Nat} {rs : Res × PState}
    (h : Inv P rs.2) : Inv P (cacheStore memo id nd cpos rs).2 := by
  obtain ⟨r, s2⟩ := rs
  cases r <;> simp only [cacheStore] <;> (try split) <;> exact h

theorem step_parseSeq {n : Nat} (ih : IH P g g' n) : ∀ es s acc, Inv P s →
    parseSeq g' (n+1) es s acc = parseSeq g (n+1) es s acc ∧ Inv P (parseSeq g (n+1) es s acc).2 := by
  intro es s acc hs
  cases es with
  | nil => simp only [parseSeq]; fin hs
  | cons e es =>
    simp only [parseSeq]
    obtain ⟨h1, h2⟩ := ih.parse e s hs
    rw [h1]
    generalize Peg.parse g n e s = r at h2 ⊢
    obtain ⟨r, s2⟩ := r
    cases r
    · exact ih.parseSeq es s2 _ h2
    all_goals fin h2

theorem step_parseChoice {n : Nat} (ih : IH P g g' n) : ∀ es cpos s, Inv P s →
    parseChoice g' (n+1) es cpos s = parseChoice g (n+1) es cpos s ∧
      Inv P (parseChoice g (n+1) es cpos s).2 := by
  intro es cpos s hs
  cases es with
  | nil => simp only [parseChoice]; fin hs
  | cons e es =>
    simp only [parseChoice]
    obtain ⟨h1, h2⟩ := ih.parse e s hs
    rw [h1]
    generalize Peg.parse g n e s = r at h2 ⊢
    obtain ⟨r, s2⟩ := r
    cases r with
    | ok v =>
      cases v
      · exact ih.parseChoice es cpos s2 h2
      all_goals fin h2
    | nomatch => exact ih.parseChoice es cpos _ h2
    | fuel => fin h2
    | bad => fin h2

theorem step_unordFor {n : Nat} (ih : IH P g g' n) : ∀ es posLoc s sepExc mtch, Inv P s →
    unordFor g' (n+1) es posLoc s sepExc mtch = unordFor g (n+1) es posLoc s sepExc mtch ∧
      Inv P (unordFor g (n+1) es posLoc s sepExc mtch).2 := by
  intro es posLoc s sepExc mtch hs
  cases es with
  | nil => simp only [unordFor]; fin hs
  | cons e es =>
    simp only [unordFor]
    obtain ⟨h1, h2⟩ := ih.parse e s hs
    rw [h1]
    generalize Peg.parse g n e s = r at h2 ⊢
    obtain ⟨r, s2⟩ := r
    cases r with
    | ok v =>
      dsimp only
      split
      · split
        · exact ih.unordFor es posLoc _ _ _ h2
        · fin h2
      · exact ih.unordFor es posLoc _ _ _ h2
    | nomatch => exact ih.unordFor es posLoc _ _ _ h2
    | fuel => fin h2
    | bad => fin h2

theorem step_parseComments {n : Nat} (sim : Similar P g g') (ih : IH P g g' n) : ∀ s, Inv P s →
    parseComments g' (n+1) s = parseComments g (n+1) s ∧ Inv P (parseComments g (n+1) s).2 := by
  intro s hs
  simp only [parseComments, sim.comments]
  cases g.comments with
  | none => fin hs
  | some cm =>
    dsimp only
    obtain ⟨h1, h2⟩ := ih.parse cm s hs
    rw [h1]
    generalize Peg.parse g n cm s = r at h2 ⊢
    obtain ⟨r, s2⟩ := r
    cases r with
    | ok v =>
      dsimp only
      rw [skipWs_congr sim h2]
      exact ih.parseComments _ (by split <;> exact h2)
    | nomatch => fin h2
    | fuel => fin h2
    | bad => fin h2

theorem step_parse {n : Nat} (sim : Similar P g g') (w : WsOk P g) (ih : IH P g g' n) : ∀ id s, Inv P s →
    parse g' (n+1) id s = parse g (n+1) id s ∧ Inv P (parse g (n+1) id s).2 := by
  intro id s hs
  simp only [parse, sim.nodes, sim.memo]
  cases hnd : g.nodes[id]? with
  | none => fin hs
  | some nd =>
    dsimp only
    split
    · exact ih.matchParse id nd s hs
    · exact ih.matchParse id nd s hs
    · exact ih.matchParse id nd s hs
    · cases hc : cacheHit g.memo id s with
      | some r => fin (cacheHit_inv hc hs)
      | none =>
        dsimp only
        obtain ⟨h1, h2⟩ := ih.parseBody id nd s (w.node id nd hnd) hs
        rw [h1]
        exact ⟨rfl, cacheStore_inv h2⟩

end
end Peg
