import TextxVerif.Peg.Arp
/-!
# `Peg.parse` sees the input only through the token table, its length and the whitespace test

`Similar P g g'`: the two parser configurations have the same parser model, the
same token table, inputs of equal length, and whitespace skipping behaves the
same on both inputs for every whitespace set satisfying `P`.  `WsOk P g`: `P`
holds for every `ws` rule modifier of the model and is closed under the
`eolterm` stripping.  `Inv P s`: the whitespace sets of the parser state satisfy
`P` (an invariant of the interpreter, proved along with the congruence).

`parse_congr`: under these hypotheses every function of the mirror returns the
same result and the same final state on both configurations — by induction on
the fuel, simultaneously for the eight mutually recursive functions.
-/
namespace Peg

structure Similar (P : List Char → Prop) (g g' : Grammar) : Prop where
  nodes : g'.nodes = g.nodes
  comments : g'.comments = g.comments
  memo : g'.memo = g.memo
  toks : g'.toks = g.toks
  size : g'.input.size = g.input.size
  skip : ∀ ws, P ws → ∀ f p, skipWsFrom g'.input ws f p = skipWsFrom g.input ws f p

/-- two `Match` nodes that are the same object up to their class — `StrMatch` versus a regex match
(`RegExMatch`, textX's `KeywordMatch`) — and whose token never matches the empty string (the only place
where `Match.parse` treats the two classes differently) -/
def NodeEqv (g : Grammar) (nd' nd : Node) : Prop :=
  nd' = nd ∨ (nd' = { nd with kind := nd'.kind } ∧ (nd'.kind = .str ∨ nd'.kind = .re) ∧
    (nd.kind = .str ∨ nd.kind = .re) ∧ ∀ p, tokLen g nd.tok p ≠ some 0)

/-- `Similar`, except that the node tables may differ in the class of never-empty `Match` nodes (`NodeEqv`) -/
structure SimilarK (P : List Char → Prop) (g g' : Grammar) : Prop where
  nodes : ∀ id : Nat, (g.nodes[id]? = none ∧ g'.nodes[id]? = none) ∨
    ∃ nd nd', g.nodes[id]? = some nd ∧ g'.nodes[id]? = some nd' ∧ NodeEqv g nd' nd
  comments : g'.comments = g.comments
  memo : g'.memo = g.memo
  toks : g'.toks = g.toks
  size : g'.input.size = g.input.size
  skip : ∀ ws, P ws → ∀ f p, skipWsFrom g'.input ws f p = skipWsFrom g.input ws f p

theorem Similar.toK {P : List Char → Prop} {g g' : Grammar} (sim : Similar P g g') : SimilarK P g g' where
  nodes := by
    intro id
    rw [sim.nodes]
    cases h : g.nodes[id]? with
    | none => exact .inl ⟨rfl, rfl⟩
    | some nd => exact .inr ⟨nd, nd, rfl, rfl, .inl rfl⟩
  comments := sim.comments
  memo := sim.memo
  toks := sim.toks
  size := sim.size
  skip := sim.skip

structure WsOk (P : List Char → Prop) (g : Grammar) : Prop where
  strip : ∀ ws, P ws → P (stripEol ws)
  node : ∀ (id : Nat) (nd : Node), g.nodes[id]? = some nd → ∀ w, nd.ws = some w → P w

def Inv (P : List Char → Prop) (s : PState) : Prop := P s.ws ∧ P s.realWs

section
variable {P : List Char → Prop}

@[simp] theorem nmRaise_ws (s : PState) (p : Nat) : (s.nmRaise p).ws = s.ws := by
  unfold PState.nmRaise; repeat' split
  all_goals rfl
@[simp] theorem nmRaise_realWs (s : PState) (p : Nat) : (s.nmRaise p).realWs = s.realWs := by
  unfold PState.nmRaise; repeat' split
  all_goals rfl

theorem Inv.of_eq {s t : PState} (h : Inv P s) (h1 : t.ws = s.ws) (h2 : t.realWs = s.realWs) : Inv P t := by
  unfold Inv at *; rw [h1, h2]; exact h

theorem Inv.nmRaise {s : PState} (h : Inv P s) (p : Nat) : Inv P (s.nmRaise p) :=
  h.of_eq (by simp) (by simp)

theorem Inv.setWs {g : Grammar} (w : WsOk P g) {s : PState} (_h : Inv P s) {v : List Char} (hv : P v) :
    Inv P (s.setWs v) := by
  unfold PState.setWs Inv; dsimp only
  refine ⟨?_, hv⟩
  split
  · exact w.strip _ hv
  · exact hv

theorem Inv.setEolterm {g : Grammar} (w : WsOk P g) {s : PState} (h : Inv P s) (b : Bool) :
    Inv P (s.setEolterm b) := by
  unfold PState.setEolterm Inv; dsimp only
  refine ⟨?_, h.2⟩
  split
  · exact w.strip _ h.1
  · exact h.2

theorem Inv.skipWs {s : PState} (h : Inv P s) (g : Grammar) : Inv P (skipWs g s) := h

theorem skipWs_congr {g g' : Grammar} (sim : SimilarK P g g') {s : PState} (h : Inv P s) :
    skipWs g' s = skipWs g s := by
  unfold Peg.skipWs
  rw [sim.size, sim.skip _ h.1]

theorem tokLen_congr {g g' : Grammar} (sim : SimilarK P g g') (t p : Nat) : tokLen g' t p = tokLen g t p := by
  unfold tokLen; rw [sim.toks]

end
end Peg

namespace Peg
section
variable {P : List Char → Prop} {g g' : Grammar}

/-- two state transformers agree on every state satisfying the invariant, and preserve it -/
def SimF (P : List Char → Prop) {α : Type} (f' f : PState → α × PState) : Prop :=
  ∀ s, Inv P s → f' s = f s ∧ Inv P (f s).2

/-- the same for sub-parsers (one transformer per child index) -/
def SimP (P : List Char → Prop) (p' p : SubParser) : Prop := ∀ e, SimF P (p' e) (p e)

/-- closes `A = A ∧ Inv …` goals -/
macro "fin " h:term : tactic => `(tactic| first | exact ⟨rfl, $h⟩ | exact ⟨trivial, $h⟩ | exact $h)

theorem cacheHit_inv {memo : Bool} {id : Nat} {s : PState} {r : Res × PState}
    (h : cacheHit memo id s = some r) (hs : Inv P s) : Inv P r.2 := by
  unfold cacheHit at h
  split at h
  · cases h; exact hs
  · cases h; exact hs
  · cases h

theorem cacheStore_inv {memo : Bool} {id : Nat} {nd : Node} {cpos : Nat} {rs : Res × PState}
    (h : Inv P rs.2) : Inv P (cacheStore memo id nd cpos rs).2 := by
  obtain ⟨r, s2⟩ := rs
  cases r <;> simp only [cacheStore] <;> (try split) <;> exact h

variable {p p' : SubParser}

theorem seqLoop_congr (h : SimP P p' p) : ∀ es acc, SimF P (fun s => seqLoop p' es s acc) (fun s => seqLoop p es s acc) := by
  intro es
  induction es with
  | nil => intro acc s hs; simp only [seqLoop]; fin hs
  | cons e es ih =>
    intro acc s hs
    simp only [seqLoop]
    obtain ⟨h1, h2⟩ := h e s hs
    rw [h1]
    generalize p e s = r at h2 ⊢
    obtain ⟨r, s2⟩ := r
    cases r
    · exact ih _ s2 h2
    all_goals fin h2

theorem choiceLoop_congr (h : SimP P p' p) : ∀ es cpos,
    SimF P (fun s => choiceLoop p' es cpos s) (fun s => choiceLoop p es cpos s) := by
  intro es
  induction es with
  | nil => intro cpos s hs; simp only [choiceLoop]; fin hs
  | cons e es ih =>
    intro cpos s hs
    simp only [choiceLoop]
    obtain ⟨h1, h2⟩ := h e s hs
    rw [h1]
    generalize p e s = r at h2 ⊢
    obtain ⟨r, s2⟩ := r
    cases r with
    | ok v =>
      cases v
      · exact ih cpos s2 h2
      all_goals fin h2
    | «nomatch» => exact ih cpos _ h2
    | fuel => fin h2
    | bad => fin h2

theorem unordFor_congr (h : SimP P p' p) : ∀ es posLoc sepExc mtch,
    SimF P (fun s => unordFor p' es posLoc s sepExc mtch) (fun s => unordFor p es posLoc s sepExc mtch) := by
  intro es
  induction es with
  | nil => intro posLoc sepExc mtch s hs; simp only [unordFor]; fin hs
  | cons e es ih =>
    intro posLoc sepExc mtch s hs
    simp only [unordFor]
    obtain ⟨h1, h2⟩ := h e s hs
    rw [h1]
    generalize p e s = r at h2 ⊢
    obtain ⟨r, s2⟩ := r
    cases r with
    | ok v =>
      dsimp only
      split
      · split
        · exact ih posLoc _ _ _ h2
        · fin h2
      · exact ih posLoc _ _ _ h2
    | «nomatch» => exact ih posLoc _ _ _ h2
    | fuel => fin h2
    | bad => fin h2

theorem repLoop_congr (h : SimP P p' p) (e : Nat) (sep : Option Nat) : ∀ k acc first prev,
    SimF P (fun s => repLoop p' e sep k s acc first prev) (fun s => repLoop p e sep k s acc first prev) := by
  intro k
  induction k with
  | zero => intro acc first prev s hs; simp only [repLoop]; fin hs
  | succ k ih =>
    intro acc first prev s hs
    -- second stage: the element after the separator stage ended in state `s1` with accumulator `acc1`
    have stage2 : ∀ (s1 : PState) (acc1 : List Val), Inv P s1 →
        (match p' e s1 with
          | (.ok v, s2) =>
              if v.truthy then repLoop p' e sep k s2 (v :: acc1) false true
              else (.ok (.list acc1.reverse), s2)
          | (.nomatch, s2) =>
              if first then (.nomatch, { s2 with pos := s.pos })
              else (.ok (.list acc1.reverse), { s2 with pos := s.pos })
          | r => r) =
        (match p e s1 with
          | (.ok v, s2) =>
              if v.truthy then repLoop p e sep k s2 (v :: acc1) false true
              else (.ok (.list acc1.reverse), s2)
          | (.nomatch, s2) =>
              if first then (.nomatch, { s2 with pos := s.pos })
              else (.ok (.list acc1.reverse), { s2 with pos := s.pos })
          | r => r) ∧
        Inv P (match p e s1 with
          | (.ok v, s2) =>
              if v.truthy then repLoop p e sep k s2 (v :: acc1) false true
              else (.ok (.list acc1.reverse), s2)
          | (.nomatch, s2) =>
              if first then (.nomatch, { s2 with pos := s.pos })
              else (.ok (.list acc1.reverse), { s2 with pos := s.pos })
          | r => r : Res × PState).2 := by
      intro s1 acc1 hs1
      obtain ⟨h1, h2⟩ := h e s1 hs1
      rw [h1]
      generalize p e s1 = r at h2 ⊢
      obtain ⟨r, s2⟩ := r
      cases r with
      | ok v =>
        dsimp only
        split
        · exact ih _ _ _ s2 h2
        · fin h2
      | «nomatch» => dsimp only; split <;> fin h2
      | fuel => fin h2
      | bad => fin h2
    simp only [repLoop]
    cases sep with
    | none => exact stage2 s acc hs
    | some sp =>
      cases prev with
      | false => exact stage2 s acc hs
      | true =>
        dsimp only
        obtain ⟨h1, h2⟩ := h sp s hs
        simp only [h1, ↓reduceIte]
        generalize p sp s = r at h2 ⊢
        obtain ⟨r, s'⟩ := r
        cases r with
        | ok v => exact stage2 s' _ h2
        | «nomatch» => dsimp only; split <;> fin h2
        | fuel => fin h2
        | bad => fin h2

theorem unordLoop_congr (h : SimP P p' p) (sep : Option Nat) : ∀ k todo acc first sepRes,
    SimF P (fun s => unordLoop p' sep k todo s acc first sepRes)
      (fun s => unordLoop p sep k todo s acc first sepRes) := by
  intro k
  induction k with
  | zero => intro todo acc first sepRes s hs; simp only [unordLoop]; fin hs
  | succ k ih =>
    intro todo acc first sepRes s hs
    cases todo with
    | nil => simp only [unordLoop]; fin hs
    | cons t ts =>
    -- second stage: the `for` loop after the separator stage
    have stage2 : ∀ (s1 : PState) (sepExc : Bool) (sepRes1 : Option Val), Inv P s1 →
        (match unordFor p' (t :: ts) s1.pos s1 sepExc true with
          | (.hit v e, s2) =>
              unordLoop p' sep k (remove (t :: ts) e) s2
                (v :: (match sepRes1 with
                  | some sv => if sv.truthy then sv :: acc else acc
                  | .none => acc)) false sepRes1
          | (.exhausted true, s2) =>
              (.ok (if acc.isEmpty then .none else .list acc.reverse), { s2 with pos := s.pos })
          | (.exhausted false, s2) => (.nomatch, { s2 with pos := s.pos })
          | (.fuel, s2) => (.fuel, s2)
          | (.bad, s2) => (.bad, s2)) =
        (match unordFor p (t :: ts) s1.pos s1 sepExc true with
          | (.hit v e, s2) =>
              unordLoop p sep k (remove (t :: ts) e) s2
                (v :: (match sepRes1 with
                  | some sv => if sv.truthy then sv :: acc else acc
                  | .none => acc)) false sepRes1
          | (.exhausted true, s2) =>
              (.ok (if acc.isEmpty then .none else .list acc.reverse), { s2 with pos := s.pos })
          | (.exhausted false, s2) => (.nomatch, { s2 with pos := s.pos })
          | (.fuel, s2) => (.fuel, s2)
          | (.bad, s2) => (.bad, s2)) ∧
        Inv P (match unordFor p (t :: ts) s1.pos s1 sepExc true with
          | (.hit v e, s2) =>
              unordLoop p sep k (remove (t :: ts) e) s2
                (v :: (match sepRes1 with
                  | some sv => if sv.truthy then sv :: acc else acc
                  | .none => acc)) false sepRes1
          | (.exhausted true, s2) =>
              (.ok (if acc.isEmpty then .none else .list acc.reverse), { s2 with pos := s.pos })
          | (.exhausted false, s2) => (.nomatch, { s2 with pos := s.pos })
          | (.fuel, s2) => (.fuel, s2)
          | (.bad, s2) => (.bad, s2) : Res × PState).2 := by
      intro s1 sepExc sepRes1 hs1
      obtain ⟨h1, h2⟩ := unordFor_congr h (t :: ts) s1.pos sepExc true s1 hs1
      dsimp only at h1 h2
      rw [h1]
      generalize unordFor p (t :: ts) s1.pos s1 sepExc true = r at h2 ⊢
      obtain ⟨r, s2⟩ := r
      cases r with
      | hit v e => exact ih _ _ _ _ s2 h2
      | exhausted m => cases m <;> fin h2
      | fuel => fin h2
      | bad => fin h2
    simp only [unordLoop]
    cases sep with
    | none => exact stage2 s false sepRes hs
    | some sp =>
      cases first with
      | true => exact stage2 s false sepRes hs
      | false =>
        dsimp only
        obtain ⟨h1, h2⟩ := h sp s hs
        simp only [h1, Bool.not_false, ↓reduceIte]
        generalize p sp s = r at h2 ⊢
        obtain ⟨r, s'⟩ := r
        cases r with
        | ok v => exact stage2 s' false (some v) h2
        | «nomatch» => exact stage2 { s' with pos := s.pos } true sepRes h2
        | fuel => fin h2
        | bad => fin h2

theorem commentsIter_congr (sim : SimilarK P g g') (h : SimP P p' p) (cm : Nat) : ∀ k,
    SimF P (commentsIter g' p' cm k) (commentsIter g p cm k) := by
  intro k
  induction k with
  | zero => intro s hs; simp only [commentsIter]; fin hs
  | succ k ih =>
    intro s hs
    simp only [commentsIter]
    obtain ⟨h1, h2⟩ := h cm s hs
    rw [h1]
    generalize p cm s = r at h2 ⊢
    obtain ⟨r, s2⟩ := r
    cases r with
    | ok v =>
      dsimp only
      rw [skipWs_congr sim h2]
      exact ih _ (by split <;> exact h2)
    | «nomatch» => fin h2
    | fuel => fin h2
    | bad => fin h2

theorem commentsLoop_congr (sim : SimilarK P g g') (h : SimP P p' p) (k : Nat) :
    SimF P (commentsLoop g' p' k) (commentsLoop g p k) := by
  intro s hs
  simp only [commentsLoop, sim.comments]
  cases g.comments with
  | none => fin hs
  | some cm => exact commentsIter_congr sim h cm k s hs

theorem matchNode_congr (sim : SimilarK P g g') {pc pc' : PState → Res × PState} (hpc : SimF P pc' pc)
    (id : Nat) (nd : Node) : SimF P (matchNode g' pc' id nd) (matchNode g pc id nd) := by
  intro s hs
  simp only [matchNode, skipWs_congr sim hs, tokLen_congr sim, sim.size]
  have hs0 : Inv P (if s.skipws = true then skipWs g s else s) := by split <;> exact hs
  generalize (if s.skipws = true then skipWs g s else s) = s0 at hs0 ⊢
  obtain ⟨c1, c2⟩ := hpc { s0 with inComments := true } hs0
  rw [c1]
  refine ⟨rfl, ?_⟩
  generalize pc { s0 with inComments := true } = rc at c2 ⊢
  obtain ⟨r, sc⟩ := rc
  -- the state after whitespace / comment skipping satisfies the invariant …
  have key : ∀ rs : Res × PState, Inv P rs.2 →
      Inv P (match rs with
        | (.ok _, s) =>
          match nd.kind with
          | .eof =>
              if g.input.size = s.pos then (.ok (if nd.suppress then .none else .term id s.pos 0), s)
              else (.nomatch, s.nmRaise s.pos)
          | .str =>
              match tokLen g nd.tok s.pos with
              | some len => (.ok (if nd.suppress then .none else .term id s.pos len), { s with pos := s.pos + len })
              | .none => (.nomatch, s.nmRaise s.pos)
          | _ =>
              match tokLen g nd.tok s.pos with
              | some len =>
                  (.ok (if nd.suppress || len = 0 then .none else .term id s.pos len), { s with pos := s.pos + len })
              | .none => (.nomatch, s.nmRaise s.pos)
        | r => r : Res × PState).2 := by
    intro rs hrs
    obtain ⟨r, s1⟩ := rs
    cases r with
    | ok v =>
      dsimp only
      split
      · split
        · exact hrs
        · exact hrs.nmRaise _
      · split
        · exact hrs
        · exact hrs.nmRaise _
      · split
        · exact hrs
        · exact hrs.nmRaise _
    | «nomatch» => exact hrs
    | fuel => exact hrs
    | bad => exact hrs
  apply key
  split
  · exact hs0
  · split
    · exact hs0
    · cases r <;> exact c2

/-- `Match.parse` does not depend on the class of a `Match` node whose token never matches empty -/
theorem matchNode_kind (g : Grammar) (pc : PState → Res × PState) (id : Nat) {nd' nd : Node} (h : NodeEqv g nd' nd)
    (s : PState) : matchNode g pc id nd' s = matchNode g pc id nd s := by
  rcases h with rfl | ⟨he, hk', hk, hz⟩
  · rfl
  · have hs : nd'.suppress = nd.suppress := by rw [he]
    have ht : nd'.tok = nd.tok := by rw [he]
    unfold matchNode
    simp only [hs, ht]
    rcases hk' with hk' | hk' <;> rcases hk with hk | hk <;> simp only [hk, hk']
    all_goals
      split
      · split
        · rename_i len hl
          have hne : len ≠ 0 := by intro h0; subst h0; exact hz _ hl
          simp [hne]
        · rfl
      · rfl

/-- state in which `withWsCtx` runs its body -/
def wsEnter (nd : Node) (s : PState) : PState :=
  let s1 := match nd.ws with | some w => s.setWs w | .none => s
  match nd.skipws with | some b => { s1 with skipws := b } | .none => s1

/-- the `finally` block of `withWsCtx` -/
def wsLeave (nd : Node) (s s2 : PState) : PState :=
  let s2 := match nd.ws with | some _ => s2.setWs s.ws | .none => s2
  match nd.skipws with | some _ => { s2 with skipws := s.skipws } | .none => s2

theorem withWsCtx_eq (nd : Node) (body : PState → Res × PState) (s : PState) :
    withWsCtx nd body s = ((body (wsEnter nd s)).1, wsLeave nd s (body (wsEnter nd s)).2) := rfl

theorem wsEnter_inv (w : WsOk P g) {nd : Node} (hnd : ∀ v, nd.ws = some v → P v) {s : PState} (hs : Inv P s) :
    Inv P (wsEnter nd s) := by
  unfold wsEnter
  cases hw : nd.ws <;> cases nd.skipws <;> first | exact hs | exact hs.setWs w (hnd _ hw)

theorem wsLeave_inv (w : WsOk P g) (nd : Node) {s s2 : PState} (hs : Inv P s) (h2 : Inv P s2) :
    Inv P (wsLeave nd s s2) := by
  unfold wsLeave
  cases nd.ws <;> cases nd.skipws <;> first | exact h2 | exact Inv.setWs w h2 hs.1

theorem withWsCtx_congr (w : WsOk P g) {nd : Node} (hnd : ∀ v, nd.ws = some v → P v)
    {body body' : PState → Res × PState} (hb : SimF P body' body) :
    SimF P (withWsCtx nd body') (withWsCtx nd body) := by
  intro s hs
  obtain ⟨h1, h2⟩ := hb _ (wsEnter_inv w hnd hs)
  rw [withWsCtx_eq, withWsCtx_eq, h1]
  exact ⟨rfl, wsLeave_inv w nd hs h2⟩

theorem withEol_congr (w : WsOk P g) (nd : Node) {body body' : PState → Res × PState} (hb : SimF P body' body) :
    SimF P (withEol nd body') (withEol nd body) := by
  intro s hs
  simp only [withEol]
  have hs1 : Inv P (if nd.eolterm = true then s.setEolterm true else s) := by
    split
    · exact hs.setEolterm w _
    · exact hs
  obtain ⟨h1, h2⟩ := hb _ hs1
  rw [h1]
  refine ⟨rfl, ?_⟩
  generalize body _ = r at h2 ⊢
  obtain ⟨r, s2⟩ := r
  dsimp only
  split
  · exact Inv.setEolterm w h2 _
  · exact h2

theorem wrap_congr (memo : Bool) (id : Nat) (nd : Node) {body body' : PState → Res × PState}
    (hb : SimF P body' body) : SimF P (wrap memo id nd body') (wrap memo id nd body) := by
  intro s hs
  simp only [wrap]
  cases hc : cacheHit memo id s with
  | some r => fin (cacheHit_inv hc hs)
  | none =>
    dsimp only
    obtain ⟨h1, h2⟩ := hb s hs
    rw [h1]
    exact ⟨rfl, cacheStore_inv h2⟩

theorem bodyNode_congr (w : WsOk P g) (h : SimP P p' p) (k : Nat) {nd : Node} (hnd : ∀ v, nd.ws = some v → P v) :
    SimF P (bodyNode p' k nd) (bodyNode p k nd) := by
  intro s hs
  -- a child call followed by a case split on its result (`opt`, `andP`, `notP`)
  have child : ∀ e, p' e s = p e s ∧ Inv P (p e s).2 := fun e => h e s hs
  simp only [bodyNode]
  split
  · -- seq
    obtain ⟨h1, h2⟩ := withWsCtx_congr w hnd (seqLoop_congr h nd.kids []) s hs
    rw [h1]
    generalize withWsCtx nd (fun s1 => seqLoop p nd.kids s1 []) s = r at h2 ⊢
    obtain ⟨r, s2⟩ := r
    cases r <;> fin h2
  · -- choice
    obtain ⟨h1, h2⟩ := withWsCtx_congr w hnd (choiceLoop_congr h nd.kids s.pos) s hs
    rw [h1]
    generalize withWsCtx nd (fun s1 => choiceLoop p nd.kids s.pos s1) s = r at h2 ⊢
    obtain ⟨r, s2⟩ := r
    cases r with
    | «nomatch» => fin (h2.nmRaise _)
    | _ => fin h2
  · -- opt
    split
    · rename_i e _
      obtain ⟨h1, h2⟩ := child e
      rw [h1]
      generalize p e s = r at h2 ⊢
      obtain ⟨r, s2⟩ := r
      cases r <;> fin h2
    · fin hs
  · -- star
    split
    · rename_i e _
      exact withEol_congr w nd (repLoop_congr h e nd.sep k [] false false) s hs
    · fin hs
  · -- plus
    split
    · rename_i e _
      exact withEol_congr w nd (repLoop_congr h e nd.sep k [] true false) s hs
    · fin hs
  · -- unord
    obtain ⟨h1, h2⟩ := withEol_congr w nd (unordLoop_congr h nd.sep k nd.kids [] true .none) s hs
    rw [h1]
    generalize withEol nd (fun s1 => unordLoop p nd.sep k nd.kids s1 [] true .none) s = r at h2 ⊢
    obtain ⟨r, s2⟩ := r
    cases r with
    | «nomatch» => fin (Inv.nmRaise (s := { s2 with pos := s.pos }) h2 _)
    | _ => fin h2
  · -- andP
    split
    · rename_i e _
      obtain ⟨h1, h2⟩ := child e
      rw [h1]
      generalize p e s = r at h2 ⊢
      obtain ⟨r, s2⟩ := r
      cases r <;> fin h2
    · fin hs
  · -- notP
    split
    · rename_i e _
      obtain ⟨h1, h2⟩ := child e
      rw [h1]
      generalize p e s = r at h2 ⊢
      obtain ⟨r, s2⟩ := r
      cases r with
      | ok v => fin (Inv.nmRaise (s := { s2 with pos := s.pos }) h2 _)
      | _ => fin h2
    · fin hs
  · fin hs

theorem nodeParse_congr (sim : SimilarK P g g') (w : WsOk P g) (h : SimP P p' p) (k : Nat) :
    SimP P (nodeParse g' p' k) (nodeParse g p k) := by
  intro id s hs
  simp only [nodeParse, sim.memo]
  rcases sim.nodes id with ⟨h1, h2⟩ | ⟨nd, nd', h1, h2, he⟩
  · rw [h1, h2]; fin hs
  · rw [h1, h2]
    dsimp only
    have hm := matchNode_congr sim (commentsLoop_congr sim h k) id nd' s hs
    rw [matchNode_kind g _ id he] at hm
    rcases he with rfl | ⟨_, hk', hk, _⟩
    · split
      · exact hm
      · exact hm
      · exact hm
      · exact wrap_congr g.memo id nd' (bodyNode_congr w h k (w.node id nd' h1)) s hs
    · rcases hk' with hk' | hk' <;> rcases hk with hk | hk <;> simp only [hk, hk'] <;> exact hm

/-- **Congruence of the interpreter.**  Parser configurations that differ only in the input text, with
equal token tables, equal input length and equal whitespace-skipping behaviour, give the same result and
the same final parser state for every node, every fuel and every start state satisfying the invariant. -/
theorem parse_congrK (sim : SimilarK P g g') (w : WsOk P g) : ∀ n, SimP P (parse g' n) (parse g n) := by
  intro n
  induction n with
  | zero => intro id s hs; exact ⟨rfl, hs⟩
  | succ n ih => exact nodeParse_congr sim w ih n

theorem parse_congr (sim : Similar P g g') (w : WsOk P g) : ∀ n, SimP P (parse g' n) (parse g n) :=
  parse_congrK sim.toK w

theorem initState_inv {skipws : Bool} {ws : List Char} (h : P ws) : Inv P (initState skipws ws) := ⟨h, h⟩

/-- the outcome of a whole parse is the same -/
theorem run_congrK (sim : SimilarK P g g') (w : WsOk P g) (top : Nat) (skipws : Bool) {ws : List Char} (hws : P ws)
    (fuel : Nat) : run g' top skipws ws fuel = run g top skipws ws fuel := by
  unfold run
  rw [(parse_congrK sim w fuel top _ (initState_inv hws)).1]

theorem run_congr (sim : Similar P g g') (w : WsOk P g) (top : Nat) (skipws : Bool) {ws : List Char} (hws : P ws)
    (fuel : Nat) : run g' top skipws ws fuel = run g top skipws ws fuel :=
  run_congrK sim.toK w top skipws hws fuel

end
end Peg
