import TextxVerif.MultRef
/-! Lemmas for `Mult.Ref`: the two lists of the resolver are the projections of one list of
(position, value) pairs kept sorted by ordered insertion. -/
namespace Mult.Ref

variable {V : Type}

/-- ordered insertion of a pair (what `resolveRef` does to the two lists at once) -/
def insP (l : List (Nat × V)) (x : Nat × V) : List (Nat × V) :=
  insertAt l (bisect (l.map (·.1)) x.1) x

theorem insP_nil (x : Nat × V) : insP [] x = [x] := rfl

theorem insP_cons (y : Nat × V) (l : List (Nat × V)) (x : Nat × V) :
    insP (y :: l) x = if y.1 ≤ x.1 then y :: insP l x else x :: y :: l := by
  unfold insP
  by_cases h : y.1 ≤ x.1 <;> simp [bisect, insertAt, h]

theorem map_insertAt {α β : Type} (f : α → β) (l : List α) (i : Nat) (x : α) :
    (insertAt l i x).map f = insertAt (l.map f) i (f x) := by
  induction l generalizing i with
  | nil => cases i <;> simp [insertAt]
  | cons y l ih => cases i <;> simp [insertAt, ih]

theorem insP_perm (l : List (Nat × V)) (x : Nat × V) : (insP l x).Perm (x :: l) := by
  induction l with
  | nil => simp [insP_nil]
  | cons y l ih =>
    rw [insP_cons]
    by_cases h : y.1 ≤ x.1
    · simp only [h, if_true]
      exact (List.Perm.cons y ih).trans (List.Perm.swap x y l)
    · simp [h]

theorem insP_sorted (l : List (Nat × V)) (x : Nat × V)
    (hl : l.Pairwise (fun a b => a.1 ≤ b.1)) : (insP l x).Pairwise (fun a b => a.1 ≤ b.1) := by
  induction l with
  | nil => simp [insP_nil]
  | cons y l ih =>
    rw [insP_cons]
    have hy := List.pairwise_cons.mp hl
    by_cases h : y.1 ≤ x.1
    · simp only [h, if_true]
      refine List.pairwise_cons.mpr ⟨?_, ih hy.2⟩
      intro z hz
      have := (insP_perm l x).subset hz
      rcases List.mem_cons.mp this with rfl | hz'
      · exact h
      · exact hy.1 z hz'
    · simp only [h, if_false]
      have hxy : x.1 ≤ y.1 := by omega
      refine List.pairwise_cons.mpr ⟨?_, hl⟩
      intro z hz
      rcases List.mem_cons.mp hz with rfl | hz'
      · exact hxy
      · exact Nat.le_trans hxy (hy.1 z hz')

/-- the pair list behind the resolver state -/
def pairs (sched : List (Nat × V)) : List (Nat × V) := sched.foldl insP []

theorem foldl_resolve (sched : List (Nat × V)) (l : List (Nat × V)) :
    sched.foldl (fun st r => resolveRef st r.1 r.2) { positions := l.map (·.1), vals := l.map (·.2) }
      = { positions := (sched.foldl insP l).map (·.1), vals := (sched.foldl insP l).map (·.2) } := by
  induction sched generalizing l with
  | nil => rfl
  | cons r sched ih =>
    simp only [List.foldl_cons]
    have : resolveRef { positions := l.map (·.1), vals := l.map (·.2) } r.1 r.2
        = { positions := (insP l r).map (·.1), vals := (insP l r).map (·.2) } := by
      simp [resolveRef, insP, map_insertAt]
    rw [this, ih]

theorem resolveAll_pairs (sched : List (Nat × V)) :
    resolveAll sched = { positions := (pairs sched).map (·.1), vals := (pairs sched).map (·.2) } := by
  have := foldl_resolve sched ([] : List (Nat × V))
  simpa [resolveAll, pairs] using this

theorem foldl_insP_perm (sched l : List (Nat × V)) : (sched.foldl insP l).Perm (l ++ sched) := by
  induction sched generalizing l with
  | nil => simp
  | cons r sched ih =>
    simp only [List.foldl_cons]
    refine (ih (insP l r)).trans ?_
    have h1 : (insP l r ++ sched).Perm ((r :: l) ++ sched) := List.Perm.append_right sched (insP_perm l r)
    refine h1.trans ?_
    simpa using (List.perm_middle (a := r) (l₁ := l) (l₂ := sched)).symm

theorem foldl_insP_sorted (sched l : List (Nat × V)) (hl : l.Pairwise (fun a b => a.1 ≤ b.1)) :
    (sched.foldl insP l).Pairwise (fun a b => a.1 ≤ b.1) := by
  induction sched generalizing l with
  | nil => simpa using hl
  | cons r sched ih => exact ih _ (insP_sorted l r hl)

/-- Whatever the order of resolution: the pair list is the references in input order. -/
theorem pairs_eq (refs sched : List (Nat × V)) (hs : refs.Pairwise (fun a b => a.1 < b.1))
    (hp : sched.Perm refs) : pairs sched = refs := by
  have h1 : (pairs sched).Perm refs := by
    have := foldl_insP_perm sched ([] : List (Nat × V))
    exact (by simpa [pairs] using this : (pairs sched).Perm sched).trans hp
  have h2 : (pairs sched).Pairwise (fun a b => a.1 ≤ b.1) :=
    foldl_insP_sorted sched [] List.Pairwise.nil
  have h3 : refs.Pairwise (fun a b => a.1 ≤ b.1) := hs.imp (fun h => Nat.le_of_lt h)
  refine List.Perm.eq_of_pairwise (le := fun a b => a.1 ≤ b.1) ?_ h2 h3 h1
  intro a b ha hb hab hba
  have ha' : a ∈ refs := h1.subset ha
  -- two members of `refs` with the same position are the same member
  have key : ∀ (l : List (Nat × V)), l.Pairwise (fun a b => a.1 < b.1) → ∀ a b, a ∈ l → b ∈ l → a.1 = b.1 → a = b := by
    intro l hl
    induction l with
    | nil => intro a b ha; cases ha
    | cons y l ih =>
      have hy := List.pairwise_cons.mp hl
      intro a b ha hb e
      rcases List.mem_cons.mp ha with rfl | ha' <;> rcases List.mem_cons.mp hb with rfl | hb'
      · rfl
      · have := hy.1 b hb'; omega
      · have := hy.1 a ha'; omega
      · exact ih hy.2 a b ha' hb' e
  exact key refs hs a b ha' hb (by omega)

end Mult.Ref

namespace Mult.Ref

variable {V : Type}

theorem filter_split (n : Nat) (refs : List (Nat × Nat × V)) :
    ((refs.filter fun r => decide (r.1 ≤ n + 1)).map (·.2)).Perm
      ((refs.filter fun r => decide (r.1 ≤ n)).map (·.2) ++ (refs.filter fun r => r.1 == n + 1).map (·.2)) := by
  induction refs with
  | nil => simp
  | cons r refs ih =>
    by_cases h1 : r.1 ≤ n
    · have h2 : r.1 ≤ n + 1 := by omega
      have h3 : (r.1 == n + 1) = false := by simp; omega
      simp only [List.filter_cons, h1, h2, h3, decide_true, if_true, List.map_cons, List.cons_append]
      exact List.Perm.cons _ ih
    · by_cases h2 : r.1 = n + 1
      · have h4 : r.1 ≤ n + 1 := by omega
        have h3 : (r.1 == n + 1) = true := by simp [h2]
        simp only [List.filter_cons, h1, h4, h3, decide_true, decide_false, if_true, List.map_cons]
        refine (List.Perm.cons _ ih).trans ?_
        exact List.perm_middle.symm
      · have h4 : ¬ r.1 ≤ n + 1 := by omega
        have h3 : (r.1 == n + 1) = false := by simp; omega
        simp only [List.filter_cons, h1, h4, h3, decide_false]
        simpa using ih

theorem scheduleOf_perm_le (n : Nat) (refs : List (Nat × Nat × V)) :
    (scheduleOf n refs).Perm ((refs.filter fun r => decide (r.1 ≤ n)).map (·.2)) := by
  induction n with
  | zero =>
    have : (fun r : Nat × Nat × V => r.1 == 0) = (fun r => decide (r.1 ≤ 0)) := by
      funext r; rcases r with ⟨d, x⟩; cases d <;> simp
    simp [scheduleOf, List.range_succ, this]
  | succ n ih =>
    have e : scheduleOf (n + 1) refs = scheduleOf n refs ++ (refs.filter fun r => r.1 == n + 1).map (·.2) := by
      simp [scheduleOf, List.range_succ (n := n + 1), List.flatMap_append]
    rw [e]
    exact (List.Perm.append_right _ ih).trans (filter_split n refs).symm

/-- every reference is resolved exactly once, in some order -/
theorem scheduleOf_perm (n : Nat) (refs : List (Nat × Nat × V)) (h : ∀ r ∈ refs, r.1 ≤ n) :
    (scheduleOf n refs).Perm (refs.map (·.2)) := by
  have := scheduleOf_perm_le n refs
  have e : (refs.filter fun r => decide (r.1 ≤ n)) = refs :=
    List.filter_eq_self.mpr (by intro r hr; simpa using h r hr)
  rwa [e] at this

end Mult.Ref
