import TextxVerif.Dot
/-! Lemmas on `dot_escape` / `dot_repr`: the replace chain is a per-character map, and its
image is safe inside quoted strings and record fields. -/
namespace Dot

/-! ### the replace chain as a per-character map -/

theorem replace1_flatMap (c : Char) (n : Str) (s : List α) (f : α → Str) :
    replace1 c n (s.flatMap f) = s.flatMap (fun x => replace1 c n (f x)) := by
  simp [replace1, List.flatMap_assoc]

theorem applyPairs_flatMap (ps : List (Char × Str)) (s : List α) (f : α → Str) :
    applyPairs ps (s.flatMap f) = s.flatMap (fun x => applyPairs ps (f x)) := by
  induction ps generalizing f with
  | nil => simp [applyPairs]
  | cons p ps ih =>
    simp only [applyPairs, List.foldl_cons] at ih ⊢
    rw [replace1_flatMap]
    exact ih _

/-- what `dot_escape` does to one character -/
def escChar (c : Char) : Str := applyPairs Gen.Dot.escapePairs [c]

theorem dotEscape_eq_flatMap (s : Str) : dotEscape s = s.flatMap escChar := by
  have h : s = s.flatMap (fun x => [x]) := by simp
  conv => lhs; rw [h]
  exact applyPairs_flatMap _ _ _

theorem dotEscape_append (a b : Str) : dotEscape (a ++ b) = dotEscape a ++ dotEscape b := by
  simp [dotEscape_eq_flatMap]

theorem applyPairs_not_old (ps : List (Char × Str)) (c : Char) (h : c ∉ ps.map (·.1)) :
    applyPairs ps [c] = [c] := by
  induction ps with
  | nil => simp [applyPairs]
  | cons p ps ih =>
    simp only [List.map_cons, List.mem_cons, not_or] at h
    simp only [applyPairs, List.foldl_cons] at ih ⊢
    have : replace1 p.1 p.2 [c] = [c] := by simp [replace1, h.1]
    rw [this]; exact ih h.2

/-! ### `scan` -/

theorem scan_append (bad : Char → Bool) (e : Bool) (a b : Str) :
    scan bad e (a ++ b) = (scan bad e a).bind (fun e' => scan bad e' b) := by
  induction a generalizing e with
  | nil => simp [scan]
  | cons c cs ih =>
    cases e
    · simp only [List.cons_append, scan]
      split
      · exact ih _
      · split
        · simp
        · exact ih _
    · simp only [List.cons_append, scan]; exact ih _

theorem scan_mono (bad bad' : Char → Bool) (hb : ∀ c, bad' c = true → bad c = true) (e e' : Bool) (s : Str)
    (h : scan bad e s = some e') : scan bad' e s = some e' := by
  induction s generalizing e with
  | nil => simpa [scan] using h
  | cons c cs ih =>
    cases e
    · simp only [scan] at h ⊢
      split
      · rename_i hc; simp only [hc, if_true] at h; exact ih _ h
      · rename_i hc
        simp only [hc, if_false] at h
        by_cases hbad : bad c = true
        · simp [hbad] at h
        · have : bad' c = false := by
            cases hx : bad' c
            · rfl
            · exact absurd (hb c hx) hbad
          simp only [this]
          simp only [hbad] at h
          exact ih _ h
    · simp only [scan] at h ⊢; exact ih _ h

theorem Safe.qsafe {s : Str} (h : Safe s) : QSafe s :=
  scan_mono isSpecial isQuote (by intro c hc; simp [isQuote] at hc; simp [isSpecial, hc]) _ _ _ h

theorem Safe.append {a b : Str} (ha : Safe a) (hb : Safe b) : Safe (a ++ b) := by
  unfold Safe at *; rw [scan_append, ha]; exact hb

theorem QSafe.append {a b : Str} (ha : QSafe a) (hb : QSafe b) : QSafe (a ++ b) := by
  unfold QSafe at *; rw [scan_append, ha]; exact hb

theorem Safe.nil : Safe [] := rfl

theorem Safe.cons {c : Char} {s : Str} (hc : Safe [c]) (hs : Safe s) : Safe (c :: s) :=
  Safe.append (a := [c]) hc hs

theorem Safe.flatMap {l : List α} {f : α → Str} (h : ∀ x ∈ l, Safe (f x)) : Safe (l.flatMap f) := by
  induction l with
  | nil => exact Safe.nil
  | cons x xs ih =>
    rw [List.flatMap_cons]
    exact Safe.append (h x (by simp)) (ih (fun y hy => h y (by simp [hy])))

/-- a prefix of a scannable fragment is scannable (it may end inside an escape) -/
theorem scan_take (bad : Char → Bool) (e : Bool) (s : Str) (n : Nat) (h : (scan bad e s).isSome) :
    (scan bad e (s.take n)).isSome := by
  induction s generalizing e n with
  | nil => simp [scan]
  | cons c cs ih =>
    cases n with
    | zero => simp [scan]
    | succ n =>
      cases e
      · simp only [scan, List.take_succ_cons] at h ⊢
        split
        · rename_i hc; simp only [hc, if_true] at h; exact ih _ _ h
        · rename_i hc
          simp only [hc, if_false] at h
          split
          · rename_i hb; simp [hb] at h
          · rename_i hb; simp only [hb] at h; exact ih _ _ h
      · simp only [scan, List.take_succ_cons] at h ⊢; exact ih _ _ h

/-! ### the generated table is safe -/

def specials : List Char := ['"', '{', '}', '|', '<', '>', '\\']

/-- checked by evaluation on the regenerated table: every special character (and the
backslash) is replaced, and every replacement is a safe fragment -/
theorem table_ok :
    (specials.all fun c => Gen.Dot.escapePairs.any (·.1 = c)) = true ∧
      ((Gen.Dot.escapePairs.map (·.1)).all fun c => decide (Safe (escChar c))) = true := by
  decide

theorem escChar_safe (c : Char) : Safe (escChar c) := by
  by_cases hc : c ∈ Gen.Dot.escapePairs.map (·.1)
  · have := table_ok.2
    rw [List.all_eq_true] at this
    simpa using this c hc
  · have h1 : escChar c = [c] := applyPairs_not_old _ c hc
    have hs := table_ok.1
    rw [List.all_eq_true] at hs
    have hne : ∀ d ∈ specials, c ≠ d := by
      intro d hd hcd
      have := hs d hd
      rw [List.any_eq_true] at this
      obtain ⟨p, hp, hpd⟩ := this
      apply hc
      simp only [List.mem_map]
      exact ⟨p, hp, by simpa [hcd] using hpd⟩
    rw [h1]
    have hbs : c ≠ '\\' := hne _ (by simp [specials])
    have hsp : isSpecial c = false := by
      simp only [isSpecial, Bool.or_eq_false_iff, decide_eq_false_iff_not]
      refine ⟨⟨⟨⟨⟨?_, ?_⟩, ?_⟩, ?_⟩, ?_⟩, ?_⟩ <;> exact hne _ (by simp [specials])
    simp [Safe, scan, hbs, hsp]

theorem dotEscape_safe (s : Str) : Safe (dotEscape s) := by
  rw [dotEscape_eq_flatMap]
  exact Safe.flatMap (fun c _ => escChar_safe c)

/-- the delimiters of `dot_repr`: the opening ones are safe fragments, the closing ones
bring the scan back to the unescaped state from either state (the truncation may have
cut an escape sequence in two) -/
theorem repr_delims_ok :
    Safe Gen.Dot.reprOpenLong ∧ Safe Gen.Dot.reprOpenShort ∧ Safe Gen.Dot.reprCloseShort ∧
      scan isSpecial false Gen.Dot.reprCloseLong = some false ∧
      scan isSpecial true Gen.Dot.reprCloseLong = some false := by
  decide

theorem dotRepr_safe (s : Str) : Safe (dotRepr s) := by
  obtain ⟨h1, h2, h3, h4, h5⟩ := repr_delims_ok
  unfold dotRepr
  simp only
  split
  · have hs : (scan isSpecial false (dotEscape s)).isSome := by rw [dotEscape_safe s]; rfl
    have ht := scan_take isSpecial false (dotEscape s) Gen.Dot.reprTake hs
    obtain ⟨b, hb⟩ := Option.isSome_iff_exists.mp ht
    show scan isSpecial false _ = some false
    rw [scan_append, scan_append, h1, Option.bind_some, hb, Option.bind_some]
    cases b
    · exact h4
    · exact h5
  · exact Safe.append (Safe.append h2 (dotEscape_safe s)) h3

/-- `dot_escape` leaves no newline (PlantUML legend rows stay on one line) -/
theorem table_no_newline :
    (Gen.Dot.escapePairs.any (·.1 = '\n')) = true ∧
      ((Gen.Dot.escapePairs.map (·.1)).all fun c => (escChar c).all (· ≠ '\n')) = true := by
  decide

theorem dotEscape_no_newline (s : Str) : ∀ c ∈ dotEscape s, c ≠ '\n' := by
  rw [dotEscape_eq_flatMap]
  intro c hc
  rw [List.mem_flatMap] at hc
  obtain ⟨x, _, hx⟩ := hc
  by_cases hxo : x ∈ Gen.Dot.escapePairs.map (·.1)
  · have := table_no_newline.2
    rw [List.all_eq_true] at this
    have := this x hxo
    rw [List.all_eq_true] at this
    simpa using this c hx
  · rw [escChar, applyPairs_not_old _ x hxo] at hx
    simp only [List.mem_singleton] at hx
    subst hx
    intro hn
    apply hxo
    have := table_no_newline.1
    rw [List.any_eq_true] at this
    obtain ⟨p, hp, hpd⟩ := this
    simp only [List.mem_map]
    exact ⟨p, hp, by simpa [hn] using hpd⟩

/-! ### `html.escape` leaves no angle bracket -/

theorem htmlEscape_noAngle (s : Str) : NoAngle (htmlEscape s) := by
  intro c hc
  simp only [htmlEscape, List.mem_flatMap] at hc
  obtain ⟨x, _, hx⟩ := hc
  unfold htmlEscChar at hx
  split at hx
  · revert c; decide
  · split at hx
    · revert c; decide
    · split at hx
      · revert c; decide
      · split at hx
        · revert c; decide
        · split at hx
          · revert c; decide
          · simp only [List.mem_singleton] at hx
            subst hx
            constructor <;> assumption

end Dot
