import TextxVerif.LinkLoc
/-! Helper lemmas for `LinkLoc` (C28, C34): line/column computation, the resolution loop invariants. -/
namespace LinkLoc

/-! ## line / column -/

theorem lineEndsFrom_ge : ∀ (s : List Char) (i x : Nat), x ∈ lineEndsFrom i s → i ≤ x := by
  intro s
  induction s with
  | nil => intro i x h; simp [lineEndsFrom] at h
  | cons c cs ih =>
    intro i x h
    simp only [lineEndsFrom] at h
    split at h
    · rcases List.mem_cons.1 h with rfl | h
      · exact Nat.le_refl _
      · have := ih (i + 1) x h; omega
    · have := ih (i + 1) x h; omega

/-- every recorded line end is the offset of a newline -/
theorem lineEndsFrom_nl : ∀ (s : List Char) (i x : Nat), x ∈ lineEndsFrom i s →
    ∃ j, x = i + j ∧ s[j]? = some '\n' := by
  intro s
  induction s with
  | nil => intro i x h; simp [lineEndsFrom] at h
  | cons c cs ih =>
    intro i x h
    simp only [lineEndsFrom] at h
    split at h
    · rename_i hc
      rcases List.mem_cons.1 h with rfl | h
      · exact ⟨0, by simp, by simp [hc]⟩
      · obtain ⟨j, hj, hs⟩ := ih (i + 1) x h
        exact ⟨j + 1, by omega, by simpa using hs⟩
    · obtain ⟨j, hj, hs⟩ := ih (i + 1) x h
      exact ⟨j + 1, by omega, by simpa using hs⟩

theorem bisectLeft_le_length : ∀ (xs : List Nat) (p : Nat), bisectLeft xs p ≤ xs.length := by
  intro xs
  induction xs with
  | nil => intro p; simp [bisectLeft]
  | cons x xs ih =>
    intro p
    simp only [bisectLeft]
    split
    · have := ih p; simp; omega
    · simp

theorem bisectLeft_zero_of_ge : ∀ (xs : List Nat) (p : Nat), (∀ x ∈ xs, p ≤ x) → bisectLeft xs p = 0 := by
  intro xs p h
  cases xs with
  | nil => rfl
  | cons x xs =>
    have := h x (by simp)
    simp only [bisectLeft]
    split
    · omega
    · rfl

/-- the element in front of the insertion point is smaller than `p` -/
theorem bisectLeft_prev_lt : ∀ (xs : List Nat) (p : Nat), 0 < bisectLeft xs p →
    xs.getD (bisectLeft xs p - 1) 0 < p ∧ xs.getD (bisectLeft xs p - 1) 0 ∈ xs := by
  intro xs
  induction xs with
  | nil => intro p h; simp [bisectLeft] at h
  | cons x xs ih =>
    intro p h
    simp only [bisectLeft] at h ⊢
    split
    · rename_i hx
      by_cases h0 : bisectLeft xs p = 0
      · simp [h0, hx]
      · have hpos : 0 < bisectLeft xs p := Nat.pos_of_ne_zero h0
        obtain ⟨h1, h2⟩ := ih p hpos
        have e : bisectLeft xs p + 1 - 1 = (bisectLeft xs p - 1) + 1 := by omega
        rw [e]
        simp only [List.getD_cons_succ]
        exact ⟨h1, List.mem_cons_of_mem _ h2⟩
    · rename_i hx; simp [hx] at h

/-- the heart of `pos_to_linecol`: reading `n` characters of `s` (which starts at
offset `i`) from `(l, k)` ends on the line counted by `bisect_left` and at the
distance from the last line end before `i + n`. -/
theorem walk_lineEnds : ∀ (s : List Char) (i n l k : Nat), n ≤ s.length →
    walk s n (l, k) =
      (if bisectLeft (lineEndsFrom i s) (i + n) = 0 then (l, k + n)
       else (l + bisectLeft (lineEndsFrom i s) (i + n),
             i + n - (lineEndsFrom i s).getD (bisectLeft (lineEndsFrom i s) (i + n) - 1) 0)) := by
  intro s
  induction s with
  | nil =>
    intro i n l k hn
    have : n = 0 := by simpa using hn
    subst this
    simp [walk, lineEndsFrom, bisectLeft]
  | cons c cs ih =>
    intro i n l k hn
    cases n with
    | zero =>
      have h0 : bisectLeft (lineEndsFrom i (c :: cs)) i = 0 :=
        bisectLeft_zero_of_ge _ _ (fun x hx => lineEndsFrom_ge _ _ _ hx)
      simp [walk, h0]
    | succ n =>
      have hn' : n ≤ cs.length := by simpa using hn
      have e1 : i + (n + 1) = (i + 1) + n := by omega
      by_cases hc : c = '\n'
      · subst hc
        have hlt : i < i + 1 + n := by omega
        simp only [walk, lineEndsFrom, if_true, bisectLeft, e1, hlt]
        rw [ih (i + 1) n (l + 1) 1 hn']
        by_cases h0 : bisectLeft (lineEndsFrom (i + 1) cs) (i + 1 + n) = 0
        · simp only [h0, if_true]
          simp
          omega
        · have hpos : 0 < bisectLeft (lineEndsFrom (i + 1) cs) (i + 1 + n) := Nat.pos_of_ne_zero h0
          have e2 : bisectLeft (lineEndsFrom (i + 1) cs) (i + 1 + n) + 1 - 1
              = (bisectLeft (lineEndsFrom (i + 1) cs) (i + 1 + n) - 1) + 1 := by omega
          simp only [h0, if_false, e2, List.getD_cons_succ]
          simp
          omega
      · simp only [walk, lineEndsFrom, hc, if_false, e1]
        rw [ih (i + 1) n l (k + 1) hn']
        by_cases h0 : bisectLeft (lineEndsFrom (i + 1) cs) (i + 1 + n) = 0
        · simp only [h0, if_true]
          simp
          omega
        · simp only [h0, if_false]

/-- `pos_to_linecol` computes the line and column of the offset -/
theorem posToLineCol_spec (input : List Char) (pos : Nat) (h : pos ≤ input.length) :
    posToLineCol input pos = ((lineColSpec input pos).1, ((lineColSpec input pos).2 : Int)) := by
  have hw := walk_lineEnds input 0 pos 1 1 h
  simp only [Nat.zero_add] at hw
  unfold lineColSpec
  rw [hw]
  unfold posToLineCol lineEnds
  by_cases h0 : bisectLeft (lineEndsFrom 0 input) pos = 0
  · simp [h0]; omega
  · have hpos : 0 < bisectLeft (lineEndsFrom 0 input) pos := Nat.pos_of_ne_zero h0
    obtain ⟨hlt, hmem⟩ := bisectLeft_prev_lt _ _ hpos
    obtain ⟨j, hj, hs⟩ := lineEndsFrom_nl _ _ _ hmem
    simp only [Nat.zero_add] at hj
    have hget : input.getD ((lineEndsFrom 0 input).getD (bisectLeft (lineEndsFrom 0 input) pos - 1) 0) ' ' = '\n' := by
      rw [hj, List.getD_eq_getElem?_getD, hs]; rfl
    simp only [h0, if_false, hpos, if_true, hget, true_or]
    refine Prod.ext (by simp; omega) ?_
    simp only
    omega

/-! the specification identifies the offset: `walk` is strictly increasing in the
lexicographic order of `(line, col)` -/

def lexLt (a b : Nat × Nat) : Prop := a.1 < b.1 ∨ (a.1 = b.1 ∧ a.2 < b.2)

theorem walk_mono_start : ∀ (s : List Char) (n : Nat) (a : Nat × Nat),
    a = walk s n a ∨ lexLt a (walk s n a) := by
  intro s
  induction s with
  | nil => intro n a; cases n <;> simp [walk]
  | cons c cs ih =>
    intro n a
    cases n with
    | zero => simp [walk]
    | succ n =>
      obtain ⟨l, k⟩ := a
      simp only [walk]
      split
      · rcases ih n (l + 1, 1) with h | h
        · right; rw [← h]; left; simp
        · right; rcases h with h | ⟨h1, h2⟩
          · left; simp at h ⊢; omega
          · left; simp at h1 ⊢; omega
      · rcases ih n (l, k + 1) with h | h
        · right; rw [← h]; right; simp
        · right; rcases h with h | ⟨h1, h2⟩
          · left; simpa using h
          · right; simp at h1 h2 ⊢; omega

theorem walk_lt : ∀ (s : List Char) (p q : Nat) (a : Nat × Nat), p < q → q ≤ s.length →
    lexLt (walk s p a) (walk s q a) := by
  intro s
  induction s with
  | nil => intro p q a hpq hq; simp at hq; omega
  | cons c cs ih =>
    intro p q a hpq hq
    obtain ⟨l, k⟩ := a
    cases q with
    | zero => omega
    | succ q =>
      have hq' : q ≤ cs.length := by simpa using hq
      cases p with
      | zero =>
        simp only [walk]
        split
        · rcases walk_mono_start cs q (l + 1, 1) with h | h
          · rw [← h]; left; simp
          · rcases h with h | ⟨h1, h2⟩
            · left; simp at h ⊢; omega
            · left; simp at h1 ⊢; omega
        · rcases walk_mono_start cs q (l, k + 1) with h | h
          · rw [← h]; right; simp
          · rcases h with h | ⟨h1, h2⟩
            · left; simpa using h
            · right; simp at h1 h2 ⊢; omega
      | succ p =>
        simp only [walk]
        split
        · exact ih p q _ (by omega) hq'
        · exact ih p q _ (by omega) hq'

theorem lineColSpec_injective (input : List Char) (p q : Nat) (hp : p ≤ input.length)
    (hq : q ≤ input.length) (h : lineColSpec input p = lineColSpec input q) : p = q := by
  unfold lineColSpec at h
  rcases Nat.lt_trichotomy p q with hlt | heq | hgt
  · have := walk_lt input p q (1, 1) hlt hq
    rw [h] at this
    rcases this with h1 | ⟨_, h2⟩ <;> omega
  · exact heq
  · have := walk_lt input q p (1, 1) hgt hp
    rw [h] at this
    rcases this with h1 | ⟨_, h2⟩ <;> omega

end LinkLoc
