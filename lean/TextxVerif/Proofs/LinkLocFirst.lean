import TextxVerif.Proofs.LinkLocLoop
import TextxVerif.LinkLocSpec
/-!
Exact description of the pending cross-references of the resolution loop of
`LinkLoc` (C28): after `k` rounds the parser of a model holds exactly those
references of its file, in text order, that were answered "postponed" in every
round so far; all the others were resolved.  From it: which reference the
"Unresolvable cross references" error is located at (the first one in load
order that is postponed through the last round), in which round the loop gives
up, and the converse (such answers always end in that error).
-/
namespace LinkLoc

/-! ## small list facts -/

theorem sum_pos_iff {α : Type} (F : α → Nat) : ∀ (l : List α), 0 < (l.map F).sum ↔ ∃ a ∈ l, 0 < F a
  | [] => by simp
  | a :: l => by
    simp only [List.map_cons, List.sum_cons, List.mem_cons, exists_eq_or_imp]
    rw [← sum_pos_iff F l]
    omega

theorem sum_zero_iff {α : Type} (F : α → Nat) (l : List α) : (l.map F).sum = 0 ↔ ∀ a ∈ l, F a = 0 := by
  constructor
  · intro h a ha
    apply Classical.byContradiction
    intro hne
    have := (sum_pos_iff F l).2 ⟨a, ha, by omega⟩
    omega
  · intro h
    have : ¬ 0 < (l.map F).sum := by
      rw [sum_pos_iff]
      rintro ⟨a, ha, hp⟩
      have := h a ha; omega
    omega

theorem filter_length_pos {α : Type} (p : α → Bool) (l : List α) : 0 < (l.filter p).length ↔ ∃ a ∈ l, p a = true := by
  rw [List.length_pos_iff_exists_mem]
  constructor
  · rintro ⟨a, ha⟩
    exact ⟨a, (List.mem_filter.1 ha).1, (List.mem_filter.1 ha).2⟩
  · rintro ⟨a, ha, hp⟩
    exact ⟨a, List.mem_filter.2 ⟨ha, hp⟩⟩

theorem All2.exists_left {α β : Type} {R : α → β → Prop} : ∀ {as : List α} {bs : List β},
    All2 R as bs → ∀ a ∈ as, ∃ b ∈ bs, R a b
  | _, _, .nil => by simp
  | _, _, .cons hab t => by
    intro a ha
    rcases List.mem_cons.1 ha with rfl | ha
    · exact ⟨_, by simp, hab⟩
    · obtain ⟨b, hb, hr⟩ := All2.exists_left t a ha
      exact ⟨b, List.mem_cons_of_mem _ hb, hr⟩

/-! ## "postponed so far" -/

theorem pendB_iff (ans : Nat → Nat → Answer) (id : Nat) :
    ∀ k, pendB ans k id = true ↔ ∀ j < k, ans j id = .postponed := by
  intro k
  induction k with
  | zero => simp [pendB]
  | succ k ih =>
    simp only [pendB, Bool.and_eq_true, decide_eq_true_eq, ih]
    constructor
    · rintro ⟨h1, h2⟩ j hj
      by_cases hjk : j < k
      · exact h1 j hjk
      · have : j = k := by omega
        subst this; exact h2
    · intro h
      exact ⟨fun j hj => h j (by omega), h k (by omega)⟩

/-- number of references of `f` resolved in round `k` (pending before it, not after it) -/
def resolvedNow (ans : Nat → Nat → Answer) (k : Nat) (f : FileSpec) : Nat :=
  (f.refs.filter (fun r => pendB ans k r.id && !pendB ans (k + 1) r.id)).length

/-- number of references of `f` still pending after `k` rounds -/
def pendingCount (ans : Nat → Nat → Answer) (k : Nat) (f : FileSpec) : Nat :=
  (f.refs.filter (fun r => pendB ans k r.id)).length

/-- `q` was resolved in a round before `K`: its first answer other than "postponed"
came in a round `j < K` and was an object -/
def ResolvedBefore (ans : Nat → Nat → Answer) (K : Nat) (q : RefSpec) : Prop :=
  ∃ j < K, ∃ t, FirstAnswer ans q.id j (.resolved t)

/-- `q` was answered "postponed" in every round up to and including `K` -/
def PostponedThrough (ans : Nat → Nat → Answer) (K : Nat) (q : RefSpec) : Prop :=
  ∀ j ≤ K, ans j q.id = .postponed

/-- some reference was resolved in round `j` (the loop's `resolved_count > 0`) -/
def Progress (files : List FileSpec) (ans : Nat → Nat → Answer) (j : Nat) : Prop :=
  ∃ g ∈ files, ∃ q ∈ g.refs, ∃ t, FirstAnswer ans q.id j (.resolved t)

/-- the loop runs the rounds `0 … K` and gives up after round `K`: every reference
was either resolved in a round before `K` or is still postponed in round `K`
(so round `K` resolves nothing), and each round before `K` resolved something -/
def GaveUpAt (files : List FileSpec) (ans : Nat → Nat → Answer) (K : Nat) : Prop :=
  (∀ g ∈ files, ∀ q ∈ g.refs, ResolvedBefore ans K q ∨ PostponedThrough ans K q) ∧
  (∀ j < K, Progress files ans j)

/-- `r`, written in file `f`, is the first reference in load order (files in load
order, references in text order) that is postponed through round `K`: all
references of earlier files and all earlier references of `f` were resolved -/
def FirstUnresolvable (files : List FileSpec) (ans : Nat → Nat → Answer) (K : Nat) (f : FileSpec)
    (r : RefSpec) : Prop :=
  ∃ pre post r1 r2, files = pre ++ f :: post ∧ f.refs = r1 ++ r :: r2 ∧ PostponedThrough ans K r ∧
    (∀ g ∈ pre, ∀ q ∈ g.refs, ResolvedBefore ans K q) ∧ (∀ q ∈ r1, ResolvedBefore ans K q)

theorem postponedThrough_iff (ans : Nat → Nat → Answer) (K : Nat) (q : RefSpec) :
    PostponedThrough ans K q ↔ pendB ans (K + 1) q.id = true := by
  rw [pendB_iff]
  constructor
  · intro h j hj; exact h j (by omega)
  · intro h j hj; exact h j (by omega)

theorem firstAnswer_resolved_pend (ans : Nat → Nat → Answer) (id j : Nat) (t : Target)
    (h : FirstAnswer ans id j (.resolved t)) : pendB ans j id = true ∧ pendB ans (j + 1) id = false := by
  refine ⟨(pendB_iff ans id j).2 h.2, ?_⟩
  simp [pendB, h.1]

/-! ## the exact invariant -/

structure Exact (ans : Nat → Nat → Answer) (k : Nat) (f : FileSpec) (m : MRec) : Prop where
  fname : m.filename = f.name
  ptext : m.parser.input = f.text
  cr : m.crossrefs = (f.refs.filter (fun r => pendB ans k r.id)).map (mkXRef m.idx m.parser)
  done : ∀ r ∈ f.refs, pendB ans k r.id = false → ∃ j < k, ∃ t, FirstAnswer ans r.id j (.resolved t)

theorem parseFile_exact (ans : Nat → Nat → Answer) (i : Nat) (f : FileSpec) (m : MRec)
    (h : parseFile i f = .ok m) : Exact ans 0 f m := by
  unfold parseFile at h
  split at h
  · cases h
  · injection h with h
    subst h
    refine ⟨rfl, rfl, ?_, ?_⟩
    · have : f.refs.filter (fun _ => true) = f.refs := List.filter_eq_self.2 (by simp)
      simp [pendB, this]
    · intro r _ hr; simp [pendB] at hr

theorem loadFrom_exact (ans : Nat → Nat → Answer) : ∀ (files : List FileSpec) (i : Nat) (ms : List MRec),
    loadFrom i files = .ok ms → All2 (fun f m => Exact ans 0 f m) files ms := by
  intro files
  induction files with
  | nil =>
    intro i ms h
    simp only [loadFrom] at h
    injection h with h; subst h
    exact All2.nil
  | cons f fs ih =>
    intro i ms h
    simp only [loadFrom] at h
    split at h
    · cases h
    · rename_i m hm
      split at h
      · cases h
      · rename_i ms' hms
        injection h with h; subst h
        exact All2.cons (parseFile_exact ans i f m hm) (ih _ _ hms)

/-- a file list without recorded parse failure loads -/
theorem loadFrom_total : ∀ (files : List FileSpec) (i : Nat), (∀ f ∈ files, f.nm = none) →
    ∃ ms, loadFrom i files = .ok ms := by
  intro files
  induction files with
  | nil => intro i _; exact ⟨[], rfl⟩
  | cons f fs ih =>
    intro i h
    obtain ⟨ms, hms⟩ := ih (i + 1) (fun g hg => h g (List.mem_cons_of_mem _ hg))
    have hf : f.nm = none := h f (by simp)
    simp only [loadFrom, parseFile, hf, hms]
    exact ⟨_, rfl⟩

/-! ## one pass, exactly -/

/-- a successful pass over the pending references of a file keeps exactly those
answered "postponed" in this round, counts the others, and the others were resolved -/
theorem stepRefs_exact (ans : Nat → Nat → Answer) (k : Nat) (m : MRec) (p : PInfo) :
    ∀ (rs : List RefSpec) (pl : List Entry) (nc dl : List XRef) (c : Nat) (pl' : List Entry),
      stepRefs ans k m ((rs.filter (fun r => pendB ans k r.id)).map (mkXRef m.idx p)) pl = .ok (nc, dl, c, pl') →
      nc = (rs.filter (fun r => pendB ans (k + 1) r.id)).map (mkXRef m.idx p) ∧ dl = nc ∧
      c = (rs.filter (fun r => pendB ans k r.id && !pendB ans (k + 1) r.id)).length ∧
      ∀ r ∈ rs, pendB ans k r.id = true → pendB ans (k + 1) r.id = false → ∃ t, ans k r.id = .resolved t := by
  intro rs
  induction rs with
  | nil =>
    intro pl nc dl c pl' h
    simp only [List.filter_nil, List.map_nil, stepRefs] at h
    injection h with h
    simp only [Prod.mk.injEq] at h
    obtain ⟨rfl, rfl, rfl, rfl⟩ := h
    simp
  | cons r rs ih =>
    intro pl nc dl c pl' h
    cases hP : pendB ans k r.id with
    | false =>
      have hP' : pendB ans (k + 1) r.id = false := by simp [pendB, hP]
      simp only [List.filter_cons, hP, Bool.false_eq_true, if_false] at h
      obtain ⟨h1, h2, h3, h4⟩ := ih _ _ _ _ _ h
      refine ⟨by simp [hP', h1], h2, by simp [hP, h3], ?_⟩
      intro q hq hqk hqk'
      rcases List.mem_cons.1 hq with rfl | hq
      · rw [hP] at hqk; cases hqk
      · exact h4 q hq hqk hqk'
    | true =>
      simp only [List.filter_cons, hP, if_true, List.map_cons, stepRefs] at h
      have hown : (mkXRef m.idx p r).owner = m.idx := rfl
      have hid : (mkXRef m.idx p r).id = r.id := rfl
      simp only [hown, if_true, hid] at h
      cases ha : ans k r.id with
      | notUnique root => simp [ha] at h
      | unknown => simp [ha] at h
      | postponed =>
        have hP' : pendB ans (k + 1) r.id = true := by simp [pendB, hP, ha]
        simp only [ha] at h
        split at h
        · cases h
        · rename_i nc0 dl0 c0 pl0 hrec
          injection h with h
          simp only [Prod.mk.injEq] at h
          obtain ⟨rfl, rfl, rfl, rfl⟩ := h
          obtain ⟨h1, h2, h3, h4⟩ := ih _ _ _ _ _ hrec
          refine ⟨by simp [hP', h1], by rw [h2], by simp [hP, hP', h3], ?_⟩
          intro q hq hqk hqk'
          rcases List.mem_cons.1 hq with rfl | hq
          · rw [hP'] at hqk'; cases hqk'
          · exact h4 q hq hqk hqk'
      | resolved t =>
        have hP' : pendB ans (k + 1) r.id = false := by simp [pendB, ha]
        simp only [ha] at h
        split at h
        · cases h
        · rename_i nc0 dl0 c0 pl0 hrec
          injection h with h
          simp only [Prod.mk.injEq] at h
          obtain ⟨rfl, rfl, rfl, rfl⟩ := h
          obtain ⟨h1, h2, h3, h4⟩ := ih _ _ _ _ _ hrec
          refine ⟨by simp [hP', h1], h2, by simp [hP, hP', h3], ?_⟩
          intro q hq hqk hqk'
          rcases List.mem_cons.1 hq with rfl | hq
          · exact ⟨t, ha⟩
          · exact h4 q hq hqk hqk'

/-- a pass over pending references that are all answered "postponed" or with an object succeeds -/
theorem stepRefs_total (ans : Nat → Nat → Answer) (k : Nat) (m : MRec) (p : PInfo) :
    ∀ (rs : List RefSpec) (pl : List Entry),
      (∀ r ∈ rs, pendB ans k r.id = true → ans k r.id = .postponed ∨ ∃ t, ans k r.id = .resolved t) →
      ∃ res, stepRefs ans k m ((rs.filter (fun r => pendB ans k r.id)).map (mkXRef m.idx p)) pl = .ok res := by
  intro rs
  induction rs with
  | nil => intro pl _; exact ⟨_, rfl⟩
  | cons r rs ih =>
    intro pl h
    have hrs : ∀ q ∈ rs, pendB ans k q.id = true → ans k q.id = .postponed ∨ ∃ t, ans k q.id = .resolved t :=
      fun q hq => h q (List.mem_cons_of_mem _ hq)
    cases hP : pendB ans k r.id with
    | false =>
      simp only [List.filter_cons, hP, Bool.false_eq_true, if_false]
      exact ih pl hrs
    | true =>
      simp only [List.filter_cons, hP, if_true, List.map_cons, stepRefs]
      have hown : (mkXRef m.idx p r).owner = m.idx := rfl
      have hid : (mkXRef m.idx p r).id = r.id := rfl
      simp only [hown, if_true, hid]
      rcases h r (by simp) hP with ha | ⟨t, ha⟩
      · obtain ⟨⟨nc, dl, c, pl'⟩, hres⟩ := ih pl hrs
        simp only [ha, hres]
        exact ⟨_, rfl⟩
      · obtain ⟨⟨nc, dl, c, pl'⟩, hres⟩ := ih (insertEntry (mkEntry (mkXRef m.idx p r) t) pl) hrs
        simp only [ha, hres]
        exact ⟨_, rfl⟩

theorem resolveOneStep_exact (ans : Nat → Nat → Answer) (k : Nat) (f : FileSpec) (m m' : MRec) (c : Nat)
    (hex : Exact ans k f m) (h : resolveOneStep ans k m = .ok (m', c)) :
    Exact ans (k + 1) f m' ∧ m'.delayed = m'.crossrefs ∧ c = resolvedNow ans k f := by
  unfold resolveOneStep at h
  rw [hex.cr] at h
  split at h
  · cases h
  · rename_i nc dl c0 pl hst
    injection h with h
    simp only [Prod.mk.injEq] at h
    obtain ⟨rfl, rfl⟩ := h
    obtain ⟨h1, h2, h3, h4⟩ := stepRefs_exact ans k m m.parser _ _ _ _ _ _ hst
    refine ⟨⟨hex.fname, hex.ptext, h1, ?_⟩, h2, h3⟩
    intro r hr hp
    cases hk : pendB ans k r.id with
    | false =>
      obtain ⟨j, hj, t, ht⟩ := hex.done r hr hk
      exact ⟨j, by omega, t, ht⟩
    | true =>
      obtain ⟨t, ht⟩ := h4 r hr hk hp
      exact ⟨k, by omega, t, ht, (pendB_iff ans r.id k).1 hk⟩

theorem resolveOneStep_total (ans : Nat → Nat → Answer) (k : Nat) (f : FileSpec) (m : MRec)
    (hex : Exact ans k f m)
    (h : ∀ r ∈ f.refs, pendB ans k r.id = true → ans k r.id = .postponed ∨ ∃ t, ans k r.id = .resolved t) :
    ∃ res, resolveOneStep ans k m = .ok res := by
  unfold resolveOneStep
  rw [hex.cr]
  obtain ⟨⟨nc, dl, c, pl⟩, hres⟩ := stepRefs_total ans k m m.parser f.refs m.posList h
  rw [hres]
  exact ⟨_, rfl⟩

/-- the errors raised inside a round are "unknown object" and "not unique" -/
theorem stepModels_err_kind (ans : Nat → Nat → Answer) (k : Nat) :
    ∀ (ms : List MRec) (e : Err), stepModels ans k ms = .error e → e.kind = .unknown ∨ e.kind = .notUnique := by
  intro ms
  induction ms with
  | nil => intro e h; simp [stepModels] at h
  | cons m ms ih =>
    intro e h
    simp only [stepModels] at h
    split at h
    · rename_i e1 h1
      injection h with h; subst h
      unfold resolveOneStep at h1
      split at h1
      · rename_i e2 h2
        injection h1 with h1; subst h1
        obtain ⟨x, _, hh⟩ := stepRefs_err ans k m _ _ _ h2
        rcases hh with ⟨_, rfl⟩ | ⟨_, _, rfl⟩
        · exact Or.inl rfl
        · exact Or.inr rfl
      · cases h1
    · split at h
      · rename_i e1 h2
        injection h with h; subst h
        exact ih _ h2
      · cases h

theorem stepModels_exact (ans : Nat → Nat → Answer) (k : Nat) :
    ∀ (fs : List FileSpec) (ms ms' : List MRec) (rc uc : Nat),
      All2 (fun f m => Exact ans k f m) fs ms → stepModels ans k ms = .ok (ms', rc, uc) →
      All2 (fun f m => Exact ans (k + 1) f m ∧ m.delayed = m.crossrefs) fs ms' ∧
      rc = (fs.map (resolvedNow ans k)).sum ∧
      uc = (fs.map (pendingCount ans (k + 1))).sum ∧ uc = (ms'.map (·.delayed.length)).sum := by
  intro fs ms ms' rc uc hall
  induction hall generalizing ms' rc uc with
  | nil =>
    intro h
    simp only [stepModels] at h
    injection h with h
    simp only [Prod.mk.injEq] at h
    obtain ⟨rfl, rfl, rfl⟩ := h
    exact ⟨All2.nil, by simp, by simp, by simp⟩
  | cons hfm _ ih =>
    intro h
    simp only [stepModels] at h
    split at h
    · cases h
    · rename_i m1 c1 h1
      split at h
      · cases h
      · rename_i ms1 rc1 uc1 h2
        injection h with h
        simp only [Prod.mk.injEq] at h
        obtain ⟨rfl, rfl, rfl⟩ := h
        obtain ⟨i1, i2, i3⟩ := resolveOneStep_exact ans k _ _ _ _ hfm h1
        obtain ⟨j1, j2, j3, j4⟩ := ih _ _ _ h2
        refine ⟨All2.cons ⟨i1, i2⟩ j1, by simp [i3, j2], ?_, by simp [j4]⟩
        simp only [List.map_cons, List.sum_cons, ← j3]
        congr 1
        rw [i2, i1.cr]
        simp [pendingCount]

theorem stepModels_total (ans : Nat → Nat → Answer) (k : Nat) :
    ∀ (fs : List FileSpec) (ms : List MRec), All2 (fun f m => Exact ans k f m) fs ms →
      (∀ g ∈ fs, ∀ r ∈ g.refs, pendB ans k r.id = true →
        ans k r.id = .postponed ∨ ∃ t, ans k r.id = .resolved t) →
      ∃ res, stepModels ans k ms = .ok res := by
  intro fs ms hall
  induction hall with
  | nil => intro _; exact ⟨_, rfl⟩
  | @cons f m fs ms hfm htl ih =>
    intro h
    obtain ⟨⟨m', c⟩, h1⟩ := resolveOneStep_total ans k f m hfm (h f (by simp))
    obtain ⟨⟨ms', rc, uc⟩, h2⟩ := ih (fun g hg => h g (List.mem_cons_of_mem _ hg))
    simp only [stepModels, h1, h2]
    exact ⟨_, rfl⟩

/-! ## the reference the "unresolvable" error is located at -/

theorem firstDelayed_split {R : FileSpec → MRec → Prop} :
    ∀ (fs : List FileSpec) (ms : List MRec) (m : MRec) (x : XRef), All2 R fs ms →
      firstDelayed ms = some (m, x) →
      ∃ pre f post, fs = pre ++ f :: post ∧ R f m ∧ (∀ g ∈ pre, ∃ m0, R g m0 ∧ m0.delayed = []) ∧
        ∃ xs, m.delayed = x :: xs := by
  intro fs ms m x hall
  induction hall with
  | nil => intro h; simp [firstDelayed] at h
  | @cons f0 m0 fs0 ms0 hfm _ ih =>
    intro h
    simp only [firstDelayed] at h
    split at h
    · rename_i y ys hd
      injection h with h
      simp only [Prod.mk.injEq] at h
      obtain ⟨rfl, rfl⟩ := h
      exact ⟨[], f0, fs0, rfl, hfm, by simp, ys, hd⟩
    · rename_i hd
      obtain ⟨pre, f, post, h1, h2, h3, h4⟩ := ih h
      refine ⟨f0 :: pre, f, post, by simp [h1], h2, ?_, h4⟩
      intro g hg
      rcases List.mem_cons.1 hg with rfl | hg
      · exact ⟨m0, hfm, hd⟩
      · exact h3 g hg

/-- after a round `k` that resolved nothing, every reference is either resolved
before round `k` or postponed through it -/
theorem giveup_all (ans : Nat → Nat → Answer) (k : Nat) (fs : List FileSpec) (ms : List MRec)
    (hall : All2 (fun f m => Exact ans (k + 1) f m ∧ m.delayed = m.crossrefs) fs ms)
    (hrc : (fs.map (resolvedNow ans k)).sum = 0) :
    ∀ g ∈ fs, ∀ q ∈ g.refs, (pendB ans (k + 1) q.id = false ∧ ResolvedBefore ans k q) ∨
      (pendB ans (k + 1) q.id = true ∧ PostponedThrough ans k q) := by
  intro g hg q hq
  cases hp : pendB ans (k + 1) q.id with
  | true => exact Or.inr ⟨rfl, (postponedThrough_iff ans k q).2 hp⟩
  | false =>
    refine Or.inl ⟨rfl, ?_⟩
    obtain ⟨m, _, hex, _⟩ := hall.exists_left g hg
    obtain ⟨j, hj, t, ht⟩ := hex.done q hq hp
    refine ⟨j, ?_, t, ht⟩
    have hz := (sum_zero_iff _ _).1 hrc g hg
    by_cases hjk : j = k
    · subst hjk
      exfalso
      obtain ⟨a, b⟩ := firstAnswer_resolved_pend ans q.id j t ht
      have : 0 < resolvedNow ans j g := by
        unfold resolvedNow
        rw [filter_length_pos]
        exact ⟨q, hq, by simp [a, b]⟩
      omega
    · omega

theorem progress_resolvedNow (ans : Nat → Nat → Answer) (k : Nat) (fs : List FileSpec)
    (h : Progress fs ans k) : 0 < (fs.map (resolvedNow ans k)).sum := by
  rw [sum_pos_iff]
  obtain ⟨g, hg, q, hq, t, ht⟩ := h
  obtain ⟨a, b⟩ := firstAnswer_resolved_pend ans q.id k t ht
  refine ⟨g, hg, ?_⟩
  unfold resolvedNow
  rw [filter_length_pos]
  exact ⟨q, hq, by simp [a, b]⟩

theorem resolvedNow_progress (ans : Nat → Nat → Answer) (k : Nat) (fs : List FileSpec) (ms : List MRec)
    (hall : All2 (fun f m => Exact ans (k + 1) f m ∧ m.delayed = m.crossrefs) fs ms)
    (h : 0 < (fs.map (resolvedNow ans k)).sum) : Progress fs ans k := by
  rw [sum_pos_iff] at h
  obtain ⟨g, hg, hp⟩ := h
  unfold resolvedNow at hp
  rw [filter_length_pos] at hp
  obtain ⟨q, hq, hb⟩ := hp
  simp only [Bool.and_eq_true, Bool.not_eq_true'] at hb
  obtain ⟨m, _, hex, _⟩ := hall.exists_left g hg
  obtain ⟨j, hj, t, ht⟩ := hex.done q hq hb.2
  have h1 := (pendB_iff ans q.id k).1 hb.1
  have hjk : j = k := by
    apply Classical.byContradiction
    intro hne
    have := h1 j (by omega)
    rw [ht.1] at this; cases this
  subst hjk
  exact ⟨g, hg, q, hq, t, ht⟩

/-! ## the loop -/

/-- an "unresolvable" error of the loop: the loop gave up after some round `K`, and
the error is located at the first reference, in load order, postponed through `K` -/
theorem resolveLoop_unres (ans : Nat → Nat → Answer) (fs : List FileSpec) :
    ∀ (n k : Nat) (ms : List MRec), All2 (fun f m => Exact ans k f m) fs ms →
      (∀ j < k, Progress fs ans j) →
      ∀ e, resolveLoop ans n k ms = .err e → e.kind = .unresolvable →
      ∃ K f r, K < k + n ∧ FirstUnresolvable fs ans K f r ∧ GaveUpAt fs ans K ∧
        e.filename = f.name ∧ (e.line, e.col) = posToLineCol f.text r.pos := by
  intro n
  induction n with
  | zero => intro k ms _ _ e h; simp [resolveLoop] at h
  | succ n ih =>
    intro k ms hall hprog e h hk
    simp only [resolveLoop] at h
    cases hst : stepModels ans k ms with
    | error e' =>
      rw [hst] at h
      injection h with h; subst h
      rcases stepModels_err_kind ans k ms _ hst with h1 | h1 <;> rw [hk] at h1 <;> cases h1
    | ok res =>
      obtain ⟨ms', rc, uc⟩ := res
      rw [hst] at h
      obtain ⟨h1, h2, h3, h4⟩ := stepModels_exact ans k fs ms ms' rc uc hall hst
      simp only at h
      by_cases hcont : uc > 0 ∧ rc > 0
      · simp only [hcont, and_self, if_true] at h
        have hnext : All2 (fun f m => Exact ans (k + 1) f m) fs ms' := h1.imp (fun _ _ h => h.1)
        have hp : ∀ j < k + 1, Progress fs ans j := by
          intro j hj
          by_cases hjk : j < k
          · exact hprog j hjk
          · have : j = k := by omega
            subst this
            exact resolvedNow_progress ans j fs ms' h1 (by rw [← h2]; exact hcont.2)
        obtain ⟨K, f, r, hK, rest⟩ := ih (k + 1) ms' hnext hp e h hk
        exact ⟨K, f, r, by omega, rest⟩
      · simp only [hcont, if_false] at h
        by_cases huc : uc > 0
        · simp only [huc, if_true] at h
          have hrc : (fs.map (resolvedNow ans k)).sum = 0 := by rw [← h2]; omega
          have hall' := giveup_all ans k fs ms' h1 hrc
          cases hfd : firstDelayed ms' with
          | none => simp [errUnresolvable, hfd] at h
          | some mx =>
            obtain ⟨m, x⟩ := mx
            simp only [errUnresolvable, hfd] at h
            injection h with h; subst h
            obtain ⟨pre, f, post, hfs, ⟨hex, hdl⟩, hpre, xs, hxs⟩ := firstDelayed_split fs ms' m x h1 hfd
            have hm : (f.refs.filter (fun r => pendB ans (k + 1) r.id)).map (mkXRef m.idx m.parser) = x :: xs := by
              rw [← hex.cr, ← hdl, hxs]
            obtain ⟨r, rs', hfil, hxr, _⟩ := List.map_eq_cons_iff.1 hm
            obtain ⟨r1, r2, hrefs, hr1, hpr, _⟩ := List.filter_eq_cons_iff.1 hfil
            have hfmem : f ∈ fs := by rw [hfs]; simp
            refine ⟨k, f, r, by omega, ⟨pre, post, r1, r2, hfs, hrefs, (postponedThrough_iff ans k r).2 hpr, ?_, ?_⟩,
              ⟨?_, hprog⟩, hex.fname, ?_⟩
            · intro g hg q hq
              obtain ⟨m0, ⟨hex0, hdl0⟩, hd0⟩ := hpre g hg
              have hgm : g ∈ fs := by rw [hfs]; simp [hg]
              rcases hall' g hgm q hq with ⟨_, rb⟩ | ⟨hp, _⟩
              · exact rb
              · exfalso
                have hqm : mkXRef m0.idx m0.parser q ∈ m0.crossrefs := by
                  rw [hex0.cr]
                  exact List.mem_map_of_mem (List.mem_filter.2 ⟨hq, hp⟩)
                rw [← hdl0, hd0] at hqm
                simp at hqm
            · intro q hq
              have hqm : q ∈ f.refs := by rw [hrefs]; simp [hq]
              rcases hall' f hfmem q hqm with ⟨_, rb⟩ | ⟨hp, _⟩
              · exact rb
              · exact absurd hp (hr1 q hq)
            · intro g hg q hq
              rcases hall' g hg q hq with ⟨_, rb⟩ | ⟨_, pt⟩
              · exact Or.inl rb
              · exact Or.inr pt
            · simp [← hxr, mkXRef, hex.ptext]
        · simp only [huc, if_false] at h
          cases h

/-- conversely: answers under which the loop gives up after round `K` with a
reference still postponed end in the "unresolvable" error -/
theorem resolveLoop_gaveup (ans : Nat → Nat → Answer) (fs : List FileSpec) (K : Nat)
    (hg : GaveUpAt fs ans K) (hq : ∃ g ∈ fs, ∃ q ∈ g.refs, PostponedThrough ans K q) :
    ∀ (n k : Nat) (ms : List MRec), All2 (fun f m => Exact ans k f m) fs ms → k ≤ K → K < k + n →
      ∃ e, resolveLoop ans n k ms = .err e ∧ e.kind = .unresolvable := by
  intro n
  induction n with
  | zero => intro k ms _ h1 h2; omega
  | succ n ih =>
    intro k ms hall hkK hKn
    have hans : ∀ g ∈ fs, ∀ r ∈ g.refs, pendB ans k r.id = true →
        ans k r.id = .postponed ∨ ∃ t, ans k r.id = .resolved t := by
      intro g hg' r hr hp
      rcases hg.1 g hg' r hr with ⟨j, hj, t, ht⟩ | hpt
      · have hpk := (pendB_iff ans r.id k).1 hp
        by_cases hjk : j < k
        · have := hpk j hjk; rw [ht.1] at this; cases this
        · by_cases hjk' : j = k
          · subst hjk'; exact Or.inr ⟨t, ht.1⟩
          · exact Or.inl (ht.2 k (by omega))
      · exact Or.inl (hpt k hkK)
    obtain ⟨⟨ms', rc, uc⟩, hst⟩ := stepModels_total ans k fs ms hall hans
    obtain ⟨h1, h2, h3, h4⟩ := stepModels_exact ans k fs ms ms' rc uc hall hst
    have huc : uc > 0 := by
      rw [h3, gt_iff_lt, sum_pos_iff]
      obtain ⟨g, hg', q, hq', hpt⟩ := hq
      refine ⟨g, hg', ?_⟩
      unfold pendingCount
      rw [filter_length_pos]
      exact ⟨q, hq', (pendB_iff ans q.id (k + 1)).2 (fun j hj => hpt j (by omega))⟩
    simp only [resolveLoop, hst]
    by_cases hlt : k < K
    · have hrc : rc > 0 := by rw [h2]; exact progress_resolvedNow ans k fs (hg.2 k hlt)
      simp only [huc, hrc, and_self, if_true]
      exact ih (k + 1) ms' (h1.imp (fun _ _ h => h.1)) (by omega) (by omega)
    · have hkeq : K = k := by omega
      have hg1 := hg.1
      rw [hkeq] at hg1
      have hrc : rc = 0 := by
        rw [h2, sum_zero_iff]
        intro g hg'
        apply Classical.byContradiction
        intro hne
        have hpos : 0 < resolvedNow ans k g := by omega
        unfold resolvedNow at hpos
        rw [filter_length_pos] at hpos
        obtain ⟨q, hq', hb⟩ := hpos
        simp only [Bool.and_eq_true, Bool.not_eq_true'] at hb
        rcases hg1 g hg' q hq' with ⟨j, hj, t, ht⟩ | hpt
        · have := (pendB_iff ans q.id k).1 hb.1 j hj; rw [ht.1] at this; cases this
        · have := (postponedThrough_iff ans k q).1 hpt; rw [hb.2] at this; cases this
      have hnot : ¬ (uc > 0 ∧ rc > 0) := by omega
      obtain ⟨m, x, hfd⟩ := firstDelayed_some ms' (by rw [← h4]; exact huc)
      rw [if_neg hnot, if_pos huc]
      simp only [errUnresolvable, hfd]
      exact ⟨_, rfl, rfl⟩

/-! ## the executable specification (`LinkLocSpec.lean`) reflects the propositions -/

theorem isResolved_iff (a : Answer) : isResolved a = true ↔ ∃ t, a = .resolved t := by
  cases a <;> simp [isResolved]

theorem resolvedBeforeB_iff (ans : Nat → Nat → Answer) (q : RefSpec) :
    ∀ K, resolvedBeforeB ans K q.id = true ↔ ResolvedBefore ans K q := by
  intro K
  induction K with
  | zero => simp [resolvedBeforeB, ResolvedBefore]
  | succ K ih =>
    simp only [resolvedBeforeB, Bool.or_eq_true, Bool.and_eq_true, ih, isResolved_iff, pendB_iff]
    constructor
    · rintro (⟨j, hj, t, ht⟩ | ⟨hp, t, ht⟩)
      · exact ⟨j, by omega, t, ht⟩
      · exact ⟨K, by omega, t, ht, hp⟩
    · rintro ⟨j, hj, t, ht⟩
      by_cases hjk : j < K
      · exact Or.inl ⟨j, hjk, t, ht⟩
      · have : j = K := by omega
        subst this
        exact Or.inr ⟨ht.2, t, ht.1⟩

theorem progressB_iff (files : List FileSpec) (ans : Nat → Nat → Answer) (j : Nat) :
    progressB files ans j = true ↔ Progress files ans j := by
  simp only [progressB, List.any_eq_true, Bool.and_eq_true, isResolved_iff, pendB_iff, Progress, FirstAnswer]
  constructor
  · rintro ⟨g, hg, q, hq, hp, t, ht⟩
    exact ⟨g, hg, q, hq, t, ht, hp⟩
  · rintro ⟨g, hg, q, hq, t, ht, hp⟩
    exact ⟨g, hg, q, hq, hp, t, ht⟩

theorem gaveUpAtB_iff (files : List FileSpec) (ans : Nat → Nat → Answer) (K : Nat) :
    gaveUpAtB files ans K = true ↔ GaveUpAt files ans K := by
  simp only [gaveUpAtB, Bool.and_eq_true, List.all_eq_true, Bool.or_eq_true, resolvedBeforeB_iff,
    ← postponedThrough_iff, progressB_iff, List.mem_range, GaveUpAt]

theorem somePostponedB_iff (files : List FileSpec) (ans : Nat → Nat → Answer) (K : Nat) :
    somePostponedB files ans K = true ↔ ∃ g ∈ files, ∃ q ∈ g.refs, PostponedThrough ans K q := by
  simp only [somePostponedB, List.any_eq_true, ← postponedThrough_iff]

theorem gaveUpAt_unique (files : List FileSpec) (ans : Nat → Nat → Answer) (K K' : Nat)
    (h : GaveUpAt files ans K) (h' : GaveUpAt files ans K') : K = K' := by
  have key : ∀ A B, GaveUpAt files ans A → GaveUpAt files ans B → ¬ A < B := by
    intro A B hA hB hlt
    obtain ⟨g, hg, q, hq, t, ht⟩ := hB.2 A hlt
    rcases hA.1 g hg q hq with ⟨j, hj, t', ht'⟩ | hpt
    · have := ht.2 j hj
      rw [ht'.1] at this; cases this
    · have := hpt A (Nat.le_refl _)
      rw [ht.1] at this; cases this
  have h1 := key K K' h h'
  have h2 := key K' K h' h
  omega

theorem giveUpRound_eq (files : List FileSpec) (ans : Nat → Nat → Answer) (fuel K : Nat) (hK : K < fuel)
    (hg : GaveUpAt files ans K) (hq : ∃ g ∈ files, ∃ q ∈ g.refs, PostponedThrough ans K q) :
    giveUpRound files ans fuel = some K := by
  unfold giveUpRound
  cases hf : (List.range fuel).find? (fun K => gaveUpAtB files ans K && somePostponedB files ans K) with
  | none =>
    have := List.find?_eq_none.1 hf K (List.mem_range.2 hK)
    simp [(gaveUpAtB_iff files ans K).2 hg, (somePostponedB_iff files ans K).2 hq] at this
  | some K' =>
    have hp := List.find?_some hf
    simp only [Bool.and_eq_true] at hp
    rw [gaveUpAt_unique files ans K' K ((gaveUpAtB_iff files ans K').1 hp.1) hg]

theorem resolvedBefore_not_pend (ans : Nat → Nat → Answer) (K : Nat) (q : RefSpec)
    (h : ResolvedBefore ans K q) : pendB ans (K + 1) q.id = false := by
  obtain ⟨j, hj, t, ht⟩ := h
  cases hp : pendB ans (K + 1) q.id with
  | false => rfl
  | true =>
    have := (pendB_iff ans q.id (K + 1)).1 hp j (by omega)
    rw [ht.1] at this; cases this

theorem firstPending_eq (files : List FileSpec) (ans : Nat → Nat → Answer) (K : Nat) (f : FileSpec)
    (r : RefSpec) (h : FirstUnresolvable files ans K f r) : firstPending files ans K = some (f, r) := by
  obtain ⟨pre, post, r1, r2, hfs, hrefs, hpt, hpre, hr1⟩ := h
  have hnone : ∀ (l : List RefSpec), (∀ q ∈ l, ResolvedBefore ans K q) →
      l.find? (fun q => pendB ans (K + 1) q.id) = none := by
    intro l hl
    rw [List.find?_eq_none]
    intro q hq
    simp [resolvedBefore_not_pend ans K q (hl q hq)]
  have hr : f.refs.find? (fun q => pendB ans (K + 1) q.id) = some r := by
    rw [hrefs, List.find?_append, hnone r1 hr1]
    simp [(postponedThrough_iff ans K r).1 hpt]
  unfold firstPending
  rw [hfs, List.findSome?_append]
  have hpre' : pre.findSome? (fun g => (g.refs.find? fun q => pendB ans (K + 1) q.id).map fun q => (g, q)) = none := by
    rw [List.findSome?_eq_none_iff]
    intro g hg
    rw [hnone g.refs (hpre g hg)]; rfl
  rw [hpre']
  simp [hr]

/-! ## the `'\r'` alternative of `pos_to_linecol` -/

/-- `pos_to_linecol` with the test `input[line_end] in '\n\r'` replaced by "true": one is
always subtracted for the line end -/
def posToLineColLF (input : List Char) (pos : Nat) : Nat × Int :=
  let les := lineEnds input
  let line := bisectLeft les pos
  let col : Int := if line > 0 then (pos : Int) - (les.getD (line - 1) 0 : Int) - 1 else (pos : Int)
  (line + 1, col + 1)

/-- every entry of the line-end table is the offset of a `'\n'`, so the `in '\n\r'` test
of `pos_to_linecol` always succeeds through its `'\n'` alternative (for every offset,
also outside the text): the `'\r'` alternative never decides anything -/
theorem posToLineCol_eq_LF (input : List Char) (pos : Nat) :
    posToLineCol input pos = posToLineColLF input pos := by
  unfold posToLineCol posToLineColLF
  simp only
  by_cases hl : bisectLeft (lineEnds input) pos > 0
  · have hlt : bisectLeft (lineEnds input) pos - 1 < (lineEnds input).length := by
      have := bisectLeft_le_length (lineEnds input) pos; omega
    have hmem : (lineEnds input).getD (bisectLeft (lineEnds input) pos - 1) 0 ∈ lineEnds input := by
      have h1 : (lineEnds input).getD (bisectLeft (lineEnds input) pos - 1) 0
          = (lineEnds input)[bisectLeft (lineEnds input) pos - 1] := by
        simp [List.getD_eq_getElem?_getD, List.getElem?_eq_getElem hlt]
      rw [h1]; exact List.getElem_mem _
    obtain ⟨j, hj, hs⟩ := lineEndsFrom_nl input 0 _ hmem
    have hnl : input.getD ((lineEnds input).getD (bisectLeft (lineEnds input) pos - 1) 0) ' ' = '\n' := by
      rw [hj]; simp [List.getD_eq_getElem?_getD, hs]
    simp only [hl, if_true]
    rw [if_pos (Or.inl hnl)]
  · simp [hl]

end LinkLoc
