import TextxVerif.Proofs.LinkLoc
/-! Invariants of the loading / resolution loop of `LinkLoc` (C28, C34). -/
namespace LinkLoc

/-- element-wise relation between two lists of the same length -/
inductive All2 {α β : Type} (R : α → β → Prop) : List α → List β → Prop
  | nil : All2 R [] []
  | cons {a b as bs} : R a b → All2 R as bs → All2 R (a :: as) (b :: bs)

theorem All2.imp {α β : Type} {R S : α → β → Prop} (h : ∀ a b, R a b → S a b) :
    ∀ {as bs}, All2 R as bs → All2 S as bs
  | _, _, .nil => .nil
  | _, _, .cons hab t => .cons (h _ _ hab) (All2.imp h t)

/-! ## sorted insertion of tool entries -/

theorem insertEntry_perm (e : Entry) : ∀ l, (insertEntry e l).Perm (e :: l)
  | [] => by simp [insertEntry]
  | y :: ys => by
      simp only [insertEntry]
      split
      · exact List.Perm.refl _
      · exact ((insertEntry_perm e ys).cons y).trans (List.Perm.swap e y ys)

theorem insertEntry_sorted (e : Entry) : ∀ l, l.Pairwise (fun a b => a.refStart ≤ b.refStart) →
    (insertEntry e l).Pairwise (fun a b => a.refStart ≤ b.refStart)
  | [], _ => by simp [insertEntry]
  | y :: ys, h => by
      simp only [insertEntry]
      have hy := List.pairwise_cons.1 h
      split
      · rename_i hlt
        refine List.pairwise_cons.2 ⟨?_, h⟩
        intro b hb
        rcases List.mem_cons.1 hb with rfl | hb
        · exact Nat.le_of_lt hlt
        · exact Nat.le_trans (Nat.le_of_lt hlt) (hy.1 b hb)
      · rename_i hge
        refine List.pairwise_cons.2 ⟨?_, insertEntry_sorted e ys hy.2⟩
        intro b hb
        have := (insertEntry_perm e ys).subset hb
        rcases List.mem_cons.1 this with rfl | hb
        · exact Nat.le_of_not_lt hge
        · exact hy.1 b hb

/-! ## one pass over the cross-references of a model -/

/-- an error of the pass is raised for a reference of this model that the provider
reported as unknown or as not unique -/
theorem stepRefs_err (ans : Nat → Nat → Answer) (k : Nat) (m : MRec) :
    ∀ (xs : List XRef) (pl : List Entry) (e : Err), stepRefs ans k m xs pl = .error e →
      ∃ x ∈ xs, (ans k x.id = .unknown ∧ e = errUnknown m x) ∨
        (∃ root, ans k x.id = .notUnique root ∧ e = errNotUnique x) := by
  intro xs
  induction xs with
  | nil => intro pl e h; simp [stepRefs] at h
  | cons x xs ih =>
    intro pl e h
    simp only [stepRefs] at h
    split at h
    · split at h
      · rename_i root hans
        refine ⟨x, by simp, Or.inr ⟨root, hans, ?_⟩⟩
        injection h with h; exact h.symm
      · rename_i hans
        refine ⟨x, by simp, Or.inl ⟨hans, ?_⟩⟩
        injection h with h; exact h.symm
      · split at h
        · rename_i e' hrec
          injection h with h; subst h
          obtain ⟨y, hy, hh⟩ := ih _ _ hrec
          exact ⟨y, List.mem_cons_of_mem _ hy, hh⟩
        · cases h
      · split at h
        · rename_i e' hrec
          injection h with h; subst h
          obtain ⟨y, hy, hh⟩ := ih _ _ hrec
          exact ⟨y, List.mem_cons_of_mem _ hy, hh⟩
        · cases h
    · split at h
      · rename_i e' hrec
        injection h with h; subst h
        obtain ⟨y, hy, hh⟩ := ih _ _ hrec
        exact ⟨y, List.mem_cons_of_mem _ hy, hh⟩
      · cases h

/-- a pass that succeeds -/
theorem stepRefs_ok (ans : Nat → Nat → Answer) (k : Nat) (m : MRec) :
    ∀ (xs : List XRef) (pl : List Entry) (nc dl : List XRef) (c : Nat) (pl' : List Entry),
      stepRefs ans k m xs pl = .ok (nc, dl, c, pl') → (∀ x ∈ xs, x.owner = m.idx) →
      nc = dl ∧ nc.Sublist xs ∧ (∀ x ∈ nc, ans k x.id = .postponed) ∧
      (pl.Pairwise (fun a b => a.refStart ≤ b.refStart) → pl'.Pairwise (fun a b => a.refStart ≤ b.refStart)) ∧
      (pl'.map (·.refStart) ++ nc.map (·.pos)).Perm (pl.map (·.refStart) ++ xs.map (·.pos)) ∧
      (∀ e ∈ pl', e ∈ pl ∨ ∃ x ∈ xs, ∃ t, ans k x.id = .resolved t ∧ e = mkEntry x t) ∧
      c + nc.length = xs.length := by
  intro xs
  induction xs with
  | nil =>
    intro pl nc dl c pl' h _
    simp only [stepRefs] at h
    injection h with h
    simp only [Prod.mk.injEq] at h
    obtain ⟨rfl, rfl, rfl, rfl⟩ := h
    simp
  | cons x xs ih =>
    intro pl nc dl c pl' h hown
    have hx : x.owner = m.idx := hown x (by simp)
    have hown' : ∀ y ∈ xs, y.owner = m.idx := fun y hy => hown y (List.mem_cons_of_mem _ hy)
    simp only [stepRefs, hx, if_true] at h
    split at h
    · cases h
    · cases h
    · rename_i hans
      split at h
      · cases h
      · rename_i nc0 dl0 c0 pl0 hrec
        injection h with h
        simp only [Prod.mk.injEq] at h
        obtain ⟨rfl, rfl, rfl, rfl⟩ := h
        obtain ⟨h1, h2, h3, h4, h5, h6, h7⟩ := ih _ _ _ _ _ hrec hown'
        refine ⟨by rw [h1], h2.cons_cons x, ?_, h4, ?_, ?_, by simp; omega⟩
        · intro y hy
          rcases List.mem_cons.1 hy with rfl | hy
          · exact hans
          · exact h3 y hy
        · simp only [List.map_cons]
          exact (List.perm_middle).trans ((h5.cons x.pos).trans (List.perm_middle).symm)
        · intro e he
          rcases h6 e he with h | ⟨y, hy, t, ht, hee⟩
          · exact Or.inl h
          · exact Or.inr ⟨y, List.mem_cons_of_mem _ hy, t, ht, hee⟩
    · rename_i t hans
      split at h
      · cases h
      · rename_i nc0 dl0 c0 pl0 hrec
        injection h with h
        simp only [Prod.mk.injEq] at h
        obtain ⟨rfl, rfl, rfl, rfl⟩ := h
        obtain ⟨h1, h2, h3, h4, h5, h6, h7⟩ := ih _ _ _ _ _ hrec hown'
        refine ⟨h1, h2.cons x, h3, fun hp => h4 (insertEntry_sorted _ _ hp), ?_, ?_, by simp; omega⟩
        · refine h5.trans ?_
          have hp : ((insertEntry (mkEntry x t) pl).map (·.refStart)).Perm (x.pos :: pl.map (·.refStart)) := by
            have := (insertEntry_perm (mkEntry x t) pl).map (·.refStart)
            simpa [mkEntry] using this
          simp only [List.map_cons]
          exact (hp.append_right _).trans (by simpa using (List.perm_middle (a := x.pos) (l₁ := pl.map (·.refStart)) (l₂ := xs.map (·.pos))).symm)
        · intro e he
          rcases h6 e he with h | ⟨y, hy, t', ht, hee⟩
          · have := (insertEntry_perm (mkEntry x t) pl).subset h
            rcases List.mem_cons.1 this with rfl | h'
            · exact Or.inr ⟨x, by simp, t, hans, rfl⟩
            · exact Or.inl h'
          · exact Or.inr ⟨y, List.mem_cons_of_mem _ hy, t', ht, hee⟩

/-! ## the invariant tying a model record to its file -/

/-- first answer that is not "postponed" -/
def FirstAnswer (ans : Nat → Nat → Answer) (id k : Nat) (a : Answer) : Prop :=
  ans k id = a ∧ ∀ j < k, ans j id = .postponed

/-- the tool entry `e` describes the reference `r`: start / end of the reference
text, definition file and span of the object the provider resolved it to -/
def EntryOf (ans : Nat → Nat → Answer) (r : RefSpec) (e : Entry) : Prop :=
  ∃ k t, FirstAnswer ans r.id k (.resolved t) ∧ e = ⟨r.id, r.pos, r.posEnd, t.file, t.s, t.e⟩

structure Inv (ans : Nat → Nat → Answer) (k : Nat) (f : FileSpec) (m : MRec) : Prop where
  fname : m.filename = f.name
  pinfo : m.parser = ⟨f.name, f.text⟩
  cross : ∀ x ∈ m.crossrefs, x.owner = m.idx ∧ x.parser = m.parser ∧
            ∃ r ∈ f.refs, x.id = r.id ∧ x.pos = r.pos ∧ x.posEnd = r.posEnd
  pend : ∀ x ∈ m.crossrefs, ∀ j < k, ans j x.id = .postponed
  sorted : m.posList.Pairwise (fun a b => a.refStart ≤ b.refStart)
  perm : (m.posList.map (·.refStart) ++ m.crossrefs.map (·.pos)).Perm (f.refs.map (·.pos))
  good : ∀ e ∈ m.posList, ∃ r ∈ f.refs, EntryOf ans r e

theorem parseFile_inv (ans : Nat → Nat → Answer) (i : Nat) (f : FileSpec) (m : MRec)
    (h : parseFile i f = .ok m) : Inv ans 0 f m ∧ m.delayed = [] := by
  unfold parseFile at h
  split at h
  · cases h
  · injection h with h
    subst h
    refine ⟨⟨rfl, rfl, ?_, ?_, by simp, ?_, by simp⟩, rfl⟩
    · intro x hx
      simp only [List.mem_map] at hx
      obtain ⟨r, hr, rfl⟩ := hx
      exact ⟨rfl, rfl, r, hr, rfl, rfl, rfl⟩
    · intro x _ j hj; omega
    · simp [List.map_map, Function.comp_def, mkXRef]

theorem parseFile_err (i : Nat) (f : FileSpec) (e : Err) (h : parseFile i f = .error e) :
    ∃ p, f.nm = some p ∧ e = errSyntax ⟨f.name, f.text⟩ p := by
  unfold parseFile at h
  split at h
  · rename_i p hp
    injection h with h
    exact ⟨p, hp, h.symm⟩
  · cases h

theorem parseFile_ok_nm (i : Nat) (f : FileSpec) (m : MRec) (h : parseFile i f = .ok m) : f.nm = none := by
  unfold parseFile at h
  split at h
  · cases h
  · assumption

theorem loadFrom_ok (ans : Nat → Nat → Answer) : ∀ (files : List FileSpec) (i : Nat) (ms : List MRec),
    loadFrom i files = .ok ms →
      All2 (fun f m => Inv ans 0 f m) files ms ∧ ∀ f ∈ files, f.nm = none := by
  intro files
  induction files with
  | nil =>
    intro i ms h
    simp only [loadFrom] at h
    injection h with h; subst h
    exact ⟨All2.nil, by simp⟩
  | cons f fs ih =>
    intro i ms h
    simp only [loadFrom] at h
    split at h
    · cases h
    · rename_i m hm
      split at h
      · cases h
      · rename_i ms' hms
        injection h with h; subst h
        obtain ⟨h1, h2⟩ := ih _ _ hms
        refine ⟨All2.cons (parseFile_inv ans i f m hm).1 h1, ?_⟩
        intro g hg
        rcases List.mem_cons.1 hg with rfl | hg
        · exact parseFile_ok_nm _ _ _ hm
        · exact h2 g hg

theorem loadFrom_err : ∀ (files : List FileSpec) (i : Nat) (e : Err), loadFrom i files = .error e →
    ∃ pre f post p, files = pre ++ f :: post ∧ (∀ g ∈ pre, g.nm = none) ∧ f.nm = some p ∧
      e = errSyntax ⟨f.name, f.text⟩ p := by
  intro files
  induction files with
  | nil => intro i e h; simp [loadFrom] at h
  | cons f fs ih =>
    intro i e h
    simp only [loadFrom] at h
    split at h
    · rename_i e' he
      injection h with h; subst h
      obtain ⟨p, hp, hee⟩ := parseFile_err _ _ _ he
      exact ⟨[], f, fs, p, rfl, by simp, hp, hee⟩
    · rename_i m hm
      split at h
      · rename_i e' he
        injection h with h; subst h
        obtain ⟨pre, g, post, p, h1, h2, h3, h4⟩ := ih _ _ he
        refine ⟨f :: pre, g, post, p, by simp [h1], ?_, h3, h4⟩
        intro g' hg'
        rcases List.mem_cons.1 hg' with rfl | hg'
        · exact parseFile_ok_nm _ _ _ hm
        · exact h2 g' hg'
      · cases h

/-- a file with a recorded parse failure makes the load fail -/
theorem loadFrom_nm : ∀ (files : List FileSpec) (i : Nat), (∃ f ∈ files, f.nm ≠ none) →
    ∃ e, loadFrom i files = .error e := by
  intro files i ⟨f, hf, hnm⟩
  cases h : loadFrom i files with
  | error e => exact ⟨e, rfl⟩
  | ok ms => exact absurd ((loadFrom_ok (fun _ _ => .postponed) files i ms h).2 f hf) hnm

/-! ## one round -/

theorem resolveOneStep_ok (ans : Nat → Nat → Answer) (k : Nat) (f : FileSpec) (m m' : MRec) (c : Nat)
    (hinv : Inv ans k f m) (h : resolveOneStep ans k m = .ok (m', c)) :
    Inv ans (k + 1) f m' ∧ m'.delayed = m'.crossrefs ∧ c + m'.crossrefs.length = m.crossrefs.length := by
  unfold resolveOneStep at h
  split at h
  · cases h
  · rename_i nc dl c0 pl hst
    injection h with h
    simp only [Prod.mk.injEq] at h
    obtain ⟨rfl, rfl⟩ := h
    obtain ⟨h1, h2, h3, h4, h5, h6, h7⟩ :=
      stepRefs_ok ans k m _ _ _ _ _ _ hst (fun x hx => (hinv.cross x hx).1)
    refine ⟨⟨hinv.fname, hinv.pinfo, ?_, ?_, h4 hinv.sorted, h5.trans hinv.perm, ?_⟩, h1.symm, h7⟩
    · intro x hx; exact hinv.cross x (h2.subset hx)
    · intro x hx j hj
      by_cases hjk : j < k
      · exact hinv.pend x (h2.subset hx) j hjk
      · have : j = k := by omega
        subst this; exact h3 x hx
    · intro e he
      rcases h6 e he with h | ⟨x, hx, t, ht, rfl⟩
      · exact hinv.good e h
      · obtain ⟨_, _, r, hr, hid, hpos, hend⟩ := hinv.cross x hx
        refine ⟨r, hr, k, t, ⟨by rw [← hid]; exact ht, ?_⟩, ?_⟩
        · intro j hj; rw [← hid]; exact hinv.pend x hx j hj
        · simp [mkEntry, hid, hpos, hend]

/-- what an error raised during the resolution rounds looks like -/
def RefErr (ans : Nat → Nat → Answer) (f : FileSpec) (r : RefSpec) (e : Err) : Prop :=
  e.filename = f.name ∧ (e.line, e.col) = posToLineCol f.text r.pos ∧
  ((e.kind = .unknown ∧ ∃ k, FirstAnswer ans r.id k .unknown) ∨
   (e.kind = .notUnique ∧ ∃ k root, FirstAnswer ans r.id k (.notUnique root)) ∨
   (e.kind = .unresolvable ∧ ∃ k, ans k r.id = .postponed))

theorem resolveOneStep_err (ans : Nat → Nat → Answer) (k : Nat) (f : FileSpec) (m : MRec) (e : Err)
    (hinv : Inv ans k f m) (h : resolveOneStep ans k m = .error e) :
    ∃ r ∈ f.refs, RefErr ans f r e := by
  unfold resolveOneStep at h
  split at h
  · rename_i e' hst
    injection h with h; subst h
    obtain ⟨x, hx, hh⟩ := stepRefs_err ans k m _ _ _ hst
    obtain ⟨_, hpar, r, hr, hid, hpos, hend⟩ := hinv.cross x hx
    have hp := hinv.pend x hx
    refine ⟨r, hr, ?_⟩
    rcases hh with ⟨ha, rfl⟩ | ⟨root, ha, rfl⟩
    · refine ⟨by simp [errUnknown, hinv.fname], by simp [errUnknown, hinv.pinfo, hpos], Or.inl ⟨rfl, k, ?_, ?_⟩⟩
      · rw [← hid]; exact ha
      · intro j hj; rw [← hid]; exact hp j hj
    · refine ⟨by simp [errNotUnique, hpar, hinv.pinfo], by simp [errNotUnique, hpar, hinv.pinfo, hpos],
        Or.inr (Or.inl ⟨rfl, k, root, ?_, ?_⟩)⟩
      · rw [← hid]; exact ha
      · intro j hj; rw [← hid]; exact hp j hj
  · cases h

theorem stepModels_ok (ans : Nat → Nat → Answer) (k : Nat) :
    ∀ (fs : List FileSpec) (ms ms' : List MRec) (rc uc : Nat),
      All2 (fun f m => Inv ans k f m) fs ms → stepModels ans k ms = .ok (ms', rc, uc) →
      All2 (fun f m => Inv ans (k + 1) f m ∧ m.delayed = m.crossrefs) fs ms' ∧
      uc = (ms'.map (·.delayed.length)).sum ∧
      rc + (ms'.map (·.crossrefs.length)).sum = (ms.map (·.crossrefs.length)).sum := by
  intro fs ms ms' rc uc hall
  induction hall generalizing ms' rc uc with
  | nil =>
    intro h
    simp only [stepModels] at h
    injection h with h
    simp only [Prod.mk.injEq] at h
    obtain ⟨rfl, rfl, rfl⟩ := h
    exact ⟨All2.nil, by simp, by simp⟩
  | cons hfm _ ih =>
    intro h
    simp only [stepModels] at h
    split at h
    · cases h
    · rename_i m1 c1 h1
      split at h
      · cases h
      · rename_i ms1 rc1 uc1 h2
        injection h with h
        simp only [Prod.mk.injEq] at h
        obtain ⟨rfl, rfl, rfl⟩ := h
        obtain ⟨i1, i2, i3⟩ := resolveOneStep_ok ans k _ _ _ _ hfm h1
        obtain ⟨j1, j2, j3⟩ := ih _ _ _ h2
        refine ⟨All2.cons ⟨i1, i2⟩ j1, by simp [j2], ?_⟩
        simp only [List.map_cons, List.sum_cons]
        omega

theorem stepModels_err (ans : Nat → Nat → Answer) (k : Nat) :
    ∀ (fs : List FileSpec) (ms : List MRec) (e : Err),
      All2 (fun f m => Inv ans k f m) fs ms → stepModels ans k ms = .error e →
      ∃ f ∈ fs, ∃ r ∈ f.refs, RefErr ans f r e := by
  intro fs ms e hall
  induction hall with
  | nil => intro h; simp [stepModels] at h
  | cons hfm _ ih =>
    intro h
    simp only [stepModels] at h
    split at h
    · rename_i e1 h1
      injection h with h; subst h
      obtain ⟨r, hr, hh⟩ := resolveOneStep_err ans k _ _ _ hfm h1
      exact ⟨_, by simp, r, hr, hh⟩
    · split at h
      · rename_i e1 h2
        injection h with h; subst h
        obtain ⟨f, hf, r, hr, hh⟩ := ih h2
        exact ⟨f, List.mem_cons_of_mem _ hf, r, hr, hh⟩
      · cases h

/-! ## the "Unresolvable cross references" error -/

theorem firstDelayed_some : ∀ (ms : List MRec), 0 < (ms.map (·.delayed.length)).sum →
    ∃ m x, firstDelayed ms = some (m, x) := by
  intro ms
  induction ms with
  | nil => intro h; simp at h
  | cons m ms ih =>
    intro h
    simp only [firstDelayed]
    cases hd : m.delayed with
    | nil =>
      simp only [List.map_cons, List.sum_cons, hd, List.length_nil, Nat.zero_add] at h
      exact ih h
    | cons x xs => exact ⟨m, x, rfl⟩

theorem firstDelayed_mem (ans : Nat → Nat → Answer) (k : Nat) :
    ∀ (fs : List FileSpec) (ms : List MRec) (m : MRec) (x : XRef),
      All2 (fun f m => Inv ans k f m ∧ m.delayed = m.crossrefs) fs ms →
      firstDelayed ms = some (m, x) →
      ∃ f ∈ fs, Inv ans k f m ∧ x ∈ m.crossrefs := by
  intro fs ms m x hall
  induction hall with
  | nil => intro h; simp [firstDelayed] at h
  | @cons f0 m0 _ _ hfm _ ih =>
    intro h
    simp only [firstDelayed] at h
    split at h
    · rename_i y ys hd
      injection h with h
      simp only [Prod.mk.injEq] at h
      obtain ⟨rfl, rfl⟩ := h
      refine ⟨f0, by simp, hfm.1, ?_⟩
      rw [← hfm.2, hd]; simp
    · obtain ⟨f, hf, hh⟩ := ih h
      exact ⟨f, List.mem_cons_of_mem _ hf, hh⟩

theorem crossrefs_nil_of_sum (ans : Nat → Nat → Answer) (k : Nat) :
    ∀ (fs : List FileSpec) (ms : List MRec),
      All2 (fun f m => Inv ans k f m ∧ m.delayed = m.crossrefs) fs ms →
      (ms.map (·.delayed.length)).sum = 0 →
      All2 (fun f m => Inv ans k f m ∧ m.crossrefs = []) fs ms := by
  intro fs ms hall
  induction hall with
  | nil => intro _; exact All2.nil
  | cons hfm _ ih =>
    intro hz
    simp only [List.map_cons, List.sum_cons] at hz
    refine All2.cons ⟨hfm.1, ?_⟩ (ih (by omega))
    rw [← hfm.2]
    exact List.eq_nil_of_length_eq_zero (by omega)

/-! ## the loop -/

theorem resolveLoop_spec (ans : Nat → Nat → Answer) (fs : List FileSpec) :
    ∀ (n k : Nat) (ms : List MRec), All2 (fun f m => Inv ans k f m) fs ms →
      (∀ e, resolveLoop ans n k ms = .err e → ∃ f ∈ fs, ∃ r ∈ f.refs, RefErr ans f r e) ∧
      (∀ ms', resolveLoop ans n k ms = .ok ms' →
        ∃ k', All2 (fun f m => Inv ans k' f m ∧ m.crossrefs = []) fs ms') ∧
      resolveLoop ans n k ms ≠ .crash ∧
      ((ms.map (·.crossrefs.length)).sum < n → resolveLoop ans n k ms ≠ .fuel) := by
  intro n
  induction n with
  | zero =>
    intro k ms _
    simp [resolveLoop]
  | succ n ih =>
    intro k ms hall
    simp only [resolveLoop]
    cases hst : stepModels ans k ms with
    | error e =>
      obtain ⟨f, hf, r, hr, hh⟩ := stepModels_err ans k fs ms e hall hst
      refine ⟨?_, by simp, by simp, by simp⟩
      intro e' he'
      injection he' with he'; subst he'
      exact ⟨f, hf, r, hr, hh⟩
    | ok res =>
      obtain ⟨ms', rc, uc⟩ := res
      obtain ⟨h1, h2, h3⟩ := stepModels_ok ans k fs ms ms' rc uc hall hst
      simp only
      by_cases hcont : uc > 0 ∧ rc > 0
      · simp only [hcont, and_self, if_true]
        have hnext : All2 (fun f m => Inv ans (k + 1) f m) fs ms' := h1.imp (fun _ _ h => h.1)
        obtain ⟨j1, j2, j3, j4⟩ := ih (k + 1) ms' hnext
        exact ⟨j1, j2, j3, fun hlt => j4 (by omega)⟩
      · simp only [hcont, if_false]
        by_cases huc : uc > 0
        · simp only [huc, if_true]
          obtain ⟨m, x, hfd⟩ := firstDelayed_some ms' (by omega)
          obtain ⟨f, hf, hinv, hx⟩ := firstDelayed_mem ans (k + 1) fs ms' m x h1 hfd
          obtain ⟨_, _, r, hr, hid, hpos, _⟩ := hinv.cross x hx
          simp only [errUnresolvable, hfd]
          refine ⟨?_, by simp, by simp, by simp⟩
          intro e he
          injection he with he; subst he
          refine ⟨f, hf, r, hr, hinv.fname, by simp [hinv.pinfo, hpos], Or.inr (Or.inr ⟨rfl, k, ?_⟩)⟩
          rw [← hid]; exact hinv.pend x hx k (by omega)
        · simp only [huc, if_false]
          refine ⟨by simp, ?_, by simp, by simp⟩
          intro ms'' hms
          injection hms with hms; subst hms
          refine ⟨k + 1, ?_⟩
          exact crossrefs_nil_of_sum ans (k + 1) fs ms' h1 (by omega)

/-- a sorted list whose keys are a permutation of strictly increasing keys lists
the keys in that order; with a key-indexed description of its elements it is
element-wise described by the reference list -/
theorem forall₂_of_keys {Q : RefSpec → Entry → Prop} :
    ∀ (refs : List RefSpec) (l : List Entry),
      refs.Pairwise (fun a b => a.pos < b.pos) →
      l.map (·.refStart) = refs.map (·.pos) →
      (∀ e ∈ l, ∃ r ∈ refs, Q r e ∧ e.refStart = r.pos) →
      All2 Q refs l := by
  intro refs
  induction refs with
  | nil =>
    intro l _ hk _
    have : l = [] := by simpa using hk
    subst this; exact All2.nil
  | cons r rs ih =>
    intro l hp hk hq
    cases l with
    | nil => simp at hk
    | cons e es =>
      simp only [List.map_cons, List.cons.injEq] at hk
      have hpc := List.pairwise_cons.1 hp
      refine All2.cons ?_ (ih es hpc.2 hk.2 ?_)
      · obtain ⟨r', hr', hQ, hs⟩ := hq e (by simp)
        rcases List.mem_cons.1 hr' with rfl | hr'
        · exact hQ
        · have := hpc.1 r' hr'; omega
      · intro e' he'
        obtain ⟨r', hr', hQ, hs⟩ := hq e' (List.mem_cons_of_mem _ he')
        rcases List.mem_cons.1 hr' with rfl | hr'
        · have hm : e'.refStart ∈ es.map (·.refStart) := List.mem_map_of_mem he'
          rw [hk.2] at hm
          obtain ⟨r'', hr'', hpos⟩ := List.mem_map.1 hm
          have := hpc.1 r'' hr''; omega
        · exact ⟨r', hr', hQ, hs⟩

end LinkLoc
