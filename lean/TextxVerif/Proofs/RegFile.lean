import TextxVerif.Proofs.Reg
/-! Helper lemmas for the registry machine (C26), second part: the `*_for_file`
meta-model calls and the cache at the level of histories.

* equations for `metamodelForLanguage` (`mfl_fast` / `mfl_slow`) and the invariant
  `Loaded` (the cache is empty while the language registry is not loaded), which
  make `metamodel_for_file(f, **kw)` *literally* the call
  `metamodel_for_language(d.name, **kw)` for the one matching language `d`;
* `Spec.Run_C_spares`: a cache entry survives every call that `Op.spares` it;
* `Spec.mmLoop_*`: the loop of `metamodels_for_file` element by element. -/
namespace Reg

/-! ## equations for `metamodel_for_language` -/

theorem mfl_fast (E : Env) (s : St) (n : String) (m : MM) (hc : dget s.cache (E.lower n) = some m) :
    metamodelForLanguage E s n 0 = (s, .ok m) := by
  unfold metamodelForLanguage; simp only [hc]

theorem mfl_slow (E : Env) (hE : E.Ok) (s : St) (n : String) (kw : Nat)
    (hno : ∀ m, dget s.cache (E.lower n) = some m → kw = 0 → False) :
    metamodelForLanguage E s n kw =
      (match dget (s.curL E) (E.lower n) with
        | none => (s.loadL E, .raise .regError)
        | some d =>
            match d.mm with
            | .inst u => ({ s.loadL E with cache := dset s.cache (E.lower n) (.given u) }, .ok (.given u))
            | .factory =>
                ({ s.loadL E with cache := dset s.cache (E.lower n) (.made s.serial d.uid kw),
                                  serial := s.serial + 1 },
                  .ok (.made s.serial d.uid kw))
            | .badFactory => (s.loadL E, .raise .regError)
            | .notCallable => (s.loadL E, .raise .typeError)) := by
  have hm : metamodelForLanguage E s n kw =
      (match languageDescription E s (E.lower n) with
        | (s, .raise r) => (s, .raise r)
        | (s, .ok d) =>
            match d.mm with
            | .inst u => ({ s with cache := dset s.cache (E.lower n) (.given u) }, .ok (.given u))
            | .factory =>
                ({ s with cache := dset s.cache (E.lower n) (.made s.serial d.uid kw), serial := s.serial + 1 },
                  .ok (.made s.serial d.uid kw))
            | .badFactory => (s, .raise .regError)
            | .notCallable => (s, .raise .typeError)) := by
    unfold metamodelForLanguage
    simp only
    cases hc : dget s.cache (E.lower n) with
    | none => rfl
    | some m =>
      cases kw with
      | zero => exact absurd rfl (hno m hc)
      | succ k => rfl
  rw [hm, languageDescription_eq E hE, hE.lower_idem]
  cases dget (s.curL E) (E.lower n) with
  | none => rfl
  | some d =>
    simp only
    cases d.mm <;> rfl

/-! ## the cache is empty while the language registry is not loaded -/

def Loaded (s : St) : Prop := s.langs = none → s.cache = []

theorem loadL_of_some (E : Env) (s : St) (h : s.langs.isSome = true) : s.loadL E = s := by
  cases s with
  | mk langs cache serial gens =>
    cases langs with
    | none => simp at h
    | some ls => rfl

theorem Loaded_of_some (s : St) (h : s.langs.isSome = true) : Loaded s := by
  intro hn; rw [hn] at h; simp at h

theorem Loaded_loadL (E : Env) (s : St) : Loaded (s.loadL E) :=
  Loaded_of_some _ rfl

theorem mfl_loaded (E : Env) (hE : E.Ok) (s : St) (hl : Loaded s) (n : String) (kw : Nat) :
    Loaded (metamodelForLanguage E s n kw).1 := by
  by_cases fast : ∃ m, dget s.cache (E.lower n) = some m ∧ kw = 0
  · obtain ⟨m, hc, rfl⟩ := fast
    rw [mfl_fast E s n m hc]; exact hl
  · rw [mfl_slow E hE s n kw (fun m h1 h2 => fast ⟨m, h1, h2⟩)]
    cases dget (s.curL E) (E.lower n) with
    | none => exact Loaded_loadL E s
    | some d =>
      simp only
      cases d.mm <;> exact Loaded_of_some _ rfl

theorem mmLoop_loaded (E : Env) (hE : E.Ok) : ∀ (ds : List LangDesc) (s : St), Loaded s →
    Loaded (mmLoop E s ds).1
  | [], s, hl => hl
  | d :: ds, s, hl => by
    have h1 := mfl_loaded E hE s hl d.name 0
    unfold mmLoop
    cases hr : metamodelForLanguage E s d.name 0 with
    | mk s1 o1 =>
      rw [hr] at h1
      cases o1 with
      | raise r => exact h1
      | ok m =>
        have h2 := mmLoop_loaded E hE ds s1 h1
        simp only
        cases hr2 : mmLoop E s1 ds with
        | mk s2 o2 =>
          rw [hr2] at h2
          cases o2 <;> exact h2

/-- on a loaded-or-empty state the lazy load in front of `metamodel_for_language` changes nothing -/
theorem mfl_loadL (E : Env) (hE : E.Ok) (s : St) (hl : Loaded s) (n : String) (kw : Nat) :
    metamodelForLanguage E (s.loadL E) n kw = metamodelForLanguage E s n kw := by
  cases hs : s.langs with
  | some ls => rw [loadL_of_some E s (by simp [hs])]
  | none =>
    have hc : s.cache = [] := hl hs
    have hc' : (s.loadL E).cache = [] := hc
    rw [mfl_slow E hE (s.loadL E) n kw (by intro m h; rw [hc'] at h; cases h),
      mfl_slow E hE s n kw (by intro m h; rw [hc] at h; cases h)]
    rfl

theorem step_loaded (E : Env) (hE : E.Ok) (s : St) (hl : Loaded s) (op : Op) : Loaded (step E s op).1 := by
  cases op with
  | regLang d =>
    simp only [step, registerLanguage, langDescs_eq E hE]
    split <;> exact Loaded_of_some _ rfl
  | lang n => simp only [step, languageDescription_eq E hE]; exact Loaded_loadL E s
  | langKeys => simp only [step, langDescs_eq E hE]; exact Loaded_loadL E s
  | clearLangs => exact fun _ => rfl
  | mmLang n kw => exact mfl_loaded E hE s hl n kw
  | langsForFile f => simp only [step, languagesForFile_eq E hE]; exact Loaded_loadL E s
  | langForFile f => simp only [step, languageForFile_eq E hE]; exact Loaded_loadL E s
  | mmsForFile f =>
    simp only [step, metamodelsForFile, languagesForFile_eq E hE]
    exact mmLoop_loaded E hE _ _ (Loaded_loadL E s)
  | mmForFile f kw =>
    simp only [step, metamodelForFile, languageForFile_eq E hE]
    generalize ((s.curL E).map (·.2)).filter (patMatches E f) = l
    match l with
    | [] => exact Loaded_loadL E s
    | [d] => exact mfl_loaded E hE _ (Loaded_loadL E s) _ kw
    | _ :: _ :: _ => exact Loaded_loadL E s
  | regGen g =>
    simp only [step, registerGenerator, genDescs_eq E hE]
    cases regGenInto E (s.curG E) g <;> exact hl
  | gen l t any =>
    simp only [step, generatorDescription, genDescs_eq E hE]
    cases gget (s.curG E) (E.lower l) (E.lower t) with
    | some g => exact hl
    | none =>
      cases any with
      | false => exact hl
      | true =>
        simp only [if_true]
        cases gget (s.curG E) "any" (E.lower t) <;> exact hl
  | genKeys => simp only [step, genDescs_eq E hE]; exact hl
  | clearGens => exact hl

theorem run_loaded (E : Env) (hE : E.Ok) : ∀ (ops : List Op) (s : St), Loaded s → Loaded (run E s ops).1
  | [], _, hl => hl
  | op :: ops, s, hl => run_loaded E hE ops _ (step_loaded E hE s hl op)

theorem after_loaded (E : Env) (hE : E.Ok) (ops : List Op) : Loaded (after E ops) :=
  run_loaded E hE ops St.init (fun _ => rfl)

/-! ## `language_for_file` succeeds for the unique match -/

theorem enumerates_single_iff (E : Env) (a : Spec) (l : List LangDesc) (hl : LiveRel E a l)
    (f : String) (d : LangDesc) : Spec.Enumerates E a f [d] ↔ UniqueMatch E l f d := by
  constructor
  · rintro ⟨_, hmem⟩
    have hd := (hmem d).1 (by simp)
    rw [registered_live E _ _ hl] at hd
    refine ⟨hd.1, hd.2, fun d' h1 h2 => ?_⟩
    have := (hmem d').2 ⟨(registered_live E _ _ hl d').2 h1, h2⟩
    simpa using this
  · rintro ⟨h1, h2, h3⟩
    refine ⟨by simp, fun d' => ?_⟩
    rw [registered_live E _ _ hl]
    constructor
    · intro h; simp only [List.mem_singleton] at h; subst h; exact ⟨h1, h2⟩
    · rintro ⟨a, b⟩; simp only [List.mem_singleton]; exact h3 d' a b

/-- `metamodel_for_file(f, **kw)` is the call `metamodel_for_language(d.name, **kw)` — same
answer, same state — when `d` is the one registered language accepting `f` -/
theorem mmForFile_eq_mmLang (E : Env) (hE : E.Ok) (s : St) (hw : WF E s) (hl : Loaded s)
    (f : String) (kw : Nat) (d : LangDesc) (hen : Spec.Enumerates E (s.abs E) f [d]) :
    step E s (.mmForFile f kw) = step E s (.mmLang d.name kw) := by
  have h1 := enumerates_single E _ f _ d (enumerates_cur E s hw f) hen
  simp only [step, metamodelForFile, languageForFile_eq E hE, h1]
  rw [mfl_loadL E hE s hl]

/-- …and raises `TextXRegistrationError`, loading the registry at most, otherwise -/
theorem mmForFile_none (E : Env) (hE : E.Ok) (s : St) (hw : WF E s)
    (f : String) (kw : Nat) (hno : ¬ ∃ d, Spec.Enumerates E (s.abs E) f [d]) :
    step E s (.mmForFile f kw) = (s.loadL E, .regError) := by
  simp only [step, metamodelForFile, languageForFile_eq E hE]
  have hen := enumerates_cur E s hw f
  generalize ((s.curL E).map (·.2)).filter (patMatches E f) = l at hen
  match l, hen with
  | [], _ => rfl
  | [d], hen => exact absurd ⟨d, hen⟩ hno
  | _ :: _ :: _, _ => rfl

/-- two live languages with the same folded name are the same descriptor -/
theorem LiveRel_inj (E : Env) (a : Spec) (l : List LangDesc) (hl : LiveRel E a l) (d d' : LangDesc)
    (hd : d ∈ l) (hd' : d' ∈ l) (e : E.lower d'.name = E.lower d.name) : d' = d := by
  have h1 := (hl (E.lower d.name) d).2 ⟨hd, rfl⟩
  have h2 := (hl (E.lower d.name) d').2 ⟨hd', e.symm⟩
  rw [h1] at h2
  exact (Option.some.inj h2).symm

/-! ## which calls can replace a cache entry -/

theorem resolvesTo_iff (E : Env) (l : List LangDesc) (f k : String) :
    resolvesTo E l f k = true ↔ ∃ d, UniqueMatch E l f d ∧ E.lower d.name = k := by
  unfold resolvesTo UniqueMatch
  simp only [List.any_eq_true, Bool.and_eq_true, List.all_eq_true, Bool.or_eq_true,
    Bool.not_eq_true', beq_iff_eq]
  constructor
  · rintro ⟨d, hd, ⟨hm, hk⟩, hall⟩
    refine ⟨d, ⟨hd, hm, fun d' hd' hm' => ?_⟩, hk⟩
    rcases hall d' hd' with h | h
    · rw [hm'] at h; cases h
    · exact h
  · rintro ⟨d, ⟨hd, hm, hu⟩, hk⟩
    refine ⟨d, hd, ⟨hm, hk⟩, fun d' hd' => ?_⟩
    cases h : patMatches E f d' with
    | false => exact Or.inl rfl
    | true => exact Or.inr (hu d' hd' h)

theorem Spec.metamodel_C_other (E : Env) (a : Spec) (n : String) (kw : Nat) (k : String)
    (hne : k ≠ E.lower n) : (Spec.metamodel E a n kw).1.C k = a.C k := by
  unfold Spec.metamodel
  simp only
  split
  · rfl
  · split
    · rfl
    · split
      · simp [fupd, hne]
      · simp [fupd, hne]
      · rfl
      · rfl

theorem Spec.Step_C_spares (E : Env) (a a' : Spec) (op : Op) (r : Res) (l : List LangDesc)
    (h : Spec.Step E a op r a') (hl : LiveRel E a l) (k : String) (hs : op.spares E k l = true)
    (m : MM) (hc : a.C k = some m) : a'.C k = some m := by
  cases op with
  | clearLangs => simp [Op.spares] at hs
  | mmLang n kw =>
    obtain ⟨ha, _⟩ := h
    subst ha
    simp only [Op.spares, Bool.or_eq_true, beq_iff_eq, bne_iff_ne, ne_eq] at hs
    rcases hs with hz | hne
    · subst hz; exact Spec.metamodel_keep E a n k m hc
    · rw [Spec.metamodel_C_other E a n kw k (fun e => hne e.symm)]; exact hc
  | mmForFile f kw =>
    rcases h with ⟨d, hen, ha, _⟩ | ⟨_, _, ha⟩
    · subst ha
      simp only [Op.spares, Bool.or_eq_true, beq_iff_eq, Bool.not_eq_true'] at hs
      rcases hs with hz | hnr
      · subst hz; exact Spec.metamodel_keep E a d.name k m hc
      · have hne : k ≠ E.lower d.name := by
          intro e
          have := (resolvesTo_iff E l f k).2 ⟨d, (enumerates_single_iff E a l hl f d).1 hen, e.symm⟩
          rw [this] at hnr; cases hnr
        rw [Spec.metamodel_C_other E a d.name kw k hne]; exact hc
    · subst ha; exact hc
  | mmsForFile f =>
    obtain ⟨ds, _, ha, _⟩ := h
    subst ha
    exact (Spec.mmLoop_frame E ds a).2.2.2.1 k m hc
  | regLang d => exact (Spec.Step_frame E a a' _ r h).2.2.2.1 rfl k m hc
  | lang n => exact (Spec.Step_frame E a a' _ r h).2.2.2.1 rfl k m hc
  | langKeys => exact (Spec.Step_frame E a a' _ r h).2.2.2.1 rfl k m hc
  | langsForFile f => exact (Spec.Step_frame E a a' _ r h).2.2.2.1 rfl k m hc
  | langForFile f => exact (Spec.Step_frame E a a' _ r h).2.2.2.1 rfl k m hc
  | regGen g => exact (Spec.Step_frame E a a' _ r h).2.2.2.1 rfl k m hc
  | gen l t any => exact (Spec.Step_frame E a a' _ r h).2.2.2.1 rfl k m hc
  | genKeys => exact (Spec.Step_frame E a a' _ r h).2.2.2.1 rfl k m hc
  | clearGens => exact (Spec.Step_frame E a a' _ r h).2.2.2.1 rfl k m hc

theorem Spec.Run_C_spares (E : Env) (hE : E.Ok) : ∀ (ops : List Op) (a : Spec) (rs : List Res) (a' : Spec)
    (l : List LangDesc), Spec.Run E a ops rs a' → LiveRel E a l → ∀ k, sparesAll E k l ops = true →
    ∀ m, a.C k = some m → a'.C k = some m
  | [], a, rs, a', l, h, _, k, _, m, hc => by obtain ⟨_, rfl⟩ := h; exact hc
  | op :: ops, a, rs, a', l, h, hl, k, hs, m, hc => by
    obtain ⟨r, rs', a1, _, hst, hr⟩ := h
    simp only [sparesAll, Bool.and_eq_true] at hs
    exact Spec.Run_C_spares E hE ops a1 rs' a' _ hr (LiveRel_step E hE a a1 op r l hst hl) k hs.2 m
      (Spec.Step_C_spares E a a1 op r l hst hl k hs.1 m hc)

/-- the old, coarser condition implies the new one -/
theorem sparesAll_of_keepsCache (E : Env) (k : String) : ∀ (ops : List Op) (l : List LangDesc),
    (∀ op, op ∈ ops → op.keepsCache = true) → sparesAll E k l ops = true
  | [], _, _ => rfl
  | op :: ops, l, h => by
    simp only [sparesAll, Bool.and_eq_true]
    refine ⟨?_, sparesAll_of_keepsCache E k ops _ (fun o ho => h o (List.mem_cons_of_mem _ ho))⟩
    have := h op (by simp)
    cases op <;> simp_all [Op.spares, Op.keepsCache]

theorem live_snoc (E : Env) (ops : List Op) (op : Op) :
    live E (ops ++ [op]) = liveStep E (live E ops) op := by
  simp [live, List.foldl_append]

/-- core of the cache-hit theorems: an entry cached under `k` by the call `op0` (which
registers nothing) is what every argument-less request finds after calls sparing `k` -/
theorem cache_hit_core (E : Env) (hE : E.Ok) (ops ops' : List Op) (op0 : Op) (k : String) (m : MM)
    (hnl : liveStep E (live E ops) op0 = live E ops)
    (hc : ((step E (after E ops) op0).1.abs E).C k = some m)
    (hq : sparesAll E k (live E ops) ops' = true) (n' : String) (hn' : E.lower n' = k) :
    step E (after E (ops ++ op0 :: ops')) (.mmLang n' 0) = (after E (ops ++ op0 :: ops'), .mm m) := by
  obtain ⟨_, hw⟩ := after_sim E hE ops
  obtain ⟨hs, hw1⟩ := step_sim E hE (after E ops) hw op0
  have hl1 := LiveRel_step E hE _ _ op0 _ (live E ops) hs (after_live E hE ops)
  rw [hnl] at hl1
  obtain ⟨hrun, _⟩ := run_sim E hE ops' _ hw1
  have h2 := Spec.Run_C_spares E hE ops' _ _ _ _ hrun hl1 k hq m hc
  rw [← after_snoc_cons] at h2
  have h3 : dget (after E (ops ++ op0 :: ops')).cache (E.lower n') = some m := by
    rw [hn']; exact h2
  simp only [step, metamodelForLanguage, h3, Out.res]

/-! ## the loop of `metamodels_for_file`, element by element -/

theorem Owns_usable (d : LangDesc) (m : MM) (h : Owns d m) : d.mm.usable = true := by
  cases m with
  | given u => simp only [Owns] at h; rw [h]; rfl
  | made i b w => simp only [Owns] at h; rw [h.1]; rfl

theorem Spec.metamodel_ok_of_usable (E : Env) (a : Spec) (n : String) (kw : Nat) (d : LangDesc)
    (hL : a.L (E.lower n) = some d) (hu : d.mm.usable = true) :
    ∃ m, (Spec.metamodel E a n kw).2 = .ok m := by
  by_cases fast : ∃ m', a.C (E.lower n) = some m' ∧ kw = 0
  · obtain ⟨m', hc, rfl⟩ := fast
    exact ⟨m', by rw [Spec.metamodel_fast E a n m' hc]⟩
  · rw [Spec.metamodel_slow E a n kw (fun m h1 h2 => fast ⟨m, h1, h2⟩)]
    simp only [hL]
    cases hm : d.mm with
    | inst u => exact ⟨_, rfl⟩
    | factory => exact ⟨_, rfl⟩
    | badFactory => rw [hm] at hu; cases hu
    | notCallable => rw [hm] at hu; cases hu

theorem Spec.mmLoop_ok_of_usable (E : Env) : ∀ (ds : List LangDesc) (a : Spec),
    (∀ d, d ∈ ds → a.L (E.lower d.name) = some d ∧ d.mm.usable = true) →
    ∃ ms, (Spec.mmLoop E a ds).2 = .ok ms
  | [], a, _ => ⟨[], rfl⟩
  | d :: ds, a, h => by
    obtain ⟨m, hm⟩ := Spec.metamodel_ok_of_usable E a d.name 0 d (h d (by simp)).1 (h d (by simp)).2
    have f1 := (Spec.metamodel_frame E a d.name 0).1
    unfold Spec.mmLoop
    cases hr : Spec.metamodel E a d.name 0 with
    | mk a1 o1 =>
      rw [hr] at hm f1
      simp only at hm f1
      subst hm
      obtain ⟨ms, hms⟩ := Spec.mmLoop_ok_of_usable E ds a1 (by
        intro d' hd'
        rw [f1]
        exact h d' (List.mem_cons_of_mem _ hd'))
      simp only
      cases hr2 : Spec.mmLoop E a1 ds with
      | mk a2 o2 =>
        rw [hr2] at hms
        simp only at hms
        subst hms
        exact ⟨m :: ms, rfl⟩

/-- every answered meta-model belongs to its language and is cached under its name when the loop ends -/
theorem Spec.mmLoop_owns (E : Env) : ∀ (ds : List LangDesc) (a : Spec), a.Coh →
    (∀ d, d ∈ ds → a.L (E.lower d.name) = some d) →
    ∀ ms, (Spec.mmLoop E a ds).2 = .ok ms →
      AllPairs (fun d m => Owns d m ∧ (Spec.mmLoop E a ds).1.C (E.lower d.name) = some m) ds ms
  | [], a, _, _, ms, h => by
    simp only [Spec.mmLoop, Out.ok.injEq] at h
    subst h; exact True.intro
  | d :: ds, a, hc, hL, ms, h => by
    obtain ⟨c1, c2⟩ := Spec.metamodel_coh E a d.name 0 hc
    have f1 := (Spec.metamodel_frame E a d.name 0).1
    have k1 := Spec.metamodel_ok_cached E a d.name 0
    unfold Spec.mmLoop at h ⊢
    cases hr : Spec.metamodel E a d.name 0 with
    | mk a1 o1 =>
      rw [hr] at h c1 c2 f1 k1
      simp only at h c1 c2 f1 k1 ⊢
      cases o1 with
      | raise r => cases h
      | ok m =>
        have ih := Spec.mmLoop_owns E ds a1 c1 (by
          intro d' hd'
          rw [f1]
          exact hL d' (List.mem_cons_of_mem _ hd'))
        have g4 := (Spec.mmLoop_frame E ds a1).2.2.2.1
        simp only at h ⊢
        cases hr2 : Spec.mmLoop E a1 ds with
        | mk a2 o2 =>
          rw [hr2] at h ih g4
          simp only at h ih g4 ⊢
          cases o2 with
          | raise r => cases h
          | ok ms' =>
            simp only [Out.ok.injEq] at h
            subst h
            obtain ⟨d0, hd0, how⟩ := c2 m rfl
            rw [hL d (by simp)] at hd0
            cases hd0
            exact ⟨⟨how, g4 _ _ (k1 m rfl)⟩, ih ms' rfl⟩

/-- a successful loop is the run of its argument-less calls, one after the other -/
theorem mmLoop_run (E : Env) : ∀ (ds : List LangDesc) (s s' : St) (ms : List MM),
    mmLoop E s ds = (s', .ok ms) → run E s (mmCalls ds) = (s', ms.map .mm)
  | [], s, s', ms, h => by
    simp only [mmLoop, Prod.mk.injEq, Out.ok.injEq] at h
    obtain ⟨rfl, rfl⟩ := h
    rfl
  | d :: ds, s, s', ms, h => by
    unfold mmLoop at h
    cases hr : metamodelForLanguage E s d.name 0 with
    | mk s1 o1 =>
      rw [hr] at h
      cases o1 with
      | raise r => cases h
      | ok m =>
        simp only at h
        cases hr2 : mmLoop E s1 ds with
        | mk s2 o2 =>
          rw [hr2] at h
          cases o2 with
          | raise r => cases h
          | ok ms' =>
            simp only [Prod.mk.injEq, Out.ok.injEq] at h
            obtain ⟨rfl, rfl⟩ := h
            have ih := mmLoop_run E ds s1 s2 ms' hr2
            simp only [mmCalls, List.map_cons, run, step, hr, Out.res]
            simp only [mmCalls] at ih
            rw [ih]

/-! ## small tools for the property theorems -/

theorem AllPairs_imp {α β : Type} {R Q : α → β → Prop} : ∀ (as : List α) (bs : List β),
    (∀ a b, a ∈ as → R a b → Q a b) → AllPairs R as bs → AllPairs Q as bs
  | [], [], _, _ => True.intro
  | [], _ :: _, _, h => h.elim
  | _ :: _, [], _, h => h.elim
  | a :: as, b :: bs, himp, h =>
    ⟨himp a b (by simp) h.1, AllPairs_imp as bs (fun a' b' ha' => himp a' b' (List.mem_cons_of_mem _ ha')) h.2⟩

theorem AllPairs_left {α β : Type} {R : α → β → Prop} : ∀ (as : List α) (bs : List β),
    AllPairs R as bs → ∀ a, a ∈ as → ∃ b, R a b
  | [], _, _, _, ha => by cases ha
  | _ :: _, [], h, _, _ => h.elim
  | a0 :: as, b0 :: bs, h, a, ha => by
    rcases List.mem_cons.1 ha with e | e
    · subst e; exact ⟨b0, h.1⟩
    · exact AllPairs_left as bs h.2 a e

theorem AllPairs_length {α β : Type} {R : α → β → Prop} : ∀ (as : List α) (bs : List β),
    AllPairs R as bs → as.length = bs.length
  | [], [], _ => rfl
  | [], _ :: _, h => h.elim
  | _ :: _, [], h => h.elim
  | _ :: as, _ :: bs, h => by simp [AllPairs_length as bs h.2]

theorem after_snoc (E : Env) (ops : List Op) (op : Op) :
    after E (ops ++ [op]) = (step E (after E ops) op).1 := by
  rw [after_snoc_cons]; rfl

theorem Spec.metamodel_raise_kind (E : Env) (a : Spec) (n : String) (kw : Nat) (r : Res)
    (h : (Spec.metamodel E a n kw).2 = .raise r) : r = .regError ∨ r = .typeError := by
  unfold Spec.metamodel at h
  simp only at h
  split at h
  · cases h
  · split at h
    · cases h; exact Or.inl rfl
    · split at h
      · cases h
      · cases h
      · cases h; exact Or.inl rfl
      · cases h; exact Or.inr rfl

theorem Spec.mmLoop_raise_kind (E : Env) : ∀ (ds : List LangDesc) (a : Spec) (r : Res),
    (Spec.mmLoop E a ds).2 = .raise r → r = .regError ∨ r = .typeError
  | [], a, r, h => by simp [Spec.mmLoop] at h
  | d :: ds, a, r, h => by
    unfold Spec.mmLoop at h
    cases hr : Spec.metamodel E a d.name 0 with
    | mk a1 o1 =>
      have h1 := Spec.metamodel_raise_kind E a d.name 0
      rw [hr] at h h1
      simp only at h h1
      cases o1 with
      | raise r1 =>
        simp only [Out.raise.injEq] at h
        subst h; exact h1 r1 rfl
      | ok m =>
        simp only at h
        cases hr2 : Spec.mmLoop E a1 ds with
        | mk a2 o2 =>
          have h2 := Spec.mmLoop_raise_kind E ds a1
          rw [hr2] at h h2
          simp only at h h2
          cases o2 with
          | raise r2 =>
            simp only [Out.raise.injEq] at h
            subst h; exact h2 r2 rfl
          | ok ms => cases h

end Reg
