import TextxVerif.Peg.Arp
/-!
# Fuel monotonicity of the Arpeggio mirror

If a run does not end with `fuel`, more fuel gives exactly the same result and state.
So the verdict of the mirror is well defined ("the result for sufficient fuel").
Proved helper by helper, parametric in the sub-parser.
-/
namespace Peg

/-- `p'` extends `p`: wherever `p` finishes, `p'` finishes with the same result and state -/
def Le (p p' : SubParser) : Prop := ∀ e s r t, p e s = (r, t) → r ≠ .fuel → p' e s = (r, t)

/-- same for a state transformer (comment loop, loop bodies) -/
def LeB (b b' : PState → Res × PState) : Prop := ∀ s r t, b s = (r, t) → r ≠ .fuel → b' s = (r, t)

theorem Le.refl (p : SubParser) : Le p p := fun _ _ _ _ h _ => h

theorem seqLoop_le {p p' : SubParser} (h : Le p p') :
    ∀ es s acc r t, seqLoop p es s acc = (r, t) → r ≠ .fuel → seqLoop p' es s acc = (r, t) := by
  intro es
  induction es with
  | nil => intro s acc r t h1 _; simpa [seqLoop] using h1
  | cons e es ih =>
    intro s acc r t h1 hr
    simp only [seqLoop] at h1 ⊢
    unfold Le at h
    grind

theorem choiceLoop_le {p p' : SubParser} (h : Le p p') :
    ∀ es c s r t, choiceLoop p es c s = (r, t) → r ≠ .fuel → choiceLoop p' es c s = (r, t) := by
  intro es
  induction es with
  | nil => intro c s r t h1 _; simpa [choiceLoop] using h1
  | cons e es ih =>
    intro c s r t h1 hr
    simp only [choiceLoop] at h1 ⊢
    unfold Le at h
    grind

theorem unordFor_le {p p' : SubParser} (h : Le p p') :
    ∀ es pl s se m r t, unordFor p es pl s se m = (r, t) → r ≠ .fuel → unordFor p' es pl s se m = (r, t) := by
  intro es
  induction es with
  | nil => intro pl s se m r t h1 _; simpa [unordFor] using h1
  | cons e es ih =>
    intro pl s se m r t h1 hr
    simp only [unordFor] at h1 ⊢
    unfold Le at h
    grind

theorem repLoop_le {p p' : SubParser} (h : Le p p') (e : Nat) (sep : Option Nat) :
    ∀ k k', k ≤ k' → ∀ s acc f pv r t, repLoop p e sep k s acc f pv = (r, t) → r ≠ .fuel →
      repLoop p' e sep k' s acc f pv = (r, t) := by
  intro k
  induction k with
  | zero => intro k' _ s acc f pv r t h1 hr; simp [repLoop] at h1; exact absurd h1.1.symm hr
  | succ k ih =>
    intro k' hk s acc f pv r t h1 hr
    obtain ⟨k'', rfl⟩ : ∃ k'', k' = k'' + 1 := ⟨k' - 1, by omega⟩
    have ih' := ih k'' (by omega)
    simp only [repLoop] at h1 ⊢
    unfold Le at h
    grind

theorem unordLoop_le {p p' : SubParser} (h : Le p p') (sep : Option Nat) :
    ∀ k k', k ≤ k' → ∀ todo s acc f sr r t, unordLoop p sep k todo s acc f sr = (r, t) → r ≠ .fuel →
      unordLoop p' sep k' todo s acc f sr = (r, t) := by
  intro k
  induction k with
  | zero => intro k' _ todo s acc f sr r t h1 hr; simp [unordLoop] at h1; exact absurd h1.1.symm hr
  | succ k ih =>
    intro k' hk todo s acc f sr r t h1 hr
    obtain ⟨k'', rfl⟩ : ∃ k'', k' = k'' + 1 := ⟨k' - 1, by omega⟩
    have ih' := ih k'' (by omega)
    have hf := @unordFor_le p p' h
    cases todo with
    | nil => simpa [unordLoop] using h1
    | cons e0 es0 =>
      simp only [unordLoop] at h1 ⊢
      unfold Le at h
      grind

theorem commentsIter_le (g : Grammar) {p p' : SubParser} (h : Le p p') (cm : Nat) :
    ∀ k k', k ≤ k' → LeB (commentsIter g p cm k) (commentsIter g p' cm k') := by
  intro k
  induction k with
  | zero => intro k' _ s r t h1 hr; simp [commentsIter] at h1; exact absurd h1.1.symm hr
  | succ k ih =>
    intro k' hk s r t h1 hr
    obtain ⟨k'', rfl⟩ : ∃ k'', k' = k'' + 1 := ⟨k' - 1, by omega⟩
    have ih' := ih k'' (by omega)
    simp only [commentsIter] at h1 ⊢
    unfold Le at h
    unfold LeB at ih'
    grind

theorem commentsLoop_le (g : Grammar) {p p' : SubParser} (h : Le p p') :
    ∀ k k', k ≤ k' → LeB (commentsLoop g p k) (commentsLoop g p' k') := by
  intro k k' hk s r t h1 hr
  unfold commentsLoop at h1 ⊢
  cases hc : g.comments with
  | none => simp only [hc] at h1 ⊢; exact h1
  | some cm => simp only [hc] at h1 ⊢; exact commentsIter_le g h cm k k' hk s r t h1 hr

theorem matchNode_le (g : Grammar) {pc pc' : PState → Res × PState} (h : LeB pc pc') (id : Nat) (nd : Node) :
    LeB (matchNode g pc id nd) (matchNode g pc' id nd) := by
  intro s r t h1 hr
  unfold matchNode at h1 ⊢
  unfold LeB at h
  grind

theorem withWsCtx_le (nd : Node) {b b' : PState → Res × PState} (h : LeB b b') :
    LeB (withWsCtx nd b) (withWsCtx nd b') := by
  intro s r t h1 hr
  unfold withWsCtx at h1 ⊢
  unfold LeB at h
  grind

theorem withEol_le (nd : Node) {b b' : PState → Res × PState} (h : LeB b b') :
    LeB (withEol nd b) (withEol nd b') := by
  intro s r t h1 hr
  unfold withEol at h1 ⊢
  unfold LeB at h
  grind
