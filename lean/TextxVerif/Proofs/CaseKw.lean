import TextxVerif.Peg.CaseKw
import TextxVerif.Proofs.Case
import TextxVerif.Proofs.Kwd
import TextxVerif.Proofs.ReFold
/-!
Lemmas that connect the Arpeggio mirror with token tables (`Peg.Case`) to the regex engine
(`Re`) and the autokwd model (`Kwd`):

* case-fold invariance of `reRx` (discharges `RxFoldInv` for engine-run tokens);
* the row of a `keyword\b` token in closed form, and its agreement with the row of the
  plain string match away from glued keywords;
* the parser models with and without `autokwd` are `SimilarK` on such an input.
-/
namespace Peg.Case
open Re

/-! ## fold invariance of engine-run tokens -/

theorem stAt_fold (cc : CharClasses) {a b : Array Char} (h : FoldEq cc.fold a b) (p : Nat) :
    FoldSt cc (stAt a p) (stAt b p) := by
  have hg : ∀ i : Nat, (a[i]?).map cc.fold = (b[i]?).map cc.fold := by
    intro i
    have h1 : (a.toList.map cc.fold)[i]? = (b.toList.map cc.fold)[i]? := by rw [h]
    simpa [List.getElem?_map] using h1
  refine ⟨?_, ?_⟩
  · simp only [stAt]
    split
    · rfl
    · exact hg _
  · simp only [stAt]
    rw [List.map_drop, List.map_drop, h]

/-- a token run by the Lean regex engine on a fold-invariant pattern satisfies what C20 assumes of
`re.IGNORECASE` -/
theorem reRx_foldInv (cc : CharClasses) (r : R) (hr : FoldInvR cc r) {a b : Array Char} (h : FoldEq cc.fold a b)
    (p : Nat) : reRx cc r a p = reRx cc r b p := by
  have hs := stAt_fold cc h p
  exact pyMatch_fold cc r hr _ _ _ _ hs.1 hs.2

theorem foldInvR_kwRe (cc : CharClasses) (hw : FoldWordAll cc) (l : List Char) : FoldInvR cc (Kwd.kwRe true l) := by
  induction l with
  | nil => exact hw
  | cons c cs ih => exact ⟨trivial, ih⟩

/-! ## closed form of the rows -/

theorem strMatchLen_litMatch (cc : CharClasses) (l : List Char) (ic : Bool) (inp : Array Char) (p : Nat) :
    strMatchLen cc.fold l ic inp p =
      if Kwd.litMatch cc ic l (inp.toList.drop p) = true then some l.length else none := by
  unfold strMatchLen Kwd.litMatch
  simp only [slice_eq]

/-- the row of a keyword match: the literal is there (up to case under ignore_case) and the next
character is not a word character -/
theorem reRx_kwRe (cc : CharClasses) (ic : Bool) (hfw : ic = true → FoldWordAll cc) (l : List Char)
    (hk : Kwd.isKeywordLike cc ic l = true) (inp : Array Char) (p : Nat) :
    reRx cc (Kwd.kwRe ic l) inp p =
      if Kwd.litMatch cc ic l (inp.toList.drop p) = true ∧
          isWordO cc ((inp.toList.drop p).drop l.length).head? = false
      then some l.length else none := by
  obtain ⟨hne, hw⟩ := Kwd.kw_all_word cc ic l hk
  simp only [reRx, pyMatch, pyMatchSt, stAt, Kwd.m_kwRe]
  generalize inp.toList.drop p = s
  generalize (if p = 0 then none else inp[p - 1]?) = q
  by_cases hm : Kwd.litMatch cc ic l s = true
  · have hlast := Kwd.lastOr_take_word cc ic hfw l s q hne hw hm
    have hlen := Kwd.litMatch_length cc ic l s hm
    have hdl : s.length - (s.drop l.length).length = l.length := by
      rw [List.length_drop]; omega
    generalize s.drop l.length = rest at *
    generalize lastOr q (s.take l.length) = q' at *
    by_cases hn : isWordO cc rest.head? = true
    · simp [hm, atBoundary, hlast, hn]
    · have hn' : isWordO cc rest.head? = false := by simpa using hn
      simp [hm, atBoundary, hlast, hn', hdl]
  · simp [hm]

theorem kw_length_pos (cc : CharClasses) (ic : Bool) (l : List Char) (hk : Kwd.isKeywordLike cc ic l = true) :
    l.length ≠ 0 := by
  have := (Kwd.kw_all_word cc ic l hk).1
  intro h
  exact this (List.length_eq_zero_iff.mp h)

/-! ## the token tables with and without autokwd -/

theorem tokRow_autokwd (cc : CharClasses) (ic : Bool) (hfw : ic = true → FoldWordAll cc) (rx0 : Rx)
    (toks : Array Tok) (hu : UniformIc ic toks) (inp : Array Char) (hng : NoGluedKeywordIn cc ic toks inp)
    (i : Nat) (hi : i < toks.size) :
    tokRow cc.fold (kwRx cc ic toks rx0 i) (autokwdTok cc ic toks[i]) inp = tokRow cc.fold (rx0 i) toks[i] inp := by
  have hget : toks[i]? = some toks[i] := Array.getElem?_eq_getElem hi
  cases ht : toks[i] with
  | str l ic' =>
    rw [ht] at hget
    have hic : ic' = ic := hu i l ic' hget
    subst hic
    by_cases hk : Kwd.isKeywordLike cc ic' l = true
    · simp only [autokwdTok, hk, if_true, tokRow]
      apply Array.ext
      · simp
      · intro j h1 h2
        have hj : j ≤ inp.size := by
          simp at h1; omega
        simp only [Array.getElem_ofFn, kwRx, hget, isKwTok, hk, if_true]
        rw [reRx_kwRe cc ic' hfw l hk, strMatchLen_litMatch]
        by_cases hm : Kwd.litMatch cc ic' l (inp.toList.drop j) = true
        · have := hng i l ic' hget hk j hj hm
          rw [if_pos ⟨hm, this⟩, if_pos hm]
        · rw [if_neg (fun hh => hm hh.1), if_neg hm]
    · have hk' : Kwd.isKeywordLike cc ic' l = false := by simpa using hk
      simp [autokwdTok, hk', tokRow]
  | re =>
    rw [ht] at hget
    have : kwRx cc ic toks rx0 i = rx0 i := by
      funext inp p
      simp [kwRx, hget, isKwTok]
    simp [autokwdTok, tokRow, this]
  | kw l =>
    rw [ht] at hget
    have : kwRx cc ic toks rx0 i = rx0 i := by
      funext inp p
      simp [kwRx, hget, isKwTok]
    simp [autokwdTok, tokRow, this]
  | other => rfl

theorem tokTable_autokwd (cc : CharClasses) (ic : Bool) (hfw : ic = true → FoldWordAll cc) (rx0 : Rx)
    (toks : Array Tok) (hu : UniformIc ic toks) (inp : Array Char) (hng : NoGluedKeywordIn cc ic toks inp) :
    tokTable cc.fold (kwRx cc ic toks rx0) (toks.map (autokwdTok cc ic)) inp = tokTable cc.fold rx0 toks inp := by
  apply Array.ext
  · simp [tokTable]
  · intro i h1 h2
    have hi : i < toks.size := by simpa [tokTable] using h2
    simp only [tokTable, Array.getElem_ofFn, Fin.getElem_fin, Array.getElem_map]
    exact tokRow_autokwd cc ic hfw rx0 toks hu inp hng i hi

/-- a keyword-like string literal never matches empty -/
theorem tokLen_kw_ne_zero (cc : CharClasses) (ic : Bool) (rx0 : Rx) (L : Lang) (inp : Array Char) (t : Nat)
    (hk : isKwTok cc ic L.toks[t]? = true) (p : Nat) : tokLen (L.grammar cc.fold rx0 inp) t p ≠ some 0 := by
  intro h
  cases ht : L.toks[t]? with
  | none => simp [ht, isKwTok] at hk
  | some tk =>
    cases tk with
    | str l ic' =>
      simp only [ht, isKwTok] at hk
      have hts : t < L.toks.size := by
        by_cases hts : t < L.toks.size
        · exact hts
        · simp [Array.getElem?_eq_none (Nat.le_of_not_lt hts)] at ht
      have hget : L.toks[t] = .str l ic' := by
        have := Array.getElem?_eq_getElem hts
        rw [ht] at this
        exact (Option.some.inj this).symm
      simp only [tokLen, Lang.grammar, tokTable] at h
      rw [Array.getElem?_ofFn] at h
      simp only [hts, dite_true, Fin.getElem_fin, hget, tokRow] at h
      rw [Array.getElem?_ofFn] at h
      split at h
      · simp only [Option.join_some, strMatchLen_litMatch] at h
        split at h
        · simp at h
          exact (Kwd.kw_all_word cc ic l hk).1 h
        · simp at h
      · simp at h
    | re => simp [ht, isKwTok] at hk
    | kw l => simp [ht, isKwTok] at hk
    | other => simp [ht, isKwTok] at hk

theorem similarK_autokwd (cc : CharClasses) (ic : Bool) (hfw : ic = true → FoldWordAll cc) (rx0 : Rx) (L : Lang)
    (hu : UniformIc ic L.toks) (inp : Array Char) (hng : NoGluedKeywordIn cc ic L.toks inp) :
    SimilarK (fun _ => True) (L.grammar cc.fold rx0 inp)
      ((L.autokwd cc ic).grammar cc.fold (kwRx cc ic L.toks rx0) inp) where
  nodes := by
    intro id
    simp only [Lang.grammar, Lang.autokwd, Array.getElem?_map]
    cases hnd : L.nodes[id]? with
    | none => exact .inl ⟨rfl, rfl⟩
    | some nd =>
      refine .inr ⟨nd, autokwdNode cc ic L.toks nd, rfl, rfl, ?_⟩
      unfold autokwdNode
      split
      · rename_i hc
        simp only [Bool.and_eq_true, decide_eq_true_eq] at hc
        exact .inr ⟨rfl, .inr rfl, .inl hc.1, fun p => tokLen_kw_ne_zero cc ic rx0 L inp nd.tok hc.2 p⟩
      · exact .inl rfl
  comments := rfl
  memo := rfl
  toks := tokTable_autokwd cc ic hfw rx0 L.toks hu inp hng
  size := rfl
  skip := fun _ _ _ _ => rfl

/-- the terminal values do not depend on `autokwd`: a `KeywordMatch` yields the grammar literal like a `StrMatch` -/
theorem termValue_autokwd (cc : CharClasses) (ic : Bool) (toks : Array Tok) (inp : Array Char) (n p l : Nat) :
    termValue (toks.map (autokwdTok cc ic)) inp n p l = termValue toks inp n p l := by
  unfold termValue
  rw [Array.getElem?_map]
  cases toks[n]? with
  | none => rfl
  | some t =>
    cases t with
    | str lit i =>
      by_cases hk : Kwd.isKeywordLike cc ic lit = true
      · simp [autokwdTok, hk]
      · simp [autokwdTok, hk]
    | _ => rfl

/-! ## soundness of the decidable criteria -/

theorem uniformIc_sound {ic : Bool} {toks : Array Tok} (h : uniformIc ic toks = true) : UniformIc ic toks := by
  intro i l ic' ht
  unfold uniformIc at h
  rw [List.all_eq_true] at h
  have hm : Tok.str l ic' ∈ toks.toList := by
    have := Array.mem_of_getElem? ht
    exact Array.mem_toList_iff.mpr this
  have := h _ hm
  simpa using this

theorem noGluedKeywordInB_sound {cc : CharClasses} {ic : Bool} {toks : Array Tok} {inp : Array Char}
    (h : noGluedKeywordInB cc ic toks inp = true) : NoGluedKeywordIn cc ic toks inp := by
  intro i l ic' ht hk p hp hm
  unfold noGluedKeywordInB at h
  rw [List.all_eq_true] at h
  have hmem : Tok.str l ic' ∈ toks.toList := Array.mem_toList_iff.mpr (Array.mem_of_getElem? ht)
  have := h _ hmem
  simp only [hk, Bool.not_true, Bool.false_or, List.all_eq_true, List.mem_range] at this
  have := this p (by omega)
  simpa [hm] using this

end Peg.Case
