import TextxVerif.Proofs.RuleTypesInh
/-!
Helper lemmas for C03, part 4: `FirstNM` read through the explicit list of
alternatives (`Body.alts`): `FirstNM k b o` iff some alternative of `b` has `o`
as its first non-match reference.
-/
namespace RuleTypes

theorem firstNMof_append (k : Kinds) (a b : List Nat) :
    firstNMof k (a ++ b) = (firstNMof k a).or (firstNMof k b) := by
  simp [firstNMof, List.find?_append]

mutual
theorem alts_ne : ∀ (b : Body), b.documented = true → b.noEmptyChoice = true → b.alts ≠ []
  | .lit, _, _ => by simp [Body.alts]
  | .ref _, _, _ => by simp [Body.alts]
  | .seq xs, hd, hn => by
    simp only [Body.alts]
    exact altsSeq_ne xs (by simpa [Body.documented] using hd) (by simpa [Body.noEmptyChoice] using hn)
  | .choice xs, hd, hn => by
    simp only [Body.alts]
    simp only [Body.noEmptyChoice, Bool.and_eq_true, Bool.not_eq_true', List.isEmpty_eq_false_iff] at hn
    exact altsChoice_ne xs (by simpa [Body.documented] using hd) hn.2 hn.1
  | .other _, hd, _ => by simp [Body.documented] at hd
theorem altsSeq_ne : ∀ (xs : List Body), documentedL xs = true → noEmptyChoiceL xs = true → altsSeq xs ≠ []
  | [], _, _ => by simp [altsSeq]
  | x :: xs, hd, hn => by
    simp only [documentedL, Bool.and_eq_true] at hd
    simp only [noEmptyChoiceL, Bool.and_eq_true] at hn
    have h1 := alts_ne x hd.1 hn.1
    have h2 := altsSeq_ne xs hd.2 hn.2
    obtain ⟨a, ha⟩ := List.exists_mem_of_ne_nil _ h1
    obtain ⟨r, hr⟩ := List.exists_mem_of_ne_nil _ h2
    intro he
    have : a ++ r ∈ altsSeq (x :: xs) := by
      simp only [altsSeq, List.mem_flatMap, List.mem_map]
      exact ⟨a, ha, r, hr, rfl⟩
    rw [he] at this
    cases this
theorem altsChoice_ne : ∀ (xs : List Body), documentedL xs = true → noEmptyChoiceL xs = true → xs ≠ [] →
    altsChoice xs ≠ []
  | [], _, _, h => absurd rfl h
  | x :: xs, hd, hn, _ => by
    simp only [documentedL, Bool.and_eq_true] at hd
    simp only [noEmptyChoiceL, Bool.and_eq_true] at hn
    have h1 := alts_ne x hd.1 hn.1
    simp only [altsChoice]
    intro he
    exact h1 (List.append_eq_nil_iff.mp he).1
end

mutual
theorem firstNM_iff_alts (k : Kinds) : ∀ (b : Body), b.documented = true → b.noEmptyChoice = true →
    ∀ o, FirstNM k b o ↔ ∃ a, a ∈ b.alts ∧ firstNMof k a = o
  | .lit, _, _, o => by
    simp only [firstNM_lit, Body.alts, List.mem_singleton]
    constructor
    · intro h; exact ⟨[], rfl, by simp [firstNMof, h]⟩
    · rintro ⟨a, rfl, h⟩; simpa [firstNMof] using h.symm
  | .ref r, _, _, o => by
    simp only [firstNM_ref, Body.alts, List.mem_singleton]
    by_cases hk : k r = .mtch
    · constructor
      · rintro (⟨h, _⟩ | ⟨_, h⟩)
        · exact absurd hk h
        · exact ⟨[r], rfl, by simp [firstNMof, hk, h]⟩
      · rintro ⟨a, rfl, h⟩
        exact Or.inr ⟨hk, by simpa [firstNMof, hk] using h.symm⟩
    · constructor
      · rintro (⟨_, h⟩ | ⟨h, _⟩)
        · exact ⟨[r], rfl, by simp [firstNMof, hk, h]⟩
        · exact absurd h hk
      · rintro ⟨a, rfl, h⟩
        exact Or.inl ⟨hk, by simpa [firstNMof, hk] using h.symm⟩
  | .seq xs, hd, hn, o => by
    simp only [Body.alts]
    exact firstNM_seq_iff_alts k xs (by simpa [Body.documented] using hd)
      (by simpa [Body.noEmptyChoice] using hn) o
  | .choice xs, hd, hn, o => by
    simp only [Body.alts]
    simp only [Body.noEmptyChoice, Bool.and_eq_true] at hn
    exact firstNM_choice_iff_alts k xs (by simpa [Body.documented] using hd) hn.2 o
  | .other _, hd, _, _ => by simp [Body.documented] at hd
theorem firstNM_seq_iff_alts (k : Kinds) : ∀ (xs : List Body), documentedL xs = true →
    noEmptyChoiceL xs = true → ∀ o, FirstNM k (.seq xs) o ↔ ∃ a, a ∈ altsSeq xs ∧ firstNMof k a = o
  | [], _, _, o => by
    simp only [firstNM_seq_nil, altsSeq, List.mem_singleton]
    constructor
    · intro h; exact ⟨[], rfl, by simp [firstNMof, h]⟩
    · rintro ⟨a, rfl, h⟩; simpa [firstNMof] using h.symm
  | x :: xs, hd, hn, o => by
    simp only [documentedL, Bool.and_eq_true] at hd
    simp only [noEmptyChoiceL, Bool.and_eq_true] at hn
    have ihx := firstNM_iff_alts k x hd.1 hn.1
    have ihxs := firstNM_seq_iff_alts k xs hd.2 hn.2
    rw [firstNM_seq_cons]
    simp only [altsSeq, List.mem_flatMap, List.mem_map]
    constructor
    · rintro (⟨s, rfl, h⟩ | ⟨h1, h2⟩)
      · obtain ⟨a, ha, hf⟩ := (ihx _).mp h
        obtain ⟨r, hr⟩ := List.exists_mem_of_ne_nil _ (altsSeq_ne xs hd.2 hn.2)
        exact ⟨a ++ r, ⟨a, ha, r, hr, rfl⟩, by rw [firstNMof_append, hf]; rfl⟩
      · obtain ⟨a, ha, hf⟩ := (ihx _).mp h1
        obtain ⟨r, hr, hf2⟩ := (ihxs _).mp h2
        exact ⟨a ++ r, ⟨a, ha, r, hr, rfl⟩, by rw [firstNMof_append, hf, hf2]; rfl⟩
    · rintro ⟨_, ⟨a, ha, r, hr, rfl⟩, hf⟩
      rw [firstNMof_append] at hf
      cases hfa : firstNMof k a with
      | some s =>
        rw [hfa] at hf
        simp only [Option.some_or] at hf
        exact Or.inl ⟨s, hf.symm, (ihx _).mpr ⟨a, ha, hfa⟩⟩
      | none =>
        rw [hfa] at hf
        simp only [Option.none_or] at hf
        exact Or.inr ⟨(ihx _).mpr ⟨a, ha, hfa⟩, (ihxs _).mpr ⟨r, hr, hf⟩⟩
theorem firstNM_choice_iff_alts (k : Kinds) : ∀ (xs : List Body), documentedL xs = true →
    noEmptyChoiceL xs = true → ∀ o, FirstNM k (.choice xs) o ↔ ∃ a, a ∈ altsChoice xs ∧ firstNMof k a = o
  | [], _, _, o => by
    simp only [altsChoice, List.not_mem_nil, false_and, exists_false, iff_false]
    exact firstNM_choice_nil
  | x :: xs, hd, hn, o => by
    simp only [documentedL, Bool.and_eq_true] at hd
    simp only [noEmptyChoiceL, Bool.and_eq_true] at hn
    rw [firstNM_choice_cons, firstNM_iff_alts k x hd.1 hn.1 o, firstNM_choice_iff_alts k xs hd.2 hn.2 o]
    simp only [altsChoice, List.mem_append]
    constructor
    · rintro (⟨a, ha, h⟩ | ⟨a, ha, h⟩)
      · exact ⟨a, Or.inl ha, h⟩
      · exact ⟨a, Or.inr ha, h⟩
    · rintro ⟨a, ha | ha, h⟩
      · exact Or.inl ⟨a, ha, h⟩
      · exact Or.inr ⟨a, ha, h⟩
end

end RuleTypes
