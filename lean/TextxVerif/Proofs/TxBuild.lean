import TextxVerif.Tx.Sem
/-!
# Model construction: the assignment handlers of `process_node` compute the documented assignment semantics

`Tx.processKids` (mirror of the `for n in node: process_node(n)` loop of an object
node, with the handlers for `__asgn_optional / plain / oneormore / zeroormore`)
is compared with the left fold of `Sem.applyAsg` over the corresponding
assignment events, for objects whose attribute values are primitives (string /
regex matches and base types on the right-hand sides; nested objects are not
covered).  `KidItem` relates one child of the object's parse-tree node with the
semantic item it stands for.
-/
namespace Tx.BuildSim
open Peg Tx

/-- value of a terminal child as the build computes it -/
def termVal (x : BCtx) : Val → Option Value
  | .term id pos len => (x.node? id).map fun nd => .prim (x.termValue nd pos len)
  | _ => none

/-- values appended by a list assignment node: every terminal child not made by the node's separator match `sep` -/
def listVals (x : BCtx) (sep : Option Nat) : List Val → Option (List Value)
  | [] => some []
  | k :: ks =>
    if isSepKid sep k then listVals x sep ks
    else match termVal x k, listVals x sep ks with
      | some v, some vs => some (v :: vs)
      | _, _ => none

/-- `k` is the child of an object node that stands for the semantic item `i` -/
inductive KidItem (x : BCtx) : Val → Sem.Item → Prop
  /-- a match that is not assigned -/
  | tok (id pos len : Nat) (nd : CNode) (rule : String) (isRe : Bool) (t : Nat) (lit : String) :
      x.node? id = some nd → nd.node.rule.startsWith "__asgn" = false →
      KidItem x (.term id pos len) (.tok rule isRe t lit pos len)
  /-- `a ?= …` that matched -/
  | opt (aid : Nat) (nd : CNode) (ks : List Val) :
      x.node? aid = some nd → nd.node.rule = "__asgn_optional" →
      KidItem x (.nt aid ks) (.asg nd.attr .opt [])
  /-- `a = match` -/
  | plain (aid : Nat) (nd : CNode) (k0 : Val) (ks : List Val) (v : Value) :
      x.node? aid = some nd → nd.node.rule = "__asgn_plain" → termVal x k0 = some v →
      KidItem x (.nt aid (k0 :: ks)) (.asg nd.attr .plain [v])
  /-- `a += match` / `a *= match` (the wrapper node exists only when something was matched) -/
  | list (aid : Nat) (nd : CNode) (ks : List Val) (op : AsgOp) (vs : List Value) :
      x.node? aid = some nd → (nd.node.rule = "__asgn_oneormore" ∨ nd.node.rule = "__asgn_zeroormore") →
      (op = .plus ∨ op = .star) → listVals x nd.node.sep ks = some vs → vs ≠ [] →
      KidItem x (.nt aid ks) (.asg nd.attr op vs)

inductive KidsItems (x : BCtx) : List Val → List Sem.Item → Prop
  | nil : KidsItems x [] []
  | cons {k i ks is} : KidItem x k i → KidsItems x ks is → KidsItems x (k :: ks) (i :: is)

theorem processNode_term (x : BCtx) (f : Nat) (k : Val) (top : Option Nat) (st : BSt) (v : Value) (st' : BSt)
    (hk : ∃ id pos len, k = .term id pos len) (h : processNode x (f+1) k top st = .ok (v, st')) :
    termVal x k = some v ∧ st' = st := by
  obtain ⟨id, pos, len, rfl⟩ := hk
  simp only [processNode] at h
  cases hn : x.node? id with
  | none => simp [hn] at h
  | some nd =>
    simp only [hn, Except.ok.injEq, Prod.mk.injEq] at h
    simp [termVal, hn, h.1, h.2]

/-! ## association-list facts -/

theorem getAttr_setAttrV (attrs : List (String × Value)) (a : String) (v : Value) :
    getAttr (setAttrV attrs a v) a = some v := by
  unfold getAttr setAttrV
  split
  · rename_i h
    induction attrs with
    | nil => simp at h
    | cons p ps ih =>
      obtain ⟨k, w⟩ := p
      simp only [List.map_cons]
      cases hk : k == a with
      | true =>
        have : (a == a) = true := by simp
        simp only [if_true, List.lookup, this]
      | false =>
        have hne : (a == k) = false := by rw [BEq.comm]; exact hk
        simp only [Bool.false_eq_true, if_false, List.lookup, hne]
        apply ih
        simpa [hk] using h
  · rename_i h
    induction attrs with
    | nil => simp [List.lookup]
    | cons p ps ih =>
      obtain ⟨k, w⟩ := p
      simp only [List.any_cons, Bool.or_eq_true, not_or] at h
      have hne : (a == k) = false := by
        rw [BEq.comm]
        cases h' : k == a with
        | false => rfl
        | true => exact absurd h' h.1
      simp only [List.cons_append, List.lookup, hne]
      exact ih (by simpa using h.2)

theorem setAttrV_of_any (attrs : List (String × Value)) (a : String) (v : Value)
    (h : attrs.any (·.1 == a) = true) :
    setAttrV attrs a v = attrs.map (fun p => if p.1 == a then (a, v) else p) := by
  unfold setAttrV; rw [if_pos h]

theorem setAttrV_of_not_any (attrs : List (String × Value)) (a : String) (v : Value)
    (h : attrs.any (·.1 == a) = false) : setAttrV attrs a v = attrs ++ [(a, v)] := by
  unfold setAttrV; rw [if_neg (by simp [h])]

theorem setAttrV_any (attrs : List (String × Value)) (a : String) (v : Value) :
    (setAttrV attrs a v).any (·.1 == a) = true := by
  cases h : attrs.any (·.1 == a) with
  | true =>
    rw [setAttrV_of_any attrs a v h]
    rw [List.any_eq_true] at h ⊢
    obtain ⟨p, hp, hk⟩ := h
    refine ⟨(a, v), List.mem_map.mpr ⟨p, hp, ?_⟩, beq_self_eq_true a⟩
    simp only [hk, if_true]
  | false =>
    rw [setAttrV_of_not_any attrs a v h, List.any_append]
    simp

theorem setAttrV_setAttrV (attrs : List (String × Value)) (a : String) (v w : Value) :
    setAttrV (setAttrV attrs a v) a w = setAttrV attrs a w := by
  rw [setAttrV_of_any (setAttrV attrs a v) a w (setAttrV_any attrs a v)]
  cases h : attrs.any (·.1 == a) with
  | true =>
    rw [setAttrV_of_any attrs a v h, setAttrV_of_any attrs a w h, List.map_map]
    apply List.map_congr_left
    intro p _
    cases hk : p.1 == a with
    | true =>
      have : ((a, v) : String × Value).1 == a := beq_self_eq_true a
      simp only [Function.comp, hk, if_true, this]
    | false => simp only [Function.comp, hk, Bool.false_eq_true, if_false]
  | false =>
    rw [setAttrV_of_not_any attrs a v h, setAttrV_of_not_any attrs a w h, List.map_append]
    have hmap : attrs.map (fun p => if p.1 == a then (a, w) else p) = attrs := by
      have hcongr : attrs.map (fun p => if p.1 == a then (a, w) else p) = attrs.map id := by
        apply List.map_congr_left
        intro p hp
        have hk : (p.1 == a) = false := by
          cases h' : p.1 == a with
          | false => rfl
          | true =>
            have : attrs.any (·.1 == a) = true := List.any_eq_true.mpr ⟨p, hp, h'⟩
            rw [h] at this; exact absurd this (by decide)
        simp only [hk, Bool.false_eq_true, if_false, id]
      simpa using hcongr
    rw [hmap]
    have : ((a, v) : String × Value).1 == a := beq_self_eq_true a
    simp only [List.map_cons, List.map_nil, this, if_true]

/-! ## the list handler -/

/-- what `process_node` does for one appended value -/
def append1 (attrs : List (String × Value)) (name : String) (v : Value) : Option (List (String × Value)) :=
  match getAttr attrs name with
  | some (.list vs) => some (setAttrV attrs name (.list (vs ++ [v])))
  | some (.prim .none) | none => some (setAttrV attrs name (.list [v]))
  | _ => none

theorem processList_spec (x : BCtx) (sep : Option Nat) : ∀ (ks : List Val) (f me : Nat) (name : String)
    (attrs : List (String × Value)) (st : BSt) (attrs' : List (String × Value)) (st' : BSt) (vs : List Value),
    listVals x sep ks = some vs → processList x f ks sep me name attrs st = .ok (attrs', st') →
    st' = st ∧ (vs = [] → attrs' = attrs) ∧
      (vs ≠ [] → ∃ old, (getAttr attrs name = some (.list old) ∨ (old = [] ∧ (getAttr attrs name = none ∨
          getAttr attrs name = some (.prim .none)))) ∧ attrs' = setAttrV attrs name (.list (old ++ vs))) := by
  intro ks
  induction ks with
  | nil =>
    intro f me name attrs st attrs' st' vs hv h
    cases f with
    | zero => simp [processList] at h
    | succ f =>
      simp only [listVals, Option.some.injEq] at hv
      simp only [processList, Except.ok.injEq, Prod.mk.injEq] at h
      subst hv
      exact ⟨h.2.symm, fun _ => h.1.symm, fun hne => absurd rfl hne⟩
  | cons k ks ih =>
    intro f me name attrs st attrs' st' vs hv h
    cases f with
    | zero => simp [processList] at h
    | succ f =>
      simp only [listVals] at hv
      simp only [processList] at h
      by_cases hsep : isSepKid sep k = true
      · simp only [hsep, if_true] at hv h
        exact ih f me name attrs st attrs' st' vs hv h
      · simp only [hsep, Bool.false_eq_true, if_false] at hv h
        cases htv : termVal x k with
        | none => simp [htv] at hv
        | some v =>
          cases hlv : listVals x sep ks with
          | none => simp [htv, hlv] at hv
          | some vs0 =>
            simp only [htv, hlv, Option.some.injEq] at hv
            subst hv
            -- the child is a terminal: processNode gives its value, state unchanged
            have hterm : ∃ id pos len, k = .term id pos len := by
              cases k <;> simp [termVal] at htv
              exact ⟨_, _, _, rfl⟩
            cases f with
            | zero => simp [processNode] at h
            | succ f =>
              cases hpn : processNode x (f+1) k (some me) st with
              | error e => simp [hpn] at h
              | ok r =>
                obtain ⟨v', st1⟩ := r
                obtain ⟨hv', hst1⟩ := processNode_term x f k (some me) st v' st1 hterm hpn
                rw [htv] at hv'
                simp only [Option.some.injEq] at hv'
                subst hv' hst1
                simp only [hpn] at h
                refine ⟨?_, fun hh => absurd hh (by simp), fun _ => ?_⟩
                · -- state
                  cases hga : getAttr attrs name with
                  | none => simp only [hga] at h; exact (ih (f+1) me name _ st1 attrs' st' vs0 hlv h).1
                  | some cur =>
                    cases cur with
                    | list old => simp only [hga] at h; exact (ih (f+1) me name _ st1 attrs' st' vs0 hlv h).1
                    | prim p =>
                      cases p with
                      | none => simp only [hga] at h; exact (ih (f+1) me name _ st1 attrs' st' vs0 hlv h).1
                      | _ => simp [hga] at h
                    | obj => simp [hga] at h
                · cases hga : getAttr attrs name with
                  | none =>
                    simp only [hga] at h
                    obtain ⟨_, h0, h1⟩ := ih (f+1) me name _ st1 attrs' st' vs0 hlv h
                    refine ⟨[], Or.inr ⟨rfl, Or.inl rfl⟩, ?_⟩
                    by_cases hvs : vs0 = []
                    · subst hvs; simp [h0 rfl]
                    · obtain ⟨old, ho, he⟩ := h1 hvs
                      rw [getAttr_setAttrV] at ho
                      rcases ho with ho | ⟨_, ho | ho⟩
                      · simp only [Option.some.injEq, Value.list.injEq] at ho
                        subst ho
                        simp [he, setAttrV_setAttrV]
                      · simp at ho
                      · simp at ho
                  | some cur =>
                    cases cur with
                    | list old0 =>
                      simp only [hga] at h
                      obtain ⟨_, h0, h1⟩ := ih (f+1) me name _ st1 attrs' st' vs0 hlv h
                      refine ⟨old0, Or.inl rfl, ?_⟩
                      by_cases hvs : vs0 = []
                      · subst hvs; simp [h0 rfl]
                      · obtain ⟨old, ho, he⟩ := h1 hvs
                        rw [getAttr_setAttrV] at ho
                        rcases ho with ho | ⟨_, ho | ho⟩
                        · simp only [Option.some.injEq, Value.list.injEq] at ho
                          subst ho
                          simp [he, setAttrV_setAttrV, List.append_assoc]
                        · simp at ho
                        · simp at ho
                    | prim p =>
                      cases p with
                      | none =>
                        simp only [hga] at h
                        obtain ⟨_, h0, h1⟩ := ih (f+1) me name _ st1 attrs' st' vs0 hlv h
                        refine ⟨[], Or.inr ⟨rfl, Or.inr rfl⟩, ?_⟩
                        by_cases hvs : vs0 = []
                        · subst hvs; simp [h0 rfl]
                        · obtain ⟨old, ho, he⟩ := h1 hvs
                          rw [getAttr_setAttrV] at ho
                          rcases ho with ho | ⟨_, ho | ho⟩
                          · simp only [Option.some.injEq, Value.list.injEq] at ho
                            subst ho
                            simp [he, setAttrV_setAttrV]
                          · simp at ho
                          · simp at ho
                      | _ => simp [hga] at h
                    | obj => simp [hga] at h

/-! ## the object loop -/

/-- **The assignment handlers compute the documented assignment semantics.**  For every list of
children of an object node that stand for the items `items` (`KidsItems`: unassigned matches, and
the four assignment wrappers over matches), whenever the mirror of the `process_node` loop does not
raise, the attributes it leaves are the left fold of `Sem.applyAsg` over the items, and no object
is created on the way. -/
theorem processKids_flat (x : BCtx) (specs : List Sem.AttrSpec) : ∀ (kids : List Val) (items : List Sem.Item),
    KidsItems x kids items → ∀ (f me : Nat) (attrs : List (String × Value)) (st : BSt)
      (attrs' : List (String × Value)) (st' : BSt),
      processKids x f kids me attrs st = .ok (attrs', st') →
      attrs' = items.foldl (Sem.applyAsg specs) attrs ∧ st' = st := by
  intro kids items hki
  induction hki with
  | nil =>
    intro f me attrs st attrs' st' h
    cases f with
    | zero => simp [processKids] at h
    | succ f =>
      simp only [processKids, Except.ok.injEq, Prod.mk.injEq] at h
      exact ⟨by simp [h.1], h.2.symm⟩
  | @cons k i ks is hk _ ih =>
    intro f me attrs st attrs' st' h
    cases f with
    | zero => simp [processKids] at h
    | succ f =>
      cases hk with
      | tok id pos len nd rule isRe t lit hnd hna =>
        simp only [processKids] at h
        cases f with
        | zero => simp [processNode] at h
        | succ f =>
          cases hpn : processNode x (f+1) (.term id pos len) (some me) st with
          | error e => simp [hpn] at h
          | ok r =>
            obtain ⟨v, st1⟩ := r
            obtain ⟨_, hst⟩ := processNode_term x f _ (some me) st v st1 ⟨id, pos, len, rfl⟩ hpn
            subst hst
            simp only [hpn] at h
            obtain ⟨h1, h2⟩ := ih (f+1) me attrs st1 attrs' st' h
            exact ⟨by simpa [Sem.applyAsg] using h1, h2⟩
      | opt aid nd aks hnd hrule =>
        simp only [processKids, hnd, Option.bind_some, hrule,
          (by decide +kernel : "__asgn_optional".startsWith "__asgn" = true), if_true, beq_self_eq_true] at h
        obtain ⟨h1, h2⟩ := ih f me _ st attrs' st' h
        exact ⟨by simpa [Sem.applyAsg] using h1, h2⟩
      | plain aid nd k0 aks v hnd hrule hv =>
        simp only [processKids, hnd, Option.bind_some, hrule,
          (by decide +kernel : "__asgn_plain".startsWith "__asgn" = true), if_true,
          (by decide : ("__asgn_plain" == "__asgn_optional") = false), Bool.false_eq_true, if_false,
          beq_self_eq_true] at h
        cases hga : getAttr attrs nd.attr with
        | none => simp [hga] at h
        | some cur =>
          simp only [hga] at h
          by_cases herr : (cur.truthy && !cur.isList) = true
          · simp [herr] at h
          · simp only [herr, Bool.false_eq_true, if_false] at h
            have hterm : ∃ id pos len, k0 = .term id pos len := by
              cases k0 <;> simp [termVal] at hv
              exact ⟨_, _, _, rfl⟩
            cases f with
            | zero => simp [processNode] at h
            | succ f =>
              cases hpn : processNode x (f+1) k0 (some me) st with
              | error e => simp [hpn] at h
              | ok r =>
                obtain ⟨v', st1⟩ := r
                obtain ⟨hv', hst⟩ := processNode_term x f k0 (some me) st v' st1 hterm hpn
                rw [hv] at hv'
                simp only [Option.some.injEq] at hv'
                subst hv' hst
                simp only [hpn] at h
                cases cur with
                | list old =>
                  obtain ⟨h1, h2⟩ := ih (f+1) me _ st1 attrs' st' h
                  exact ⟨by simpa [Sem.applyAsg, hga] using h1, h2⟩
                | prim p =>
                  obtain ⟨h1, h2⟩ := ih (f+1) me _ st1 attrs' st' h
                  exact ⟨by simpa [Sem.applyAsg, hga] using h1, h2⟩
                | obj a b c d =>
                  obtain ⟨h1, h2⟩ := ih (f+1) me _ st1 attrs' st' h
                  exact ⟨by simpa [Sem.applyAsg, hga] using h1, h2⟩
      | list aid nd aks op vs hnd hrule hop hvs hvs0 =>
        have hsw : nd.node.rule.startsWith "__asgn" = true := by
          rcases hrule with hr | hr <;> rw [hr] <;> decide +kernel
        have hne : (nd.node.rule == "__asgn_optional") = false := by rcases hrule with hr | hr <;> rw [hr] <;> decide
        have hne2 : (nd.node.rule == "__asgn_plain") = false := by rcases hrule with hr | hr <;> rw [hr] <;> decide
        simp only [processKids, hnd, Option.bind_some, hsw, if_true, hne, hne2, Bool.false_eq_true, if_false] at h
        cases hpl : processList x f aks nd.node.sep me nd.attr attrs st with
        | error e => simp [hpl] at h
        | ok r =>
          obtain ⟨attrs1, st1⟩ := r
          simp only [hpl] at h
          obtain ⟨hst, h0, h1⟩ := processList_spec x nd.node.sep aks f me nd.attr attrs st attrs1 st1 vs hvs hpl
          subst hst
          obtain ⟨g1, g2⟩ := ih f me attrs1 st1 attrs' st' h
          refine ⟨?_, g2⟩
          rw [g1]
          simp only [List.foldl_cons]
          congr 1
          obtain ⟨old, ho, he⟩ := h1 hvs0
          rw [he]
          rcases ho with ho | ⟨rfl, ho | ho⟩ <;> rcases hop with rfl | rfl <;>
            simp [Sem.applyAsg, ho]

/-- the value the build gives a matched token is the value the documented semantics give it
(`use_regexp_group` and the base-type conversions included) -/
theorem termValue_eq_tokValue (x : BCtx) (sx : Sem.Env) (hc : sx.cfg = x.cfg) (hi : sx.input = x.input)
    (hg : sx.groups = x.groups) (h1 : sx.g1 = x.g1) (nd : CNode)
    (hk : nd.node.kind = .str ∨ nd.node.kind = .re) (pos len : Nat) :
    x.termValue nd pos len = sx.tokValue nd.node.rule (nd.node.kind == .re) nd.node.tok nd.text pos len := by
  unfold BCtx.termValue Sem.Env.tokValue BCtx.termText
  rw [hc, hi, hg, h1]
  rcases hk with hk | hk
  · simp [hk]
  · simp only [hk, beq_self_eq_true, Bool.and_true]
    split
    · cases hb : (x.g1[nd.node.tok]?.bind fun row => row[pos]?.join) with
      | none => rfl
      | some p => obtain ⟨s, l⟩ := p; rfl
    · rfl

end Tx.BuildSim
