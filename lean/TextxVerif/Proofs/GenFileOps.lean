import TextxVerif.Proofs.GenFile
import TextxVerif.Out.GenFileOps
/-!
Helper lemmas for C31 (deepening):
* `exportNew` is the end state of the operation-by-operation program of
  `Out/GenFileOps.lean`; before the last operation only the temporary sibling
  changes;
* the exact final state of a history from any starting directory
  (`lastDone`, `runAll_out_exact`).
-/
namespace GenFile

/-! ## the operation program -/

/-- the operation has an effect on path `t` only -/
def Op.only (t : Path) : Op → Prop
  | .openW t' => t' = t
  | .append t' _ => t' = t
  | .remove t' => t' = t
  | .replace _ _ => False

theorem runOps_cons (fs : FS) (o : Op) (r : List Op) : runOps fs (o :: r) = runOps (o.apply fs) r := rfl

theorem runOps_append (fs : FS) (a b : List Op) : runOps fs (a ++ b) = runOps (runOps fs a) b := by
  simp [runOps, List.foldl_append]

theorem runOps_only (t : Path) (ops : List Op) (fs : FS) (h : ∀ o ∈ ops, o.only t) (q : Path) (hq : q ≠ t) :
    runOps fs ops q = fs q := by
  induction ops generalizing fs with
  | nil => rfl
  | cons o r ih =>
    rw [runOps_cons, ih _ (fun o' ho' => h o' (List.mem_cons_of_mem _ ho'))]
    have ho := h o List.mem_cons_self
    cases o with
    | openW t' => simp only [Op.only] at ho; subst ho; simp [Op.apply, FS.set_apply, hq]
    | append t' pc => simp only [Op.only] at ho; subst ho; simp [Op.apply, FS.set_apply, hq]
    | remove t' => simp only [Op.only] at ho; subst ho; simp [Op.apply, FS.set_apply, hq]
    | replace s d => exact absurd ho (by simp [Op.only])

theorem writeOps_only (t : Path) (cs : List Nat) : ∀ o ∈ writeOps t cs, o.only t := by
  intro o ho
  simp only [writeOps, List.mem_map] at ho
  obtain ⟨c, _, hc⟩ := ho
  subst hc
  simp [Op.only]

/-- complete writes append their chunks to the open file -/
theorem runOps_writes (t : Path) (cs : List Nat) (fs : FS) (c0 : Content) (h : fs t = some c0) :
    runOps fs (writeOps t cs) t = some (c0 ++ fullContent cs) := by
  induction cs generalizing fs c0 with
  | nil => simp [writeOps, runOps, fullContent, h]
  | cons c r ih =>
    have hstep : (Op.append t (.full c)).apply fs t = some (c0 ++ [.full c]) := by
      simp [Op.apply, FS.set_apply, h]
    have := ih _ _ hstep
    simp only [writeOps, List.map_cons] at this ⊢
    rw [runOps_cons, this]
    simp [fullContent]

theorem bodyOps_only (t : Path) (chunks : List Nat) (crash : Crash) :
    ∀ o ∈ bodyOps t chunks crash, o.only t := by
  intro o ho
  have hopen : (Op.openW t).only t := by simp [Op.only]
  have hall : o ∈ Op.openW t :: writeOps t chunks → o.only t := by
    intro h
    rcases List.mem_cons.1 h with h | h
    · rw [h]; exact hopen
    · exact writeOps_only _ _ _ h
  cases crash with
  | atOpen => simp [bodyOps] at ho
  | none => exact hall (by simpa [bodyOps] using ho)
  | atClose => exact hall (by simpa [bodyOps] using ho)
  | atReplace => exact hall (by simpa [bodyOps] using ho)
  | atWrite k partly =>
    simp only [bodyOps] at ho
    split at ho
    · simp only [List.cons_append, List.mem_cons, List.mem_append] at ho
      rcases ho with h | h | h
      · rw [h]; exact hopen
      · exact writeOps_only _ _ _ h
      · cases partly with
        | false => simp at h
        | true =>
          simp only [if_true, List.mem_singleton] at h
          rw [h]; simp [Op.only]
    · exact hall ho

theorem okOf_eq (fs : FS) (p : Path) (chunks : List Nat) (crash : Crash) :
    okOf chunks crash = (exportNew fs p chunks crash).2 := by
  cases crash with
  | none => simp [okOf, exportNew, written]
  | atOpen => simp [okOf, exportNew]
  | atClose => simp [okOf, exportNew]
  | atReplace => simp [okOf, exportNew]
  | atWrite k partly =>
    by_cases hk : k < chunks.length
    · have : ¬ chunks.length ≤ k := by omega
      simp [okOf, exportNew, written, hk, this]
    · have : chunks.length ≤ k := by omega
      simp [okOf, exportNew, written, hk, this]

/-- when the `try` block gets through, the body is `open` followed by all the writes -/
theorem bodyOps_ok (t : Path) (chunks : List Nat) (crash : Crash) (h : okOf chunks crash = true) :
    bodyOps t chunks crash = .openW t :: writeOps t chunks := by
  cases crash with
  | none => rfl
  | atOpen => simp [okOf] at h
  | atClose => simp [okOf] at h
  | atReplace => simp [okOf] at h
  | atWrite k partly =>
    simp only [okOf, decide_eq_true_eq] at h
    have : ¬ k < chunks.length := by omega
    simp [bodyOps, this]

/-- **`exportNew` is the end state of the operation program.** -/
theorem exportOps_eq (fs : FS) (n : Nat) (chunks : List Nat) (crash : Crash) :
    exportOps fs (.out n) chunks crash = exportNew fs (.out n) chunks crash := by
  have hok := okOf_eq fs (.out n) chunks crash
  refine Prod.ext ?_ (by simp [exportOps, program, hok])
  funext q
  simp only [exportOps, program, tmpOf_out, runOps_append]
  have hbody := bodyOps_only (.tmp n) chunks crash
  cases hv : okOf chunks crash with
  | false =>
    rw [exportNew_failed fs n chunks crash (by rw [← hok, hv])]
    simp only [Bool.false_eq_true, if_false, runOps, List.foldl_cons, List.foldl_nil, Op.apply, FS.set_apply]
    by_cases hq : q = .tmp n
    · simp [hq]
    · simp only [hq, if_false]
      exact runOps_only _ _ _ hbody q hq
  | true =>
    rw [exportNew_ok fs n chunks crash (by rw [← hok, hv])]
    simp only [if_true, runOps, List.foldl_cons, List.foldl_nil, Op.apply, FS.set_apply]
    by_cases hq1 : q = .tmp n
    · subst hq1; simp
    · by_cases hq2 : q = .out n
      · subst hq2
        simp only [reduceCtorEq, if_false, if_true]
        have hb := bodyOps_ok (.tmp n) chunks crash hv
        have := runOps_writes (.tmp n) chunks (fs.set (.tmp n) (some [])) [] (by simp [FS.set_apply])
        simp only [runOps] at this
        rw [hb, List.foldl_cons]
        simpa [Op.apply] using this
      · simp only [hq1, hq2, if_false]
        exact runOps_only _ _ _ hbody q hq1

/-- before the last operation of the call, only the temporary sibling has changed -/
theorem program_prefix (fs : FS) (n : Nat) (chunks : List Nat) (crash : Crash) (i : Nat)
    (hi : i < (program (.out n) chunks crash).1.length) (q : Path) (hq : q ≠ .tmp n) :
    runOps fs ((program (.out n) chunks crash).1.take i) q = fs q := by
  simp only [program, tmpOf_out, List.length_append, List.length_singleton] at hi ⊢
  have hle : i ≤ (bodyOps (.tmp n) chunks crash).length := by omega
  rw [List.take_append_of_le_length hle]
  exact runOps_only _ _ _ (fun o ho => bodyOps_only _ _ _ o (List.mem_of_mem_take ho)) q hq

theorem statesOf_length (fs : FS) (ops : List Op) : (statesOf fs ops).length = ops.length := by
  induction ops generalizing fs with
  | nil => rfl
  | cons o r ih => simp [statesOf, ih]

/-- the `i`-th recorded state is the directory after the first `i+1` operations -/
theorem statesOf_get (fs : FS) (ops : List Op) (i : Nat) (hi : i < ops.length) :
    (statesOf fs ops)[i]? = some (runOps fs (ops.take (i + 1))) := by
  induction ops generalizing fs i with
  | nil => simp at hi
  | cons o r ih =>
    cases i with
    | zero => simp [statesOf, runOps]
    | succ i =>
      have hi' : i < r.length := by simpa using hi
      simpa [statesOf, runOps] using ih (o.apply fs) i hi'

/-! ## the driver's summary flag is sound -/

theorem Op.onlyB_only (t : Path) (o : Op) (h : o.onlyB t = true) : o.only t := by
  cases o <;> simp_all [Op.onlyB, Op.only]

/-- `midOnly` of the driver: if every operation before the last has an effect on `t` only, every state
before the last operation agrees with the start outside `t` -/
theorem midOnly_sound (t : Path) (ops : List Op) (fs : FS) (h : ops.dropLast.all (Op.onlyB t) = true)
    (i : Nat) (hi : i < ops.length) (q : Path) (hq : q ≠ t) : runOps fs (ops.take i) q = fs q := by
  have htake : ops.take i = ops.dropLast.take i := by
    rw [List.dropLast_eq_take, List.take_take]
    congr 1
    omega
  rw [htake]
  refine runOps_only t _ fs (fun o ho => Op.onlyB_only t o ?_) q hq
  exact (List.all_eq_true.1 h) o (List.mem_of_mem_take ho)

/-- the flag is true for the program of `_open_output` -/
theorem program_midOnly (n : Nat) (chunks : List Nat) (crash : Crash) :
    (program (.out n) chunks crash).1.dropLast.all (Op.onlyB (.tmp n)) = true := by
  simp only [program, tmpOf_out, List.dropLast_concat, List.all_eq_true]
  intro o ho
  have := bodyOps_only (.tmp n) chunks crash o ho
  cases o <;> simp_all [Op.onlyB, Op.only]

/-! ## exact final state of a history -/

/-- the last run of a history (runs paired with their outcomes) that completed for output file `n` -/
def lastDone : List (Run × Outcome) → Nat → Option Run
  | [], _ => none
  | (r, o) :: rest, n =>
    match lastDone rest n with
    | some r' => some r'
    | none => if o = .done ∧ r.path = n then some r else none

theorem lastDone_none_iff (l : List (Run × Outcome)) (n : Nat) :
    lastDone l n = none ↔ ∀ x ∈ l, ¬ (x.2 = .done ∧ x.1.path = n) := by
  induction l with
  | nil => simp [lastDone]
  | cons x rest ih =>
    obtain ⟨r, o⟩ := x
    simp only [lastDone]
    cases h : lastDone rest n with
    | some r' =>
      rw [h] at ih
      show some r' = none ↔ _
      constructor
      · intro e; cases e
      · intro hall
        have := ih.2 (fun x hx => hall x (List.mem_cons_of_mem _ hx))
        cases this
    | none =>
      rw [h] at ih
      have hrest := ih.1 rfl
      show (if o = .done ∧ r.path = n then some r else none) = none ↔ _
      by_cases hc : o = .done ∧ r.path = n
      · rw [if_pos hc]
        constructor
        · intro e; cases e
        · intro hall; exact absurd hc (hall (r, o) List.mem_cons_self)
      · rw [if_neg hc]
        constructor
        · intro _ x hx
          rcases List.mem_cons.1 hx with hx | hx
          · rw [hx]; exact hc
          · exact hrest x hx
        · intro _; rfl

/-- independent reading of `lastDone`: the history splits around a completed run for `n` after which no
run completed for `n` -/
theorem lastDone_some_iff (l : List (Run × Outcome)) (n : Nat) (r : Run) :
    lastDone l n = some r ↔
      ∃ pre post, l = pre ++ (r, Outcome.done) :: post ∧ r.path = n ∧
        ∀ x ∈ post, ¬ (x.2 = .done ∧ x.1.path = n) := by
  induction l with
  | nil => simp [lastDone]
  | cons x rest ih =>
    obtain ⟨r0, o⟩ := x
    simp only [lastDone]
    cases h : lastDone rest n with
    | some r' =>
      rw [h] at ih
      show some r' = some r ↔ _
      constructor
      · intro e
        obtain ⟨pre, post, hl, hp, hpost⟩ := ih.1 e
        exact ⟨(r0, o) :: pre, post, by rw [hl]; rfl, hp, hpost⟩
      · rintro ⟨pre, post, hl, hp, hpost⟩
        cases pre with
        | nil =>
          simp only [List.nil_append, List.cons.injEq] at hl
          obtain ⟨_, hrest⟩ := hl
          have := (lastDone_none_iff rest n).2 (by rw [hrest]; exact hpost)
          rw [h] at this; cases this
        | cons y pre' =>
          simp only [List.cons_append, List.cons.injEq] at hl
          exact ih.2 ⟨pre', post, hl.2, hp, hpost⟩
    | none =>
      rw [h] at ih
      have hnone := (lastDone_none_iff rest n).1 h
      show (if o = .done ∧ r0.path = n then some r0 else none) = some r ↔ _
      constructor
      · intro e
        by_cases hc : o = .done ∧ r0.path = n
        · rw [if_pos hc] at e
          injection e with e
          subst e
          exact ⟨[], rest, by rw [hc.1]; rfl, hc.2, hnone⟩
        · rw [if_neg hc] at e; cases e
      · rintro ⟨pre, post, hl, hp, hpost⟩
        cases pre with
        | nil =>
          simp only [List.nil_append, List.cons.injEq, Prod.mk.injEq] at hl
          obtain ⟨⟨h1, h2⟩, _⟩ := hl
          rw [h1, h2, if_pos ⟨rfl, hp⟩]
        | cons y pre' =>
          simp only [List.cons_append, List.cons.injEq] at hl
          have : (r, Outcome.done) ∈ rest := by rw [hl.2]; simp
          exact absurd ⟨rfl, hp⟩ (hnone _ this)

/-- what one `gen_file` call does to an output file -/
theorem genFile_out (fs : FS) (m n : Nat) (ov : Bool) (chunks : List Nat) (crash : Crash) :
    (genFile exportNew fs (.out m) ov chunks crash).1 (.out n) =
      if (genFile exportNew fs (.out m) ov chunks crash).2 = .done ∧ m = n then some (fullContent chunks)
      else fs (.out n) := by
  unfold genFile
  split
  · simp only
    by_cases hok : (exportNew fs (.out m) chunks crash).2 = true
    · rw [exportNew_ok fs m chunks crash hok]
      by_cases hmn : m = n
      · subst hmn; simp [hok]
      · have : Path.out n ≠ Path.out m := fun e => hmn (by cases e; rfl)
        simp [hmn, this]
    · have hok' : (exportNew fs (.out m) chunks crash).2 = false := by simpa using hok
      rw [exportNew_failed fs m chunks crash hok']
      simp [hok']
  · simp

/-- **exact end state**: an output file holds the complete output of the last run that completed for
it, and what it held at the start if there is none -/
theorem runAll_out_exact (fs0 : FS) (runs : List Run) (n : Nat) :
    (runAll exportNew fs0 runs).1 (.out n) =
      match lastDone (runs.zip (runAll exportNew fs0 runs).2) n with
      | some r => some (fullContent r.chunks)
      | none => fs0 (.out n) := by
  induction runs generalizing fs0 with
  | nil => simp [runAll, lastDone]
  | cons r rs ih =>
    simp only [runAll, List.zip_cons_cons, lastDone]
    rw [ih]
    cases h : lastDone (rs.zip (runAll exportNew
        (genFile exportNew fs0 (.out r.path) r.overwrite r.chunks r.crash).1 rs).2) n with
    | some r' => rfl
    | none =>
      simp only
      rw [genFile_out]
      by_cases hc : (genFile exportNew fs0 (.out r.path) r.overwrite r.chunks r.crash).2 = .done ∧ r.path = n
      · rw [if_pos hc, if_pos hc]
      · rw [if_neg hc, if_neg hc]

theorem runAll_tmp_none (fs0 : FS) (h0 : ∀ n, fs0 (.tmp n) = none) (runs : List Run) (n : Nat) :
    (runAll exportNew fs0 runs).1 (.tmp n) = none :=
  (runAll_inv (fun _ _ => True) fs0 ⟨fun _ _ _ => trivial, h0⟩ runs).2 n

end GenFile
