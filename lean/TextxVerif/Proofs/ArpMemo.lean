import TextxVerif.Proofs.ArpSim2
import TextxVerif.Proofs.ArpMono2
/-!
# Memoized vs plain parsing on the Arpeggio mirror (C19)

* `plain_sim`: for a parser model without comment model and without whitespace-context
  changes, the plain interpreter maps related states to related results, for *every*
  closed state relation — in particular results depend only on the position.
* `memo_sim`: lock-step simulation of the plain interpreter by the memoizing one; the
  invariant says every cache entry is the result of some plain run from the same position.
-/
namespace Peg

def Grammar.withMemo (g : Grammar) (b : Bool) : Grammar := { g with memo := b }

/-- states agree on position; whitespace context is the constant `(sk, w)`; not inside
comments; only identity entries in the comment cache -/
def Qc (sk : Bool) (w : List Char) (a b : PState) : Prop :=
  a.pos = b.pos ∧ a.skipws = sk ∧ b.skipws = sk ∧ a.ws = w ∧ b.ws = w ∧
  a.inComments = false ∧ b.inComments = false ∧ IdCP a.commentPos ∧ IdCP b.commentPos

theorem nmRaise_frame (s : PState) (c : Nat) :
    (s.nmRaise c).pos = s.pos ∧ (s.nmRaise c).skipws = s.skipws ∧ (s.nmRaise c).ws = s.ws ∧
    (s.nmRaise c).inComments = s.inComments ∧ (s.nmRaise c).commentPos = s.commentPos ∧
    (s.nmRaise c).cache = s.cache := by
  unfold PState.nmRaise
  split
  · split
    · simp
    · split <;> simp
  · simp

theorem qc_ok (sk : Bool) (w : List Char) : QOK (Qc sk w) where
  pos := fun h => h.1
  skipws := fun h => h.2.1.trans h.2.2.1.symm
  ws := fun h => h.2.2.2.1.trans h.2.2.2.2.1.symm
  notInC := fun h => ⟨h.2.2.2.2.2.1, h.2.2.2.2.2.2.1⟩
  idcp := fun h => ⟨h.2.2.2.2.2.2.2.1, h.2.2.2.2.2.2.2.2⟩
  setPos := fun h c => ⟨rfl, h.2.1, h.2.2.1, h.2.2.2.1, h.2.2.2.2.1, h.2.2.2.2.2.1, h.2.2.2.2.2.2.1,
    h.2.2.2.2.2.2.2.1, h.2.2.2.2.2.2.2.2⟩
  nmR := fun {a b} h c => by
    have fa := nmRaise_frame a c
    have fb := nmRaise_frame b c
    unfold Qc
    rw [fa.1, fa.2.1, fa.2.2.1, fa.2.2.2.1, fa.2.2.2.2.1, fb.1, fb.2.1, fb.2.2.1, fb.2.2.2.1, fb.2.2.2.2.1]
    exact h
  setCP := fun h l l' hl hl' => ⟨h.1, h.2.1, h.2.2.1, h.2.2.2.1, h.2.2.2.2.1, h.2.2.2.2.2.1, h.2.2.2.2.2.2.1, hl, hl'⟩

variable {Q : PState → PState → Prop}

/-- `ParsingExpression.parse` without memoization, on simulating bodies -/
theorem wrap_plain_sim (hQ : QOK Q) (id : Nat) (nd : Node) {bA bB : PState → Res × PState} (h : SimB Q bA bB) :
    SimB Q (wrap false id nd bA) (wrap false id nd bB) := by
  intro sA sB r tA hq h1 hr
  unfold wrap cacheHit at h1 ⊢
  simp only [Bool.false_eq_true, if_false] at h1 ⊢
  cases hb : bA sA with | mk r1 s1 =>
  rw [hb] at h1
  have hne : r1 ≠ .fuel := by intro e; subst e; simp only [cacheStore] at h1; cases h1; exact hr rfl
  obtain ⟨tB1, hB, hq1⟩ := h sA sB r1 s1 hq hb hne
  rw [hB, ← hQ.pos hq]
  rcases r1 with v | _ | _ | _
  · simp only [cacheStore, Bool.false_eq_true, if_false] at h1 ⊢; cases h1; exact ⟨tB1, rfl, hq1⟩
  · simp only [cacheStore, Bool.false_eq_true, if_false] at h1 ⊢; cases h1; exact ⟨_, rfl, hQ.setPos hq1 _⟩
  · exact absurd rfl hne
  · simp only [cacheStore] at h1 ⊢; cases h1; exact ⟨tB1, rfl, hq1⟩

theorem nodeParse_plain_sim (hQ : QOK Q) (g : Grammar) (hu : Uniform g) (hm : g.memo = false)
    {pA pB : SubParser} (h : Sim Q pA pB) (k : Nat) : Sim Q (nodeParse g pA k) (nodeParse g pB k) := by
  intro id sA sB r tA hq h1 hr
  unfold nodeParse at h1 ⊢
  cases hn : g.nodes[id]? with
  | none => simp only [hn] at h1 ⊢; cases h1; exact ⟨sB, rfl, hq⟩
  | some nd =>
    simp only [hn, hm] at h1 ⊢
    obtain ⟨hws, hsk, heol⟩ := hu.noCtx id nd hn
    have hmN := matchNode_sim hQ g hu.noComments pA pB k k id nd
    have hwr := wrap_plain_sim hQ id nd (bodyNode_sim hQ h k nd hws hsk heol)
    cases hkind : nd.kind <;> simp only [hkind] at h1 ⊢
    all_goals first | exact hmN sA sB r tA hq h1 hr | exact hwr sA sB r tA hq h1 hr

/-- the plain interpreter respects every closed state relation -/
theorem plain_sim (hQ : QOK Q) (g : Grammar) (hu : Uniform g) (hm : g.memo = false) :
    ∀ n, Sim Q (parse g n) (parse g n)
  | 0 => by intro e sA sB r tA _ h1 hr; simp only [parse] at h1; cases h1; exact absurd rfl hr
  | n+1 => by
      intro e sA sB r tA hq h1 hr
      simp only [parse] at h1 ⊢
      exact nodeParse_plain_sim hQ g hu hm (plain_sim hQ g hu hm n) n e sA sB r tA hq h1 hr

/-- **Position-determinism of the plain parser**: two finished runs (any fuels) from states
that agree on position and whitespace context give the same result and related end states. -/
theorem plain_det (g : Grammar) (hu : Uniform g) (hm : g.memo = false) (sk : Bool) (w : List Char)
    {n m e : Nat} {s s' t t' : PState} {r r' : Res} (hq : Qc sk w s s')
    (h1 : parse g n e s = (r, t)) (hr : r ≠ .fuel) (h2 : parse g m e s' = (r', t')) (hr' : r' ≠ .fuel) :
    r = r' ∧ Qc sk w t t' := by
  have h1' := parse_le g (Nat.le_max_left n m) e s r t h1 hr
  have h2' := parse_le g (Nat.le_max_right n m) e s' r' t' h2 hr'
  obtain ⟨t'', h3, hq'⟩ := plain_sim (qc_ok sk w) g hu hm (max n m) e s s' r t hq h1' hr
  rw [h2'] at h3
  cases h3
  exact ⟨rfl, hq'⟩

/-! ## the failure record `nm` -/

/-- `nm` as a number: `None` is below every position -/
def nmv : Option Nat → Nat
  | .none => 0
  | some p => p + 1

theorem nmv_inj {a b : Option Nat} (h : nmv a = nmv b) : a = b := by
  cases a <;> cases b <;> simp_all [nmv]

theorem nmRaise_nmv (s : PState) (c : Nat) (h : s.inComments = false) :
    nmv (s.nmRaise c).nm = max (nmv s.nm) (c + 1) := by
  unfold PState.nmRaise
  cases hn : s.nm with
  | none => simp [h, nmv]
  | some q =>
    simp only [h, Option.isNone_some, Bool.not_false, Bool.or_true, if_true]
    by_cases hc : c > q
    · simp only [hc, if_true, nmv]; omega
    · simp only [hc, if_false, nmv, hn]; omega

/-- `Qc` plus: both failure records are "the initial one joined with the same increment" -/
def Qn (sk : Bool) (w : List Char) (a0 b0 : Nat) (a b : PState) : Prop :=
  Qc sk w a b ∧ ∃ F, nmv a.nm = max a0 F ∧ nmv b.nm = max b0 F

theorem qn_ok (sk : Bool) (w : List Char) (a0 b0 : Nat) : QOK (Qn sk w a0 b0) where
  pos := fun h => (qc_ok sk w).pos h.1
  skipws := fun h => (qc_ok sk w).skipws h.1
  ws := fun h => (qc_ok sk w).ws h.1
  notInC := fun h => (qc_ok sk w).notInC h.1
  idcp := fun h => (qc_ok sk w).idcp h.1
  setPos := fun h c => ⟨(qc_ok sk w).setPos h.1 c, h.2⟩
  nmR := fun {a b} h c => by
    refine ⟨(qc_ok sk w).nmR h.1 c, ?_⟩
    obtain ⟨F, h1, h2⟩ := h.2
    refine ⟨max F (c + 1), ?_, ?_⟩
    · rw [nmRaise_nmv a c h.1.2.2.2.2.2.1, h1]; omega
    · rw [nmRaise_nmv b c h.1.2.2.2.2.2.2.1, h2]; omega
  setCP := fun h l l' hl hl' => ⟨(qc_ok sk w).setCP h.1 l l' hl hl', h.2⟩

/-- two finished plain runs from the same position raise the failure record by the same increment -/
theorem plain_det_nm (g : Grammar) (hu : Uniform g) (hm : g.memo = false) (sk : Bool) (w : List Char)
    {n m e : Nat} {s s' t t' : PState} {r r' : Res} (hq : Qc sk w s s')
    (h1 : parse g n e s = (r, t)) (hr : r ≠ .fuel) (h2 : parse g m e s' = (r', t')) (hr' : r' ≠ .fuel) :
    ∃ F, nmv t.nm = max (nmv s.nm) F ∧ nmv t'.nm = max (nmv s'.nm) F := by
  have h1' := parse_le g (Nat.le_max_left n m) e s r t h1 hr
  have h2' := parse_le g (Nat.le_max_right n m) e s' r' t' h2 hr'
  have hq0 : Qn sk w (nmv s.nm) (nmv s'.nm) s s' := ⟨hq, 0, by omega, by omega⟩
  obtain ⟨t'', h3, hq'⟩ := plain_sim (qn_ok sk w _ _) g hu hm (max n m) e s s' r t hq0 h1' hr
  rw [h2'] at h3
  cases h3
  exact hq'.2

/-! ## the memoizing interpreter -/

def resOf : Option Val → Res
  | some v => .ok v
  | .none => .nomatch

/-- every cache entry is the outcome of some finished plain run from its position -/
def CacheValid (g : Grammar) (sk : Bool) (w : List Char) (bound : Nat)
    (cache : List ((Nat × Nat) × (Option Val × Nat))) : Prop :=
  ∀ i p ro np, ((i, p), (ro, np)) ∈ cache →
    ∃ k u u', Qc sk w u u ∧ u.pos = p ∧ parse g k i u = (resOf ro, u') ∧ u'.pos = np ∧ nmv u'.nm ≤ bound

theorem CacheValid.mono {g : Grammar} {sk : Bool} {w : List Char} {b b' : Nat} {c}
    (h : CacheValid g sk w b c) (hb : b ≤ b') : CacheValid g sk w b' c := by
  intro i p ro np hm
  obtain ⟨k, u, u', h1, h2, h3, h4, h5⟩ := h i p ro np hm
  exact ⟨k, u, u', h1, h2, h3, h4, Nat.le_trans h5 hb⟩

/-- plain state vs memoizing state -/
def Qm (g : Grammar) (sk : Bool) (w : List Char) (sP sM : PState) : Prop :=
  Qc sk w sP sM ∧ sP.nm = sM.nm ∧ CacheValid g sk w (nmv sM.nm) sM.cache

theorem qm_ok (g : Grammar) (sk : Bool) (w : List Char) : QOK (Qm g sk w) where
  pos := fun h => (qc_ok sk w).pos h.1
  skipws := fun h => (qc_ok sk w).skipws h.1
  ws := fun h => (qc_ok sk w).ws h.1
  notInC := fun h => (qc_ok sk w).notInC h.1
  idcp := fun h => (qc_ok sk w).idcp h.1
  setPos := fun h c => ⟨(qc_ok sk w).setPos h.1 c, h.2⟩
  nmR := fun {a b} h c => by
    have hia := h.1.2.2.2.2.2.1
    have hib := h.1.2.2.2.2.2.2.1
    have e : (a.nmRaise c).nm = (b.nmRaise c).nm := by
      apply nmv_inj; rw [nmRaise_nmv a c hia, nmRaise_nmv b c hib, h.2.1]
    refine ⟨(qc_ok sk w).nmR h.1 c, e, ?_⟩
    rw [(nmRaise_frame b c).2.2.2.2.2]
    exact h.2.2.mono (by rw [nmRaise_nmv b c hib]; omega)
  setCP := fun h l l' hl hl' => ⟨(qc_ok sk w).setCP h.1 l l' hl hl', h.2⟩

theorem lookupCache_mem {s : PState} {id pos : Nat} {x : Option Val × Nat}
    (h : lookupCache s id pos = some x) : ((id, pos), x) ∈ s.cache := by
  unfold lookupCache at h
  cases hf : s.cache.find? (fun e => e.1.1 == id && e.1.2 == pos) with
  | none => simp [hf] at h
  | some e =>
    simp only [hf, Option.map_some, Option.some.injEq] at h
    have hm := List.mem_of_find?_eq_some hf
    have hp := List.find?_some hf
    simp only [Bool.and_eq_true, beq_iff_eq] at hp
    obtain ⟨⟨e1, e2⟩, e3⟩ := e
    simp only at hp h
    obtain ⟨rfl, rfl⟩ := hp
    subst h
    exact hm

theorem matchNode_withMemo (g : Grammar) (hc : g.comments = none) (b : Bool) (p p' : SubParser) (k k' id : Nat)
    (nd : Node) (s : PState) :
    matchNode (g.withMemo b) (commentsLoop (g.withMemo b) p k) id nd s =
      matchNode g (commentsLoop g p' k') id nd s := by
  have e1 : commentsLoop (g.withMemo b) p k = commentsLoop g p' k' := by
    funext s; simp [commentsLoop, Grammar.withMemo, hc]
  rw [e1]; rfl

theorem Qc.left {sk : Bool} {w : List Char} {a b : PState} (h : Qc sk w a b) : Qc sk w a a :=
  ⟨rfl, h.2.1, h.2.1, h.2.2.2.1, h.2.2.2.1, h.2.2.2.2.2.1, h.2.2.2.2.2.1, h.2.2.2.2.2.2.2.1, h.2.2.2.2.2.2.2.1⟩

theorem Qc.trans_pos {sk : Bool} {w : List Char} {u a b : PState} (hu : Qc sk w u u) (h : Qc sk w a b)
    (hp : u.pos = a.pos) : Qc sk w u a :=
  ⟨hp, hu.2.1, h.2.1, hu.2.2.2.1, h.2.2.2.1, hu.2.2.2.2.2.1, h.2.2.2.2.2.1, hu.2.2.2.2.2.2.2.1, h.2.2.2.2.2.2.2.1⟩

/-- changing position and cache of the memo state keeps `Qc` when the positions still agree -/
theorem Qc.memo_upd {sk : Bool} {w : List Char} {a b : PState} (h : Qc sk w a b) (p : Nat)
    (c : List ((Nat × Nat) × (Option Val × Nat))) (a' : PState) (ha : Qc sk w a' a') (hp : a'.pos = p) :
    Qc sk w a' { b with pos := p, cache := c } :=
  ⟨hp, ha.2.1, h.2.2.1, ha.2.2.2.1, h.2.2.2.2.1, ha.2.2.2.2.2.1, h.2.2.2.2.2.2.1, ha.2.2.2.2.2.2.2.1, h.2.2.2.2.2.2.2.2⟩

theorem memo_step (g : Grammar) (hu : Uniform g) (hm : g.memo = false) (sk : Bool) (w : List Char) (n : Nat)
    (ih : Sim (Qm g sk w) (parse g n) (parse (g.withMemo true) n)) :
    Sim (Qm g sk w) (parse g (n+1)) (parse (g.withMemo true) (n+1)) := by
  intro id sP sM r tP hq h1 hr
  have h1full := h1
  have hQ := qm_ok g sk w
  simp only [parse] at h1 ⊢
  unfold nodeParse at h1 ⊢
  have hnodes : (g.withMemo true).nodes = g.nodes := rfl
  have hmemo : (g.withMemo true).memo = true := rfl
  rw [hnodes, hmemo]
  cases hn : g.nodes[id]? with
  | none => simp only [hn] at h1 ⊢; cases h1; exact ⟨sM, rfl, hq⟩
  | some nd =>
    simp only [hn, hm] at h1 ⊢
    obtain ⟨hws, hsk, heol⟩ := hu.noCtx id nd hn
    have hmN : ∀ r tP, matchNode g (commentsLoop g (parse g n) n) id nd sP = (r, tP) → r ≠ .fuel →
        ∃ tM, matchNode (g.withMemo true) (commentsLoop (g.withMemo true) (parse (g.withMemo true) n) n) id nd sM
          = (r, tM) ∧ Qm g sk w tP tM := by
      intro r tP h1 hr
      rw [matchNode_withMemo g hu.noComments true _ (parse (g.withMemo true) n) n n]
      exact matchNode_sim hQ g hu.noComments (parse g n) (parse (g.withMemo true) n) n n id nd sP sM r tP hq h1 hr
    have hbody := bodyNode_sim hQ ih n nd hws hsk heol
    have hwr : ∀ r tP, wrap false id nd (bodyNode (parse g n) n nd) sP = (r, tP) → r ≠ .fuel →
        parse g (n+1) id sP = (r, tP) →
        ∃ tM, wrap true id nd (bodyNode (parse (g.withMemo true) n) n nd) sM = (r, tM) ∧ Qm g sk w tP tM := by
      intro r tP h1 hr hfull
      unfold wrap at h1 ⊢
      have hposPM : sP.pos = sM.pos := hq.1.1
      simp only [cacheHit, Bool.false_eq_true, if_false] at h1
      cases hl : lookupCache sM id sM.pos with
      | some x =>
        obtain ⟨ro, np⟩ := x
        obtain ⟨k, u, u', hqu, hup, hrun, hnp, hbound⟩ := hq.2.2 id sM.pos ro np (lookupCache_mem hl)
        have hne : resOf ro ≠ .fuel := by cases ro <;> simp [resOf]
        have hqus := Qc.trans_pos hqu hq.1 (hup.trans hposPM.symm)
        have hdet := plain_det g hu hm sk w hqus hrun hne hfull hr
        obtain ⟨F, hF1, hF2⟩ := plain_det_nm g hu hm sk w hqus hrun hne hfull hr
        obtain ⟨hreq, hqt⟩ := hdet
        have hnmP : tP.nm = sM.nm := by
          apply nmv_inj
          rw [hF2, hq.2.1]
          have : F ≤ nmv sM.nm := by omega
          omega
        have hqM : Qm g sk w tP { sM with pos := np } :=
          ⟨⟨hqt.1.symm.trans hnp, hqt.2.2.1, hq.1.2.2.1, hqt.2.2.2.2.1, hq.1.2.2.2.2.1, hqt.2.2.2.2.2.2.1,
            hq.1.2.2.2.2.2.2.1, hqt.2.2.2.2.2.2.2.2, hq.1.2.2.2.2.2.2.2.2⟩, hnmP, hq.2.2⟩
        cases ro with
        | some v =>
          simp only [cacheHit, if_true, hl]
          simp only [resOf] at hreq
          exact ⟨_, by rw [← hreq], hqM⟩
        | none =>
          simp only [cacheHit, if_true, hl]
          simp only [resOf] at hreq
          exact ⟨_, by rw [← hreq], hqM⟩
      | none =>
        simp only [cacheHit, if_true, hl]
        cases hb : bodyNode (parse g n) n nd sP with | mk r1 s1P =>
        rw [hb] at h1
        have hne : r1 ≠ .fuel := by intro e; subst e; simp only [cacheStore] at h1; cases h1; exact hr rfl
        obtain ⟨s1M, hB, hq1⟩ := hbody sP sM r1 s1P hq hb hne
        rw [hB, ← hposPM]
        rcases r1 with v | _ | _ | _
        · simp only [cacheStore, Bool.false_eq_true, if_false] at h1
          simp only [cacheStore, if_true]
          cases h1
          refine ⟨_, rfl, ⟨?_, hq1.2.1, ?_⟩⟩
          · exact ⟨hq1.1.1, hq1.1.2.1, hq1.1.2.2.1, hq1.1.2.2.2.1, hq1.1.2.2.2.2.1, hq1.1.2.2.2.2.2.1,
              hq1.1.2.2.2.2.2.2.1, hq1.1.2.2.2.2.2.2.2.1, hq1.1.2.2.2.2.2.2.2.2⟩
          · intro i p ro np hmem
            simp only [List.mem_cons, Prod.mk.injEq] at hmem
            rcases hmem with ⟨⟨rfl, rfl⟩, rfl, rfl⟩ | hmem
            · exact ⟨n+1, sP, _, hq.1.left, rfl, hfull, hq1.1.1, by rw [hq1.2.1]; exact Nat.le_refl _⟩
            · exact hq1.2.2 i p ro np hmem
        · simp only [cacheStore, Bool.false_eq_true, if_false] at h1
          simp only [cacheStore, if_true]
          cases h1
          refine ⟨_, rfl, ⟨?_, hq1.2.1, ?_⟩⟩
          · exact ⟨rfl, hq1.1.2.1, hq1.1.2.2.1, hq1.1.2.2.2.1, hq1.1.2.2.2.2.1, hq1.1.2.2.2.2.2.1,
              hq1.1.2.2.2.2.2.2.1, hq1.1.2.2.2.2.2.2.2.1, hq1.1.2.2.2.2.2.2.2.2⟩
          · intro i p ro np hmem
            simp only [List.mem_cons, Prod.mk.injEq] at hmem
            rcases hmem with ⟨⟨rfl, rfl⟩, rfl, rfl⟩ | hmem
            · exact ⟨n+1, sP, _, hq.1.left, rfl, hfull, rfl, by rw [← hq1.2.1]; exact Nat.le_refl _⟩
            · exact hq1.2.2 i p ro np hmem
        · exact absurd rfl hne
        · simp only [cacheStore] at h1 ⊢; cases h1; exact ⟨s1M, rfl, hq1⟩
    cases hkind : nd.kind <;> simp only [hkind] at h1 ⊢
    all_goals first | exact hmN r tP h1 hr | exact hwr r tP h1 hr (by simp only [parse, nodeParse, hn, hm, hkind]; exact h1)

/-- lock-step simulation of the plain parser by the memoizing parser -/
theorem memo_sim (g : Grammar) (hu : Uniform g) (hm : g.memo = false) (sk : Bool) (w : List Char) :
    ∀ n, Sim (Qm g sk w) (parse g n) (parse (g.withMemo true) n)
  | 0 => by intro e sA sB r tA _ h1 hr; simp only [parse] at h1; cases h1; exact absurd rfl hr
  | n+1 => memo_step g hu hm sk w n (memo_sim g hu hm sk w n)

end Peg
