import TextxVerif.Proofs.Imp
/-!
The error side of the grammar-import loader `Imp.loadFile` (used by `Props/C25.lean`).

Part 0: inversion lemmas for runs that stop with an error.
Part 1: what a failed lookup means on the files (`Unres`).
Part 2: `ErrOK` — what each error says about the files — and the error specification of `loadFile`
        (`loadFile_espec`, by induction on the fuel, next to `loadFile_spec` for the successful prefix).
Part 3: reachability from the main file.
-/
namespace Imp

/-! ## Part 0: inversion -/

theorem resolveRefs_err {st : St} {ns : Ns} : ∀ (rs : List Ref) (e : Err), resolveRefs st ns rs = .error e →
    ∃ r ∈ rs, e = .unexisting ns r ∧ getItem st r = none
  | [], e, h => by simp [resolveRefs] at h
  | r :: rs, e, h => by
    unfold resolveRefs at h
    split at h
    · rename_i hg
      simp at h
      exact ⟨r, List.mem_cons_self .., h.symm, hg⟩
    · split at h
      · rename_i e' he'
        simp at h; subst h
        obtain ⟨r', hr', a, b⟩ := resolveRefs_err rs _ he'
        exact ⟨r', List.mem_cons_of_mem _ hr', a, b⟩
      · simp at h

theorem newImport_err {load} {st : St} {i : Ns} {e : Err} (h : newImport load st i = .error e) :
    (st.stack = [] ∧ e = .nostack) ∨
    ∃ cur rest, st.stack = cur :: rest ∧ ¬ isKey st (absImport cur i) ∧
      load (absImport cur i) (enter st (absImport cur i)) = .error e := by
  unfold newImport at h
  split at h
  · rename_i hst
    simp at h
    exact .inl ⟨hst, h.symm⟩
  · rename_i cur rest hst
    refine .inr ⟨cur, rest, hst, ?_⟩
    simp only at h
    split at h
    · simp at h
    · rename_i hk
      split at h
      · rename_i e' he'
        simp at h; subst h
        exact ⟨hk, he'⟩
      · simp at h

theorem importAll_cons_err {load} {st : St} {i : Ns} {is : List Ns} {e : Err}
    (h : importAll load (i :: is) st = .error e) :
    newImport load st i = .error e ∨
    ∃ s1, newImport load st i = .ok s1 ∧ importAll load is s1 = .error e := by
  unfold importAll at h
  split at h
  · rename_i e' he'
    simp at h; subst h
    exact .inl he'
  · rename_i s1 hs1
    exact .inr ⟨s1, hs1, h⟩

theorem secondPass_cons_err {st : St} {r : Rule} {rs : List Rule} {e : Err}
    (h : secondPass st (r :: rs) = .error e) :
    (st.stack = [] ∧ e = .nostack) ∨
    ∃ cur anc, st.stack = cur :: anc ∧
      (((∀ c, getItem st ⟨none, r.name⟩ ≠ some (.cls c)) ∧ e = .unexisting cur ⟨none, r.name⟩) ∨
       ∃ c, getItem st ⟨none, r.name⟩ = some (.cls c) ∧
         (resolveRefs st cur r.refs = .error e ∨
          ∃ ts, resolveRefs st cur r.refs = .ok ts ∧
            secondPass (logRes st ⟨c, cur, anc, r, ts⟩) rs = .error e)) := by
  unfold secondPass at h
  split at h
  · rename_i hst
    simp at h
    exact .inl ⟨hst, h.symm⟩
  · rename_i cur anc hst
    refine .inr ⟨cur, anc, hst, ?_⟩
    split at h
    · rename_i c hc
      refine .inr ⟨c, hc, ?_⟩
      split at h
      · rename_i e' he'
        simp at h; subst h
        exact .inl he'
      · rename_i ts hts
        exact .inr ⟨ts, hts, h⟩
    · rename_i hno
      simp at h
      exact .inl ⟨fun c hc => hno c hc, h.symm⟩

theorem loadFile_err {fs : FS} {fuel : Nat} {ns : Ns} {st : St} {e : Err}
    (h : loadFile fs fuel ns st = .error e) :
    (fs ns = none ∧ e = .missing ns) ∨
    ∃ f, fs ns = some f ∧
      ((fuel = 0 ∧ e = .fuel) ∨
       ∃ fuel', fuel = fuel' + 1 ∧
        (importAll (loadFile fs fuel') f.imports (logOpen st ns) = .error e ∨
         ∃ s, importAll (loadFile fs fuel') f.imports (logOpen st ns) = .ok s ∧
           secondPass (createAll s f.rules) f.rules = .error e)) := by
  unfold loadFile at h
  split at h
  · rename_i hf
    simp at h
    exact .inl ⟨hf, h.symm⟩
  · rename_i f hf
    refine .inr ⟨f, hf, ?_⟩
    split at h
    · simp at h
      exact .inl ⟨rfl, h.symm⟩
    · rename_i fuel'
      refine .inr ⟨fuel', rfl, ?_⟩
      split at h
      · rename_i e' he'
        simp at h; subst h
        exact .inl he'
      · rename_i s hs
        exact .inr ⟨s, hs, h⟩

/-! ## Part 1: a failed lookup, on the files -/

/-- Reference `r`, written in file `ns` that is loaded while the files `anc` are still being
loaded, cannot be resolved — stated on the files alone.  Unqualified: neither the file, nor the
built-in rules, nor a visible direct import defines the name.  Qualified `q.X` with `q` the file
itself or one of its direct imports (and not still being loaded): file `q` has no rule `X`.
(A qualified name of a file that is neither is outside the documented fragment: whether it is
found depends on whether that file happens to be loaded already.) -/
def Unres (fs : FS) (ns : Ns) (anc : List Ns) (r : Ref) : Prop :=
  match r.qual with
  | none => specResolve fs ns anc r = none
  | some q => ∀ f, fs ns = some f → (q = ns ∨ q ∈ absImports ns f) → q ∉ anc →
      fsDefines fs q r.name = false

theorem getItem_none_unres {fs st ns anc} (h : LookupState fs st ns anc) (r : Ref)
    (hg : getItem st r = none) : Unres fs ns anc r := by
  unfold Unres
  cases hq : r.qual with
  | none =>
    have hr : r = ⟨none, r.name⟩ := by cases r; simp_all
    have key := getItem_unqualified h r.name
    rw [← hr, hg] at key
    cases hs : specResolve fs ns anc r with
    | none => rfl
    | some s => rw [hs] at key; simp [OptRel] at key
  | some q =>
    intro f hf hq' hqa
    have hr : r = ⟨some q, r.name⟩ := by cases r; simp_all
    obtain ⟨f', d, hf', hd, _, _, himps, _⟩ := h.top
    rw [hf] at hf'; cases hf'
    have hk : isKey st q := by
      rcases hq' with e | hm
      · rw [e]; simp [isKey, hd]
      · exact h.impKeys q (by rw [himps]; exact hm)
    have hfill : Filled fs st q := by
      rcases h.keys q hk with e | ha | hfl
      · rw [e]; exact h.top
      · exact absurd ha hqa
      · exact hfl
    obtain ⟨fq, dq, hfq, hdq, _, hdomq, _, _⟩ := hfill
    rw [hr] at hg
    simp only [getItem, hdq, Option.bind_some, Option.map_eq_none_iff] at hg
    have hdom := hdomq r.name
    rw [hg] at hdom
    simp only [fsDefines, hfq]
    simpa using hdom.symm

/-- in the state in which a file resolves its references its own rule names are found -/
theorem own_name_found {fs st ns anc} (h : LookupState fs st ns anc) {f : File} (hf : fs ns = some f)
    {r : Rule} (hr : r ∈ f.rules) : ∃ c, getItem st ⟨none, r.name⟩ = some (.cls c) := by
  have key := getItem_unqualified h r.name
  have hdef : f.defines r.name = true := by
    simp only [File.defines, List.any_eq_true]
    exact ⟨r, hr, by simp⟩
  have hs : specResolve fs ns anc ⟨none, r.name⟩ = some (.rule ns r.name) := by
    simp [specResolve, hf, hdef]
  rw [hs] at key
  cases hg : getItem st ⟨none, r.name⟩ with
  | none => rw [hg] at key; simp [OptRel] at key
  | some t =>
    rw [hg] at key
    cases t with
    | cls c => exact ⟨c, rfl⟩
    | base b => simp [OptRel, Denotes] at key

/-! ## Part 2: what an error says about the files -/

/-- `below` is the namespace stack when the load started (for `loadMain`: `[[main]]`).
* `missing x`: there is no file `x`, and `x` is at the end of a path of import statements that
  starts at the stack.
* `unexisting ns r`: `ns` is such a file, `r` is a reference written in one of its rules, and `r`
  cannot be resolved (`Unres`) with the files `anc` on that path invisible.
* lack of fuel / empty stack: nothing is claimed (see `loadFile_fuel`). -/
def ErrOK (fs : FS) (below : List Ns) : Err → Prop
  | .missing x => fs x = none ∧ ∃ anc, Chain fs (x :: anc) ∧ below <:+ (x :: anc)
  | .unexisting ns r => ∃ anc f rule, Chain fs (ns :: anc) ∧ below <:+ (ns :: anc) ∧
      (ns :: anc).Nodup ∧ fs ns = some f ∧ rule ∈ f.rules ∧ r ∈ rule.refs ∧ Unres fs ns anc r
  | _ => True

theorem ErrOK.mono {fs : FS} {below below' : List Ns} {e : Err} (hs : below' <:+ below)
    (h : ErrOK fs below e) : ErrOK fs below' e := by
  cases e with
  | missing x =>
    obtain ⟨h1, anc, h2, h3⟩ := h
    exact ⟨h1, anc, h2, hs.trans h3⟩
  | unexisting ns r =>
    obtain ⟨anc, f, rule, h1, h2, h3⟩ := h
    exact ⟨anc, f, rule, h1, hs.trans h2, h3⟩
  | fuel => trivial
  | nostack => trivial

theorem secondPass_err {fs} {n : Ns} {rest : List Ns} {f : File} (hf : fs n = some f)
    (hnd : (n :: rest).Nodup) (hch : Chain fs (n :: rest)) :
    ∀ (rs : List Rule) (st : St) (e : Err), secondPass st rs = .error e →
      Inv fs st rest → st.stack = n :: rest → isKey st n → (∀ r ∈ rs, r ∈ f.rules) →
      ErrOK fs (n :: rest) e
  | [], st, e, h, _, _, _, _ => by simp [secondPass] at h
  | r :: rs, st, e, h, hinv, hst, hk, hrs => by
    have hn : n ∉ rest := (List.nodup_cons.1 hnd).1
    have hl := hinv.lookupState hst hk hn
    have hr : r ∈ f.rules := hrs r (List.mem_cons_self ..)
    rcases secondPass_cons_err h with ⟨hs, _⟩ | ⟨cur, anc, hst', hcase⟩
    · rw [hst] at hs; cases hs
    · rw [hst] at hst'; cases hst'
      rcases hcase with ⟨hno, _⟩ | ⟨c, hc, hcase⟩
      · obtain ⟨c, hc⟩ := own_name_found hl hf hr
        exact absurd hc (hno c)
      · rcases hcase with herr | ⟨ts, hts, h2⟩
        · obtain ⟨r', hr', he, hg⟩ := resolveRefs_err _ _ herr
          subst he
          exact ⟨rest, f, r, hch, List.suffix_refl _, hnd, hf, hr, hr', getItem_none_unres hl r' hg⟩
        · have hcls : st.classes[c]? = some (n, r.name) := by
            have key := getItem_unqualified hl r.name
            rw [hc] at key
            have hdef : f.defines r.name = true := by
              simp only [File.defines, List.any_eq_true]
              exact ⟨r, hr, by simp⟩
            simp [specResolve, hf, hdef, OptRel, Denotes] at key
            exact key
          have hentry : EntryOK fs st.classes ⟨c, n, rest, r, ts⟩ :=
            ⟨hch, hcls, ⟨f, hf, hr⟩, resolveRefs_all2 hl _ _ hts⟩
          exact secondPass_err hf hnd hch rs _ e h2 (hinv.logRes _ hentry) (by simpa using hst)
            (by simpa [isKey, logRes] using hk) (fun r' hr' => hrs r' (List.mem_cons_of_mem _ hr'))

/-- what `loadFile` guarantees when it stops with an error (same situation as `Spec`) -/
def ESpec (fs : FS) (load : Ns → St → Except Err St) : Prop :=
  ∀ n st e rest, load n st = .error e → st.stack = n :: rest → (n :: rest).Nodup →
    Chain fs (n :: rest) → Inv fs st (n :: rest) → n ∉ st.opened → st.imps n = [] →
    ErrOK fs (n :: rest) e

theorem importAll_err {fs load} (hs : StackOK load) (hk : KeysMono load) (hfr : ImpsFrame load)
    (hspec : Spec fs load) (hesp : ESpec fs load) :
    ∀ (is : List Ns) (st : St) (e : Err) (n : Ns) (rest : List Ns),
      importAll load is st = .error e → st.stack = n :: rest → (n :: rest).Nodup →
      Chain fs (n :: rest) → Inv fs st (n :: rest) → (∀ i ∈ is, Edge fs n (absImport n i)) →
      ErrOK fs (n :: rest) e
  | [], st, e, n, rest, h, _, _, _, _, _ => by simp [importAll] at h
  | i :: is, st, e, n, rest, h, hst, hnd, hch, hinv, hedge => by
    rcases importAll_cons_err h with h1 | ⟨s1, h1, h2⟩
    · rcases newImport_err h1 with ⟨hs0, _⟩ | ⟨cur, rest', hst', hnk, hl⟩
      · rw [hst] at hs0; cases hs0
      · rw [hst] at hst'; cases hst'
        have hfresh : absImport n i ∉ n :: rest := fun hm => hnk (hinv.stack_keys _ hm)
        have key := hesp _ _ _ (n :: rest) hl (by simp [hst])
          (List.nodup_cons.2 ⟨hfresh, hnd⟩)
          ⟨hedge i (List.mem_cons_self ..), hch⟩ (hinv.enter _ hnk)
          (by simp; exact fun hm => hnk (hinv.opened _ hm)) (enter_fresh _ _ hnk).2
        exact key.mono (List.suffix_cons _ _)
    · have h1' : importAll load [i] st = .ok s1 := by simp [importAll, h1]
      obtain ⟨hinv1, _⟩ := importAll_inv hs hk hfr hspec [i] st s1 n rest h1' hst hnd hch hinv
        (fun j hj => hedge j (by
          have : j = i := by simpa using hj
          rw [this]; exact List.mem_cons_self ..))
      have hst1 : s1.stack = n :: rest := by rw [newImport_stack hs h1]; exact hst
      exact importAll_err hs hk hfr hspec hesp is s1 e n rest h2 hst1 hnd hch hinv1
        (fun j hj => hedge j (List.mem_cons_of_mem _ hj))

theorem loadFile_espec (fs : FS) : ∀ fuel, ESpec fs (loadFile fs fuel)
  | 0 => by
    intro n st e rest h hst hnd hch hinv hno himps
    rcases loadFile_err h with ⟨hnone, he⟩ | ⟨f, hf, hcase⟩
    · subst he; exact ⟨hnone, rest, hch, List.suffix_refl _⟩
    · rcases hcase with ⟨_, he⟩ | ⟨fuel', hfu, _⟩
      · subst he; trivial
      · omega
  | fuel + 1 => by
    intro n st e rest h hst hnd hch hinv hno himps
    rcases loadFile_err h with ⟨hnone, he⟩ | ⟨f, hf, hcase⟩
    · subst he; exact ⟨hnone, rest, hch, List.suffix_refl _⟩
    · rcases hcase with ⟨h0, _⟩ | ⟨fuel', hfu, hcase⟩
      · omega
      · have : fuel' = fuel := by omega
        subst this
        have hkn : isKey st n := hinv.stack_keys _ (List.mem_cons_self ..)
        have hedges : ∀ i ∈ f.imports, Edge fs n (absImport n i) :=
          fun i hi => ⟨f, hf, List.mem_map.2 ⟨i, hi, rfl⟩⟩
        rcases hcase with h1 | ⟨s1, h1, h2⟩
        · exact importAll_err (loadFile_stack fs fuel') (loadFile_keys fs fuel')
            (loadFile_impsFrame fs fuel') (loadFile_spec fs fuel') (loadFile_espec fs fuel')
            f.imports _ e n rest h1 (by simpa using hst) hnd hch (hinv.logOpen n hkn hno) hedges
        · obtain ⟨hinv1, himp1⟩ := importAll_inv (loadFile_stack fs fuel') (loadFile_keys fs fuel')
            (loadFile_impsFrame fs fuel') (loadFile_spec fs fuel') f.imports _ s1 n rest h1
            (by simpa using hst) hnd hch (hinv.logOpen n hkn hno) hedges
          have hst1 : s1.stack = n :: rest := by
            rw [importAll_stack (loadFile_stack fs fuel') _ _ _ h1]; simpa using hst
          have hnr : n ∉ rest := (List.nodup_cons.1 hnd).1
          have himp1' : s1.imps n = absImports n f := by
            rw [himp1]; simp [logOpen, himps, absImports]
          have hinv2 := hinv1.createAll hst1 hnr hf himp1'
          exact secondPass_err hf hnd hch f.rules _ e h2 hinv2 (by simpa using hst1)
            ((createAll_key _ _ _).2 (hinv1.stack_keys _ (List.mem_cons_self ..))) (fun r hr => hr)

theorem loadMain_err {fs : FS} {fuel : Nat} {main : Seg} {e : Err}
    (h : loadMain fs fuel main = .error e) : ErrOK fs [[main]] e := by
  unfold loadMain at h
  have hk0 : ¬ isKey St.empty [main] := by simp [isKey, St.empty]
  have hinv0 := (Inv.init fs).enter [main] hk0
  have hst0 : (enter St.empty [main]).stack = [[main]] := by simp [St.empty]
  exact loadFile_espec fs fuel [main] _ e [] h hst0 (by simp) (by simp [Chain]) hinv0
    (by simp [St.empty]) (enter_fresh _ _ hk0).2

/-! ## Part 3: files connected to the main file -/

/-- `x` is the main file or reachable from it through import statements -/
def Connected (fs : FS) (main : Seg) (x : Ns) : Prop := x = [main] ∨ Reach fs [main] x

theorem connected_of_chain {fs : FS} {main : Seg} {x : Ns} {anc : List Ns}
    (hch : Chain fs (x :: anc)) (hs : [[main]] <:+ (x :: anc)) : Connected fs main x := by
  obtain ⟨pre, hp⟩ := hs
  cases pre with
  | nil =>
    simp at hp
    exact .inl hp.1.symm
  | cons y pre' =>
    simp at hp
    exact .inr (hch.reach [main] (by rw [← hp.2]; simp))

theorem Reach.snoc {fs : FS} {a b c : Ns} (h1 : Reach fs a b) (e : Edge fs b c) : Reach fs a c :=
  h1.trans (.single e)

/-- after a successful load every file connected to the main file has its namespace -/
theorem loadMain_connected_key {fs : FS} {fuel : Nat} {main : Seg} {st : St}
    (h : loadMain fs fuel main = .ok st) : ∀ x, Connected fs main x → isKey st x := by
  obtain ⟨hinv, _, hk⟩ := loadMain_inv h
  have step : ∀ a b, isKey st a → Edge fs a b → isKey st b := by
    intro a b ha ⟨f, hf, hb⟩
    rcases hinv.keys a ha with hE | ⟨f', d, hf', _, _, _, himps, _⟩
    · simp at hE
    · rw [hf] at hf'; cases hf'
      exact hinv.impKeys a b (by rw [himps]; exact hb)
  have key : ∀ a b, Reach fs a b → isKey st a → isKey st b := by
    intro a b hr
    induction hr with
    | single e => exact fun ha => step _ _ ha e
    | step e _ ih => exact fun ha => ih (step _ _ ha e)
  intro x hx
  rcases hx with rfl | hr
  · exact hk
  · exact key _ _ hr hk

/-! ## Part 4: the files-only criterion -/

theorem closedUnder_step {fs : FS} {S : List Ns} (hc : closedUnder fs S = true) {a b : Ns}
    (ha : a ∈ S) (e : Edge fs a b) : b ∈ S := by
  obtain ⟨f, hf, hb⟩ := e
  unfold closedUnder at hc
  have h1 := List.all_eq_true.1 hc a ha
  simp only [hf] at h1
  have h2 := List.all_eq_true.1 h1 b hb
  simpa using h2

theorem connected_mem_of_closed {fs : FS} {main : Seg} {S : List Ns} (hc : closedUnder fs S = true)
    (hm : [main] ∈ S) : ∀ x, Connected fs main x → x ∈ S := by
  have key : ∀ a b, Reach fs a b → a ∈ S → b ∈ S := by
    intro a b hr
    induction hr with
    | single e => exact fun ha => closedUnder_step hc ha e
    | step e _ ih => exact fun ha => ih (closedUnder_step hc ha e)
  intro x hx
  rcases hx with rfl | hr
  · exact hm
  · exact key _ _ hr hm

/-- an unresolvable reference is not `docResolvable` when nothing that is still being loaded is
among the file's imports (in particular: acyclic import graph) -/
theorem Unres.not_docResolvable {fs : FS} {ns : Ns} {anc : List Ns} {f : File} {r : Ref}
    (hf : fs ns = some f) (hn : ns ∉ anc) (hd : ∀ i ∈ absImports ns f, i ∉ anc)
    (h : Unres fs ns anc r) : docResolvable fs ns f r = false := by
  unfold Unres at h
  unfold docResolvable
  cases hq : r.qual with
  | none =>
    rw [hq] at h
    simp only at h ⊢
    have : specResolve fs ns anc r = specResolve fs ns [] r := by
      unfold specResolve
      rw [hq]
      simp only [hf]
      split
      · rfl
      · split
        · rfl
        · congr 1
          apply find?_congr'
          intro i hi
          simp [hd i hi]
    rw [docResolve, ← this, h]; rfl
  | some q =>
    rw [hq] at h
    simp only at h ⊢
    by_cases hdir : q = ns ∨ q ∈ absImports ns f
    · have hqa : q ∉ anc := by
        rcases hdir with e | hm
        · rw [e]; exact hn
        · exact hd q hm
      simp [h f hf hdir hqa]
    · have h1 : decide (q = ns) = false := by
        simp; exact fun e => hdir (.inl e)
      have h2 : (absImports ns f).contains q = false := by
        simp; exact fun e => hdir (.inr e)
      rw [h1, h2]; rfl

theorem acyclic_imports_not_anc {fs : FS} (hac : Acyclic fs) {ns : Ns} {anc : List Ns} {f : File}
    (hf : fs ns = some f) (hch : Chain fs (ns :: anc)) :
    ns ∉ anc ∧ ∀ i ∈ absImports ns f, i ∉ anc := by
  refine ⟨fun h => hac ns (hch.reach ns h), fun i hi hia => ?_⟩
  exact hac ns (.step ⟨f, hf, hi⟩ (hch.reach i hia))

theorem All2.of_mem {α β} {R : α → β → Prop} : ∀ {as : List α} {bs : List β}, All2 R as bs →
    ∀ a ∈ as, ∃ b ∈ bs, R a b
  | _, _, .nil, a, h => by simp at h
  | _, _, .cons r rest, a, h => by
    rcases List.mem_cons.1 h with rfl | h'
    · exact ⟨_, List.mem_cons_self .., r⟩
    · obtain ⟨b, hb, hr⟩ := All2.of_mem rest a h'
      exact ⟨b, List.mem_cons_of_mem _ hb, hr⟩

theorem docLoadable_spec {fs : FS} {S : List Ns} {main : Seg} (h : docLoadable fs S main = true) :
    ∀ x, Connected fs main x → ∃ f, fs x = some f ∧
      ∀ rule ∈ f.rules, ∀ r ∈ rule.refs, docResolvable fs x f r = true := by
  unfold docLoadable at h
  simp only [Bool.and_eq_true] at h
  obtain ⟨⟨hm, hc⟩, hall⟩ := h
  intro x hx
  have hxS := connected_mem_of_closed hc (by simpa using hm) x hx
  have hx' := List.all_eq_true.1 hall x hxS
  cases hf : fs x with
  | none => rw [hf] at hx'; simp at hx'
  | some f =>
    rw [hf] at hx'
    simp only at hx'
    exact ⟨f, rfl, fun rule hrule r hr =>
      List.all_eq_true.1 (List.all_eq_true.1 hx' rule hrule) r hr⟩

/-- Reference `r` of file `x` (= `f`) can be resolved while the files `anc` are still being
loaded: the positive counterpart of `Unres`. -/
def ResolvableNow (fs : FS) (x : Ns) (anc : List Ns) (f : File) (r : Ref) : Prop :=
  match r.qual with
  | none => (specResolve fs x anc r).isSome = true
  | some q => (q = x ∨ q ∈ absImports x f) ∧ q ∉ anc ∧ fsDefines fs q r.name = true

theorem ResolvableNow.not_unres {fs : FS} {x : Ns} {anc : List Ns} {f : File} {r : Ref}
    (hf : fs x = some f) (h : ResolvableNow fs x anc f r) : ¬ Unres fs x anc r := by
  unfold ResolvableNow at h
  unfold Unres
  cases hq : r.qual with
  | none =>
    rw [hq] at h
    simp only at h ⊢
    intro hn; rw [hn] at h; cases h
  | some q =>
    rw [hq] at h
    simp only at h ⊢
    intro hn
    have := hn f hf h.1 h.2.1
    rw [h.2.2] at this; cases this

end Imp
