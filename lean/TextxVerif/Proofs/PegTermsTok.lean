import TextxVerif.Proofs.PegGapSim
/-!
# Every terminal of the result tree is a match of the token table (C22)

A whole-run invariant of the Arpeggio mirror with memoization off: every `Terminal` that occurs anywhere in
the parse tree returned by `parse` was produced by `Match.parse` of its own node, i.e. it is an entry of the
token table (`tokLen g nd.tok pos = some len`) or the `EOF` terminal at the end of the input (`parse_terms`).
The loops are generic in the predicate on terminals (`Val.allTerms P`).

With `TokCompat` (the `LexicalGrammar` reading of C22) this gives: no terminal of the tree overlaps the
insertion point of a gap extension (`parse_terms_clear`) — what the model construction needs, because it
reads the attribute values from the input by (position, length).
-/
namespace Peg

mutual
/-- every terminal `(node, position, length)` of the tree satisfies `P` -/
def Val.allTerms (P : Nat → Nat → Nat → Bool) : Val → Bool
  | .none => true
  | .term n q l => P n q l
  | .nt _ ks => Val.allTermsList P ks
  | .list vs => Val.allTermsList P vs
def Val.allTermsList (P : Nat → Nat → Nat → Bool) : List Val → Bool
  | [] => true
  | v :: vs => v.allTerms P && Val.allTermsList P vs
end

variable {P : Nat → Nat → Nat → Bool}

theorem Val.allTermsList_iff (vs : List Val) :
    Val.allTermsList P vs = true ↔ ∀ v ∈ vs, v.allTerms P = true := by
  induction vs with
  | nil => simp [Val.allTermsList]
  | cons v vs ih => simp [Val.allTermsList, ih]

theorem Val.allTermsList_cons {v : Val} {vs : List Val} (h1 : v.allTerms P = true)
    (h2 : Val.allTermsList P vs = true) : Val.allTermsList P (v :: vs) = true := by
  simp [Val.allTermsList, h1, h2]

theorem Val.allTermsList_append {a b : List Val} (h1 : Val.allTermsList P a = true)
    (h2 : Val.allTermsList P b = true) : Val.allTermsList P (a ++ b) = true := by
  rw [Val.allTermsList_iff] at *
  intro v hv
  rcases List.mem_append.mp hv with h | h
  · exact h1 v h
  · exact h2 v h

theorem Val.allTermsList_reverse {a : List Val} (h : Val.allTermsList P a = true) :
    Val.allTermsList P a.reverse = true := by
  rw [Val.allTermsList_iff] at *
  intro v hv
  exact h v (List.mem_reverse.mp hv)

mutual
theorem Val.allTerms_flatten : ∀ v : Val, v.allTerms P = true → Val.allTermsList P v.flatten = true
  | .none, _ => by simp [Val.flatten, Val.allTermsList, Val.allTerms]
  | .term .., h => by simpa [Val.flatten, Val.allTermsList] using h
  | .nt .., h => by simpa [Val.flatten, Val.allTermsList] using h
  | .list vs, h => by
      simp only [Val.flatten]
      exact Val.allTerms_flattenList vs (by simpa [Val.allTerms] using h)
theorem Val.allTerms_flattenList : ∀ vs : List Val, Val.allTermsList P vs = true →
    Val.allTermsList P (Val.flattenList vs) = true
  | [], _ => by simp [Val.flattenList, Val.allTermsList]
  | v :: vs, h => by
      simp only [Val.allTermsList, Bool.and_eq_true] at h
      simp only [Val.flattenList]
      exact Val.allTermsList_append (Val.allTerms_flatten v h.1) (Val.allTerms_flattenList vs h.2)
end

mutual
theorem Val.allTerms_mono {Q : Nat → Nat → Nat → Bool} (hPQ : ∀ n q l, P n q l = true → Q n q l = true) :
    ∀ v : Val, v.allTerms P = true → v.allTerms Q = true
  | .none, _ => rfl
  | .term n q l, h => hPQ n q l h
  | .nt _ ks, h => Val.allTermsList_mono hPQ ks h
  | .list vs, h => Val.allTermsList_mono hPQ vs h
theorem Val.allTermsList_mono {Q : Nat → Nat → Nat → Bool} (hPQ : ∀ n q l, P n q l = true → Q n q l = true) :
    ∀ vs : List Val, Val.allTermsList P vs = true → Val.allTermsList Q vs = true
  | [], _ => rfl
  | v :: vs, h => by
      simp only [Val.allTermsList, Bool.and_eq_true] at h ⊢
      exact ⟨Val.allTerms_mono hPQ v h.1, Val.allTermsList_mono hPQ vs h.2⟩
end

theorem finish_allTerms (id : Nat) (nd : Node) (v : Val) (h : v.allTerms P = true) :
    (finish id nd v).allTerms P = true := by
  have key : ∀ w : Val, w.allTerms P = true →
      (if nd.root && w.truthy then
        (match w with
        | .term .. => w
        | .nt .. => w
        | w => .nt id w.flatten)
      else w).allTerms P = true := by
    intro w hw
    split
    · split
      · exact hw
      · exact hw
      · simp only [Val.allTerms]; exact Val.allTerms_flatten w hw
    · exact hw
  unfold finish
  cases hs : nd.suppress with
  | true => exact key .none rfl
  | false =>
    have hw : (match v with
        | .list (Val.none :: _) => Val.none
        | v => v).allTerms P = true := by
      cases v with
      | list vs =>
        cases vs with
        | nil => exact h
        | cons w ws => cases w <;> first | rfl | exact h
      | _ => exact h
    exact key _ hw

theorem single_good {v : Val} (h : v.allTerms P = true) : (Val.list [v]).allTerms P = true := by
  simp [Val.allTerms, Val.allTermsList, h]

/-! ## results -/

/-- a successful result only has terminals that satisfy `P` -/
def Good1 (P : Nat → Nat → Nat → Bool) : Res × PState → Prop
  | (.ok v, _) => v.allTerms P = true
  | _ => True

def GoodP (P : Nat → Nat → Nat → Bool) (q : SubParser) : Prop := ∀ e s, Good1 P (q e s)
def GoodB (P : Nat → Nat → Nat → Bool) (b : PState → Res × PState) : Prop := ∀ s, Good1 P (b s)

theorem Good1.of_fst {x y : Res × PState} (h : Good1 P y) (e : x.1 = y.1) : Good1 P x := by
  obtain ⟨r, s⟩ := x
  obtain ⟨r', s'⟩ := y
  simp only at e
  subst e
  cases r <;> exact h

theorem accRes_good {acc : List Val} (h : Val.allTermsList P acc = true) :
    (if acc.isEmpty then Val.none else Val.list acc.reverse).allTerms P = true := by
  split
  · rfl
  · simp only [Val.allTerms]; exact Val.allTermsList_reverse h

theorem listRes_good {acc : List Val} (h : Val.allTermsList P acc = true) :
    (Val.list acc.reverse).allTerms P = true := by
  simp only [Val.allTerms]; exact Val.allTermsList_reverse h

theorem push_good {v : Val} {acc : List Val} (hv : v.allTerms P = true) (h : Val.allTermsList P acc = true) :
    Val.allTermsList P (if v.truthy then v :: acc else acc) = true := by
  split
  · exact Val.allTermsList_cons hv h
  · exact h

theorem seqLoop_good {q : SubParser} (hq : GoodP P q) :
    ∀ es s acc, Val.allTermsList P acc = true → Good1 P (seqLoop q es s acc) := by
  intro es
  induction es with
  | nil => intro s acc h; exact accRes_good h
  | cons e es ih =>
    intro s acc h
    simp only [seqLoop]
    have := hq e s
    rcases h1 : q e s with ⟨r, t⟩
    rw [h1] at this
    cases r <;> (try simp only)
    · exact ih _ _ (push_good this h)
    all_goals trivial

theorem choiceLoop_good {q : SubParser} (hq : GoodP P q) :
    ∀ es c s, Good1 P (choiceLoop q es c s) := by
  intro es
  induction es with
  | nil => intro c s; trivial
  | cons e es ih =>
    intro c s
    simp only [choiceLoop]
    have := hq e s
    rcases h1 : q e s with ⟨r, t⟩
    rw [h1] at this
    cases r <;> (try simp only)
    · rename_i v
      cases v
      · exact ih _ _
      all_goals exact single_good this
    · exact ih _ _
    all_goals trivial

/-- result of the inner loop of `UnorderedGroup._parse` -/
def GoodF (P : Nat → Nat → Nat → Bool) : ForRes × PState → Prop
  | (.hit v _, _) => v.allTerms P = true
  | _ => True

theorem unordFor_good {q : SubParser} (hq : GoodP P q) :
    ∀ es c s se m, GoodF P (unordFor q es c s se m) := by
  intro es
  induction es with
  | nil => intro c s se m; trivial
  | cons e es ih =>
    intro c s se m
    simp only [unordFor]
    have := hq e s
    rcases h1 : q e s with ⟨r, t⟩
    rw [h1] at this
    cases r <;> (try simp only)
    · split
      · split
        · exact ih _ _ _ _
        · exact this
      · exact ih _ _ _ _
    · exact ih _ _ _ _
    all_goals trivial

theorem repLoop_good {q : SubParser} (hq : GoodP P q) (e : Nat) (sep : Option Nat) :
    ∀ n s acc f pv, Val.allTermsList P acc = true → Good1 P (repLoop q e sep n s acc f pv) := by
  intro n
  induction n with
  | zero => intro s acc f pv _; trivial
  | succ n ih =>
    intro s acc f pv h
    have elem : ∀ (s1 : PState) (acc1 : List Val), Val.allTermsList P acc1 = true →
        Good1 P (match q e s1 with
            | (.ok v, s2) => if v.truthy then repLoop q e sep n s2 (v :: acc1) false true
                              else (.ok (.list acc1.reverse), s2)
            | (.nomatch, s2) => if f then (.nomatch, { s2 with pos := s.pos })
                                else (.ok (.list acc1.reverse), { s2 with pos := s.pos })
            | r => r) := by
      intro s1 acc1 h1
      have := hq e s1
      rcases h2 : q e s1 with ⟨r, t⟩
      rw [h2] at this
      cases r <;> (try simp only)
      · split
        · exact ih _ _ _ _ (Val.allTermsList_cons this h1)
        · exact listRes_good h1
      · split
        · trivial
        · exact listRes_good h1
      all_goals trivial
    simp only [repLoop]
    cases sep with
    | none => exact elem s acc h
    | some sp =>
      cases pv
      · exact elem s acc h
      · simp only [if_true]
        have := hq sp s
        rcases h2 : q sp s with ⟨r, t⟩
        rw [h2] at this
        cases r <;> (try simp only)
        · exact elem t _ (push_good this h)
        · split
          · trivial
          · exact listRes_good h
        all_goals trivial

theorem unordLoop_good {q : SubParser} (hq : GoodP P q) (sep : Option Nat) :
    ∀ n todo s acc f sr, Val.allTermsList P acc = true → (∀ sv, sr = some sv → sv.allTerms P = true) →
      Good1 P (unordLoop q sep n todo s acc f sr) := by
  intro n
  induction n with
  | zero => intro todo s acc f sr _ _; trivial
  | succ n ih =>
    intro todo s acc f sr h hsr
    cases todo with
    | nil => exact accRes_good h
    | cons e0 es0 =>
      have rest : ∀ (s1 : PState) (se : Bool) (sr1 : Option Val), (∀ sv, sr1 = some sv → sv.allTerms P = true) →
          Good1 P (match unordFor q (e0 :: es0) s1.pos s1 se true with
              | (.hit v e, s2) =>
                  unordLoop q sep n (remove (e0 :: es0) e) s2
                    (v :: (match sr1 with | some sv => if sv.truthy then sv :: acc else acc | .none => acc)) false sr1
              | (.exhausted true, s2) =>
                  (.ok (if acc.isEmpty then .none else .list acc.reverse), { s2 with pos := s.pos })
              | (.exhausted false, s2) => (.nomatch, { s2 with pos := s.pos })
              | (.fuel, s2) => (.fuel, s2)
              | (.bad, s2) => (.bad, s2)) := by
        intro s1 se sr1 hsr1
        have := unordFor_good hq (e0 :: es0) s1.pos s1 se true
        rcases h2 : unordFor q (e0 :: es0) s1.pos s1 se true with ⟨r, t⟩
        rw [h2] at this
        cases r <;> (try simp only)
        · refine ih _ _ _ _ _ (Val.allTermsList_cons this ?_) hsr1
          cases sr1 with
          | none => exact h
          | some sv => exact push_good (hsr1 sv rfl) h
        · rename_i m
          cases m
          · trivial
          · exact accRes_good h
        all_goals trivial
      simp only [unordLoop]
      cases sep with
      | none => exact rest s false sr hsr
      | some sp =>
        cases f
        · simp only [Bool.not_false, if_true]
          have := hq sp s
          rcases h2 : q sp s with ⟨r, t⟩
          rw [h2] at this
          cases r <;> (try simp only)
          · exact rest t false (some _) (fun sv hsv => by cases hsv; exact this)
          · exact rest _ true sr hsr
          all_goals trivial
        · exact rest s false sr hsr

theorem withWsCtx_good (nd : Node) {b : PState → Res × PState} (hb : GoodB P b) : GoodB P (withWsCtx nd b) :=
  fun _ => (hb _).of_fst rfl

theorem withEol_good (nd : Node) {b : PState → Res × PState} (hb : GoodB P b) : GoodB P (withEol nd b) :=
  fun _ => (hb _).of_fst rfl

theorem bodyNode_good {q : SubParser} (hq : GoodP P q) (n : Nat) (nd : Node) : GoodB P (bodyNode q n nd) := by
  intro s
  unfold bodyNode
  cases nd.kind <;> simp only
  case seq =>
    have := withWsCtx_good nd (fun t => seqLoop_good hq nd.kids t [] rfl) s
    rcases h2 : withWsCtx nd (fun s1 => seqLoop q nd.kids s1 []) s with ⟨r, t⟩
    rw [h2] at this
    cases r <;> first | exact this | trivial
  case choice =>
    have := withWsCtx_good nd (fun t => choiceLoop_good hq nd.kids s.pos t) s
    rcases h2 : withWsCtx nd (fun s1 => choiceLoop q nd.kids s.pos s1) s with ⟨r, t⟩
    rw [h2] at this
    cases r <;> first | exact this | trivial
  case opt =>
    rcases nd.kids with _ | ⟨e, _ | ⟨e2, es⟩⟩ <;> simp only
    · trivial
    · have := hq e s
      rcases h2 : q e s with ⟨r, t⟩
      rw [h2] at this
      cases r <;> (try simp only)
      · exact single_good this
      all_goals trivial
    · trivial
  case star =>
    rcases nd.kids with _ | ⟨e, _ | ⟨e2, es⟩⟩ <;> simp only
    · trivial
    · exact withEol_good nd (fun t => repLoop_good hq e nd.sep n t [] false false rfl) s
    · trivial
  case plus =>
    rcases nd.kids with _ | ⟨e, _ | ⟨e2, es⟩⟩ <;> simp only
    · trivial
    · exact withEol_good nd (fun t => repLoop_good hq e nd.sep n t [] true false rfl) s
    · trivial
  case unord =>
    have := withEol_good nd
      (fun t => unordLoop_good hq nd.sep n nd.kids t [] true .none rfl (fun _ h => by cases h)) s
    rcases h2 : withEol nd (fun s1 => unordLoop q nd.sep n nd.kids s1 [] true .none) s with ⟨r, t⟩
    rw [h2] at this
    cases r <;> first | exact this | trivial
  case andP =>
    rcases nd.kids with _ | ⟨e, _ | ⟨e2, es⟩⟩ <;> simp only
    · trivial
    · rcases h2 : q e s with ⟨r, t⟩
      cases r <;> first | rfl | trivial
    · trivial
  case notP =>
    rcases nd.kids with _ | ⟨e, _ | ⟨e2, es⟩⟩ <;> simp only
    · trivial
    · rcases h2 : q e s with ⟨r, t⟩
      cases r <;> first | rfl | trivial
    · trivial
  all_goals trivial

theorem wrap_good (id : Nat) (nd : Node) {b : PState → Res × PState} (hb : GoodB P b) :
    GoodB P (wrap false id nd b) := by
  intro s
  have hh : cacheHit false id s = none := rfl
  unfold wrap
  rw [hh]
  simp only
  have := hb s
  rcases h2 : b s with ⟨r, t⟩
  rw [h2] at this
  cases r <;> simp only [cacheStore]
  · exact finish_allTerms id nd _ this
  all_goals trivial

/-! ## the terminals -/

/-- the terminal `(id, q, len)` is what `Match.parse` of node `id` produces: an entry of the token table of
the node's token, or the `EOF` terminal (length 0) at the end of the input -/
def tokTermB (g : Grammar) (id q len : Nat) : Bool :=
  match g.nodes[id]? with
  | some nd =>
    if nd.kind = .eof then len == 0 && q == g.input.size
    else tokLen g nd.tok q == some len
  | none => false

theorem tokenStage_good (g : Grammar) (id : Nat) (nd : Node) (hn : g.nodes[id]? = some nd)
    (rs : Res × PState) : Good1 (tokTermB g) (tokenStage g id nd rs) := by
  obtain ⟨r, u⟩ := rs
  unfold tokenStage
  cases r <;> (try simp only) <;> (try trivial)
  have hterm : ∀ c len, (if nd.kind = .eof then len = 0 ∧ c = g.input.size else tokLen g nd.tok c = some len) →
      tokTermB g id c len = true := by
    intro c len h
    unfold tokTermB
    rw [hn]
    simp only
    split
    · rename_i hk; rw [if_pos hk] at h; simp [h.1, h.2]
    · rename_i hk; rw [if_neg hk] at h; simp [h]
  cases hk : nd.kind <;> simp only
  case eof =>
    split
    · rename_i hsz
      split
      · rfl
      · exact hterm _ _ (by rw [if_pos hk]; exact ⟨rfl, hsz.symm⟩)
    · trivial
  case str =>
    split
    · rename_i len hl
      split
      · rfl
      · exact hterm _ _ (by rw [if_neg (by rw [hk]; decide)]; exact hl)
    · trivial
  all_goals
    split
    · rename_i len hl
      split
      · rfl
      · exact hterm _ _ (by rw [if_neg (by rw [hk]; decide)]; exact hl)
    · trivial

theorem nodeParse_good (g : Grammar) (hm : g.memo = false) {q : SubParser} (hq : GoodP (tokTermB g) q) (n : Nat) :
    GoodP (tokTermB g) (nodeParse g q n) := by
  intro id s
  unfold nodeParse
  cases hn : g.nodes[id]? with
  | none => trivial
  | some nd =>
    simp only
    have hmn : Good1 (tokTermB g) (matchNode g (commentsLoop g q n) id nd s) := by
      rw [matchNode_eq]; exact tokenStage_good g id nd hn _
    have hw := wrap_good id nd (bodyNode_good hq n nd) s
    rw [hm]
    cases nd.kind <;> simp only
    all_goals first | exact hmn | exact hw

/-- **Every terminal of the result tree is a token-table match** (memoization off): for every parser model,
input, start node, state and fuel. -/
theorem parse_terms (g : Grammar) (hm : g.memo = false) : ∀ n, GoodP (tokTermB g) (parse g n)
  | 0 => fun _ _ => trivial
  | n+1 => nodeParse_good g hm (parse_terms g hm n) n

/-! ## no terminal overlaps the insertion point -/

/-- the terminal lies entirely in front of `p` or starts at / behind `p`, inside the input -/
def clearB (size p : Nat) (_id q len : Nat) : Bool := (decide (p ≤ q) || decide (q + len ≤ p)) && decide (q ≤ size)

theorem tokTerm_clear {g g' : Grammar} {p k : Nat} (ht : TokCompat g g' p k) (hr : rowsOkB g = true)
    (id q len : Nat) (h : tokTermB g id q len = true) : clearB g.input.size p id q len = true := by
  unfold tokTermB at h
  unfold clearB
  cases hn : g.nodes[id]? with
  | none => rw [hn] at h; simp at h
  | some nd =>
    rw [hn] at h
    simp only at h
    split at h
    · simp only [Bool.and_eq_true, beq_iff_eq] at h
      simp only [Bool.and_eq_true, Bool.or_eq_true, decide_eq_true_eq]
      omega
    · have hl : tokLen g nd.tok q = some len := by simpa using h
      have h1 := (ht nd.tok q).2 len hl
      have h2 : q ≤ g.input.size := by
        rcases Nat.lt_or_ge g.input.size q with hlt | hge
        · rw [tokLen_none_of_rows hr hlt] at hl; simp at hl
        · exact hge
      simp only [Bool.and_eq_true, Bool.or_eq_true, decide_eq_true_eq]
      omega

/-- under the `LexicalGrammar` hypothesis no terminal of the parse tree overlaps the insertion point -/
theorem parse_terms_clear {g g' : Grammar} {p k : Nat} (hm : g.memo = false) (ht : TokCompat g g' p k)
    (hr : rowsOkB g = true) (n id : Nat) (s : PState) (v : Val) (t : PState)
    (h : parse g n id s = (.ok v, t)) : v.allTerms (clearB g.input.size p) = true := by
  have := parse_terms g hm n id s
  rw [h] at this
  exact Val.allTerms_mono (tokTerm_clear ht hr) v this

end Peg
