import TextxVerif.Proofs.LoadTreeTrace
/-!
# Facts about the specified call sequence `mainTrace`, and the `__init__` keyword filter
-/
namespace LoadTree

/-- the files whose models the main model finishes (none when the model is of an
immutable type) -/
def mainSums : Load → List NodeSum
  | .mk pid cs ok root pre imps resolve unres oprocs mproc =>
    if root.isConv then [] else (Load.mk pid cs ok root pre imps resolve unres oprocs mproc).sums

/-- calls while the files are parsed -/
def preTr : Load → List Key
  | .mk pid _ _ root pre imps _ _ _ _ => hookKeys 0 pid root.convs ++ hookKeys 1 pid pre.toList ++ Load.buildTrL imps

def mprocKey : Load → Key
  | .mk pid _ _ _ _ _ _ _ _ mproc => (5, pid, mproc.lab)

theorem mainTrace_eq (L : Load) :
    mainTrace L = preTr L ++ resolveTr (mainSums L) ++ initTr (mainSums L) ++ procTr (mainSums L) ++ [mprocKey L] := by
  cases L; rfl

theorem hookKeys_kind {kind pid : Nat} {hs : List Hook} {k : Key} (h : k ∈ hookKeys kind pid hs) : k.1 = kind := by
  simp only [hookKeys, List.mem_map] at h
  obtain ⟨_, _, rfl⟩ := h
  rfl

mutual
theorem buildTr_kinds : (L : Load) → ∀ k, k ∈ L.buildTr → k.1 = 0 ∨ k.1 = 1 ∨ k.1 = 5
  | .mk pid _ _ root pre imps _ _ _ mproc, k, h => by
    simp only [Load.buildTr, List.mem_append, List.mem_singleton] at h
    rcases h with ((h | h) | h) | h
    · exact .inl (hookKeys_kind h)
    · exact .inr (.inl (hookKeys_kind h))
    · exact buildTrL_kinds imps k h
    · subst h; exact .inr (.inr rfl)
theorem buildTrL_kinds : (Ls : List Load) → ∀ k, k ∈ Load.buildTrL Ls → k.1 = 0 ∨ k.1 = 1 ∨ k.1 = 5
  | [], k, h => by simp [Load.buildTrL] at h
  | L :: Ls, k, h => by
    simp only [Load.buildTrL, List.mem_append] at h
    rcases h with h | h
    · exact buildTr_kinds L k h
    · exact buildTrL_kinds Ls k h
end

theorem preTr_kinds (L : Load) (k : Key) (h : k ∈ preTr L) : k.1 = 0 ∨ k.1 = 1 ∨ k.1 = 5 := by
  cases L
  simp only [preTr, List.mem_append] at h
  rcases h with (h | h) | h
  · exact .inl (hookKeys_kind h)
  · exact .inr (.inl (hookKeys_kind h))
  · exact buildTrL_kinds _ k h

theorem resolveTr_kind {ns : List NodeSum} {k : Key} (h : k ∈ resolveTr ns) : k.1 = 2 := by
  simp only [resolveTr, List.mem_flatMap] at h
  obtain ⟨_, _, h⟩ := h
  exact hookKeys_kind h

theorem initTr_kind {ns : List NodeSum} {k : Key} (h : k ∈ initTr ns) : k.1 = 3 := by
  simp only [initTr, List.mem_flatMap] at h
  obtain ⟨_, _, h⟩ := h
  exact hookKeys_kind h

theorem procTr_kind {ns : List NodeSum} {k : Key} (h : k ∈ procTr ns) : k.1 = 4 := by
  simp only [procTr, List.mem_flatMap] at h
  obtain ⟨_, _, h⟩ := h
  exact hookKeys_kind h

/-- the constructor calls among the calls of a successful attempt -/
theorem mainTrace_inits (L : Load) :
    (mainTrace L).filter (fun k => k.1 == 3) = initTr (mainSums L) := by
  rw [mainTrace_eq]
  simp only [List.filter_append]
  have h1 : (preTr L).filter (fun k => k.1 == 3) = [] :=
    List.filter_eq_nil_iff.2 (fun k hk => by rcases preTr_kinds L k hk with h | h | h <;> simp [h])
  have h2 : (resolveTr (mainSums L)).filter (fun k => k.1 == 3) = [] :=
    List.filter_eq_nil_iff.2 (fun k hk => by simp [resolveTr_kind hk])
  have h3 : (initTr (mainSums L)).filter (fun k => k.1 == 3) = initTr (mainSums L) :=
    List.filter_eq_self.2 (fun k hk => by simp [initTr_kind hk])
  have h4 : (procTr (mainSums L)).filter (fun k => k.1 == 3) = [] :=
    List.filter_eq_nil_iff.2 (fun k hk => by simp [procTr_kind hk])
  have h5 : [mprocKey L].filter (fun k => k.1 == 3) = [] := by cases L; simp [mprocKey]
  rw [h1, h2, h3, h4, h5]; simp

/-! ## order of the phases -/

/-- phase of a call: parsing (0: match-rule processors and callbacks), resolution,
constructors, object processors.  Model processors (kind 5) are not ranked: those of
imported files run while parsing, those of the main file last. -/
def rank : Nat → Nat
  | 2 => 1
  | 3 => 2
  | 4 => 3
  | _ => 0

def Before (a b : Key) : Prop := a.1 = 5 ∨ b.1 = 5 ∨ rank a.1 ≤ rank b.1

theorem pairwise_of_mem {β : Type} {R : β → β → Prop} (l : List β) (h : ∀ x, x ∈ l → ∀ y, y ∈ l → R x y) :
    l.Pairwise R := by
  induction l with
  | nil => exact List.Pairwise.nil
  | cons a l ih =>
    refine List.Pairwise.cons (fun y hy => h a (by simp) y (by simp [hy])) (ih ?_)
    exact fun x hx y hy => h x (by simp [hx]) y (by simp [hy])

theorem mainTrace_order (L : Load) : (mainTrace L).Pairwise Before := by
  rw [mainTrace_eq]
  have b0 : ∀ k, k ∈ preTr L → k.1 = 5 ∨ rank k.1 = 0 := fun k hk => by
    rcases preTr_kinds L k hk with h | h | h
    · exact .inr (by rw [h]; rfl)
    · exact .inr (by rw [h]; rfl)
    · exact .inl h
  have b1 : ∀ k, k ∈ resolveTr (mainSums L) → rank k.1 = 1 := fun k hk => by rw [resolveTr_kind hk]; rfl
  have b2 : ∀ k, k ∈ initTr (mainSums L) → rank k.1 = 2 := fun k hk => by rw [initTr_kind hk]; rfl
  have b3 : ∀ k, k ∈ procTr (mainSums L) → rank k.1 = 3 := fun k hk => by rw [procTr_kind hk]; rfl
  have b4 : (mprocKey L).1 = 5 := by cases L; rfl
  simp only [List.pairwise_append, List.mem_append, List.mem_singleton]
  refine ⟨⟨⟨⟨?_, ?_, ?_⟩, ?_, ?_⟩, ?_, ?_⟩, by simp, ?_⟩
  · exact pairwise_of_mem _ (fun x hx y hy => by
      rcases b0 x hx with h | h
      · exact .inl h
      · exact .inr (.inr (by rw [h]; exact Nat.zero_le _)))
  · exact pairwise_of_mem _ (fun x hx y hy => .inr (.inr (by rw [b1 x hx, b1 y hy]; exact Nat.le_refl _)))
  · intro x hx y hy
    rcases b0 x hx with h | h
    · exact .inl h
    · exact .inr (.inr (by rw [h]; exact Nat.zero_le _))
  · exact pairwise_of_mem _ (fun x hx y hy => .inr (.inr (by rw [b2 x hx, b2 y hy]; exact Nat.le_refl _)))
  · intro x hx y hy
    rcases hx with hx | hx
    · rcases b0 x hx with h | h
      · exact .inl h
      · exact .inr (.inr (by rw [h]; exact Nat.zero_le _))
    · exact .inr (.inr (by rw [b1 x hx, b2 y hy]; decide))
  · exact pairwise_of_mem _ (fun x hx y hy => .inr (.inr (by rw [b3 x hx, b3 y hy]; exact Nat.le_refl _)))
  · intro x hx y hy
    rcases hx with (hx | hx) | hx
    · rcases b0 x hx with h | h
      · exact .inl h
      · exact .inr (.inr (by rw [h]; exact Nat.zero_le _))
    · exact .inr (.inr (by rw [b1 x hx, b3 y hy]; decide))
    · exact .inr (.inr (by rw [b2 x hx, b3 y hy]; decide))
  · intro x _ y hy
    subst hy
    exact .inr (.inl b4)

/-! ## `__init__` keyword arguments -/
namespace Kw

theorem set_of_mem {k : String} {d : List String} (h : k ∈ d) : set k d = d := by
  induction d with
  | nil => simp at h
  | cons x xs ih =>
    simp only [set]
    split
    · rfl
    · rename_i hx
      have : k ∈ xs := by
        rcases List.mem_cons.1 h with h | h
        · exact absurd h.symm hx
        · exact h
      rw [ih this]

theorem set_of_not_mem {k : String} {d : List String} (h : k ∉ d) : set k d = d ++ [k] := by
  induction d with
  | nil => rfl
  | cons x xs ih =>
    have hx : ¬ x = k := fun e => h (by simp [e])
    have hxs : k ∉ xs := fun e => h (by simp [e])
    simp [set, hx, ih hxs]

theorem fold_sub (ks d : List String) (h : ∀ k, k ∈ ks → k ∈ d) : ks.foldl (fun d k => set k d) d = d := by
  induction ks generalizing d with
  | nil => rfl
  | cons k ks ih =>
    simp only [List.foldl_cons]
    rw [set_of_mem (h k (by simp))]
    exact ih d (fun x hx => h x (by simp [hx]))

theorem fold_new (ks d : List String) (hn : ks.Nodup) (h : ∀ k, k ∈ ks → k ∉ d) :
    ks.foldl (fun d k => set k d) d = d ++ ks := by
  induction ks generalizing d with
  | nil => simp
  | cons k ks ih =>
    simp only [List.foldl_cons]
    rw [set_of_not_mem (h k (by simp))]
    have hn' := List.nodup_cons.1 hn
    rw [ih (d ++ [k]) hn'.2 ?_]
    · simp
    · intro x hx hm
      simp only [List.mem_append, List.mem_singleton] at hm
      rcases hm with hm | hm
      · exact h x (by simp [hx]) hm
      · subst hm; exact hn'.1 hx

theorem fold_app (es d : List String) :
    ∃ Y, es.foldl (fun d k => set k d) d = d ++ Y ∧ ∀ y, y ∈ Y → y ∈ es := by
  induction es generalizing d with
  | nil => exact ⟨[], by simp, by simp⟩
  | cons e es ih =>
    simp only [List.foldl_cons]
    by_cases he : e ∈ d
    · rw [set_of_mem he]
      obtain ⟨Y, h1, h2⟩ := ih d
      exact ⟨Y, h1, fun y hy => by simp [h2 y hy]⟩
    · rw [set_of_not_mem he]
      obtain ⟨Y, h1, h2⟩ := ih (d ++ [e])
      refine ⟨e :: Y, by rw [h1]; simp, fun y hy => ?_⟩
      simp only [List.mem_cons] at hy ⊢
      rcases hy with hy | hy
      · exact .inl hy
      · exact .inr (h2 y hy)

/-- `__init__` gets exactly the grammar attributes, and `parent` iff the object is contained -/
theorem kwargs_exact (txAttrs assigned extras : List String) (contained : Bool)
    (hn : txAttrs.Nodup)
    (hp : "parent" ∉ txAttrs) (hpos : "_tx_position" ∉ txAttrs) (hend : "_tx_position_end" ∉ txAttrs)
    (ha : ∀ k, k ∈ assigned → k ∈ txAttrs)
    (he : ∀ k, k ∈ extras → k ∉ txAttrs ∧ k ≠ "parent") :
    kwargs txAttrs contained (collected txAttrs assigned contained extras) =
      txAttrs ++ (if contained then ["parent"] else []) := by
  have e1 : set "_tx_position" txAttrs = txAttrs ++ ["_tx_position"] := set_of_not_mem hpos
  have e2 : set "_tx_position_end" (txAttrs ++ ["_tx_position"]) =
      txAttrs ++ ["_tx_position"] ++ ["_tx_position_end"] := set_of_not_mem (by simp [hend])
  have e3 : set "parent" (txAttrs ++ ["_tx_position"] ++ ["_tx_position_end"]) =
      txAttrs ++ ["_tx_position"] ++ ["_tx_position_end"] ++ ["parent"] := set_of_not_mem (by simp [hp])
  have e0 : txAttrs.foldl (fun d k => set k d) [] = txAttrs := by
    have := fold_new txAttrs [] hn (by simp); simpa using this
  have e4 : assigned.foldl (fun d k => set k d) (txAttrs ++ ["_tx_position"] ++ ["_tx_position_end"]) =
      txAttrs ++ ["_tx_position"] ++ ["_tx_position_end"] := fold_sub assigned _ (fun k hk => by simp [ha k hk])
  simp only [collected, e0, e1, e2, e4]
  have hkeep : (txAttrs.filter fun k => txAttrs.contains k || (k == "parent" && contained)) = txAttrs :=
    List.filter_eq_self.2 (fun k hk => by simp [hk])
  have hdrop : ∀ Y : List String, (∀ y, y ∈ Y → y ∈ extras) →
      (Y.filter fun k => txAttrs.contains k || (k == "parent" && contained)) = [] := fun Y hY =>
    List.filter_eq_nil_iff.2 (fun y hy => by
      have := he y (hY y hy)
      simp [this.1, this.2])
  cases contained with
  | false =>
    obtain ⟨Y, h1, h2⟩ := fold_app extras (txAttrs ++ ["_tx_position"] ++ ["_tx_position_end"])
    simp only [Bool.false_eq_true, if_false]
    rw [h1]
    simp only [kwargs, List.filter_append, hkeep, hdrop Y h2]
    simp [hpos, hend]
  | true =>
    obtain ⟨Y, h1, h2⟩ := fold_app extras (txAttrs ++ ["_tx_position"] ++ ["_tx_position_end"] ++ ["parent"])
    simp only [if_true, e3]
    rw [h1]
    simp only [kwargs, List.filter_append, hkeep, hdrop Y h2]
    simp [hpos, hend]

/-! ### stores and deletions of user code on an object under construction -/

theorem kwargs_set (txAttrs d : List String) (c : Bool) (k : String) (T : List String) (h : kwargs txAttrs c d = T)
    (hk : (txAttrs.contains k || (k == "parent" && c)) = true → k ∈ T) : kwargs txAttrs c (set k d) = T := by
  by_cases hm : k ∈ d
  · rw [set_of_mem hm]; exact h
  · rw [set_of_not_mem hm]
    have hP : (txAttrs.contains k || (k == "parent" && c)) = false := by
      cases hc : (txAttrs.contains k || (k == "parent" && c)) with
      | false => rfl
      | true =>
        have : k ∈ kwargs txAttrs c d := by rw [h]; exact hk hc
        exact absurd (List.mem_filter.1 this).1 hm
    simp only [kwargs, List.filter_append, List.filter_cons, List.filter_nil, hP] at h ⊢
    simpa using h

theorem kwargs_del (txAttrs d : List String) (c : Bool) (k : String) (T : List String) (h : kwargs txAttrs c d = T)
    (hk : k ∉ T) : kwargs txAttrs c (del k d) = T := by
  have e : kwargs txAttrs c (del k d) = (kwargs txAttrs c d).filter fun x => x != k := by
    simp only [kwargs, del, List.filter_filter]
    congr 1
    funext x
    exact Bool.and_comm _ _
  rw [e, h]
  exact List.filter_eq_self.2 (fun x hx => by
    have : x ≠ k := fun e => hk (e ▸ hx)
    simpa using this)

/-- whatever harmless stores / deletions user code performs on the object, the constructor arguments stay the same -/
theorem kwargs_ops (txAttrs : List String) (contained : Bool) (ops : List Op) (d : List String)
    (h : kwargs txAttrs contained d = txAttrs ++ (if contained then ["parent"] else []))
    (ho : ∀ o, o ∈ ops → o.harmless txAttrs contained) :
    kwargs txAttrs contained (ops.foldl (fun d o => o.apply d) d) =
      txAttrs ++ (if contained then ["parent"] else []) := by
  induction ops generalizing d with
  | nil => exact h
  | cons o ops ih =>
    simp only [List.foldl_cons]
    refine ih _ ?_ (fun o' ho' => ho o' (by simp [ho']))
    have hh := ho o (by simp)
    cases o with
    | set k =>
      refine kwargs_set txAttrs d contained k _ h (fun hc => ?_)
      simp only [Bool.or_eq_true, Bool.and_eq_true, List.contains_iff_mem, beq_iff_eq] at hc
      rcases hc with hc | ⟨hc, hcont⟩
      · simp [hc]
      · simp [hcont, hc]
    | del k =>
      refine kwargs_del txAttrs d contained k _ h ?_
      have h1 : k ∉ txAttrs := hh.1
      have h2 : k = "parent" → contained = false := hh.2
      cases hcont : contained with
      | false => simp [h1]
      | true =>
        have : k ≠ "parent" := fun e => by simp [h2 e] at hcont
        simp [h1, this]

/-! ### any stores and deletions: which keys the constructor receives -/

theorem mem_set {x k : String} {d : List String} : x ∈ set k d ↔ x ∈ d ∨ x = k := by
  by_cases hm : k ∈ d
  · rw [set_of_mem hm]
    exact ⟨.inl, fun h => h.elim id (fun e => e ▸ hm)⟩
  · rw [set_of_not_mem hm]; simp

theorem nodup_set {k : String} {d : List String} (h : d.Nodup) : (set k d).Nodup := by
  by_cases hm : k ∈ d
  · rw [set_of_mem hm]; exact h
  · rw [set_of_not_mem hm]
    refine List.nodup_append.2 ⟨h, by simp, ?_⟩
    intro a ha b hb
    simp only [List.mem_singleton] at hb
    subst hb
    exact fun e => hm (e ▸ ha)

theorem mem_del {x k : String} {d : List String} : x ∈ del k d ↔ x ∈ d ∧ x ≠ k := by
  simp [del]

theorem nodup_del {k : String} {d : List String} (h : d.Nodup) : (del k d).Nodup := h.filter _

theorem mem_fold_set (ks d : List String) (x : String) :
    x ∈ ks.foldl (fun d k => set k d) d ↔ x ∈ d ∨ x ∈ ks := by
  induction ks generalizing d with
  | nil => simp
  | cons k ks ih =>
    simp only [List.foldl_cons, ih, mem_set, List.mem_cons]
    constructor
    · rintro ((h | h) | h)
      · exact .inl h
      · exact .inr (.inl h)
      · exact .inr (.inr h)
    · rintro (h | h | h)
      · exact .inl (.inl h)
      · exact .inl (.inr h)
      · exact .inr h

theorem nodup_fold_set (ks d : List String) (h : d.Nodup) : (ks.foldl (fun d k => set k d) d).Nodup := by
  induction ks generalizing d with
  | nil => exact h
  | cons k ks ih => exact ih _ (nodup_set h)

theorem nodup_collected (txAttrs assigned extras : List String) (contained : Bool) :
    (collected txAttrs assigned contained extras).Nodup := by
  simp only [collected]
  refine nodup_fold_set _ _ ?_
  have h1 : (assigned.foldl (fun d k => set k d)
      (set "_tx_position_end" (set "_tx_position" (txAttrs.foldl (fun d k => set k d) [])))).Nodup :=
    nodup_fold_set _ _ (nodup_set (nodup_set (nodup_fold_set _ _ List.nodup_nil)))
  split
  · exact nodup_set h1
  · exact h1

theorem mem_collected_of (txAttrs assigned extras : List String) (contained : Bool) (k : String)
    (h : k ∈ txAttrs ∨ (k = "parent" ∧ contained = true)) : k ∈ collected txAttrs assigned contained extras := by
  simp only [collected]
  rw [mem_fold_set]
  refine .inl ?_
  have h0 : k ∈ txAttrs → k ∈ assigned.foldl (fun d k => set k d)
      (set "_tx_position_end" (set "_tx_position" (txAttrs.foldl (fun d k => set k d) []))) := by
    intro hk
    rw [mem_fold_set]
    refine .inl ?_
    rw [mem_set, mem_set, mem_fold_set]
    exact .inl (.inl (.inr hk))
  rcases h with h | ⟨h, hc⟩
  · split
    · rw [mem_set]; exact .inl (h0 h)
    · exact h0 h
  · rw [hc]
    simp only [if_true]
    rw [mem_set]; exact .inr h

theorem mem_ops (x : String) (ops : List Op) (d : List String) (b : Bool) (hb : b = true ↔ x ∈ d) :
    Op.alive x b ops = true ↔ x ∈ ops.foldl (fun d o => o.apply d) d := by
  induction ops generalizing d b with
  | nil => simpa [Op.alive] using hb
  | cons o ops ih =>
    simp only [Op.alive, List.foldl_cons] at ih ⊢
    cases o with
    | set k =>
      refine ih _ _ ?_
      simp only [Op.apply, mem_set, Bool.or_eq_true, beq_iff_eq, hb]
      exact ⟨fun h => h.elim .inl (fun e => .inr e.symm), fun h => h.elim .inl (fun e => .inr e.symm)⟩
    | del k =>
      refine ih _ _ ?_
      simp only [Op.apply, mem_del, Bool.and_eq_true, bne_iff_ne, ne_eq, hb]
      exact ⟨fun h => ⟨h.1, fun e => h.2 e.symm⟩, fun h => ⟨h.1, fun e => h.2 e.symm⟩⟩

theorem nodup_ops (ops : List Op) (d : List String) (h : d.Nodup) : (ops.foldl (fun d o => o.apply d) d).Nodup := by
  induction ops generalizing d with
  | nil => exact h
  | cons o ops ih =>
    simp only [List.foldl_cons]
    cases o with
    | set k => exact ih _ (nodup_set h)
    | del k => exact ih _ (nodup_del h)

/-- whatever user code stores on and deletes from the object (no assumption): the constructor receives no
key twice, and exactly those of the rule's attributes (and `parent`, for a contained object) which user
code has not deleted for good -/
theorem kwargs_ops_general (txAttrs assigned extras : List String) (contained : Bool) (ops : List Op) :
    (kwargs txAttrs contained (collectedOps txAttrs assigned contained extras ops)).Nodup ∧
    ∀ k, k ∈ kwargs txAttrs contained (collectedOps txAttrs assigned contained extras ops) ↔
      (k ∈ txAttrs ∨ (k = "parent" ∧ contained = true)) ∧ Op.alive k true ops = true := by
  refine ⟨(nodup_ops ops _ (nodup_collected _ _ _ _)).filter _, fun k => ?_⟩
  simp only [kwargs, collectedOps, List.mem_filter, Bool.or_eq_true, Bool.and_eq_true, List.contains_iff_mem,
    beq_iff_eq]
  constructor
  · rintro ⟨hm, hk⟩
    refine ⟨hk, ?_⟩
    exact (mem_ops k ops _ true (by simpa using mem_collected_of txAttrs assigned extras contained k hk)).2 hm
  · rintro ⟨hk, ha⟩
    refine ⟨?_, hk⟩
    exact (mem_ops k ops _ true (by simpa using mem_collected_of txAttrs assigned extras contained k hk)).1 ha

/-- harmless operations keep everything the constructor is owed alive -/
theorem alive_of_harmless (txAttrs : List String) (contained : Bool) (ops : List Op) (k : String) (b : Bool)
    (hk : k ∈ txAttrs ∨ (k = "parent" ∧ contained = true)) (hb : b = true)
    (ho : ∀ o, o ∈ ops → o.harmless txAttrs contained) : Op.alive k b ops = true := by
  induction ops generalizing b with
  | nil => simpa [Op.alive] using hb
  | cons o ops ih =>
    simp only [Op.alive, List.foldl_cons] at ih ⊢
    refine ih _ ?_ (fun o' ho' => ho o' (by simp [ho']))
    have hh := ho o (by simp)
    cases o with
    | set x => simp [hb]
    | del x =>
      have h1 : x ∉ txAttrs := hh.1
      have h2 : x = "parent" → contained = false := hh.2
      have : x ≠ k := by
        intro e
        subst e
        rcases hk with hk | ⟨hk, hc⟩
        · exact h1 hk
        · rw [h2 hk] at hc; simp at hc
      simp [hb, this]

end Kw

end LoadTree
