import TextxVerif.Proofs.RecShape
/-! Soundness of the simulation checker `Rec.check` (C24). -/
namespace Rec
open Peg (Node Kind)

/-- a well-formed side: graph with an inductive shape table, under lexer hypotheses -/
structure Side.Ok (s : Side) (H : Hyps) (L : Lex) : Prop where
  wf : wfSh s.g H s.sh = true
  lex : LexOk H L

theorem Side.Ok.shape {s : Side} {H : Hyps} {L : Lex} (h : s.Ok H L) {n a c p v q}
    (hp : parse s.g L n a c p = .ok v q) : v ∈ shOf s.sh a ∧ NET v :=
  shapes_sound h.wf h.lex n a c p v q hp

theorem transparent_iff {nd : Node} (h : transparentSeq nd = true) :
    nd.kind = .seq ∧ supported nd = true ∧ nd.suppress = false := by
  simp only [transparentSeq, Bool.and_eq_true, beq_iff_eq, Bool.not_eq_true'] at h
  exact ⟨h.1.1, h.1.2, h.2⟩

/-- what a plain sequence computes -/
def seqRes : Res → Res
  | .ok acc p => .ok (if acc = .E then .N else acc) p
  | r => r

theorem parse_seq {g : Graph} {L : Lex} {n a c p} {nd : Node} (hnd : g.get a = some nd)
    (ht : transparentSeq nd = true) :
    parse g L (n+1) a c p = finish nd (seqRes (seqLoop (fun e q => parse g L n e c q) nd.kids p .E)) := by
  obtain ⟨hk, hs, _⟩ := transparent_iff ht
  rw [parse]
  simp only [hnd, hs, Bool.not_true, Bool.false_eq_true, if_false, hk]
  rfl

theorem finish_plain {nd : Node} (hs : nd.suppress = false) {v : Sh} (hv : NET v) {p : Nat} :
    finish nd (.ok v p) = .ok v p := by
  rw [finish_ok hv]; simp [hs]

/-- one peeling step is an identity on results -/
theorem peel_step {s : Side} {H : Hyps} {L : Lex} (hs : s.Ok H L) {a x : Nat} {nd : Node}
    (hnd : s.g.get a = some nd) (ht : transparentSeq nd = true) (hk : nd.kids = [x])
    (hx : sub (shOf s.sh x) [.N, .T] = true) (n : Nat) (c : Bool) (p : Nat) :
    parse s.g L (n+1) a c p = parse s.g L n x c p := by
  rw [parse_seq hnd ht, hk]
  obtain ⟨_, _, hsup⟩ := transparent_iff ht
  simp only [seqLoop]
  cases hp : parse s.g L n x c p with
  | ok v q =>
    have hm := (hs.shape hp).1
    have := sub_mem hx hm
    simp only [List.mem_cons, List.mem_nil_iff, or_false] at this
    rcases this with hv | hv <;> subst hv
    · simp only [Sh.add, seqRes, if_true]; exact finish_plain hsup (Or.inl rfl)
    · simp only [Sh.add, seqRes]
      have : (Sh.T = Sh.E) = False := by simp
      simp only [this, if_false]
      exact finish_plain hsup (Or.inr (Or.inr rfl))
  | fail => simp [seqRes, finish]
  | fuel => simp [seqRes, finish]
  | bad => simp [seqRes, finish]

theorem peel_down {s : Side} {H : Hyps} {L : Lex} (hs : s.Ok H L) :
    ∀ d n a c p, parse s.g L n a c p ≠ .fuel → parse s.g L n (peel s d a) c p = parse s.g L n a c p := by
  intro d
  induction d with
  | zero => intro n a c p _; rfl
  | succ d ih =>
    intro n a c p hne
    simp only [peel]
    cases hnd : s.g.get a with
    | none => rfl
    | some nd =>
      simp only
      by_cases ht : transparentSeq nd = true
      · simp only [ht, if_true]
        cases hk : nd.kids with
        | nil => rfl
        | cons x xs =>
          cases xs with
          | cons _ _ => rfl
          | nil =>
            simp only
            by_cases hx : sub (shOf s.sh x) [.N, .T] = true
            · simp only [hx, if_true]
              cases n with
              | zero => simp [parse] at hne
              | succ n =>
                have hstep := peel_step hs hnd ht hk hx n c p
                have hne' : parse s.g L n x c p ≠ .fuel := by rw [← hstep]; exact hne
                have hup : parse s.g L (n+1) x c p = parse s.g L n x c p :=
                  parse_mono s.g L n (n+1) x c p (by omega) hne'
                rw [ih (n+1) x c p (by rw [hup]; exact hne'), hup, hstep]
            · simp only [hx]; rfl
      · simp only [ht]; rfl

theorem peel_up {s : Side} {H : Hyps} {L : Lex} (hs : s.Ok H L) :
    ∀ d n a c p, parse s.g L n (peel s d a) c p ≠ .fuel →
      ∃ m, parse s.g L m a c p = parse s.g L n (peel s d a) c p := by
  intro d
  induction d with
  | zero => intro n a c p _; exact ⟨n, rfl⟩
  | succ d ih =>
    intro n a c p hne
    simp only [peel] at hne ⊢
    cases hnd : s.g.get a with
    | none => simp only [hnd] at hne ⊢; exact ⟨n, rfl⟩
    | some nd =>
      simp only [hnd] at hne ⊢
      by_cases ht : transparentSeq nd = true
      · simp only [ht, if_true] at hne ⊢
        cases hk : nd.kids with
        | nil => simp only [hk] at hne ⊢; exact ⟨n, rfl⟩
        | cons x xs =>
          cases xs with
          | cons _ _ => simp only [hk] at hne ⊢; exact ⟨n, rfl⟩
          | nil =>
            simp only [hk] at hne ⊢
            by_cases hx : sub (shOf s.sh x) [.N, .T] = true
            · simp only [hx, if_true] at hne ⊢
              obtain ⟨m, hm⟩ := ih n x c p hne
              exact ⟨m+1, by rw [peel_step hs hnd ht hk hx m c p, hm]⟩
            · simp only [hx] at hne ⊢; exact ⟨n, rfl⟩
      · simp only [ht] at hne ⊢; exact ⟨n, rfl⟩

/-! ### sequence loop algebra -/

theorem Sh.add_assoc (a x y : Sh) : a.add (x.add y) = (a.add x).add y := by
  cases a <;> cases x <;> cases y <;> rfl

theorem seqLoop_append (f : Nat → Nat → Res) :
    ∀ ks xs p acc, seqLoop f (ks ++ xs) p acc =
      match seqLoop f ks p acc with
      | .ok a p' => seqLoop f xs p' a
      | r => r := by
  intro ks
  induction ks with
  | nil => intro xs p acc; simp [seqLoop]
  | cons k ks ih =>
    intro xs p acc
    simp only [List.cons_append, seqLoop]
    cases f k p with
    | ok v p1 => simp only; exact ih xs p1 _
    | fail => rfl
    | fuel => rfl
    | bad => rfl

/-- starting from accumulator `acc` instead of `E` just adds `acc` to the result -/
theorem seqLoop_acc (f : Nat → Nat → Res) :
    ∀ ks p acc, seqLoop f ks p acc =
      match seqLoop f ks p .E with
      | .ok a p' => .ok (acc.add a) p'
      | r => r := by
  intro ks
  induction ks with
  | nil => intro p acc; simp only [seqLoop]; cases acc <;> rfl
  | cons k ks ih =>
    intro p acc
    simp only [seqLoop]
    cases f k p with
    | ok v p1 =>
      simp only
      rw [ih p1 (acc.add v), ih p1 (Sh.E.add v)]
      cases seqLoop f ks p1 .E with
      | ok a p' =>
        simp only
        congr 1
        cases acc <;> cases v <;> cases a <;> rfl
      | fail => rfl
      | fuel => rfl
      | bad => rfl
    | fail => rfl
    | fuel => rfl
    | bad => rfl

theorem seqLoop_congr {f f' : Nat → Nat → Res} (h : ∀ e p, f e p ≠ .fuel → f' e p = f e p) :
    ∀ es p acc, seqLoop f es p acc ≠ .fuel → seqLoop f' es p acc = seqLoop f es p acc :=
  seqLoop_mono h

/-- value of a plain sequence whose loop ended with accumulator `a` -/
theorem seq_val {s : Side} {H : Hyps} {L : Lex} (hs : s.Ok H L) {x : Nat} {nx : Node}
    (hnd : s.g.get x = some nx) (ht : transparentSeq nx = true) {n : Nat} {c : Bool} {p p' : Nat} {a : Sh}
    (hin : seqLoop (fun e q => parse s.g L n e c q) nx.kids p .E = .ok a p') :
    ∃ w, parse s.g L (n+1) x c p = .ok w p' ∧ ∀ acc : Sh, acc.add w = acc.add a := by
  have hp := parse_seq (L := L) (n := n) (c := c) (p := p) hnd ht
  rw [hin] at hp
  simp only [seqRes] at hp
  obtain ⟨_, _, hsup⟩ := transparent_iff ht
  simp only [finish, hsup, Bool.false_eq_true, if_false] at hp
  have hnet := (hs.shape hp).2
  by_cases hE : a = .E
  · subst hE
    simp only [if_true] at hp hnet
    have : (Sh.N = Sh.H) = False := by simp
    simp [this] at hp
    exact ⟨.N, hp, fun acc => by cases acc <;> rfl⟩
  · simp only [hE, if_false] at hp hnet
    by_cases hH : a = .H
    · subst hH
      exfalso
      by_cases hr : nx.root = true
      · simp [hr, NET] at hnet
      · simp [hr, NET] at hnet
    · simp [hH] at hp
      exact ⟨a, hp, fun _ => rfl⟩

theorem inline_down {s : Side} {H : Hyps} {L : Lex} (hs : s.Ok H L) {x : Nat} {nx : Node}
    (hnd : s.g.get x = some nx) (ht : transparentSeq nx = true) (N : Nat) (c : Bool) (xs : List Nat)
    (p : Nat) (acc : Sh)
    (hne : seqLoop (fun e q => parse s.g L N e c q) (x :: xs) p acc ≠ .fuel) :
    seqLoop (fun e q => parse s.g L N e c q) (nx.kids ++ xs) p acc =
      seqLoop (fun e q => parse s.g L N e c q) (x :: xs) p acc := by
  cases N with
  | zero => simp [seqLoop, parse] at hne
  | succ n =>
    have hp := parse_seq (L := L) (n := n) (c := c) (p := p) hnd ht
    have hx : parse s.g L (n+1) x c p ≠ .fuel := by
      intro h; simp only [seqLoop, h] at hne; exact hne rfl
    have hin : seqLoop (fun e q => parse s.g L n e c q) nx.kids p .E ≠ .fuel := by
      intro h; rw [hp, h] at hx; simp [seqRes, finish] at hx
    have hlift : seqLoop (fun e q => parse s.g L (n+1) e c q) nx.kids p .E =
        seqLoop (fun e q => parse s.g L n e c q) nx.kids p .E :=
      seqLoop_mono (fun e q h => parse_mono s.g L n (n+1) e c q (by omega) h) nx.kids p .E hin
    rw [seqLoop_append, seqLoop_acc _ nx.kids p acc, hlift]
    cases hinner : seqLoop (fun e q => parse s.g L n e c q) nx.kids p .E with
    | ok a p' =>
      obtain ⟨w, hw, hadd⟩ := seq_val hs hnd ht hinner
      simp only [seqLoop, hw, hadd acc]
    | fail =>
      rw [hinner] at hp
      simp only [seqLoop, hp, seqRes, finish]
    | bad =>
      rw [hinner] at hp
      simp only [seqLoop, hp, seqRes, finish]
    | fuel => exact absurd hinner hin

theorem inline_up {s : Side} {H : Hyps} {L : Lex} (hs : s.Ok H L) {x : Nat} {nx : Node}
    (hnd : s.g.get x = some nx) (ht : transparentSeq nx = true) (m : Nat) (c : Bool) (xs : List Nat)
    (p : Nat) (acc : Sh)
    (hne : seqLoop (fun e q => parse s.g L m e c q) (nx.kids ++ xs) p acc ≠ .fuel) :
    seqLoop (fun e q => parse s.g L (m+1) e c q) (x :: xs) p acc =
      seqLoop (fun e q => parse s.g L m e c q) (nx.kids ++ xs) p acc := by
  have hp := parse_seq (L := L) (n := m) (c := c) (p := p) hnd ht
  rw [seqLoop_append, seqLoop_acc _ nx.kids p acc] at hne ⊢
  cases hinner : seqLoop (fun e q => parse s.g L m e c q) nx.kids p .E with
  | ok a p' =>
    rw [hinner] at hne
    simp only at hne ⊢
    obtain ⟨w, hw, hadd⟩ := seq_val hs hnd ht hinner
    simp only [seqLoop, hw, hadd acc]
    exact seqLoop_mono (fun e q h => parse_mono s.g L m (m+1) e c q (by omega) h) xs p' _ hne
  | fail =>
    rw [hinner] at hp
    simp only [seqLoop, hp, seqRes, finish]
  | bad =>
    rw [hinner] at hp
    simp only [seqLoop, hp, seqRes, finish]
  | fuel => rw [hinner] at hne; exact absurd rfl hne

/-! ### unfolding lemmas for the node kinds used by the `sep` rules -/

theorem starSepBody_some {g : Graph} {st s x' : Nat} (h : starSepBody g st = some (s, x')) :
    ∃ nst b nb, g.get st = some nst ∧ nst.kind = .star ∧ supported nst = true ∧ nst.suppress = false ∧
      nst.sep = none ∧ nst.kids = [b] ∧ g.get b = some nb ∧ transparentSeq nb = true ∧ nb.kids = [s, x'] := by
  unfold starSepBody at h
  cases hst : g.get st with
  | none => simp [hst] at h
  | some nst =>
    simp only [hst] at h
    by_cases hc : (nst.kind == .star && supported nst && !nst.suppress && nst.sep.isNone) = true
    · simp only [hc, if_true] at h
      simp only [Bool.and_eq_true, beq_iff_eq, Bool.not_eq_true', Option.isNone_iff_eq_none] at hc
      obtain ⟨⟨⟨hk, hsup⟩, hsp⟩, hsep⟩ := hc
      cases hkids : nst.kids with
      | nil => simp [hkids] at h
      | cons b bs =>
        cases bs with
        | cons _ _ => simp [hkids] at h
        | nil =>
          simp only [hkids] at h
          cases hb : g.get b with
          | none => simp [hb] at h
          | some nb =>
            simp only [hb] at h
            by_cases ht : transparentSeq nb = true
            · simp only [ht, if_true] at h
              cases hbk : nb.kids with
              | nil => simp [hbk] at h
              | cons k1 ks =>
                cases ks with
                | nil => simp [hbk] at h
                | cons k2 ks2 =>
                  cases ks2 with
                  | cons _ _ => simp [hbk] at h
                  | nil =>
                    simp only [hbk, Option.some.injEq, Prod.mk.injEq] at h
                    obtain ⟨rfl, rfl⟩ := h
                    exact ⟨nst, b, nb, rfl, hk, hsup, hsp, hsep, hkids, hb, ht, hbk⟩
            · simp [ht] at h
    · simp [hc] at h

theorem plusSep_some {g : Graph} {y z t : Nat} (h : plusSep g y = some (z, t)) :
    ∃ ny, g.get y = some ny ∧ ny.kind = .plus ∧ supported ny = true ∧ ny.suppress = false ∧
      ny.kids = [z] ∧ ny.sep = some t := by
  unfold plusSep at h
  cases hy : g.get y with
  | none => simp [hy] at h
  | some ny =>
    simp only [hy] at h
    by_cases hc : (ny.kind == .plus && supported ny && !ny.suppress) = true
    · simp only [hc, if_true] at h
      simp only [Bool.and_eq_true, beq_iff_eq, Bool.not_eq_true'] at hc
      obtain ⟨⟨hk, hsup⟩, hsp⟩ := hc
      cases hkids : ny.kids with
      | nil => simp [hkids] at h
      | cons z' zs =>
        cases zs with
        | cons _ _ => simp [hkids] at h
        | nil =>
          cases hsep : ny.sep with
          | none => simp [hkids, hsep] at h
          | some t' =>
            simp only [hkids, hsep, Option.some.injEq, Prod.mk.injEq] at h
            obtain ⟨rfl, rfl⟩ := h
            exact ⟨ny, rfl, hk, hsup, hsp, hkids, hsep⟩
    · simp [hc] at h

theorem parse_star {g : Graph} {L : Lex} {n a c p} {nd : Node} {k : Nat} (hnd : g.get a = some nd)
    (hk : nd.kind = .star) (hs : supported nd = true) (hkids : nd.kids = [k]) :
    parse g L (n+1) a c p = finish nd (repLoop (fun q => parse g L n k c q)
      (nd.sep.map fun s q => parse g L n s c q) n p .E false false) := by
  rw [parse]
  simp only [hnd, hs, Bool.not_true, Bool.false_eq_true, if_false, hk, hkids]

theorem parse_plus {g : Graph} {L : Lex} {n a c p} {nd : Node} {k : Nat} (hnd : g.get a = some nd)
    (hk : nd.kind = .plus) (hs : supported nd = true) (hkids : nd.kids = [k]) :
    parse g L (n+1) a c p = finish nd (repLoop (fun q => parse g L n k c q)
      (nd.sep.map fun s q => parse g L n s c q) n p .E true false) := by
  rw [parse]
  simp only [hnd, hs, Bool.not_true, Bool.false_eq_true, if_false, hk, hkids]

theorem onlyT_val {s : Side} {H : Hyps} {L : Lex} (hs : s.Ok H L) {x : Nat} (hx : onlyT s.sh x = true)
    {n c p v q} (hp : parse s.g L n x c p = .ok v q) : v = .T := by
  have := sub_mem hx (hs.shape hp).1
  simpa using this

/-- a result of a whole node that is `ok` survives `finish` unchanged when the node is not suppressed -/
theorem finish_of_shape {s : Side} {L : Lex} {a : Nat} {nd : Node}
    (hsup : nd.suppress = false) {n c p} {pre : Res} (hp : parse s.g L n a c p = finish nd pre)
    {v : Sh} {q : Nat} (hpre : pre = .ok v q) (hv : v ≠ .H) : parse s.g L n a c p = .ok v q := by
  rw [hp, hpre]
  simp [finish, hsup, hv]

/-- body `Sequence[s, x']` of the star in `x (s x')*`, when `s`, `x'` only yield truthy results -/
theorem body_eval {s₁ : Side} {H : Hyps} {L : Lex} (hs : s₁.Ok H L) {b s x' : Nat} {nb : Node}
    (hb : s₁.g.get b = some nb) (ht : transparentSeq nb = true) (hk : nb.kids = [s, x'])
    (hS : onlyT s₁.sh s = true) (hX : onlyT s₁.sh x' = true) (n : Nat) (c : Bool) (q : Nat) :
    parse s₁.g L (n+1) b c q =
      match parse s₁.g L n s c q with
      | .ok _ q1 =>
        (match parse s₁.g L n x' c q1 with
         | .ok _ q2 => .ok .T q2
         | r => r)
      | r => r := by
  obtain ⟨_, _, hsup⟩ := transparent_iff ht
  rw [parse_seq hb ht, hk]
  simp only [seqLoop]
  cases h1 : parse s₁.g L n s c q with
  | ok v q1 =>
    have hv := onlyT_val hs hS h1
    subst hv
    simp only
    cases h2 : parse s₁.g L n x' c q1 with
    | ok w q2 =>
      have hw := onlyT_val hs hX h2
      subst hw
      simp [Sh.add, seqRes, finish, hsup]
    | fail => simp [seqRes, finish]
    | fuel => simp [seqRes, finish]
    | bad => simp [seqRes, finish]
  | fail => simp [seqRes, finish]
  | fuel => simp [seqRes, finish]
  | bad => simp [seqRes, finish]

/-! ### transfer of results between the two graphs -/

/-- every result (other than `.fuel`) of node `x` of `s₁` computed with fuel `≤ N` is the result
of node `y` of `s₂` for all sufficiently large fuel -/
def Tr (s₁ s₂ : Side) (L : Lex) (N x y : Nat) : Prop :=
  ∀ k, k ≤ N → ∀ c p, parse s₁.g L k x c p ≠ .fuel →
    ∃ m₀, ∀ m, m₀ ≤ m → parse s₂.g L m y c p = parse s₁.g L k x c p

theorem Tr.mono {s₁ s₂ : Side} {L : Lex} {N N' x y : Nat} (h : Tr s₁ s₂ L N x y) (hle : N' ≤ N) :
    Tr s₁ s₂ L N' x y := fun k hk => h k (by omega)

theorem ev_of_ex {g : Graph} {L : Lex} {m a c p} {r : Res} (h : parse g L m a c p = r) (hr : r ≠ .fuel) :
    ∀ m', m ≤ m' → parse g L m' a c p = r := by
  intro m' hle
  rw [parse_mono g L m m' a c p hle (by rw [h]; exact hr), h]

theorem T_add (w : Sh) : Sh.T.add w = .T := by cases w <;> rfl
theorem add_T (a : Sh) : a.add .T = .T := by cases a <;> rfl

/-- left result of the star loop in `x (s x')*` ↦ result of the remaining plus-with-separator loop -/
def starToPlus : Res → Res
  | .ok _ p => .ok .T p
  | r => r

theorem sepA_loop {s₁ s₂ : Side} {H : Hyps} {L : Lex} (hs : s₁.Ok H L) {b s x' z t : Nat} {nb : Node}
    (hb : s₁.g.get b = some nb) (ht : transparentSeq nb = true) (hk : nb.kids = [s, x'])
    (hS : onlyT s₁.sh s = true) (hX : onlyT s₁.sh x' = true) {N : Nat}
    (trS : Tr s₁ s₂ L N s t) (trX : Tr s₁ s₂ L N x' z) (n : Nat) (hn : n ≤ N) (c : Bool) :
    ∀ j q accL prevL,
      repLoop (fun q => parse s₁.g L n b c q) none j q accL false prevL ≠ .fuel →
      ∃ m₀, ∀ m, m₀ ≤ m → ∀ j', j ≤ j' →
        repLoop (fun q => parse s₂.g L m z c q) (some fun q => parse s₂.g L m t c q) j' q .T false true =
          starToPlus (repLoop (fun q => parse s₁.g L n b c q) none j q accL false prevL) := by
  intro j
  induction j with
  | zero => intro q accL prevL h; simp [repLoop] at h
  | succ j ih =>
    intro q accL prevL hne
    cases n with
    | zero => simp [repLoop, sepStep, parse] at hne
    | succ n' =>
      simp only [repLoop, sepStep] at hne ⊢
      rw [body_eval hs hb ht hk hS hX n' c q] at hne ⊢
      cases h1 : parse s₁.g L n' s c q with
      | ok v q1 =>
        have hv := onlyT_val hs hS h1
        subst hv
        rw [h1] at hne
        simp only at hne ⊢
        obtain ⟨m1, hm1⟩ := trS n' (by omega) c q (by rw [h1]; simp)
        rw [h1] at hm1
        cases h2 : parse s₁.g L n' x' c q1 with
        | ok w q2 =>
          have hw := onlyT_val hs hX h2
          subst hw
          rw [h2] at hne
          simp only [Sh.truthy, if_true] at hne ⊢
          obtain ⟨m2, hm2⟩ := trX n' (by omega) c q1 (by rw [h2]; simp)
          rw [h2] at hm2
          obtain ⟨m3, hm3⟩ := ih q2 (accL.add .T) true hne
          refine ⟨max m1 (max m2 m3), fun m hm j' hj' => ?_⟩
          obtain ⟨j'', rfl⟩ : ∃ j'', j' = j'' + 1 := ⟨j' - 1, by omega⟩
          simp only [repLoop, sepStep, if_true, hm1 m (by omega), hm2 m (by omega), Sh.truthy, T_add]
          exact hm3 m (by omega) j'' (by omega)
        | fail =>
          rw [h2] at hne
          obtain ⟨m2, hm2⟩ := trX n' (by omega) c q1 (by rw [h2]; simp)
          rw [h2] at hm2
          refine ⟨max m1 m2, fun m hm j' hj' => ?_⟩
          obtain ⟨j'', rfl⟩ : ∃ j'', j' = j'' + 1 := ⟨j' - 1, by omega⟩
          simp [repLoop, sepStep, hm1 m (by omega), hm2 m (by omega), starToPlus, T_add]
        | bad =>
          rw [h2] at hne
          obtain ⟨m2, hm2⟩ := trX n' (by omega) c q1 (by rw [h2]; simp)
          rw [h2] at hm2
          refine ⟨max m1 m2, fun m hm j' hj' => ?_⟩
          obtain ⟨j'', rfl⟩ : ∃ j'', j' = j'' + 1 := ⟨j' - 1, by omega⟩
          simp [repLoop, sepStep, hm1 m (by omega), hm2 m (by omega), starToPlus, T_add]
        | fuel => rw [h2] at hne; simp at hne
      | fail =>
        rw [h1] at hne
        obtain ⟨m1, hm1⟩ := trS n' (by omega) c q (by rw [h1]; simp)
        rw [h1] at hm1
        refine ⟨m1, fun m hm j' hj' => ?_⟩
        obtain ⟨j'', rfl⟩ : ∃ j'', j' = j'' + 1 := ⟨j' - 1, by omega⟩
        simp [repLoop, sepStep, hm1 m (by omega), starToPlus]
      | bad =>
        rw [h1] at hne
        obtain ⟨m1, hm1⟩ := trS n' (by omega) c q (by rw [h1]; simp)
        rw [h1] at hm1
        refine ⟨m1, fun m hm j' hj' => ?_⟩
        obtain ⟨j'', rfl⟩ : ∃ j'', j' = j'' + 1 := ⟨j' - 1, by omega⟩
        simp [repLoop, sepStep, hm1 m (by omega), starToPlus]
      | fuel => rw [h1] at hne; simp at hne

/-- one element of a sequence loop -/
def step1 (f : Nat → Nat → Res) (y p : Nat) (acc : Sh) : Res :=
  match f y p with
  | .ok v p1 => .ok (acc.add v) p1
  | r => r

/-- two consecutive elements of a sequence loop -/
def step2 (f : Nat → Nat → Res) (x st p : Nat) (acc : Sh) : Res :=
  match f x p with
  | .ok v p1 =>
    (match f st p1 with
     | .ok w p2 => .ok ((acc.add v).add w) p2
     | r => r)
  | r => r

def Res.bind (r : Res) (k : Sh → Nat → Res) : Res :=
  match r with
  | .ok a p => k a p
  | r => r

theorem seqLoop_cons1 (f : Nat → Nat → Res) (y : Nat) (ys : List Nat) (p : Nat) (acc : Sh) :
    seqLoop f (y :: ys) p acc = (step1 f y p acc).bind fun a p1 => seqLoop f ys p1 a := by
  simp only [seqLoop, step1, Res.bind]
  cases f y p <;> rfl

theorem seqLoop_cons2 (f : Nat → Nat → Res) (x st : Nat) (xs : List Nat) (p : Nat) (acc : Sh) :
    seqLoop f (x :: st :: xs) p acc = (step2 f x st p acc).bind fun a p2 => seqLoop f xs p2 a := by
  simp only [seqLoop, step2, Res.bind]
  cases f x p with
  | ok v p1 => simp only; cases f st p1 <;> rfl
  | fail => rfl
  | fuel => rfl
  | bad => rfl

/-- results of `peel y` lift to `y` for all large fuel -/
theorem peel_ev {s : Side} {H : Hyps} {L : Lex} (hs : s.Ok H L) {d m y c p} {r : Res}
    (h : parse s.g L m (peel s d y) c p = r) (hr : r ≠ .fuel) :
    ∃ m₀, ∀ m', m₀ ≤ m' → parse s.g L m' y c p = r := by
  obtain ⟨m1, hm1⟩ := peel_up hs d m y c p (by rw [h]; exact hr)
  rw [h] at hm1
  exact ⟨m1, ev_of_ex hm1 hr⟩

theorem sepA_step {s₁ s₂ : Side} {H : Hyps} {L : Lex} (hs₁ : s₁.Ok H L) (hs₂ : s₂.Ok H L) {d : Nat}
    {x st y s x' z t : Nat} (hst : starSepBody s₁.g st = some (s, x'))
    (hpl : plusSep s₂.g (peel s₂ d y) = some (z, t))
    (hx : onlyT s₁.sh x = true) (hX : onlyT s₁.sh x' = true) (hS : onlyT s₁.sh s = true) {N : Nat}
    (trx : Tr s₁ s₂ L N x z) (trX : Tr s₁ s₂ L N x' z) (trS : Tr s₁ s₂ L N s t)
    (c : Bool) (p : Nat) (acc : Sh)
    (hne : step2 (fun e q => parse s₁.g L N e c q) x st p acc ≠ .fuel) :
    ∃ m₀, ∀ m, m₀ ≤ m →
      step1 (fun e q => parse s₂.g L m e c q) y p acc = step2 (fun e q => parse s₁.g L N e c q) x st p acc := by
  obtain ⟨nst, b, nb, hgst, hkst, hsupst, hsst, hsepst, hkidsst, hb, htb, hkb⟩ := starSepBody_some hst
  obtain ⟨ny, hgy, hky, hsupy, hsy, hkidsy, hsepy⟩ := plusSep_some hpl
  -- it suffices to produce the result at `peel y`
  suffices hsuff : ∃ m₁ r, r ≠ .fuel ∧ parse s₂.g L m₁ (peel s₂ d y) c p = r ∧
      (match r with | .ok v p1 => Res.ok (acc.add v) p1 | r => r) =
        step2 (fun e q => parse s₁.g L N e c q) x st p acc by
    obtain ⟨m₁, r, hr, hpy, heq⟩ := hsuff
    obtain ⟨m₀, hm₀⟩ := peel_ev hs₂ hpy hr
    exact ⟨m₀, fun m hm => by simp only [step1, hm₀ m hm]; exact heq⟩
  simp only [step2] at hne ⊢
  cases hrx : parse s₁.g L N x c p with
  | ok v p1 =>
    have hv := onlyT_val hs₁ hx hrx
    subst hv
    rw [hrx] at hne
    simp only at hne ⊢
    obtain ⟨mx, hmx⟩ := trx N (Nat.le_refl N) c p (by rw [hrx]; simp)
    rw [hrx] at hmx
    cases N with
    | zero => simp [parse] at hne
    | succ n =>
      have hpst := parse_star (L := L) (n := n) (c := c) (p := p1) hgst hkst hsupst hkidsst
      simp only [hsepst, Option.map] at hpst
      have hloopne : repLoop (fun q => parse s₁.g L n b c q) none n p1 .E false false ≠ .fuel := by
        intro h; rw [hpst, h] at hne; simp [finish] at hne
      obtain ⟨ml, hml⟩ := sepA_loop hs₁ hb htb hkb hS hX trS trX n (by omega) c n p1 .E false hloopne
      -- right: the plus node at fuel M+2
      let M := max (max mx ml) n
      have hppl := parse_plus (L := L) (n := M+1) (c := c) (p := p) hgy hky hsupy hkidsy
      simp only [hsepy, Option.map] at hppl
      have hfirst : repLoop (fun q => parse s₂.g L (M+1) z c q) (some fun q => parse s₂.g L (M+1) t c q) (M+1) p .E true false =
          repLoop (fun q => parse s₂.g L (M+1) z c q) (some fun q => parse s₂.g L (M+1) t c q) M p1 .T false true := by
        simp only [repLoop, sepStep, Bool.false_eq_true, if_false]
        rw [hmx (M+1) (by omega)]
        simp [Sh.truthy, Sh.add]
      have hloop := hml (M+1) (by omega) M (by omega)
      rw [hfirst, hloop] at hppl
      cases hl : repLoop (fun q => parse s₁.g L n b c q) none n p1 .E false false with
      | ok w p2 =>
        rw [hl] at hpst hppl
        simp only [starToPlus] at hppl
        have hR : parse s₂.g L (M+1+1) (peel s₂ d y) c p = .ok .T p2 := by
          rw [hppl]; simp [finish, hsy]
        refine ⟨M+1+1, .ok .T p2, by simp, hR, ?_⟩
        rw [hpst]
        simp only [finish, add_T, T_add]
      | fail =>
        rw [hl] at hpst hppl
        simp only [starToPlus, finish] at hppl hpst
        exact ⟨M+1+1, .fail, by simp, hppl, by rw [hpst]⟩
      | bad =>
        rw [hl] at hpst hppl
        simp only [starToPlus, finish] at hppl hpst
        exact ⟨M+1+1, .bad, by simp, hppl, by rw [hpst]⟩
      | fuel => exact absurd hl hloopne
  | fail =>
    obtain ⟨mx, hmx⟩ := trx N (Nat.le_refl N) c p (by rw [hrx]; simp)
    rw [hrx] at hmx
    let M := mx + 1
    have hppl := parse_plus (L := L) (n := M) (c := c) (p := p) hgy hky hsupy hkidsy
    simp only [hsepy, Option.map] at hppl
    have : repLoop (fun q => parse s₂.g L M z c q) (some fun q => parse s₂.g L M t c q) M p .E true false = .fail := by
      show repLoop _ _ (mx + 1) p .E true false = .fail
      simp only [repLoop, sepStep, Bool.false_eq_true, if_false]
      rw [hmx (mx+1) (by omega)]
      simp
    rw [this] at hppl
    simp only [finish] at hppl
    exact ⟨M+1, .fail, by simp, hppl, rfl⟩
  | bad =>
    obtain ⟨mx, hmx⟩ := trx N (Nat.le_refl N) c p (by rw [hrx]; simp)
    rw [hrx] at hmx
    let M := mx + 1
    have hppl := parse_plus (L := L) (n := M) (c := c) (p := p) hgy hky hsupy hkidsy
    simp only [hsepy, Option.map] at hppl
    have : repLoop (fun q => parse s₂.g L M z c q) (some fun q => parse s₂.g L M t c q) M p .E true false = .bad := by
      show repLoop _ _ (mx + 1) p .E true false = .bad
      simp only [repLoop, sepStep, Bool.false_eq_true, if_false]
      rw [hmx (mx+1) (by omega)]
    rw [this] at hppl
    simp only [finish] at hppl
    exact ⟨M+1, .bad, by simp, hppl, rfl⟩
  | fuel => rw [hrx] at hne; simp at hne

/-- body `Sequence[s, y']` evaluated from the results of its two kids (truthy case) -/
theorem body_TT {g : Graph} {L : Lex} {b s y' : Nat} {nb : Node} (hb : g.get b = some nb)
    (ht : transparentSeq nb = true) (hk : nb.kids = [s, y']) {m : Nat} {c : Bool} {q q1 q2 : Nat}
    (h1 : parse g L m s c q = .ok .T q1) (h2 : parse g L m y' c q1 = .ok .T q2) :
    parse g L (m+1) b c q = .ok .T q2 := by
  obtain ⟨_, _, hsup⟩ := transparent_iff ht
  rw [parse_seq hb ht, hk]
  simp [seqLoop, h1, h2, Sh.add, seqRes, finish, hsup]

theorem body_second {g : Graph} {L : Lex} {b s y' : Nat} {nb : Node} (hb : g.get b = some nb)
    (ht : transparentSeq nb = true) (hk : nb.kids = [s, y']) {m : Nat} {c : Bool} {q q1 : Nat}
    (h1 : parse g L m s c q = .ok .T q1) {r2 : Res} (h2 : parse g L m y' c q1 = r2)
    (hr : r2 = .fail ∨ r2 = .bad) : parse g L (m+1) b c q = r2 := by
  rw [parse_seq hb ht, hk]
  simp only [seqLoop, h1, h2]
  rcases hr with h | h <;> subst h <;> simp [seqRes, finish]

theorem body_first {g : Graph} {L : Lex} {b s y' : Nat} {nb : Node} (hb : g.get b = some nb)
    (ht : transparentSeq nb = true) (hk : nb.kids = [s, y']) {m : Nat} {c : Bool} {q : Nat}
    {r1 : Res} (h1 : parse g L m s c q = r1) (hr : r1 = .fail ∨ r1 = .bad) :
    parse g L (m+1) b c q = r1 := by
  rw [parse_seq hb ht, hk]
  simp only [seqLoop, h1]
  rcases hr with h | h <;> subst h <;> simp [seqRes, finish]

theorem sepB_loop {s₁ s₂ : Side} {H : Hyps} {L : Lex} (hs : s₁.Ok H L) {b s y' z t : Nat} {nb : Node}
    (hb : s₂.g.get b = some nb) (ht : transparentSeq nb = true) (hk : nb.kids = [s, y'])
    (hZ : onlyT s₁.sh z = true) (hT : onlyT s₁.sh t = true) {n : Nat}
    (trT : Tr s₁ s₂ L n t s) (trZ : Tr s₁ s₂ L n z y') (c : Bool) :
    ∀ j q, repLoop (fun q => parse s₁.g L n z c q) (some fun q => parse s₁.g L n t c q) j q .T false true ≠ .fuel →
      ∃ m₀, ∀ m, m₀ ≤ m → ∀ j', j ≤ j' → ∀ accR prevR,
        starToPlus (repLoop (fun q => parse s₂.g L (m+1) b c q) none j' q accR false prevR) =
          repLoop (fun q => parse s₁.g L n z c q) (some fun q => parse s₁.g L n t c q) j q .T false true := by
  intro j
  induction j with
  | zero => intro q h; simp [repLoop] at h
  | succ j ih =>
    intro q hne
    simp only [repLoop, sepStep, if_true] at hne ⊢
    cases h1 : parse s₁.g L n t c q with
    | ok v q1 =>
      have hv := onlyT_val hs hT h1
      subst hv
      rw [h1] at hne
      simp only [T_add] at hne ⊢
      obtain ⟨m1, hm1⟩ := trT n (Nat.le_refl n) c q (by rw [h1]; simp)
      rw [h1] at hm1
      cases h2 : parse s₁.g L n z c q1 with
      | ok w q2 =>
        have hw := onlyT_val hs hZ h2
        subst hw
        rw [h2] at hne
        simp only [Sh.truthy, if_true] at hne ⊢
        obtain ⟨m2, hm2⟩ := trZ n (Nat.le_refl n) c q1 (by rw [h2]; simp)
        rw [h2] at hm2
        obtain ⟨m3, hm3⟩ := ih q2 hne
        refine ⟨max m1 (max m2 m3), fun m hm j' hj' accR prevR => ?_⟩
        obtain ⟨j'', rfl⟩ : ∃ j'', j' = j'' + 1 := ⟨j' - 1, by omega⟩
        have hbody := body_TT (L := L) hb ht hk (hm1 m (by omega)) (hm2 m (by omega))
        simp only [repLoop, sepStep, hbody, Sh.truthy, if_true]
        exact hm3 m (by omega) j'' (by omega) _ _
      | fail =>
        rw [h2] at hne
        obtain ⟨m2, hm2⟩ := trZ n (Nat.le_refl n) c q1 (by rw [h2]; simp)
        rw [h2] at hm2
        refine ⟨max m1 m2, fun m hm j' hj' accR prevR => ?_⟩
        obtain ⟨j'', rfl⟩ : ∃ j'', j' = j'' + 1 := ⟨j' - 1, by omega⟩
        have hbody := body_second (L := L) hb ht hk (hm1 m (by omega)) (hm2 m (by omega)) (Or.inl rfl)
        simp [repLoop, sepStep, hbody, starToPlus]
      | bad =>
        rw [h2] at hne
        obtain ⟨m2, hm2⟩ := trZ n (Nat.le_refl n) c q1 (by rw [h2]; simp)
        rw [h2] at hm2
        refine ⟨max m1 m2, fun m hm j' hj' accR prevR => ?_⟩
        obtain ⟨j'', rfl⟩ : ∃ j'', j' = j'' + 1 := ⟨j' - 1, by omega⟩
        have hbody := body_second (L := L) hb ht hk (hm1 m (by omega)) (hm2 m (by omega)) (Or.inr rfl)
        simp [repLoop, sepStep, hbody, starToPlus]
      | fuel => rw [h2] at hne; simp at hne
    | fail =>
      rw [h1] at hne
      obtain ⟨m1, hm1⟩ := trT n (Nat.le_refl n) c q (by rw [h1]; simp)
      rw [h1] at hm1
      refine ⟨m1, fun m hm j' hj' accR prevR => ?_⟩
      obtain ⟨j'', rfl⟩ : ∃ j'', j' = j'' + 1 := ⟨j' - 1, by omega⟩
      have hbody := body_first (L := L) hb ht hk (hm1 m (by omega)) (Or.inl rfl)
      simp [repLoop, sepStep, hbody, starToPlus]
    | bad =>
      rw [h1] at hne
      obtain ⟨m1, hm1⟩ := trT n (Nat.le_refl n) c q (by rw [h1]; simp)
      rw [h1] at hm1
      refine ⟨m1, fun m hm j' hj' accR prevR => ?_⟩
      obtain ⟨j'', rfl⟩ : ∃ j'', j' = j'' + 1 := ⟨j' - 1, by omega⟩
      have hbody := body_first (L := L) hb ht hk (hm1 m (by omega)) (Or.inr rfl)
      simp [repLoop, sepStep, hbody, starToPlus]
    | fuel => rw [h1] at hne; simp at hne

theorem starToPlus_ok {r : Res} {w : Sh} {p : Nat} (h : starToPlus r = .ok w p) :
    w = .T ∧ ∃ w', r = .ok w' p := by
  cases r with
  | ok w' p' =>
    simp only [starToPlus, Res.ok.injEq] at h
    obtain ⟨rfl, rfl⟩ := h
    exact ⟨rfl, w', rfl⟩
  | fail => simp [starToPlus] at h
  | fuel => simp [starToPlus] at h
  | bad => simp [starToPlus] at h

theorem starToPlus_fb {r r' : Res} (h : starToPlus r = r') (hr : r' = .fail ∨ r' = .bad) : r = r' := by
  cases r with
  | ok w' p' => rcases hr with h' | h' <;> subst h' <;> simp [starToPlus] at h
  | fail => simpa [starToPlus] using h
  | fuel => simpa [starToPlus] using h
  | bad => simpa [starToPlus] using h

theorem sepB_step {s₁ s₂ : Side} {H : Hyps} {L : Lex} (hs₁ : s₁.Ok H L) {d : Nat}
    {x y st s y' z t : Nat} (hpl : plusSep s₁.g (peel s₁ d x) = some (z, t))
    (hst : starSepBody s₂.g st = some (s, y'))
    (hZ : onlyT s₁.sh z = true) (hT : onlyT s₁.sh t = true) {N : Nat}
    (trzy : Tr s₁ s₂ L (N-1) z y) (trzy' : Tr s₁ s₂ L (N-1) z y') (trts : Tr s₁ s₂ L (N-1) t s)
    (c : Bool) (p : Nat) (acc : Sh)
    (hne : step1 (fun e q => parse s₁.g L N e c q) x p acc ≠ .fuel) :
    ∃ m₀, ∀ m, m₀ ≤ m →
      step2 (fun e q => parse s₂.g L m e c q) y st p acc = step1 (fun e q => parse s₁.g L N e c q) x p acc := by
  obtain ⟨nst, b, nb, hgst, hkst, hsupst, hsst, hsepst, hkidsst, hb, htb, hkb⟩ := starSepBody_some hst
  obtain ⟨nx, hgx, hkx, hsupx, hsx, hkidsx, hsepx⟩ := plusSep_some hpl
  have hxne : parse s₁.g L N x c p ≠ .fuel := by
    intro h; simp only [step1, h] at hne; exact hne rfl
  have hpd := peel_down hs₁ d N x c p hxne
  cases N with
  | zero => simp [parse] at hxne
  | succ n =>
    simp only [Nat.add_sub_cancel] at trzy trzy' trts
    have hpp := parse_plus (L := L) (n := n) (c := c) (p := p) hgx hkx hsupx hkidsx
    simp only [hsepx, Option.map] at hpp
    rw [hpd] at hpp
    have hrl : repLoop (fun q => parse s₁.g L n z c q) (some fun q => parse s₁.g L n t c q) n p .E true false ≠ .fuel := by
      intro h; rw [hpp, h] at hxne; simp [finish] at hxne
    cases n with
    | zero => simp [repLoop] at hrl
    | succ j =>
      simp only [repLoop, sepStep, Bool.false_eq_true, if_false] at hpp hrl
      cases hz : parse s₁.g L (j+1) z c p with
      | ok v p1 =>
        have hv := onlyT_val hs₁ hZ hz
        subst hv
        rw [hz] at hpp hrl
        simp only [Sh.truthy, if_true] at hpp hrl
        have hET : Sh.E.add .T = .T := rfl
        rw [hET] at hpp hrl
        obtain ⟨m1, hm1⟩ := trzy (j+1) (Nat.le_refl _) c p (by rw [hz]; simp)
        rw [hz] at hm1
        obtain ⟨m2, hm2⟩ := sepB_loop hs₁ hb htb hkb hZ hT trts trzy' c j p1 hrl
        refine ⟨max m1 (max m2 j) + 2, fun m hm => ?_⟩
        obtain ⟨M, rfl⟩ : ∃ M, m = M + 1 + 1 := ⟨m - 2, by omega⟩
        have hy := hm1 (M+1+1) (by omega)
        have hps := parse_star (L := L) (n := M+1) (c := c) (p := p1) hgst hkst hsupst hkidsst
        simp only [hsepst, Option.map] at hps
        have hloop := hm2 M (by omega) (M+1) (by omega) .E false
        simp only [step1, step2, hy, hps, hpp]
        cases hl2 : repLoop (fun q => parse s₁.g L (j+1) z c q) (some fun q => parse s₁.g L (j+1) t c q) j p1 .T false true with
        | ok w p2 =>
          rw [hl2] at hloop
          obtain ⟨hw, w', hw'⟩ := starToPlus_ok hloop
          subst hw
          rw [hw']
          simp [finish, hsx, hsst, add_T, T_add]
        | fail =>
          rw [hl2] at hloop
          rw [starToPlus_fb hloop (Or.inl rfl)]
          simp [finish]
        | bad =>
          rw [hl2] at hloop
          rw [starToPlus_fb hloop (Or.inr rfl)]
          simp [finish]
        | fuel => exact absurd hl2 hrl
      | fail =>
        rw [hz] at hpp
        simp only [if_true, finish] at hpp
        obtain ⟨m1, hm1⟩ := trzy (j+1) (Nat.le_refl _) c p (by rw [hz]; simp)
        rw [hz] at hm1
        exact ⟨m1, fun m hm => by simp [step1, step2, hm1 m hm, hpp]⟩
      | bad =>
        rw [hz] at hpp
        simp only [finish] at hpp
        obtain ⟨m1, hm1⟩ := trzy (j+1) (Nat.le_refl _) c p (by rw [hz]; simp)
        rw [hz] at hm1
        exact ⟨m1, fun m hm => by simp [step1, step2, hm1 m hm, hpp]⟩
      | fuel => rw [hz] at hrl; simp at hrl

/-! ### the simulation invariant -/

/-- all pairs of the candidate relation transfer results computed with fuel `≤ N` -/
def P (s₁ s₂ : Side) (L : Lex) (R : Rel) (N : Nat) : Prop :=
  ∀ a b, a < s₁.g.size → b ∈ R a → Tr s₁ s₂ L N a b

theorem inR_tr {s₁ s₂ : Side} {H : Hyps} {L : Lex} (hs₁ : s₁.Ok H L) (hs₂ : s₂.Ok H L) {d : Nat} {R : Rel}
    {N : Nat} (hP : P s₁ s₂ L R N) {x y : Nat} (h : inR s₁ s₂ d R x y = true) : Tr s₁ s₂ L N x y := by
  simp only [inR, Bool.and_eq_true, decide_eq_true_eq, List.contains_iff_mem] at h
  intro k hk c p hne
  have hpd := peel_down hs₁ d k x c p hne
  obtain ⟨m₀, hm₀⟩ := hP _ _ h.1 h.2 k hk c p (by rw [hpd]; exact hne)
  rw [hpd] at hm₀
  exact peel_ev hs₂ (hm₀ m₀ (Nat.le_refl _)) hne

/-- combine the head step and the tail of a sequence loop on the right-hand side -/
theorem seq_combine {g₂ : Graph} {L : Lex} {c : Bool} {step : Nat → Res} {target : Res}
    {ys : List Nat} {tailTarget : Sh → Nat → Res}
    (hstep : ∃ m₀, ∀ m, m₀ ≤ m → step m = target)
    (htail : ∀ a p1, target = .ok a p1 →
      ∃ m₀, ∀ m, m₀ ≤ m → seqLoop (fun e q => parse g₂ L m e c q) ys p1 a = tailTarget a p1) :
    ∃ m₀, ∀ m, m₀ ≤ m →
      ((step m).bind fun a p1 => seqLoop (fun e q => parse g₂ L m e c q) ys p1 a) =
      target.bind tailTarget := by
  obtain ⟨m1, hm1⟩ := hstep
  cases target with
  | ok a p1 =>
    obtain ⟨m2, hm2⟩ := htail a p1 rfl
    exact ⟨max m1 m2, fun m hm => by rw [hm1 m (by omega)]; exact hm2 m (by omega)⟩
  | fail => exact ⟨m1, fun m hm => by rw [hm1 m hm]; rfl⟩
  | fuel => exact ⟨m1, fun m hm => by rw [hm1 m hm]; rfl⟩
  | bad => exact ⟨m1, fun m hm => by rw [hm1 m hm]; rfl⟩

theorem sepA_unfold {s₁ s₂ : Side} {d : Nat} {R : Rel} {x st y : Nat} (h : sepA s₁ s₂ d R x st y = true) :
    ∃ s x' z t, starSepBody s₁.g st = some (s, x') ∧ plusSep s₂.g (peel s₂ d y) = some (z, t) ∧
      onlyT s₁.sh x = true ∧ onlyT s₁.sh x' = true ∧ onlyT s₁.sh s = true ∧
      inR s₁ s₂ d R x z = true ∧ inR s₁ s₂ d R x' z = true ∧ inR s₁ s₂ d R s t = true := by
  unfold sepA at h
  cases h1 : starSepBody s₁.g st with
  | none => simp [h1] at h
  | some sx =>
    cases h2 : plusSep s₂.g (peel s₂ d y) with
    | none => simp [h1, h2] at h
    | some zt =>
      obtain ⟨s, x'⟩ := sx
      obtain ⟨z, t⟩ := zt
      simp only [h1, h2, Bool.and_eq_true] at h
      exact ⟨s, x', z, t, rfl, rfl, h.1.1.1.1.1, h.1.1.1.1.2, h.1.1.1.2, h.1.1.2, h.1.2, h.2⟩

theorem sepB_unfold {s₁ s₂ : Side} {d : Nat} {R : Rel} {x y st : Nat} (h : sepB s₁ s₂ d R x y st = true) :
    ∃ z t s y', plusSep s₁.g (peel s₁ d x) = some (z, t) ∧ starSepBody s₂.g st = some (s, y') ∧
      onlyT s₁.sh z = true ∧ onlyT s₁.sh t = true ∧
      inR s₁ s₂ d R z y = true ∧ inR s₁ s₂ d R z y' = true ∧ inR s₁ s₂ d R t s = true := by
  unfold sepB at h
  cases h1 : plusSep s₁.g (peel s₁ d x) with
  | none => simp [h1] at h
  | some zt =>
    cases h2 : starSepBody s₂.g st with
    | none => simp [h1, h2] at h
    | some sy =>
      obtain ⟨z, t⟩ := zt
      obtain ⟨s, y'⟩ := sy
      simp only [h1, h2, Bool.and_eq_true] at h
      exact ⟨z, t, s, y', rfl, rfl, h.1.1.1.1, h.1.1.1.2, h.1.1.2, h.1.2, h.2⟩

theorem align_sound {s₁ s₂ : Side} {H : Hyps} {L : Lex} (hs₁ : s₁.Ok H L) (hs₂ : s₂.Ok H L) {d : Nat}
    {R : Rel} {N : Nat} (hP : P s₁ s₂ L R N) (c : Bool) :
    ∀ k xs ys, align s₁ s₂ d R k xs ys = true → ∀ p acc,
      seqLoop (fun e q => parse s₁.g L N e c q) xs p acc ≠ .fuel →
      ∃ m₀, ∀ m, m₀ ≤ m →
        seqLoop (fun e q => parse s₂.g L m e c q) ys p acc =
          seqLoop (fun e q => parse s₁.g L N e c q) xs p acc := by
  intro k
  induction k with
  | zero => intro xs ys h; simp [align] at h
  | succ k ih =>
    intro xs ys h p acc hne
    cases xs with
    | nil =>
      cases ys with
      | nil => exact ⟨0, fun m _ => rfl⟩
      | cons _ _ => simp [align] at h
    | cons x xs =>
      cases ys with
      | nil => simp [align] at h
      | cons y ys =>
        simp only [align, Bool.or_eq_true] at h
        rcases h with (((h | h) | h) | h) | h
        · -- element-wise
          simp only [Bool.and_eq_true] at h
          have tr := inR_tr hs₁ hs₂ hP h.1
          rw [seqLoop_cons1] at hne ⊢
          have hx : parse s₁.g L N x c p ≠ .fuel := by
            intro hx; simp only [step1, hx] at hne; exact hne rfl
          obtain ⟨m1, hm1⟩ := tr N (Nat.le_refl _) c p hx
          have hstep : ∃ m₀, ∀ m, m₀ ≤ m → step1 (fun e q => parse s₂.g L m e c q) y p acc =
              step1 (fun e q => parse s₁.g L N e c q) x p acc :=
            ⟨m1, fun m hm => by simp only [step1, hm1 m hm]⟩
          have := seq_combine (g₂ := s₂.g) (L := L) (c := c) (ys := ys)
            (tailTarget := fun a p1 => seqLoop (fun e q => parse s₁.g L N e c q) xs p1 a) hstep
            (fun a p1 htg => ih xs ys h.2 p1 a (by rw [htg] at hne; exact hne))
          obtain ⟨m₀, hm₀⟩ := this
          exact ⟨m₀, fun m hm => by rw [seqLoop_cons1]; exact hm₀ m hm⟩
        · -- x (s x')* against x+[s]
          cases xs with
          | nil => simp at h
          | cons st xs' =>
            simp only [Bool.and_eq_true] at h
            obtain ⟨s, x', z, t, hst, hpl, hx, hX, hS, r1, r2, r3⟩ := sepA_unfold h.1
            rw [seqLoop_cons2] at hne ⊢
            have hne2 : step2 (fun e q => parse s₁.g L N e c q) x st p acc ≠ .fuel := by
              intro hx; rw [hx] at hne; exact hne rfl
            have hstep := sepA_step hs₁ hs₂ hst hpl hx hX hS (inR_tr hs₁ hs₂ hP r1) (inR_tr hs₁ hs₂ hP r2)
              (inR_tr hs₁ hs₂ hP r3) c p acc hne2
            have := seq_combine (g₂ := s₂.g) (L := L) (c := c) (ys := ys)
              (tailTarget := fun a p1 => seqLoop (fun e q => parse s₁.g L N e c q) xs' p1 a) hstep
              (fun a p1 htg => ih xs' ys h.2 p1 a (by rw [htg] at hne; exact hne))
            obtain ⟨m₀, hm₀⟩ := this
            exact ⟨m₀, fun m hm => by rw [seqLoop_cons1]; exact hm₀ m hm⟩
        · -- x+[s] against y (s y')*
          cases ys with
          | nil => simp at h
          | cons st ys' =>
            simp only [Bool.and_eq_true] at h
            obtain ⟨z, t, s, y', hpl, hst, hZ, hT, r1, r2, r3⟩ := sepB_unfold h.1
            rw [seqLoop_cons1] at hne ⊢
            have hne1 : step1 (fun e q => parse s₁.g L N e c q) x p acc ≠ .fuel := by
              intro hx; rw [hx] at hne; exact hne rfl
            have hstep := sepB_step hs₁ hpl hst hZ hT ((inR_tr hs₁ hs₂ hP r1).mono (Nat.sub_le _ _))
              ((inR_tr hs₁ hs₂ hP r2).mono (Nat.sub_le _ _)) ((inR_tr hs₁ hs₂ hP r3).mono (Nat.sub_le _ _))
              c p acc hne1
            have := seq_combine (g₂ := s₂.g) (L := L) (c := c) (ys := ys')
              (tailTarget := fun a p1 => seqLoop (fun e q => parse s₁.g L N e c q) xs p1 a) hstep
              (fun a p1 htg => ih xs ys' h.2 p1 a (by rw [htg] at hne; exact hne))
            obtain ⟨m₀, hm₀⟩ := this
            exact ⟨m₀, fun m hm => by rw [seqLoop_cons2]; exact hm₀ m hm⟩
        · -- inline a nested sequence on the left
          cases hgx : s₁.g.get x with
          | none => simp [hgx] at h
          | some nd =>
            simp only [hgx, Bool.and_eq_true] at h
            have hin := inline_down hs₁ hgx h.1 N c xs p acc hne
            rw [← hin] at hne ⊢
            exact ih _ _ h.2 p acc hne
        · -- inline a nested sequence on the right
          cases hgy : s₂.g.get y with
          | none => simp [hgy] at h
          | some nd =>
            simp only [hgy, Bool.and_eq_true] at h
            obtain ⟨m₀, hm₀⟩ := ih _ _ h.2 p acc hne
            refine ⟨m₀ + 1, fun m hm => ?_⟩
            obtain ⟨m', rfl⟩ : ∃ m', m = m' + 1 := ⟨m - 1, by omega⟩
            have := hm₀ m' (by omega)
            rw [inline_up hs₂ hgy h.1 m' c ys p acc (by rw [this]; exact hne), this]

/-! ### transfer through the other loops -/

theorem finish_congr {na nb : Node} {r : Res} (hsup : na.suppress = nb.suppress)
    (hnet : ∀ w q, finish na r = .ok w q → NET w) : finish nb r = finish na r := by
  cases r with
  | ok v p =>
    simp only [finish, ← hsup]
    by_cases hs : na.suppress = true
    · simp [hs]
    · simp only [hs]
      by_cases hv : v = .H
      · exfalso
        subst hv
        have := hnet _ _ rfl
        simp only [hs] at this
        by_cases hr : na.root = true <;> simp [hr, NET] at this
      · simp [hv]
  | fail => rfl
  | fuel => rfl
  | bad => rfl

/-- element-wise transfer of two lists of nodes -/
inductive TrList (s₁ s₂ : Side) (L : Lex) (N : Nat) : List Nat → List Nat → Prop
  | nil : TrList s₁ s₂ L N [] []
  | cons {x y xs ys} : Tr s₁ s₂ L N x y → TrList s₁ s₂ L N xs ys → TrList s₁ s₂ L N (x :: xs) (y :: ys)

theorem allPairs_tr {s₁ s₂ : Side} {H : Hyps} {L : Lex} (hs₁ : s₁.Ok H L) (hs₂ : s₂.Ok H L) {d : Nat}
    {R : Rel} {N : Nat} (hP : P s₁ s₂ L R N) :
    ∀ xs ys, allPairs (inR s₁ s₂ d R) xs ys = true → TrList s₁ s₂ L N xs ys := by
  intro xs
  induction xs with
  | nil => intro ys h; cases ys with
    | nil => exact .nil
    | cons _ _ => simp [allPairs] at h
  | cons x xs ih => intro ys h; cases ys with
    | nil => simp [allPairs] at h
    | cons y ys =>
      simp only [allPairs, Bool.and_eq_true] at h
      exact .cons (inR_tr hs₁ hs₂ hP h.1) (ih ys h.2)

theorem choiceLoop_tr {s₁ s₂ : Side} {L : Lex} {N k : Nat} (hk : k ≤ N) (c : Bool) {xs ys : List Nat}
    (h : TrList s₁ s₂ L N xs ys) : ∀ cpos p,
      choiceLoop (fun e q => parse s₁.g L k e c q) xs cpos p ≠ .fuel →
      ∃ m₀, ∀ m, m₀ ≤ m →
        choiceLoop (fun e q => parse s₂.g L m e c q) ys cpos p =
          choiceLoop (fun e q => parse s₁.g L k e c q) xs cpos p := by
  induction h with
  | nil => intro cpos p _; exact ⟨0, fun m _ => rfl⟩
  | @cons x y xs ys tr _ ih =>
    intro cpos p hne
    simp only [choiceLoop] at hne ⊢
    have hx : parse s₁.g L k x c p ≠ .fuel := by
      intro hx; rw [hx] at hne; exact hne rfl
    obtain ⟨m1, hm1⟩ := tr k hk c p hx
    cases hr : parse s₁.g L k x c p with
    | ok v p1 =>
      rw [hr] at hne hm1
      by_cases hv : v = .N
      · simp only [hv, if_true] at hne ⊢
        obtain ⟨m2, hm2⟩ := ih cpos p1 hne
        exact ⟨max m1 m2, fun m hm => by rw [hm1 m (by omega)]; simp only [hv, if_true]; exact hm2 m (by omega)⟩
      · exact ⟨m1, fun m hm => by rw [hm1 m hm]; simp [hv]⟩
    | fail =>
      rw [hr] at hne hm1
      obtain ⟨m2, hm2⟩ := ih cpos cpos hne
      exact ⟨max m1 m2, fun m hm => by rw [hm1 m (by omega)]; exact hm2 m (by omega)⟩
    | bad => rw [hr] at hm1; exact ⟨m1, fun m hm => by rw [hm1 m hm]⟩
    | fuel => exact absurd hr hx

/-- transfer of the optional separator parser -/
def TrSep (s₁ s₂ : Side) (L : Lex) (N : Nat) : Option Nat → Option Nat → Prop
  | none, none => True
  | some s, some t => Tr s₁ s₂ L N s t
  | _, _ => False

theorem sepStep_tr {s₁ s₂ : Side} {L : Lex} {N k : Nat} (hk : k ≤ N) (c : Bool) {sp tp : Option Nat}
    (h : TrSep s₁ s₂ L N sp tp) (p : Nat) (acc : Sh) (prev : Bool)
    (hne : sepStep (sp.map fun s q => parse s₁.g L k s c q) p acc prev ≠ .fuel) :
    ∃ m₀, ∀ m, m₀ ≤ m →
      sepStep (tp.map fun s q => parse s₂.g L m s c q) p acc prev =
        sepStep (sp.map fun s q => parse s₁.g L k s c q) p acc prev := by
  cases sp with
  | none => cases tp with
    | none => exact ⟨0, fun m _ => rfl⟩
    | some _ => exact absurd h (by simp [TrSep])
  | some s => cases tp with
    | none => exact absurd h (by simp [TrSep])
    | some t =>
      simp only [TrSep] at h
      simp only [Option.map, sepStep] at hne ⊢
      by_cases hp : prev = true
      · simp only [hp, if_true] at hne ⊢
        have hx : parse s₁.g L k s c p ≠ .fuel := by
          intro hx; rw [hx] at hne; exact hne rfl
        obtain ⟨m1, hm1⟩ := h k hk c p hx
        exact ⟨m1, fun m hm => by rw [hm1 m hm]⟩
      · exact ⟨0, fun m _ => by simp [hp]⟩

theorem repLoop_tr {s₁ s₂ : Side} {L : Lex} {N k : Nat} (hk : k ≤ N) (c : Bool) {x y : Nat}
    (trk : Tr s₁ s₂ L N x y) {sp tp : Option Nat} (trs : TrSep s₁ s₂ L N sp tp) :
    ∀ j p acc first prev,
      repLoop (fun q => parse s₁.g L k x c q) (sp.map fun s q => parse s₁.g L k s c q) j p acc first prev ≠ .fuel →
      ∃ m₀, ∀ m, m₀ ≤ m → ∀ j', j ≤ j' →
        repLoop (fun q => parse s₂.g L m y c q) (tp.map fun s q => parse s₂.g L m s c q) j' p acc first prev =
          repLoop (fun q => parse s₁.g L k x c q) (sp.map fun s q => parse s₁.g L k s c q) j p acc first prev := by
  intro j
  induction j with
  | zero => intro p acc first prev h; simp [repLoop] at h
  | succ j ih =>
    intro p acc first prev hne
    simp only [repLoop] at hne
    have hsne : sepStep (sp.map fun s q => parse s₁.g L k s c q) p acc prev ≠ .fuel := by
      intro h; rw [h] at hne; exact hne rfl
    obtain ⟨m1, hm1⟩ := sepStep_tr hk c trs p acc prev hsne
    cases hsp : sepStep (sp.map fun s q => parse s₁.g L k s c q) p acc prev with
    | ok acc1 p1 =>
      rw [hsp] at hne hm1
      simp only at hne
      have hx : parse s₁.g L k x c p1 ≠ .fuel := by
        intro hx; rw [hx] at hne; exact hne rfl
      obtain ⟨m2, hm2⟩ := trk k hk c p1 hx
      cases hr : parse s₁.g L k x c p1 with
      | ok v p2 =>
        rw [hr] at hne hm2
        simp only at hne
        by_cases hv : v.truthy = true
        · simp only [hv, if_true] at hne
          obtain ⟨m3, hm3⟩ := ih p2 (acc1.add v) false true hne
          refine ⟨max m1 (max m2 m3), fun m hm j' hj' => ?_⟩
          obtain ⟨j'', rfl⟩ : ∃ j'', j' = j'' + 1 := ⟨j' - 1, by omega⟩
          simp only [repLoop, hsp, hr, hm1 m (by omega), hm2 m (by omega), hv, if_true]
          exact hm3 m (by omega) j'' (by omega)
        · refine ⟨max m1 m2, fun m hm j' hj' => ?_⟩
          obtain ⟨j'', rfl⟩ : ∃ j'', j' = j'' + 1 := ⟨j' - 1, by omega⟩
          simp [repLoop, hsp, hr, hm1 m (by omega), hm2 m (by omega), hv]
      | fail =>
        rw [hr] at hm2
        refine ⟨max m1 m2, fun m hm j' hj' => ?_⟩
        obtain ⟨j'', rfl⟩ : ∃ j'', j' = j'' + 1 := ⟨j' - 1, by omega⟩
        simp [repLoop, hsp, hr, hm1 m (by omega), hm2 m (by omega)]
      | bad =>
        rw [hr] at hm2
        refine ⟨max m1 m2, fun m hm j' hj' => ?_⟩
        obtain ⟨j'', rfl⟩ : ∃ j'', j' = j'' + 1 := ⟨j' - 1, by omega⟩
        simp [repLoop, hsp, hr, hm1 m (by omega), hm2 m (by omega)]
      | fuel => exact absurd hr hx
    | fail =>
      rw [hsp] at hm1
      refine ⟨m1, fun m hm j' hj' => ?_⟩
      obtain ⟨j'', rfl⟩ : ∃ j'', j' = j'' + 1 := ⟨j' - 1, by omega⟩
      simp [repLoop, hsp, hm1 m (by omega)]
    | bad =>
      rw [hsp] at hm1
      refine ⟨m1, fun m hm j' hj' => ?_⟩
      obtain ⟨j'', rfl⟩ : ∃ j'', j' = j'' + 1 := ⟨j' - 1, by omega⟩
      simp [repLoop, hsp, hm1 m (by omega)]
    | fuel => exact absurd hsp hsne

theorem commentsLoop_tr {s₁ s₂ : Side} {L : Lex} {N k : Nat} (hk : k ≤ N) {c₁ c₂ : Nat}
    (tr : Tr s₁ s₂ L N c₁ c₂) (skip : Nat → Nat) :
    ∀ j p, commentsLoop (fun q => parse s₁.g L k c₁ true q) skip j p ≠ .fuel →
      ∃ m₀, ∀ m, m₀ ≤ m → ∀ j', j ≤ j' →
        commentsLoop (fun q => parse s₂.g L m c₂ true q) skip j' p =
          commentsLoop (fun q => parse s₁.g L k c₁ true q) skip j p := by
  intro j
  induction j with
  | zero => intro p h; simp [commentsLoop] at h
  | succ j ih =>
    intro p hne
    simp only [commentsLoop] at hne
    have hx : parse s₁.g L k c₁ true p ≠ .fuel := by
      intro hx; rw [hx] at hne; exact hne rfl
    obtain ⟨m1, hm1⟩ := tr k hk true p hx
    cases hr : parse s₁.g L k c₁ true p with
    | ok v p1 =>
      rw [hr] at hne hm1
      obtain ⟨m2, hm2⟩ := ih (skip p1) hne
      refine ⟨max m1 m2, fun m hm j' hj' => ?_⟩
      obtain ⟨j'', rfl⟩ : ∃ j'', j' = j'' + 1 := ⟨j' - 1, by omega⟩
      simp only [commentsLoop, hr, hm1 m (by omega)]
      exact hm2 m (by omega) j'' (by omega)
    | fail =>
      rw [hr] at hm1
      refine ⟨m1, fun m hm j' hj' => ?_⟩
      obtain ⟨j'', rfl⟩ : ∃ j'', j' = j'' + 1 := ⟨j' - 1, by omega⟩
      simp [commentsLoop, hr, hm1 m (by omega)]
    | bad =>
      rw [hr] at hm1
      refine ⟨m1, fun m hm j' hj' => ?_⟩
      obtain ⟨j'', rfl⟩ : ∃ j'', j' = j'' + 1 := ⟨j' - 1, by omega⟩
      simp [commentsLoop, hr, hm1 m (by omega)]
    | fuel => exact absurd hr hx

/-! ### terminals, whitespace / comment skipping, token alternatives -/

/-- the parts of `check` that do not concern single pairs -/
structure Base (s₁ s₂ : Side) (d : Nat) (R : Rel) : Prop where
  ws : s₁.g.ws = s₂.g.ws
  skipws : s₁.g.skipws = s₂.g.skipws
  com : match s₁.g.comments, s₂.g.comments with
    | none, none => True
    | some c₁, some c₂ => inR s₁ s₂ d R c₁ c₂ = true
    | _, _ => False

theorem skipWs_eq {s₁ s₂ : Side} {d : Nat} {R : Rel} (hb : Base s₁ s₂ d R) (L : Lex) :
    skipWs s₁.g L = skipWs s₂.g L := by
  funext pos
  simp only [skipWs, hb.ws, hb.skipws]

theorem skip_tr {s₁ s₂ : Side} {H : Hyps} {L : Lex} (hs₁ : s₁.Ok H L) (hs₂ : s₂.Ok H L) {d : Nat} {R : Rel}
    (hb : Base s₁ s₂ d R) {N : Nat} (hP : P s₁ s₂ L R N) {k : Nat} (hk : k ≤ N) (c : Bool) (p : Nat)
    (hne : skipGen s₁.g L (fun e q => parse s₁.g L k e true q) k c p ≠ .fuel) :
    ∃ m₀, ∀ m, m₀ ≤ m →
      skipGen s₂.g L (fun e q => parse s₂.g L m e true q) m c p =
        skipGen s₁.g L (fun e q => parse s₁.g L k e true q) k c p := by
  have hsk := skipWs_eq hb L
  have hcom := hb.com
  unfold skipGen at hne ⊢
  rw [← hsk]
  by_cases hc : c = true
  · exact ⟨0, fun _ _ => by simp [hc]⟩
  · simp only [hc] at hne ⊢
    cases h1 : s₁.g.comments with
    | none =>
      cases h2 : s₂.g.comments with
      | none => exact ⟨0, fun _ _ => rfl⟩
      | some _ => rw [h1, h2] at hcom; exact absurd hcom (by simp)
    | some c₁ =>
      cases h2 : s₂.g.comments with
      | none => rw [h1, h2] at hcom; exact absurd hcom (by simp)
      | some c₂ =>
        rw [h1, h2] at hcom
        simp only [h1] at hne
        simp only [Bool.false_eq_true, if_false]
        obtain ⟨m₀, hm₀⟩ := commentsLoop_tr hk (inR_tr hs₁ hs₂ hP hcom) (skipWs s₁.g L) k (skipWs s₁.g L p) hne
        exact ⟨max m₀ k, fun m hm => hm₀ m (by omega) m (by omega)⟩

theorem parse_match {g : Graph} {L : Lex} {n a c p} {nd : Node} (hnd : g.get a = some nd)
    (hs : supported nd = true) (hk : nd.kind = .str ∨ nd.kind = .re ∨ nd.kind = .eof) :
    parse g L (n+1) a c p =
      match skipGen g L (fun e q => parse g L n e true q) n c p with
      | .ok _ p' => finish nd (lexTok nd L p')
      | r => r := by
  rw [parse]
  simp only [hnd, hs, Bool.not_true, Bool.false_eq_true, if_false]
  rcases hk with hk | hk | hk <;> simp only [hk] <;> rfl

/-- result of a plain regex token that never matches empty -/
def tokRes (L : Lex) (t p' : Nat) : Res :=
  match L.tok t p' with
  | some len => .ok .T (p' + len)
  | none => .fail

def firstRes (L : Lex) (ts : List Nat) (p' : Nat) : Res :=
  match firstTok L p' ts with
  | some len => .ok .T (p' + len)
  | none => .fail

theorem re_lex {H : Hyps} {L : Lex} (hL : LexOk H L) {nd : Node} (hk : nd.kind = .re)
    (hsup : nd.suppress = false) (hne : nd.tok ∈ H.nonempty) (p' : Nat) :
    finish nd (lexTok nd L p') = tokRes L nd.tok p' := by
  simp only [lexTok, hk, tokRes]
  cases ht : L.tok nd.tok p' with
  | none => rfl
  | some len =>
    have := hL.1 nd.tok hne p' len ht
    have hl : len ≠ 0 := by omega
    simp [finish, hsup, hl]

theorem reTok_some {s : Side} {H : Hyps} {d k t : Nat} (h : reTok s H d k = some t) :
    ∃ nd, s.g.get (peel s d k) = some nd ∧ nd.kind = .re ∧ supported nd = true ∧ nd.suppress = false ∧
      nd.tok ∈ H.nonempty ∧ nd.tok = t := by
  unfold reTok at h
  cases hg : s.g.get (peel s d k) with
  | none => simp [hg] at h
  | some nd =>
    simp only [hg] at h
    split at h
    · rename_i hc
      simp only [Option.some.injEq] at h
      simp only [Bool.and_eq_true, beq_iff_eq, Bool.not_eq_true', List.contains_iff_mem] at hc
      exact ⟨nd, rfl, hc.1.1.1, hc.1.1.2, hc.1.2, hc.2, h⟩
    · simp at h

theorem tokRes_cases (L : Lex) (t p' : Nat) :
    tokRes L t p' = .fail ∨ ∃ len, L.tok t p' = some len ∧ tokRes L t p' = .ok .T (p' + len) := by
  simp only [tokRes]
  cases L.tok t p' with
  | none => exact Or.inl rfl
  | some len => exact Or.inr ⟨len, rfl, rfl⟩

theorem firstRes_cons (L : Lex) (t : Nat) (ts : List Nat) (p' : Nat) :
    firstRes L (t :: ts) p' = match tokRes L t p' with | .fail => firstRes L ts p' | r => r := by
  simp only [firstRes, firstTok, tokRes]
  cases L.tok t p' <;> rfl

/-- left side: an ordered choice of plain regex tokens is the first matching token after skipping -/
theorem choice_toks_left {s : Side} {H : Hyps} {L : Lex} (hs : s.Ok H L) {d n : Nat} {c : Bool} {p p' : Nat} {w : Sh}
    (hskip : skipGen s.g L (fun e q => parse s.g L n e true q) n c p = .ok w p') :
    ∀ ks ts, reToks s H d ks = some ts →
      choiceLoop (fun e q => parse s.g L (n+1) e c q) ks p p ≠ .fuel →
      choiceLoop (fun e q => parse s.g L (n+1) e c q) ks p p = firstRes L ts p' := by
  intro ks
  induction ks with
  | nil => intro ts h _; simp only [reToks, Option.some.injEq] at h; subst h; rfl
  | cons k ks ih =>
    intro ts h hne
    simp only [reToks] at h
    cases hk : reTok s H d k with
    | none => simp [hk] at h
    | some t =>
      cases hks : reToks s H d ks with
      | none => simp [hk, hks] at h
      | some ts' =>
        simp only [hk, hks, Option.some.injEq] at h
        subst h
        obtain ⟨nd, hg, hkind, hsupp, hsup, hnon, htok⟩ := reTok_some hk
        simp only [choiceLoop] at hne ⊢
        have hkne : parse s.g L (n+1) k c p ≠ .fuel := by
          intro hx; rw [hx] at hne; exact hne rfl
        have hpd := peel_down hs d (n+1) k c p hkne
        rw [parse_match hg hsupp (Or.inr (Or.inl hkind)), hskip] at hpd
        simp only at hpd
        rw [re_lex hs.lex hkind hsup hnon, htok] at hpd
        rw [← hpd] at hne ⊢
        rw [firstRes_cons]
        rcases tokRes_cases L t p' with htr | ⟨len, _, htr⟩
        · rw [htr] at hne ⊢
          simp only at hne ⊢
          exact ih ts' hks hne
        · rw [htr]
          simp [Sh.wrap1]

/-- right side: the same, for all sufficiently large fuel -/
theorem choice_toks_right {s : Side} {H : Hyps} {L : Lex} (hs : s.Ok H L) {d : Nat} {c : Bool} {p p' : Nat} {w : Sh}
    (hskip : ∃ m₀, ∀ m, m₀ ≤ m → skipGen s.g L (fun e q => parse s.g L m e true q) m c p = .ok w p') :
    ∀ ks ts, reToks s H d ks = some ts →
      ∃ m₁, ∀ m, m₁ ≤ m → choiceLoop (fun e q => parse s.g L m e c q) ks p p = firstRes L ts p' := by
  obtain ⟨ms, hms⟩ := hskip
  intro ks
  induction ks with
  | nil => intro ts h; simp only [reToks, Option.some.injEq] at h; subst h; exact ⟨0, fun _ _ => rfl⟩
  | cons k ks ih =>
    intro ts h
    simp only [reToks] at h
    cases hk : reTok s H d k with
    | none => simp [hk] at h
    | some t =>
      cases hks : reToks s H d ks with
      | none => simp [hk, hks] at h
      | some ts' =>
        simp only [hk, hks, Option.some.injEq] at h
        subst h
        obtain ⟨nd, hg, hkind, hsupp, hsup, hnon, htok⟩ := reTok_some hk
        have hpk : parse s.g L (ms+1) (peel s d k) c p = tokRes L t p' := by
          rw [parse_match hg hsupp (Or.inr (Or.inl hkind)), hms ms (Nat.le_refl _)]
          simp only
          rw [re_lex hs.lex hkind hsup hnon, htok]
        have hfin : tokRes L t p' ≠ .fuel := by
          simp only [tokRes]; cases L.tok t p' <;> simp
        obtain ⟨m1, hm1⟩ := peel_ev hs hpk hfin
        obtain ⟨m2, hm2⟩ := ih ts' hks
        refine ⟨max m1 m2, fun m hm => ?_⟩
        simp only [choiceLoop, hm1 m (by omega)]
        rw [firstRes_cons]
        rcases tokRes_cases L t p' with htr | ⟨len, _, htr⟩
        · rw [htr]
          exact hm2 m (by omega)
        · rw [htr]
          simp [Sh.wrap1]

/-! ### the cases of `okPair` -/

section cases
variable {s₁ s₂ : Side} {H : Hyps} {L : Lex} {d : Nat} {R : Rel}

/-- conclusion of every case: the result of `a` with fuel `n+1` is eventually the result of `b` -/
def Goal (s₁ s₂ : Side) (L : Lex) (n a b : Nat) : Prop :=
  ∀ c p, parse s₁.g L (n+1) a c p ≠ .fuel →
    ∃ m₀, ∀ m, m₀ ≤ m → parse s₂.g L m b c p = parse s₁.g L (n+1) a c p

theorem shift_ev {g : Graph} {L : Lex} {b : Nat} {c : Bool} {p : Nat} {r : Res} {m₀ : Nat}
    (h : ∀ m, m₀ ≤ m → parse g L (m+1) b c p = r) : ∃ m₁, ∀ m, m₁ ≤ m → parse g L m b c p = r :=
  ⟨m₀ + 1, fun m hm => by
    obtain ⟨m', rfl⟩ : ∃ m', m = m' + 1 := ⟨m - 1, by omega⟩
    exact h m' (by omega)⟩

theorem left_net (hs₁ : s₁.Ok H L) {n a : Nat} {c : Bool} {p : Nat} {na : Node} {pre : Res}
    (h : parse s₁.g L (n+1) a c p = finish na pre) : ∀ w q, finish na pre = .ok w q → NET w := by
  intro w q hw
  rw [← h] at hw
  exact (hs₁.shape hw).2

theorem case_seq (hs₁ : s₁.Ok H L) (hs₂ : s₂.Ok H L) {n a b : Nat} (hP : P s₁ s₂ L R n) {na nb : Node}
    (ha : s₁.g.get a = some na) (hb : s₂.g.get b = some nb) (hta : transparentSeq na = true)
    (htb : transparentSeq nb = true) (hal : align s₁ s₂ d R alignFuel na.kids nb.kids = true) :
    Goal s₁ s₂ L n a b := by
  intro c p hne
  have hpa := parse_seq (L := L) (n := n) (c := c) (p := p) ha hta
  have hloop : seqLoop (fun e q => parse s₁.g L n e c q) na.kids p .E ≠ .fuel := by
    intro h; rw [hpa, h] at hne; simp [seqRes, finish] at hne
  obtain ⟨m₀, hm₀⟩ := align_sound hs₁ hs₂ hP c alignFuel _ _ hal p .E hloop
  apply shift_ev (m₀ := m₀)
  intro m hm
  rw [parse_seq hb htb, hm₀ m hm, hpa]
  exact finish_congr (by rw [(transparent_iff hta).2.2, (transparent_iff htb).2.2]) (left_net hs₁ hpa)

theorem step1_inv {f : Nat → Nat → Res} {y p : Nat} {ρ : Res} (h : step1 f y p .E = ρ) :
    (∀ p2, ρ = .ok .T p2 → f y p = .ok .T p2) ∧ (ρ = .fail → f y p = .fail) ∧ (ρ = .bad → f y p = .bad) := by
  simp only [step1] at h
  cases hf : f y p with
  | ok v p1 =>
    rw [hf] at h
    subst h
    refine ⟨fun p2 h2 => ?_, fun h2 => by simp at h2, fun h2 => by simp at h2⟩
    simp only [Res.ok.injEq] at h2
    obtain ⟨hv, rfl⟩ := h2
    cases v <;> simp [Sh.add] at hv ⊢
  | fail => rw [hf] at h; subst h; exact ⟨fun _ h2 => by simp at h2, fun _ => rfl, fun h2 => by simp at h2⟩
  | bad => rw [hf] at h; subst h; exact ⟨fun _ h2 => by simp at h2, fun h2 => by simp at h2, fun _ => rfl⟩
  | fuel => rw [hf] at h; subst h; exact ⟨fun _ h2 => by simp at h2, fun h2 => by simp at h2, fun h2 => by simp at h2⟩

theorem case_sepA (hs₁ : s₁.Ok H L) (hs₂ : s₂.Ok H L) {n a b : Nat} (hP : P s₁ s₂ L R n) {na : Node}
    (ha : s₁.g.get a = some na) (hta : transparentSeq na = true) {x st : Nat} (hk : na.kids = [x, st])
    (hsep : sepA s₁ s₂ d R x st b = true) : Goal s₁ s₂ L n a b := by
  intro c p hne
  obtain ⟨s, x', z, t, hst, hpl, hx, hX, hS, r1, r2, r3⟩ := sepA_unfold hsep
  have hsupa := (transparent_iff hta).2.2
  have hpa := parse_seq (L := L) (n := n) (c := c) (p := p) ha hta
  rw [hk, seqLoop_cons2] at hpa
  have hstep2 : step2 (fun e q => parse s₁.g L n e c q) x st p .E ≠ .fuel := by
    intro h; rw [hpa, h] at hne; simp [Res.bind, seqRes, finish] at hne
  obtain ⟨m₀, hm₀⟩ := sepA_step hs₁ hs₂ hst hpl hx hX hS (inR_tr hs₁ hs₂ hP r1) (inR_tr hs₁ hs₂ hP r2)
    (inR_tr hs₁ hs₂ hP r3) c p .E hstep2
  refine ⟨m₀, fun m hm => ?_⟩
  obtain ⟨i1, i2, i3⟩ := step1_inv (hm₀ m hm)
  -- the possible values of the two-element step
  simp only [step2] at hpa i1 i2 i3 hstep2
  cases hrx : parse s₁.g L n x c p with
  | ok v p1 =>
    have hv := onlyT_val hs₁ hx hrx
    subst hv
    rw [hrx] at hpa i1 i2 i3
    simp only at hpa i1 i2 i3
    cases hrst : parse s₁.g L n st c p1 with
    | ok w p2 =>
      have hT : (Sh.E.add Sh.T).add w = .T := by cases w <;> rfl
      rw [hrst] at hpa i1
      simp only [Res.bind, seqLoop, seqRes, hT] at hpa i1
      rw [hpa, i1 p2 rfl]
      simp [finish, hsupa]
    | fail =>
      rw [hrst] at hpa i2
      rw [hpa, i2 rfl]; simp [Res.bind, seqRes, finish]
    | bad =>
      rw [hrst] at hpa i3
      rw [hpa, i3 rfl]; simp [Res.bind, seqRes, finish]
    | fuel => exact absurd (by simp [hrx, hrst]) hstep2
  | fail =>
    rw [hrx] at hpa i2
    rw [hpa, i2 rfl]; simp [Res.bind, seqRes, finish]
  | bad =>
    rw [hrx] at hpa i3
    rw [hpa, i3 rfl]; simp [Res.bind, seqRes, finish]
  | fuel => exact absurd (by simp [hrx]) hstep2

theorem case_sepB (hs₁ : s₁.Ok H L) (hs₂ : s₂.Ok H L) {n a b : Nat} (hP : P s₁ s₂ L R n) {nb : Node}
    (hb : s₂.g.get b = some nb) (htb : transparentSeq nb = true) {y st : Nat} (hk : nb.kids = [y, st])
    (hsh : sub (shOf s₁.sh a) [.N, .T] = true) (hsep : sepB s₁ s₂ d R a y st = true) :
    Goal s₁ s₂ L n a b := by
  intro c p hne
  obtain ⟨z, t, s, y', hpl, hst, hZ, hT, r1, r2, r3⟩ := sepB_unfold hsep
  have hsupb := (transparent_iff htb).2.2
  have hstep1 : step1 (fun e q => parse s₁.g L (n+1) e c q) a p .E ≠ .fuel := by
    simp only [step1]
    cases hr : parse s₁.g L (n+1) a c p <;> simp_all
  obtain ⟨m₀, hm₀⟩ := sepB_step (N := n+1) hs₁ hpl hst hZ hT (inR_tr hs₁ hs₂ hP r1) (inR_tr hs₁ hs₂ hP r2)
    (inR_tr hs₁ hs₂ hP r3) c p .E hstep1
  apply shift_ev (m₀ := m₀)
  intro m hm
  rw [parse_seq hb htb, hk, seqLoop_cons2, hm₀ m hm]
  simp only [step1]
  cases hr : parse s₁.g L (n+1) a c p with
  | ok v p1 =>
    have := sub_mem hsh (hs₁.shape hr).1
    simp only [List.mem_cons, List.mem_nil_iff, or_false] at this
    rcases this with hv | hv <;> subst hv <;> simp [Res.bind, seqLoop, Sh.add, seqRes, finish, hsupb]
  | fail => simp [Res.bind, seqRes, finish]
  | bad => simp [Res.bind, seqRes, finish]
  | fuel => exact absurd hr hne

theorem parse_choice {g : Graph} {L : Lex} {n a c p} {nd : Node} (hnd : g.get a = some nd)
    (hk : nd.kind = .choice) (hs : supported nd = true) :
    parse g L (n+1) a c p = finish nd (choiceLoop (fun e q => parse g L n e c q) nd.kids p p) := by
  rw [parse]
  simp only [hnd, hs, Bool.not_true, Bool.false_eq_true, if_false, hk]

theorem case_term (hs₁ : s₁.Ok H L) (hs₂ : s₂.Ok H L) (hb : Base s₁ s₂ d R) {n a b : Nat}
    (hP : P s₁ s₂ L R n) {na nb : Node} (ha : s₁.g.get a = some na) (hgb : s₂.g.get b = some nb)
    (hsa : supported na = true) (hsb : supported nb = true) (hsup : na.suppress = nb.suppress)
    (hka : na.kind = .str ∨ na.kind = .re ∨ na.kind = .eof) (hkk : na.kind = nb.kind)
    (htok : na.kind = .eof ∨ na.tok = nb.tok) : Goal s₁ s₂ L n a b := by
  intro c p hne
  have hpa := parse_match (L := L) (n := n) (c := c) (p := p) ha hsa hka
  have hskne : skipGen s₁.g L (fun e q => parse s₁.g L n e true q) n c p ≠ .fuel := by
    intro h; rw [hpa, h] at hne; exact hne rfl
  obtain ⟨m₀, hm₀⟩ := skip_tr hs₁ hs₂ hb hP (Nat.le_refl n) c p hskne
  apply shift_ev (m₀ := m₀)
  intro m hm
  rw [parse_match hgb hsb (by rw [← hkk]; exact hka), hm₀ m hm, hpa]
  cases hsk : skipGen s₁.g L (fun e q => parse s₁.g L n e true q) n c p with
  | ok w p' =>
    simp only
    have hlex : lexTok nb L p' = lexTok na L p' := by
      simp only [lexTok, ← hkk]
      rcases htok with h | h
      · simp [h]
      · rw [h]
    rw [hlex]
    rw [hsk] at hpa
    exact finish_congr hsup (left_net hs₁ hpa)
  | fail => rfl
  | bad => rfl
  | fuel => rfl

theorem case_choice (hs₁ : s₁.Ok H L) {n a b : Nat} {na nb : Node}
    (ha : s₁.g.get a = some na) (hgb : s₂.g.get b = some nb)
    (hsa : supported na = true) (hsb : supported nb = true) (hsup : na.suppress = nb.suppress)
    (hka : na.kind = .choice) (hkb : nb.kind = .choice)
    (hkids : TrList s₁ s₂ L n na.kids nb.kids) : Goal s₁ s₂ L n a b := by
  intro c p hne
  have hpa := parse_choice (L := L) (n := n) (c := c) (p := p) ha hka hsa
  have hlne : choiceLoop (fun e q => parse s₁.g L n e c q) na.kids p p ≠ .fuel := by
    intro h; rw [hpa, h] at hne; simp [finish] at hne
  obtain ⟨m₀, hm₀⟩ := choiceLoop_tr (Nat.le_refl n) c hkids p p hlne
  apply shift_ev (m₀ := m₀)
  intro m hm
  rw [parse_choice hgb hkb hsb, hm₀ m hm, hpa]
  exact finish_congr hsup (left_net hs₁ hpa)

theorem parse_opt {g : Graph} {L : Lex} {n a c p} {nd : Node} (hnd : g.get a = some nd)
    (hk : nd.kind = .opt) (hs : supported nd = true) :
    parse g L (n+1) a c p =
      match nd.kids with
      | [k] => finish nd (match parse g L n k c p with
          | .ok v p' => .ok v.wrap1 p'
          | .fail => .ok .N p
          | r => r)
      | _ => .bad := by
  rw [parse]
  simp only [hnd, hs, Bool.not_true, Bool.false_eq_true, if_false, hk]
  rfl

theorem case_opt (hs₁ : s₁.Ok H L) {n a b : Nat} {na nb : Node}
    (ha : s₁.g.get a = some na) (hgb : s₂.g.get b = some nb)
    (hsa : supported na = true) (hsb : supported nb = true) (hsup : na.suppress = nb.suppress)
    (hka : na.kind = .opt) (hkb : nb.kind = .opt)
    (hkids : TrList s₁ s₂ L n na.kids nb.kids) : Goal s₁ s₂ L n a b := by
  intro c p hne
  have hpa := parse_opt (L := L) (n := n) (c := c) (p := p) ha hka hsa
  have hpb : ∀ m, parse s₂.g L (m+1) b c p = _ := fun m => parse_opt (L := L) (n := m) (c := c) (p := p) hgb hkb hsb
  generalize h1 : na.kids = ka at hkids
  generalize h2 : nb.kids = kb at hkids
  cases hkids with
  | nil =>
    exact ⟨1, fun m hm => by
      obtain ⟨m', rfl⟩ : ∃ m', m = m' + 1 := ⟨m - 1, by omega⟩
      rw [hpb, hpa, h1, h2]⟩
  | @cons x y xs ys tr rest =>
    cases rest with
    | nil =>
      rw [h1] at hpa
      simp only at hpa
      have hxne : parse s₁.g L n x c p ≠ .fuel := by
        intro h; rw [hpa, h] at hne; simp [finish] at hne
      obtain ⟨m₀, hm₀⟩ := tr n (Nat.le_refl n) c p hxne
      apply shift_ev (m₀ := m₀)
      intro m hm
      rw [hpb, h2]
      simp only
      rw [hm₀ m hm, hpa]
      exact finish_congr hsup (left_net hs₁ hpa)
    | cons _ _ =>
      exact ⟨1, fun m hm => by
        obtain ⟨m', rfl⟩ : ∃ m', m = m' + 1 := ⟨m - 1, by omega⟩
        rw [hpb, hpa, h1, h2]⟩

theorem case_rep (hs₁ : s₁.Ok H L) {n a b : Nat} {na nb : Node}
    (ha : s₁.g.get a = some na) (hgb : s₂.g.get b = some nb)
    (hsa : supported na = true) (hsb : supported nb = true) (hsup : na.suppress = nb.suppress)
    (hka : na.kind = .star ∨ na.kind = .plus) (hkb : nb.kind = na.kind)
    (hkids : TrList s₁ s₂ L n na.kids nb.kids) (hsep : TrSep s₁ s₂ L n na.sep nb.sep) :
    Goal s₁ s₂ L n a b := by
  intro c p hne
  generalize h1 : na.kids = ka at hkids
  generalize h2 : nb.kids = kb at hkids
  cases hkids with
  | nil =>
    refine ⟨1, fun m hm => ?_⟩
    obtain ⟨m', rfl⟩ : ∃ m', m = m' + 1 := ⟨m - 1, by omega⟩
    rw [parse, parse]
    rcases hka with hk | hk <;>
      simp only [ha, hgb, hsa, hsb, Bool.not_true, Bool.false_eq_true, if_false, hk, hkb, h1, h2]
  | @cons x y xs ys tr rest =>
    cases rest with
    | cons _ _ =>
      refine ⟨1, fun m hm => ?_⟩
      obtain ⟨m', rfl⟩ : ∃ m', m = m' + 1 := ⟨m - 1, by omega⟩
      rw [parse, parse]
      rcases hka with hk | hk <;>
        simp only [ha, hgb, hsa, hsb, Bool.not_true, Bool.false_eq_true, if_false, hk, hkb, h1, h2]
    | nil =>
      rcases hka with hk | hk
      · have hpa := parse_star (L := L) (n := n) (c := c) (p := p) ha hk hsa h1
        have hlne : repLoop (fun q => parse s₁.g L n x c q) (na.sep.map fun s q => parse s₁.g L n s c q)
            n p .E false false ≠ .fuel := by
          intro h; rw [hpa, h] at hne; simp [finish] at hne
        obtain ⟨m₀, hm₀⟩ := repLoop_tr (Nat.le_refl n) c tr hsep n p .E false false hlne
        apply shift_ev (m₀ := max m₀ n)
        intro m hm
        rw [parse_star hgb (by rw [hkb, hk]) hsb h2, hm₀ m (by omega) m (by omega), hpa]
        exact finish_congr hsup (left_net hs₁ hpa)
      · have hpa := parse_plus (L := L) (n := n) (c := c) (p := p) ha hk hsa h1
        have hlne : repLoop (fun q => parse s₁.g L n x c q) (na.sep.map fun s q => parse s₁.g L n s c q)
            n p .E true false ≠ .fuel := by
          intro h; rw [hpa, h] at hne; simp [finish] at hne
        obtain ⟨m₀, hm₀⟩ := repLoop_tr (Nat.le_refl n) c tr hsep n p .E true false hlne
        apply shift_ev (m₀ := max m₀ n)
        intro m hm
        rw [parse_plus hgb (by rw [hkb, hk]) hsb h2, hm₀ m (by omega) m (by omega), hpa]
        exact finish_congr hsup (left_net hs₁ hpa)

theorem commentsLoop_cases (f : Nat → Res) (skip : Nat → Nat) :
    ∀ j p, (∃ w q, commentsLoop f skip j p = .ok w q) ∨ commentsLoop f skip j p = .fuel ∨
      commentsLoop f skip j p = .bad := by
  intro j
  induction j with
  | zero => intro p; exact Or.inr (Or.inl rfl)
  | succ j ih =>
    intro p
    simp only [commentsLoop]
    cases f p with
    | ok v q => exact ih (skip q)
    | fail => exact Or.inl ⟨_, _, rfl⟩
    | fuel => exact Or.inr (Or.inl rfl)
    | bad => exact Or.inr (Or.inr rfl)

theorem skip_cases (g : Graph) (L : Lex) (f : Nat → Nat → Res) (n : Nat) (c : Bool) (p : Nat) :
    (∃ w q, skipGen g L f n c p = .ok w q) ∨ skipGen g L f n c p = .fuel ∨ skipGen g L f n c p = .bad := by
  unfold skipGen
  by_cases hc : c = true
  · simp only [hc, if_true]; exact Or.inl ⟨_, _, rfl⟩
  · simp only [hc]
    cases g.comments with
    | none => exact Or.inl ⟨_, _, rfl⟩
    | some cm => exact commentsLoop_cases _ _ _ _

theorem reToks_cons {s : Side} {H : Hyps} {d : Nat} {ks : List Nat} {t : Nat} {ts : List Nat}
    (h : reToks s H d ks = some (t :: ts)) :
    ∃ k ks', ks = k :: ks' ∧ reTok s H d k = some t ∧ reToks s H d ks' = some ts := by
  cases ks with
  | nil => simp [reToks] at h
  | cons k ks' =>
    simp only [reToks] at h
    cases hk : reTok s H d k with
    | none => simp [hk] at h
    | some t' =>
      cases hks : reToks s H d ks' with
      | none => simp [hk, hks] at h
      | some ts' =>
        simp only [hk, hks, Option.some.injEq, List.cons.injEq] at h
        exact ⟨k, ks', rfl, by rw [← h.1]; exact hk, by rw [← h.2]; exact hks⟩

theorem alt_res {H : Hyps} {L : Lex} (hL : LexOk H L) {t : Nat} {ts : List Nat}
    (h : H.alts.contains (t, ts) = true) (p' : Nat) : tokRes L t p' = firstRes L ts p' := by
  have := hL.2 (t, ts) (by simpa using h) p'
  simp only [tokRes, firstRes, this]

theorem finish_tok {nd : Node} (hsup : nd.suppress = false) {L : Lex} (ts : List Nat) (p' : Nat) :
    finish nd (firstRes L ts p') = firstRes L ts p' := by
  simp only [firstRes]
  cases firstTok L p' ts with
  | none => rfl
  | some len => simp [finish, hsup]

theorem case_choice_re (hs₁ : s₁.Ok H L) (hs₂ : s₂.Ok H L) (hb : Base s₁ s₂ d R) {n a b : Nat}
    (hP : P s₁ s₂ L R n) {na nb : Node} (ha : s₁.g.get a = some na) (hgb : s₂.g.get b = some nb)
    (hsa : supported na = true) (hsb : supported nb = true) (hsupa : na.suppress = false)
    (hsupb : nb.suppress = false) (hka : na.kind = .choice) (hkb : nb.kind = .re)
    (hne' : nb.tok ∈ H.nonempty) {t : Nat} {ts : List Nat}
    (hts : reToks s₁ H d na.kids = some (t :: ts)) (halt : H.alts.contains (nb.tok, t :: ts) = true) :
    Goal s₁ s₂ L n a b := by
  intro c p hne
  obtain ⟨k, ks', hkids, hk1, _⟩ := reToks_cons hts
  have hpa := parse_choice (L := L) (n := n) (c := c) (p := p) ha hka hsa
  have hlne : choiceLoop (fun e q => parse s₁.g L n e c q) na.kids p p ≠ .fuel := by
    intro h; rw [hpa, h] at hne; simp [finish] at hne
  cases n with
  | zero => rw [hkids] at hlne; simp [choiceLoop, parse] at hlne
  | succ n' =>
    obtain ⟨nd, hg, hkind, hsupp, hsup, hnon, htok⟩ := reTok_some hk1
    have hkne : parse s₁.g L (n'+1) k c p ≠ .fuel := by
      intro hx; rw [hkids] at hlne; simp only [choiceLoop, hx] at hlne; exact hlne rfl
    have hpd := peel_down hs₁ d (n'+1) k c p hkne
    rw [parse_match hg hsupp (Or.inr (Or.inl hkind))] at hpd
    rcases skip_cases s₁.g L (fun e q => parse s₁.g L n' e true q) n' c p with ⟨w, p', hsk⟩ | hsk | hsk
    · have hcl := choice_toks_left hs₁ hsk na.kids (t :: ts) hts hlne
      obtain ⟨m₀, hm₀⟩ := skip_tr hs₁ hs₂ hb hP (by omega : n' ≤ n'+1) c p (by rw [hsk]; simp)
      rw [hsk] at hm₀
      apply shift_ev (m₀ := m₀)
      intro m hm
      rw [parse_match hgb hsb (Or.inr (Or.inl hkb)), hm₀ m hm, hpa, hcl]
      simp only
      rw [re_lex hs₂.lex hkb hsupb hne', alt_res hs₁.lex halt, finish_tok hsupa]
    · rw [hsk] at hpd; exact absurd hpd.symm hkne
    · rw [hsk] at hpd
      simp only at hpd
      obtain ⟨m₀, hm₀⟩ := skip_tr hs₁ hs₂ hb hP (by omega : n' ≤ n'+1) c p (by rw [hsk]; simp)
      rw [hsk] at hm₀
      apply shift_ev (m₀ := m₀)
      intro m hm
      rw [parse_match hgb hsb (Or.inr (Or.inl hkb)), hm₀ m hm, hpa, hkids]
      simp only [choiceLoop, ← hpd, finish]

theorem case_re_choice (hs₁ : s₁.Ok H L) (hs₂ : s₂.Ok H L) (hb : Base s₁ s₂ d R) {n a b : Nat}
    (hP : P s₁ s₂ L R n) {na nb : Node} (ha : s₁.g.get a = some na) (hgb : s₂.g.get b = some nb)
    (hsa : supported na = true) (hsb : supported nb = true) (hsupa : na.suppress = false)
    (hsupb : nb.suppress = false) (hka : na.kind = .re) (hkb : nb.kind = .choice)
    (hne' : na.tok ∈ H.nonempty) {t : Nat} {ts : List Nat}
    (hts : reToks s₂ H d nb.kids = some (t :: ts)) (halt : H.alts.contains (na.tok, t :: ts) = true) :
    Goal s₁ s₂ L n a b := by
  intro c p hne
  obtain ⟨k, ks', hkids, hk1, _⟩ := reToks_cons hts
  have hpa := parse_match (L := L) (n := n) (c := c) (p := p) ha hsa (Or.inr (Or.inl hka))
  have hskne : skipGen s₁.g L (fun e q => parse s₁.g L n e true q) n c p ≠ .fuel := by
    intro h; rw [hpa, h] at hne; exact hne rfl
  obtain ⟨ms, hms⟩ := skip_tr hs₁ hs₂ hb hP (Nat.le_refl n) c p hskne
  rcases skip_cases s₁.g L (fun e q => parse s₁.g L n e true q) n c p with ⟨w, p', hsk⟩ | hsk | hsk
  · rw [hsk] at hms hpa
    simp only at hpa
    rw [re_lex hs₁.lex hka hsupa hne', alt_res hs₁.lex halt] at hpa
    obtain ⟨m₁, hm₁⟩ := choice_toks_right hs₂ (c := c) (p := p) ⟨ms, hms⟩ nb.kids (t :: ts) hts
    apply shift_ev (m₀ := m₁)
    intro m hm
    rw [parse_choice hgb hkb hsb, hm₁ m hm, hpa, finish_tok hsupb]
  · exact absurd hsk hskne
  · rw [hsk] at hms hpa
    simp only at hpa
    obtain ⟨nd, hg, hkind, hsupp, hsup, hnon, htok⟩ := reTok_some hk1
    have hpk : parse s₂.g L (ms+1) (peel s₂ d k) c p = .bad := by
      rw [parse_match hg hsupp (Or.inr (Or.inl hkind)), hms ms (Nat.le_refl _)]
    obtain ⟨m₁, hm₁⟩ := peel_ev hs₂ hpk (by simp)
    apply shift_ev (m₀ := m₁)
    intro m hm
    rw [parse_choice hgb hkb hsb, hkids, hpa]
    simp only [choiceLoop, hm₁ m hm, finish]

/-! ### assembling the cases -/

theorem sep_tr (hs₁ : s₁.Ok H L) (hs₂ : s₂.Ok H L) {n : Nat} (hP : P s₁ s₂ L R n) {sp tp : Option Nat}
    (h : (match sp, tp with
          | none, none => true
          | some s, some t => inR s₁ s₂ d R s t
          | _, _ => false) = true) : TrSep s₁ s₂ L n sp tp := by
  cases sp with
  | none => cases tp with
    | none => trivial
    | some _ => simp at h
  | some s => cases tp with
    | none => simp at h
    | some t => exact inR_tr hs₁ hs₂ hP h

theorem okPair_goal (hs₁ : s₁.Ok H L) (hs₂ : s₂.Ok H L) (hb : Base s₁ s₂ d R) {n a b : Nat}
    (hP : P s₁ s₂ L R n) (hok : okPair s₁ s₂ H d R a b = true) : Goal s₁ s₂ L n a b := by
  unfold okPair at hok
  cases ha : s₁.g.get a with
  | none => simp [ha] at hok
  | some na =>
    cases hgb : s₂.g.get b with
    | none => simp [ha, hgb] at hok
    | some nb =>
      simp only [ha, hgb] at hok
      by_cases hA : transparentSeq na = true
      · by_cases hB : transparentSeq nb = true
        · simp only [hA, hB, Bool.and_self, if_true] at hok
          exact case_seq hs₁ hs₂ hP ha hgb hA hB hok
        · simp only [hA, hB, Bool.and_false, Bool.false_eq_true, if_false, if_true] at hok
          cases hk : na.kids with
          | nil => simp [hk] at hok
          | cons x xs => cases xs with
            | nil => simp [hk] at hok
            | cons st xs' => cases xs' with
              | cons _ _ => simp [hk] at hok
              | nil =>
                simp only [hk] at hok
                exact case_sepA hs₁ hs₂ hP ha hA hk hok
      · by_cases hB : transparentSeq nb = true
        · simp only [hA, hB, Bool.false_and, Bool.false_eq_true, if_false, if_true] at hok
          cases hk : nb.kids with
          | nil => simp [hk] at hok
          | cons y ys => cases ys with
            | nil => simp [hk] at hok
            | cons st ys' => cases ys' with
              | cons _ _ => simp [hk] at hok
              | nil =>
                simp only [hk, Bool.and_eq_true] at hok
                exact case_sepB hs₁ hs₂ hP hgb hB hk hok.1 hok.2
        · simp only [hA, hB, Bool.false_and, Bool.false_eq_true, if_false] at hok
          by_cases hcond : (!(supported na && supported nb) || na.suppress != nb.suppress) = true
          · rw [if_pos hcond] at hok; exact absurd hok Bool.false_ne_true
          · rw [if_neg hcond] at hok
            simp only [Bool.or_eq_true, Bool.not_eq_true', Bool.and_eq_false_iff, bne_iff_ne, ne_eq,
              not_or, Bool.not_eq_false, Decidable.not_not] at hcond
            obtain ⟨⟨hsa, hsb⟩, hsup⟩ := hcond
            cases hka : na.kind <;> cases hkb : nb.kind <;> simp only [hka, hkb] at hok <;>
              try (exact absurd hok Bool.false_ne_true)
            · -- str, str
              exact case_term hs₁ hs₂ hb hP ha hgb hsa hsb hsup (Or.inl hka) (by rw [hka, hkb])
                (Or.inr (by simpa using hok))
            · -- re, re
              exact case_term hs₁ hs₂ hb hP ha hgb hsa hsb hsup (Or.inr (Or.inl hka)) (by rw [hka, hkb])
                (Or.inr (by simpa using hok))
            · -- re, choice
              simp only [Bool.and_eq_true, Bool.not_eq_true', List.contains_iff_mem] at hok
              obtain ⟨⟨hsupa, hnon⟩, hrest⟩ := hok
              cases hts : reToks s₂ H d nb.kids with
              | none => simp [hts] at hrest
              | some l => cases l with
                | nil => simp [hts] at hrest
                | cons t ts =>
                  simp only [hts] at hrest
                  exact case_re_choice hs₁ hs₂ hb hP ha hgb hsa hsb hsupa (by rw [← hsup]; exact hsupa)
                    hka hkb hnon hts hrest
            · -- eof, eof
              exact case_term hs₁ hs₂ hb hP ha hgb hsa hsb hsup (Or.inr (Or.inr hka)) (by rw [hka, hkb])
                (Or.inl hka)
            · -- choice, re
              simp only [Bool.and_eq_true, Bool.not_eq_true', List.contains_iff_mem] at hok
              obtain ⟨⟨hsupa, hnon⟩, hrest⟩ := hok
              cases hts : reToks s₁ H d na.kids with
              | none => simp [hts] at hrest
              | some l => cases l with
                | nil => simp [hts] at hrest
                | cons t ts =>
                  simp only [hts] at hrest
                  exact case_choice_re hs₁ hs₂ hb hP ha hgb hsa hsb hsupa (by rw [← hsup]; exact hsupa)
                    hka hkb hnon hts hrest
            · -- choice, choice
              exact case_choice hs₁ ha hgb hsa hsb hsup hka hkb (allPairs_tr hs₁ hs₂ hP _ _ hok)
            · -- opt, opt
              exact case_opt hs₁ ha hgb hsa hsb hsup hka hkb (allPairs_tr hs₁ hs₂ hP _ _ hok)
            · -- star, star
              simp only [Bool.and_eq_true] at hok
              exact case_rep hs₁ ha hgb hsa hsb hsup (Or.inl hka) (by rw [hka, hkb])
                (allPairs_tr hs₁ hs₂ hP _ _ hok.1) (sep_tr hs₁ hs₂ hP hok.2)
            · -- plus, plus
              simp only [Bool.and_eq_true] at hok
              exact case_rep hs₁ ha hgb hsa hsb hsup (Or.inr hka) (by rw [hka, hkb])
                (allPairs_tr hs₁ hs₂ hP _ _ hok.1) (sep_tr hs₁ hs₂ hP hok.2)

/-- the invariant holds for every fuel -/
theorem sim_all (hs₁ : s₁.Ok H L) (hs₂ : s₂.Ok H L) (hb : Base s₁ s₂ d R)
    (hpairs : ∀ a, a < s₁.g.size → ∀ b, b ∈ R a → okPair s₁ s₂ H d R a b = true) :
    ∀ N, P s₁ s₂ L R N := by
  intro N
  induction N with
  | zero =>
    intro a b _ _ k hk c p hne
    have : k = 0 := by omega
    subst this
    simp [parse] at hne
  | succ n ih =>
    intro a b ha hbR k hk c p hne
    by_cases hkn : k ≤ n
    · exact ih a b ha hbR k hkn c p hne
    · have : k = n + 1 := by omega
      subst this
      exact okPair_goal hs₁ hs₂ hb ih (hpairs a ha b hbR) c p hne

end cases

theorem check_base {s₁ s₂ : Side} {H : Hyps} {d : Nat} {R : Rel} (h : check s₁ s₂ H d R = true) :
    Base s₁ s₂ d R ∧ inR s₁ s₂ d R s₁.g.top s₂.g.top = true ∧
      ∀ a, a < s₁.g.size → ∀ b, b ∈ R a → okPair s₁ s₂ H d R a b = true := by
  simp only [check, Bool.and_eq_true, beq_iff_eq, List.all_eq_true, List.mem_range] at h
  obtain ⟨⟨⟨⟨hws, hsk⟩, hcom⟩, htop⟩, hall⟩ := h
  refine ⟨⟨hws, hsk, ?_⟩, htop, hall⟩
  cases h1 : s₁.g.comments <;> cases h2 : s₂.g.comments <;> simp_all

/-- **Soundness of the checker.**  If the shape tables are inductive, `check` accepts the candidate
relation and the lexer satisfies the hypotheses, then every pair `(x, y)` accepted by `inR`
(in particular the two top nodes) is in simulation: each result of `x` in graph `s₁.g`, computed
with whatever fuel, is the result of `y` in graph `s₂.g` for all sufficiently large fuel. -/
theorem sim_sound {s₁ s₂ : Side} {H : Hyps} {d : Nat} {R : Rel} {L : Lex}
    (hwf₁ : wfSh s₁.g H s₁.sh = true) (hwf₂ : wfSh s₂.g H s₂.sh = true)
    (hchk : check s₁ s₂ H d R = true) (hL : LexOk H L) {x y : Nat} (hxy : inR s₁ s₂ d R x y = true) :
    ∀ n c p, parse s₁.g L n x c p ≠ .fuel →
      ∃ m₀, ∀ m, m₀ ≤ m → parse s₂.g L m y c p = parse s₁.g L n x c p := by
  intro n c p hne
  obtain ⟨hb, _, hpairs⟩ := check_base hchk
  have hs₁ : s₁.Ok H L := ⟨hwf₁, hL⟩
  have hs₂ : s₂.Ok H L := ⟨hwf₂, hL⟩
  exact inR_tr hs₁ hs₂ (sim_all hs₁ hs₂ hb hpairs n) hxy n (Nat.le_refl n) c p hne

end Rec
