import TextxVerif.Proofs.RecShape
/-! Soundness of the simulation checker `Rec.check` (C24). -/
namespace Rec
open Peg (Node Kind)

/-- a well-formed side: graph with an inductive shape table, under lexer hypotheses -/
structure Side.Ok (s : Side) (H : Hyps) (L : Lex) : Prop where
  wf : wfSh s.g H s.sh = true
  lex : LexOk H L

theorem Side.Ok.shape {s : Side} {H : Hyps} {L : Lex} (h : s.Ok H L) {n a c p v q}
    (hp : parse s.g L n a c p = .ok v q) : v ∈ shOf s.sh a ∧ NET v :=
  shapes_sound h.wf h.lex n a c p v q hp

theorem transparent_iff {nd : Node} (h : transparentSeq nd = true) :
    nd.kind = .seq ∧ supported nd = true ∧ nd.suppress = false := by
  simp only [transparentSeq, Bool.and_eq_true, beq_iff_eq, Bool.not_eq_true'] at h
  exact ⟨h.1.1, h.1.2, h.2⟩

/-- what a plain sequence computes -/
def seqRes : Res → Res
  | .ok acc p => .ok (if acc = .E then .N else acc) p
  | r => r

theorem parse_seq {g : Graph} {L : Lex} {n a c p} {nd : Node} (hnd : g.get a = some nd)
    (ht : transparentSeq nd = true) :
    parse g L (n+1) a c p = finish nd (seqRes (seqLoop (fun e q => parse g L n e c q) nd.kids p .E)) := by
  obtain ⟨hk, hs, _⟩ := transparent_iff ht
  rw [parse]
  simp only [hnd, hs, Bool.not_true, Bool.false_eq_true, if_false, hk]
  rfl

theorem finish_plain {nd : Node} (hs : nd.suppress = false) {v : Sh} (hv : NET v) {p : Nat} :
    finish nd (.ok v p) = .ok v p := by
  rw [finish_ok hv]; simp [hs]

/-- one peeling step is an identity on results -/
theorem peel_step {s : Side} {H : Hyps} {L : Lex} (hs : s.Ok H L) {a x : Nat} {nd : Node}
    (hnd : s.g.get a = some nd) (ht : transparentSeq nd = true) (hk : nd.kids = [x])
    (hx : sub (shOf s.sh x) [.N, .T] = true) (n : Nat) (c : Bool) (p : Nat) :
    parse s.g L (n+1) a c p = parse s.g L n x c p := by
  rw [parse_seq hnd ht, hk]
  obtain ⟨_, _, hsup⟩ := transparent_iff ht
  simp only [seqLoop]
  cases hp : parse s.g L n x c p with
  | ok v q =>
    have hm := (hs.shape hp).1
    have := sub_mem hx hm
    simp only [List.mem_cons, List.mem_nil_iff, or_false] at this
    rcases this with hv | hv <;> subst hv
    · simp only [Sh.add, seqRes, if_true]; exact finish_plain hsup (Or.inl rfl)
    · simp only [Sh.add, seqRes]
      have : (Sh.T = Sh.E) = False := by simp
      simp only [this, if_false]
      exact finish_plain hsup (Or.inr (Or.inr rfl))
  | fail => simp [seqRes, finish]
  | fuel => simp [seqRes, finish]
  | bad => simp [seqRes, finish]

theorem peel_down {s : Side} {H : Hyps} {L : Lex} (hs : s.Ok H L) :
    ∀ d n a c p, parse s.g L n a c p ≠ .fuel → parse s.g L n (peel s d a) c p = parse s.g L n a c p := by
  intro d
  induction d with
  | zero => intro n a c p _; rfl
  | succ d ih =>
    intro n a c p hne
    simp only [peel]
    cases hnd : s.g.get a with
    | none => rfl
    | some nd =>
      simp only
      by_cases ht : transparentSeq nd = true
      · simp only [ht, if_true]
        cases hk : nd.kids with
        | nil => rfl
        | cons x xs =>
          cases xs with
          | cons _ _ => rfl
          | nil =>
            simp only
            by_cases hx : sub (shOf s.sh x) [.N, .T] = true
            · simp only [hx, if_true]
              cases n with
              | zero => simp [parse] at hne
              | succ n =>
                have hstep := peel_step hs hnd ht hk hx n c p
                have hne' : parse s.g L n x c p ≠ .fuel := by rw [← hstep]; exact hne
                have hup : parse s.g L (n+1) x c p = parse s.g L n x c p :=
                  parse_mono s.g L n (n+1) x c p (by omega) hne'
                rw [ih (n+1) x c p (by rw [hup]; exact hne'), hup, hstep]
            · simp only [hx]; rfl
      · simp only [ht]; rfl

theorem peel_up {s : Side} {H : Hyps} {L : Lex} (hs : s.Ok H L) :
    ∀ d n a c p, parse s.g L n (peel s d a) c p ≠ .fuel →
      ∃ m, parse s.g L m a c p = parse s.g L n (peel s d a) c p := by
  intro d
  induction d with
  | zero => intro n a c p _; exact ⟨n, rfl⟩
  | succ d ih =>
    intro n a c p hne
    simp only [peel] at hne ⊢
    cases hnd : s.g.get a with
    | none => simp only [hnd] at hne ⊢; exact ⟨n, rfl⟩
    | some nd =>
      simp only [hnd] at hne ⊢
      by_cases ht : transparentSeq nd = true
      · simp only [ht, if_true] at hne ⊢
        cases hk : nd.kids with
        | nil => simp only [hk] at hne ⊢; exact ⟨n, rfl⟩
        | cons x xs =>
          cases xs with
          | cons _ _ => simp only [hk] at hne ⊢; exact ⟨n, rfl⟩
          | nil =>
            simp only [hk] at hne ⊢
            by_cases hx : sub (shOf s.sh x) [.N, .T] = true
            · simp only [hx, if_true] at hne ⊢
              obtain ⟨m, hm⟩ := ih n x c p hne
              exact ⟨m+1, by rw [peel_step hs hnd ht hk hx m c p, hm]⟩
            · simp only [hx] at hne ⊢; exact ⟨n, rfl⟩
      · simp only [ht] at hne ⊢; exact ⟨n, rfl⟩

/-! ### sequence loop algebra -/

theorem Sh.add_assoc (a x y : Sh) : a.add (x.add y) = (a.add x).add y := by
  cases a <;> cases x <;> cases y <;> rfl

theorem seqLoop_append (f : Nat → Nat → Res) :
    ∀ ks xs p acc, seqLoop f (ks ++ xs) p acc =
      match seqLoop f ks p acc with
      | .ok a p' => seqLoop f xs p' a
      | r => r := by
  intro ks
  induction ks with
  | nil => intro xs p acc; simp [seqLoop]
  | cons k ks ih =>
    intro xs p acc
    simp only [List.cons_append, seqLoop]
    cases f k p with
    | ok v p1 => simp only; exact ih xs p1 _
    | fail => rfl
    | fuel => rfl
    | bad => rfl

/-- starting from accumulator `acc` instead of `E` just adds `acc` to the result -/
theorem seqLoop_acc (f : Nat → Nat → Res) :
    ∀ ks p acc, seqLoop f ks p acc =
      match seqLoop f ks p .E with
      | .ok a p' => .ok (acc.add a) p'
      | r => r := by
  intro ks
  induction ks with
  | nil => intro p acc; simp only [seqLoop]; cases acc <;> rfl
  | cons k ks ih =>
    intro p acc
    simp only [seqLoop]
    cases f k p with
    | ok v p1 =>
      simp only
      rw [ih p1 (acc.add v), ih p1 (Sh.E.add v)]
      cases seqLoop f ks p1 .E with
      | ok a p' =>
        simp only
        congr 1
        cases acc <;> cases v <;> cases a <;> rfl
      | fail => rfl
      | fuel => rfl
      | bad => rfl
    | fail => rfl
    | fuel => rfl
    | bad => rfl

theorem seqLoop_congr {f f' : Nat → Nat → Res} (h : ∀ e p, f e p ≠ .fuel → f' e p = f e p) :
    ∀ es p acc, seqLoop f es p acc ≠ .fuel → seqLoop f' es p acc = seqLoop f es p acc :=
  seqLoop_mono h

/-- value of a plain sequence whose loop ended with accumulator `a` -/
theorem seq_val {s : Side} {H : Hyps} {L : Lex} (hs : s.Ok H L) {x : Nat} {nx : Node}
    (hnd : s.g.get x = some nx) (ht : transparentSeq nx = true) {n : Nat} {c : Bool} {p p' : Nat} {a : Sh}
    (hin : seqLoop (fun e q => parse s.g L n e c q) nx.kids p .E = .ok a p') :
    ∃ w, parse s.g L (n+1) x c p = .ok w p' ∧ ∀ acc : Sh, acc.add w = acc.add a := by
  have hp := parse_seq (L := L) (n := n) (c := c) (p := p) hnd ht
  rw [hin] at hp
  simp only [seqRes] at hp
  obtain ⟨_, _, hsup⟩ := transparent_iff ht
  simp only [finish, hsup, Bool.false_eq_true, if_false] at hp
  have hnet := (hs.shape hp).2
  by_cases hE : a = .E
  · subst hE
    simp only [if_true] at hp hnet
    have : (Sh.N = Sh.H) = False := by simp
    simp [this] at hp
    exact ⟨.N, hp, fun acc => by cases acc <;> rfl⟩
  · simp only [hE, if_false] at hp hnet
    by_cases hH : a = .H
    · subst hH
      exfalso
      by_cases hr : nx.root = true
      · simp [hr, NET] at hnet
      · simp [hr, NET] at hnet
    · simp [hH] at hp
      exact ⟨a, hp, fun _ => rfl⟩

theorem inline_down {s : Side} {H : Hyps} {L : Lex} (hs : s.Ok H L) {x : Nat} {nx : Node}
    (hnd : s.g.get x = some nx) (ht : transparentSeq nx = true) (N : Nat) (c : Bool) (xs : List Nat)
    (p : Nat) (acc : Sh)
    (hne : seqLoop (fun e q => parse s.g L N e c q) (x :: xs) p acc ≠ .fuel) :
    seqLoop (fun e q => parse s.g L N e c q) (nx.kids ++ xs) p acc =
      seqLoop (fun e q => parse s.g L N e c q) (x :: xs) p acc := by
  cases N with
  | zero => simp [seqLoop, parse] at hne
  | succ n =>
    have hp := parse_seq (L := L) (n := n) (c := c) (p := p) hnd ht
    have hx : parse s.g L (n+1) x c p ≠ .fuel := by
      intro h; simp only [seqLoop, h] at hne; exact hne rfl
    have hin : seqLoop (fun e q => parse s.g L n e c q) nx.kids p .E ≠ .fuel := by
      intro h; rw [hp, h] at hx; simp [seqRes, finish] at hx
    have hlift : seqLoop (fun e q => parse s.g L (n+1) e c q) nx.kids p .E =
        seqLoop (fun e q => parse s.g L n e c q) nx.kids p .E :=
      seqLoop_mono (fun e q h => parse_mono s.g L n (n+1) e c q (by omega) h) nx.kids p .E hin
    rw [seqLoop_append, seqLoop_acc _ nx.kids p acc, hlift]
    cases hinner : seqLoop (fun e q => parse s.g L n e c q) nx.kids p .E with
    | ok a p' =>
      obtain ⟨w, hw, hadd⟩ := seq_val hs hnd ht hinner
      simp only [seqLoop, hw, hadd acc]
    | fail =>
      rw [hinner] at hp
      simp only [seqLoop, hp, seqRes, finish]
    | bad =>
      rw [hinner] at hp
      simp only [seqLoop, hp, seqRes, finish]
    | fuel => exact absurd hinner hin

theorem inline_up {s : Side} {H : Hyps} {L : Lex} (hs : s.Ok H L) {x : Nat} {nx : Node}
    (hnd : s.g.get x = some nx) (ht : transparentSeq nx = true) (m : Nat) (c : Bool) (xs : List Nat)
    (p : Nat) (acc : Sh)
    (hne : seqLoop (fun e q => parse s.g L m e c q) (nx.kids ++ xs) p acc ≠ .fuel) :
    seqLoop (fun e q => parse s.g L (m+1) e c q) (x :: xs) p acc =
      seqLoop (fun e q => parse s.g L m e c q) (nx.kids ++ xs) p acc := by
  have hp := parse_seq (L := L) (n := m) (c := c) (p := p) hnd ht
  rw [seqLoop_append, seqLoop_acc _ nx.kids p acc] at hne ⊢
  cases hinner : seqLoop (fun e q => parse s.g L m e c q) nx.kids p .E with
  | ok a p' =>
    rw [hinner] at hne
    simp only at hne ⊢
    obtain ⟨w, hw, hadd⟩ := seq_val hs hnd ht hinner
    simp only [seqLoop, hw, hadd acc]
    exact seqLoop_mono (fun e q h => parse_mono s.g L m (m+1) e c q (by omega) h) xs p' _ hne
  | fail =>
    rw [hinner] at hp
    simp only [seqLoop, hp, seqRes, finish]
  | bad =>
    rw [hinner] at hp
    simp only [seqLoop, hp, seqRes, finish]
  | fuel => rw [hinner] at hne; exact absurd rfl hne

/-! ### unfolding lemmas for the node kinds used by the `sep` rules -/

theorem starSepBody_some {g : Graph} {st s x' : Nat} (h : starSepBody g st = some (s, x')) :
    ∃ nst b nb, g.get st = some nst ∧ nst.kind = .star ∧ supported nst = true ∧ nst.suppress = false ∧
      nst.sep = none ∧ nst.kids = [b] ∧ g.get b = some nb ∧ transparentSeq nb = true ∧ nb.kids = [s, x'] := by
  unfold starSepBody at h
  cases hst : g.get st with
  | none => simp [hst] at h
  | some nst =>
    simp only [hst] at h
    by_cases hc : (nst.kind == .star && supported nst && !nst.suppress && nst.sep.isNone) = true
    · simp only [hc, if_true] at h
      simp only [Bool.and_eq_true, beq_iff_eq, Bool.not_eq_true', Option.isNone_iff_eq_none] at hc
      obtain ⟨⟨⟨hk, hsup⟩, hsp⟩, hsep⟩ := hc
      cases hkids : nst.kids with
      | nil => simp [hkids] at h
      | cons b bs =>
        cases bs with
        | cons _ _ => simp [hkids] at h
        | nil =>
          simp only [hkids] at h
          cases hb : g.get b with
          | none => simp [hb] at h
          | some nb =>
            simp only [hb] at h
            by_cases ht : transparentSeq nb = true
            · simp only [ht, if_true] at h
              cases hbk : nb.kids with
              | nil => simp [hbk] at h
              | cons k1 ks =>
                cases ks with
                | nil => simp [hbk] at h
                | cons k2 ks2 =>
                  cases ks2 with
                  | cons _ _ => simp [hbk] at h
                  | nil =>
                    simp only [hbk, Option.some.injEq, Prod.mk.injEq] at h
                    obtain ⟨rfl, rfl⟩ := h
                    exact ⟨nst, b, nb, rfl, hk, hsup, hsp, hsep, hkids, hb, ht, hbk⟩
            · simp [ht] at h
    · simp [hc] at h

theorem plusSep_some {g : Graph} {y z t : Nat} (h : plusSep g y = some (z, t)) :
    ∃ ny, g.get y = some ny ∧ ny.kind = .plus ∧ supported ny = true ∧ ny.suppress = false ∧
      ny.kids = [z] ∧ ny.sep = some t := by
  unfold plusSep at h
  cases hy : g.get y with
  | none => simp [hy] at h
  | some ny =>
    simp only [hy] at h
    by_cases hc : (ny.kind == .plus && supported ny && !ny.suppress) = true
    · simp only [hc, if_true] at h
      simp only [Bool.and_eq_true, beq_iff_eq, Bool.not_eq_true'] at hc
      obtain ⟨⟨hk, hsup⟩, hsp⟩ := hc
      cases hkids : ny.kids with
      | nil => simp [hkids] at h
      | cons z' zs =>
        cases zs with
        | cons _ _ => simp [hkids] at h
        | nil =>
          cases hsep : ny.sep with
          | none => simp [hkids, hsep] at h
          | some t' =>
            simp only [hkids, hsep, Option.some.injEq, Prod.mk.injEq] at h
            obtain ⟨rfl, rfl⟩ := h
            exact ⟨ny, rfl, hk, hsup, hsp, hkids, hsep⟩
    · simp [hc] at h

theorem parse_star {g : Graph} {L : Lex} {n a c p} {nd : Node} {k : Nat} (hnd : g.get a = some nd)
    (hk : nd.kind = .star) (hs : supported nd = true) (hkids : nd.kids = [k]) :
    parse g L (n+1) a c p = finish nd (repLoop (fun q => parse g L n k c q)
      (nd.sep.map fun s q => parse g L n s c q) n p .E false false) := by
  rw [parse]
  simp only [hnd, hs, Bool.not_true, Bool.false_eq_true, if_false, hk, hkids]

theorem parse_plus {g : Graph} {L : Lex} {n a c p} {nd : Node} {k : Nat} (hnd : g.get a = some nd)
    (hk : nd.kind = .plus) (hs : supported nd = true) (hkids : nd.kids = [k]) :
    parse g L (n+1) a c p = finish nd (repLoop (fun q => parse g L n k c q)
      (nd.sep.map fun s q => parse g L n s c q) n p .E true false) := by
  rw [parse]
  simp only [hnd, hs, Bool.not_true, Bool.false_eq_true, if_false, hk, hkids]

theorem onlyT_val {s : Side} {H : Hyps} {L : Lex} (hs : s.Ok H L) {x : Nat} (hx : onlyT s.sh x = true)
    {n c p v q} (hp : parse s.g L n x c p = .ok v q) : v = .T := by
  have := sub_mem hx (hs.shape hp).1
  simpa using this

/-- a result of a whole node that is `ok` survives `finish` unchanged when the node is not suppressed -/
theorem finish_of_shape {s : Side} {L : Lex} {a : Nat} {nd : Node}
    (hsup : nd.suppress = false) {n c p} {pre : Res} (hp : parse s.g L n a c p = finish nd pre)
    {v : Sh} {q : Nat} (hpre : pre = .ok v q) (hv : v ≠ .H) : parse s.g L n a c p = .ok v q := by
  rw [hp, hpre]
  simp [finish, hsup, hv]

/-- body `Sequence[s, x']` of the star in `x (s x')*`, when `s`, `x'` only yield truthy results -/
theorem body_eval {s₁ : Side} {H : Hyps} {L : Lex} (hs : s₁.Ok H L) {b s x' : Nat} {nb : Node}
    (hb : s₁.g.get b = some nb) (ht : transparentSeq nb = true) (hk : nb.kids = [s, x'])
    (hS : onlyT s₁.sh s = true) (hX : onlyT s₁.sh x' = true) (n : Nat) (c : Bool) (q : Nat) :
    parse s₁.g L (n+1) b c q =
      match parse s₁.g L n s c q with
      | .ok _ q1 =>
        (match parse s₁.g L n x' c q1 with
         | .ok _ q2 => .ok .T q2
         | r => r)
      | r => r := by
  obtain ⟨_, _, hsup⟩ := transparent_iff ht
  rw [parse_seq hb ht, hk]
  simp only [seqLoop]
  cases h1 : parse s₁.g L n s c q with
  | ok v q1 =>
    have hv := onlyT_val hs hS h1
    subst hv
    simp only
    cases h2 : parse s₁.g L n x' c q1 with
    | ok w q2 =>
      have hw := onlyT_val hs hX h2
      subst hw
      simp [Sh.add, seqRes, finish, hsup]
    | fail => simp [seqRes, finish]
    | fuel => simp [seqRes, finish]
    | bad => simp [seqRes, finish]
  | fail => simp [seqRes, finish]
  | fuel => simp [seqRes, finish]
  | bad => simp [seqRes, finish]

/-! ### transfer of results between the two graphs -/

/-- every result (other than `.fuel`) of node `x` of `s₁` computed with fuel `≤ N` is the result
of node `y` of `s₂` for all sufficiently large fuel -/
def Tr (s₁ s₂ : Side) (L : Lex) (N x y : Nat) : Prop :=
  ∀ k, k ≤ N → ∀ c p, parse s₁.g L k x c p ≠ .fuel →
    ∃ m₀, ∀ m, m₀ ≤ m → parse s₂.g L m y c p = parse s₁.g L k x c p

theorem Tr.mono {s₁ s₂ : Side} {L : Lex} {N N' x y : Nat} (h : Tr s₁ s₂ L N x y) (hle : N' ≤ N) :
    Tr s₁ s₂ L N' x y := fun k hk => h k (by omega)

theorem ev_of_ex {g : Graph} {L : Lex} {m a c p} {r : Res} (h : parse g L m a c p = r) (hr : r ≠ .fuel) :
    ∀ m', m ≤ m' → parse g L m' a c p = r := by
  intro m' hle
  rw [parse_mono g L m m' a c p hle (by rw [h]; exact hr), h]

theorem T_add (w : Sh) : Sh.T.add w = .T := by cases w <;> rfl
theorem add_T (a : Sh) : a.add .T = .T := by cases a <;> rfl

/-- left result of the star loop in `x (s x')*` ↦ result of the remaining plus-with-separator loop -/
def starToPlus : Res → Res
  | .ok _ p => .ok .T p
  | r => r

theorem sepA_loop {s₁ s₂ : Side} {H : Hyps} {L : Lex} (hs : s₁.Ok H L) {b s x' z t : Nat} {nb : Node}
    (hb : s₁.g.get b = some nb) (ht : transparentSeq nb = true) (hk : nb.kids = [s, x'])
    (hS : onlyT s₁.sh s = true) (hX : onlyT s₁.sh x' = true) {N : Nat}
    (trS : Tr s₁ s₂ L N s t) (trX : Tr s₁ s₂ L N x' z) (n : Nat) (hn : n ≤ N) (c : Bool) :
    ∀ j q accL prevL,
      repLoop (fun q => parse s₁.g L n b c q) none j q accL false prevL ≠ .fuel →
      ∃ m₀, ∀ m, m₀ ≤ m → ∀ j', j ≤ j' →
        repLoop (fun q => parse s₂.g L m z c q) (some fun q => parse s₂.g L m t c q) j' q .T false true =
          starToPlus (repLoop (fun q => parse s₁.g L n b c q) none j q accL false prevL) := by
  intro j
  induction j with
  | zero => intro q accL prevL h; simp [repLoop] at h
  | succ j ih =>
    intro q accL prevL hne
    cases n with
    | zero => simp [repLoop, sepStep, parse] at hne
    | succ n' =>
      simp only [repLoop, sepStep] at hne ⊢
      rw [body_eval hs hb ht hk hS hX n' c q] at hne ⊢
      cases h1 : parse s₁.g L n' s c q with
      | ok v q1 =>
        have hv := onlyT_val hs hS h1
        subst hv
        rw [h1] at hne
        simp only at hne ⊢
        obtain ⟨m1, hm1⟩ := trS n' (by omega) c q (by rw [h1]; simp)
        rw [h1] at hm1
        cases h2 : parse s₁.g L n' x' c q1 with
        | ok w q2 =>
          have hw := onlyT_val hs hX h2
          subst hw
          rw [h2] at hne
          simp only [Sh.truthy, if_true] at hne ⊢
          obtain ⟨m2, hm2⟩ := trX n' (by omega) c q1 (by rw [h2]; simp)
          rw [h2] at hm2
          obtain ⟨m3, hm3⟩ := ih q2 (accL.add .T) true hne
          refine ⟨max m1 (max m2 m3), fun m hm j' hj' => ?_⟩
          obtain ⟨j'', rfl⟩ : ∃ j'', j' = j'' + 1 := ⟨j' - 1, by omega⟩
          simp only [repLoop, sepStep, if_true, hm1 m (by omega), hm2 m (by omega), Sh.truthy, T_add]
          exact hm3 m (by omega) j'' (by omega)
        | fail =>
          rw [h2] at hne
          obtain ⟨m2, hm2⟩ := trX n' (by omega) c q1 (by rw [h2]; simp)
          rw [h2] at hm2
          refine ⟨max m1 m2, fun m hm j' hj' => ?_⟩
          obtain ⟨j'', rfl⟩ : ∃ j'', j' = j'' + 1 := ⟨j' - 1, by omega⟩
          simp [repLoop, sepStep, hm1 m (by omega), hm2 m (by omega), starToPlus, T_add]
        | bad =>
          rw [h2] at hne
          obtain ⟨m2, hm2⟩ := trX n' (by omega) c q1 (by rw [h2]; simp)
          rw [h2] at hm2
          refine ⟨max m1 m2, fun m hm j' hj' => ?_⟩
          obtain ⟨j'', rfl⟩ : ∃ j'', j' = j'' + 1 := ⟨j' - 1, by omega⟩
          simp [repLoop, sepStep, hm1 m (by omega), hm2 m (by omega), starToPlus, T_add]
        | fuel => rw [h2] at hne; simp at hne
      | fail =>
        rw [h1] at hne
        obtain ⟨m1, hm1⟩ := trS n' (by omega) c q (by rw [h1]; simp)
        rw [h1] at hm1
        refine ⟨m1, fun m hm j' hj' => ?_⟩
        obtain ⟨j'', rfl⟩ : ∃ j'', j' = j'' + 1 := ⟨j' - 1, by omega⟩
        simp [repLoop, sepStep, hm1 m (by omega), starToPlus]
      | bad =>
        rw [h1] at hne
        obtain ⟨m1, hm1⟩ := trS n' (by omega) c q (by rw [h1]; simp)
        rw [h1] at hm1
        refine ⟨m1, fun m hm j' hj' => ?_⟩
        obtain ⟨j'', rfl⟩ : ∃ j'', j' = j'' + 1 := ⟨j' - 1, by omega⟩
        simp [repLoop, sepStep, hm1 m (by omega), starToPlus]
      | fuel => rw [h1] at hne; simp at hne

/-- one element of a sequence loop -/
def step1 (f : Nat → Nat → Res) (y p : Nat) (acc : Sh) : Res :=
  match f y p with
  | .ok v p1 => .ok (acc.add v) p1
  | r => r

/-- two consecutive elements of a sequence loop -/
def step2 (f : Nat → Nat → Res) (x st p : Nat) (acc : Sh) : Res :=
  match f x p with
  | .ok v p1 =>
    (match f st p1 with
     | .ok w p2 => .ok ((acc.add v).add w) p2
     | r => r)
  | r => r

theorem seqLoop_cons1 (f : Nat → Nat → Res) (y : Nat) (ys : List Nat) (p : Nat) (acc : Sh) :
    seqLoop f (y :: ys) p acc =
      match step1 f y p acc with
      | .ok a p1 => seqLoop f ys p1 a
      | r => r := by
  simp only [seqLoop, step1]
  cases f y p <;> rfl

theorem seqLoop_cons2 (f : Nat → Nat → Res) (x st : Nat) (xs : List Nat) (p : Nat) (acc : Sh) :
    seqLoop f (x :: st :: xs) p acc =
      match step2 f x st p acc with
      | .ok a p2 => seqLoop f xs p2 a
      | r => r := by
  simp only [seqLoop, step2]
  cases f x p with
  | ok v p1 => simp only; cases f st p1 <;> rfl
  | fail => rfl
  | fuel => rfl
  | bad => rfl

/-- results of `peel y` lift to `y` for all large fuel -/
theorem peel_ev {s : Side} {H : Hyps} {L : Lex} (hs : s.Ok H L) {d m y c p} {r : Res}
    (h : parse s.g L m (peel s d y) c p = r) (hr : r ≠ .fuel) :
    ∃ m₀, ∀ m', m₀ ≤ m' → parse s.g L m' y c p = r := by
  obtain ⟨m1, hm1⟩ := peel_up hs d m y c p (by rw [h]; exact hr)
  rw [h] at hm1
  exact ⟨m1, ev_of_ex hm1 hr⟩

theorem sepA_step {s₁ s₂ : Side} {H : Hyps} {L : Lex} (hs₁ : s₁.Ok H L) (hs₂ : s₂.Ok H L) {d : Nat}
    {x st y s x' z t : Nat} (hst : starSepBody s₁.g st = some (s, x'))
    (hpl : plusSep s₂.g (peel s₂ d y) = some (z, t))
    (hx : onlyT s₁.sh x = true) (hX : onlyT s₁.sh x' = true) (hS : onlyT s₁.sh s = true) {N : Nat}
    (trx : Tr s₁ s₂ L N x z) (trX : Tr s₁ s₂ L N x' z) (trS : Tr s₁ s₂ L N s t)
    (c : Bool) (p : Nat) (acc : Sh)
    (hne : step2 (fun e q => parse s₁.g L N e c q) x st p acc ≠ .fuel) :
    ∃ m₀, ∀ m, m₀ ≤ m →
      step1 (fun e q => parse s₂.g L m e c q) y p acc = step2 (fun e q => parse s₁.g L N e c q) x st p acc := by
  obtain ⟨nst, b, nb, hgst, hkst, hsupst, hsst, hsepst, hkidsst, hb, htb, hkb⟩ := starSepBody_some hst
  obtain ⟨ny, hgy, hky, hsupy, hsy, hkidsy, hsepy⟩ := plusSep_some hpl
  -- it suffices to produce the result at `peel y`
  suffices hsuff : ∃ m₁ r, r ≠ .fuel ∧ parse s₂.g L m₁ (peel s₂ d y) c p = r ∧
      (match r with | .ok v p1 => Res.ok (acc.add v) p1 | r => r) =
        step2 (fun e q => parse s₁.g L N e c q) x st p acc by
    obtain ⟨m₁, r, hr, hpy, heq⟩ := hsuff
    obtain ⟨m₀, hm₀⟩ := peel_ev hs₂ hpy hr
    exact ⟨m₀, fun m hm => by simp only [step1, hm₀ m hm]; exact heq⟩
  simp only [step2] at hne ⊢
  cases hrx : parse s₁.g L N x c p with
  | ok v p1 =>
    have hv := onlyT_val hs₁ hx hrx
    subst hv
    rw [hrx] at hne
    simp only at hne ⊢
    obtain ⟨mx, hmx⟩ := trx N (Nat.le_refl N) c p (by rw [hrx]; simp)
    rw [hrx] at hmx
    cases N with
    | zero => simp [parse] at hne
    | succ n =>
      have hpst := parse_star (L := L) (n := n) (c := c) (p := p1) hgst hkst hsupst hkidsst
      simp only [hsepst, Option.map] at hpst
      have hloopne : repLoop (fun q => parse s₁.g L n b c q) none n p1 .E false false ≠ .fuel := by
        intro h; rw [hpst, h] at hne; simp [finish] at hne
      obtain ⟨ml, hml⟩ := sepA_loop hs₁ hb htb hkb hS hX trS trX n (by omega) c n p1 .E false hloopne
      -- right: the plus node at fuel M+2
      let M := max (max mx ml) n
      have hppl := parse_plus (L := L) (n := M+1) (c := c) (p := p) hgy hky hsupy hkidsy
      simp only [hsepy, Option.map] at hppl
      have hfirst : repLoop (fun q => parse s₂.g L (M+1) z c q) (some fun q => parse s₂.g L (M+1) t c q) (M+1) p .E true false =
          repLoop (fun q => parse s₂.g L (M+1) z c q) (some fun q => parse s₂.g L (M+1) t c q) M p1 .T false true := by
        simp only [repLoop, sepStep, Bool.false_eq_true, if_false]
        rw [hmx (M+1) (by omega)]
        simp [Sh.truthy, Sh.add]
      have hloop := hml (M+1) (by omega) M (by omega)
      rw [hfirst, hloop] at hppl
      cases hl : repLoop (fun q => parse s₁.g L n b c q) none n p1 .E false false with
      | ok w p2 =>
        rw [hl] at hpst hppl
        simp only [starToPlus] at hppl
        have hR : parse s₂.g L (M+1+1) (peel s₂ d y) c p = .ok .T p2 := by
          rw [hppl]; simp [finish, hsy]
        refine ⟨M+1+1, .ok .T p2, by simp, hR, ?_⟩
        rw [hpst]
        simp only [finish, add_T, T_add]
      | fail =>
        rw [hl] at hpst hppl
        simp only [starToPlus, finish] at hppl hpst
        exact ⟨M+1+1, .fail, by simp, hppl, by rw [hpst]⟩
      | bad =>
        rw [hl] at hpst hppl
        simp only [starToPlus, finish] at hppl hpst
        exact ⟨M+1+1, .bad, by simp, hppl, by rw [hpst]⟩
      | fuel => exact absurd hl hloopne
  | fail =>
    obtain ⟨mx, hmx⟩ := trx N (Nat.le_refl N) c p (by rw [hrx]; simp)
    rw [hrx] at hmx
    let M := mx + 1
    have hppl := parse_plus (L := L) (n := M) (c := c) (p := p) hgy hky hsupy hkidsy
    simp only [hsepy, Option.map] at hppl
    have : repLoop (fun q => parse s₂.g L M z c q) (some fun q => parse s₂.g L M t c q) M p .E true false = .fail := by
      show repLoop _ _ (mx + 1) p .E true false = .fail
      simp only [repLoop, sepStep, Bool.false_eq_true, if_false]
      rw [hmx (mx+1) (by omega)]
      simp
    rw [this] at hppl
    simp only [finish] at hppl
    exact ⟨M+1, .fail, by simp, hppl, rfl⟩
  | bad =>
    obtain ⟨mx, hmx⟩ := trx N (Nat.le_refl N) c p (by rw [hrx]; simp)
    rw [hrx] at hmx
    let M := mx + 1
    have hppl := parse_plus (L := L) (n := M) (c := c) (p := p) hgy hky hsupy hkidsy
    simp only [hsepy, Option.map] at hppl
    have : repLoop (fun q => parse s₂.g L M z c q) (some fun q => parse s₂.g L M t c q) M p .E true false = .bad := by
      show repLoop _ _ (mx + 1) p .E true false = .bad
      simp only [repLoop, sepStep, Bool.false_eq_true, if_false]
      rw [hmx (mx+1) (by omega)]
    rw [this] at hppl
    simp only [finish] at hppl
    exact ⟨M+1, .bad, by simp, hppl, rfl⟩
  | fuel => rw [hrx] at hne; simp at hne

/-- body `Sequence[s, y']` evaluated from the results of its two kids (truthy case) -/
theorem body_TT {g : Graph} {L : Lex} {b s y' : Nat} {nb : Node} (hb : g.get b = some nb)
    (ht : transparentSeq nb = true) (hk : nb.kids = [s, y']) {m : Nat} {c : Bool} {q q1 q2 : Nat}
    (h1 : parse g L m s c q = .ok .T q1) (h2 : parse g L m y' c q1 = .ok .T q2) :
    parse g L (m+1) b c q = .ok .T q2 := by
  obtain ⟨_, _, hsup⟩ := transparent_iff ht
  rw [parse_seq hb ht, hk]
  simp [seqLoop, h1, h2, Sh.add, seqRes, finish, hsup]

theorem body_second {g : Graph} {L : Lex} {b s y' : Nat} {nb : Node} (hb : g.get b = some nb)
    (ht : transparentSeq nb = true) (hk : nb.kids = [s, y']) {m : Nat} {c : Bool} {q q1 : Nat}
    (h1 : parse g L m s c q = .ok .T q1) {r2 : Res} (h2 : parse g L m y' c q1 = r2)
    (hr : r2 = .fail ∨ r2 = .bad) : parse g L (m+1) b c q = r2 := by
  rw [parse_seq hb ht, hk]
  simp only [seqLoop, h1, h2]
  rcases hr with h | h <;> subst h <;> simp [seqRes, finish]

theorem body_first {g : Graph} {L : Lex} {b s y' : Nat} {nb : Node} (hb : g.get b = some nb)
    (ht : transparentSeq nb = true) (hk : nb.kids = [s, y']) {m : Nat} {c : Bool} {q : Nat}
    {r1 : Res} (h1 : parse g L m s c q = r1) (hr : r1 = .fail ∨ r1 = .bad) :
    parse g L (m+1) b c q = r1 := by
  rw [parse_seq hb ht, hk]
  simp only [seqLoop, h1]
  rcases hr with h | h <;> subst h <;> simp [seqRes, finish]

theorem sepB_loop {s₁ s₂ : Side} {H : Hyps} {L : Lex} (hs : s₁.Ok H L) {b s y' z t : Nat} {nb : Node}
    (hb : s₂.g.get b = some nb) (ht : transparentSeq nb = true) (hk : nb.kids = [s, y'])
    (hZ : onlyT s₁.sh z = true) (hT : onlyT s₁.sh t = true) {n : Nat}
    (trT : Tr s₁ s₂ L n t s) (trZ : Tr s₁ s₂ L n z y') (c : Bool) :
    ∀ j q, repLoop (fun q => parse s₁.g L n z c q) (some fun q => parse s₁.g L n t c q) j q .T false true ≠ .fuel →
      ∃ m₀, ∀ m, m₀ ≤ m → ∀ j', j ≤ j' → ∀ accR prevR,
        starToPlus (repLoop (fun q => parse s₂.g L (m+1) b c q) none j' q accR false prevR) =
          repLoop (fun q => parse s₁.g L n z c q) (some fun q => parse s₁.g L n t c q) j q .T false true := by
  intro j
  induction j with
  | zero => intro q h; simp [repLoop] at h
  | succ j ih =>
    intro q hne
    simp only [repLoop, sepStep, if_true] at hne ⊢
    cases h1 : parse s₁.g L n t c q with
    | ok v q1 =>
      have hv := onlyT_val hs hT h1
      subst hv
      rw [h1] at hne
      simp only [T_add] at hne ⊢
      obtain ⟨m1, hm1⟩ := trT n (Nat.le_refl n) c q (by rw [h1]; simp)
      rw [h1] at hm1
      cases h2 : parse s₁.g L n z c q1 with
      | ok w q2 =>
        have hw := onlyT_val hs hZ h2
        subst hw
        rw [h2] at hne
        simp only [Sh.truthy, if_true, T_add] at hne ⊢
        obtain ⟨m2, hm2⟩ := trZ n (Nat.le_refl n) c q1 (by rw [h2]; simp)
        rw [h2] at hm2
        obtain ⟨m3, hm3⟩ := ih q2 hne
        refine ⟨max m1 (max m2 m3), fun m hm j' hj' accR prevR => ?_⟩
        obtain ⟨j'', rfl⟩ : ∃ j'', j' = j'' + 1 := ⟨j' - 1, by omega⟩
        have hbody := body_TT (L := L) hb ht hk (hm1 m (by omega)) (hm2 m (by omega))
        simp only [repLoop, sepStep, hbody, Sh.truthy, if_true]
        exact hm3 m (by omega) j'' (by omega) _ _
      | fail =>
        rw [h2] at hne
        obtain ⟨m2, hm2⟩ := trZ n (Nat.le_refl n) c q1 (by rw [h2]; simp)
        rw [h2] at hm2
        refine ⟨max m1 m2, fun m hm j' hj' accR prevR => ?_⟩
        obtain ⟨j'', rfl⟩ : ∃ j'', j' = j'' + 1 := ⟨j' - 1, by omega⟩
        have hbody := body_second (L := L) hb ht hk (hm1 m (by omega)) (hm2 m (by omega)) (Or.inl rfl)
        simp [repLoop, sepStep, hbody, starToPlus]
      | bad =>
        rw [h2] at hne
        obtain ⟨m2, hm2⟩ := trZ n (Nat.le_refl n) c q1 (by rw [h2]; simp)
        rw [h2] at hm2
        refine ⟨max m1 m2, fun m hm j' hj' accR prevR => ?_⟩
        obtain ⟨j'', rfl⟩ : ∃ j'', j' = j'' + 1 := ⟨j' - 1, by omega⟩
        have hbody := body_second (L := L) hb ht hk (hm1 m (by omega)) (hm2 m (by omega)) (Or.inr rfl)
        simp [repLoop, sepStep, hbody, starToPlus]
      | fuel => rw [h2] at hne; simp at hne
    | fail =>
      rw [h1] at hne
      obtain ⟨m1, hm1⟩ := trT n (Nat.le_refl n) c q (by rw [h1]; simp)
      rw [h1] at hm1
      refine ⟨m1, fun m hm j' hj' accR prevR => ?_⟩
      obtain ⟨j'', rfl⟩ : ∃ j'', j' = j'' + 1 := ⟨j' - 1, by omega⟩
      have hbody := body_first (L := L) hb ht hk (hm1 m (by omega)) (Or.inl rfl)
      simp [repLoop, sepStep, hbody, starToPlus]
    | bad =>
      rw [h1] at hne
      obtain ⟨m1, hm1⟩ := trT n (Nat.le_refl n) c q (by rw [h1]; simp)
      rw [h1] at hm1
      refine ⟨m1, fun m hm j' hj' accR prevR => ?_⟩
      obtain ⟨j'', rfl⟩ : ∃ j'', j' = j'' + 1 := ⟨j' - 1, by omega⟩
      have hbody := body_first (L := L) hb ht hk (hm1 m (by omega)) (Or.inr rfl)
      simp [repLoop, sepStep, hbody, starToPlus]
    | fuel => rw [h1] at hne; simp at hne

theorem starToPlus_ok {r : Res} {w : Sh} {p : Nat} (h : starToPlus r = .ok w p) :
    w = .T ∧ ∃ w', r = .ok w' p := by
  cases r with
  | ok w' p' =>
    simp only [starToPlus, Res.ok.injEq] at h
    obtain ⟨rfl, rfl⟩ := h
    exact ⟨rfl, w', rfl⟩
  | fail => simp [starToPlus] at h
  | fuel => simp [starToPlus] at h
  | bad => simp [starToPlus] at h

theorem starToPlus_fb {r r' : Res} (h : starToPlus r = r') (hr : r' = .fail ∨ r' = .bad) : r = r' := by
  cases r with
  | ok w' p' => rcases hr with h' | h' <;> subst h' <;> simp [starToPlus] at h
  | fail => simpa [starToPlus] using h
  | fuel => simpa [starToPlus] using h
  | bad => simpa [starToPlus] using h

theorem sepB_step {s₁ s₂ : Side} {H : Hyps} {L : Lex} (hs₁ : s₁.Ok H L) {d : Nat}
    {x y st s y' z t : Nat} (hpl : plusSep s₁.g (peel s₁ d x) = some (z, t))
    (hst : starSepBody s₂.g st = some (s, y'))
    (hZ : onlyT s₁.sh z = true) (hT : onlyT s₁.sh t = true) {N : Nat}
    (trzy : Tr s₁ s₂ L (N-1) z y) (trzy' : Tr s₁ s₂ L (N-1) z y') (trts : Tr s₁ s₂ L (N-1) t s)
    (c : Bool) (p : Nat) (acc : Sh)
    (hne : step1 (fun e q => parse s₁.g L N e c q) x p acc ≠ .fuel) :
    ∃ m₀, ∀ m, m₀ ≤ m →
      step2 (fun e q => parse s₂.g L m e c q) y st p acc = step1 (fun e q => parse s₁.g L N e c q) x p acc := by
  obtain ⟨nst, b, nb, hgst, hkst, hsupst, hsst, hsepst, hkidsst, hb, htb, hkb⟩ := starSepBody_some hst
  obtain ⟨nx, hgx, hkx, hsupx, hsx, hkidsx, hsepx⟩ := plusSep_some hpl
  have hxne : parse s₁.g L N x c p ≠ .fuel := by
    intro h; simp only [step1, h] at hne; exact hne rfl
  have hpd := peel_down hs₁ d N x c p hxne
  cases N with
  | zero => simp [parse] at hxne
  | succ n =>
    simp only [Nat.add_sub_cancel] at trzy trzy' trts
    have hpp := parse_plus (L := L) (n := n) (c := c) (p := p) hgx hkx hsupx hkidsx
    simp only [hsepx, Option.map] at hpp
    rw [hpd] at hpp
    have hrl : repLoop (fun q => parse s₁.g L n z c q) (some fun q => parse s₁.g L n t c q) n p .E true false ≠ .fuel := by
      intro h; rw [hpp, h] at hxne; simp [finish] at hxne
    cases n with
    | zero => simp [repLoop] at hrl
    | succ j =>
      simp only [repLoop, sepStep, Bool.false_eq_true, if_false] at hpp hrl
      cases hz : parse s₁.g L (j+1) z c p with
      | ok v p1 =>
        have hv := onlyT_val hs₁ hZ hz
        subst hv
        rw [hz] at hpp hrl
        simp only [Sh.truthy, if_true] at hpp hrl
        have hET : Sh.E.add .T = .T := rfl
        rw [hET] at hpp hrl
        obtain ⟨m1, hm1⟩ := trzy (j+1) (Nat.le_refl _) c p (by rw [hz]; simp)
        rw [hz] at hm1
        obtain ⟨m2, hm2⟩ := sepB_loop hs₁ hb htb hkb hZ hT trts trzy' c j p1 hrl
        refine ⟨max m1 (max m2 j) + 2, fun m hm => ?_⟩
        obtain ⟨M, rfl⟩ : ∃ M, m = M + 1 + 1 := ⟨m - 2, by omega⟩
        have hy := hm1 (M+1+1) (by omega)
        have hps := parse_star (L := L) (n := M+1) (c := c) (p := p1) hgst hkst hsupst hkidsst
        simp only [hsepst, Option.map] at hps
        have hloop := hm2 M (by omega) (M+1) (by omega) .E false
        simp only [step1, step2, hy, hps, hpp]
        cases hl2 : repLoop (fun q => parse s₁.g L (j+1) z c q) (some fun q => parse s₁.g L (j+1) t c q) j p1 .T false true with
        | ok w p2 =>
          rw [hl2] at hloop
          obtain ⟨hw, w', hw'⟩ := starToPlus_ok hloop
          subst hw
          rw [hw']
          simp [finish, hsx, hsst, add_T, T_add]
        | fail =>
          rw [hl2] at hloop
          rw [starToPlus_fb hloop (Or.inl rfl)]
          simp [finish]
        | bad =>
          rw [hl2] at hloop
          rw [starToPlus_fb hloop (Or.inr rfl)]
          simp [finish]
        | fuel => exact absurd hl2 hrl
      | fail =>
        rw [hz] at hpp
        simp only [if_true, finish] at hpp
        obtain ⟨m1, hm1⟩ := trzy (j+1) (Nat.le_refl _) c p (by rw [hz]; simp)
        rw [hz] at hm1
        exact ⟨m1, fun m hm => by simp [step1, step2, hm1 m hm, hpp]⟩
      | bad =>
        rw [hz] at hpp
        simp only [finish] at hpp
        obtain ⟨m1, hm1⟩ := trzy (j+1) (Nat.le_refl _) c p (by rw [hz]; simp)
        rw [hz] at hm1
        exact ⟨m1, fun m hm => by simp [step1, step2, hm1 m hm, hpp]⟩
      | fuel => rw [hz] at hrl; simp at hrl

end Rec
