import TextxVerif.ResolveSched
import TextxVerif.Proofs.Resolve
/-! Helper lemmas for the resolver loop under an arbitrary schedule (`Oracle`): it terminates,
loses and duplicates nothing, and specialises to `Resolve.loop` (C08, C09). -/
namespace Resolve

theorem stepO_length (O : Oracle) : ∀ p hist res, (stepO O hist p res).1.length ≤ p.length
  | [], hist, res => by simp [stepO]
  | r :: rs, hist, res => by
      simp only [stepO]
      split
      · have := stepO_length O rs (r :: hist) (r :: res); simp; omega
      · have := stepO_length O rs (r :: hist) res; simp; omega

/-- a pass neither loses nor duplicates a reference, whatever the provider does -/
theorem stepO_perm (O : Oracle) : ∀ p hist res,
    ((stepO O hist p res).1 ++ (stepO O hist p res).2.1).Perm (p ++ res)
  | [], hist, res => by simp [stepO]
  | r :: rs, hist, res => by
      by_cases hr : O hist res r = true
      · simp only [stepO, hr, if_true]
        exact (stepO_perm O rs (r :: hist) (r :: res)).trans List.perm_middle
      · simp only [stepO, hr, List.cons_append]
        exact (stepO_perm O rs (r :: hist) res).cons r

theorem loopO_perm (O : Oracle) : ∀ n hist p res,
    ((loopO O n hist p res).1 ++ (loopO O n hist p res).2).Perm (p ++ res)
  | 0, hist, p, res => by simp [loopO]
  | n+1, hist, p, res => by
      simp only [loopO]
      split
      · exact stepO_perm O p hist res
      · exact (loopO_perm O n _ _ _).trans (stepO_perm O p hist res)

/-- the loop needs no more than `|pending| + 1` rounds: extra fuel changes nothing -/
theorem loopO_fuel_succ (O : Oracle) : ∀ n hist p res, p.length < n →
    loopO O (n+1) hist p res = loopO O n hist p res
  | 0, hist, p, res, h => by omega
  | n+1, hist, p, res, h => by
      rw [loopO]
      conv => rhs; rw [loopO]
      by_cases h1 : (stepO O hist p res).1 = [] ∨ (stepO O hist p res).1.length = p.length
      · simp only [h1, if_true]
      · simp only [h1, if_false]
        have hl := stepO_length O p hist res
        have : (stepO O hist p res).1.length ≠ p.length := fun e => h1 (Or.inr e)
        exact loopO_fuel_succ O n _ _ _ (by omega)

theorem loopO_fuel (O : Oracle) (hist p res : List Ref) : ∀ n m, p.length < n → n ≤ m →
    loopO O m hist p res = loopO O n hist p res := by
  intro n m hn hm
  induction m with
  | zero => omega
  | succ m ih =>
    by_cases h : n = m + 1
    · subst h; rfl
    · rw [loopO_fuel_succ O m hist p res (by omega)]
      exact ih (by omega)

/-- a pass that keeps every reference pending was answered `Postponed` throughout -/
theorem stepO_noprogress (O : Oracle) : ∀ p hist res, (stepO O hist p res).1.length = p.length →
    (stepO O hist p res).2.1 = res
  | [], hist, res, _ => by simp [stepO]
  | r :: rs, hist, res, h => by
      by_cases hr : O hist res r = true
      · simp only [stepO, hr, if_true] at h
        have := stepO_length O rs (r :: hist) (r :: res); simp at h; omega
      · simp only [stepO, hr] at h ⊢
        simp at h
        exact stepO_noprogress O rs (r :: hist) res h

/-- a provider that is a function of the resolved set: the pass is `step` -/
theorem stepO_const (P : Provider) : ∀ p hist res,
    ((stepO (fun _ => P.ready) hist p res).1, (stepO (fun _ => P.ready) hist p res).2.1) = step P p res
  | [], hist, res => by simp [stepO, step]
  | r :: rs, hist, res => by
      by_cases hr : P.ready res r = true
      · simp only [stepO, step, hr, if_true]
        exact stepO_const P rs (r :: hist) (r :: res)
      · have ih := stepO_const P rs (r :: hist) res
        simp only [stepO, step, hr]
        rw [← ih]
        rfl

theorem loopO_const (P : Provider) : ∀ n hist p res,
    loopO (fun _ => P.ready) n hist p res = loop P n p res
  | 0, hist, p, res => by simp [loopO, loop]
  | n+1, hist, p, res => by
      have h := stepO_const P p hist res
      have h1 : (stepO (fun _ => P.ready) hist p res).1 = (step P p res).1 := by rw [← h]
      have h2 : (stepO (fun _ => P.ready) hist p res).2.1 = (step P p res).2 := by rw [← h]
      simp only [loopO, loop, h1]
      split
      · rw [← h1, ← h2]
      · rw [loopO_const P n _ _ _, h2]

/-- on success the resolution sequence is an arrangement of the references -/
theorem loopO_seq_perm (O : Oracle) (n : Nat) (refs : List Ref) (hok : (loopO O n [] refs []).1 = []) :
    (loopO O n [] refs []).2.reverse.Perm refs := by
  have := loopO_perm O n [] refs []
  rw [hok] at this
  simpa using (List.reverse_perm _).trans this

end Resolve
