import TextxVerif.Proofs.PegWs
/-!
# Simulation: the mirror run on the original and on the gap-extended input (C22)
-/
namespace Peg

/-! ## shifting values -/

theorem Val.shiftList_eq_map (f : Nat → Nat) (vs : List Val) : Val.shiftList f vs = vs.map (Val.shift f) := by
  induction vs with
  | nil => rfl
  | cons v vs ih => simp [Val.shiftList, ih]

theorem Val.truthy_shift (f : Nat → Nat) (v : Val) : (v.shift f).truthy = v.truthy := by
  cases v with
  | none => rfl
  | term => rfl
  | nt n ks => cases ks <;> rfl
  | list vs => cases vs <;> rfl

theorem Val.shiftList_append (f : Nat → Nat) (a b : List Val) :
    Val.shiftList f (a ++ b) = Val.shiftList f a ++ Val.shiftList f b := by
  simp [Val.shiftList_eq_map]

theorem Val.shiftList_reverse (f : Nat → Nat) (a : List Val) :
    Val.shiftList f a.reverse = (Val.shiftList f a).reverse := by
  simp [Val.shiftList_eq_map]

theorem Val.shiftList_isEmpty (f : Nat → Nat) (a : List Val) :
    (Val.shiftList f a).isEmpty = a.isEmpty := by
  cases a <;> rfl

mutual
theorem Val.flatten_shift (f : Nat → Nat) : ∀ v : Val, (v.shift f).flatten = Val.shiftList f v.flatten
  | .none => rfl
  | .term .. => rfl
  | .nt .. => rfl
  | .list vs => by
      simp only [Val.shift, Val.flatten]
      exact Val.flattenList_shift f vs
theorem Val.flattenList_shift (f : Nat → Nat) : ∀ vs : List Val,
    Val.flattenList (Val.shiftList f vs) = Val.shiftList f (Val.flattenList vs)
  | [] => rfl
  | v :: vs => by
      simp only [Val.shiftList, Val.flattenList, Val.shiftList_append]
      rw [Val.flatten_shift f v, Val.flattenList_shift f vs]
end

theorem finish_shift (f : Nat → Nat) (id : Nat) (nd : Node) (v : Val) :
    finish id nd (v.shift f) = (finish id nd v).shift f := by
  unfold finish
  by_cases hs : nd.suppress
  · simp [hs, Val.truthy, Val.shift]
  · simp only [hs, Bool.false_eq_true, if_false]
    cases v with
    | none => simp [Val.shift, Val.truthy]
    | term n q l => cases hr : nd.root <;> simp [Val.shift, Val.truthy]
    | nt n ks =>
      cases hr : nd.root <;> simp [Val.shift]
    | list vs =>
      cases vs with
      | nil => simp [Val.shift, Val.shiftList, Val.truthy]
      | cons w ws =>
        cases w <;> cases hr : nd.root <;>
          simp [Val.shift, Val.shiftList, Val.truthy, Val.flatten, Val.flattenList,
            Val.flattenList_shift, Val.shiftList_append]


/-! ## relations -/

def NoEol (ins : List Char) : Prop := '\n' ∉ ins ∧ '\r' ∉ ins

/-- every mode the state can restore skips the inserted characters -/
structure Inv (ins : List Char) (s : PState) : Prop where
  skip : s.skipws = true
  ws : ∀ c ∈ ins, c ∈ s.ws
  real : ∀ c ∈ ins, c ∈ s.realWs
  eol : s.eolterm = true → NoEol ins

def NR (p k : Nat) : Option Nat → Option Nat → Prop
  | .none, .none => True
  | some a, some b => R p k a b
  | _, _ => False

/-- parser states of the run on the original and on the extended input that correspond -/
structure SR (ins : List Char) (p k : Nat) (s s' : PState) : Prop where
  inv : Inv ins s
  pos : R p k s.pos s'.pos
  skipws : s'.skipws = s.skipws
  ws : s'.ws = s.ws
  realWs : s'.realWs = s.realWs
  eolterm : s'.eolterm = s.eolterm
  inC : s'.inComments = s.inComments
  cp : s'.commentPos = s.commentPos.map (fun e => (sh p k e.1, sh p k e.2))
  nm : NR p k s.nm s'.nm

/-- exact correspondence of the positions -/
def Ex (p k : Nat) (s s' : PState) : Prop := s'.pos = sh p k s.pos

inductive ResRel (p k : Nat) : Res → Res → Prop
  | ok (v : Val) : ResRel p k (.ok v) (.ok (v.shift (sh p k)))
  | nomatch : ResRel p k .nomatch .nomatch
  | fuel : ResRel p k .fuel .fuel
  | bad : ResRel p k .bad .bad

def PR (ins : List Char) (p k : Nat) (x y : Res × PState) : Prop :=
  ResRel p k x.1 y.1 ∧ SR ins p k x.2 y.2

/-- related sub-parsers: related states to related results; a NoMatch leaves exactly
corresponding positions when it was entered at exactly corresponding positions -/
def SPR (ins : List Char) (p k : Nat) (q q' : SubParser) : Prop :=
  ∀ id s s', SR ins p k s s' →
    PR ins p k (q id s) (q' id s') ∧
    (Ex p k s s' → (q id s).1 = .nomatch → Ex p k (q id s).2 (q' id s').2)

theorem R.of_ex {p k : Nat} {s s' : PState} (h : Ex p k s s') : R p k s.pos s'.pos := Or.inl h

theorem SR.withPos {ins : List Char} {p k : Nat} {s s' : PState} (h : SR ins p k s s') {a a' : Nat}
    (ha : R p k a a') : SR ins p k { s with pos := a } { s' with pos := a' } :=
  ⟨⟨h.inv.skip, h.inv.ws, h.inv.real, h.inv.eol⟩, ha, h.skipws, h.ws, h.realWs, h.eolterm, h.inC, h.cp, h.nm⟩

theorem R.max {p k a a' b b' : Nat} (ha : R p k a a') (hb : R p k b b') :
    (a > b → a' > b') ∧ (¬ a > b → a' > b' → R p k b a') := by
  unfold R Peg.sh at *
  constructor
  · intro h
    rcases ha with ha | ⟨ha, ha'⟩ <;> rcases hb with hb | ⟨hb, hb'⟩ <;>
      (try split at ha) <;> (try split at hb) <;> omega
  · intro h h'
    rcases ha with ha | ⟨ha, ha'⟩ <;> rcases hb with hb | ⟨hb, hb'⟩ <;>
      (try split at ha) <;> (try split at hb) <;> (try split) <;> omega

theorem SR.withNm {ins : List Char} {p k : Nat} {s s' : PState} (h : SR ins p k s s') {a a' : Nat}
    (ha : R p k a a') : SR ins p k { s with nm := some a } { s' with nm := some a' } :=
  ⟨⟨h.inv.skip, h.inv.ws, h.inv.real, h.inv.eol⟩, h.pos, h.skipws, h.ws, h.realWs, h.eolterm, h.inC, h.cp, ha⟩

theorem SR.nmRaise {ins : List Char} {p k : Nat} {s s' : PState} (h : SR ins p k s s') {a a' : Nat}
    (ha : R p k a a') : SR ins p k (s.nmRaise a) (s'.nmRaise a') := by
  obtain ⟨hinv, hpos, h1, h2, h3, h4, h5, h6, h7⟩ := h
  rcases s with ⟨pos, skipws, ws, realWs, eolterm, cp, nm, inC, cache⟩
  rcases s' with ⟨pos', skipws', ws', realWs', eolterm', cp', nm', inC', cache'⟩
  simp only at h1 h2 h3 h4 h5 h6 hpos h7
  subst h1 h2 h3 h4 h5 h6
  have hI : ∀ x y, Inv ins ⟨pos, skipws', ws', realWs', eolterm', cp, x, inC', y⟩ :=
    fun _ _ => ⟨hinv.skip, hinv.ws, hinv.real, hinv.eol⟩
  unfold PState.nmRaise
  cases nm with
  | none =>
    cases nm' with
    | none => exact ⟨hI _ _, hpos, rfl, rfl, rfl, rfl, rfl, rfl, ha⟩
    | some b' => exact absurd h7 (by simp [NR])
  | some b =>
    cases nm' with
    | none => exact absurd h7 (by simp [NR])
    | some b' =>
      have hb : R p k b b' := h7
      obtain ⟨m1, m2⟩ := R.max ha hb
      cases inC'
      · simp only [Option.isNone_some, Bool.false_or, Bool.not_false, if_true]
        by_cases hab : a > b
        · simp only [hab, m1 hab, if_true]
          exact ⟨hI _ _, hpos, rfl, rfl, rfl, rfl, rfl, rfl, ha⟩
        · simp only [hab, if_false]
          by_cases hab' : a' > b'
          · simp only [hab', if_true]
            exact ⟨hI _ _, hpos, rfl, rfl, rfl, rfl, rfl, rfl, m2 hab hab'⟩
          · simp only [hab', if_false]
            exact ⟨hI _ _, hpos, rfl, rfl, rfl, rfl, rfl, rfl, hb⟩
      · simp only [Option.isNone_some, Bool.false_or, Bool.not_true, Bool.false_eq_true, if_false]
        exact ⟨hI _ _, hpos, rfl, rfl, rfl, rfl, rfl, rfl, hb⟩

end Peg
