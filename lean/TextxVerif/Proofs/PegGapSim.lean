import TextxVerif.Proofs.PegWs
/-!
# Simulation: the mirror run on the original and on the gap-extended input (C22)
-/
namespace Peg

/-! ## shifting values -/

theorem Val.shiftList_eq_map (f : Nat → Nat) (vs : List Val) : Val.shiftList f vs = vs.map (Val.shift f) := by
  induction vs with
  | nil => rfl
  | cons v vs ih => simp [Val.shiftList, ih]

theorem Val.truthy_shift (f : Nat → Nat) (v : Val) : (v.shift f).truthy = v.truthy := by
  cases v with
  | none => rfl
  | term => rfl
  | nt n ks => cases ks <;> rfl
  | list vs => cases vs <;> rfl

theorem Val.shiftList_append (f : Nat → Nat) (a b : List Val) :
    Val.shiftList f (a ++ b) = Val.shiftList f a ++ Val.shiftList f b := by
  simp [Val.shiftList_eq_map]

theorem Val.shiftList_reverse (f : Nat → Nat) (a : List Val) :
    Val.shiftList f a.reverse = (Val.shiftList f a).reverse := by
  simp [Val.shiftList_eq_map]

theorem Val.shiftList_isEmpty (f : Nat → Nat) (a : List Val) :
    (Val.shiftList f a).isEmpty = a.isEmpty := by
  cases a <;> rfl

mutual
theorem Val.flatten_shift (f : Nat → Nat) : ∀ v : Val, (v.shift f).flatten = Val.shiftList f v.flatten
  | .none => rfl
  | .term .. => rfl
  | .nt .. => rfl
  | .list vs => by
      simp only [Val.shift, Val.flatten]
      exact Val.flattenList_shift f vs
theorem Val.flattenList_shift (f : Nat → Nat) : ∀ vs : List Val,
    Val.flattenList (Val.shiftList f vs) = Val.shiftList f (Val.flattenList vs)
  | [] => rfl
  | v :: vs => by
      simp only [Val.shiftList, Val.flattenList, Val.shiftList_append]
      rw [Val.flatten_shift f v, Val.flattenList_shift f vs]
end

theorem finish_shift (f : Nat → Nat) (id : Nat) (nd : Node) (v : Val) :
    finish id nd (v.shift f) = (finish id nd v).shift f := by
  unfold finish
  by_cases hs : nd.suppress
  · simp [hs, Val.truthy, Val.shift]
  · simp only [hs, Bool.false_eq_true, if_false]
    cases v with
    | none => simp [Val.shift, Val.truthy]
    | term n q l => cases hr : nd.root <;> simp [Val.shift, Val.truthy]
    | nt n ks =>
      cases hr : nd.root <;> simp [Val.shift]
    | list vs =>
      cases vs with
      | nil => simp [Val.shift, Val.shiftList, Val.truthy]
      | cons w ws =>
        cases w <;> cases hr : nd.root <;>
          simp [Val.shift, Val.shiftList, Val.truthy, Val.flatten, Val.flattenList,
            Val.flattenList_shift, Val.shiftList_append]

end Peg
