import TextxVerif.Proofs.PegWs
/-!
# Simulation: the mirror run on the original and on the gap-extended input (C22)
-/
namespace Peg

/-! ## shifting values -/

theorem Val.shiftList_eq_map (f : Nat → Nat) (vs : List Val) : Val.shiftList f vs = vs.map (Val.shift f) := by
  induction vs with
  | nil => rfl
  | cons v vs ih => simp [Val.shiftList, ih]

theorem Val.truthy_shift (f : Nat → Nat) (v : Val) : (v.shift f).truthy = v.truthy := by
  cases v with
  | none => rfl
  | term => rfl
  | nt n ks => cases ks <;> rfl
  | list vs => cases vs <;> rfl

theorem Val.shiftList_append (f : Nat → Nat) (a b : List Val) :
    Val.shiftList f (a ++ b) = Val.shiftList f a ++ Val.shiftList f b := by
  simp [Val.shiftList_eq_map]

theorem Val.shiftList_reverse (f : Nat → Nat) (a : List Val) :
    Val.shiftList f a.reverse = (Val.shiftList f a).reverse := by
  simp [Val.shiftList_eq_map]

theorem Val.shiftList_isEmpty (f : Nat → Nat) (a : List Val) :
    (Val.shiftList f a).isEmpty = a.isEmpty := by
  cases a <;> rfl

mutual
theorem Val.flatten_shift (f : Nat → Nat) : ∀ v : Val, (v.shift f).flatten = Val.shiftList f v.flatten
  | .none => rfl
  | .term .. => rfl
  | .nt .. => rfl
  | .list vs => by
      simp only [Val.shift, Val.flatten]
      exact Val.flattenList_shift f vs
theorem Val.flattenList_shift (f : Nat → Nat) : ∀ vs : List Val,
    Val.flattenList (Val.shiftList f vs) = Val.shiftList f (Val.flattenList vs)
  | [] => rfl
  | v :: vs => by
      simp only [Val.shiftList, Val.flattenList, Val.shiftList_append]
      rw [Val.flatten_shift f v, Val.flattenList_shift f vs]
end

theorem finish_shift (f : Nat → Nat) (id : Nat) (nd : Node) (v : Val) :
    finish id nd (v.shift f) = (finish id nd v).shift f := by
  unfold finish
  by_cases hs : nd.suppress
  · simp [hs, Val.truthy, Val.shift]
  · simp only [hs, Bool.false_eq_true, if_false]
    cases v with
    | none => simp [Val.shift, Val.truthy]
    | term n q l => cases hr : nd.root <;> simp [Val.shift, Val.truthy]
    | nt n ks =>
      cases hr : nd.root <;> simp [Val.shift]
    | list vs =>
      cases vs with
      | nil => simp [Val.shift, Val.shiftList, Val.truthy]
      | cons w ws =>
        cases w <;> cases hr : nd.root <;>
          simp [Val.shift, Val.shiftList, Val.truthy, Val.flatten, Val.flattenList,
            Val.flattenList_shift, Val.shiftList_append]


/-! ## relations -/

def NoEol (ins : List Char) : Prop := '\n' ∉ ins ∧ '\r' ∉ ins

/-- every mode the state can restore skips the inserted characters -/
structure Inv (ins : List Char) (s : PState) : Prop where
  skip : s.skipws = true
  ws : ∀ c ∈ ins, c ∈ s.ws
  real : ∀ c ∈ ins, c ∈ s.realWs
  eol : s.eolterm = true → NoEol ins

def NR (p k : Nat) : Option Nat → Option Nat → Prop
  | .none, .none => True
  | some a, some b => R p k a b
  | _, _ => False

/-- parser states of the run on the original and on the extended input that correspond -/
structure SR (ins : List Char) (p k : Nat) (s s' : PState) : Prop where
  inv : Inv ins s
  pos : R p k s.pos s'.pos
  skipws : s'.skipws = s.skipws
  ws : s'.ws = s.ws
  realWs : s'.realWs = s.realWs
  eolterm : s'.eolterm = s.eolterm
  inC : s'.inComments = s.inComments
  cp : s'.commentPos = s.commentPos.map (fun e => (sh p k e.1, sh p k e.2))
  nm : NR p k s.nm s'.nm

/-- exact correspondence of the positions -/
def Ex (p k : Nat) (s s' : PState) : Prop := s'.pos = sh p k s.pos

inductive ResRel (p k : Nat) : Res → Res → Prop
  | ok (v : Val) : ResRel p k (.ok v) (.ok (v.shift (sh p k)))
  | nom : ResRel p k .nomatch .nomatch
  | fuel : ResRel p k .fuel .fuel
  | bad : ResRel p k .bad .bad

def PR (ins : List Char) (p k : Nat) (x y : Res × PState) : Prop :=
  ResRel p k x.1 y.1 ∧ SR ins p k x.2 y.2

/-- related sub-parsers: related states to related results; a NoMatch leaves exactly
corresponding positions when it was entered at exactly corresponding positions -/
def SPR (ins : List Char) (p k : Nat) (q q' : SubParser) : Prop :=
  ∀ id s s', SR ins p k s s' →
    PR ins p k (q id s) (q' id s') ∧
    (Ex p k s s' → (q id s).1 = .nomatch → Ex p k (q id s).2 (q' id s').2)

theorem R.of_ex {p k : Nat} {s s' : PState} (h : Ex p k s s') : R p k s.pos s'.pos := Or.inl h

theorem SR.withPos {ins : List Char} {p k : Nat} {s s' : PState} (h : SR ins p k s s') {a a' : Nat}
    (ha : R p k a a') : SR ins p k { s with pos := a } { s' with pos := a' } :=
  ⟨⟨h.inv.skip, h.inv.ws, h.inv.real, h.inv.eol⟩, ha, h.skipws, h.ws, h.realWs, h.eolterm, h.inC, h.cp, h.nm⟩

theorem R.max {p k a a' b b' : Nat} (ha : R p k a a') (hb : R p k b b') :
    (a > b → a' > b') ∧ (¬ a > b → a' > b' → R p k b a') := by
  unfold R Peg.sh at *
  constructor
  · intro h
    rcases ha with ha | ⟨ha, ha'⟩ <;> rcases hb with hb | ⟨hb, hb'⟩ <;>
      (try split at ha) <;> (try split at hb) <;> omega
  · intro h h'
    rcases ha with ha | ⟨ha, ha'⟩ <;> rcases hb with hb | ⟨hb, hb'⟩ <;>
      (try split at ha) <;> (try split at hb) <;> (try split) <;> omega

theorem SR.withNm {ins : List Char} {p k : Nat} {s s' : PState} (h : SR ins p k s s') {a a' : Nat}
    (ha : R p k a a') : SR ins p k { s with nm := some a } { s' with nm := some a' } :=
  ⟨⟨h.inv.skip, h.inv.ws, h.inv.real, h.inv.eol⟩, h.pos, h.skipws, h.ws, h.realWs, h.eolterm, h.inC, h.cp, ha⟩

theorem SR.nmRaise {ins : List Char} {p k : Nat} {s s' : PState} (h : SR ins p k s s') {a a' : Nat}
    (ha : R p k a a') : SR ins p k (s.nmRaise a) (s'.nmRaise a') := by
  obtain ⟨hinv, hpos, h1, h2, h3, h4, h5, h6, h7⟩ := h
  rcases s with ⟨pos, skipws, ws, realWs, eolterm, cp, nm, inC, cache⟩
  rcases s' with ⟨pos', skipws', ws', realWs', eolterm', cp', nm', inC', cache'⟩
  simp only at h1 h2 h3 h4 h5 h6 hpos h7
  subst h1 h2 h3 h4 h5 h6
  have hI : ∀ x y, Inv ins ⟨pos, skipws', ws', realWs', eolterm', cp, x, inC', y⟩ :=
    fun _ _ => ⟨hinv.skip, hinv.ws, hinv.real, hinv.eol⟩
  unfold PState.nmRaise
  cases nm with
  | none =>
    cases nm' with
    | none => exact ⟨hI _ _, hpos, rfl, rfl, rfl, rfl, rfl, rfl, ha⟩
    | some b' => exact absurd h7 (by simp [NR])
  | some b =>
    cases nm' with
    | none => exact absurd h7 (by simp [NR])
    | some b' =>
      have hb : R p k b b' := h7
      obtain ⟨m1, m2⟩ := R.max ha hb
      cases inC'
      · simp only [Option.isNone_some, Bool.false_or, Bool.not_false, if_true]
        by_cases hab : a > b
        · simp only [hab, m1 hab, if_true]
          exact ⟨hI _ _, hpos, rfl, rfl, rfl, rfl, rfl, rfl, ha⟩
        · simp only [hab, if_false]
          by_cases hab' : a' > b'
          · simp only [hab', if_true]
            exact ⟨hI _ _, hpos, rfl, rfl, rfl, rfl, rfl, rfl, m2 hab hab'⟩
          · simp only [hab', if_false]
            exact ⟨hI _ _, hpos, rfl, rfl, rfl, rfl, rfl, rfl, hb⟩
      · simp only [Option.isNone_some, Bool.false_or, Bool.not_true, Bool.false_eq_true, if_false]
        exact ⟨hI _ _, hpos, rfl, rfl, rfl, rfl, rfl, rfl, hb⟩


/-! ## the loops preserve the relation -/
variable {ins : List Char} {p k : Nat}

theorem PR.mk' {x y : Res × PState} (h1 : ResRel p k x.1 y.1) (h2 : SR ins p k x.2 y.2) : PR ins p k x y := ⟨h1, h2⟩

theorem accRes_shift (acc : List Val) :
    (if (Val.shiftList (sh p k) acc).isEmpty then Val.none else Val.list (Val.shiftList (sh p k) acc).reverse) =
      (if acc.isEmpty then Val.none else Val.list acc.reverse).shift (sh p k) := by
  rw [Val.shiftList_isEmpty]
  split
  · rfl
  · simp [Val.shift, Val.shiftList_reverse]

theorem seqLoop_rel {q q' : SubParser} (hq : SPR ins p k q q') :
    ∀ es s s' acc, SR ins p k s s' →
      PR ins p k (seqLoop q es s acc) (seqLoop q' es s' (Val.shiftList (sh p k) acc)) := by
  intro es
  induction es with
  | nil =>
    intro s s' acc hs
    simp only [seqLoop]
    refine ⟨?_, hs⟩
    simp only [accRes_shift]
    exact .ok _
  | cons e es ih =>
    intro s s' acc hs
    simp only [seqLoop]
    obtain ⟨hr, ht⟩ := (hq e s s' hs).1
    rcases h1 : q e s with ⟨r, t⟩
    rcases h2 : q' e s' with ⟨r', t'⟩
    rw [h1, h2] at hr ht
    simp only at hr ht
    cases hr with
    | ok v =>
      simp only [Val.truthy_shift]
      have := ih t t' (if v.truthy then v :: acc else acc) ht
      split <;> simp_all [Val.shiftList]
    | nom => exact ⟨.nom, ht⟩
    | fuel => exact ⟨.fuel, ht⟩
    | bad => exact ⟨.bad, ht⟩

theorem choiceLoop_rel {q q' : SubParser} (hq : SPR ins p k q q') :
    ∀ es c c' s s', R p k c c' → SR ins p k s s' →
      PR ins p k (choiceLoop q es c s) (choiceLoop q' es c' s') := by
  intro es
  induction es with
  | nil => intro c c' s s' _ hs; exact ⟨.nom, hs⟩
  | cons e es ih =>
    intro c c' s s' hc hs
    simp only [choiceLoop]
    obtain ⟨hr, ht⟩ := (hq e s s' hs).1
    rcases h1 : q e s with ⟨r, t⟩
    rcases h2 : q' e s' with ⟨r', t'⟩
    rw [h1, h2] at hr ht
    simp only at hr ht
    cases hr with
    | ok v =>
      cases v with
      | none => simp only [Val.shift]; exact ih c c' t t' hc ht
      | term n a l => simp only [Val.shift]; exact ⟨.ok (.list [.term n a l]), ht⟩
      | nt n ks => simp only [Val.shift]; exact ⟨.ok (.list [.nt n ks]), ht⟩
      | list vs => simp only [Val.shift]; exact ⟨.ok (.list [.list vs]), ht⟩
    | nom => exact ih c c' _ _ hc (ht.withPos hc)
    | fuel => exact ⟨.fuel, ht⟩
    | bad => exact ⟨.bad, ht⟩

inductive ForRel (p k : Nat) : ForRes → ForRes → Prop
  | hit (v : Val) (e : Nat) : ForRel p k (.hit v e) (.hit (v.shift (sh p k)) e)
  | exhausted (m : Bool) : ForRel p k (.exhausted m) (.exhausted m)
  | fuel : ForRel p k .fuel .fuel
  | bad : ForRel p k .bad .bad

theorem unordFor_rel {q q' : SubParser} (hq : SPR ins p k q q') :
    ∀ es c c' s s' se m, R p k c c' → SR ins p k s s' →
      ForRel p k (unordFor q es c s se m).1 (unordFor q' es c' s' se m).1 ∧
      SR ins p k (unordFor q es c s se m).2 (unordFor q' es c' s' se m).2 := by
  intro es
  induction es with
  | nil => intro c c' s s' se m _ hs; exact ⟨.exhausted m, hs⟩
  | cons e es ih =>
    intro c c' s s' se m hc hs
    simp only [unordFor]
    obtain ⟨hr, ht⟩ := (hq e s s' hs).1
    rcases h1 : q e s with ⟨r, t⟩
    rcases h2 : q' e s' with ⟨r', t'⟩
    rw [h1, h2] at hr ht
    simp only at hr ht
    cases hr with
    | ok v =>
      simp only [Val.truthy_shift]
      cases v.truthy
      · simp only [Bool.false_eq_true, if_false]; exact ih c c' t t' se m hc ht
      · simp only [if_true]
        cases se
        · simp only [Bool.false_eq_true, if_false]; exact ⟨.hit v e, ht⟩
        · simp only [if_true]; exact ih c c' _ _ true false hc (ht.withPos hc)
    | nom => exact ih c c' _ _ se false hc (ht.withPos hc)
    | fuel => exact ⟨.fuel, ht⟩
    | bad => exact ⟨.bad, ht⟩

theorem listRes_shift (acc : List Val) :
    Val.list (Val.shiftList (sh p k) acc).reverse = (Val.list acc.reverse).shift (sh p k) := by
  simp [Val.shift, Val.shiftList_reverse]

theorem repLoop_rel {q q' : SubParser} (hq : SPR ins p k q q') (e : Nat) (sep : Option Nat) :
    ∀ n s s' acc first prev, SR ins p k s s' →
      PR ins p k (repLoop q e sep n s acc first prev)
        (repLoop q' e sep n s' (Val.shiftList (sh p k) acc) first prev) := by
  intro n
  induction n with
  | zero => intro s s' acc first prev hs; exact ⟨.fuel, hs⟩
  | succ n ih =>
    intro s s' acc first prev hs
    -- the element step, common to all separator cases
    have elem : ∀ (s1 s1' : PState) (acc1 : List Val), SR ins p k s1 s1' →
        PR ins p k
          (match q e s1 with
            | (.ok v, s2) => if v.truthy then repLoop q e sep n s2 (v :: acc1) false true
                              else (.ok (.list acc1.reverse), s2)
            | (.nomatch, s2) => if first then (.nomatch, { s2 with pos := s.pos })
                                else (.ok (.list acc1.reverse), { s2 with pos := s.pos })
            | r => r)
          (match q' e s1' with
            | (.ok v, s2) => if v.truthy then repLoop q' e sep n s2 (v :: Val.shiftList (sh p k) acc1) false true
                              else (.ok (.list (Val.shiftList (sh p k) acc1).reverse), s2)
            | (.nomatch, s2) => if first then (.nomatch, { s2 with pos := s'.pos })
                                else (.ok (.list (Val.shiftList (sh p k) acc1).reverse), { s2 with pos := s'.pos })
            | r => r) := by
      intro s1 s1' acc1 hs1
      obtain ⟨hr, ht⟩ := (hq e s1 s1' hs1).1
      rcases h1 : q e s1 with ⟨r, t⟩
      rcases h2 : q' e s1' with ⟨r', t'⟩
      rw [h1, h2] at hr ht
      simp only at hr ht
      cases hr with
      | ok v =>
        simp only [Val.truthy_shift]
        cases v.truthy
        · simp only [Bool.false_eq_true, if_false, listRes_shift]; exact ⟨.ok _, ht⟩
        · simp only [if_true]; exact ih t t' (v :: acc1) false true ht
      | nom =>
        cases first
        · simp only [Bool.false_eq_true, if_false, listRes_shift]; exact ⟨.ok _, ht.withPos hs.pos⟩
        · simp only [if_true]; exact ⟨.nom, ht.withPos hs.pos⟩
      | fuel => exact ⟨.fuel, ht⟩
      | bad => exact ⟨.bad, ht⟩
    simp only [repLoop]
    cases sep with
    | none => exact elem s s' acc hs
    | some sp =>
      cases prev
      · exact elem s s' acc hs
      · simp only [if_true]
        obtain ⟨hr, ht⟩ := (hq sp s s' hs).1
        rcases h1 : q sp s with ⟨r, t⟩
        rcases h2 : q' sp s' with ⟨r', t'⟩
        rw [h1, h2] at hr ht
        simp only at hr ht
        cases hr with
        | ok v =>
          simp only [Val.truthy_shift]
          cases hv : v.truthy
          · simp only [Bool.false_eq_true, if_false]; exact elem t t' acc ht
          · simp only [if_true]; exact elem t t' (v :: acc) ht
        | nom =>
          cases first
          · simp only [Bool.false_eq_true, if_false, listRes_shift]; exact ⟨.ok _, ht.withPos hs.pos⟩
          · simp only [if_true]; exact ⟨.nom, ht.withPos hs.pos⟩
        | fuel => exact ⟨.fuel, ht⟩
        | bad => exact ⟨.bad, ht⟩

theorem unordLoop_rel {q q' : SubParser} (hq : SPR ins p k q q') (sep : Option Nat) :
    ∀ n todo s s' acc first sepRes, SR ins p k s s' →
      PR ins p k (unordLoop q sep n todo s acc first sepRes)
        (unordLoop q' sep n todo s' (Val.shiftList (sh p k) acc) first (sepRes.map (Val.shift (sh p k)))) := by
  intro n
  induction n with
  | zero => intro todo s s' acc first sepRes hs; exact ⟨.fuel, hs⟩
  | succ n ih =>
    intro todo s s' acc first sepRes hs
    cases todo with
    | nil =>
      simp only [unordLoop]
      refine ⟨?_, hs⟩
      simp only [accRes_shift]
      exact .ok _
    | cons e0 es0 =>
      have rest : ∀ (s1 s1' : PState) (se : Bool) (sr1 : Option Val), SR ins p k s1 s1' →
          PR ins p k
            (match unordFor q (e0 :: es0) s1.pos s1 se true with
              | (.hit v e, s2) =>
                  unordLoop q sep n (remove (e0 :: es0) e) s2
                    (v :: (match sr1 with | some sv => if sv.truthy then sv :: acc else acc | .none => acc)) false sr1
              | (.exhausted true, s2) =>
                  (.ok (if acc.isEmpty then .none else .list acc.reverse), { s2 with pos := s.pos })
              | (.exhausted false, s2) => (.nomatch, { s2 with pos := s.pos })
              | (.fuel, s2) => (.fuel, s2)
              | (.bad, s2) => (.bad, s2))
            (match unordFor q' (e0 :: es0) s1'.pos s1' se true with
              | (.hit v e, s2) =>
                  unordLoop q' sep n (remove (e0 :: es0) e) s2
                    (v :: (match sr1.map (Val.shift (sh p k)) with
                            | some sv => if sv.truthy then sv :: Val.shiftList (sh p k) acc else Val.shiftList (sh p k) acc
                            | .none => Val.shiftList (sh p k) acc)) false (sr1.map (Val.shift (sh p k)))
              | (.exhausted true, s2) =>
                  (.ok (if (Val.shiftList (sh p k) acc).isEmpty then .none else .list (Val.shiftList (sh p k) acc).reverse),
                    { s2 with pos := s'.pos })
              | (.exhausted false, s2) => (.nomatch, { s2 with pos := s'.pos })
              | (.fuel, s2) => (.fuel, s2)
              | (.bad, s2) => (.bad, s2)) := by
        intro s1 s1' se sr1 hs1
        obtain ⟨hr, ht⟩ := unordFor_rel hq (e0 :: es0) s1.pos s1'.pos s1 s1' se true hs1.pos hs1
        rcases h1 : unordFor q (e0 :: es0) s1.pos s1 se true with ⟨r, t⟩
        rcases h2 : unordFor q' (e0 :: es0) s1'.pos s1' se true with ⟨r', t'⟩
        rw [h1, h2] at hr ht
        simp only at hr ht
        cases hr with
        | hit v e =>
          simp only
          cases sr1 with
          | none => exact ih _ t t' (v :: acc) false .none ht
          | some sv =>
            simp only [Option.map_some, Val.truthy_shift]
            cases hv : sv.truthy
            · simp only [Bool.false_eq_true, if_false]; exact ih _ t t' (v :: acc) false (some sv) ht
            · simp only [if_true]; exact ih _ t t' (v :: sv :: acc) false (some sv) ht
        | exhausted m =>
          cases m
          · exact ⟨.nom, ht.withPos hs.pos⟩
          · simp only [accRes_shift]; exact ⟨.ok _, ht.withPos hs.pos⟩
        | fuel => exact ⟨.fuel, ht⟩
        | bad => exact ⟨.bad, ht⟩
      simp only [unordLoop]
      cases sep with
      | none => exact rest s s' false sepRes hs
      | some sp =>
        cases first
        · simp only [Bool.not_false, if_true]
          obtain ⟨hr, ht⟩ := (hq sp s s' hs).1
          rcases h1 : q sp s with ⟨r, t⟩
          rcases h2 : q' sp s' with ⟨r', t'⟩
          rw [h1, h2] at hr ht
          simp only at hr ht
          cases hr with
          | ok v => exact rest t t' false (some v) ht
          | nom => exact rest _ _ true sepRes (ht.withPos hs.pos)
          | fuel => exact ⟨.fuel, ht⟩
          | bad => exact ⟨.bad, ht⟩
        · exact rest s s' false sepRes hs


/-! ## `Match.parse` -/

/-- no terminal consumes or inspects the material around the insertion point: every token matches the same
length at the shifted position of the extended input, and a match that starts in front of the insertion
point ends in front of it -/
def TokCompat (g g' : Grammar) (p k : Nat) : Prop :=
  ∀ t q, tokLen g' t (sh p k q) = tokLen g t q ∧ (∀ len, tokLen g t q = some len → q < p → q + len ≤ p)

/-- `g'` is `g` run on the input extended at `p` by `k` characters of `ins`, which every mode of `g` skips -/
structure Ext (g g' : Grammar) (ins : List Char) (p k : Nat) : Prop where
  nodes : g'.nodes = g.nodes
  comments : g'.comments = g.comments
  memo : g.memo = false
  memo' : g'.memo = false
  input : InputExt g.input g'.input ins p k
  toks : TokCompat g g' p k
  modes : ∀ (id : Nat) (nd : Node), g.nodes[id]? = some nd → Node.skipsAll ins nd = true

theorem skipWs_rel {g g' : Grammar} (hx : Ext g g' ins p k) {s s' : PState} (hs : SR ins p k s s') :
    SR ins p k (skipWs g s) (skipWs g' s') ∧ Ex p k (skipWs g s) (skipWs g' s') := by
  have he : (skipWs g' s').pos = sh p k (skipWs g s).pos := by
    show skipTo g'.input s'.ws s'.pos = sh p k (skipTo g.input s.ws s.pos)
    rw [hs.ws]
    exact skipTo_ext hx.input hs.inv.ws hs.pos
  exact ⟨hs.withPos (Or.inl he), he⟩

theorem lookup_map_sh (l : List (Nat × Nat)) (q : Nat) :
    (l.map (fun e => (sh p k e.1, sh p k e.2))).lookup (sh p k q) = (l.lookup q).map (sh p k) := by
  induction l with
  | nil => rfl
  | cons e l ih =>
    simp only [List.map_cons, List.lookup, sh_beq]
    cases q == e.1 <;> simp [ih]

/-- the comment stage of `Match.parse` -/
def commentStage (pc : PState → Res × PState) (s : PState) : Res × PState :=
  match (if s.skipws then s.commentPos.lookup s.pos else .none) with
  | some b => (.ok .none, { s with pos := b })
  | .none =>
    if s.inComments then (.ok .none, s) else
      let start := s.pos
      match pc { s with inComments := true } with
      | (.ok _, s2) =>
          let s2 := { s2 with inComments := false }
          (.ok .none, { s2 with commentPos := (start, s2.pos) :: s2.commentPos })
      | (r, s2) => (r, { s2 with inComments := false })

/-- the token stage of `Match.parse` -/
def tokenStage (g : Grammar) (id : Nat) (nd : Node) (rs : Res × PState) : Res × PState :=
  match rs with
  | (.ok _, s) =>
    let cpos := s.pos
    match nd.kind with
    | .eof =>
        if g.input.size = cpos then (.ok (if nd.suppress then .none else .term id cpos 0), s)
        else (.nomatch, s.nmRaise cpos)
    | .str =>
        match tokLen g nd.tok cpos with
        | some len => (.ok (if nd.suppress then .none else .term id cpos len), { s with pos := cpos + len })
        | .none => (.nomatch, s.nmRaise cpos)
    | _ =>
        match tokLen g nd.tok cpos with
        | some len =>
            (.ok (if nd.suppress || len = 0 then .none else .term id cpos len), { s with pos := cpos + len })
        | .none => (.nomatch, s.nmRaise cpos)
  | r => r

theorem matchNode_eq (g : Grammar) (pc : PState → Res × PState) (id : Nat) (nd : Node) (s : PState) :
    matchNode g pc id nd s = tokenStage g id nd (commentStage pc (if s.skipws then skipWs g s else s)) := rfl

/-- what the simulation needs from the comment loop -/
def PCR (ins : List Char) (p k : Nat) (pc pc' : PState → Res × PState) : Prop :=
  ∀ s s', SR ins p k s s' →
    PR ins p k (pc s) (pc' s') ∧
    (Ex p k s s' → ∀ v, (pc s).1 = .ok v → Ex p k (pc s).2 (pc' s').2) ∧
    (pc s).1 ≠ .nomatch

theorem SR.withInC {s s' : PState} (h : SR ins p k s s') (b : Bool) :
    SR ins p k { s with inComments := b } { s' with inComments := b } :=
  ⟨⟨h.inv.skip, h.inv.ws, h.inv.real, h.inv.eol⟩, h.pos, h.skipws, h.ws, h.realWs, h.eolterm, rfl, h.cp, h.nm⟩

theorem commentStage_rel {pc pc' : PState → Res × PState} (hpc : PCR ins p k pc pc')
    {t t' : PState} (ht : SR ins p k t t') (he : Ex p k t t') :
    PR ins p k (commentStage pc t) (commentStage pc' t') ∧
    (∀ v, (commentStage pc t).1 = .ok v → Ex p k (commentStage pc t).2 (commentStage pc' t').2) ∧
    (commentStage pc t).1 ≠ .nomatch := by
  unfold commentStage
  have hsk : t.skipws = true := ht.inv.skip
  have hsk' : t'.skipws = true := by rw [ht.skipws]; exact hsk
  have hl : t'.commentPos.lookup t'.pos = (t.commentPos.lookup t.pos).map (sh p k) := by
    rw [ht.cp, he]; exact lookup_map_sh _ _
  rw [if_pos hsk, if_pos hsk', hl]
  cases hlk : t.commentPos.lookup t.pos with
  | some b =>
    simp only [Option.map_some]
    exact ⟨⟨.ok .none, ht.withPos (Or.inl rfl)⟩, fun _ _ => rfl, by simp⟩
  | none =>
    simp only [Option.map_none]
    have hc' : t'.inComments = t.inComments := ht.inC
    cases hc : t.inComments
    · rw [hc] at hc'
      simp only [hc', Bool.false_eq_true, if_false]
      obtain ⟨⟨hr, hs2⟩, hex, hne⟩ := hpc _ _ (ht.withInC true)
      have hex := hex he
      rcases h1 : pc { t with inComments := true } with ⟨r, s2⟩
      rcases h2 : pc' { t' with inComments := true } with ⟨r', s2'⟩
      rw [h1, h2] at hr hs2 hex
      rw [h1] at hne
      simp only at hr hs2 hex hne
      cases hr with
      | ok v =>
        have e2 : s2'.pos = sh p k s2.pos := hex v rfl
        simp only
        refine ⟨⟨.ok .none, ?_⟩, fun _ _ => e2, by simp⟩
        refine ⟨⟨hs2.inv.skip, hs2.inv.ws, hs2.inv.real, hs2.inv.eol⟩, hs2.pos, hs2.skipws, hs2.ws, hs2.realWs,
          hs2.eolterm, rfl, ?_, hs2.nm⟩
        show (t'.pos, s2'.pos) :: s2'.commentPos = _
        rw [hs2.cp, e2, he]; rfl
      | nom => exact absurd rfl hne
      | fuel => exact ⟨⟨.fuel, hs2.withInC false⟩, fun _ h => by simp at h, by simp⟩
      | bad => exact ⟨⟨.bad, hs2.withInC false⟩, fun _ h => by simp at h, by simp⟩
    · rw [hc] at hc'
      simp only [hc', if_true]
      exact ⟨⟨.ok .none, ht⟩, fun _ _ => he, by simp⟩

theorem nmRaise_pos (s : PState) (a : Nat) : (s.nmRaise a).pos = s.pos := by
  unfold PState.nmRaise
  split
  · split
    · rfl
    · split <;> rfl
  · rfl

theorem R_add_len {g g' : Grammar} (hx : Ext g g' ins p k) {t c len : Nat}
    (h : tokLen g t c = some len) : R p k (c + len) (sh p k c + len) := by
  have h2 := (hx.toks t c).2 len h
  unfold R sh
  by_cases hc : c < p
  · have := h2 hc
    simp only [hc, if_true]
    by_cases hl : c + len < p
    · left; simp [hl]
    · right; omega
  · left; simp only [hc, if_false]
    have : ¬ c + len < p := by omega
    simp only [this, if_false]; omega

theorem tokenStage_rel {g g' : Grammar} (hx : Ext g g' ins p k) (id : Nat) (nd : Node)
    {rs rs' : Res × PState} (hrs : PR ins p k rs rs')
    (hex : ∀ v, rs.1 = .ok v → Ex p k rs.2 rs'.2) (hne : rs.1 ≠ .nomatch) :
    PR ins p k (tokenStage g id nd rs) (tokenStage g' id nd rs') ∧
    ((tokenStage g id nd rs).1 = .nomatch → Ex p k (tokenStage g id nd rs).2 (tokenStage g' id nd rs').2) := by
  obtain ⟨r, t⟩ := rs
  obtain ⟨r', t'⟩ := rs'
  obtain ⟨hr, ht⟩ := hrs
  simp only at hr ht hex hne
  cases hr with
  | ok v =>
    have he : t'.pos = sh p k t.pos := hex v rfl
    have hnmR : SR ins p k (t.nmRaise t.pos) (t'.nmRaise t'.pos) := ht.nmRaise (Or.inl he)
    have hnmE : Ex p k (t.nmRaise t.pos) (t'.nmRaise t'.pos) := by
      unfold Ex; rw [nmRaise_pos, nmRaise_pos]; exact he
    have htok : tokLen g' nd.tok t'.pos = tokLen g nd.tok t.pos := by rw [he]; exact (hx.toks nd.tok t.pos).1
    unfold tokenStage
    simp only
    cases hk : nd.kind <;> simp only
    case eof =>
      have hsz : (g'.input.size = t'.pos) ↔ (g.input.size = t.pos) := by
        rw [he, hx.input.size]; have := hx.input.le; unfold sh; split <;> omega
      by_cases h : g.input.size = t.pos
      · rw [if_pos h, if_pos (hsz.mpr h)]
        refine ⟨⟨?_, ht⟩, fun h => by simp at h⟩
        cases nd.suppress
        · simp only [Bool.false_eq_true, if_false, he]; exact .ok (.term id t.pos 0)
        · simp only [if_true]; exact .ok .none
      · rw [if_neg h, if_neg (fun h' => h (hsz.mp h'))]
        exact ⟨⟨.nom, hnmR⟩, fun _ => hnmE⟩
    case str =>
      rw [htok]
      cases hl : tokLen g nd.tok t.pos with
      | none => exact ⟨⟨.nom, hnmR⟩, fun _ => hnmE⟩
      | some len =>
        simp only
        refine ⟨⟨?_, ht.withPos (by rw [he]; exact R_add_len hx hl)⟩, fun h => by simp at h⟩
        cases nd.suppress
        · simp only [Bool.false_eq_true, if_false, he]; exact .ok (.term id t.pos len)
        · simp only [if_true]; exact .ok .none
    all_goals
      rw [htok]
      cases hl : tokLen g nd.tok t.pos with
      | none => exact ⟨⟨.nom, hnmR⟩, fun _ => hnmE⟩
      | some len =>
        simp only
        refine ⟨⟨?_, ht.withPos (by rw [he]; exact R_add_len hx hl)⟩, fun h => by simp at h⟩
        by_cases hz : (nd.suppress || decide (len = 0)) = true
        · simp only [hz, if_true]; exact .ok .none
        · simp only [hz, he]; exact .ok (.term id t.pos len)
  | nom => exact absurd rfl hne
  | fuel => exact ⟨⟨.fuel, ht⟩, fun h => by simp [tokenStage] at h⟩
  | bad => exact ⟨⟨.bad, ht⟩, fun h => by simp [tokenStage] at h⟩

theorem commentsIter_rel {g g' : Grammar} (hx : Ext g g' ins p k) {q q' : SubParser} (hq : SPR ins p k q q')
    (cm : Nat) : ∀ n, PCR ins p k (commentsIter g q cm n) (commentsIter g' q' cm n) := by
  intro n
  induction n with
  | zero => intro s s' hs; exact ⟨⟨.fuel, hs⟩, fun _ _ h => by simp [commentsIter] at h, by simp [commentsIter]⟩
  | succ n ih =>
    intro s s' hs
    simp only [commentsIter]
    obtain ⟨⟨hr, ht⟩, hnx⟩ := hq cm s s' hs
    rcases h1 : q cm s with ⟨r, t⟩
    rcases h2 : q' cm s' with ⟨r', t'⟩
    rw [h1, h2] at hr ht hnx
    simp only at hr ht hnx
    cases hr with
    | ok v =>
      simp only
      have hsk : t.skipws = true := ht.inv.skip
      have hsk' : t'.skipws = true := by rw [ht.skipws]; exact hsk
      rw [if_pos hsk, if_pos hsk']
      obtain ⟨h3, h4⟩ := skipWs_rel hx ht
      obtain ⟨i1, i2, i3⟩ := ih _ _ h3
      exact ⟨i1, fun _ => i2 h4, i3⟩
    | nom => exact ⟨⟨.ok .none, ht⟩, fun he _ _ => hnx he rfl, by simp⟩
    | fuel => exact ⟨⟨.fuel, ht⟩, fun _ _ h => by simp at h, by simp⟩
    | bad => exact ⟨⟨.bad, ht⟩, fun _ _ h => by simp at h, by simp⟩

theorem commentsLoop_rel {g g' : Grammar} (hx : Ext g g' ins p k) {q q' : SubParser} (hq : SPR ins p k q q')
    (n : Nat) : PCR ins p k (commentsLoop g q n) (commentsLoop g' q' n) := by
  intro s s' hs
  unfold commentsLoop
  rw [hx.comments]
  cases g.comments with
  | none => exact ⟨⟨.ok .none, hs⟩, fun he _ _ => he, by simp⟩
  | some cm => exact commentsIter_rel hx hq cm n s s' hs

theorem matchNode_rel {g g' : Grammar} (hx : Ext g g' ins p k) {pc pc' : PState → Res × PState}
    (hpc : PCR ins p k pc pc') (id : Nat) (nd : Node) {s s' : PState} (hs : SR ins p k s s') :
    PR ins p k (matchNode g pc id nd s) (matchNode g' pc' id nd s') ∧
    ((matchNode g pc id nd s).1 = .nomatch →
      Ex p k (matchNode g pc id nd s).2 (matchNode g' pc' id nd s').2) := by
  rw [matchNode_eq, matchNode_eq]
  have hsk : s.skipws = true := hs.inv.skip
  have hsk' : s'.skipws = true := by rw [hs.skipws]; exact hsk
  rw [if_pos hsk, if_pos hsk']
  obtain ⟨h3, h4⟩ := skipWs_rel hx hs
  obtain ⟨c1, c2, c3⟩ := commentStage_rel hpc h3 h4
  exact tokenStage_rel hx id nd c1 c2 c3


/-! ## non-terminal nodes and the whole parse -/

theorem mem_stripEol {ins : List Char} (hn : NoEol ins) {w : List Char} (hw : ∀ c ∈ ins, c ∈ w) :
    ∀ c ∈ ins, c ∈ stripEol w := by
  intro c hc
  unfold stripEol
  rw [List.mem_filter]
  refine ⟨hw c hc, ?_⟩
  have h1 : c ≠ '\n' := fun e => hn.1 (e ▸ hc)
  have h2 : c ≠ '\r' := fun e => hn.2 (e ▸ hc)
  simp [h1, h2]

theorem SR.setWs {s s' : PState} (h : SR ins p k s s') {w : List Char} (hw : ∀ c ∈ ins, c ∈ w) :
    SR ins p k (s.setWs w) (s'.setWs w) := by
  unfold PState.setWs
  refine ⟨⟨h.inv.skip, ?_, hw, h.inv.eol⟩, h.pos, h.skipws, ?_, rfl, h.eolterm, h.inC, h.cp, h.nm⟩
  · show ∀ c ∈ ins, c ∈ (if s.eolterm = true then stripEol w else w)
    split
    · next he => exact mem_stripEol (h.inv.eol he) hw
    · exact hw
  · show (if s'.eolterm = true then stripEol w else w) = (if s.eolterm = true then stripEol w else w)
    rw [h.eolterm]

theorem SR.setSkip {s s' : PState} (h : SR ins p k s s') :
    SR ins p k { s with skipws := true } { s' with skipws := true } :=
  ⟨⟨rfl, h.inv.ws, h.inv.real, h.inv.eol⟩, h.pos, rfl, h.ws, h.realWs, h.eolterm, h.inC, h.cp, h.nm⟩

theorem SR.setEolTrue {s s' : PState} (h : SR ins p k s s') (hn : NoEol ins) :
    SR ins p k (s.setEolterm true) (s'.setEolterm true) := by
  unfold PState.setEolterm
  refine ⟨⟨h.inv.skip, ?_, h.inv.real, fun _ => hn⟩, h.pos, h.skipws, ?_, h.realWs, rfl, h.inC, h.cp, h.nm⟩
  · show ∀ c ∈ ins, c ∈ (if true = true then stripEol s.ws else s.realWs)
    rw [if_pos rfl]; exact mem_stripEol hn h.inv.ws
  · show (if true = true then stripEol s'.ws else s'.realWs) = (if true = true then stripEol s.ws else s.realWs)
    rw [h.ws, h.realWs]

theorem SR.setEolOld {s s' : PState} (h : SR ins p k s s') (old : Bool) (ho : old = true → NoEol ins) :
    SR ins p k (s.setEolterm old) (s'.setEolterm old) := by
  unfold PState.setEolterm
  refine ⟨⟨h.inv.skip, ?_, h.inv.real, ho⟩, h.pos, h.skipws, ?_, h.realWs, rfl, h.inC, h.cp, h.nm⟩
  · show ∀ c ∈ ins, c ∈ (if old = true then stripEol s.ws else s.realWs)
    split
    · next he => exact mem_stripEol (ho he) h.inv.ws
    · exact h.inv.real
  · show (if old = true then stripEol s'.ws else s'.realWs) = (if old = true then stripEol s.ws else s.realWs)
    rw [h.ws, h.realWs]

/-- related loop bodies -/
def BR (ins : List Char) (p k : Nat) (b b' : PState → Res × PState) : Prop :=
  ∀ s s', SR ins p k s s' → PR ins p k (b s) (b' s')

theorem skipsAll_ws {nd : Node} (h : Node.skipsAll ins nd = true) {w : List Char} (hw : nd.ws = some w) :
    ∀ c ∈ ins, c ∈ w := by
  unfold Node.skipsAll at h
  rw [hw] at h
  simp only [Bool.and_eq_true, List.all_eq_true, decide_eq_true_eq] at h
  exact h.1.1

theorem skipsAll_skip {nd : Node} (h : Node.skipsAll ins nd = true) {b : Bool} (hb : nd.skipws = some b) :
    b = true := by
  unfold Node.skipsAll at h
  rw [hb] at h
  cases b
  · simp at h
  · rfl

theorem skipsAll_eol {nd : Node} (h : Node.skipsAll ins nd = true) (he : nd.eolterm = true) : NoEol ins := by
  unfold Node.skipsAll at h
  rw [he] at h
  simp only [Bool.and_eq_true, Bool.not_true, Bool.false_or, Bool.not_eq_true', List.contains_eq_mem,
    decide_eq_false_iff_not] at h
  exact ⟨h.2.1, h.2.2⟩

theorem withWsCtx_rel {nd : Node} (hnd : Node.skipsAll ins nd = true) {b b' : PState → Res × PState}
    (hb : BR ins p k b b') : BR ins p k (withWsCtx nd b) (withWsCtx nd b') := by
  intro s s' hs
  unfold withWsCtx
  simp only
  cases hw : nd.ws with
  | none =>
    cases hk : nd.skipws with
    | none => simp only; exact hb s s' hs
    | some sk =>
      have := skipsAll_skip hnd hk; subst this
      simp only
      obtain ⟨hr, ht⟩ := hb _ _ hs.setSkip
      refine ⟨hr, ?_⟩
      have := ht.setSkip
      rw [hs.skipws, hs.inv.skip]
      exact this
  | some w =>
    have hw' := skipsAll_ws hnd hw
    cases hk : nd.skipws with
    | none =>
      simp only
      obtain ⟨hr, ht⟩ := hb _ _ (hs.setWs hw')
      refine ⟨hr, ?_⟩
      rw [hs.ws]
      exact ht.setWs hs.inv.ws
    | some sk =>
      have := skipsAll_skip hnd hk; subst this
      simp only
      obtain ⟨hr, ht⟩ := hb _ _ (hs.setWs hw').setSkip
      refine ⟨hr, ?_⟩
      rw [hs.ws, hs.skipws, hs.inv.skip]
      exact (ht.setWs hs.inv.ws).setSkip

theorem withEol_rel {nd : Node} (hnd : Node.skipsAll ins nd = true) {b b' : PState → Res × PState}
    (hb : BR ins p k b b') : BR ins p k (withEol nd b) (withEol nd b') := by
  intro s s' hs
  unfold withEol
  simp only
  cases he : nd.eolterm with
  | false => simp only [Bool.false_eq_true, if_false]; exact hb s s' hs
  | true =>
    simp only [if_true]
    have hn := skipsAll_eol hnd he
    obtain ⟨hr, ht⟩ := hb _ _ (hs.setEolTrue hn)
    refine ⟨hr, ?_⟩
    rw [hs.eolterm]
    exact ht.setEolOld s.eolterm hs.inv.eol

theorem bodyNode_rel {q q' : SubParser} (hq : SPR ins p k q q') (n : Nat) {nd : Node}
    (hnd : Node.skipsAll ins nd = true) : BR ins p k (bodyNode q n nd) (bodyNode q' n nd) := by
  intro s s' hs
  unfold bodyNode
  cases hk : nd.kind <;> simp only
  case str => exact ⟨.bad, hs⟩
  case re => exact ⟨.bad, hs⟩
  case eof => exact ⟨.bad, hs⟩
  case seq =>
    have hb : BR ins p k (fun s1 => seqLoop q nd.kids s1 []) (fun s1 => seqLoop q' nd.kids s1 []) :=
      fun t t' ht => seqLoop_rel hq nd.kids t t' [] ht
    obtain ⟨hr, ht⟩ := withWsCtx_rel hnd hb s s' hs
    rcases h1 : withWsCtx nd (fun s1 => seqLoop q nd.kids s1 []) s with ⟨r, t⟩
    rcases h2 : withWsCtx nd (fun s1 => seqLoop q' nd.kids s1 []) s' with ⟨r', t'⟩
    rw [h1, h2] at hr ht
    simp only at hr ht
    cases hr with
    | ok v => exact ⟨.ok v, ht⟩
    | nom => exact ⟨.nom, ht.withPos hs.pos⟩
    | fuel => exact ⟨.fuel, ht⟩
    | bad => exact ⟨.bad, ht⟩
  case choice =>
    have hb : BR ins p k (fun s1 => choiceLoop q nd.kids s.pos s1) (fun s1 => choiceLoop q' nd.kids s'.pos s1) :=
      fun t t' ht => choiceLoop_rel hq nd.kids s.pos s'.pos t t' hs.pos ht
    obtain ⟨hr, ht⟩ := withWsCtx_rel hnd hb s s' hs
    rcases h1 : withWsCtx nd (fun s1 => choiceLoop q nd.kids s.pos s1) s with ⟨r, t⟩
    rcases h2 : withWsCtx nd (fun s1 => choiceLoop q' nd.kids s'.pos s1) s' with ⟨r', t'⟩
    rw [h1, h2] at hr ht
    simp only at hr ht
    cases hr with
    | ok v => exact ⟨.ok v, ht⟩
    | nom => exact ⟨.nom, ht.nmRaise hs.pos⟩
    | fuel => exact ⟨.fuel, ht⟩
    | bad => exact ⟨.bad, ht⟩
  case opt =>
    rcases hkids : nd.kids with _ | ⟨e, _ | ⟨e2, es⟩⟩ <;> simp only
    · exact ⟨.bad, hs⟩
    · obtain ⟨hr, ht⟩ := (hq e s s' hs).1
      rcases h1 : q e s with ⟨r, t⟩
      rcases h2 : q' e s' with ⟨r', t'⟩
      rw [h1, h2] at hr ht
      simp only at hr ht
      cases hr with
      | ok v => exact ⟨.ok (.list [v]), ht⟩
      | nom => exact ⟨.ok .none, ht.withPos hs.pos⟩
      | fuel => exact ⟨.fuel, ht⟩
      | bad => exact ⟨.bad, ht⟩
    · exact ⟨.bad, hs⟩
  case star =>
    rcases hkids : nd.kids with _ | ⟨e, _ | ⟨e2, es⟩⟩ <;> simp only
    · exact ⟨.bad, hs⟩
    · exact withEol_rel hnd (fun t t' ht => repLoop_rel hq e nd.sep n t t' [] false false ht) s s' hs
    · exact ⟨.bad, hs⟩
  case plus =>
    rcases hkids : nd.kids with _ | ⟨e, _ | ⟨e2, es⟩⟩ <;> simp only
    · exact ⟨.bad, hs⟩
    · exact withEol_rel hnd (fun t t' ht => repLoop_rel hq e nd.sep n t t' [] true false ht) s s' hs
    · exact ⟨.bad, hs⟩
  case unord =>
    have hb : BR ins p k (fun s1 => unordLoop q nd.sep n nd.kids s1 [] true .none)
        (fun s1 => unordLoop q' nd.sep n nd.kids s1 [] true .none) :=
      fun t t' ht => unordLoop_rel hq nd.sep n nd.kids t t' [] true .none ht
    obtain ⟨hr, ht⟩ := withEol_rel hnd hb s s' hs
    rcases h1 : withEol nd (fun s1 => unordLoop q nd.sep n nd.kids s1 [] true .none) s with ⟨r, t⟩
    rcases h2 : withEol nd (fun s1 => unordLoop q' nd.sep n nd.kids s1 [] true .none) s' with ⟨r', t'⟩
    rw [h1, h2] at hr ht
    simp only at hr ht
    cases hr with
    | ok v => exact ⟨.ok v, ht⟩
    | nom => exact ⟨.nom, (ht.withPos hs.pos).nmRaise hs.pos⟩
    | fuel => exact ⟨.fuel, ht⟩
    | bad => exact ⟨.bad, ht⟩
  case andP =>
    rcases hkids : nd.kids with _ | ⟨e, _ | ⟨e2, es⟩⟩ <;> simp only
    · exact ⟨.bad, hs⟩
    · obtain ⟨hr, ht⟩ := (hq e s s' hs).1
      rcases h1 : q e s with ⟨r, t⟩
      rcases h2 : q' e s' with ⟨r', t'⟩
      rw [h1, h2] at hr ht
      simp only at hr ht
      cases hr with
      | ok v => exact ⟨.ok .none, ht.withPos hs.pos⟩
      | nom => exact ⟨.nom, ht.withPos hs.pos⟩
      | fuel => exact ⟨.fuel, ht⟩
      | bad => exact ⟨.bad, ht⟩
    · exact ⟨.bad, hs⟩
  case notP =>
    rcases hkids : nd.kids with _ | ⟨e, _ | ⟨e2, es⟩⟩ <;> simp only
    · exact ⟨.bad, hs⟩
    · obtain ⟨hr, ht⟩ := (hq e s s' hs).1
      rcases h1 : q e s with ⟨r, t⟩
      rcases h2 : q' e s' with ⟨r', t'⟩
      rw [h1, h2] at hr ht
      simp only at hr ht
      cases hr with
      | ok v => exact ⟨.nom, (ht.withPos hs.pos).nmRaise hs.pos⟩
      | nom => exact ⟨.ok .none, ht.withPos hs.pos⟩
      | fuel => exact ⟨.fuel, ht⟩
      | bad => exact ⟨.bad, ht⟩
    · exact ⟨.bad, hs⟩

theorem wrap_rel (id : Nat) (nd : Node) {b b' : PState → Res × PState} (hb : BR ins p k b b')
    {s s' : PState} (hs : SR ins p k s s') :
    PR ins p k (wrap false id nd b s) (wrap false id nd b' s') ∧
    (Ex p k s s' → (wrap false id nd b s).1 = .nomatch →
      Ex p k (wrap false id nd b s).2 (wrap false id nd b' s').2) := by
  unfold wrap cacheHit
  simp only [Bool.false_eq_true, if_false]
  obtain ⟨hr, ht⟩ := hb s s' hs
  rcases h1 : b s with ⟨r, t⟩
  rcases h2 : b' s' with ⟨r', t'⟩
  rw [h1, h2] at hr ht
  simp only at hr ht
  cases hr with
  | ok v =>
    simp only [cacheStore, Bool.false_eq_true, if_false, finish_shift]
    exact ⟨⟨.ok _, ht⟩, fun _ h => by simp at h⟩
  | nom =>
    simp only [cacheStore, Bool.false_eq_true, if_false]
    exact ⟨⟨.nom, ht.withPos hs.pos⟩, fun he _ => he⟩
  | fuel => exact ⟨⟨.fuel, ht⟩, fun _ h => by simp [cacheStore] at h⟩
  | bad => exact ⟨⟨.bad, ht⟩, fun _ h => by simp [cacheStore] at h⟩

theorem nodeParse_rel {g g' : Grammar} (hx : Ext g g' ins p k) {q q' : SubParser} (hq : SPR ins p k q q')
    (n : Nat) : SPR ins p k (nodeParse g q n) (nodeParse g' q' n) := by
  intro id s s' hs
  unfold nodeParse
  rw [hx.nodes, hx.memo, hx.memo']
  cases hn : g.nodes[id]? with
  | none => exact ⟨⟨.bad, hs⟩, fun _ h => by simp at h⟩
  | some nd =>
    simp only
    have hnd := hx.modes id nd hn
    have hm := fun (_ : Unit) => matchNode_rel hx (commentsLoop_rel hx hq n) id nd hs
    have hw := fun (_ : Unit) => wrap_rel id nd (bodyNode_rel hq n hnd) hs
    cases hk : nd.kind <;> simp only
    case str => exact ⟨(hm ()).1, fun _ => (hm ()).2⟩
    case re => exact ⟨(hm ()).1, fun _ => (hm ()).2⟩
    case eof => exact ⟨(hm ()).1, fun _ => (hm ()).2⟩
    all_goals exact hw ()

theorem parse_rel {g g' : Grammar} (hx : Ext g g' ins p k) :
    ∀ n, SPR ins p k (parse g n) (parse g' n) := by
  intro n
  induction n with
  | zero => intro id s s' hs; exact ⟨⟨.fuel, hs⟩, fun _ h => by simp [parse] at h⟩
  | succ n ih => exact nodeParse_rel hx ih n


/-! ## the decidable side conditions imply the hypotheses -/

theorem tokLen_none_of_rows {g : Grammar} (h : rowsOkB g = true) {t q : Nat} (hq : g.input.size < q) :
    tokLen g t q = none := by
  unfold tokLen
  cases ht : g.toks[t]? with
  | none => rfl
  | some row =>
    simp only
    have hmem : row ∈ g.toks := Array.mem_of_getElem? ht
    unfold rowsOkB at h
    rw [Array.all_eq_true'] at h
    have := h row hmem
    simp only [decide_eq_true_eq] at this
    rw [Array.getElem?_eq_none (by omega)]
    rfl

theorem tokLen_none_of_size {g : Grammar} {t q : Nat} (ht : g.toks.size ≤ t) : tokLen g t q = none := by
  unfold tokLen
  rw [Array.getElem?_eq_none ht]

theorem tokCompat_of_check {g g' : Grammar} (hc : tokCompatB g g' p k = true) (hr : rowsOkB g = true)
    (hr' : rowsOkB g' = true) (hsz : g'.input.size = g.input.size + k) (hp : p ≤ g.input.size) :
    TokCompat g g' p k := by
  intro t q
  by_cases hq : q ≤ g.input.size
  · by_cases ht : t < max g.toks.size g'.toks.size
    · unfold tokCompatB at hc
      rw [List.all_eq_true] at hc
      have h1 := hc t (List.mem_range.mpr ht)
      rw [List.all_eq_true] at h1
      have h2 := h1 q (List.mem_range.mpr (by omega))
      unfold tokCompatAt at h2
      rw [Bool.and_eq_true, beq_iff_eq] at h2
      refine ⟨h2.1, fun len hl hqp => ?_⟩
      have h3 := h2.2
      rw [hl] at h3
      simp only [Bool.or_eq_true, decide_eq_true_eq] at h3
      omega
    · have a : tokLen g t q = none := tokLen_none_of_size (by omega)
      have b : tokLen g' t (sh p k q) = none := tokLen_none_of_size (by omega)
      rw [a, b]; exact ⟨rfl, fun _ h => by simp at h⟩
  · have a : tokLen g t q = none := tokLen_none_of_rows hr (by omega)
    have b : tokLen g' t (sh p k q) = none := tokLen_none_of_rows hr' (by unfold sh; split <;> omega)
    rw [a, b]; exact ⟨rfl, fun _ h => by simp at h⟩

theorem modes_of_check {g : Grammar} (h : modesSkipB g ins = true) (id : Nat) (nd : Node)
    (hn : g.nodes[id]? = some nd) : Node.skipsAll ins nd = true := by
  unfold modesSkipB at h
  rw [Array.all_eq_true'] at h
  exact h nd (Array.mem_of_getElem? hn)

theorem ext_of_check {g : Grammar} {p : Nat} {ins : List Char} {toks' : Array (Array (Option Nat))}
    {skipws : Bool} {ws : List Char} (h : gapExtOkB g p ins toks' skipws ws = true) :
    Ext g (g.ext p ins toks') ins p ins.length ∧ skipws = true ∧ (∀ c ∈ ins, c ∈ ws) := by
  unfold gapExtOkB at h
  simp only [Bool.and_eq_true, Bool.not_eq_true', decide_eq_true_eq, List.all_eq_true] at h
  obtain ⟨⟨⟨⟨⟨⟨⟨hm, hp⟩, hs⟩, hw⟩, hmo⟩, hr⟩, hr'⟩, hc⟩ := h
  have hin := extendGap_inputExt g.input p ins hp
  refine ⟨⟨rfl, rfl, hm, hm, hin, ?_, modes_of_check hmo⟩, hs, hw⟩
  exact tokCompat_of_check hc hr hr' hin.size hp

end Peg
