import TextxVerif.Proofs.DotStmt
/-! The whole document: regenerated `HEADER`, statements, closing brace. -/
namespace Dot

/-- lexing and parsing the regenerated `HEADER` (evaluated, not assumed) -/
def headerState : Option PState :=
  match steps .start Gen.Dot.header with
  | some (.start, ts) => psteps pinit ts
  | _ => none

def bndB (s : PState) : Bool :=
  decide (1 ≤ s.depth) &&
    (match s.mode with
     | .stmt | .stmtEnd | .afterAttrs _ _ => true
     | _ => false)

/-- the recogniser state after `HEADER` -/
def hdrSt : PState := headerState.getD pinit

/-- the statements of `HEADER` (`fontname = …`, `node[…]`, `edge[…]`, …) -/
def headerEvs : List Ev := (flushed hdrSt).reverse

/-- `HEADER` opens `digraph textX {` and ends at a statement boundary of depth 1 -/
theorem header_ok : headerState = some hdrSt ∧ bndB hdrSt = true ∧ hdrSt.depth = 1 := by
  decide +kernel

theorem bnd_of_bndB {s : PState} (h : bndB s = true) : Bnd s := by
  obtain ⟨d, m, out⟩ := s
  simp only [bndB, Bool.and_eq_true, decide_eq_true_eq] at h
  refine ⟨h.1, ?_⟩
  cases m <;> simp_all

theorem header_lex_parse :
    ∃ htoks, Lx .start Gen.Dot.header .start htoks ∧ psteps pinit htoks = some hdrSt := by
  have h := header_ok.1
  unfold headerState at h
  split at h
  · rename_i ts hs
    exact ⟨ts, hs, h⟩
  · simp at h

/-- **Document theorem.** If every string spliced into the statements is safe, the
rendered text is accepted by the DOT recogniser, which reports the header's statements
followed by exactly the statements rendered, in order. -/
theorem recognise_renderDoc (ss : List Stmt) (h : ∀ s ∈ ss, StmtOk s) :
    recognise (renderDoc ss) = some (headerEvs ++ ss.flatMap stmtEvs) := by
  obtain ⟨htoks, hl, hp⟩ := header_lex_parse
  have l2 := lex_stmts ss h
  have l3 : Lx .start cl!"\n}\n" .start [.rbrace] := by decide
  have hlex : steps .start (renderDoc ss) = some (.start, htoks ++ ss.flatMap stmtToks ++ [.rbrace]) :=
    (hl.append l2).append l3
  have hb : Bnd hdrSt := bnd_of_bndB header_ok.2.1
  obtain ⟨st', hps, hb', hd', hf'⟩ := parse_stmts ss hdrSt hb
  have hparse : psteps pinit (htoks ++ ss.flatMap stmtToks ++ [.rbrace]) =
      some { depth := 0, mode := .done, out := flushed st' } := by
    rw [psteps_append, psteps_append, hp, Option.bind_some, hps, Option.bind_some]
    simp only [psteps]
    rw [pstep_rbrace_outer hb' (by rw [hd']; exact header_ok.2.2)]
  simp only [recognise, lex, hlex, finish, Option.map_some, List.append_nil, parse, hparse, if_true]
  rw [hf']
  simp [headerEvs]

end Dot
