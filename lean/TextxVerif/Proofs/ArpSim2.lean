import TextxVerif.Proofs.ArpSim
/-! Simulation lemmas, node level, for grammars without comment model and without
whitespace-context changes (`Uniform`). -/
namespace Peg

/-- hypotheses on the parser model under which results are determined by position -/
structure Uniform (g : Grammar) : Prop where
  noComments : g.comments = none
  noCtx : ∀ (id : Nat) (nd : Node), g.nodes[id]? = some nd → nd.ws = none ∧ nd.skipws = none ∧ nd.eolterm = false

/-- the token-matching tail of `Match.parse` (after whitespace / comments) -/
def tokStep (g : Grammar) (id : Nat) (nd : Node) (s : PState) : Res × PState :=
  let cpos := s.pos
  match nd.kind with
  | .eof =>
      if g.input.size = cpos then (.ok (if nd.suppress then .none else .term id cpos 0), s)
      else (.nomatch, s.nmRaise cpos)
  | .str =>
      match tokLen g nd.tok cpos with
      | some len => (.ok (if nd.suppress then .none else .term id cpos len), { s with pos := cpos + len })
      | .none => (.nomatch, s.nmRaise cpos)
  | _ =>
      match tokLen g nd.tok cpos with
      | some len =>
          (.ok (if nd.suppress || len = 0 then .none else .term id cpos len), { s with pos := cpos + len })
      | .none => (.nomatch, s.nmRaise cpos)

theorem lookup_mem {l : List (Nat × Nat)} {a b : Nat} (h : l.lookup a = some b) : (a, b) ∈ l := by
  induction l with
  | nil => simp [List.lookup] at h
  | cons x xs ih =>
    obtain ⟨x1, x2⟩ := x
    simp only [List.lookup] at h
    split at h
    · rename_i heq; simp at heq; cases h; subst heq; simp
    · simp [ih h]

theorem IdCP.cons {l : List (Nat × Nat)} (h : IdCP l) (a : Nat) : IdCP ((a, a) :: l) := by
  intro x y hm
  simp only [List.mem_cons, Prod.mk.injEq] at hm
  rcases hm with ⟨rfl, rfl⟩ | hm
  · rfl
  · exact h x y hm

/-- without a comment model, `Match.parse` = skip whitespace, maybe record an identity
entry in the comment cache, match the token -/
theorem matchNode_nf (g : Grammar) (hc : g.comments = none) (p : SubParser) (k id : Nat) (nd : Node) (s : PState)
    (hs : s.inComments = false) (hid : IdCP s.commentPos) :
    ∃ l, IdCP l ∧ matchNode g (commentsLoop g p k) id nd s =
      tokStep g id nd { (if s.skipws then skipWs g s else s) with commentPos := l } := by
  have hcl : ∀ s', commentsLoop g p k s' = (.ok .none, s') := by intro s'; simp [commentsLoop, hc]
  unfold matchNode
  simp only [hcl]
  generalize hs' : (if s.skipws = true then skipWs g s else s) = s'
  have hs'c : s'.inComments = false := by subst hs'; split <;> simp [skipWs, hs]
  have hs'id : IdCP s'.commentPos := by subst hs'; split <;> simpa [skipWs] using hid
  by_cases hsk : s'.skipws = true
  · cases hl : s'.commentPos.lookup s'.pos with
    | some q =>
      have : s'.pos = q := hs'id _ _ (lookup_mem hl)
      subst this
      refine ⟨s'.commentPos, hs'id, ?_⟩
      simp only [hsk, if_true, hl]
      rfl
    | none =>
      refine ⟨(s'.pos, s'.pos) :: s'.commentPos, hs'id.cons _, ?_⟩
      simp only [hsk, if_true, hl, hs'c]
      cases s' with | mk a1 a2 a3 a4 a5 a6 a7 a8 a9 =>
      simp only at hs'c; subst hs'c
      rfl
  · refine ⟨(s'.pos, s'.pos) :: s'.commentPos, hs'id.cons _, ?_⟩
    simp only [hsk, hs'c]
    cases s' with | mk a1 a2 a3 a4 a5 a6 a7 a8 a9 =>
    simp only at hs'c; subst hs'c
    rfl

variable {Q : PState → PState → Prop}

theorem skipWs_Q (hQ : QOK Q) (g : Grammar) {a b : PState} (h : Q a b) :
    Q (if a.skipws then skipWs g a else a) (if b.skipws then skipWs g b else b) := by
  rw [← hQ.skipws h]
  split
  · unfold skipWs
    have e : skipWsFrom g.input b.ws (g.input.size + 1 - b.pos) b.pos =
        skipWsFrom g.input a.ws (g.input.size + 1 - a.pos) a.pos := by rw [hQ.ws h, hQ.pos h]
    rw [e]; exact hQ.setPos h _
  · exact h

theorem tokStep_sim (hQ : QOK Q) (g : Grammar) (id : Nat) (nd : Node) : SimB Q (tokStep g id nd) (tokStep g id nd) := by
  intro sA sB r tA hq h1 _
  unfold tokStep at h1 ⊢
  rw [← hQ.pos hq]
  cases hk : nd.kind <;> simp only [hk] at h1 ⊢
  case eof =>
    by_cases hc : g.input.size = sA.pos
    · simp only [hc, if_true] at h1 ⊢; cases h1; exact ⟨sB, rfl, hq⟩
    · simp only [hc, if_false] at h1 ⊢; cases h1; exact ⟨_, rfl, hQ.nmR hq _⟩
  all_goals
    cases ht : tokLen g nd.tok sA.pos with
    | some len => simp only [ht] at h1 ⊢; cases h1; exact ⟨_, rfl, hQ.setPos hq _⟩
    | none => simp only [ht] at h1 ⊢; cases h1; exact ⟨_, rfl, hQ.nmR hq _⟩

theorem matchNode_sim (hQ : QOK Q) (g : Grammar) (hc : g.comments = none) (pA pB : SubParser) (k k' id : Nat)
    (nd : Node) : SimB Q (matchNode g (commentsLoop g pA k) id nd) (matchNode g (commentsLoop g pB k') id nd) := by
  intro sA sB r tA hq h1 hr
  obtain ⟨lA, hlA, eA⟩ := matchNode_nf g hc pA k id nd sA (hQ.notInC hq).1 (hQ.idcp hq).1
  obtain ⟨lB, hlB, eB⟩ := matchNode_nf g hc pB k' id nd sB (hQ.notInC hq).2 (hQ.idcp hq).2
  rw [eA] at h1; rw [eB]
  exact tokStep_sim hQ g id nd _ _ r tA (hQ.setCP (skipWs_Q hQ g hq) lA lB hlA hlB) h1 hr

theorem withWsCtx_uniform (nd : Node) (h1 : nd.ws = none) (h2 : nd.skipws = none) (b : PState → Res × PState)
    (s : PState) : withWsCtx nd b s = b s := by
  unfold withWsCtx; simp [h1, h2]

theorem withEol_uniform (nd : Node) (h : nd.eolterm = false) (b : PState → Res × PState) (s : PState) :
    withEol nd b s = b s := by
  unfold withEol; simp [h]

/-- post-processing of a simulated body by a function that treats related states alike -/
theorem post_sim {bA bB : PState → Res × PState} (h : SimB Q bA bB)
    (f : Nat → Res × PState → Res × PState)
    (hfuel : ∀ c x, x.1 = .fuel → (f c x).1 = .fuel)
    (hf : ∀ c r tA tB, Q tA tB → ∃ tB', f c (r, tB) = ((f c (r, tA)).1, tB') ∧ Q (f c (r, tA)).2 tB')
    (hpos : ∀ {a b}, Q a b → a.pos = b.pos) :
    SimB Q (fun s => f s.pos (bA s)) (fun s => f s.pos (bB s)) := by
  intro sA sB r tA hq h1 hr
  simp only [] at h1 ⊢
  cases hb : bA sA with | mk r1 s1 =>
  have hne : r1 ≠ .fuel := by
    intro e
    have := hfuel sA.pos (bA sA) (by rw [hb]; exact e)
    rw [h1] at this; exact hr this
  obtain ⟨tB1, hB, hq1⟩ := h sA sB r1 s1 hq hb hne
  rw [hb] at h1
  rw [hB, ← hpos hq]
  obtain ⟨tB', e1, e2⟩ := hf sA.pos r1 s1 tB1 hq1
  rw [h1] at e1 e2
  exact ⟨tB', e1, e2⟩

/-- the `_parse` methods map simulating sub-parsers to simulating bodies, provided the two context
managers of the node (`ws` / `skipws` of sequences and choices, `eolterm` of repetitions) do -/
theorem bodyNode_sim_gen (hQ : QOK Q) {pA pB : SubParser} (h : Sim Q pA pB) (k : Nat) (nd : Node)
    (hctx : ∀ {bA bB : PState → Res × PState}, SimB Q bA bB → SimB Q (withWsCtx nd bA) (withWsCtx nd bB))
    (heolc : ∀ {bA bB : PState → Res × PState}, SimB Q bA bB → SimB Q (withEol nd bA) (withEol nd bB)) :
    SimB Q (bodyNode pA k nd) (bodyNode pB k nd) := by
  have hp : ∀ e, SimB Q (fun s => pA e s) (fun s => pB e s) := fun e sA sB r tA hq h1 hr => h e sA sB r tA hq h1 hr
  intro sA sB r tA hq h1 hr
  unfold bodyNode at h1 ⊢
  cases hkind : nd.kind <;> simp only [hkind] at h1 ⊢
  case seq =>
    exact post_sim (hctx (fun sA sB r tA hq h1 hr => seqLoop_sim hQ h nd.kids sA sB [] r tA hq h1 hr))
      (fun c x => match x with | (.nomatch, s2) => (.nomatch, { s2 with pos := c }) | r => r)
      (by intro c x hx; obtain ⟨r, s2⟩ := x; simp at hx; subst hx; rfl)
      (by intro c r tA tB hq
          rcases r with v | _ | _ | _
          · exact ⟨tB, rfl, hq⟩
          · exact ⟨_, rfl, hQ.setPos hq c⟩
          · exact ⟨tB, rfl, hq⟩
          · exact ⟨tB, rfl, hq⟩)
      hQ.pos sA sB r tA hq h1 hr
  case choice =>
    rw [← hQ.pos hq]
    cases hb : withWsCtx nd (fun s1 => choiceLoop pA nd.kids sA.pos s1) sA with | mk r1 s1 =>
    rw [hb] at h1
    have hne : r1 ≠ .fuel := by intro e; subst e; (try simp only [] at h1); cases h1; exact hr rfl
    obtain ⟨tB1, hB, hq1⟩ := hctx (fun sA' sB' r tA hq h1 hr => choiceLoop_sim hQ h nd.kids sA.pos sA' sB' r tA hq h1 hr)
      sA sB r1 s1 hq hb hne
    rw [hB]
    rcases r1 with v | _ | _ | _
    · (try simp only [] at h1 ⊢); cases h1; exact ⟨tB1, rfl, hq1⟩
    · (try simp only [] at h1 ⊢); cases h1; exact ⟨_, rfl, hQ.nmR hq1 _⟩
    · exact absurd rfl hne
    · (try simp only [] at h1 ⊢); cases h1; exact ⟨tB1, rfl, hq1⟩
  case opt =>
    cases hkids : nd.kids with
    | nil => simp only [hkids] at h1 ⊢; cases h1; exact ⟨sB, rfl, hq⟩
    | cons e es =>
      cases es with
      | nil =>
        simp only [hkids] at h1 ⊢
        exact post_sim (hp e)
          (fun c x => match x with | (.ok v, s2) => (.ok (.list [v]), s2)
                                    | (.nomatch, s2) => (.ok .none, { s2 with pos := c }) | r => r)
          (by intro c x hx; obtain ⟨r, s2⟩ := x; simp at hx; subst hx; rfl)
          (by intro c r tA tB hq
              rcases r with v | _ | _ | _
              · exact ⟨tB, rfl, hq⟩
              · exact ⟨_, rfl, hQ.setPos hq c⟩
              · exact ⟨tB, rfl, hq⟩
              · exact ⟨tB, rfl, hq⟩)
          hQ.pos sA sB r tA hq h1 hr
      | cons e2 es2 => simp only [hkids] at h1 ⊢; cases h1; exact ⟨sB, rfl, hq⟩
  case star =>
    cases hkids : nd.kids with
    | nil => simp only [hkids] at h1 ⊢; cases h1; exact ⟨sB, rfl, hq⟩
    | cons e es =>
      cases es with
      | nil =>
        simp only [hkids] at h1 ⊢
        exact heolc (fun sA sB r tA hq h1 hr => repLoop_sim hQ h e nd.sep k sA sB [] false false r tA hq h1 hr)
          sA sB r tA hq h1 hr
      | cons e2 es2 => simp only [hkids] at h1 ⊢; cases h1; exact ⟨sB, rfl, hq⟩
  case plus =>
    cases hkids : nd.kids with
    | nil => simp only [hkids] at h1 ⊢; cases h1; exact ⟨sB, rfl, hq⟩
    | cons e es =>
      cases es with
      | nil =>
        simp only [hkids] at h1 ⊢
        exact heolc (fun sA sB r tA hq h1 hr => repLoop_sim hQ h e nd.sep k sA sB [] true false r tA hq h1 hr)
          sA sB r tA hq h1 hr
      | cons e2 es2 => simp only [hkids] at h1 ⊢; cases h1; exact ⟨sB, rfl, hq⟩
  case unord =>
    exact post_sim (heolc (fun sA sB r tA hq h1 hr => unordLoop_sim hQ h nd.sep k nd.kids sA sB [] true none r tA hq h1 hr))
      (fun c x => match x with | (.nomatch, s2) => (.nomatch, ({ s2 with pos := c }).nmRaise c) | r => r)
      (by intro c x hx; obtain ⟨r, s2⟩ := x; simp at hx; subst hx; rfl)
      (by intro c r tA tB hq
          rcases r with v | _ | _ | _
          · exact ⟨tB, rfl, hq⟩
          · exact ⟨_, rfl, hQ.nmR (hQ.setPos hq c) c⟩
          · exact ⟨tB, rfl, hq⟩
          · exact ⟨tB, rfl, hq⟩)
      hQ.pos sA sB r tA hq h1 hr
  case andP =>
    cases hkids : nd.kids with
    | nil => simp only [hkids] at h1 ⊢; cases h1; exact ⟨sB, rfl, hq⟩
    | cons e es =>
      cases es with
      | nil =>
        simp only [hkids] at h1 ⊢
        exact post_sim (hp e)
          (fun c x => match x with | (.ok _, s2) => (.ok .none, { s2 with pos := c })
                                    | (.nomatch, s2) => (.nomatch, { s2 with pos := c }) | r => r)
          (by intro c x hx; obtain ⟨r, s2⟩ := x; simp at hx; subst hx; rfl)
          (by intro c r tA tB hq
              rcases r with v | _ | _ | _
              · exact ⟨_, rfl, hQ.setPos hq c⟩
              · exact ⟨_, rfl, hQ.setPos hq c⟩
              · exact ⟨tB, rfl, hq⟩
              · exact ⟨tB, rfl, hq⟩)
          hQ.pos sA sB r tA hq h1 hr
      | cons e2 es2 => simp only [hkids] at h1 ⊢; cases h1; exact ⟨sB, rfl, hq⟩
  case notP =>
    cases hkids : nd.kids with
    | nil => simp only [hkids] at h1 ⊢; cases h1; exact ⟨sB, rfl, hq⟩
    | cons e es =>
      cases es with
      | nil =>
        simp only [hkids] at h1 ⊢
        exact post_sim (hp e)
          (fun c x => match x with | (.ok _, s2) => (.nomatch, ({ s2 with pos := c }).nmRaise c)
                                    | (.nomatch, s2) => (.ok .none, { s2 with pos := c }) | r => r)
          (by intro c x hx; obtain ⟨r, s2⟩ := x; simp at hx; subst hx; rfl)
          (by intro c r tA tB hq
              rcases r with v | _ | _ | _
              · exact ⟨_, rfl, hQ.nmR (hQ.setPos hq c) c⟩
              · exact ⟨_, rfl, hQ.setPos hq c⟩
              · exact ⟨tB, rfl, hq⟩
              · exact ⟨tB, rfl, hq⟩)
          hQ.pos sA sB r tA hq h1 hr
      | cons e2 es2 => simp only [hkids] at h1 ⊢; cases h1; exact ⟨sB, rfl, hq⟩
  all_goals (cases h1; exact ⟨sB, rfl, hq⟩)

/-- nodes without `ws` / `skipws` modifier and without `eolterm` -/
theorem bodyNode_sim (hQ : QOK Q) {pA pB : SubParser} (h : Sim Q pA pB) (k : Nat) (nd : Node)
    (hws : nd.ws = none) (hsk : nd.skipws = none) (heol : nd.eolterm = false) :
    SimB Q (bodyNode pA k nd) (bodyNode pB k nd) :=
  bodyNode_sim_gen hQ h k nd
    (fun {bA bB} hb => by
      rw [show withWsCtx nd bA = bA from funext (withWsCtx_uniform nd hws hsk bA),
          show withWsCtx nd bB = bB from funext (withWsCtx_uniform nd hws hsk bB)]
      exact hb)
    (fun {bA bB} hb => by
      rw [show withEol nd bA = bA from funext (withEol_uniform nd heol bA),
          show withEol nd bB = bB from funext (withEol_uniform nd heol bB)]
      exact hb)

end Peg
