import TextxVerif.Imp
/-!
Lemmas about the grammar-import loader `Imp.loadFile` (used by `Props/C25.lean`).

Part 0: inversion lemmas (what a successful run of each function consists of).
Part 1: what the loader leaves alone (stack discipline, keys, frames, append-only logs).
Part 2: the state invariant and the specification of `loadFile`.
Part 3: lookup in a well-formed state equals the resolution computed from the files.
Part 4: fuel.
-/
namespace Imp

def isKey (st : St) (x : Ns) : Prop := (st.nss x).isSome = true

@[simp] theorem upd_same {α β} [DecidableEq α] (f : α → β) (k : α) (v : β) : upd f k v k = v := by
  simp [upd]

theorem upd_other {α β} [DecidableEq α] (f : α → β) (k x : α) (v : β) (h : x ≠ k) :
    upd f k v x = f x := by
  simp [upd, h]

/-! ## Part 0: inversion -/

theorem newImport_ok {load} {st s : St} {i : Ns} (h : newImport load st i = .ok s) :
    ∃ cur rest, st.stack = cur :: rest ∧
      ((isKey st (absImport cur i) ∧ s = addImp st cur (absImport cur i)) ∨
       (¬ isKey st (absImport cur i) ∧ ∃ s1, load (absImport cur i) (enter st (absImport cur i)) = .ok s1 ∧
          s = addImp (leave s1) cur (absImport cur i))) := by
  unfold newImport at h
  split at h
  · simp at h
  · rename_i cur rest hst
    refine ⟨cur, rest, hst, ?_⟩
    simp only at h
    split at h
    · rename_i hk
      left
      simp at h
      exact ⟨hk, h.symm⟩
    · rename_i hk
      right
      split at h
      · simp at h
      · rename_i s1 hs1
        simp at h
        exact ⟨hk, s1, hs1, h.symm⟩

theorem importAll_cons_ok {load} {st s : St} {i : Ns} {is : List Ns}
    (h : importAll load (i :: is) st = .ok s) :
    ∃ s1, newImport load st i = .ok s1 ∧ importAll load is s1 = .ok s := by
  unfold importAll at h
  split at h
  · simp at h
  · rename_i s1 hs1
    exact ⟨s1, hs1, h⟩

theorem secondPass_cons_ok {st st' : St} {r : Rule} {rs : List Rule}
    (h : secondPass st (r :: rs) = .ok st') :
    ∃ cur anc c ts, st.stack = cur :: anc ∧ getItem st ⟨none, r.name⟩ = some (.cls c) ∧
      resolveRefs st cur r.refs = .ok ts ∧ secondPass (logRes st ⟨c, cur, anc, r, ts⟩) rs = .ok st' := by
  unfold secondPass at h
  split at h
  · simp at h
  · rename_i cur anc hst
    split at h
    · rename_i c hc
      split at h
      · simp at h
      · rename_i ts hts
        exact ⟨cur, anc, c, ts, hst, hc, hts, h⟩
    · simp at h

theorem resolveRefs_cons_ok {st : St} {ns : Ns} {r : Ref} {rs : List Ref} {ts : List Target}
    (h : resolveRefs st ns (r :: rs) = .ok ts) :
    ∃ t ts', getItem st r = some t ∧ resolveRefs st ns rs = .ok ts' ∧ ts = t :: ts' := by
  unfold resolveRefs at h
  split at h
  · simp at h
  · rename_i t ht
    split at h
    · simp at h
    · rename_i ts' hts'
      simp at h
      exact ⟨t, ts', ht, hts', h.symm⟩

theorem loadFile_ok {fs : FS} {fuel : Nat} {ns : Ns} {st st' : St}
    (h : loadFile fs fuel ns st = .ok st') :
    ∃ f fuel' s, fuel = fuel' + 1 ∧ fs ns = some f ∧
      importAll (loadFile fs fuel') f.imports (logOpen st ns) = .ok s ∧
      secondPass (createAll s f.rules) f.rules = .ok st' := by
  unfold loadFile at h
  split at h
  · simp at h
  · rename_i f hf
    split at h
    · simp at h
    · rename_i fuel'
      split at h
      · simp at h
      · rename_i s hs
        exact ⟨f, fuel', s, rfl, hf, hs, h⟩

/-! ## Part 1a: the namespace stack is restored -/

@[simp] theorem enter_stack (st : St) (ns : Ns) : (enter st ns).stack = ns :: st.stack := by
  unfold enter; split <;> rfl

@[simp] theorem leave_stack (st : St) : (leave st).stack = st.stack.tail := rfl
@[simp] theorem addImp_stack (st : St) (a b : Ns) : (addImp st a b).stack = st.stack := rfl
@[simp] theorem logRes_stack (st : St) (e : ResEntry) : (logRes st e).stack = st.stack := rfl
@[simp] theorem logOpen_stack (st : St) (x : Ns) : (logOpen st x).stack = st.stack := rfl

@[simp] theorem newClass_stack (st : St) (n : Name) : (newClass st n).stack = st.stack := by
  unfold newClass; split <;> rfl

@[simp] theorem createAll_stack : ∀ (rs : List Rule) (st : St), (createAll st rs).stack = st.stack
  | [], _ => rfl
  | r :: rs, st => by simp [createAll, createAll_stack rs]

theorem secondPass_stack : ∀ (rs : List Rule) (st st' : St),
    secondPass st rs = .ok st' → st'.stack = st.stack
  | [], st, st', h => by simp [secondPass] at h; rw [← h]
  | r :: rs, st, st', h => by
    obtain ⟨cur, anc, c, ts, _, _, _, h2⟩ := secondPass_cons_ok h
    simpa using secondPass_stack rs _ _ h2

/-- a loader that restores the stack -/
def StackOK (load : Ns → St → Except Err St) : Prop :=
  ∀ n s s', load n s = .ok s' → s'.stack = s.stack

theorem newImport_stack {load} (hl : StackOK load) {st s : St} {i : Ns}
    (h : newImport load st i = .ok s) : s.stack = st.stack := by
  obtain ⟨cur, rest, hst, h | ⟨_, s1, hs1, h⟩⟩ := newImport_ok h
  · rw [h.2]; rfl
  · rw [h]; simp [hl _ _ _ hs1]

theorem importAll_stack {load} (hl : StackOK load) : ∀ (is : List Ns) (st s : St),
    importAll load is st = .ok s → s.stack = st.stack
  | [], st, s, h => by simp [importAll] at h; rw [← h]
  | i :: is, st, s, h => by
    obtain ⟨s1, h1, h2⟩ := importAll_cons_ok h
    rw [importAll_stack hl is _ _ h2, newImport_stack hl h1]

theorem loadFile_stack (fs : FS) : ∀ fuel, StackOK (loadFile fs fuel)
  | 0 => by
    intro n s s' h
    obtain ⟨_, _, _, h0, _⟩ := loadFile_ok h
    omega
  | fuel + 1 => by
    intro n s s' h
    obtain ⟨f, fuel', s1, h0, hf, h1, h2⟩ := loadFile_ok h
    have : fuel' = fuel := by omega
    subst this
    rw [secondPass_stack _ _ _ h2, createAll_stack,
      importAll_stack (loadFile_stack fs fuel') _ _ _ h1]
    rfl

/-! ## Part 1b: namespaces are never removed -/

theorem enter_key (st : St) (ns x : Ns) (h : isKey st x) : isKey (enter st ns) x := by
  unfold enter isKey at *
  split
  · exact h
  · rename_i hk
    by_cases hx : x = ns
    · subst hx; simp
    · simp [upd_other _ _ _ _ hx, h]

theorem enter_key_self (st : St) (ns : Ns) : isKey (enter st ns) ns := by
  unfold enter isKey
  split
  · assumption
  · simp

theorem newClass_nss (st : St) (n : Name) (x : Ns) (hx : st.stack.head? ≠ some x) :
    (newClass st n).nss x = st.nss x := by
  unfold newClass
  split
  · rfl
  · rename_i cur rest hst
    have : x ≠ cur := by
      intro h; subst h; simp [hst] at hx
    simp [upd_other _ _ _ _ this]

theorem newClass_key (st : St) (n : Name) (x : Ns) : isKey (newClass st n) x ↔ isKey st x := by
  unfold newClass isKey
  split
  · rfl
  · rename_i cur rest hst
    by_cases hx : x = cur
    · subst hx; simp
    · simp [upd_other _ _ _ _ hx]

theorem createAll_key : ∀ (rs : List Rule) (st : St) (x : Ns), isKey (createAll st rs) x ↔ isKey st x
  | [], _, _ => Iff.rfl
  | r :: rs, st, x => by simp [createAll, createAll_key rs, newClass_key]

theorem secondPass_nss : ∀ (rs : List Rule) (st st' : St),
    secondPass st rs = .ok st' → st'.nss = st.nss ∧ st'.imps = st.imps ∧ st'.classes = st.classes ∧
      st'.opened = st.opened
  | [], st, st', h => by simp [secondPass] at h; rw [← h]; simp
  | r :: rs, st, st', h => by
    obtain ⟨cur, anc, c, ts, _, _, _, h2⟩ := secondPass_cons_ok h
    simpa [logRes] using secondPass_nss rs _ _ h2

def KeysMono (load : Ns → St → Except Err St) : Prop :=
  ∀ n s s', load n s = .ok s' → ∀ x, isKey s x → isKey s' x

theorem newImport_keys {load} (hl : KeysMono load) {st s : St} {i : Ns}
    (h : newImport load st i = .ok s) : ∀ x, isKey st x → isKey s x := by
  intro x hx
  obtain ⟨cur, rest, hst, h | ⟨_, s1, hs1, h⟩⟩ := newImport_ok h
  · rw [h.2]; exact hx
  · rw [h]
    exact hl _ _ _ hs1 x (enter_key _ _ _ hx)

theorem newImport_key_new {load} (hl : KeysMono load) {st s : St} {i cur : Ns} {rest : List Ns}
    (hst : st.stack = cur :: rest) (h : newImport load st i = .ok s) : isKey s (absImport cur i) := by
  obtain ⟨cur', rest', hst', h | ⟨_, s1, hs1, h⟩⟩ := newImport_ok h
  · rw [hst] at hst'; cases hst'
    rw [h.2]; exact h.1
  · rw [hst] at hst'; cases hst'
    rw [h]
    exact hl _ _ _ hs1 _ (enter_key_self _ _)

theorem importAll_keys {load} (hl : KeysMono load) : ∀ (is : List Ns) (st s : St),
    importAll load is st = .ok s → ∀ x, isKey st x → isKey s x
  | [], st, s, h => by simp [importAll] at h; rw [← h]; exact fun _ h => h
  | i :: is, st, s, h => by
    obtain ⟨s1, h1, h2⟩ := importAll_cons_ok h
    exact fun x hx => importAll_keys hl is _ _ h2 x (newImport_keys hl h1 x hx)

theorem loadFile_keys (fs : FS) : ∀ fuel, KeysMono (loadFile fs fuel)
  | 0 => by
    intro n s s' h
    obtain ⟨_, _, _, h0, _⟩ := loadFile_ok h
    omega
  | fuel + 1 => by
    intro n s s' h x hx
    obtain ⟨f, fuel', s1, h0, hf, h1, h2⟩ := loadFile_ok h
    have : fuel' = fuel := by omega
    subst this
    have k1 := importAll_keys (loadFile_keys fs fuel') _ _ _ h1 x hx
    have k2 := (createAll_key f.rules s1 x).2 k1
    unfold isKey at *
    rw [(secondPass_nss _ _ _ h2).1]
    exact k2

/-! ## Part 1c: the import list of a namespace is only touched while it is on top of the stack -/

theorem enter_nss_other (st : St) (ns x : Ns) (h : x ≠ ns) : (enter st ns).nss x = st.nss x := by
  unfold enter; split
  · rfl
  · simp [upd_other _ _ _ _ h]

theorem enter_imps_other (st : St) (ns x : Ns) (h : x ≠ ns) : (enter st ns).imps x = st.imps x := by
  unfold enter; split
  · rfl
  · simp [upd_other _ _ _ _ h]

theorem enter_fresh (st : St) (ns : Ns) (h : ¬ isKey st ns) :
    (enter st ns).nss ns = some (fun _ => none) ∧ (enter st ns).imps ns = [] := by
  unfold isKey at h
  unfold enter; simp [h]

@[simp] theorem enter_classes (st : St) (ns : Ns) : (enter st ns).classes = st.classes := by
  unfold enter; split <;> rfl
@[simp] theorem enter_resolved (st : St) (ns : Ns) : (enter st ns).resolved = st.resolved := by
  unfold enter; split <;> rfl
@[simp] theorem enter_opened (st : St) (ns : Ns) : (enter st ns).opened = st.opened := by
  unfold enter; split <;> rfl

@[simp] theorem newClass_imps (st : St) (n : Name) : (newClass st n).imps = st.imps := by
  unfold newClass; split <;> rfl
@[simp] theorem createAll_imps : ∀ (rs : List Rule) (st : St), (createAll st rs).imps = st.imps
  | [], _ => rfl
  | r :: rs, st => by simp [createAll, createAll_imps rs]
@[simp] theorem newClass_opened (st : St) (n : Name) : (newClass st n).opened = st.opened := by
  unfold newClass; split <;> rfl
@[simp] theorem createAll_opened : ∀ (rs : List Rule) (st : St), (createAll st rs).opened = st.opened
  | [], _ => rfl
  | r :: rs, st => by simp [createAll, createAll_opened rs]
@[simp] theorem newClass_resolved (st : St) (n : Name) : (newClass st n).resolved = st.resolved := by
  unfold newClass; split <;> rfl
@[simp] theorem createAll_resolved : ∀ (rs : List Rule) (st : St), (createAll st rs).resolved = st.resolved
  | [], _ => rfl
  | r :: rs, st => by simp [createAll, createAll_resolved rs]

def ImpsFrame (load : Ns → St → Except Err St) : Prop :=
  ∀ n s s', load n s = .ok s' → s.stack.head? = some n → ∀ x, x ≠ n → isKey s x → s'.imps x = s.imps x

theorem newImport_impsFrame {load} (hf : ImpsFrame load) {st s : St} {i n : Ns}
    (h : newImport load st i = .ok s) (htop : st.stack.head? = some n) :
    ∀ x, x ≠ n → isKey st x → s.imps x = st.imps x := by
  intro x hxn hx
  obtain ⟨cur, rest, hst, h | ⟨hk, s1, hs1, h⟩⟩ := newImport_ok h
  · rw [hst] at htop; simp at htop; subst htop
    rw [h.2]; simp [addImp, upd_other _ _ _ _ hxn]
  · rw [hst] at htop; simp at htop; subst htop
    have hxname : x ≠ absImport cur i := by
      intro e; subst e; exact hk hx
    rw [h]
    simp only [addImp, leave, upd_other _ _ _ _ hxn]
    rw [hf _ _ _ hs1 (by simp) x hxname (enter_key _ _ _ hx), enter_imps_other _ _ _ hxname]

theorem importAll_impsFrame {load} (hs : StackOK load) (hk : KeysMono load) (hf : ImpsFrame load) :
    ∀ (is : List Ns) (st s : St) (n : Ns), importAll load is st = .ok s → st.stack.head? = some n →
      ∀ x, x ≠ n → isKey st x → s.imps x = st.imps x
  | [], st, s, n, h, _ => by simp [importAll] at h; rw [← h]; exact fun _ _ _ => rfl
  | i :: is, st, s, n, h, htop => by
    intro x hxn hx
    obtain ⟨s1, h1, h2⟩ := importAll_cons_ok h
    have e1 := newImport_impsFrame hf h1 htop x hxn hx
    have htop1 : s1.stack.head? = some n := by rw [newImport_stack hs h1]; exact htop
    rw [importAll_impsFrame hs hk hf is s1 s n h2 htop1 x hxn (newImport_keys hk h1 x hx), e1]

theorem loadFile_impsFrame (fs : FS) : ∀ fuel, ImpsFrame (loadFile fs fuel)
  | 0 => by
    intro n s s' h
    obtain ⟨_, _, _, h0, _⟩ := loadFile_ok h
    omega
  | fuel + 1 => by
    intro n s s' h htop x hxn hx
    obtain ⟨f, fuel', s1, h0, hf, h1, h2⟩ := loadFile_ok h
    have : fuel' = fuel := by omega
    subst this
    have e1 := importAll_impsFrame (loadFile_stack fs fuel') (loadFile_keys fs fuel')
      (loadFile_impsFrame fs fuel') _ _ _ n h1 (by simpa using htop) x hxn (by simpa [isKey, logOpen] using hx)
    rw [(secondPass_nss _ _ _ h2).2.1, createAll_imps, e1]
    rfl

/-! ## Part 2a: vocabulary of the invariant -/

/-- names of the classes created so far for namespace `x`, in creation order -/
def clsNames (cl : List (Ns × Name)) (x : Ns) : List Name :=
  (cl.filter fun p => decide (p.1 = x)).map (·.2)

theorem clsNames_append (a b : List (Ns × Name)) (x : Ns) :
    clsNames (a ++ b) x = clsNames a x ++ clsNames b x := by
  simp [clsNames]

theorem clsNames_map_same (rs : List Rule) (cur : Ns) :
    clsNames (rs.map fun r => (cur, r.name)) cur = rs.map (·.name) := by
  induction rs with
  | nil => rfl
  | cons r rs ih => simp [clsNames] at ih ⊢; exact ih

theorem clsNames_map_other (rs : List Rule) (cur x : Ns) (h : x ≠ cur) :
    clsNames (rs.map fun r => (cur, r.name)) x = [] := by
  induction rs with
  | nil => rfl
  | cons r rs ih =>
    simp [clsNames] at ih ⊢
    exact ⟨fun e => h e.symm, ih⟩

theorem mem_clsNames {cl : List (Ns × Name)} {x : Ns} {n : Name} :
    n ∈ clsNames cl x ↔ (x, n) ∈ cl := by
  simp [clsNames]

/-- the entries of a namespace dictionary point at classes that report that namespace and name -/
def DictOK (cl : List (Ns × Name)) (x : Ns) (d : Name → Option Nat) : Prop :=
  ∀ n c, d n = some c → cl[c]? = some (x, n)

theorem DictOK.mono {cl : List (Ns × Name)} {x : Ns} {d} (h : DictOK cl x d) (l : List (Ns × Name)) :
    DictOK (cl ++ l) x d := by
  intro n c hc
  have := h n c hc
  have hlt : c < cl.length := by
    rcases Nat.lt_or_ge c cl.length with h' | h'
    · exact h'
    · rw [List.getElem?_eq_none h'] at this; simp at this
  rw [List.getElem?_append_left hlt]
  exact this

/-- entered, no class yet -/
def EmptyNs (st : St) (x : Ns) : Prop := ∃ d, st.nss x = some d ∧ ∀ n, d n = none

/-- the classes of file `x` exist: its dictionary has exactly the rule names of the file, each
pointing at a class that reports `(x, name)`; its import list is the file's import statements;
one class per rule was created for it -/
def Filled (fs : FS) (st : St) (x : Ns) : Prop :=
  ∃ f d, fs x = some f ∧ st.nss x = some d ∧ DictOK st.classes x d ∧
    (∀ n, (d n).isSome = f.defines n) ∧ st.imps x = absImports x f ∧
    clsNames st.classes x = f.rules.map (·.name)

/-- `a` has an import statement naming `b` -/
def Edge (fs : FS) (a b : Ns) : Prop := ∃ f, fs a = some f ∧ b ∈ absImports a f

/-- a namespace stack (top first) along import statements -/
def Chain (fs : FS) : List Ns → Prop
  | [] => True
  | [_] => True
  | c :: p :: rest => Edge fs p c ∧ Chain fs (p :: rest)

/-- reachable through at least one import statement -/
inductive Reach (fs : FS) : Ns → Ns → Prop
  | single {a b} : Edge fs a b → Reach fs a b
  | step {a b c} : Edge fs a b → Reach fs b c → Reach fs a c

def Acyclic (fs : FS) : Prop := ∀ a, ¬ Reach fs a a

theorem Reach.trans {fs : FS} {a b c : Ns} (h1 : Reach fs a b) (h2 : Reach fs b c) : Reach fs a c := by
  induction h1 with
  | single e => exact .step e h2
  | step e _ ih => exact .step e (ih h2)

theorem Chain.reach {fs : FS} : ∀ {top : Ns} {anc : List Ns}, Chain fs (top :: anc) → ∀ x ∈ anc, Reach fs x top
  | _, [], _, x, hx => by simp at hx
  | top, p :: rest, h, x, hx => by
    obtain ⟨e, hc⟩ := h
    rcases List.mem_cons.1 hx with rfl | hx'
    · exact .single e
    · exact (Chain.reach hc x hx').trans (.single e)

/-- pointwise relation between two lists of equal length -/
inductive All2 {α β} (R : α → β → Prop) : List α → List β → Prop
  | nil : All2 R [] []
  | cons {a b as bs} : R a b → All2 R as bs → All2 R (a :: as) (b :: bs)

theorem All2.imp {α β} {R S : α → β → Prop} (h : ∀ a b, R a b → S a b) :
    ∀ {as bs}, All2 R as bs → All2 S as bs
  | _, _, .nil => .nil
  | _, _, .cons r rest => .cons (h _ _ r) (All2.imp h rest)

theorem All2.length {α β} {R : α → β → Prop} : ∀ {as : List α} {bs : List β}, All2 R as bs → bs.length = as.length
  | _, _, .nil => rfl
  | _, _, .cons _ rest => by simp [All2.length rest]

def OptRel {α β} (R : α → β → Prop) : Option α → Option β → Prop
  | some a, some b => R a b
  | none, none => True
  | _, _ => False

/-- what the second pass may record for reference `r` of a rule of file `ns`, loaded while the
namespaces `anc` were still being loaded -/
def RefOK (fs : FS) (cl : List (Ns × Name)) (ns : Ns) (anc : List Ns) (r : Ref) (t : Target) : Prop :=
  match r.qual with
  | some q => Denotes cl t (.rule q r.name) ∧ fsDefines fs q r.name = true
  | none => ∃ s, specResolve fs ns anc r = some s ∧ Denotes cl t s

def EntryOK (fs : FS) (cl : List (Ns × Name)) (e : ResEntry) : Prop :=
  Chain fs (e.ns :: e.anc) ∧ cl[e.cls]? = some (e.ns, e.rule.name) ∧
    (∃ f, fs e.ns = some f ∧ e.rule ∈ f.rules) ∧
    All2 (RefOK fs cl e.ns e.anc) e.rule.refs e.targets

theorem Denotes.mono {cl : List (Ns × Name)} {t : Target} {s : SpecTarget} (h : Denotes cl t s)
    (l : List (Ns × Name)) : Denotes (cl ++ l) t s := by
  cases t <;> cases s <;> simp [Denotes] at h ⊢
  · rename_i c ns n
    have hlt : c < cl.length := by
      rcases Nat.lt_or_ge c cl.length with h' | h'
      · exact h'
      · rw [List.getElem?_eq_none h'] at h; simp at h
    rw [List.getElem?_append_left hlt]; exact h
  · exact h

theorem RefOK.mono {fs cl ns anc r t} (h : RefOK fs cl ns anc r t) (l : List (Ns × Name)) :
    RefOK fs (cl ++ l) ns anc r t := by
  unfold RefOK at *
  split at h
  · exact ⟨h.1.mono l, h.2⟩
  · obtain ⟨s, h1, h2⟩ := h
    exact ⟨s, h1, h2.mono l⟩

theorem EntryOK.mono {fs cl e} (h : EntryOK fs cl e) (l : List (Ns × Name)) : EntryOK fs (cl ++ l) e := by
  obtain ⟨h1, h2, h3, h4⟩ := h
  refine ⟨h1, ?_, h3, ?_⟩
  · have hlt : e.cls < cl.length := by
      rcases Nat.lt_or_ge e.cls cl.length with h' | h'
      · exact h'
      · rw [List.getElem?_eq_none h'] at h2; simp at h2
    rw [List.getElem?_append_left hlt]; exact h2
  · exact All2.imp (fun _ _ h => RefOK.mono h l) h4

/-- The invariant.  `E` lists the namespaces that are entered but have no classes yet. -/
structure Inv (fs : FS) (st : St) (E : List Ns) : Prop where
  empty : ∀ x ∈ E, EmptyNs st x ∧ clsNames st.classes x = []
  keys : ∀ x, isKey st x → x ∈ E ∨ Filled fs st x
  nonkey : ∀ x, ¬ isKey st x → clsNames st.classes x = []
  impKeys : ∀ x, ∀ i ∈ st.imps x, isKey st i
  opened : ∀ x ∈ st.opened, isKey st x
  openedNodup : st.opened.Nodup
  resOK : ∀ e ∈ st.resolved, EntryOK fs st.classes e

/-! ## Part 3: lookup in a well-formed state -/

theorem firstIn_spec (fs : FS) (st : St) (n : Name) (cur : Ns) (anc : List Ns)
    (hcur : ∀ d, st.nss cur = some d → d n = none) (hcurdef : fsDefines fs cur n = false)
    (hanc : ∀ x ∈ anc, EmptyNs st x) :
    ∀ (L : List Ns), (∀ i ∈ L, i = cur ∨ i ∈ anc ∨ Filled fs st i) → (∀ i ∈ L, isKey st i) →
      OptRel (fun c i => st.classes[c]? = some (i, n)) (firstIn st n L)
        (L.find? fun i => decide (i ∉ anc) && fsDefines fs i n)
  | [], _, _ => by simp [firstIn, OptRel]
  | i :: L, hL, hK => by
    have ih := firstIn_spec fs st n cur anc hcur hcurdef hanc L
      (fun j hj => hL j (List.mem_cons_of_mem _ hj)) (fun j hj => hK j (List.mem_cons_of_mem _ hj))
    have hi := hL i (List.mem_cons_self ..)
    unfold firstIn
    by_cases hia : i ∈ anc
    · obtain ⟨d, hd, hdn⟩ := hanc i hia
      simp only [hd, hdn, Option.bind_some, List.find?_cons, hia, not_true_eq_false, decide_false,
        Bool.false_and]
      exact ih
    · by_cases hic : i = cur
      · subst hic
        have hk := hK i (List.mem_cons_self ..)
        unfold isKey at hk
        obtain ⟨d, hd⟩ := Option.isSome_iff_exists.1 hk
        simp only [hd, hcur d hd, Option.bind_some, List.find?_cons, hcurdef, Bool.and_false]
        exact ih
      · rcases hi with h | h | h
        · exact absurd h hic
        · exact absurd h hia
        · obtain ⟨f, d, hf, hd, hdict, hdom, _, _⟩ := h
          have hdef : fsDefines fs i n = f.defines n := by simp [fsDefines, hf]
          cases hdn : d n with
          | none =>
            have : f.defines n = false := by
              have := hdom n; rw [hdn] at this; simpa using this.symm
            simp only [hd, hdn, Option.bind_some, List.find?_cons, hdef, this, Bool.and_false]
            exact ih
          | some c =>
            have : f.defines n = true := by
              have := hdom n; rw [hdn] at this; simpa using this.symm
            simp [hd, hdn, hdef, this, hia, OptRel]
            exact hdict n c hdn

/-- the state in which a file resolves its references (and in which `metamodel[name]` is asked
after loading): `ns` on top with its classes, `anc` below it still empty, everything else complete -/
structure LookupState (fs : FS) (st : St) (ns : Ns) (anc : List Ns) : Prop where
  stack : st.stack = ns :: anc
  top : Filled fs st ns
  ancE : ∀ x ∈ anc, EmptyNs st x
  keys : ∀ x, isKey st x → x = ns ∨ x ∈ anc ∨ Filled fs st x
  impKeys : ∀ i ∈ st.imps ns, isKey st i

theorem getItem_unqualified {fs st ns anc} (h : LookupState fs st ns anc) (n : Name) :
    OptRel (Denotes st.classes) (getItem st ⟨none, n⟩) (specResolve fs ns anc ⟨none, n⟩) := by
  obtain ⟨f, d, hf, hd, hdict, hdom, himps, _⟩ := h.top
  unfold getItem specResolve
  simp only [h.stack, hf, hd, Option.bind_some]
  cases hdn : d n with
  | some c =>
    have : f.defines n = true := by
      have := hdom n; rw [hdn] at this; simpa using this.symm
    simp [this, OptRel, Denotes]
    exact hdict n c hdn
  | none =>
    have hnd : f.defines n = false := by
      have := hdom n; rw [hdn] at this; simpa using this.symm
    simp only [hnd]
    by_cases hb : n ∈ baseNames
    · simp [hb, OptRel, Denotes]
    · simp only [hb, if_false, Bool.false_eq_true]
      have key := firstIn_spec fs st n ns anc (fun d' hd' => by rw [hd] at hd'; cases hd'; exact hdn)
        (by simp [fsDefines, hf, hnd]) h.ancE (st.imps ns)
        (fun i hi => h.keys i (h.impKeys i hi)) h.impKeys
      rw [himps] at key ⊢
      generalize firstIn st n (absImports ns f) = a at key ⊢
      generalize (absImports ns f).find? (fun i => decide (i ∉ anc) && fsDefines fs i n) = b at key ⊢
      cases a <;> cases b <;> simp_all [OptRel, Denotes]

theorem getItem_qualified {fs st ns anc} (h : LookupState fs st ns anc) (q : Ns) (n : Name) (t : Target)
    (hg : getItem st ⟨some q, n⟩ = some t) :
    Denotes st.classes t (.rule q n) ∧ fsDefines fs q n = true := by
  unfold getItem at hg
  simp only at hg
  cases hq : st.nss q with
  | none => simp [hq] at hg
  | some dq =>
    cases hdn : dq n with
    | none => simp [hq, hdn] at hg
    | some c =>
      simp [hq, hdn] at hg
      subst hg
      have hk : isKey st q := by simp [isKey, hq]
      have hfill : Filled fs st q := by
        rcases h.keys q hk with rfl | ha | hf
        · exact h.top
        · obtain ⟨d, hd, hdn'⟩ := h.ancE q ha
          rw [hq] at hd; cases hd
          rw [hdn'] at hdn; cases hdn
        · exact hf
      obtain ⟨f, d, hf, hd, hdict, hdom, _, _⟩ := hfill
      rw [hq] at hd; cases hd
      refine ⟨hdict n c hdn, ?_⟩
      have := hdom n; rw [hdn] at this
      simp [fsDefines, hf]; simpa using this.symm

theorem getItem_refOK {fs st ns anc} (h : LookupState fs st ns anc) (r : Ref) (t : Target)
    (hg : getItem st r = some t) : RefOK fs st.classes ns anc r t := by
  unfold RefOK
  cases hq : r.qual with
  | some q =>
    have : r = ⟨some q, r.name⟩ := by cases r; simp_all
    rw [this] at hg
    exact getItem_qualified h q r.name t hg
  | none =>
    have hr : r = ⟨none, r.name⟩ := by cases r; simp_all
    have key := getItem_unqualified h r.name
    rw [← hr, hg] at key
    cases hs : specResolve fs ns anc r with
    | none => rw [hs] at key; simp [OptRel] at key
    | some s => rw [hs] at key; exact ⟨s, rfl, key⟩

/-! ## Part 2b: every step of the loader keeps the invariant -/

theorem Filled.congr {fs st st' x} (h : Filled fs st x) (h1 : st'.nss = st.nss) (h2 : st'.imps = st.imps)
    (h3 : st'.classes = st.classes) : Filled fs st' x := by
  obtain ⟨f, d, a, b, c, e, g, i⟩ := h
  exact ⟨f, d, a, by rw [h1]; exact b, by rw [h3]; exact c, e, by rw [h2]; exact g, by rw [h3]; exact i⟩

theorem Inv.congr {fs st st' E} (h : Inv fs st E) (h1 : st'.nss = st.nss) (h2 : st'.imps = st.imps)
    (h3 : st'.classes = st.classes) (h4 : st'.opened = st.opened) (h5 : st'.resolved = st.resolved) :
    Inv fs st' E where
  empty x hx := by
    obtain ⟨⟨d, hd, hdn⟩, hc⟩ := h.empty x hx
    exact ⟨⟨d, by rw [h1]; exact hd, hdn⟩, by rw [h3]; exact hc⟩
  keys x hx := by
    rcases h.keys x (by unfold isKey at *; rw [← h1]; exact hx) with hE | hF
    · exact .inl hE
    · exact .inr (hF.congr h1 h2 h3)
  nonkey x hx := by rw [h3]; exact h.nonkey x (by unfold isKey at *; rw [← h1]; exact hx)
  impKeys x i hi := by
    unfold isKey; rw [h1]; exact h.impKeys x i (by rw [← h2]; exact hi)
  opened x hx := by unfold isKey; rw [h1]; exact h.opened x (by rw [← h4]; exact hx)
  openedNodup := by rw [h4]; exact h.openedNodup
  resOK e he := by rw [h3]; exact h.resOK e (by rw [← h5]; exact he)

theorem Inv.logOpen {fs st E} (h : Inv fs st E) (n : Ns) (hk : isKey st n) (hn : n ∉ st.opened) :
    Inv fs (logOpen st n) E :=
  { h with
    opened := by
      intro x hx
      simp [Imp.logOpen] at hx
      rcases hx with hx | rfl
      · exact h.opened x hx
      · exact hk
    openedNodup := by
      simp only [Imp.logOpen]
      exact List.nodup_append.2 ⟨h.openedNodup, by simp, by
        intro a ha b hb; simp at hb; subst hb; intro e; subst e; exact hn ha⟩ }

theorem Inv.enter {fs st E} (h : Inv fs st E) (name : Ns) (hk : ¬ isKey st name) :
    Inv fs (enter st name) (name :: E) where
  empty x hx := by
    rcases List.mem_cons.1 hx with rfl | hx
    · refine ⟨⟨fun _ => none, (enter_fresh st _ hk).1, fun _ => rfl⟩, ?_⟩
      simpa using h.nonkey _ hk
    · obtain ⟨⟨d, hd, hdn⟩, hc⟩ := h.empty x hx
      have hxn : x ≠ name := by
        intro e; subst e; exact hk (by simp [isKey, hd])
      exact ⟨⟨d, by rw [enter_nss_other _ _ _ hxn]; exact hd, hdn⟩, by simpa using hc⟩
  keys x hx := by
    by_cases hxn : x = name
    · subst hxn; exact .inl (List.mem_cons_self ..)
    · have hx' : isKey st x := by
        unfold isKey at *; rw [enter_nss_other _ _ _ hxn] at hx; exact hx
      rcases h.keys x hx' with hE | ⟨f, d, a, b, c, e, g, i⟩
      · exact .inl (List.mem_cons_of_mem _ hE)
      · exact .inr ⟨f, d, a, by rw [enter_nss_other _ _ _ hxn]; exact b, by simpa using c, e,
          by rw [enter_imps_other _ _ _ hxn]; exact g, by simpa using i⟩
  nonkey x hx := by
    simp only [enter_classes]
    exact h.nonkey x (fun hk' => hx (enter_key _ _ _ hk'))
  impKeys x i hi := by
    by_cases hxn : x = name
    · subst hxn; rw [(enter_fresh st _ hk).2] at hi; simp at hi
    · rw [enter_imps_other _ _ _ hxn] at hi
      exact enter_key _ _ _ (h.impKeys x i hi)
  opened x hx := enter_key _ _ _ (h.opened x (by simpa using hx))
  openedNodup := by simpa using h.openedNodup
  resOK e he := by simpa using h.resOK e (by simpa using he)

theorem Inv.addImp {fs st E} (h : Inv fs st E) (cur name : Ns) (hc : cur ∈ E) (hk : isKey st name) :
    Inv fs (addImp st cur name) E where
  empty x hx := h.empty x hx
  keys x hx := by
    by_cases hxc : x = cur
    · subst hxc; exact .inl hc
    · rcases h.keys x hx with hE | ⟨f, d, a, b, c, e, g, i⟩
      · exact .inl hE
      · exact .inr ⟨f, d, a, b, c, e, by simp [Imp.addImp, upd_other _ _ _ _ hxc, g], i⟩
  nonkey x hx := h.nonkey x hx
  impKeys x i hi := by
    by_cases hxc : x = cur
    · subst hxc
      simp [Imp.addImp] at hi
      rcases hi with hi | rfl
      · exact h.impKeys _ i hi
      · exact hk
    · simp [Imp.addImp, upd_other _ _ _ _ hxc] at hi
      exact h.impKeys x i hi
  opened := h.opened
  openedNodup := h.openedNodup
  resOK := h.resOK

theorem Inv.leave {fs st E} (h : Inv fs st E) : Inv fs (leave st) E :=
  h.congr rfl rfl rfl rfl rfl

theorem Inv.logRes {fs st E} (h : Inv fs st E) (e : ResEntry) (he : EntryOK fs st.classes e) :
    Inv fs (logRes st e) E :=
  { h with
    resOK := by
      intro e' he'
      simp [Imp.logRes] at he'
      rcases he' with he' | rfl
      · exact h.resOK e' he'
      · exact he }

theorem createAll_classes : ∀ (rs : List Rule) (st : St) (cur : Ns) (rest : List Ns),
    st.stack = cur :: rest → (createAll st rs).classes = st.classes ++ rs.map fun r => (cur, r.name)
  | [], st, _, _, _ => by simp [createAll]
  | r :: rs, st, cur, rest, hst => by
    have h1 : (newClass st r.name).stack = cur :: rest := by simp [hst]
    have h2 : (newClass st r.name).classes = st.classes ++ [(cur, r.name)] := by
      unfold newClass; simp [hst]
    simp [createAll, createAll_classes rs _ cur rest h1, h2]

theorem createAll_nss_other : ∀ (rs : List Rule) (st : St) (cur x : Ns) (rest : List Ns),
    st.stack = cur :: rest → x ≠ cur → (createAll st rs).nss x = st.nss x
  | [], _, _, _, _, _, _ => rfl
  | r :: rs, st, cur, x, rest, hst, hx => by
    have h1 : (newClass st r.name).stack = cur :: rest := by simp [hst]
    simp only [createAll]
    rw [createAll_nss_other rs _ cur x rest h1 hx]
    exact newClass_nss _ _ _ (by simp [hst]; exact fun e => hx e.symm)

theorem createAll_dict : ∀ (rs : List Rule) (st : St) (cur : Ns) (rest : List Ns) (d : Name → Option Nat),
    st.stack = cur :: rest → st.nss cur = some d → DictOK st.classes cur d →
    ∃ d', (createAll st rs).nss cur = some d' ∧ DictOK (createAll st rs).classes cur d' ∧
      ∀ n, (d' n).isSome = ((d n).isSome || rs.any (·.name == n))
  | [], st, cur, rest, d, _, hd, hok => ⟨d, hd, hok, by simp⟩
  | r :: rs, st, cur, rest, d, hst, hd, hok => by
    have h1 : (newClass st r.name).stack = cur :: rest := by simp [hst]
    have h2 : (newClass st r.name).classes = st.classes ++ [(cur, r.name)] := by
      unfold newClass; simp [hst]
    have h3 : (newClass st r.name).nss cur = some (upd d r.name (some st.classes.length)) := by
      unfold newClass; simp [hst, hd]
    have hok1 : DictOK (newClass st r.name).classes cur (upd d r.name (some st.classes.length)) := by
      rw [h2]
      intro n c hc
      by_cases hn : n = r.name
      · subst hn
        simp at hc
        subst hc
        simp
      · rw [upd_other _ _ _ _ hn] at hc
        exact hok.mono _ n c hc
    obtain ⟨d', hd', hok', hdom'⟩ := createAll_dict rs _ cur rest _ h1 h3 hok1
    refine ⟨d', hd', hok', ?_⟩
    intro n
    rw [hdom' n]
    by_cases hn : n = r.name
    · subst hn; simp
    · rw [upd_other _ _ _ _ hn]
      have : (r.name == n) = false := by simp; exact fun e => hn e.symm
      simp [this]

theorem Inv.createAll {fs st} {n : Ns} {rest : List Ns} {f : File} (h : Inv fs st (n :: rest))
    (hst : st.stack = n :: rest) (hn : n ∉ rest) (hf : fs n = some f) (himps : st.imps n = absImports n f) :
    Inv fs (createAll st f.rules) rest := by
  have hcl := createAll_classes f.rules st n rest hst
  obtain ⟨⟨d, hd, hdn⟩, hc0⟩ := h.empty n (List.mem_cons_self ..)
  have hd0 : DictOK st.classes n d := by intro m c hc; rw [hdn] at hc; cases hc
  obtain ⟨d', hd', hok', hdom'⟩ := createAll_dict f.rules st n rest d hst hd hd0
  have hother : ∀ x, x ≠ n → clsNames (Imp.createAll st f.rules).classes x = clsNames st.classes x := by
    intro x hx
    rw [hcl, clsNames_append, clsNames_map_other _ _ _ hx]; simp
  have hfill : Filled fs (Imp.createAll st f.rules) n := by
    refine ⟨f, d', hf, hd', hok', ?_, by simpa using himps, ?_⟩
    · intro m; rw [hdom' m, hdn m]; simp [File.defines]
    · rw [hcl, clsNames_append, hc0, clsNames_map_same]; simp
  constructor
  · intro x hx
    have hxn : x ≠ n := by intro e; subst e; exact hn hx
    obtain ⟨⟨dx, hdx, hdxn⟩, hc⟩ := h.empty x (List.mem_cons_of_mem _ hx)
    exact ⟨⟨dx, by rw [createAll_nss_other _ _ n x rest hst hxn]; exact hdx, hdxn⟩, by rw [hother x hxn]; exact hc⟩
  · intro x hx
    by_cases hxn : x = n
    · subst hxn; exact .inr hfill
    · rcases h.keys x ((createAll_key _ _ _).1 hx) with hE | ⟨fx, dx, a, b, c, e, g, i⟩
      · rcases List.mem_cons.1 hE with e | hE
        · exact absurd e hxn
        · exact .inl hE
      · exact .inr ⟨fx, dx, a, by rw [createAll_nss_other _ _ n x rest hst hxn]; exact b,
          by rw [hcl]; exact c.mono _, e, by simpa using g, by rw [hother x hxn]; exact i⟩
  · intro x hx
    have hx' : ¬ isKey st x := fun hk => hx ((createAll_key _ _ _).2 hk)
    have hxn : x ≠ n := by intro e; subst e; exact hx' (by simp [isKey, hd])
    rw [hother x hxn]; exact h.nonkey x hx'
  · intro x i hi
    exact (createAll_key _ _ _).2 (h.impKeys x i (by simpa using hi))
  · intro x hx
    exact (createAll_key _ _ _).2 (h.opened x (by simpa using hx))
  · simpa using h.openedNodup
  · intro e he
    rw [hcl]
    exact (h.resOK e (by simpa using he)).mono _

/-! ## Part 2c: the specification of the loader -/

theorem Inv.lookupState {fs st} {n : Ns} {rest : List Ns} (h : Inv fs st rest) (hst : st.stack = n :: rest)
    (hk : isKey st n) (hn : n ∉ rest) : LookupState fs st n rest where
  stack := hst
  top := by
    rcases h.keys n hk with hE | hF
    · exact absurd hE hn
    · exact hF
  ancE x hx := (h.empty x hx).1
  keys x hx := by
    rcases h.keys x hx with hE | hF
    · exact .inr (.inl hE)
    · exact .inr (.inr hF)
  impKeys i hi := h.impKeys n i hi

theorem resolveRefs_all2 {fs st ns anc} (h : LookupState fs st ns anc) :
    ∀ (rs : List Ref) (ts : List Target), resolveRefs st ns rs = .ok ts →
      All2 (RefOK fs st.classes ns anc) rs ts
  | [], ts, hr => by simp [resolveRefs] at hr; subst hr; exact .nil
  | r :: rs, ts, hr => by
    obtain ⟨t, ts', ht, hts', e⟩ := resolveRefs_cons_ok hr
    subst e
    exact .cons (getItem_refOK h r t ht) (resolveRefs_all2 h rs ts' hts')

theorem secondPass_inv {fs} {n : Ns} {rest : List Ns} {f : File} (hf : fs n = some f) (hn : n ∉ rest)
    (hch : Chain fs (n :: rest)) : ∀ (rs : List Rule) (st st' : St), secondPass st rs = .ok st' →
      Inv fs st rest → st.stack = n :: rest → isKey st n → (∀ r ∈ rs, r ∈ f.rules) → Inv fs st' rest
  | [], st, st', h, hinv, _, _, _ => by simp [secondPass] at h; rw [← h]; exact hinv
  | r :: rs, st, st', h, hinv, hst, hk, hrs => by
    obtain ⟨cur, anc, c, ts, hst', hc, hts, h2⟩ := secondPass_cons_ok h
    rw [hst] at hst'; cases hst'
    have hl := hinv.lookupState hst hk hn
    have hr : r ∈ f.rules := hrs r (List.mem_cons_self ..)
    have hcls : st.classes[c]? = some (n, r.name) := by
      have key := getItem_unqualified hl r.name
      rw [hc] at key
      have hdef : f.defines r.name = true := by
        simp only [File.defines, List.any_eq_true]
        exact ⟨r, hr, by simp⟩
      simp [specResolve, hf, hdef, OptRel, Denotes] at key
      exact key
    have hentry : EntryOK fs st.classes ⟨c, n, rest, r, ts⟩ :=
      ⟨hch, hcls, ⟨f, hf, hr⟩, resolveRefs_all2 hl _ _ hts⟩
    exact secondPass_inv hf hn hch rs _ st' h2 (hinv.logRes _ hentry) (by simpa using hst)
      (by simpa [isKey, logRes] using hk) (fun r' hr' => hrs r' (List.mem_cons_of_mem _ hr'))

/-- what `loadFile` guarantees for a file whose namespace has just been entered -/
def Spec (fs : FS) (load : Ns → St → Except Err St) : Prop :=
  ∀ n st st' rest, load n st = .ok st' → st.stack = n :: rest → (n :: rest).Nodup →
    Chain fs (n :: rest) → Inv fs st (n :: rest) → n ∉ st.opened → st.imps n = [] → Inv fs st' rest

theorem Inv.stack_keys {fs st E} (h : Inv fs st E) : ∀ x ∈ E, isKey st x := by
  intro x hx
  obtain ⟨⟨d, hd, _⟩, _⟩ := h.empty x hx
  simp [isKey, hd]

theorem importAll_inv {fs load} (hs : StackOK load) (hk : KeysMono load) (hfr : ImpsFrame load)
    (hspec : Spec fs load) : ∀ (is : List Ns) (st s : St) (n : Ns) (rest : List Ns),
      importAll load is st = .ok s → st.stack = n :: rest → (n :: rest).Nodup → Chain fs (n :: rest) →
      Inv fs st (n :: rest) → (∀ i ∈ is, Edge fs n (absImport n i)) →
      Inv fs s (n :: rest) ∧ s.imps n = st.imps n ++ is.map (absImport n)
  | [], st, s, n, rest, h, _, _, _, hinv, _ => by
    simp [importAll] at h; rw [← h]; exact ⟨hinv, by simp⟩
  | i :: is, st, s, n, rest, h, hst, hnd, hch, hinv, hedge => by
    obtain ⟨s1, h1, h2⟩ := importAll_cons_ok h
    have hst1 : s1.stack = n :: rest := by rw [newImport_stack hs h1]; exact hst
    have step : Inv fs s1 (n :: rest) ∧ s1.imps n = st.imps n ++ [absImport n i] := by
      obtain ⟨cur, rest', hst', hcase | ⟨hnk, s1', hs1', hcase⟩⟩ := newImport_ok h1
      · rw [hst] at hst'; cases hst'
        rw [hcase.2]
        exact ⟨hinv.addImp _ _ (List.mem_cons_self ..) hcase.1, by simp [addImp]⟩
      · rw [hst] at hst'; cases hst'
        have hfresh : absImport n i ∉ n :: rest := fun hm => hnk (hinv.stack_keys _ hm)
        have hinv1 := hspec _ _ _ (n :: rest) hs1' (by simp [hst])
          (List.nodup_cons.2 ⟨hfresh, hnd⟩)
          ⟨hedge i (List.mem_cons_self ..), hch⟩ (hinv.enter _ hnk)
          (by simp; exact fun hm => hnk (hinv.opened _ hm)) (enter_fresh _ _ hnk).2
        have hkey : isKey (leave s1') (absImport n i) := hk _ _ _ hs1' _ (enter_key_self _ _)
        rw [hcase]
        refine ⟨hinv1.leave.addImp _ _ (List.mem_cons_self ..) hkey, ?_⟩
        have hne : n ≠ absImport n i := by
          intro e; exact hfresh (by rw [← e]; exact List.mem_cons_self ..)
        have e1 := hfr _ _ _ hs1' (by simp) n hne (enter_key _ _ _ (hinv.stack_keys _ (List.mem_cons_self ..)))
        simp [addImp, leave, e1, enter_imps_other _ _ _ hne]
    obtain ⟨hinv2, himp2⟩ := importAll_inv hs hk hfr hspec is s1 s n rest h2 hst1 hnd hch step.1
      (fun j hj => hedge j (List.mem_cons_of_mem _ hj))
    exact ⟨hinv2, by rw [himp2, step.2]; simp⟩

theorem loadFile_spec (fs : FS) : ∀ fuel, Spec fs (loadFile fs fuel)
  | 0 => by
    intro n st st' rest h
    obtain ⟨_, _, _, h0, _⟩ := loadFile_ok h
    omega
  | fuel + 1 => by
    intro n st st' rest h hst hnd hch hinv hno himps
    obtain ⟨f, fuel', s1, h0, hf, h1, h2⟩ := loadFile_ok h
    have : fuel' = fuel := by omega
    subst this
    have hkn : isKey st n := hinv.stack_keys _ (List.mem_cons_self ..)
    obtain ⟨hinv1, himp1⟩ := importAll_inv (loadFile_stack fs fuel') (loadFile_keys fs fuel')
      (loadFile_impsFrame fs fuel') (loadFile_spec fs fuel') f.imports _ s1 n rest h1 (by simpa using hst) hnd hch
      (hinv.logOpen n hkn hno)
      (fun i hi => ⟨f, hf, List.mem_map.2 ⟨i, hi, rfl⟩⟩)
    have hst1 : s1.stack = n :: rest := by
      rw [importAll_stack (loadFile_stack fs fuel') _ _ _ h1]; simpa using hst
    have hnr : n ∉ rest := (List.nodup_cons.1 hnd).1
    have himp1' : s1.imps n = absImports n f := by
      rw [himp1]; simp [logOpen, himps, absImports]
    have hinv2 := hinv1.createAll hst1 hnr hf himp1'
    exact secondPass_inv hf hnr hch f.rules _ st' h2 hinv2 (by simpa using hst1)
      ((createAll_key _ _ _).2 (hinv1.stack_keys _ (List.mem_cons_self ..))) (fun r hr => hr)

/-! ## Part 4: the fuel is never the reason for stopping -/

/-- files of the (finite) file system that have not been entered yet -/
def unloaded (files : List Ns) (st : St) : Nat := (files.filter fun x => !(st.nss x).isSome).length

theorem filter_length_mono {α} (p q : α → Bool) (hpq : ∀ x, p x = true → q x = true) :
    ∀ l : List α, (l.filter p).length ≤ (l.filter q).length
  | [] => by simp
  | a :: l => by
    have ih := filter_length_mono p q hpq l
    by_cases hp : p a = true
    · simp [List.filter, hp, hpq a hp]; omega
    · by_cases hq : q a = true
      · simp [List.filter, hp, hq]; omega
      · simp [List.filter, hp, hq]; omega

theorem filter_length_lt {α} (p q : α → Bool) (hpq : ∀ x, p x = true → q x = true) (a : α)
    (hq : q a = true) (hp : p a = false) : ∀ l : List α, a ∈ l → (l.filter p).length < (l.filter q).length
  | [], h => by simp at h
  | b :: l, h => by
    have mono := filter_length_mono p q hpq l
    rcases List.mem_cons.1 h with rfl | h'
    · simp [List.filter, hp, hq]; omega
    · have ih := filter_length_lt p q hpq a hq hp l h'
      by_cases hpb : p b = true
      · simp [List.filter, hpb, hpq b hpb]; omega
      · by_cases hqb : q b = true
        · simp [List.filter, hpb, hqb]; omega
        · simp [List.filter, hpb, hqb]; omega

theorem unloaded_mono (files : List Ns) {st st' : St} (h : ∀ x, isKey st x → isKey st' x) :
    unloaded files st' ≤ unloaded files st := by
  unfold unloaded
  apply filter_length_mono
  intro x hx
  have := h x
  unfold isKey at this
  cases h1 : (st.nss x).isSome
  · simp
  · simp [this h1] at hx

theorem unloaded_enter (files : List Ns) (st : St) (name : Ns) (hm : name ∈ files) (hk : ¬ isKey st name) :
    unloaded files (enter st name) < unloaded files st := by
  unfold unloaded
  apply filter_length_lt _ _ _ name _ _ files hm
  · intro x hx
    have := enter_key st name x
    unfold isKey at this
    cases h1 : (st.nss x).isSome
    · simp
    · simp [this h1] at hx
  · unfold isKey at hk; simpa using hk
  · have := enter_key_self st name
    unfold isKey at this; simp [this]

/-- the run did not stop for lack of fuel (nor on an empty namespace stack) -/
def Good (r : Except Err St) : Prop := r ≠ .error .fuel ∧ r ≠ .error .nostack

theorem resolveRefs_good (st : St) (ns : Ns) : ∀ (rs : List Ref) (e : Err),
    resolveRefs st ns rs = .error e → e ≠ .fuel ∧ e ≠ .nostack
  | [], e, h => by simp [resolveRefs] at h
  | r :: rs, e, h => by
    unfold resolveRefs at h
    split at h
    · simp at h; subst h; simp
    · split at h
      · rename_i e' he'
        simp at h; subst h
        exact resolveRefs_good st ns rs _ he'
      · simp at h

theorem secondPass_good : ∀ (rs : List Rule) (st : St), st.stack ≠ [] → Good (secondPass st rs)
  | [], st, _ => by simp [secondPass, Good]
  | r :: rs, st, hne => by
    unfold secondPass
    split
    · rename_i h; exact absurd h hne
    · split
      · split
        · rename_i e he
          have := resolveRefs_good _ _ _ _ he
          simp [Good, this.1, this.2]
        · exact secondPass_good rs _ (by simpa using hne)
      · simp [Good]

theorem importAll_fuel {fs : FS} {load} (files : List Ns) (fuel : Nat) (hs : StackOK load) (hk : KeysMono load)
    (hload : ∀ n st, st.stack.head? = some n → (unloaded files st < fuel ∨ fs n = none) → Good (load n st))
    (hfs : ∀ x, (fs x).isSome → x ∈ files) :
    ∀ (is : List Ns) (st : St), st.stack ≠ [] → unloaded files st ≤ fuel →
      Good (importAll load is st) ∧ ∀ s, importAll load is st = .ok s → s.stack = st.stack ∧ unloaded files s ≤ fuel
  | [], st, _, hu => by simp [importAll, Good]; exact hu
  | i :: is, st, hne, hu => by
    unfold importAll
    cases h1 : newImport load st i with
    | error e =>
      simp only
      refine ⟨?_, by simp⟩
      unfold newImport at h1
      split at h1
      · rename_i h; exact absurd h hne
      · rename_i cur rest hst
        simp only at h1
        split at h1
        · simp at h1
        · rename_i hnk
          split at h1
          · rename_i e' he'
            simp at h1; subst h1
            have hg : Good (load (absImport cur i) (enter st (absImport cur i))) := by
              apply hload _ _ (by simp)
              by_cases hm : absImport cur i ∈ files
              · left
                have := unloaded_enter files st _ hm (by simpa [isKey] using hnk)
                omega
              · right
                cases hfs' : fs (absImport cur i) with
                | none => rfl
                | some f => exact absurd (hfs _ (by simp [hfs'])) hm
            rw [he'] at hg
            simp [Good] at hg ⊢
            exact hg
          · simp at h1
    | ok s1 =>
      simp only
      have hst1 := newImport_stack hs h1
      have hu1 : unloaded files s1 ≤ fuel :=
        Nat.le_trans (unloaded_mono files (newImport_keys hk h1)) hu
      obtain ⟨g, hrest⟩ := importAll_fuel files fuel hs hk hload hfs is s1 (by rw [hst1]; exact hne) hu1
      refine ⟨g, ?_⟩
      intro s hs'
      obtain ⟨a, b⟩ := hrest s hs'
      exact ⟨by rw [a, hst1], b⟩

theorem loadFile_fuel (fs : FS) (files : List Ns) (hfs : ∀ x, (fs x).isSome → x ∈ files) :
    ∀ (fuel : Nat) (n : Ns) (st : St), st.stack.head? = some n →
      (unloaded files st < fuel ∨ fs n = none) → Good (loadFile fs fuel n st)
  | fuel, n, st, htop, hu => by
    unfold loadFile
    split
    · simp [Good]
    · rename_i f hf
      have hu' : unloaded files st < fuel := by
        rcases hu with h | h
        · exact h
        · rw [hf] at h; cases h
      split
      · omega
      · rename_i fuel'
        have hne : (logOpen st n).stack ≠ [] := by
          intro e; rw [logOpen_stack] at e; simp [e] at htop
        obtain ⟨g, hrest⟩ := importAll_fuel (fs := fs) files fuel' (loadFile_stack fs fuel') (loadFile_keys fs fuel')
          (fun n st a b => loadFile_fuel fs files hfs fuel' n st a b) hfs f.imports (logOpen st n) hne
          (by simp [unloaded, logOpen] at hu' ⊢; omega)
        split
        · rename_i e he
          rw [he] at g
          simp [Good] at g ⊢
          exact g
        · rename_i s hs'
          apply secondPass_good
          rw [createAll_stack, (hrest s hs').1]
          exact hne

/-! ## Part 5: the state after `metamodel_from_file` -/

theorem Inv.init (fs : FS) : Inv fs St.empty [] where
  empty x hx := by simp at hx
  keys x hx := by simp [isKey, St.empty] at hx
  nonkey x _ := by simp [St.empty, clsNames]
  impKeys x i hi := by simp [St.empty] at hi
  opened x hx := by simp [St.empty] at hx
  openedNodup := by simp [St.empty]
  resOK e he := by simp [St.empty] at he

theorem loadMain_inv {fs : FS} {fuel : Nat} {main : Seg} {st : St} (h : loadMain fs fuel main = .ok st) :
    Inv fs st [] ∧ st.stack = [[main]] ∧ isKey st [main] := by
  unfold loadMain at h
  have hk0 : ¬ isKey St.empty [main] := by simp [isKey, St.empty]
  have hinv0 := (Inv.init fs).enter [main] hk0
  have hst0 : (enter St.empty [main]).stack = [[main]] := by simp [St.empty]
  refine ⟨?_, ?_, ?_⟩
  · exact loadFile_spec fs fuel [main] _ st [] h hst0 (by simp) (by simp [Chain]) hinv0
      (by simp [St.empty]) (enter_fresh _ _ hk0).2
  · rw [loadFile_stack fs fuel _ _ _ h, hst0]
  · exact loadFile_keys fs fuel _ _ _ h _ (enter_key_self _ _)

theorem loadMain_lookupState {fs : FS} {fuel : Nat} {main : Seg} {st : St}
    (h : loadMain fs fuel main = .ok st) : LookupState fs st [main] [] := by
  obtain ⟨hinv, hst, hk⟩ := loadMain_inv h
  exact hinv.lookupState hst hk (by simp)

theorem find?_congr' {α} {p q : α → Bool} : ∀ (l : List α), (∀ x ∈ l, p x = q x) → l.find? p = l.find? q
  | [], _ => rfl
  | a :: l, h => by
    have ha := h a (List.mem_cons_self ..)
    have ih := find?_congr' l (fun x hx => h x (List.mem_cons_of_mem _ hx))
    simp [List.find?, ha, ih]

/-- files that are still being loaded cannot be among the imports of an acyclic import graph -/
theorem specResolve_acyclic {fs : FS} (hac : Acyclic fs) {ns : Ns} {anc : List Ns}
    (hch : Chain fs (ns :: anc)) (r : Ref) : specResolve fs ns anc r = specResolve fs ns [] r := by
  unfold specResolve
  cases r.qual with
  | some q => rfl
  | none =>
    simp only
    cases hf : fs ns with
    | none => rfl
    | some f =>
      simp only
      split
      · rfl
      · split
        · rfl
        · congr 1
          apply find?_congr'
          intro i hi
          have : i ∉ anc := by
            intro hia
            exact hac ns (.step ⟨f, hf, hi⟩ (hch.reach i hia))
          simp [this]

theorem acyclic_of_rank {fs : FS} (rank : Ns → Nat) (h : ∀ a b, Edge fs a b → rank b < rank a) :
    Acyclic fs := by
  have key : ∀ a b, Reach fs a b → rank b < rank a := by
    intro a b hr
    induction hr with
    | single e => exact h _ _ e
    | step e _ ih => have := h _ _ e; omega
  intro a hr
  have := key a a hr
  omega

/-! ## Part 6: the second pass records every rule of every loaded file -/

/-- the rules recorded for namespace `x`, in order -/
def resRules (rs : List ResEntry) (x : Ns) : List Rule :=
  (rs.filter fun e => decide (e.ns = x)).map (·.rule)

theorem resRules_append (a b : List ResEntry) (x : Ns) :
    resRules (a ++ b) x = resRules a x ++ resRules b x := by
  simp [resRules]

theorem resRules_same (l : List ResEntry) (cur : Ns) (h : ∀ e ∈ l, e.ns = cur) :
    resRules l cur = l.map (·.rule) := by
  induction l with
  | nil => rfl
  | cons e l ih =>
    have he := h e (List.mem_cons_self ..)
    have := ih (fun e' he' => h e' (List.mem_cons_of_mem _ he'))
    simp [resRules, he] at this ⊢
    exact this

theorem resRules_other (l : List ResEntry) (cur x : Ns) (h : ∀ e ∈ l, e.ns = cur) (hx : x ≠ cur) :
    resRules l x = [] := by
  induction l with
  | nil => rfl
  | cons e l ih =>
    have he := h e (List.mem_cons_self ..)
    have := ih (fun e' he' => h e' (List.mem_cons_of_mem _ he'))
    simp [resRules, he] at this ⊢
    exact ⟨fun e => hx e.symm, this⟩

theorem secondPass_resolved : ∀ (rs : List Rule) (st st' : St) (cur : Ns) (anc : List Ns),
    secondPass st rs = .ok st' → st.stack = cur :: anc →
    ∃ l, st'.resolved = st.resolved ++ l ∧ l.map (·.rule) = rs ∧ ∀ e ∈ l, e.ns = cur
  | [], st, st', _, _, h, _ => by
    simp [secondPass] at h; rw [← h]; exact ⟨[], by simp⟩
  | r :: rs, st, st', cur, anc, h, hst => by
    obtain ⟨cur', anc', c, ts, hst', _, _, h2⟩ := secondPass_cons_ok h
    rw [hst] at hst'; cases hst'
    obtain ⟨l, hl, hm, hn⟩ := secondPass_resolved rs _ st' cur anc h2 (by simpa using hst)
    refine ⟨⟨c, cur, anc, r, ts⟩ :: l, by simp [hl, logRes], by simp [hm], ?_⟩
    intro e he
    rcases List.mem_cons.1 he with rfl | he
    · rfl
    · exact hn e he

/-- `R`: namespaces whose second pass has not finished -/
structure ResInv (fs : FS) (st : St) (R : List Ns) : Prop where
  rkeys : ∀ x ∈ R, isKey st x
  done : ∀ x, isKey st x → x ∉ R → ∃ f, fs x = some f ∧ resRules st.resolved x = f.rules
  none : ∀ x, (x ∈ R ∨ ¬ isKey st x) → resRules st.resolved x = []

theorem ResInv.congr {fs st st' R} (h : ResInv fs st R) (hk : ∀ x, isKey st' x ↔ isKey st x)
    (hr : st'.resolved = st.resolved) : ResInv fs st' R where
  rkeys x hx := (hk x).2 (h.rkeys x hx)
  done x hx hxr := by rw [hr]; exact h.done x ((hk x).1 hx) hxr
  none x hx := by
    rw [hr]; apply h.none
    rcases hx with hx | hx
    · exact .inl hx
    · exact .inr (fun h' => hx ((hk x).2 h'))

def RSpec (fs : FS) (load : Ns → St → Except Err St) : Prop :=
  ∀ n st st' rest, load n st = .ok st' → st.stack = n :: rest → ResInv fs st (n :: rest) → n ∉ rest →
    ResInv fs st' rest

theorem importAll_resInv {fs load} (hs : StackOK load) (hspec : RSpec fs load) :
    ∀ (is : List Ns) (st s : St) (n : Ns) (rest : List Ns), importAll load is st = .ok s →
      st.stack = n :: rest → ResInv fs st (n :: rest) → ResInv fs s (n :: rest)
  | [], st, s, n, rest, h, _, hinv => by simp [importAll] at h; rw [← h]; exact hinv
  | i :: is, st, s, n, rest, h, hst, hinv => by
    obtain ⟨s1, h1, h2⟩ := importAll_cons_ok h
    have hst1 : s1.stack = n :: rest := by rw [newImport_stack hs h1]; exact hst
    have step : ResInv fs s1 (n :: rest) := by
      obtain ⟨cur, rest', hst', hcase | ⟨hnk, s1', hs1', hcase⟩⟩ := newImport_ok h1
      · rw [hcase.2]; exact hinv.congr (fun _ => Iff.rfl) rfl
      · rw [hst] at hst'; cases hst'
        have hfresh : absImport n i ∉ n :: rest := fun hm => hnk (hinv.rkeys _ hm)
        have hinv0 : ResInv fs (enter st (absImport n i)) (absImport n i :: n :: rest) := by
          constructor
          · intro x hx
            rcases List.mem_cons.1 hx with rfl | hx
            · exact enter_key_self _ _
            · exact enter_key _ _ _ (hinv.rkeys x hx)
          · intro x hx hxr
            have hxn : x ≠ absImport n i := fun e => hxr (by rw [e]; exact List.mem_cons_self ..)
            have hx' : isKey st x := by
              unfold isKey at *; rw [enter_nss_other _ _ _ hxn] at hx; exact hx
            simpa using hinv.done x hx' (fun hm => hxr (List.mem_cons_of_mem _ hm))
          · intro x hx
            simp only [enter_resolved]
            rcases hx with hx | hx
            · rcases List.mem_cons.1 hx with rfl | hx
              · exact hinv.none _ (.inr hnk)
              · exact hinv.none x (.inl hx)
            · exact hinv.none x (.inr (fun hk' => hx (enter_key _ _ _ hk')))
        have hinv1 := hspec _ _ _ (n :: rest) hs1' (by simp [hst]) hinv0 hfresh
        rw [hcase]
        exact hinv1.congr (fun _ => Iff.rfl) rfl
    exact importAll_resInv hs hspec is s1 s n rest h2 hst1 step

theorem loadFile_rspec (fs : FS) : ∀ fuel, RSpec fs (loadFile fs fuel)
  | 0 => by
    intro n st st' rest h
    obtain ⟨_, _, _, h0, _⟩ := loadFile_ok h
    omega
  | fuel + 1 => by
    intro n st st' rest h hst hinv hnr
    obtain ⟨f, fuel', s1, h0, hf, h1, h2⟩ := loadFile_ok h
    have : fuel' = fuel := by omega
    subst this
    have hinv1 := importAll_resInv (loadFile_stack fs fuel') (loadFile_rspec fs fuel') f.imports _ s1 n rest h1
      (by simpa using hst) (hinv.congr (st' := logOpen st n) (fun _ => Iff.rfl) rfl)
    have hst1 : s1.stack = n :: rest := by
      rw [importAll_stack (loadFile_stack fs fuel') _ _ _ h1]; simpa using hst
    have hinv2 : ResInv fs (createAll s1 f.rules) (n :: rest) :=
      hinv1.congr (fun x => createAll_key _ _ x) (by simp)
    obtain ⟨l, hl, hm, hns⟩ := secondPass_resolved f.rules _ st' n rest h2 (by simpa using hst1)
    have hk : ∀ x, isKey st' x ↔ isKey (createAll s1 f.rules) x := by
      intro x; unfold isKey; rw [(secondPass_nss _ _ _ h2).1]
    constructor
    · intro x hx
      exact (hk x).2 (hinv2.rkeys x (List.mem_cons_of_mem _ hx))
    · intro x hx hxr
      rw [hl, resRules_append]
      by_cases hxn : x = n
      · subst hxn
        refine ⟨f, hf, ?_⟩
        rw [hinv2.none x (.inl (List.mem_cons_self ..)), resRules_same l x hns, hm]; simp
      · obtain ⟨fx, hfx, hrx⟩ := hinv2.done x ((hk x).1 hx) (by
          intro hm'; rcases List.mem_cons.1 hm' with e | hm'
          · exact hxn e
          · exact hxr hm')
        exact ⟨fx, hfx, by rw [hrx, resRules_other l n x hns hxn]; simp⟩
    · intro x hx
      have hxn : x ≠ n := by
        intro e; subst e
        rcases hx with hx | hx
        · exact hnr hx
        · exact hx ((hk x).2 (hinv2.rkeys x (List.mem_cons_self ..)))
      rw [hl, resRules_append, resRules_other l n x hns hxn]
      have := hinv2.none x (by
        rcases hx with hx | hx
        · exact .inl (List.mem_cons_of_mem _ hx)
        · exact .inr (fun h' => hx ((hk x).2 h')))
      simpa using this

theorem loadMain_resInv {fs : FS} {fuel : Nat} {main : Seg} {st : St} (h : loadMain fs fuel main = .ok st) :
    ResInv fs st [] := by
  unfold loadMain at h
  have hk0 : ¬ isKey St.empty [main] := by simp [isKey, St.empty]
  apply loadFile_rspec fs fuel [main] _ st [] h (by simp [St.empty]) _ (by simp)
  constructor
  · intro x hx
    simp at hx; subst hx; exact enter_key_self _ _
  · intro x hx hxr
    have hxn : x ≠ [main] := by simpa using hxr
    unfold isKey at hx; rw [enter_nss_other _ _ _ hxn] at hx
    simp [St.empty] at hx
  · intro x _
    simp [St.empty, resRules]

end Imp
