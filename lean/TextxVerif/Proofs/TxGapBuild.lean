import TextxVerif.Proofs.PegTermsTok
import TextxVerif.Tx.Build
import TextxVerif.Tx.GapCompat
/-!
# Gap extension and model construction (C22)

`Tx.build` (mirror of `parse_tree_to_objgraph`) reads the attribute values from the input by the
(position, length) of the terminals of the parse tree.  Here: the text of a terminal that does not overlap the
insertion point is the same in the extended input at the shifted position (`slice_extendGap`,
`termText_ext`, `termValue_ext`), and the whole model construction — objects, nested objects, match rules,
abstract rules, the four assignment handlers, its errors, its fuel — gives the same result on the shifted tree
(`process_shift`, `build_shift`).
-/
namespace Tx
open Peg

/-! ## the text of a terminal -/

/-- a slice that does not overlap the insertion point is found unchanged at the shifted position -/
theorem slice_extendGap (inp : Array Char) (p : Nat) (ins : List Char) (hp : p ≤ inp.size) (q len : Nat)
    (h : q + len ≤ p ∨ p ≤ q) :
    slice (extendGap inp p ins) (sh p ins.length q) len = slice inp q len := by
  have hx := extendGap_inputExt inp p ins hp
  unfold slice
  congr 1
  apply List.ext_getElem?
  intro i
  simp only [List.getElem?_take, List.getElem?_drop, Array.getElem?_toList]
  split
  · rename_i hi
    unfold sh
    split
    · exact hx.below (q + i) (by omega)
    · have := hx.above (q + i) (by omega)
      rw [← this]
      congr 1
      omega
  · rfl

theorem g1At_none_of_size {g1 : Array (Array (Option (Nat × Nat)))} {t : Nat} (h : g1.size ≤ t) (q : Nat) :
    g1At g1 t q = none := by
  unfold g1At
  rw [Array.getElem?_eq_none h]
  rfl

theorem g1Compat_of_check {g1 g1' : Array (Array (Option (Nat × Nat)))} {size p k : Nat}
    (h : g1CompatB g1 g1' size p k = true) (t q : Nat) (hq : q ≤ size) : g1CompatAt g1 g1' p k t q = true := by
  by_cases ht : t < max g1.size g1'.size
  · unfold g1CompatB at h
    rw [List.all_eq_true] at h
    have h1 := h t (List.mem_range.mpr ht)
    rw [List.all_eq_true] at h1
    exact h1 q (List.mem_range.mpr (by omega))
  · unfold g1CompatAt
    rw [g1At_none_of_size (by omega) q, g1At_none_of_size (by omega) _]
    rfl

/-- what the two build contexts must have in common -/
structure CtxExt (x x' : BCtx) (p : Nat) (ins : List Char) : Prop where
  c : x'.c = x.c
  cfg : x'.cfg = x.cfg
  groups : x'.groups = x.groups
  input : x'.input = extendGap x.input p ins
  le : p ≤ x.input.size
  /-- `use_regexp_group` off, or compatible group tables -/
  g1 : x.cfg.useRegexpGroup = false ∨ g1CompatB x.g1 x'.g1 x.input.size p ins.length = true

theorem termText_ext {x x' : BCtx} {p : Nat} {ins : List Char} (hx : CtxExt x x' p ins) (nd : CNode)
    (pos len : Nat) (h : pos + len ≤ p ∨ p ≤ pos) :
    x'.termText nd (sh p ins.length pos) len = x.termText nd pos len := by
  unfold BCtx.termText
  rw [hx.input]
  cases nd.node.kind <;> simp only
  all_goals exact slice_extendGap x.input p ins hx.le pos len h

/-- **The value of a terminal is unchanged**: `process_node` on a Terminal that does not overlap the insertion
point computes, on the extended input at the shifted position, the value it computes on the original input
(base-type conversion and `use_regexp_group` included). -/
theorem termValue_ext {x x' : BCtx} {p : Nat} {ins : List Char} (hx : CtxExt x x' p ins) (nd : CNode)
    (pos len : Nat) (h : pos + len ≤ p ∨ p ≤ pos) (hs : pos ≤ x.input.size) :
    x'.termValue nd (sh p ins.length pos) len = x.termValue nd pos len := by
  unfold BCtx.termValue
  rw [hx.cfg, hx.groups, termText_ext hx nd pos len h]
  split
  · rename_i hc
    rcases hx.g1 with hu | hg
    · rw [hu] at hc; simp at hc
    · have hcm := g1Compat_of_check hg nd.node.tok pos hs
      unfold g1CompatAt at hcm
      show (match g1At x'.g1 nd.node.tok (sh p ins.length pos) with
          | some (s, l) => convert nd.node.rule (slice x'.input s l)
          | none => PVal.none) =
        (match g1At x.g1 nd.node.tok pos with
          | some (s, l) => convert nd.node.rule (slice x.input s l)
          | none => PVal.none)
      cases hg1 : g1At x.g1 nd.node.tok pos with
      | none =>
        rw [hg1] at hcm
        simp only [beq_iff_eq] at hcm
        rw [hcm]
      | some sl =>
        obtain ⟨s, l⟩ := sl
        rw [hg1] at hcm
        simp only [Bool.and_eq_true, beq_iff_eq, Bool.or_eq_true, decide_eq_true_eq] at hcm
        rw [hcm.1]
        simp only
        rw [hx.input, slice_extendGap x.input p ins hx.le s l hcm.2]
  · rfl

/-! ## the terminals of a tree on which the two contexts agree -/

/-- the two build contexts give the terminal `(id, pos, len)` / its image under `sf` the same value and text -/
def termSameB (x x' : BCtx) (sf : Nat → Nat) (id pos len : Nat) : Bool :=
  match x.node? id with
  | some nd => x'.termValue nd (sf pos) len == x.termValue nd pos len &&
      x'.termText nd (sf pos) len == x.termText nd pos len
  | none => true

theorem termSame_spec {x x' : BCtx} {sf : Nat → Nat} {id pos len : Nat} {nd : CNode}
    (h : termSameB x x' sf id pos len = true) (hn : x.node? id = some nd) :
    x'.termValue nd (sf pos) len = x.termValue nd pos len ∧
    x'.termText nd (sf pos) len = x.termText nd pos len := by
  unfold termSameB at h
  rw [hn] at h
  simpa using h

theorem termSame_of_clear {x x' : BCtx} {p : Nat} {ins : List Char} (hx : CtxExt x x' p ins) (id pos len : Nat)
    (h : clearB x.input.size p id pos len = true) : termSameB x x' (sh p ins.length) id pos len = true := by
  unfold clearB at h
  simp only [Bool.and_eq_true, Bool.or_eq_true, decide_eq_true_eq] at h
  unfold termSameB
  cases hn : x.node? id with
  | none => rfl
  | some nd =>
    have hc : pos + len ≤ p ∨ p ≤ pos := by omega
    simp only [termValue_ext hx nd pos len hc h.2, termText_ext hx nd pos len hc, beq_self_eq_true, Bool.and_self]

/-! ## model construction on the shifted tree -/

section shift
variable {x x' : BCtx} (hc : x'.c = x.c) (sf : Nat → Nat)
include hc

theorem node?_eq (id : Nat) : x'.node? id = x.node? id := by
  unfold BCtx.node?; rw [hc]

theorem kindOf_eq (cls : String) : x'.kindOf cls = x.kindOf cls := by
  unfold BCtx.kindOf; rw [hc]

theorem valRule_shift (k : Val) : valRule x' (k.shift sf) = valRule x k := by
  cases k <;> simp [Val.shift, valRule, node?_eq hc]

omit hc

theorem default_eq (hcfg : x'.cfg = x.cfg) (a : Attr) : x'.default a = x.default a := by
  unfold BCtx.default; rw [hcfg]

theorem isTerm_shift (k : Val) : isTerm (k.shift sf) = isTerm k := by
  cases k <;> simp [Val.shift, isTerm]

theorem valId_shift (k : Val) : valId (k.shift sf) = valId k := by
  cases k <;> simp [Val.shift, valId]

theorem isSepKid_shift (sep : Option Nat) (k : Val) : isSepKid sep (k.shift sf) = isSepKid sep k := by
  unfold isSepKid; rw [valId_shift]

theorem find?_shiftList (pr pr' : Val → Bool) (h : ∀ k, pr' (k.shift sf) = pr k) :
    ∀ ks : List Val, (Val.shiftList sf ks).find? pr' = (ks.find? pr).map (Val.shift sf)
  | [] => rfl
  | k :: ks => by
    simp only [Val.shiftList, List.find?_cons, h k]
    cases pr k
    · simp only; exact find?_shiftList pr pr' h ks
    · rfl

end shift

/-- **Model construction commutes with the position shift.**  For two build contexts with the same parser
model, classes and configuration, and any map `sf` of positions: on a tree all of whose terminals have the
same value / text in both contexts (`termSameB`), every function of the model construction gives on the
shifted tree in the second context exactly what it gives on the tree in the first one — same objects, same
attribute values, same creation numbers and parents, same errors, same fuel behaviour. -/
theorem process_shift {x x' : BCtx} (hc : x'.c = x.c) (hcfg : x'.cfg = x.cfg) (sf : Nat → Nat) : ∀ f : Nat,
    (∀ v, v.allTerms (termSameB x x' sf) = true → processMatch x' f (v.shift sf) = processMatch x f v) ∧
    (∀ vs, Val.allTermsList (termSameB x x' sf) vs = true →
      processMatchList x' f (Val.shiftList sf vs) = processMatchList x f vs) ∧
    (∀ v, v.allTerms (termSameB x x' sf) = true →
      ∀ top st, processNode x' f (v.shift sf) top st = processNode x f v top st) ∧
    (∀ ks, Val.allTermsList (termSameB x x' sf) ks = true →
      ∀ me attrs st, processKids x' f (Val.shiftList sf ks) me attrs st = processKids x f ks me attrs st) ∧
    (∀ ks, Val.allTermsList (termSameB x x' sf) ks = true →
      ∀ sep me name attrs st,
        processList x' f (Val.shiftList sf ks) sep me name attrs st = processList x f ks sep me name attrs st) := by
  intro f
  induction f with
  | zero =>
    refine ⟨?_, ?_, ?_, ?_, ?_⟩ <;> intros <;>
      simp only [processMatch, processMatchList, processNode, processKids, processList]
  | succ f ih =>
    obtain ⟨ihM, ihML, ihN, ihK, ihL⟩ := ih
    refine ⟨?_, ?_, ?_, ?_, ?_⟩
    · -- processMatch
      intro v hv
      cases v with
      | none => simp only [Val.shift, processMatch]
      | list vs => simp only [Val.shift, processMatch]
      | term id pos len =>
        simp only [Val.allTerms] at hv
        simp only [Val.shift, processMatch, node?_eq hc]
        cases hn : x.node? id with
        | none => rfl
        | some nd =>
          simp only
          rw [(termSame_spec hv hn).2]
      | nt id ks =>
        simp only [Val.allTerms] at hv
        rcases ks with _ | ⟨k, _ | ⟨k2, ks⟩⟩
        · simp only [Val.shift, Val.shiftList, processMatch]
        · simp only [Val.allTermsList, Bool.and_true] at hv
          simp only [Val.shift, Val.shiftList, processMatch]
          exact ihM k hv
        · have := ihML (k :: k2 :: ks) hv
          simp only [Val.shiftList] at this
          simp only [Val.shift, Val.shiftList, processMatch, this]
    · -- processMatchList
      intro vs hvs
      cases vs with
      | nil => simp only [Val.shiftList, processMatchList]
      | cons k ks =>
        simp only [Val.allTermsList, Bool.and_eq_true] at hvs
        simp only [Val.shiftList, processMatchList, ihM k hvs.1, ihML ks hvs.2]
    · -- processNode
      intro v hv top st
      cases v with
      | none => simp only [Val.shift, processNode]
      | list vs => simp only [Val.shift, processNode]
      | term id pos len =>
        simp only [Val.allTerms] at hv
        simp only [Val.shift, processNode, node?_eq hc]
        cases hn : x.node? id with
        | none => rfl
        | some nd =>
          simp only
          rw [(termSame_spec hv hn).1]
      | nt id ks =>
        have hks : Val.allTermsList (termSameB x x' sf) ks = true := by simpa only [Val.allTerms] using hv
        have eM := ihM (.nt id ks) hv
        simp only [Val.shift] at eM
        simp only [Val.shift, processNode, node?_eq hc, kindOf_eq hc, hc]
        cases hn : x.node? id with
        | none => rfl
        | some nd =>
          simp only
          split
          · rfl
          · cases hk : x.kindOf nd.node.rule with
            | match_ => simp only [eM]
            | common =>
              simp only [default_eq hcfg, ihK ks hks]
            | abstract =>
              simp only
              rcases ks with _ | ⟨k, _ | ⟨k2, ks⟩⟩
              · simp only [Val.shiftList]
              · simp only [Val.allTermsList, Bool.and_true] at hks
                simp only [Val.shiftList]
                exact ihN k hks top st
              · have hL : Val.shift sf k :: Val.shift sf k2 :: Val.shiftList sf ks =
                    Val.shiftList sf (k :: k2 :: ks) := by simp only [Val.shiftList]
                simp only [Val.shiftList]
                rw [hL]
                generalize k :: k2 :: ks = L at hks ⊢
                have e1 := find?_shiftList sf (fun k => !isTerm k) (fun k => !isTerm k)
                  (fun k => by simp only [isTerm_shift]) L
                have e2 := find?_shiftList sf
                  (fun k => !isTerm k && x.kindOf (valRule x k) != .match_)
                  (fun k => !isTerm k && x.kindOf (valRule x' k) != .match_)
                  (fun k => by simp only [isTerm_shift, valRule_shift hc]) L
                simp only [e1, e2]
                have hmem : ∀ k, k ∈ L → k.allTerms (termSameB x x' sf) = true :=
                  (Val.allTermsList_iff L).1 hks
                cases hNT : L.find? (fun k => !isTerm k) with
                | none =>
                  cases hObj : L.find? (fun k => !isTerm k && x.kindOf (valRule x k) != .match_) with
                  | none =>
                    simp only [Option.map_none]
                    congr 5
                    rw [Val.shiftList_eq_map, List.map_map]
                    apply List.map_congr_left
                    intro k hkL
                    have hkT := hmem k hkL
                    cases k with
                    | term tid pos len =>
                      simp only [Val.allTerms] at hkT
                      simp only [Function.comp, Val.shift]
                      cases hn2 : x.node? tid with
                      | none => rfl
                      | some tn =>
                        simp only [Option.map_some, Option.getD_some]
                        exact (termSame_spec hkT hn2).2
                    | _ => simp only [Function.comp, Val.shift]
                  | some ko =>
                    simp only [Option.map_none, Option.map_some]
                    exact ihN ko (hmem ko (List.mem_of_find?_eq_some hObj)) top st
                | some kn =>
                  have hkn := hmem kn (List.mem_of_find?_eq_some hNT)
                  cases hObj : L.find? (fun k => !isTerm k && x.kindOf (valRule x k) != .match_) with
                  | none =>
                    simp only [Option.map_none, Option.map_some, valRule_shift hc]
                    exact ihN kn hkn top _
                  | some ko =>
                    simp only [Option.map_some, valRule_shift hc]
                    exact ihN ko (hmem ko (List.mem_of_find?_eq_some hObj)) top _
    · -- processKids
      intro ks hks me attrs st
      cases ks with
      | nil => simp only [Val.shiftList, processKids]
      | cons k ks =>
        simp only [Val.allTermsList, Bool.and_eq_true] at hks
        have eK := ihK ks hks.2
        have eN := ihN k hks.1
        simp only [Val.shiftList, processKids]
        cases k with
        | nt id aks =>
          have haks : Val.allTermsList (termSameB x x' sf) aks = true := by simpa only [Val.allTerms] using hks.1
          have eL := ihL aks haks
          simp only [Val.shift] at eN
          simp only [Val.shift, node?_eq hc]
          cases hn : x.node? id with
          | none => simp only [Option.bind_none, eN, eK]
          | some nd =>
            simp only [Option.bind_some]
            by_cases hsw : nd.node.rule.startsWith "__asgn" = true
            · simp only [hsw, if_true, eL, eK]
              cases hga : getAttr attrs nd.attr with
              | none => simp only
              | some cur =>
                cases aks with
                | nil => simp only [Val.shiftList]
                | cons a0 as =>
                  simp only [Val.allTermsList, Bool.and_eq_true] at haks
                  simp only [Val.shiftList, ihN a0 haks.1]
            · simp only [hsw, Bool.false_eq_true, if_false, eN, eK]
        | term id pos len =>
          simp only [Val.shift] at eN
          simp only [Val.shift, eN, eK]
        | none =>
          simp only [Val.shift] at eN
          simp only [Val.shift, eN, eK]
        | list vs =>
          simp only [Val.shift] at eN
          simp only [Val.shift, eN, eK]
    · -- processList
      intro ks hks sep me name attrs st
      cases ks with
      | nil => simp only [Val.shiftList, processList]
      | cons k ks =>
        simp only [Val.allTermsList, Bool.and_eq_true] at hks
        simp only [Val.shiftList, processList, isSepKid_shift, ihN k hks.1, ihL ks hks.2]

/-- `parse_tree_to_objgraph` on the shifted tree -/
theorem build_shift {x x' : BCtx} (hc : x'.c = x.c) (hcfg : x'.cfg = x.cfg) (sf : Nat → Nat) (fuel : Nat)
    (tree : Val) (h : tree.allTerms (termSameB x x' sf) = true) :
    build x' fuel (tree.shift sf) = build x fuel tree := by
  cases tree with
  | nt id ks =>
    cases ks with
    | nil => simp only [Val.shift, Val.shiftList, build]
    | cons k ks =>
      have hk : k.allTerms (termSameB x x' sf) = true := by
        simp only [Val.allTerms, Val.allTermsList, Bool.and_eq_true] at h
        exact h.1
      simp only [Val.shift, Val.shiftList, build, (process_shift hc hcfg sf fuel).2.2.1 k hk]
  | _ => simp only [Val.shift, build]

/-! ## the whole load -/

theorem rows_of_check {g : Grammar} {p : Nat} {ins : List Char} {toks' : Array (Array (Option Nat))}
    {skipws : Bool} {ws : List Char} (h : gapExtOkB g p ins toks' skipws ws = true) : rowsOkB g = true := by
  unfold gapExtOkB at h
  simp only [Bool.and_eq_true] at h
  exact h.1.1.2

/-- **`metamodel.model_from_str` on the gap-extended input gives the same outcome**: under the side conditions
of the parse-level theorem (`gapExtOkB`) and — with `use_regexp_group` — compatible group tables, the mirror of
parse + model construction returns on the extended input exactly what it returns on the original one: the
same model (classes, attribute values, creation order, parents), or the same error, for every fuel. -/
theorem load_gapExt (c : Compiled) (cfg : Config) (input : Array Char) (toks toks' : Array (Array (Option Nat)))
    (groups : Array Nat) (g1 g1' : Array (Array (Option (Nat × Nat)))) (p : Nat) (ins : List Char)
    (h : gapExtOkB (c.grammar input toks) p ins toks' cfg.skipws cfg.ws = true)
    (hg : cfg.useRegexpGroup = false ∨ g1CompatB g1 g1' input.size p ins.length = true) (fuel : Nat) :
    load c cfg (extendGap input p ins) toks' groups g1' fuel = load c cfg input toks groups g1 fuel := by
  obtain ⟨hx, hs, hw⟩ := ext_of_check h
  have hrows := rows_of_check h
  have hp : p ≤ input.size := hx.input.le
  have hR0 : R p ins.length 0 0 := by
    unfold R sh
    by_cases h : 0 < p
    · left; simp [h]
    · right; omega
  have h0 : SR ins p ins.length (initState true cfg.ws) (initState true cfg.ws) :=
    ⟨⟨rfl, hw, hw, fun h => by simp [initState] at h⟩, hR0, rfl, rfl, rfl, rfl, rfl, rfl, trivial⟩
  obtain ⟨hr, _⟩ := (parse_rel hx fuel c.top _ _ h0).1
  have hcl := parse_terms_clear (p := p) (k := ins.length) hx.memo hx.toks hrows fuel c.top (initState true cfg.ws)
  unfold load
  rw [hs]
  have hgr : c.grammar (extendGap input p ins) toks' = (c.grammar input toks).ext p ins toks' := rfl
  rw [hgr]
  rcases h1 : parse (c.grammar input toks) fuel c.top (initState true cfg.ws) with ⟨r, t⟩
  rcases h2 : parse ((c.grammar input toks).ext p ins toks') fuel c.top (initState true cfg.ws) with ⟨r', t'⟩
  rw [h1, h2] at hr
  simp only at hr
  cases hr with
  | ok v =>
    simp only
    have hv := hcl v t h1
    have hcx : CtxExt { c := c, cfg := cfg, input := input, groups := groups, g1 := g1 }
        { c := c, cfg := cfg, input := extendGap input p ins, groups := groups, g1 := g1' } p ins :=
      ⟨rfl, rfl, rfl, rfl, hp, hg⟩
    have hv' : v.allTerms (clearB input.size p) = true := hv
    have hv2 := Val.allTerms_mono (fun n q l hh => termSame_of_clear hcx n q l hh) v hv'
    exact build_shift hcx.c hcx.cfg (sh p ins.length) fuel v hv2
  | nom => rfl
  | fuel => rfl
  | bad => rfl

end Tx
