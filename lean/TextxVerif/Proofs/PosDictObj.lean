import TextxVerif.PosDictObj
import TextxVerif.Proofs.PosDict
import TextxVerif.Proofs.ObjRefs
/-! Helper lemmas for C34: the containment tree of a heap built by `Obj.build`, read as a
`PosDict.ONode`, has the order-free parse geometry `geo`. -/
namespace PosDict
open Obj

theorem spanD_eq (h : Heap) (x : Nat) : spanD h x = (spanOf h x).getD (0, 0) := by
  unfold spanD spanOf
  cases h.get x <;> rfl

theorem spanD_of {h : Heap} {x : Nat} {sp : Nat × Nat} (hs : spanOf h x = some sp) : spanD h x = sp := by
  rw [spanD_eq, hs]; rfl

theorem toONode_id (h : Heap) (f x : Nat) : (toONode h f x).id = x := by
  cases f <;> rfl

theorem toONode_s (h : Heap) (f x : Nat) : (toONode h f x).s = (spanD h x).1 := by
  cases f <;> rfl

theorem toONode_e (h : Heap) (f x : Nat) : (toONode h f x).e = (spanD h x).2 := by
  cases f <;> rfl

theorem spanOf_of_isSome {h : Heap} {x : Nat} (hx : (h.get x).isSome = true) : ∃ sp, spanOf h x = some sp := by
  unfold spanOf
  cases hg : h.get x with
  | none => rw [hg] at hx; cases hx
  | some o => exact ⟨_, rfl⟩

/-- tree-shaped heap + span invariant of the construction + non-empty spans ⇒ `geo` -/
theorem geo_toONode {root : PT} {h : Heap} (T : TreeHeap h) (si : SI root h)
    (hne : ∀ x sp, spanOf h x = some sp → sp.1 < sp.2) :
    ∀ (f x : Nat), (h.get x).isSome = true → geo (toONode h f x) = true
  | 0, x, hx => by
    obtain ⟨sp, hsp⟩ := spanOf_of_isSome hx
    simp only [toONode, geo, geoList, Bool.and_true, decide_eq_true_eq]
    rw [spanD_of hsp]
    exact hne x sp hsp
  | f + 1, x, hx => by
    obtain ⟨sp, hsp⟩ := spanOf_of_isSome hx
    simp only [toONode, geo, Bool.and_eq_true, decide_eq_true_eq]
    rw [spanD_of hsp]
    refine ⟨hne x sp hsp, ?_⟩
    rw [geoList_iff]
    refine ⟨?_, ?_⟩
    · intro k hk
      obtain ⟨c, hc, rfl⟩ := List.mem_map.mp hk
      have hce := T.exists_of_cont x c hc
      obtain ⟨sc, hsc⟩ := spanOf_of_isSome hce
      have hn := si.nest x c sp sc hc hsp hsc
      rw [toONode_s, toONode_e, spanD_of hsc]
      exact ⟨hn.1, hn.2, geo_toONode T si hne f c hce⟩
    · rw [List.pairwise_map]
      refine List.Pairwise.imp_of_mem ?_ (T.nodup x)
      intro c1 c2 h1 h2 hne12
      obtain ⟨s1, hs1⟩ := spanOf_of_isSome (T.exists_of_cont x c1 h1)
      obtain ⟨s2, hs2⟩ := spanOf_of_isSome (T.exists_of_cont x c2 h2)
      rw [toONode_s, toONode_e, toONode_s, toONode_e, spanD_of hs1, spanD_of hs2]
      rcases Nat.lt_or_gt_of_ne hne12 with hlt | hgt
      · exact Or.inl (si.sib x c1 c2 s1 s2 h1 h2 hlt hs1 hs2)
      · exact Or.inr (si.sib x c2 c1 s2 s1 h2 h1 hgt hs2 hs1)

/-- the object tree only depends on the containment lists and the spans -/
theorem toONode_congr {h h' : Heap} (e : SameTree h h') : ∀ (f x : Nat), toONode h' f x = toONode h f x
  | 0, x => by simp only [toONode, spanD_eq, e.span]
  | f + 1, x => by
    simp only [toONode, spanD_eq, e.span, e.cont]
    congr 1
    exact List.map_congr_left (fun c _ => toONode_congr e f c)

/-- with enough fuel every object reachable through containment is a node of the object tree -/
theorem mem_nodes_toONode {h : Heap} (T : TreeHeap h) {r x : Nat} (R : Reach h (fun _ => true) r x) :
    ∀ f, h.length ≤ r + f → ∃ n ∈ nodes (toONode h f r), n.id = x := by
  induction R with
  | here _ => intro f _; exact ⟨_, self_mem_nodes _, toONode_id h f _⟩
  | @down p c y hc _ _ ih =>
    intro f hf
    have hlt := T.lt_of_cont hc
    have hcl := Heap.isSome_iff.mp (T.exists_of_cont p c hc)
    cases f with
    | zero => omega
    | succ f' =>
      obtain ⟨n, hn, hid⟩ := ih f' (by omega)
      refine ⟨n, ?_, hid⟩
      simp only [toONode, nodes, List.mem_cons]
      right
      exact mem_nodesList_of (List.mem_map.mpr ⟨c, hc, rfl⟩) hn

end PosDict
