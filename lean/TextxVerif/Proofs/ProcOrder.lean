import TextxVerif.Proofs.ProcWalk
/-! Helper lemmas for the positive ordering / exact-once statements of C13 (D13). -/
namespace Proc

/-! ### containment is irreflexive when ids are distinct -/
mutual
theorem inside_ne : ∀ (v : Val) (a b : Nat), (oids v).Nodup → inside v a b → a ≠ b
  | .none, a, b, _, h => by simp [inside] at h
  | .prim _, a, b, _, h => by simp [inside] at h
  | .list xs, a, b, hn, h => by
      rw [oids] at hn; rw [inside] at h
      exact insideItems_ne xs a b hn h
  | .obj id cls fs, a, b, hn, h => by
      rw [oids, List.nodup_append] at hn
      obtain ⟨hn1, _, hd⟩ := hn
      rw [inside] at h
      rcases h with ⟨h1, h2⟩ | h
      · intro hab
        subst hab
        subst h1
        exact hd _ h2 id (by simp) rfl
      · exact insideFields_ne fs a b hn1 h
theorem insideFields_ne : ∀ (fs : Fields) (a b : Nat), (oidsFields fs).Nodup → insideFields fs a b → a ≠ b
  | .nil, a, b, _, h => by simp [insideFields] at h
  | .cons _ v rest, a, b, hn, h => by
      rw [oidsFields, List.nodup_append] at hn
      obtain ⟨hn1, hn2, _⟩ := hn
      rw [insideFields] at h
      rcases h with h | h
      · exact inside_ne v a b hn1 h
      · exact insideFields_ne rest a b hn2 h
theorem insideItems_ne : ∀ (xs : Vals) (a b : Nat), (oidsItems xs).Nodup → insideItems xs a b → a ≠ b
  | .nil, a, b, _, h => by simp [insideItems] at h
  | .cons x xs, a, b, hn, h => by
      rw [oidsItems, List.nodup_append] at hn
      obtain ⟨hn1, hn2, _⟩ := hn
      rw [insideItems] at h
      rcases h with h | h
      · exact inside_ne x a b hn1 h
      · exact insideItems_ne xs a b hn2 h
end

/-- index form of "children first" on the key sequence: a call on an object inside
the object of call `i` sits at a smaller index (no `i ≠ j` needed: containment is
irreflexive) -/
theorem keys_before (M : MM) (S : Script) (v : Val) (gm : Nat) (hn : (oids v).Nodup)
    (i j : Nat) (hi : i < ((walk M S v gm).log.map Entry.key).length)
    (hj : j < ((walk M S v gm).log.map Entry.key).length)
    (hin : inside v (((walk M S v gm).log.map Entry.key)[i]).2 (((walk M S v gm).log.map Entry.key)[j]).2) :
    j < i := by
  have hi' : i < (walk M S v gm).log.length := by simpa using hi
  have hj' : j < (walk M S v gm).log.length := by simpa using hj
  have hin' : inside v ((walk M S v gm).log[i]).id ((walk M S v gm).log[j]).id := by
    simpa [Entry.key] using hin
  have hp := List.pairwise_iff_getElem.1
    (by
      have := walkSlot_children_first M S false gm v hn
      rwa [walkSlot_false] at this :
      (walk M S v gm).log.Pairwise (fun x y => ¬ inside v x.id y.id))
  rcases Nat.lt_trichotomy j i with h | h | h
  · exact h
  · subst h
    exact absurd rfl (inside_ne v _ _ hn hin')
  · exact absurd hin' (hp i j hi' hj' h)

/-! ### the calls an occurrence is entitled to, read declaratively -/

theorem calls_mem_iff (M : MM) (o : Occ) (k : Nat × Nat) :
    k ∈ calls M o ↔ k.2 = o.id ∧ M.hasProc k.1 = true ∧ (k.1 = o.cls ∨ k.1 = o.gm) := by
  obtain ⟨r, i⟩ := k
  obtain ⟨id, cls, gm⟩ := o
  simp only [calls, List.mem_append]
  constructor
  · rintro (h | h)
    · split at h
      · rename_i hc
        simp only [List.mem_singleton, Prod.mk.injEq] at h
        simp only [Bool.and_eq_true, decide_eq_true_eq] at hc
        exact ⟨h.2, h.1 ▸ hc.2, Or.inl h.1⟩
      · simp at h
    · split at h
      · rename_i hc
        simp only [List.mem_singleton, Prod.mk.injEq] at h
        exact ⟨h.2, h.1 ▸ hc, Or.inr h.1⟩
      · simp at h
  · rintro ⟨h1, h2, h3 | h3⟩
    · subst h1; subst h3
      by_cases hg : r = gm
      · right; subst hg; simp [h2]
      · left; simp [hg, h2]
    · subst h1; subst h3
      right; simp [h2]

theorem calls_nodup (M : MM) (o : Occ) : (calls M o).Nodup := by
  obtain ⟨id, cls, gm⟩ := o
  simp only [calls]
  by_cases h : cls = gm
  · subst h
    cases M.hasProc cls <;> simp
  · cases M.hasProc cls <;> cases M.hasProc gm <;> simp [h]

/-- own rule first, declared rule second -/
theorem calls_order (M : MM) (o : Occ) (h : o.cls ≠ o.gm) (h1 : M.hasProc o.cls = true) (h2 : M.hasProc o.gm = true) :
    calls M o = [(o.cls, o.id), (o.gm, o.id)] := by
  obtain ⟨id, cls, gm⟩ := o
  simp only at h h1 h2
  simp [calls, h, h1, h2]

end Proc
