import TextxVerif.Proofs.Rrel
/-!
Termination of the RREL search on a finite object graph: a fuel bound computed
from the expression, the number of objects and the number of name parts
suffices.  The measure for `*` is the number of keys of that node not yet in
the visited set.
-/
set_option linter.unusedVariables false
namespace Rrel

/-- a finite set of objects closed under what evaluation follows -/
structure FinHeap (H : Heap) (U : List Obj) : Prop where
  attr : ∀ o ∈ U, ∀ a l, H.attr o a = some l → ∀ x ∈ l, x ∈ U
  parent : ∀ o ∈ U, ∀ p, H.parent o = some p → p ∈ U
  extra : ∀ x ∈ H.extra, x ∈ U

/-! ### counting -/

theorem filter_length_mono {α : Type} (p q : α → Bool) (h : ∀ x, q x = true → p x = true) :
    ∀ l : List α, (l.filter q).length ≤ (l.filter p).length
  | [] => by simp
  | a :: l => by
    have ih := filter_length_mono p q h l
    simp only [List.filter_cons]
    by_cases hq : q a = true
    · simp only [hq, h a hq, if_true, List.length_cons]; omega
    · simp only [hq]
      by_cases hp : p a = true
      · simp only [hp, if_true, List.length_cons]
        simp at hq ⊢; omega
      · simp only [hp]; simpa using ih

theorem filter_length_lt {α : Type} (p q : α → Bool) (h : ∀ x, q x = true → p x = true) :
    ∀ l : List α, (∃ x ∈ l, p x = true ∧ q x = false) → (l.filter q).length < (l.filter p).length
  | [], hx => by simp at hx
  | a :: l, hx => by
    have hle := filter_length_mono p q h l
    simp only [List.filter_cons]
    by_cases ha : p a = true ∧ q a = false
    · simp only [ha.1, ha.2, if_true, List.length_cons]
      simp; omega
    · have hx' : ∃ x ∈ l, p x = true ∧ q x = false := by
        obtain ⟨x, hxm, hxp⟩ := hx
        rcases List.mem_cons.1 hxm with rfl | hxm
        · exact absurd hxp ha
        · exact ⟨x, hxm, hxp⟩
      have ih := filter_length_lt p q h l hx'
      by_cases hq : q a = true
      · simp only [hq, h a hq, if_true, List.length_cons]; omega
      · by_cases hp : p a = true
        · exact absurd ⟨hp, by simpa using hq⟩ ha
        · simp only [hq, hp]; simpa using ih

/-- all keys node `i` can get: objects of `U`, remaining lengths `0..L` -/
def allKeys (U : List Obj) (L : Nat) (i : Nat) : List Key :=
  U.flatMap fun o => (List.range (L + 1)).map fun len => (o, i, len)

/-- how many of them are not visited yet -/
def fresh (U : List Obj) (L : Nat) (i : Nat) (V : Vis) : Nat :=
  ((allKeys U L i).filter fun x => !(V.contains x)).length

theorem allKeys_length (U : List Obj) (L i : Nat) : (allKeys U L i).length = U.length * (L + 1) := by
  induction U with
  | nil => simp [allKeys]
  | cons a U ih =>
    simp only [allKeys, List.flatMap_cons, List.length_append, List.length_map, List.length_range] at ih ⊢
    rw [ih, List.length_cons, Nat.add_mul]; omega

theorem fresh_le (U : List Obj) (L i : Nat) (V : Vis) : fresh U L i V ≤ U.length * (L + 1) := by
  rw [← allKeys_length U L i]
  exact List.length_filter_le _ _

theorem fresh_mono (U : List Obj) (L i : Nat) (V V' : Vis) (h : ∀ x ∈ V, x ∈ V') :
    fresh U L i V' ≤ fresh U L i V := by
  apply filter_length_mono
  intro x hx
  simp only [Bool.not_eq_true', List.contains_eq_mem, decide_eq_false_iff_not] at hx ⊢
  exact fun hm => hx (h x hm)

theorem fresh_cons (U : List Obj) (L i : Nat) (V : Vis) (o : Obj) (len : Nat)
    (ho : o ∈ U) (hlen : len ≤ L) (hn : (o, i, len) ∉ V) :
    fresh U L i ((o, i, len) :: V) + 1 ≤ fresh U L i V := by
  have : fresh U L i ((o, i, len) :: V) < fresh U L i V := by
    apply filter_length_lt
    · intro x hx
      simp only [Bool.not_eq_true', List.contains_eq_mem, decide_eq_false_iff_not,
        List.mem_cons, not_or] at hx ⊢
      exact hx.2
    · refine ⟨(o, i, len), ?_, ?_, ?_⟩
      · simp only [allKeys, List.mem_flatMap, List.mem_map, List.mem_range]
        exact ⟨o, ho, len, by omega, rfl⟩
      · simpa using hn
      · simp
  omega

theorem guard_cases' (f : Bool) (s : St) (i : Nat) (V : Vis) :
    (f = true ∧ guard f s i V = some V) ∨
    (f = false ∧ key s i ∈ V ∧ guard f s i V = none) ∨
    (f = false ∧ key s i ∉ V ∧ guard f s i V = some (key s i :: V)) := by
  cases f with
  | true => left; simp [guard]
  | false =>
    by_cases h : key s i ∈ V
    · right; left; simp [guard, h]
    · right; right; simp [guard, h]

/-! ### states stay inside the finite universe -/

section term
variable {H : Heap} {U : List Obj} (hU : FinHeap H U) (L : Nat)

def okSt (U : List Obj) (L : Nat) (s : St) : Prop := s.o ∈ U ∧ s.ns.length ≤ L

include hU in
theorem ancF_mem : ∀ (n : Nat) (o : Obj), o ∈ U → ∀ x ∈ ancF H n o, x ∈ U
  | 0, o, _, x, hx => by simp [ancF] at hx
  | n+1, o, ho, x, hx => by
    simp only [ancF] at hx
    cases hp : H.parent o with
    | none => simp [hp] at hx
    | some p =>
      simp only [hp, List.mem_cons] at hx
      have hpU := hU.parent o ho p hp
      rcases hx with rfl | hx
      · exact hpU
      · exact ancF_mem n p hpU x hx

include hU in
theorem anc_mem (o : Obj) (ho : o ∈ U) : ∀ x ∈ anc H o, x ∈ U := ancF_mem hU _ o ho

include hU in
theorem root_mem (o : Obj) (ho : o ∈ U) : root H o ∈ U := by
  unfold root
  cases h : (anc H o).getLast? with
  | none => simpa using ho
  | some x =>
    simp only [Option.getD_some]
    exact anc_mem hU o ho x (List.mem_of_getLast? h)

include hU in
theorem starts_mem (o : Obj) (ho : o ∈ U) : ∀ x ∈ starts H o, x ∈ U := by
  intro x hx
  simp only [starts] at hx
  split at hx
  · rcases List.mem_cons.1 hx with rfl | hx
    · exact ho
    · exact hU.extra x hx
  · simp at hx; subst hx; exact ho

include hU in
theorem atomRes_ok (a : Atom) (f : Bool) (o : Obj) (ns : List String) (ho : o ∈ U)
    (l : List (Obj × List String × Bool)) (r : Obj × List String × Bool)
    (h : atomRes H a f o ns = some l) (hr : r ∈ l) : r.1 ∈ U ∧ r.2.1.length ≤ ns.length := by
  have hs := atomRes_sound H a f o ns l r h hr
  cases a with
  | nav attr m =>
    obtain ⟨pre, st, post, l', h1, _, h3, hc⟩ := hs
    have hsrc : (if f then root H o else o) ∈ U := by
      split
      · exact root_mem hU o ho
      · exact ho
    have hst : st ∈ U := starts_mem hU _ hsrc st (by rw [h1]; simp)
    have hmem : r.1 ∈ l' := hc.1
    refine ⟨hU.attr st hst attr l' h3 r.1 hmem, ?_⟩
    cases m with
    | tilde => simp [Cand] at hc; rw [hc.2.1]; exact Nat.le_refl _
    | fixed fx => simp [Cand] at hc; rw [hc.2.2.1]; exact Nat.le_refl _
    | consume =>
      simp only [Cand] at hc
      obtain ⟨_, n, h4, _⟩ := hc
      rw [h4]; simp
  | parent T =>
    obtain ⟨pre, post, h1, _, _, h4, _⟩ := hs
    exact ⟨anc_mem hU o ho r.1 (by rw [h1]; simp), by rw [h4]; exact Nat.le_refl _⟩
  | dots n =>
    obtain ⟨h1, h4, _⟩ := hs
    refine ⟨?_, by rw [h4]; exact Nat.le_refl _⟩
    rcases h1 with ⟨_, h2⟩ | ⟨_, h2⟩
    · rw [h2]; exact ho
    · exact anc_mem hU o ho r.1 (List.mem_of_getElem? h2)

include hU in
theorem applyAtom_ok (a : Atom) (f : Bool) (s : St) (hs : okSt U L s) (l : List St)
    (h : applyAtom H a f s = some l) : ∀ t ∈ l, okSt U L t := by
  intro t ht
  simp only [applyAtom] at h
  cases har : atomRes H a f s.o s.ns with
  | none => simp [har] at h
  | some l0 =>
    simp only [har, Option.map, Option.some.injEq] at h
    subst h
    obtain ⟨r, hr, rfl⟩ := List.mem_map.1 ht
    have := atomRes_ok hU a f s.o s.ns hs.1 l0 r har hr
    exact ⟨this.1, Nat.le_trans this.2 hs.2⟩

include hU in
theorem zeros_ok (e : E) (f : Bool) (s : St) (hs : okSt U L s) : ∀ t ∈ zeros H e f s, okSt U L t := by
  intro t ht
  simp only [zeros] at ht
  split at ht
  · simp only [List.mem_append] at ht
    rcases ht with ht | ht
    · split at ht
      · simp at ht; subst ht; exact hs
      · simp at ht
    · split at ht
      · simp at ht; subst ht; exact ⟨root_mem hU s.o hs.1, hs.2⟩
      · simp at ht
  · simp at ht; subst ht; exact hs

/-! ### the fuel bound -/

/-- fuel that suffices for `e` when no `*` node has more than `M` keys -/
def need (M : Nat) : E → Nat
  | .atom _ _ => 1
  | .grp _ e => need M e + 1
  | .alt a b => max (need M a) (need M b) + 1
  | .cat a b => max (need M a) (need M b) + 1
  | .star _ e => M + 3 + need M e

/-- …and with the current visited set taken into account for a `*` at the top -/
def req (U : List Obj) (L : Nat) (e : E) (f : Bool) (V : Vis) : Nat :=
  match e with
  | .star i b => fresh U L i V + 2 + need (U.length * (L + 1)) b + (if f then 1 else 0)
  | e => need (U.length * (L + 1)) e

theorem req_le_need (U : List Obj) (L : Nat) (e : E) (f : Bool) (V : Vis) :
    req U L e f V ≤ need (U.length * (L + 1)) e := by
  cases e with
  | star i b =>
    simp only [req, need]
    have := fresh_le U L i V
    split <;> omega
  | atom i a => exact Nat.le_refl _
  | grp i e => exact Nat.le_refl _
  | alt a b => exact Nat.le_refl _
  | cat a b => exact Nat.le_refl _

/-- contract of a consumer: from any visited set above `V` it neither runs out of fuel
nor forgets keys -/
def KT (U : List Obj) (L : Nat) (k : St → Vis → Res) (V : Vis) : Prop :=
  ∀ t V', (∀ x ∈ V, x ∈ V') → okSt U L t →
    k t V' ≠ .fuel ∧ ∀ V'', k t V' = .cont V'' → ∀ x ∈ V', x ∈ V''

theorem KT.weaken {k : St → Vis → Res} {V V1 : Vis} (h : KT U L k V) (hV : ∀ x ∈ V, x ∈ V1) :
    KT U L k V1 := fun t V' h1 ht => h t V' (fun x hx => h1 x (hV x hx)) ht

theorem feed_term {k : St → Vis → Res} :
    ∀ (l : List St) (V : Vis), KT U L k V → (∀ t ∈ l, okSt U L t) →
      feed k l V ≠ .fuel ∧ ∀ V'', feed k l V = .cont V'' → ∀ x ∈ V, x ∈ V''
  | [], V, _, _ => by
    simp only [feed]
    exact ⟨by simp, fun V'' h => by cases h; exact fun _ hx => hx⟩
  | t :: ts, V, hk, hl => by
    simp only [feed]
    obtain ⟨h1, h2⟩ := hk t V (fun _ hx => hx) (hl t (by simp))
    cases hkt : k t V with
    | cont V1 =>
      have hV1 := h2 V1 hkt
      obtain ⟨h3, h4⟩ := feed_term ts V1 (hk.weaken L hV1) (fun u hu => hl u (by simp [hu]))
      exact ⟨h3, fun V'' h x hx => h4 V'' h x (hV1 x hx)⟩
    | found s => exact ⟨by simp, fun V'' h => by cases h⟩
    | postponed => exact ⟨by simp, fun V'' h => by cases h⟩
    | fuel => exact absurd hkt h1

include hU in
/-- **termination**: with `req` fuel the evaluation does not run out of fuel -/
theorem eval_term :
    ∀ (n : Nat) (e : E) (f : Bool) (s : St) (V : Vis) (k : St → Vis → Res),
      okSt U L s → req U L e f V ≤ n → KT U L k V →
      eval H n e f s V k ≠ .fuel ∧ ∀ V'', eval H n e f s V k = .cont V'' → ∀ x ∈ V, x ∈ V'' := by
  intro n
  induction n with
  | zero =>
    intro e f s V k _ hreq _
    exfalso
    cases e <;> simp [req, need] at hreq
  | succ n ih =>
    intro e f s V k hs hreq hk
    cases e with
    | atom i a =>
      simp only [eval]
      rcases guard_cases' f s i V with ⟨_, hg⟩ | ⟨_, _, hg⟩ | ⟨_, _, hg⟩
      · simp only [hg]
        cases ha : applyAtom H a f s with
        | none => exact ⟨by simp, fun V'' h => by cases h⟩
        | some l => exact feed_term L l V hk (applyAtom_ok hU L a f s hs l ha)
      · simp only [hg]
        exact ⟨by simp, fun V'' h => by cases h; exact fun _ hx => hx⟩
      · simp only [hg]
        cases ha : applyAtom H a f s with
        | none => exact ⟨by simp, fun V'' h => by cases h⟩
        | some l =>
          obtain ⟨h1, h2⟩ := feed_term L l (key s i :: V)
            (hk.weaken L (fun x hx => List.mem_cons_of_mem _ hx)) (applyAtom_ok hU L a f s hs l ha)
          exact ⟨h1, fun V'' h x hx => h2 V'' h x (List.mem_cons_of_mem _ hx)⟩
    | grp i e =>
      simp only [eval]
      have hne : need (U.length * (L + 1)) e ≤ n := by simp only [req, need] at hreq; omega
      rcases guard_cases' f s i V with ⟨_, hg⟩ | ⟨_, _, hg⟩ | ⟨_, _, hg⟩
      · simp only [hg]
        exact ih e f s V k hs (Nat.le_trans (req_le_need U L e f V) hne) hk
      · simp only [hg]
        exact ⟨by simp, fun V'' h => by cases h; exact fun _ hx => hx⟩
      · simp only [hg]
        obtain ⟨h1, h2⟩ := ih e f s (key s i :: V) k hs
          (Nat.le_trans (req_le_need U L e f _) hne)
          (hk.weaken L (fun x hx => List.mem_cons_of_mem _ hx))
        exact ⟨h1, fun V'' h x hx => h2 V'' h x (List.mem_cons_of_mem _ hx)⟩
    | alt a b =>
      simp only [eval]
      have hna : need (U.length * (L + 1)) a ≤ n := by simp only [req, need] at hreq; omega
      have hnb : need (U.length * (L + 1)) b ≤ n := by simp only [req, need] at hreq; omega
      obtain ⟨a1, a2⟩ := ih a f s V k hs (Nat.le_trans (req_le_need U L a f V) hna) hk
      cases hea : eval H n a f s V k with
      | cont V1 =>
        have hV1 := a2 V1 hea
        obtain ⟨b1, b2⟩ := ih b f s V1 k hs (Nat.le_trans (req_le_need U L b f V1) hnb)
          (hk.weaken L hV1)
        exact ⟨b1, fun V'' h x hx => b2 V'' h x (hV1 x hx)⟩
      | found s' => exact ⟨by simp, fun V'' h => by cases h⟩
      | postponed => exact ⟨by simp, fun V'' h => by cases h⟩
      | fuel => exact absurd hea a1
    | cat a b =>
      simp only [eval]
      have hna : need (U.length * (L + 1)) a ≤ n := by simp only [req, need] at hreq; omega
      have hnb : need (U.length * (L + 1)) b ≤ n := by simp only [req, need] at hreq; omega
      refine ih a f s V _ hs (Nat.le_trans (req_le_need U L a f V) hna) ?_
      intro t V' hV' ht
      exact ih b false t V' k ht (Nat.le_trans (req_le_need U L b false V') hnb) (hk.weaken L hV')
    | star i e =>
      simp only [eval]
      have hk2 : ∀ V2 : Vis, (∀ x ∈ V, x ∈ V2) →
          fresh U L i V2 + 2 + need (U.length * (L + 1)) e ≤ n →
          KT U L (fun m V3 => eval H n (.star i e) false m V3 k) V2 := by
        intro V2 hV2 hfr t V' hV' ht
        refine ih (.star i e) false t V' k ht ?_ (hk.weaken L (fun x hx => hV' x (hV2 x hx)))
        simp only [req]
        have := fresh_mono U L i V2 V' hV'
        simp; omega
      rcases guard_cases' f s i V with ⟨hf, hg⟩ | ⟨_, _, hg⟩ | ⟨hf, hmem, hg⟩
      · simp only [hg]
        subst hf
        simp only [req, if_true] at hreq
        obtain ⟨z1, z2⟩ := feed_term L (zeros H e true s) V hk (zeros_ok hU L e true s hs)
        cases hz : feed k (zeros H e true s) V with
        | cont V2 =>
          have hV2 := z2 V2 hz
          have hfr := fresh_mono U L i V V2 hV2
          obtain ⟨e1, e2⟩ := ih e true s V2 _ hs
            (Nat.le_trans (req_le_need U L e true V2) (by omega)) (hk2 V2 hV2 (by omega))
          exact ⟨e1, fun V'' h x hx => e2 V'' h x (hV2 x hx)⟩
        | found s' => exact ⟨by simp, fun V'' h => by cases h⟩
        | postponed => exact ⟨by simp, fun V'' h => by cases h⟩
        | fuel => exact absurd hz z1
      · simp only [hg]
        exact ⟨by simp, fun V'' h => by cases h; exact fun _ hx => hx⟩
      · simp only [hg]
        subst hf
        simp only [req] at hreq
        have hfc := fresh_cons U L i V s.o s.ns.length hs.1 hs.2 hmem
        have hsub : ∀ x ∈ V, x ∈ key s i :: V := fun x hx => List.mem_cons_of_mem _ hx
        obtain ⟨z1, z2⟩ := feed_term L (zeros H e false s) (key s i :: V) (hk.weaken L hsub)
          (zeros_ok hU L e false s hs)
        cases hz : feed k (zeros H e false s) (key s i :: V) with
        | cont V2 =>
          have hV2 := z2 V2 hz
          have hfr := fresh_mono U L i (key s i :: V) V2 hV2
          have hfc' : fresh U L i (key s i :: V) + 1 ≤ fresh U L i V := hfc
          obtain ⟨e1, e2⟩ := ih e false s V2 _ hs
            (Nat.le_trans (req_le_need U L e false V2) (by simp at hreq; omega))
            (hk2 V2 (fun x hx => hV2 x (hsub x hx)) (by simp at hreq; omega))
          exact ⟨e1, fun V'' h x hx => e2 V'' h x (hV2 x (hsub x hx))⟩
        | found s' => exact ⟨by simp, fun V'' h => by cases h⟩
        | postponed => exact ⟨by simp, fun V'' h => by cases h⟩
        | fuel => exact absurd hz z1

theorem kTop_KT (cls : Option String) (V : Vis) : KT U L (kTop H cls) V := by
  intro t V' _ _
  simp only [kTop]
  split
  · exact ⟨by simp, fun V'' h => by cases h⟩
  · exact ⟨by simp, fun V'' h => by cases h; exact fun _ hx => hx⟩

include hU in
theorem findPaths_term (cls : Option String) (s0 : St) (hs : okSt U L s0) (n : Nat) :
    ∀ (ps : List E) (V : Vis), (∀ p ∈ ps, need (U.length * (L + 1)) p ≤ n) →
      findPaths H n cls s0 ps V ≠ .fuel
  | [], V, _ => by simp [findPaths]
  | p :: ps, V, hn => by
    simp only [findPaths]
    obtain ⟨h1, _⟩ := eval_term hU L n p true s0 V (kTop H cls) hs
      (Nat.le_trans (req_le_need U L p true V) (hn p (by simp))) (kTop_KT L cls V)
    cases hp : eval H n p true s0 V (kTop H cls) with
    | cont V1 => exact findPaths_term cls s0 hs n ps V1 (fun q hq => hn q (by simp [hq]))
    | found s' => simp
    | postponed => simp
    | fuel => exact absurd hp h1

end term

/-- fuel that suffices for a query: from the expression, the number of objects and of name parts -/
def fuelBound (U : List Obj) (ns : List String) (paths : List E) : Nat :=
  (paths.map (need (U.length * (ns.length + 1)))).foldr max 0

theorem need_le_fuelBound (U : List Obj) (ns : List String) :
    ∀ (paths : List E), ∀ p ∈ paths, need (U.length * (ns.length + 1)) p ≤ fuelBound U ns paths
  | [], p, hp => by simp at hp
  | q :: qs, p, hp => by
    simp only [fuelBound, List.map_cons, List.foldr_cons]
    rcases List.mem_cons.1 hp with rfl | hp
    · exact Nat.le_max_left _ _
    · exact Nat.le_trans (need_le_fuelBound U ns qs p hp) (Nat.le_max_right _ _)

end Rrel
