import TextxVerif.Proofs.Re
import TextxVerif.BaseTypes
/-!
Lemmas for C04: hand-stated shapes of the generated base-type regexes (tied to
`Gen.Regexes` by `rfl`), the greedy path of the numeric patterns through a
literal, complete failure of STRICTFLOAT on integer literals, the STRING scan
and the quote round trip.
-/
namespace Re
open BaseTypes

/-- the facts about Python's character classification the theorems rely on -/
structure Sane (cc : CharClasses) : Prop where
  digit_word : ∀ c, cc.isDigit c = true → cc.isWord c = true
  ascii_digit : ∀ c, asciiDigit c = true → cc.isDigit c = true
  ascii_alpha_word : ∀ c, asciiAlpha c = true → cc.isWord c = true
  ascii_nondigit : ∀ c, c.toNat < 128 → asciiDigit c = false → cc.isDigit c = false
  ascii_nonword : ∀ c, c.toNat < 128 → asciiWord c = false → cc.isWord c = false

theorem toNat_le_of_val_le {c d : Char} (h : c.val ≤ d.val) : c.toNat ≤ d.toNat :=
  UInt32.le_iff_toNat_le.mp h

theorem tableCC_sane (d w s : List Char) (f : List (Char × Char)) : Sane (tableCC d w s f) where
  digit_word := by
    intro c h
    simp only [tableCC] at h ⊢
    by_cases hlt : c.toNat < 128
    · simp only [hlt, if_true] at h ⊢; simp [asciiWord, h]
    · simp only [hlt, if_false] at h ⊢; simp_all
  ascii_digit := by
    intro c h
    have hlt : c.toNat < 128 := by
      simp only [asciiDigit, Bool.and_eq_true, decide_eq_true_eq] at h
      have := toNat_le_of_val_le h.2
      have h9 : ('9' : Char).toNat = 57 := by decide
      omega
    simp only [tableCC, hlt, if_true]; exact h
  ascii_alpha_word := by
    intro c h
    have hlt : c.toNat < 128 := by
      simp only [asciiAlpha, Bool.and_eq_true, Bool.or_eq_true, decide_eq_true_eq] at h
      have hz : ('z' : Char).toNat = 122 := by decide
      have hZ : ('Z' : Char).toNat = 90 := by decide
      rcases h with h | h
      · have := toNat_le_of_val_le h.2; omega
      · have := toNat_le_of_val_le h.2; omega
    simp only [tableCC, hlt, if_true]; simp [asciiWord, h]
  ascii_nondigit := by intro c hlt h; simp only [tableCC, hlt, if_true]; exact h
  ascii_nonword := by intro c hlt h; simp only [tableCC, hlt, if_true]; exact h

theorem asciiCC_sane : Sane asciiCC := tableCC_sane [] [] [] []

/-! ## shapes -/
def D : R := .cls false [.cat .digit false]
def signPM : R := R.opt (.cls false [.chr '+', .chr '-'])
def expR : R := .seq (.cls false [.chr 'E', .chr 'e']) (.seq signPM (R.plus D))
def tailR : R :=
  .seq (.behind false false [.chr '.', .cat .word false]) (.ahead true (.cls false [.chr '.', .cat .word false]))
def mantF : R := .alt (.seq (R.plus D) (R.opt (.seq (.chr '.') (.star true D)))) (.seq (.chr '.') (R.plus D))
def floatRe : R := .seq signPM (.seq mantF (.seq (R.opt expR) tailR))
def mantS : R := .alt (.seq (R.plus D) (.seq (.chr '.') (R.opt (.star true D)))) (.seq (.chr '.') (R.plus D))
def strictBody : R := .alt (.seq mantS (R.opt expR)) (.seq (R.plus D) expR)
def strictRe : R := .seq signPM (.seq strictBody tailR)
def intRe : R := .seq signPM (R.plus (.cls false [.range '0' '9']))
/-- one branch of STRING: `q(\\q|[^q])*q` -/
def strBody (q : Char) : R := .alt (.seq (.chr '\\') (.chr q)) (.cls true [.chr q])
def strRe (q : Char) : R := .seq (.chr q) (.seq (.star true (strBody q)) (.chr q))
def stringRe : R := .alt (strRe '"') (strRe '\'')
/-- a changed regex in `textx/lang.py` changes `Gen.Regexes` and breaks these -/
theorem FLOAT_shape : Gen.Regexes.FLOAT = floatRe := rfl
theorem STRICTFLOAT_shape : Gen.Regexes.STRICTFLOAT = strictRe := rfl
theorem INT_shape : Gen.Regexes.INT = intRe := rfl
theorem STRING_shape : Gen.Regexes.STRING = stringRe := rfl

/-! ## character tests -/
theorem clsTest_D (cc : CharClasses) (c : Char) : clsTest cc false [.cat .digit false] c = cc.isDigit c := by
  simp [clsTest, CItem.test, Cat.test]

theorem clsTest_09 (cc : CharClasses) (c : Char) : clsTest cc false [.range '0' '9'] c = asciiDigit c := by
  simp [clsTest, CItem.test, asciiDigit]

theorem clsTest_wd (cc : CharClasses) (c : Char) :
    clsTest cc false [.chr '.', .cat .word false] c = (cc.isWord c || c == '.') := by
  simp [clsTest, CItem.test, Cat.test, Bool.or_comm]

theorem clsTest_pair (cc : CharClasses) (a b c : Char) :
    clsTest cc false [.chr a, .chr b] c = (c == a || c == b) := by
  simp [clsTest, CItem.test]

/-- what may follow a number: nothing, or a character that is neither a word character nor '.' -/
def NumBoundary (cc : CharClasses) (rest : List Char) : Prop :=
  ∀ c, rest.head? = some c → cc.isWord c = false ∧ c ≠ '.'

theorem NumBoundary.nil {cc} : NumBoundary cc [] := by intro c h; simp at h

theorem NumBoundary.stopsDigit {cc rest} (hs : Sane cc) (h : NumBoundary cc rest) : Stops cc.isDigit rest := by
  intro c hc
  cases hd : cc.isDigit c with
  | false => rfl
  | true => have := hs.digit_word c hd; simp [(h c hc).1] at this

theorem notDigit_of_ascii {cc} (hs : Sane cc) (c : Char) (h1 : c.toNat < 128 := by decide)
    (h2 : asciiDigit c = false := by decide) : cc.isDigit c = false := hs.ascii_nondigit c h1 h2

theorem digit_ne {cc} (hs : Sane cc) {d : Char} (hd : cc.isDigit d = true) (c : Char)
    (h1 : c.toNat < 128 := by decide) (h2 : asciiDigit c = false := by decide) : d ≠ c := by
  intro e; subst e; simp [hs.ascii_nondigit d h1 h2] at hd

/-- the character before the end of a number: a digit or '.' -/
def GoodPrev (cc : CharClasses) (q : Option Char) : Prop := ∃ c, q = some c ∧ (cc.isDigit c = true ∨ c = '.')

theorem goodPrev_digits {cc} (d : Char) (ds : List Char) (hd : cc.isDigit d = true)
    (hds : ∀ x ∈ ds, cc.isDigit x = true) : GoodPrev cc (lastOr (some d) ds) := by
  induction ds generalizing d with
  | nil => exact ⟨d, rfl, Or.inl hd⟩
  | cons e es ih =>
    simp only [lastOr]
    exact ih e (hds e (by simp)) (fun x hx => hds x (by simp [hx]))

theorem goodPrev_dot_digits {cc} (ds : List Char) (hds : ∀ x ∈ ds, cc.isDigit x = true) :
    GoodPrev cc (lastOr (some '.') ds) := by
  cases ds with
  | nil => exact ⟨'.', rfl, Or.inr rfl⟩
  | cons e es => exact goodPrev_digits e es (hds e (by simp)) (fun x hx => hds x (by simp [hx]))

/-! ## pieces of the greedy path -/
section pieces
variable {cc : CharClasses}

theorem hd_plusD (d : Char) (ds t : List Char) (p : Option Char) (hd : cc.isDigit d = true)
    (hds : ∀ x ∈ ds, cc.isDigit x = true) (ht : Stops cc.isDigit t) :
    Hd cc (R.plus D) (p, d :: (ds ++ t)) (lastOr (some d) ds, t) := by
  apply Hd.plus_cls
  · rw [clsTest_D]; exact hd
  · intro x hx; rw [clsTest_D]; exact hds x hx
  · intro c hc; rw [clsTest_D]; exact ht c hc

theorem hd_starD (ds t : List Char) (p : Option Char)
    (hds : ∀ x ∈ ds, cc.isDigit x = true) (ht : Stops cc.isDigit t) :
    Hd cc (.star true D) (p, ds ++ t) (lastOr p ds, t) := by
  apply Hd.star_cls
  · intro x hx; rw [clsTest_D]; exact hds x hx
  · intro c hc; rw [clsTest_D]; exact ht c hc

theorem plusD_fail (p : Option Char) (t : List Char) (ht : Stops cc.isDigit t) : m cc (R.plus D) (p, t) = [] := by
  apply m_plus_cls_fail
  intro c hc; rw [clsTest_D]; exact ht c hc

/-- optional sign `[+-]?` / `[-+]?`: taken when present; when absent the next character must not be a sign -/
theorem hd_sign (a b : Char) (hab : (a = '+' ∧ b = '-') ∨ (a = '-' ∧ b = '+'))
    (sg t : List Char) (p : Option Char) (hsg : IsSign sg)
    (hne : sg = [] → ∀ c, t.head? = some c → c ≠ '+' ∧ c ≠ '-') :
    Hd cc (R.opt (.cls false [.chr a, .chr b])) (p, sg ++ t) (lastOr p sg, t) := by
  rcases hsg with h | h | h
  · subst h
    apply Hd.opt_none
    cases t with
    | nil => exact m_cls_nil
    | cons c t =>
      apply m_cls_not
      rw [clsTest_pair]
      have := hne rfl c rfl
      rcases hab with ⟨ha, hb⟩ | ⟨ha, hb⟩ <;> subst ha <;> subst hb <;> simp [this.1, this.2]
  · subst h
    apply Hd.opt_some
    apply Hd.cls
    rw [clsTest_pair]
    rcases hab with ⟨ha, hb⟩ | ⟨ha, hb⟩ <;> subst ha <;> subst hb <;> simp
  · subst h
    apply Hd.opt_some
    apply Hd.cls
    rw [clsTest_pair]
    rcases hab with ⟨ha, hb⟩ | ⟨ha, hb⟩ <;> subst ha <;> subst hb <;> simp

/-- the exponent `[eE][+-]?\d+` -/
theorem hd_expR (hs : Sane cc) (e : Char) (sg : List Char) (d : Char) (ds rest : List Char) (p : Option Char)
    (he : e = 'e' ∨ e = 'E') (hsg : IsSign sg) (hd : cc.isDigit d = true)
    (hds : ∀ x ∈ ds, cc.isDigit x = true) (hrest : Stops cc.isDigit rest) :
    Hd cc expR (p, e :: (sg ++ d :: (ds ++ rest))) (lastOr (some d) ds, rest) := by
  unfold expR
  refine Hd.seq (t := (some e, sg ++ d :: (ds ++ rest))) ?_ ?_
  · apply Hd.cls; rw [clsTest_pair]; rcases he with h | h <;> subst h <;> simp
  · refine Hd.seq (t := (lastOr (some e) sg, d :: (ds ++ rest))) ?_ ?_
    · apply hd_sign '+' '-' (Or.inl ⟨rfl, rfl⟩) sg _ _ hsg
      intro _ c hc
      simp at hc; subst hc
      exact ⟨digit_ne hs hd '+', digit_ne hs hd '-'⟩
    · exact hd_plusD d ds rest _ hd hds hrest

/-- no exponent can start at a number boundary -/
theorem expR_fail (hs : Sane cc) (p : Option Char) (rest : List Char) (hb : NumBoundary cc rest) :
    m cc expR (p, rest) = [] := by
  unfold expR
  apply m_seq_nil_left
  cases rest with
  | nil => exact m_cls_nil
  | cons c t =>
    apply m_cls_not
    rw [clsTest_pair]
    have hw := (hb c rfl).1
    have he : c ≠ 'e' := by
      intro h; subst h; simp [hs.ascii_alpha_word 'e' (by decide)] at hw
    have hE : c ≠ 'E' := by
      intro h; subst h; simp [hs.ascii_alpha_word 'E' (by decide)] at hw
    simp [he, hE]

/-- the closing assertions `(?<=[\w\.])(?![\w\.])` hold after a digit or '.', at a boundary -/
theorem hd_tail (hs : Sane cc) (q : Option Char) (rest : List Char) (hq : GoodPrev cc q)
    (hb : NumBoundary cc rest) : Hd cc tailR (q, rest) (q, rest) := by
  obtain ⟨c, hq, hc⟩ := hq
  subst hq
  have h1 : clsTest cc false [.chr '.', .cat .word false] c = true := by
    rw [clsTest_wd]
    rcases hc with h | h
    · simp [hs.digit_word c h]
    · simp [h]
  have h2 : step (clsTest cc false [.chr '.', .cat .word false]) (some c, rest) = [] := by
    apply step_stops
    intro x hx
    rw [clsTest_wd]
    have := hb x hx
    simp [this.1, this.2]
  simp [Hd, tailR, m, h1, h2]

end pieces

/-! ## mantissa, exponent, whole literals -/
section numbers
variable {cc : CharClasses}

/-- what may follow a mantissa: no digit and no '.' -/
def AfterMant (cc : CharClasses) (t : List Char) : Prop :=
  ∀ c, t.head? = some c → cc.isDigit c = false ∧ c ≠ '.'

theorem AfterMant.stops {t} (h : AfterMant cc t) : Stops cc.isDigit t := fun c hc => (h c hc).1

theorem AfterMant.of_boundary {rest} (hs : Sane cc) (hb : NumBoundary cc rest) : AfterMant cc rest :=
  fun c hc => ⟨hb.stopsDigit hs c hc, (hb c hc).2⟩

theorem AfterMant.of_exp (hs : Sane cc) (x : Exp) (hx : x.WF cc) (rest : List Char) :
    AfterMant cc (x.text ++ rest) := by
  intro c hc
  simp [Exp.text] at hc
  subst hc
  rcases hx.1 with h | h <;> rw [h] <;> exact ⟨notDigit_of_ascii hs _, by decide⟩

theorem AfterMant.of_optExp (hs : Sane cc) (x : Option Exp) (hx : ∀ y, x = some y → y.WF cc) (rest : List Char)
    (hb : NumBoundary cc rest) : AfterMant cc (optExpText x ++ rest) := by
  cases x with
  | none => exact AfterMant.of_boundary hs hb
  | some y => exact AfterMant.of_exp hs y (hx y rfl) rest

theorem chr_dot_fail_after {t} (h : AfterMant cc t) (q : Option Char) : m cc (.chr '.') (q, t) = [] := by
  cases t with
  | nil => exact m_chr_nil
  | cons c t => exact m_chr_ne (h c rfl).2

/-- FLOAT's mantissa `\d+(\.\d*)?|\.\d+` reads the whole mantissa -/
theorem hd_mantF (hs : Sane cc) (mt : Mant) (t : List Char) (p : Option Char)
    (hd : ∀ c ∈ mt.digits, cc.isDigit c = true) (ht : AfterMant cc t) :
    ∃ q, GoodPrev cc q ∧ Hd cc mantF (p, mt.text ++ t) (q, t) := by
  cases mt with
  | intDot d ds fs =>
    have hd0 : cc.isDigit d = true := hd d (by simp [Mant.digits])
    have hds : ∀ x ∈ ds, cc.isDigit x = true := fun x hx => hd x (by simp [Mant.digits, hx])
    have hfs : ∀ x ∈ fs, cc.isDigit x = true := fun x hx => hd x (by simp [Mant.digits, hx])
    refine ⟨lastOr (some '.') fs, goodPrev_dot_digits fs hfs, ?_⟩
    unfold mantF
    apply Hd.alt_left
    have e : (Mant.intDot d ds fs).text ++ t = d :: (ds ++ '.' :: (fs ++ t)) := by simp [Mant.text]
    rw [e]
    refine Hd.seq (hd_plusD d ds _ p hd0 hds (Stops.cons (notDigit_of_ascii hs '.'))) ?_
    apply Hd.opt_some
    exact Hd.seq Hd.chr (hd_starD fs t _ hfs ht.stops)
  | dotFrac f fs =>
    have hf : cc.isDigit f = true := hd f (by simp [Mant.digits])
    have hfs : ∀ x ∈ fs, cc.isDigit x = true := fun x hx => hd x (by simp [Mant.digits, hx])
    refine ⟨lastOr (some f) fs, goodPrev_digits f fs hf hfs, ?_⟩
    unfold mantF
    have e : (Mant.dotFrac f fs).text ++ t = '.' :: f :: (fs ++ t) := by simp [Mant.text]
    rw [e]
    apply Hd.alt_right
    · exact m_seq_nil_left (plusD_fail p _ (Stops.cons (notDigit_of_ascii hs '.')))
    · exact Hd.seq Hd.chr (hd_plusD f fs t _ hf hfs ht.stops)
  | int d ds =>
    have hd0 : cc.isDigit d = true := hd d (by simp [Mant.digits])
    have hds : ∀ x ∈ ds, cc.isDigit x = true := fun x hx => hd x (by simp [Mant.digits, hx])
    refine ⟨lastOr (some d) ds, goodPrev_digits d ds hd0 hds, ?_⟩
    unfold mantF
    apply Hd.alt_left
    have e : (Mant.int d ds).text ++ t = d :: (ds ++ t) := by simp [Mant.text]
    rw [e]
    refine Hd.seq (hd_plusD d ds t p hd0 hds ht.stops) ?_
    apply Hd.opt_none
    exact m_seq_nil_left (chr_dot_fail_after ht _)

/-- STRICTFLOAT's dotted mantissa `\d+\.(\d*)?|\.\d+` -/
theorem hd_mantS (hs : Sane cc) (mt : Mant) (hdot : mt.hasDot = true) (t : List Char) (p : Option Char)
    (hd : ∀ c ∈ mt.digits, cc.isDigit c = true) (ht : AfterMant cc t) :
    ∃ q, GoodPrev cc q ∧ Hd cc mantS (p, mt.text ++ t) (q, t) := by
  cases mt with
  | intDot d ds fs =>
    have hd0 : cc.isDigit d = true := hd d (by simp [Mant.digits])
    have hds : ∀ x ∈ ds, cc.isDigit x = true := fun x hx => hd x (by simp [Mant.digits, hx])
    have hfs : ∀ x ∈ fs, cc.isDigit x = true := fun x hx => hd x (by simp [Mant.digits, hx])
    refine ⟨lastOr (some '.') fs, goodPrev_dot_digits fs hfs, ?_⟩
    unfold mantS
    apply Hd.alt_left
    have e : (Mant.intDot d ds fs).text ++ t = d :: (ds ++ '.' :: (fs ++ t)) := by simp [Mant.text]
    rw [e]
    refine Hd.seq (hd_plusD d ds _ p hd0 hds (Stops.cons (notDigit_of_ascii hs '.'))) ?_
    refine Hd.seq Hd.chr ?_
    apply Hd.opt_some
    exact hd_starD fs t _ hfs ht.stops
  | dotFrac f fs =>
    have hf : cc.isDigit f = true := hd f (by simp [Mant.digits])
    have hfs : ∀ x ∈ fs, cc.isDigit x = true := fun x hx => hd x (by simp [Mant.digits, hx])
    refine ⟨lastOr (some f) fs, goodPrev_digits f fs hf hfs, ?_⟩
    unfold mantS
    have e : (Mant.dotFrac f fs).text ++ t = '.' :: f :: (fs ++ t) := by simp [Mant.text]
    rw [e]
    apply Hd.alt_right
    · exact m_seq_nil_left (plusD_fail p _ (Stops.cons (notDigit_of_ascii hs '.')))
    · exact Hd.seq Hd.chr (hd_plusD f fs t _ hf hfs ht.stops)
  | int d ds => simp [Mant.hasDot] at hdot

/-- the dotted mantissa finds nothing in a run of digits that is not followed by '.' -/
theorem mantS_fail_digits (hs : Sane cc) (ds t : List Char) (p : Option Char)
    (hds : ∀ x ∈ ds, cc.isDigit x = true) (ht : AfterMant cc t) : m cc mantS (p, ds ++ t) = [] := by
  have hdotfail : ∀ q, m cc (R.seq (.chr '.') (R.opt (.star true D))) (q, t) = [] :=
    fun q => m_seq_nil_left (chr_dot_fail_after ht q)
  cases ds with
  | nil =>
    show m cc (.seq (R.plus D) _) (p, t) ++ m cc (.seq (.chr '.') _) (p, t) = []
    rw [m_seq_nil_left (plusD_fail p t ht.stops), m_seq_nil_left (chr_dot_fail_after ht p)]; rfl
  | cons d ds =>
    have hd0 : cc.isDigit d = true := hds d (by simp)
    have hds' : ∀ x ∈ ds, cc.isDigit x = true := fun x hx => hds x (by simp [hx])
    have h1 : m cc (.seq (R.plus D) (.seq (.chr '.') (R.opt (.star true D)))) (p, d :: ds ++ t) = [] := by
      have hp : m cc (R.plus D) (p, d :: (ds ++ t)) = splits (some d) ds t := by
        apply m_plus_cls
        · rw [clsTest_D]; exact hd0
        · intro x hx; rw [clsTest_D]; exact hds' x hx
        · intro c hc; rw [clsTest_D]; exact ht.stops c hc
      show (m cc (R.plus D) (p, d :: (ds ++ t))).flatMap _ = []
      rw [hp]
      apply splits_flatMap_nil
      · exact hdotfail
      · intro q x u hx
        exact m_seq_nil_left (m_chr_ne (digit_ne hs (hds' x hx) '.'))
    have h2 : m cc (.seq (.chr '.') (R.plus D)) (p, d :: ds ++ t) = [] :=
      m_seq_nil_left (m_chr_ne (digit_ne hs hd0 '.'))
    show m cc (.seq (R.plus D) (.seq (.chr '.') (R.opt (.star true D)))) (p, d :: ds ++ t) ++
      m cc (.seq (.chr '.') (R.plus D)) (p, d :: ds ++ t) = []
    rw [h1, h2]; rfl

/-- the optional exponent: read when written, skipped at a boundary -/
theorem hd_optExp (hs : Sane cc) (x : Option Exp) (hx : ∀ y, x = some y → y.WF cc) (rest : List Char)
    (hb : NumBoundary cc rest) (q : Option Char) (hq : GoodPrev cc q) :
    ∃ q', GoodPrev cc q' ∧ Hd cc (R.opt expR) (q, optExpText x ++ rest) (q', rest) := by
  cases x with
  | none => exact ⟨q, hq, Hd.opt_none (expR_fail hs q rest hb)⟩
  | some y =>
    obtain ⟨he, hsg, hd, hds⟩ := hx y rfl
    refine ⟨lastOr (some y.d) y.ds, goodPrev_digits y.d y.ds hd hds, ?_⟩
    apply Hd.opt_some
    have e : optExpText (some y) ++ rest = y.e :: (y.sg ++ y.d :: (y.ds ++ rest)) := by
      simp [optExpText, Exp.text]
    rw [e]
    exact hd_expR hs y.e y.sg y.d y.ds rest q he hsg hd hds (hb.stopsDigit hs)

/-- the first character of a mantissa is a digit or '.', never a sign -/
theorem mant_head_not_sign (hs : Sane cc) (mt : Mant) (t : List Char)
    (hd : ∀ c ∈ mt.digits, cc.isDigit c = true) :
    ∀ c, (mt.text ++ t).head? = some c → c ≠ '+' ∧ c ≠ '-' := by
  intro c hc
  cases mt with
  | intDot d ds fs =>
    simp [Mant.text] at hc; subst hc
    have := hd d (by simp [Mant.digits])
    exact ⟨digit_ne hs this '+', digit_ne hs this '-'⟩
  | dotFrac f fs => simp [Mant.text] at hc; subst hc; exact ⟨by decide, by decide⟩
  | int d ds =>
    simp [Mant.text] at hc; subst hc
    have := hd d (by simp [Mant.digits])
    exact ⟨digit_ne hs this '+', digit_ne hs this '-'⟩

/-- FLOAT reads exactly a float literal that ends at a boundary -/
theorem float_hd (hs : Sane cc) (f : FloatLit) (hf : f.WF cc) (rest : List Char) (hb : NumBoundary cc rest)
    (p : Option Char) : ∃ q, Hd cc floatRe (p, f.text ++ rest) (q, rest) := by
  obtain ⟨hsg, hd, hx⟩ := hf
  obtain ⟨q1, hq1, h1⟩ := hd_mantF hs f.mant (optExpText f.exp ++ rest) (lastOr p f.sg) hd
    (AfterMant.of_optExp hs f.exp hx rest hb)
  obtain ⟨q2, hq2, h2⟩ := hd_optExp hs f.exp hx rest hb q1 hq1
  refine ⟨q2, ?_⟩
  have e : f.text ++ rest = f.sg ++ (f.mant.text ++ (optExpText f.exp ++ rest)) := by
    simp [FloatLit.text, List.append_assoc]
  rw [e]
  unfold floatRe
  refine Hd.seq (hd_sign '+' '-' (Or.inl ⟨rfl, rfl⟩) f.sg _ p hsg (fun _ => mant_head_not_sign hs f.mant _ hd)) ?_
  exact Hd.seq h1 (Hd.seq h2 (hd_tail hs q2 rest hq2 hb))

/-- the body of STRICTFLOAT on a literal written with '.' or exponent -/
theorem strictBody_hd (hs : Sane cc) (mt : Mant) (x : Option Exp)
    (hd : ∀ c ∈ mt.digits, cc.isDigit c = true) (hx : ∀ y, x = some y → y.WF cc)
    (hstrict : mt.hasDot = true ∨ x.isSome = true) (rest : List Char) (hb : NumBoundary cc rest)
    (p : Option Char) : ∃ q, GoodPrev cc q ∧ Hd cc strictBody (p, mt.text ++ (optExpText x ++ rest)) (q, rest) := by
  by_cases hdot : mt.hasDot = true
  · obtain ⟨q1, hq1, h1⟩ := hd_mantS hs mt hdot (optExpText x ++ rest) p hd (AfterMant.of_optExp hs x hx rest hb)
    obtain ⟨q2, hq2, h2⟩ := hd_optExp hs x hx rest hb q1 hq1
    exact ⟨q2, hq2, Hd.alt_left (Hd.seq h1 h2)⟩
  · cases mt with
    | intDot d ds fs => simp [Mant.hasDot] at hdot
    | dotFrac f fs => simp [Mant.hasDot] at hdot
    | int d ds =>
      cases x with
      | none => simp [Mant.hasDot] at hstrict
      | some y =>
        obtain ⟨he, hsg, hyd, hyds⟩ := hx y rfl
        have hd0 : cc.isDigit d = true := hd d (by simp [Mant.digits])
        have hds : ∀ x ∈ ds, cc.isDigit x = true := fun x hx => hd x (by simp [Mant.digits, hx])
        refine ⟨lastOr (some y.d) y.ds, goodPrev_digits y.d y.ds hyd hyds, ?_⟩
        have hafter := AfterMant.of_exp hs y (hx y rfl) rest
        have e : (Mant.int d ds).text ++ (optExpText (some y) ++ rest) = (d :: ds) ++ (y.text ++ rest) := by
          simp [Mant.text, optExpText]
        rw [e]
        unfold strictBody
        apply Hd.alt_right
        · exact m_seq_nil_left (mantS_fail_digits hs (d :: ds) _ p (fun c hc => hd c (by simpa [Mant.digits] using hc)) hafter)
        · have e2 : (d :: ds) ++ (y.text ++ rest) = d :: (ds ++ (y.e :: (y.sg ++ y.d :: (y.ds ++ rest)))) := by
            simp [Exp.text]
          rw [e2]
          refine Hd.seq (hd_plusD d ds _ p hd0 hds ?_) ?_
          · apply Stops.cons
            rcases he with h | h <;> rw [h] <;> exact notDigit_of_ascii hs _
          · exact hd_expR hs y.e y.sg y.d y.ds rest _ he hsg hyd hyds (hb.stopsDigit hs)

/-- STRICTFLOAT reads exactly a literal written with '.' or exponent -/
theorem strict_hd (hs : Sane cc) (f : FloatLit) (hf : f.WF cc) (hstrict : f.Strict) (rest : List Char)
    (hb : NumBoundary cc rest) (p : Option Char) : ∃ q, Hd cc strictRe (p, f.text ++ rest) (q, rest) := by
  obtain ⟨hsg, hd, hx⟩ := hf
  obtain ⟨q, hq, h⟩ := strictBody_hd hs f.mant f.exp hd hx hstrict rest hb (lastOr p f.sg)
  refine ⟨q, ?_⟩
  have e : f.text ++ rest = f.sg ++ (f.mant.text ++ (optExpText f.exp ++ rest)) := by
    simp [FloatLit.text, List.append_assoc]
  rw [e]
  unfold strictRe
  refine Hd.seq (hd_sign '+' '-' (Or.inl ⟨rfl, rfl⟩) f.sg _ p hsg (fun _ => mant_head_not_sign hs f.mant _ hd)) ?_
  exact Hd.seq h (hd_tail hs q rest hq hb)

/-- the body of STRICTFLOAT finds nothing in digits that end at a boundary -/
theorem strictBody_fail_digits (hs : Sane cc) (ds rest : List Char) (p : Option Char)
    (hds : ∀ x ∈ ds, cc.isDigit x = true) (hb : NumBoundary cc rest) :
    m cc strictBody (p, ds ++ rest) = [] := by
  have hafter := AfterMant.of_boundary hs hb
  have h1 : m cc (.seq mantS (R.opt expR)) (p, ds ++ rest) = [] :=
    m_seq_nil_left (mantS_fail_digits hs ds rest p hds hafter)
  have h2 : m cc (.seq (R.plus D) expR) (p, ds ++ rest) = [] := by
    cases ds with
    | nil => exact m_seq_nil_left (plusD_fail p rest hafter.stops)
    | cons d ds =>
      have hd0 : cc.isDigit d = true := hds d (by simp)
      have hds' : ∀ x ∈ ds, cc.isDigit x = true := fun x hx => hds x (by simp [hx])
      have hp : m cc (R.plus D) (p, d :: (ds ++ rest)) = splits (some d) ds rest := by
        apply m_plus_cls
        · rw [clsTest_D]; exact hd0
        · intro x hx; rw [clsTest_D]; exact hds' x hx
        · intro c hc; rw [clsTest_D]; exact hafter.stops c hc
      show (m cc (R.plus D) (p, d :: (ds ++ rest))).flatMap _ = []
      rw [hp]
      apply splits_flatMap_nil
      · intro q; exact expR_fail hs q rest hb
      · intro q x u hx
        unfold expR
        apply m_seq_nil_left
        apply m_cls_not
        rw [clsTest_pair]
        have h := hds' x hx
        simp [digit_ne hs h 'e', digit_ne hs h 'E']
  show m cc (.seq mantS (R.opt expR)) (p, ds ++ rest) ++ m cc (.seq (R.plus D) expR) (p, ds ++ rest) = []
  rw [h1, h2]; rfl

/-- … nor when it starts at a sign character -/
theorem strictBody_fail_sign (hs : Sane cc) (c : Char) (hc : c = '+' ∨ c = '-') (t : List Char) (p : Option Char) :
    m cc strictBody (p, c :: t) = [] := by
  have hnd : cc.isDigit c = false := by rcases hc with h | h <;> rw [h] <;> exact notDigit_of_ascii hs _
  have hne : c ≠ '.' := by rcases hc with h | h <;> rw [h] <;> decide
  have hp : m cc (R.plus D) (p, c :: t) = [] := plusD_fail p _ (Stops.cons hnd)
  have h1 : m cc mantS (p, c :: t) = [] := by
    show m cc (.seq (R.plus D) _) (p, c :: t) ++ m cc (.seq (.chr '.') _) (p, c :: t) = []
    rw [m_seq_nil_left hp, m_seq_nil_left (m_chr_ne hne)]; rfl
  show m cc (.seq mantS (R.opt expR)) (p, c :: t) ++ m cc (.seq (R.plus D) expR) (p, c :: t) = []
  rw [m_seq_nil_left h1, m_seq_nil_left hp]; rfl

/-- STRICTFLOAT does not match an int literal that ends at a boundary (no way at all, not just not first) -/
theorem strict_fail_int (hs : Sane cc) (i : IntLit) (hi : i.WF) (rest : List Char) (hb : NumBoundary cc rest)
    (p : Option Char) : m cc strictRe (p, i.text ++ rest) = [] := by
  obtain ⟨hsg, hd, hds⟩ := hi
  have hdig : ∀ x ∈ i.d :: i.ds, cc.isDigit x = true := by
    intro x hx
    simp at hx
    rcases hx with h | h
    · subst h; exact hs.ascii_digit _ hd
    · exact hs.ascii_digit _ (hds x h)
  have hbody : ∀ q, m cc strictBody (q, (i.d :: i.ds) ++ rest) = [] :=
    fun q => strictBody_fail_digits hs (i.d :: i.ds) rest q hdig hb
  have e : i.text ++ rest = i.sg ++ ((i.d :: i.ds) ++ rest) := by simp [IntLit.text]
  rw [e]
  unfold strictRe
  show (m cc signPM (p, i.sg ++ ((i.d :: i.ds) ++ rest))).flatMap (m cc (.seq strictBody tailR)) = []
  apply flatMap_eq_nil_of
  intro x hx
  apply m_seq_nil_left
  obtain ⟨q, l⟩ := x
  have hx' : (q, l) ∈ step (clsTest cc false [.chr '+', .chr '-']) (p, i.sg ++ ((i.d :: i.ds) ++ rest)) ∨
      (q, l) = (p, i.sg ++ ((i.d :: i.ds) ++ rest)) := by
    simpa [signPM, R.opt, m] using hx
  rcases hsg with h | h | h
  · rw [h] at hx'
    have hd' : cc.isDigit i.d = true := hdig i.d (by simp)
    rcases hx' with h' | h'
    · have : clsTest cc false [.chr '+', .chr '-'] i.d = false := by
        rw [clsTest_pair]; simp [digit_ne hs hd' '+', digit_ne hs hd' '-']
      simp [step, this] at h'
    · simp at h'; rw [h'.2]; exact hbody q
  · rw [h] at hx'
    rcases hx' with h' | h'
    · simp [step, clsTest_pair] at h'; rw [h'.2]; exact hbody q
    · simp at h'; rw [h'.2]; exact strictBody_fail_sign hs '+' (Or.inl rfl) _ q
  · rw [h] at hx'
    rcases hx' with h' | h'
    · simp [step, clsTest_pair] at h'; rw [h'.2]; exact hbody q
    · simp at h'; rw [h'.2]; exact strictBody_fail_sign hs '-' (Or.inr rfl) _ q

/-- INT reads exactly an int literal not followed by another ASCII digit -/
theorem int_hd (i : IntLit) (hi : i.WF) (rest : List Char) (hrest : Stops asciiDigit rest) (p : Option Char) :
    ∃ q, Hd cc intRe (p, i.text ++ rest) (q, rest) := by
  obtain ⟨hsg, hd, hds⟩ := hi
  refine ⟨lastOr (some i.d) i.ds, ?_⟩
  have e : i.text ++ rest = i.sg ++ (i.d :: (i.ds ++ rest)) := by simp [IntLit.text]
  rw [e]
  unfold intRe
  refine Hd.seq (hd_sign '+' '-' (Or.inl ⟨rfl, rfl⟩) i.sg _ p hsg ?_) ?_
  · intro _ c hc
    simp at hc; subst hc
    constructor <;> (intro h; rw [h] at hd; revert hd; decide)
  · apply Hd.plus_cls
    · rw [clsTest_09]; exact hd
    · intro x hx; rw [clsTest_09]; exact hds x hx
    · intro c hc; rw [clsTest_09]; exact hrest c hc

end numbers

/-! ## STRING: the scan over an escaped string, and the way back -/
section strings
variable {cc : CharClasses}

theorem Hd.star_iter {B X : R} {s u w : St} {us : List St}
    (hB : (m cc B s).filter (fun t => decide (t.2.length < s.2.length)) = u :: us)
    (h : Hd cc (.seq (.star true B) X) u w) : Hd cc (.seq (.star true B) X) s w := by
  unfold Hd at *
  show ((m cc (.star true B) s).flatMap (m cc X)).head? = some w
  rw [m_star, hB]
  simp only [List.flatMap_cons, List.flatMap_append, List.append_assoc]
  exact head_append_of_head _ _ _ h

theorem Hd.star_stop {B X : R} {s w : St}
    (hB : (m cc B s).filter (fun t => decide (t.2.length < s.2.length)) = [])
    (h : Hd cc X s w) : Hd cc (.seq (.star true B) X) s w := by
  unfold Hd at *
  show ((m cc (.star true B) s).flatMap (m cc X)).head? = some w
  rw [m_star, hB]
  simpa using h

theorem head_escape_ne (q : Char) (hq : q ≠ '\\') (s : List Char) :
    ∀ d rest, escape q s = d :: rest → d ≠ q := by
  intro d rest h
  cases s with
  | nil => simp [escape] at h
  | cons c cs =>
    simp only [escape] at h
    split at h
    · simp at h; rw [← h.1]; exact fun e => hq e.symm
    · simp at h; rw [← h.1]; assumption

theorem noTrailingBackslash_tail {c : Char} {cs : List Char} (h : noTrailingBackslash (c :: cs)) :
    noTrailingBackslash cs := by
  cases cs with
  | nil => trivial
  | cons d ds => simpa [noTrailingBackslash] using h

/-- the loop `(\\q|[^q])*` followed by `q` stops exactly at the closing quote of an escaped string,
whatever follows it -/
theorem scan_escape (q : Char) (hq : q ≠ '\\') :
    ∀ (s : List Char), noTrailingBackslash s → ∀ (p : Option Char) (rest : List Char),
      Hd cc (.seq (.star true (strBody q)) (.chr q)) (p, escape q s ++ q :: rest) (some q, rest) := by
  intro s
  induction s with
  | nil =>
    intro _ p rest
    simp only [escape, List.nil_append]
    apply Hd.star_stop
    · simp [strBody, m, step, hq, clsTest, CItem.test]
    · exact Hd.chr
  | cons c cs ih =>
    intro hs p rest
    have hs' := noTrailingBackslash_tail hs
    by_cases hc : c = q
    · subst hc
      simp only [escape, if_true, List.cons_append]
      refine Hd.star_iter (u := (some c, escape c cs ++ c :: rest))
        (us := [(some '\\', c :: (escape c cs ++ c :: rest))]) ?_ (ih hs' _ rest)
      simp [strBody, m, step, Ne.symm hq, clsTest, CItem.test]
      omega
    · simp only [escape, hc, if_false, List.cons_append]
      refine Hd.star_iter (u := (some c, escape q cs ++ q :: rest)) (us := []) ?_ (ih hs' _ rest)
      by_cases hb : c = '\\'
      · subst hb
        cases hcs : escape q cs with
        | nil =>
          have : cs = [] := by
            cases cs with
            | nil => rfl
            | cons d ds => simp [escape] at hcs; split at hcs <;> simp at hcs
          subst this
          simp [noTrailingBackslash] at hs
        | cons d ds =>
          have hd := head_escape_ne q hq cs d ds hcs
          simp [strBody, m, step, hc, hd, clsTest, CItem.test]
      · simp [strBody, m, step, hc, hb, clsTest, CItem.test]

theorem strRe_hd (q : Char) (hq : q ≠ '\\') (s : List Char) (hs : noTrailingBackslash s)
    (p : Option Char) (rest : List Char) : Hd cc (strRe q) (p, encode q s ++ rest) (some q, rest) := by
  have e : encode q s ++ rest = q :: (escape q s ++ q :: rest) := by simp [encode]
  rw [e]
  exact Hd.seq Hd.chr (scan_escape q hq s hs _ rest)

theorem string_hd (q : Char) (hq : q = '"' ∨ q = '\'') (s : List Char) (hs : noTrailingBackslash s)
    (p : Option Char) (rest : List Char) : Hd cc stringRe (p, encode q s ++ rest) (some q, rest) := by
  rcases hq with h | h
  · subst h
    exact Hd.alt_left (strRe_hd '"' (by decide) s hs p rest)
  · subst h
    apply Hd.alt_right
    · have e : encode '\'' s ++ rest = '\'' :: (escape '\'' s ++ '\'' :: rest) := by simp [encode]
      rw [e]
      exact m_seq_nil_left (m_chr_ne (by decide))
    · exact strRe_hd '\'' (by decide) s hs p rest

/-- `str.replace("\\q", "q")` undoes `escape q` -/
theorem replace_escape (q : Char) (hq : q ≠ '\\') (s : List Char) :
    Py.replace (escape q s) ['\\', q] [q] = s := by
  simp only [Py.replace, List.isEmpty_cons, Bool.false_eq_true, if_false]
  induction s with
  | nil => simp [escape, Py.replaceAux]
  | cons c cs ih =>
    by_cases hc : c = q
    · subst hc
      simp only [escape, if_true]
      simp [Py.replaceAux, ih]
    · simp only [escape, hc, if_false]
      have hnp : List.isPrefixOf ['\\', q] (c :: escape q cs) = false := by
        by_cases hb : c = '\\'
        · subst hb
          cases hcs : escape q cs with
          | nil => simp [List.isPrefixOf]
          | cons d ds =>
            have hd := head_escape_ne q hq cs d ds hcs
            simp [List.isPrefixOf, Ne.symm hd]
        · simp [List.isPrefixOf, Ne.symm hb]
      simp [Py.replaceAux, hnp, ih]

theorem slice_encode (q : Char) (e : List Char) : Py.slice (q :: (e ++ [q])) 1 (-1) = e := by
  have h1 : Py.normIdx (q :: (e ++ [q])).length 1 = 1 := by
    simp [Py.normIdx]
  have h2 : Py.normIdx (q :: (e ++ [q])).length (-1) = e.length + 1 := by
    simp [Py.normIdx]
  rw [Py.slice, h1, h2]
  have : (q :: (e ++ [q])).take (e.length + 1) = q :: e := by
    simp [List.take_succ_cons]
  rw [this]; rfl

theorem item_encode (q : Char) (e : List Char) : Py.item (q :: e) 0 = [q] := by
  simp [Py.item]

/-- the generated STRING conversion returns the original string -/
theorem proc_string (q : Char) (hq : q = '"' ∨ q = '\'') (s : List Char) :
    Gen.Procs.STRING (encode q s) = .str s := by
  rcases hq with h | h
  · subst h
    simp only [Gen.Procs.STRING, encode, item_encode, slice_encode]
    simp [replace_escape '"' (by decide) s]
  · subst h
    simp only [Gen.Procs.STRING, encode, item_encode, slice_encode]
    simp [replace_escape '\'' (by decide) s]

end strings

/-! ## tokens: match + conversion -/
section tokens
variable {cc : CharClasses}

theorem firstMatch_hd {r : R} {conv : List Char → Py.Val} {alts} {p q : Option Char} {w rest : List Char}
    (h : Hd cc r (p, w ++ rest) (q, rest)) (hw : w ≠ []) :
    firstMatch cc (p, w ++ rest) ((r, conv) :: alts) = some (conv w, (q, rest)) := by
  unfold Hd at h
  have hl : w.length ≠ 0 := by
    intro h0; exact hw (List.length_eq_zero_iff.mp h0)
  simp only [firstMatch, pyMatchSt, h, List.length_append, Nat.add_sub_cancel]
  simp [hl]

theorem firstMatch_skip {r : R} {conv : List Char → Py.Val} {alts} {s : St} (h : m cc r s = []) :
    firstMatch cc s ((r, conv) :: alts) = firstMatch cc s alts := by
  simp [firstMatch, pyMatchSt, h]

end tokens

/-! ## ints: `str(n)` is an int literal and `int()` reads it back -/
theorem asciiDigit_of_isDigit (c : Char) (h : c.isDigit = true) : asciiDigit c = true := by
  simp only [Char.isDigit, Bool.and_eq_true, decide_eq_true_eq] at h
  simp only [asciiDigit, Bool.and_eq_true, decide_eq_true_eq]
  exact ⟨h.1, h.2⟩

/-- the int literal `str(z)` -/
def intLitOf (z : Int) : IntLit :=
  match h : Nat.toDigits 10 z.natAbs with
  | d :: ds => ⟨if z < 0 then ['-'] else [], d, ds⟩
  | [] => absurd h Nat.toDigits_ne_nil

theorem intLitOf_text (z : Int) : (intLitOf z).text = Py.strInt z := by
  unfold intLitOf
  split
  · rename_i d ds h
    by_cases hz : z < 0 <;> simp [IntLit.text, Py.strInt, hz, h]
  · rename_i h; exact absurd h Nat.toDigits_ne_nil

theorem intLitOf_wf (z : Int) : (intLitOf z).WF := by
  unfold intLitOf
  split
  · rename_i d ds h
    have hmem : ∀ c ∈ d :: ds, asciiDigit c = true := by
      intro c hc
      rw [← h] at hc
      exact asciiDigit_of_isDigit c (Nat.isDigit_of_mem_toDigits (b := 10) (by decide) (by decide) hc)
    refine ⟨?_, hmem d (by simp), fun c hc => hmem c (by simp [hc])⟩
    by_cases hz : z < 0 <;> simp [IsSign, hz]
  · rename_i h; exact absurd h Nat.toDigits_ne_nil

theorem toDigits_head_ne_sign (n : Nat) : ∀ d ds, Nat.toDigits 10 n = d :: ds → d ≠ '-' ∧ d ≠ '+' := by
  intro d ds h
  have : d.isDigit = true := Nat.isDigit_of_mem_toDigits (b := 10) (by decide) (by decide) (by rw [h]; simp)
  constructor <;> (intro e; rw [e] at this; revert this; decide)

/-- Python's `int(str(z)) == z` on the model of both functions -/
theorem intOf_strInt (z : Int) : Py.intOf (Py.strInt z) = z := by
  unfold Py.strInt
  by_cases hz : z < 0
  · simp only [hz, if_true, Py.intOf, Nat.ofDigitChars_ten_toDigits]
    omega
  · simp only [hz, if_false]
    cases h : Nat.toDigits 10 z.natAbs with
    | nil => exact absurd h Nat.toDigits_ne_nil
    | cons d ds =>
      have hne := toDigits_head_ne_sign z.natAbs d ds h
      have : Py.intOf (d :: ds) = (Nat.ofDigitChars 10 (d :: ds) 0 : Nat) := by
        unfold Py.intOf
        split
        · rename_i heq; simp at heq; exact absurd heq.1 hne.1
        · rename_i heq; simp at heq; exact absurd heq.1 hne.2
        · rfl
      rw [this, ← h, Nat.ofDigitChars_ten_toDigits]
      omega

/-! ## a whole line of strings through `v*=STRING` -/
section line
variable {cc : CharClasses}

theorem skipWsAux_run (w : List Char) (hw : ∀ c ∈ w, isWs c = true) (c : Char) (hc : isWs c = false)
    (t : List Char) : ∀ p, skipWsAux p (w ++ c :: t) = (lastOr p w, c :: t) := by
  induction w with
  | nil => intro p; simp [skipWsAux, hc, lastOr]
  | cons d ds ih =>
    intro p
    have hd : isWs d = true := hw d (by simp)
    simp only [List.cons_append, skipWsAux, hd, if_true, lastOr]
    exact ih (fun x hx => hw x (by simp [hx])) (some d)

theorem skipWsAux_all (w : List Char) (hw : ∀ c ∈ w, isWs c = true) : ∀ p, (skipWsAux p w).2 = [] := by
  induction w with
  | nil => intro p; rfl
  | cons d ds ih =>
    intro p
    have hd : isWs d = true := hw d (by simp)
    simp only [skipWsAux, hd, if_true]
    exact ih (fun x hx => hw x (by simp [hx])) (some d)

theorem tokenAt_string_nil (p : Option Char) : tokenAt cc .STRING (p, []) = none := by
  simp [tokenAt, alternatives, firstMatch, pyMatchSt, Gen.Regexes.STRING, m, step]

theorem tokenAt_string (i : StrItem) (hi : i.WF) (p : Option Char) (rest : List Char) :
    tokenAt cc .STRING (p, encode i.q i.s ++ rest) = some (.str i.s, (some i.q, rest)) := by
  have h := string_hd (cc := cc) i.q hi.2.1 i.s hi.2.2 p rest
  rw [← STRING_shape] at h
  have := firstMatch_hd (conv := Gen.Procs.STRING) (alts := []) h (by simp [encode])
  rw [proc_string i.q hi.2.1 i.s] at this
  exact this

theorem quote_not_ws (q : Char) (hq : q = '"' ∨ q = '\'') : isWs q = false := by
  rcases hq with h | h <;> subst h <;> decide

theorem lineOf_length (items : List StrItem) (tail : List Char) : items.length ≤ (lineOf items tail).length := by
  induction items with
  | nil => simp
  | cons i is ih => simp [lineOf, encode]; omega

theorem tokensLoop_line (items : List StrItem) (hitems : ∀ i ∈ items, i.WF) (tail : List Char)
    (htail : ∀ c ∈ tail, isWs c = true) :
    ∀ (n : Nat), items.length ≤ n → ∀ (p : Option Char) (acc : List Py.Val),
      (tokensLoop cc .STRING n (p, lineOf items tail) acc).1 = acc.reverse ++ items.map (fun i => Py.Val.str i.s) ∧
      (tokensLoop cc .STRING n (p, lineOf items tail) acc).2.2 = [] := by
  induction items with
  | nil =>
    intro n _ p acc
    cases n with
    | zero => simp [tokensLoop, lineOf, skipWs, skipWsAux_all tail htail]
    | succ n =>
      have h2 := skipWsAux_all tail htail p
      simp only [tokensLoop, lineOf, skipWs]
      generalize skipWsAux p tail = r at h2
      obtain ⟨q, l⟩ := r
      simp at h2; subst h2
      simp [tokenAt_string_nil]
  | cons i is ih =>
    intro n hn p acc
    cases n with
    | zero => simp at hn
    | succ n =>
      have hi : i.WF := hitems i (by simp)
      have hq := quote_not_ws i.q hi.2.1
      have hskip : skipWs (p, lineOf (i :: is) tail) = (lastOr p i.ws, encode i.q i.s ++ lineOf is tail) := by
        simp only [skipWs, lineOf, encode, List.cons_append]
        exact skipWsAux_run i.ws hi.1 i.q hq _ p
      simp only [tokensLoop, hskip, tokenAt_string i hi]
      have := ih (fun j hj => hitems j (by simp [hj])) n (by simp at hn; omega) (some i.q) (.str i.s :: acc)
      simpa using this

end line

end Re
