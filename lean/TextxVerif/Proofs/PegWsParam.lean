import TextxVerif.Peg.WsParam
/-!
# Lemmas about `Peg.wsParam` (the written `ws` value → the whitespace set) — core Lean only
-/
namespace Peg

theorem hasPair_cons_ne {a b x : Char} (h : x ≠ a) (l : List Char) : hasPair a b (x :: l) = hasPair a b l := by
  cases l with
  | nil => simp [hasPair]
  | cons y tl => simp [hasPair, h]

theorem hasPair_bs_cons (b y : Char) (l : List Char) :
    hasPair '\\' b ('\\' :: y :: l) = (y == b || hasPair '\\' b (y :: l)) := by
  simp [hasPair]

theorem stripEsc_cons_ne {x : Char} (h : x ≠ '\\') (l : List Char) :
    stripEsc (x :: l) = if x == ' ' then stripEsc l else x :: stripEsc l := by
  cases l with
  | nil => simp [stripEsc]
  | cons y tl => simp [stripEsc, h]

/-- which escape sequence an item is (for `hasPair '\\' b`) -/
def WsItem.escChar : WsItem → Option Char
  | .escN => some 'n'
  | .escR => some 'r'
  | .escT => some 't'
  | .lit _ => none

theorem hasPair_spell {is : List WsItem} (h : WellSpelled is) (b : Char) :
    hasPair '\\' b (spellWs is) = true ↔ ∃ i ∈ is, i.escChar = some b := by
  induction is with
  | nil => simp [spellWs, hasPair]
  | cons i tl ih =>
    have htl : WellSpelled tl := fun c hc => h c (List.mem_cons_of_mem _ hc)
    have ih := ih htl
    cases i with
    | lit c =>
      have hc : c ≠ '\\' := h c (by simp)
      simp only [spellWs, WsItem.spell, List.cons_append, List.nil_append, hasPair_cons_ne hc, ih]
      simp [WsItem.escChar]
    | escN =>
      simp only [spellWs, WsItem.spell, List.cons_append, List.nil_append, hasPair_bs_cons,
        hasPair_cons_ne (show 'n' ≠ '\\' by decide), Bool.or_eq_true, ih]
      simp [WsItem.escChar]
    | escR =>
      simp only [spellWs, WsItem.spell, List.cons_append, List.nil_append, hasPair_bs_cons,
        hasPair_cons_ne (show 'r' ≠ '\\' by decide), Bool.or_eq_true, ih]
      simp [WsItem.escChar]
    | escT =>
      simp only [spellWs, WsItem.spell, List.cons_append, List.nil_append, hasPair_bs_cons,
        hasPair_cons_ne (show 't' ≠ '\\' by decide), Bool.or_eq_true, ih]
      simp [WsItem.escChar]

theorem mem_spell (is : List WsItem) (c : Char) :
    c ∈ spellWs is ↔ ∃ i ∈ is, c ∈ i.spell := by
  induction is with
  | nil => simp [spellWs]
  | cons i tl ih => simp [spellWs, ih]

theorem stripEsc_spell {is : List WsItem} (h : WellSpelled is) (c : Char) :
    c ∈ stripEsc (spellWs is) ↔ (WsItem.lit c ∈ is ∧ c ≠ ' ') := by
  induction is with
  | nil => simp [spellWs, stripEsc]
  | cons i tl ih =>
    have htl : WellSpelled tl := fun c hc => h c (List.mem_cons_of_mem _ hc)
    have ih := ih htl
    cases i with
    | lit d =>
      have hd : d ≠ '\\' := h d (by simp)
      simp only [spellWs, WsItem.spell, List.cons_append, List.nil_append, stripEsc_cons_ne hd]
      by_cases hsp : d = ' '
      · subst hsp
        simp only [beq_self_eq_true, if_true, ih]
        constructor
        · rintro ⟨h1, h2⟩; exact ⟨List.mem_cons_of_mem _ h1, h2⟩
        · rintro ⟨h1, h2⟩
          rcases List.mem_cons.1 h1 with h1 | h1
          · injection h1 with h1; exact absurd h1 h2
          · exact ⟨h1, h2⟩
      · have : (d == ' ') = false := by simp [hsp]
        simp only [this, Bool.false_eq_true, ↓reduceIte, List.mem_cons, ih]
        constructor
        · rintro (h1 | ⟨h1, h2⟩)
          · subst h1; exact ⟨Or.inl rfl, hsp⟩
          · exact ⟨Or.inr h1, h2⟩
        · rintro ⟨h1 | h1, h2⟩
          · injection h1 with h1; exact Or.inl h1
          · exact Or.inr ⟨h1, h2⟩
    | escN => simpa [spellWs, WsItem.spell, stripEsc] using ih
    | escR => simpa [spellWs, WsItem.spell, stripEsc] using ih
    | escT => simpa [spellWs, WsItem.spell, stripEsc] using ih

/-- without an escape sequence the written value consists of the literal characters -/
theorem spell_no_esc {is : List WsItem} (h : ∀ i ∈ is, i.escChar = none) (c : Char) :
    c ∈ spellWs is ↔ WsItem.lit c ∈ is := by
  induction is with
  | nil => simp [spellWs]
  | cons i tl ih =>
    have ih := ih (fun i hi => h i (List.mem_cons_of_mem _ hi))
    cases i with
    | lit d =>
      simp only [spellWs, WsItem.spell, List.cons_append, List.nil_append, List.mem_cons, ih]
      constructor
      · rintro (h1 | h1)
        · subst h1; exact Or.inl rfl
        · exact Or.inr h1
      · rintro (h1 | h1)
        · injection h1 with h1; exact Or.inl h1
        · exact Or.inr h1
    | escN => exact absurd (h .escN (by simp)) (by simp [WsItem.escChar])
    | escR => exact absurd (h .escR (by simp)) (by simp [WsItem.escChar])
    | escT => exact absurd (h .escT (by simp)) (by simp [WsItem.escChar])

theorem bs_mem_spell {is : List WsItem} (h : WellSpelled is) :
    '\\' ∈ spellWs is ↔ ∃ i ∈ is, i.escChar ≠ none := by
  rw [mem_spell]
  constructor
  · rintro ⟨i, hi, hc⟩
    refine ⟨i, hi, ?_⟩
    cases i with
    | lit d =>
      simp [WsItem.spell] at hc
      exact absurd hc.symm (h d hi)
    | escN => simp [WsItem.escChar]
    | escR => simp [WsItem.escChar]
    | escT => simp [WsItem.escChar]
  · rintro ⟨i, hi, hc⟩
    refine ⟨i, hi, ?_⟩
    cases i with
    | lit d => simp [WsItem.escChar] at hc
    | escN => simp [WsItem.spell]
    | escR => simp [WsItem.spell]
    | escT => simp [WsItem.spell]

theorem sp_mem_spell (is : List WsItem) : ' ' ∈ spellWs is ↔ WsItem.lit ' ' ∈ is := by
  rw [mem_spell]
  constructor
  · rintro ⟨i, hi, hc⟩
    cases i with
    | lit d =>
      simp [WsItem.spell] at hc
      subst hc; exact hi
    | escN => simp [WsItem.spell] at hc
    | escR => simp [WsItem.spell] at hc
    | escT => simp [WsItem.spell] at hc
  · intro h
    exact ⟨_, h, by simp [WsItem.spell]⟩

/-- **The written value denotes its characters.**  For every well-spelled list of items the set computed by
`visit_rule_params` contains exactly the characters the items denote. -/
theorem wsParam_denotes {is : List WsItem} (h : WellSpelled is) (c : Char) :
    c ∈ wsParam (spellWs is) ↔ ∃ i ∈ is, i.denotes = c := by
  unfold wsParam
  by_cases hb : '\\' ∈ spellWs is
  · have hbb : (spellWs is).contains '\\' = true := by simpa using hb
    rw [if_pos hbb]
    have hn := hasPair_spell h 'n'
    have hr := hasPair_spell h 'r'
    have ht := hasPair_spell h 't'
    have hs := sp_mem_spell is
    have hst := stripEsc_spell h c
    simp only [List.mem_append, hst]
    constructor
    · rintro ((((h1 | h1) | h1) | h1) | ⟨h1, _⟩)
      · by_cases hp : hasPair '\\' 'n' (spellWs is) = true
        · rw [if_pos hp] at h1
          obtain ⟨i, hi, he⟩ := hn.1 hp
          refine ⟨i, hi, ?_⟩
          cases i <;> simp_all [WsItem.escChar, WsItem.denotes]
        · rw [if_neg hp] at h1; simp at h1
      · by_cases hp : hasPair '\\' 'r' (spellWs is) = true
        · rw [if_pos hp] at h1
          obtain ⟨i, hi, he⟩ := hr.1 hp
          refine ⟨i, hi, ?_⟩
          cases i <;> simp_all [WsItem.escChar, WsItem.denotes]
        · rw [if_neg hp] at h1; simp at h1
      · by_cases hp : hasPair '\\' 't' (spellWs is) = true
        · rw [if_pos hp] at h1
          obtain ⟨i, hi, he⟩ := ht.1 hp
          refine ⟨i, hi, ?_⟩
          cases i <;> simp_all [WsItem.escChar, WsItem.denotes]
        · rw [if_neg hp] at h1; simp at h1
      · by_cases hp : (spellWs is).contains ' ' = true
        · rw [if_pos hp] at h1
          have : c = ' ' := by simpa using h1
          subst this
          exact ⟨_, hs.1 (by simpa using hp), rfl⟩
        · rw [if_neg hp] at h1; simp at h1
      · exact ⟨_, h1, rfl⟩
    · rintro ⟨i, hi, hd⟩
      cases i with
      | escN =>
        have hp : hasPair '\\' 'n' (spellWs is) = true := hn.2 ⟨_, hi, rfl⟩
        left; left; left; left
        rw [if_pos hp]; simp [← hd, WsItem.denotes]
      | escR =>
        have hp : hasPair '\\' 'r' (spellWs is) = true := hr.2 ⟨_, hi, rfl⟩
        left; left; left; right
        rw [if_pos hp]; simp [← hd, WsItem.denotes]
      | escT =>
        have hp : hasPair '\\' 't' (spellWs is) = true := ht.2 ⟨_, hi, rfl⟩
        left; left; right
        rw [if_pos hp]; simp [← hd, WsItem.denotes]
      | lit d =>
        have hd' : d = c := hd
        subst hd'
        by_cases hsp : d = ' '
        · subst hsp
          have hp : (spellWs is).contains ' ' = true := by simpa using hs.2 hi
          left; right
          rw [if_pos hp]; simp
        · right; exact ⟨hi, hsp⟩
  · have hbb : ¬ ((spellWs is).contains '\\' = true) := by simpa using hb
    rw [if_neg hbb]
    have hne : ∀ i ∈ is, i.escChar = none := by
      intro i hi
      by_cases hx : i.escChar = none
      · exact hx
      · exact absurd ((bs_mem_spell h).2 ⟨i, hi, hx⟩) hb
    rw [spell_no_esc hne]
    constructor
    · intro hc; exact ⟨_, hc, rfl⟩
    · rintro ⟨i, hi, hd⟩
      cases i with
      | lit d =>
        have hd' : d = c := hd
        subst hd'; exact hi
      | escN => exact absurd (hne _ hi) (by simp [WsItem.escChar])
      | escR => exact absurd (hne _ hi) (by simp [WsItem.escChar])
      | escT => exact absurd (hne _ hi) (by simp [WsItem.escChar])

end Peg
