import TextxVerif.Proofs.ExportMM
import TextxVerif.Proofs.ExportModel
/-! `metamodel_export_tofile`: exactly when the walk produces its items (totality), and which
class nodes the DOT renderer writes (every node statement belongs to a class of the table; when
the ids identify the classes a node id has one label only). -/
namespace Dot

/-- the classes `metamodel_export_tofile` walks: `[c for c in classes if c.fqn not in ALL_TYPE_NAMES]` -/
def mmClasses (all : List MCls) (allNames : List Str) : List MCls :=
  all.filter (fun c => !allNames.contains c.fqn)

/-- the exact domain of the walk: every class that is walked has the classes of its attributes
and its `inh_by` entries in the class table -/
def MMClosed (all : List MCls) (allNames : List Str) : Prop :=
  ∀ c ∈ mmClasses all allNames,
    (∀ a ∈ c.attrs, (findCls all a.clsId).isSome) ∧ ∀ i ∈ c.inhBy, (findCls all i).isSome

theorem findCls_isSome_iff {all : List MCls} {i : Nat} : (findCls all i).isSome ↔ ∃ c ∈ all, c.id = i := by
  simp [findCls, List.find?_isSome]

theorem findCls_of_any {all : List MCls} {p : MCls → Bool} {i : Nat}
    (h : (all.filter p).any (·.id = i) = true) : (findCls all i).isSome := by
  simp only [List.any_eq_true, List.mem_filter, decide_eq_true_eq] at h
  obtain ⟨c, ⟨hc, _⟩, hi⟩ := h
  exact findCls_isSome_iff.mpr ⟨c, hc, hi⟩

theorem attrItems_isSome (all classes : List MCls) (c : MCls) (as : List MAttr) :
    (attrItems all classes c as).isSome ↔
      ∀ a ∈ as, classes.any (·.id = a.clsId) = true ∨ (findCls all a.clsId).isSome := by
  induction as with
  | nil => simp [attrItems]
  | cons a as ih =>
    rw [List.forall_mem_cons]
    unfold attrItems
    cases hr : attrItems all classes c as with
    | none =>
      rw [hr] at ih
      simp only [Option.isSome_none, Bool.false_eq_true, false_iff]
      intro h
      exact absurd (ih.mpr h.2) (by simp)
    | some rest =>
      rw [hr] at ih
      have hrest := ih.mp rfl
      by_cases hany : classes.any (·.id = a.clsId) = true
      · simp only [hany, if_true, Option.isSome_some, true_iff]
        exact ⟨Or.inl trivial, hrest⟩
      · cases hf : findCls all a.clsId with
        | none => simp [hany]
        | some ac =>
          simp only [hany]
          simpa using hrest

theorem inhItems_isSome (all : List MCls) (c : MCls) (is : List Nat) :
    (inhItems all c is).isSome ↔ ∀ i ∈ is, (findCls all i).isSome := by
  induction is with
  | nil => simp [inhItems]
  | cons i is ih =>
    rw [List.forall_mem_cons]
    unfold inhItems
    cases hf : findCls all i <;> cases hr : inhItems all c is <;> simp [hr] at ih ⊢ <;> exact ih

theorem linkItems_isSome (all classes : List MCls) (cs : List MCls) :
    (linkItems all classes cs).isSome ↔
      ∀ c ∈ cs, (∀ a ∈ c.attrs, classes.any (·.id = a.clsId) = true ∨ (findCls all a.clsId).isSome) ∧
        ∀ i ∈ c.inhBy, (findCls all i).isSome := by
  induction cs with
  | nil => simp [linkItems]
  | cons c cs ih =>
    rw [List.forall_mem_cons, ← ih, ← attrItems_isSome all classes c c.attrs, ← inhItems_isSome all c c.inhBy]
    simp only [linkItems]
    cases attrItems all classes c c.attrs <;> cases inhItems all c c.inhBy <;>
      cases linkItems all classes cs <;> simp

/-- **Exact domain of the walk.** -/
theorem mmItems_isSome (all : List MCls) (allNames : List Str) :
    (mmItems all allNames).isSome ↔ MMClosed all allNames := by
  have e : (mmItems all allNames).isSome =
      (linkItems all (mmClasses all allNames) (mmClasses all allNames)).isSome := by
    simp only [mmItems, mmClasses]
    split
    · rename_i h; rw [h]
    · rename_i ls h; rw [h]; rfl
  rw [e, linkItems_isSome]
  unfold MMClosed
  constructor
  · intro h c hc
    refine ⟨fun a ha => ?_, (h c hc).2⟩
    rcases (h c hc).1 a ha with h1 | h1
    · exact findCls_of_any h1
    · exact h1
  · intro h c hc
    exact ⟨fun a ha => Or.inr ((h c hc).1 a ha), (h c hc).2⟩

theorem mmDot_isSome (all : List MCls) (base : List Str) :
    (mmDot all base).isSome = (mmItems all (base ++ [cl!"OBJECT"])).isSome := by
  unfold mmDot mmDotStmts
  cases mmItems all (base ++ [cl!"OBJECT"]) <;> simp

theorem mmPuml_isSome (all : List MCls) (base : List Str) (lt : Option Str) :
    (mmPuml all base lt).isSome = (mmItems all (base ++ [cl!"OBJECT"])).isSome := by
  unfold mmPuml mmPumlLines
  cases mmItems all (base ++ [cl!"OBJECT"]) <;> simp

/-- the table-wide closedness (checked by the driver) implies the exact domain -/
theorem mmClosed_of_all {all : List MCls} (allNames : List Str)
    (h : ∀ c ∈ all, (∀ a ∈ c.attrs, (findCls all a.clsId).isSome) ∧ ∀ i ∈ c.inhBy, (findCls all i).isSome) :
    MMClosed all allNames :=
  fun c hc => h c (List.mem_filter.mp hc).1

theorem mmClosed_of_B {all : List MCls}
    (h : mmClosedB all = true) :
    ∀ c ∈ all, (∀ a ∈ c.attrs, (findCls all a.clsId).isSome) ∧ ∀ i ∈ c.inhBy, (findCls all i).isSome := by
  intro c hc
  have := List.all_eq_true.mp h c hc
  simp only [Bool.and_eq_true, List.all_eq_true] at this
  exact this

/-! ### the node statements of the DOT renderer -/

theorem dotItem_node {it : MItem} {m : Bool} {i : Nat} {n a : Str} (h : Stmt.node m i n a ∈ dotItem it) :
    ∃ c, it = .cls c ∧ c.typ ≠ .match ∧ m = true ∧ i = c.id ∧
      n = (if c.typ = .abstract then '*' :: c.name else c.name) ∧ a = dotClassAttrs c := by
  cases it with
  | cls c =>
    simp only [dotItem] at h
    split at h
    · simp at h
    · rename_i hm
      simp only [List.mem_singleton, Stmt.node.injEq] at h
      exact ⟨c, rfl, hm, h.1, h.2.1, h.2.2.1, h.2.2.2⟩
  | blank => simp [dotItem] at h
  | link c a => simp [dotItem] at h
  | inh b s => simp [dotItem] at h

/-- every node statement of the metamodel DOT export is the node of a class of the table -/
theorem mmDotStmts_node {all : List MCls} {base : List Str} {ss : List Stmt} (hs : mmDotStmts all base = some ss)
    {m : Bool} {i : Nat} {n a : Str} (h : Stmt.node m i n a ∈ ss) :
    ∃ c ∈ all, c.typ ≠ .match ∧ m = true ∧ i = c.id ∧
      n = (if c.typ = .abstract then '*' :: c.name else c.name) ∧ a = dotClassAttrs c := by
  unfold mmDotStmts at hs
  cases hi : mmItems all (base ++ [cl!"OBJECT"]) with
  | none => simp [hi] at hs
  | some items =>
    simp only [hi, Option.some.injEq] at hs
    obtain ⟨hin, _⟩ := mmItems_in all _ items hi
    rw [← hs] at h
    rcases List.mem_append.mp h with h1 | h1
    · obtain ⟨it, hit, hsi⟩ := List.mem_flatMap.mp h1
      obtain ⟨c, rfl, hm, r⟩ := dotItem_node hsi
      exact ⟨c, hin _ hit, hm, r⟩
    · split at h1 <;> simp at h1

theorem eq_of_id_eq {all : List MCls} (hn : (all.map (·.id)).Nodup) {c d : MCls} (hc : c ∈ all) (hd : d ∈ all)
    (h : c.id = d.id) : c = d := by
  induction all with
  | nil => cases hc
  | cons x xs ih =>
    simp only [List.map_cons, List.nodup_cons, List.mem_map, not_exists, not_and] at hn
    rcases List.mem_cons.mp hc with rfl | hc' <;> rcases List.mem_cons.mp hd with rfl | hd'
    · rfl
    · exact absurd h.symm (hn.1 d hd')
    · exact absurd h (hn.1 c hc')
    · exact ih hn.2 hc' hd'

theorem nodup_of_distinctB {l : List Nat} (h : distinctB l = true) : l.Nodup := by
  induction l with
  | nil => exact List.nodup_nil
  | cons x xs ih =>
    simp only [distinctB, Bool.and_eq_true, Bool.not_eq_true', List.contains_eq_mem, decide_eq_false_iff_not] at h
    exact List.nodup_cons.mpr ⟨h.1, ih h.2⟩

/-! ### no class gets two nodes, unless an attribute points to a non-match class outside the walk -/

theorem attrItems_cls (all classes : List MCls) (c : MCls) (as : List MAttr) (items : List MItem)
    (h : attrItems all classes c as = some items) :
    ∀ d, MItem.cls d ∈ items → ∃ a ∈ as, classes.any (·.id = a.clsId) = false ∧ findCls all a.clsId = some d := by
  induction as generalizing items with
  | nil => simp only [attrItems, Option.some.injEq] at h; subst h; simp
  | cons a as ih =>
    simp only [attrItems] at h
    cases hr : attrItems all classes c as with
    | none => simp [hr] at h
    | some rest =>
      simp only [hr] at h
      have hrest := ih rest hr
      have hl : ∀ d, MItem.cls d ∉ (if (a.ref && a.clsName != cl!"OBJECT") = true then [MItem.link c a] else []) := by
        intro d hd
        split at hd <;> simp at hd
      intro d hd
      split at h
      · simp only [Option.some.injEq] at h; subst h
        rcases List.mem_append.mp hd with hd | hd
        · exact absurd hd (hl d)
        · obtain ⟨b, hb, r⟩ := hrest d hd
          exact ⟨b, by simp [hb], r⟩
      · rename_i hany
        cases hf : findCls all a.clsId with
        | none => simp [hf] at h
        | some ac =>
          simp only [hf, Option.some.injEq] at h; subst h
          rcases List.mem_append.mp hd with hd | hd
          · exact absurd hd (hl d)
          · rcases List.mem_cons.mp hd with hd | hd
            · simp only [MItem.cls.injEq] at hd; subst hd
              exact ⟨a, by simp, by simpa using hany, hf⟩
            · obtain ⟨b, hb, r⟩ := hrest d hd
              exact ⟨b, by simp [hb], r⟩

theorem inhItems_cls (all : List MCls) (c : MCls) (is : List Nat) (items : List MItem)
    (h : inhItems all c is = some items) : ∀ d, MItem.cls d ∉ items := by
  induction is generalizing items with
  | nil => simp only [inhItems, Option.some.injEq] at h; subst h; simp
  | cons i is ih =>
    simp only [inhItems] at h
    cases hf : findCls all i with
    | none => simp [hf] at h
    | some s =>
      cases hr : inhItems all c is with
      | none => simp [hf, hr] at h
      | some rest =>
        simp only [hf, hr, Option.some.injEq] at h; subst h
        intro d hd
        rcases List.mem_cons.mp hd with hd | hd
        · cases hd
        · exact ih rest hr d hd

theorem linkItems_cls (all classes : List MCls) (cs : List MCls) (items : List MItem)
    (h : linkItems all classes cs = some items) :
    ∀ d, MItem.cls d ∈ items →
      ∃ c ∈ cs, ∃ a ∈ c.attrs, classes.any (·.id = a.clsId) = false ∧ findCls all a.clsId = some d := by
  induction cs generalizing items with
  | nil => simp only [linkItems, Option.some.injEq] at h; subst h; simp
  | cons c cs ih =>
    simp only [linkItems] at h
    cases ha : attrItems all classes c c.attrs with
    | none => simp [ha] at h
    | some a =>
      cases hi : inhItems all c c.inhBy with
      | none => simp [ha, hi] at h
      | some i =>
        cases hr : linkItems all classes cs with
        | none => simp [ha, hi, hr] at h
        | some rest =>
          simp only [ha, hi, hr, Option.some.injEq] at h; subst h
          intro d hd
          rcases List.mem_append.mp hd with hd | hd
          · rcases List.mem_append.mp hd with hd | hd
            · obtain ⟨b, hb, r⟩ := attrItems_cls all classes c c.attrs a ha d hd
              exact ⟨c, by simp, b, hb, r⟩
            · exact absurd hd (inhItems_cls all c c.inhBy i hi d)
          · obtain ⟨c', hc', r⟩ := ih rest hr d hd
            exact ⟨c', by simp [hc'], r⟩

theorem findCls_id {all : List MCls} {i : Nat} {d : MCls} (h : findCls all i = some d) : d.id = i := by
  have := List.find?_some h
  simpa using this

theorem nodeIds_cls_sublist (l : List MCls) :
    (nodeIds ((l.map MItem.cls).flatMap dotItem)).Sublist (l.map (·.id)) := by
  induction l with
  | nil => simp [nodeIds]
  | cons c l ih =>
    simp only [List.map_cons, List.flatMap_cons, nodeIds_append]
    by_cases hm : c.typ = .match
    · simp only [dotItem, hm, if_true]
      exact List.Sublist.cons _ (by simpa [nodeIds] using ih)
    · simp only [dotItem, hm, if_false]
      exact List.Sublist.cons_cons _ ih

/-- the attributes of the walked classes point to walked classes or to match rules (no
attribute refers to a non-match class whose fqn is a base type name, i.e. to `OBJECT`) -/
def NoOuterClass (all : List MCls) (allNames : List Str) : Prop :=
  ∀ c ∈ mmClasses all allNames, ∀ a ∈ c.attrs, ∀ d, findCls all a.clsId = some d →
    d.fqn ∈ allNames → d.typ = .match

theorem mmDotStmts_nodup {all : List MCls} {base : List Str} {ss : List Stmt}
    (hs : mmDotStmts all base = some ss) (hn : (all.map (·.id)).Nodup)
    (ho : NoOuterClass all (base ++ [cl!"OBJECT"])) : (nodeIds ss).Nodup := by
  unfold mmDotStmts at hs
  cases hi : mmItems all (base ++ [cl!"OBJECT"]) with
  | none => simp [hi] at hs
  | some items =>
    simp only [hi, Option.some.injEq] at hs
    simp only [mmItems] at hi
    split at hi
    · simp at hi
    · rename_i ls hl
      simp only [Option.some.injEq] at hi
      have hlinks : nodeIds (ls.flatMap dotItem) = [] := by
        apply List.eq_nil_iff_forall_not_mem.mpr
        intro i hi'
        simp only [nodeIds, List.mem_filterMap] at hi'
        obtain ⟨s, hs', hsi⟩ := hi'
        cases s <;> simp only [Stmt.nodeId?, Option.some.injEq] at hsi <;> try (exact absurd hsi (by simp))
        rename_i m j n a
        obtain ⟨it, hit, hsi'⟩ := List.mem_flatMap.mp hs'
        obtain ⟨d, rfl, hm, _⟩ := dotItem_node hsi'
        obtain ⟨c, hc, b, hb, hany, hf⟩ := linkItems_cls all _ _ ls hl d hit
        apply hm
        apply ho c hc b hb d hf
        -- `d` is in the table but not among the walked classes
        have hdall : d ∈ all := findCls_mem hf
        have hdid := findCls_id hf
        by_cases hq : (base ++ [cl!"OBJECT"]).contains d.fqn = true
        · simpa using hq
        · exfalso
          have : (all.filter fun c => !(base ++ [cl!"OBJECT"]).contains c.fqn).any (·.id = b.clsId) = true := by
            simp only [List.any_eq_true, List.mem_filter, decide_eq_true_eq]
            exact ⟨d, ⟨hdall, by simpa using hq⟩, hdid⟩
          rw [this] at hany
          cases hany
      subst hi
      subst hs
      have e2 : ∀ (p : Prop) [Decidable p] (r : List (Str × Str)),
          nodeIds (if p then [] else [Stmt.matchTable r]) = [] := by
        intro p _ r; split <;> rfl
      have e : nodeIds (dotItem .blank) = [] := rfl
      have hsub := nodeIds_cls_sublist
        ((all.filter fun c => !(base ++ [cl!"OBJECT"]).contains c.fqn).filter fun c => !(base ++ [cl!"OBJECT"]).contains c.name)
      have hsub2 : (((all.filter fun c => !(base ++ [cl!"OBJECT"]).contains c.fqn).filter
          fun c => !(base ++ [cl!"OBJECT"]).contains c.name).map (·.id)).Sublist (all.map (·.id)) :=
        ((List.filter_sublist).trans List.filter_sublist).map _
      have h1 := (hn.sublist hsub2).sublist hsub
      rw [nodeIds_append, e2, List.append_nil, List.flatMap_append, nodeIds_append, List.flatMap_cons, nodeIds_append,
        hlinks, List.append_nil, e, List.append_nil]
      exact h1

/-! ### the ends of the link / inheritance edges are classes of the table -/

/-- the node ids an edge statement of the metamodel export connects -/
def Stmt.ends : Stmt → List Nat
  | .link s d _ _ => [s, d]
  | .inh b s => [b, s]
  | _ => []

def mmEdgeEnds (ss : List Stmt) : List Nat := ss.flatMap Stmt.ends

theorem dotItem_ends {all : List MCls} {it : MItem} (hin : ItemIn all it)
    (hcl : ∀ c ∈ all, ∀ a ∈ c.attrs, (findCls all a.clsId).isSome) {s : Stmt} (hs : s ∈ dotItem it) :
    ∀ i ∈ s.ends, ∃ c ∈ all, c.id = i := by
  cases it with
  | cls c =>
    simp only [dotItem] at hs
    split at hs
    · simp at hs
    · simp only [List.mem_singleton] at hs; subst hs; simp [Stmt.ends]
  | blank => simp only [dotItem, List.mem_singleton] at hs; subst hs; simp [Stmt.ends]
  | link c a =>
    simp only [dotItem, List.mem_singleton] at hs; subst hs
    intro i hi
    simp only [Stmt.ends, List.mem_cons, List.not_mem_nil, or_false] at hi
    rcases hi with rfl | rfl
    · exact ⟨c, hin.1, rfl⟩
    · exact findCls_isSome_iff.mp (hcl c hin.1 a hin.2)
  | inh b s' =>
    simp only [dotItem, List.mem_singleton] at hs; subst hs
    intro i hi
    simp only [Stmt.ends, List.mem_cons, List.not_mem_nil, or_false] at hi
    rcases hi with rfl | rfl
    · exact ⟨b, hin.1, rfl⟩
    · exact ⟨s', hin.2, rfl⟩

theorem mmDotStmts_ends {all : List MCls} {base : List Str} {ss : List Stmt} (hs : mmDotStmts all base = some ss)
    (hcl : ∀ c ∈ all, ∀ a ∈ c.attrs, (findCls all a.clsId).isSome) :
    ∀ i ∈ mmEdgeEnds ss, ∃ c ∈ all, c.id = i := by
  unfold mmDotStmts at hs
  cases hi : mmItems all (base ++ [cl!"OBJECT"]) with
  | none => simp [hi] at hs
  | some items =>
    simp only [hi, Option.some.injEq] at hs
    obtain ⟨hin, _⟩ := mmItems_in all _ items hi
    intro i hi'
    obtain ⟨s, hs', hsi⟩ := List.mem_flatMap.mp hi'
    rw [← hs] at hs'
    rcases List.mem_append.mp hs' with h1 | h1
    · obtain ⟨it, hit, hsit⟩ := List.mem_flatMap.mp h1
      exact dotItem_ends (hin it hit) hcl hsit i hsi
    · split at h1
      · simp at h1
      · simp only [List.mem_singleton] at h1; subst h1; simp [Stmt.ends] at hsi

theorem noOuterClass_of_B {all : List MCls} {allNames : List Str} (h : noOuterClassB all allNames = true) :
    NoOuterClass all allNames := by
  intro c hc a ha d hf hd
  have h1 := List.all_eq_true.mp h c hc
  have h2 := List.all_eq_true.mp h1 a ha
  simp only [hf, Bool.or_eq_true, Bool.not_eq_true', decide_eq_true_eq] at h2
  rcases h2 with h2 | h2
  · have : allNames.contains d.fqn = true := by simpa using hd
    rw [this] at h2; cases h2
  · exact h2

end Dot
