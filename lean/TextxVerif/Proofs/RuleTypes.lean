import TextxVerif.RuleTypes
/-!
Helper lemmas for C03, part 1: the kind fixpoint (`determine` / `onePass` / `passes`).

Plan.  `Sound k`: every non-match kind is justified (common ⇒ has assignments,
abstract ⇒ no assignments and `NonMatch`).  `Closed k c`: rule `c` is stable under
one more examination.  `Post st st'` is what one call of `determine` guarantees;
it composes, which gives the pass, and the pass count is bounded by the number
of rules that are still match rules.
-/
namespace RuleTypes

/-! ### counting -/

theorem filter_len_le {α} (l : List α) (p q : α → Bool) (h : ∀ x ∈ l, p x = true → q x = true) :
    (l.filter p).length ≤ (l.filter q).length := by
  induction l with
  | nil => simp
  | cons a l ih =>
    have ih' := ih (fun x hx => h x (List.mem_cons_of_mem _ hx))
    have ha := h a (List.mem_cons_self ..)
    by_cases hp : p a = true
    · have hq := ha hp
      simp [hp, hq]; omega
    · by_cases hq : q a = true
      · simp [hp, hq]; omega
      · simp [hp, hq]; omega

theorem filter_len_lt {α} (l : List α) (p q : α → Bool) (h : ∀ x ∈ l, p x = true → q x = true)
    (a : α) (ha : a ∈ l) (hqa : q a = true) (hpa : p a = false) :
    (l.filter p).length < (l.filter q).length := by
  induction l with
  | nil => cases ha
  | cons b l ih =>
    have hle := filter_len_le l p q (fun x hx => h x (List.mem_cons_of_mem _ hx))
    have hb := h b (List.mem_cons_self ..)
    rcases List.mem_cons.mp ha with hab | hal
    · subst hab
      simp [hqa, hpa]; omega
    · have ih' := ih (fun x hx => h x (List.mem_cons_of_mem _ hx)) hal
      by_cases hp : p b = true
      · have hq := hb hp
        simp [hp, hq]; omega
      · by_cases hq : q b = true
        · simp [hp, hq]; omega
        · simp [hp, hq]; omega

/-- number of rules `< n` not in `v` -/
def unv (n : Nat) (v : List Nat) : Nat := ((List.range n).filter (fun x => decide (x ∉ v))).length

theorem unv_le (n : Nat) (v : List Nat) : unv n v ≤ n := by
  unfold unv
  have := List.length_filter_le (fun x => decide (x ∉ v)) (List.range n)
  simpa using this

theorem unv_mono (n : Nat) (v v' : List Nat) (h : ∀ x, x ∈ v → x ∈ v') : unv n v' ≤ unv n v := by
  unfold unv
  apply filter_len_le
  intro x _ hx
  simp only [decide_eq_true_eq] at hx ⊢
  exact fun hv => hx (h x hv)

theorem unv_cons_lt (n : Nat) (v : List Nat) (r : Nat) (hr : r < n) (hv : r ∉ v) :
    unv n (r :: v) < unv n v := by
  unfold unv
  apply filter_len_lt _ _ _ _ r (List.mem_range.mpr hr)
  · simp [hv]
  · simp
  · intro x _ hx
    simp only [decide_eq_true_eq, List.mem_cons, not_or] at hx ⊢
    exact hx.2

theorem mem_of_unv_zero (n : Nat) (v : List Nat) (r : Nat) (hr : r < n) (h : unv n v = 0) : r ∈ v := by
  apply Classical.byContradiction
  intro hv
  have := unv_cons_lt n v r hr hv
  omega

/-! ### well-formed grammars -/

theorem WF.ref_lt {g : Gram} (h : WF g) {r : Nat} {rule : Rule} (hr : g[r]? = some rule) {s : Nat}
    (hs : s ∈ rule.body.refs) : s < g.length := by
  unfold WF wf at h
  rw [List.all_eq_true] at h
  have hm : rule ∈ g := List.mem_of_getElem? hr
  have := h rule hm
  rw [List.all_eq_true] at this
  simpa using this s hs

theorem lt_of_getElem? {g : Gram} {r : Nat} {rule : Rule} (hr : g[r]? = some rule) : r < g.length := by
  rcases Nat.lt_or_ge r g.length with h | h
  · exact h
  · rw [List.getElem?_eq_none_iff.mpr h] at hr; cases hr

/-! ### invariants -/

def HasA (g : Gram) (r : Nat) : Prop := ∃ rule, g[r]? = some rule ∧ rule.hasAttrs = true
def NoA (g : Gram) (r : Nat) : Prop := ∃ rule, g[r]? = some rule ∧ rule.hasAttrs = false

theorem HasA_NoA_false {g : Gram} {r : Nat} (h1 : HasA g r) (h2 : NoA g r) : False := by
  obtain ⟨a, ha, ha'⟩ := h1
  obtain ⟨b, hb, hb'⟩ := h2
  rw [ha] at hb
  cases hb
  rw [ha'] at hb'
  cases hb'

structure Sound (g : Gram) (k : Kinds) : Prop where
  common : ∀ r, k r = .common → HasA g r
  abstr : ∀ r, k r = .abstr → NoA g r ∧ NonMatch g r

theorem Sound.nonmatch {g : Gram} {k : Kinds} (h : Sound g k) {r : Nat} (hr : k r ≠ .mtch) : NonMatch g r := by
  cases hk : k r with
  | mtch => exact absurd hk hr
  | abstr => exact (h.abstr r hk).2
  | common =>
    obtain ⟨rule, h1, h2⟩ := h.common r hk
    exact NonMatch.attrs h1 h2

theorem Sound.init (g : Gram) : Sound g initKinds :=
  ⟨fun r h => by simp [initKinds] at h, fun r h => by simp [initKinds] at h⟩

def Closed (g : Gram) (k : Kinds) (c : Nat) : Prop :=
  ∀ rule, g[c]? = some rule →
    (rule.hasAttrs = true → k c = .common) ∧
    (rule.hasAttrs = false → (∃ s, s ∈ rule.body.refs ∧ k s ≠ .mtch) → k c = .abstr)

/-- what a call of `determine` (or any sequence of such calls) guarantees -/
structure Post (g : Gram) (st st' : St) : Prop where
  vis : ∀ x, x ∈ st.visited → x ∈ st'.visited
  sound : Sound g st'.kinds
  le : ∀ r, st.kinds r ≠ .mtch → st'.kinds r = st.kinds r
  chg : st.change = true → st'.change = true
  same : st'.change = false → st'.kinds = st.kinds
  closed : st'.change = false → ∀ c, c ∈ st'.visited → c ∉ st.visited → Closed g st'.kinds c
  strict : st'.change = true →
    st.change = true ∨ ∃ r, r < g.length ∧ st.kinds r = .mtch ∧ st'.kinds r ≠ .mtch

theorem Post.refl {g : Gram} {st : St} (h : Sound g st.kinds) : Post g st st :=
  ⟨fun _ h => h, h, fun _ _ => rfl, fun h => h, fun _ => rfl, fun _ _ h1 h2 => absurd h1 h2, fun h => Or.inl h⟩

theorem Post.trans {g : Gram} {a b c : St} (h1 : Post g a b) (h2 : Post g b c) : Post g a c := by
  refine ⟨fun x hx => h2.vis x (h1.vis x hx), h2.sound, ?_, fun h => h2.chg (h1.chg h), ?_, ?_, ?_⟩
  · intro r hr
    have e1 := h1.le r hr
    have : b.kinds r ≠ .mtch := by rw [e1]; exact hr
    rw [h2.le r this, e1]
  · intro hc
    have hb : b.change = false := by
      cases hbc : b.change with
      | false => rfl
      | true => rw [h2.chg hbc] at hc; cases hc
    rw [h2.same hc, h1.same hb]
  · intro hc x hx hxa
    have hb : b.change = false := by
      cases hbc : b.change with
      | false => rfl
      | true => rw [h2.chg hbc] at hc; cases hc
    by_cases hxb : x ∈ b.visited
    · have := h1.closed hb x hxb hxa
      rw [h2.same hc]; exact this
    · exact h2.closed hc x hx hxb
  · intro hc
    cases hbc : b.change with
    | true =>
      rcases h1.strict hbc with h | ⟨r, hr, hm, hn⟩
      · exact Or.inl h
      · refine Or.inr ⟨r, hr, hm, ?_⟩
        rw [h2.le r hn]; exact hn
    | false =>
      rcases h2.strict hc with h | ⟨r, hr, hm, hn⟩
      · rw [hbc] at h; cases h
      · refine Or.inr ⟨r, hr, ?_, hn⟩
        rw [← h1.same hbc]; exact hm

/-- entering a class: it joins the visited set; it must be closed at the end -/
theorem Post.push {g : Gram} {st st' : St} {r : Nat}
    (h : Post g { st with visited := r :: st.visited } st')
    (hr : st'.change = false → Closed g st'.kinds r) : Post g st st' := by
  refine ⟨fun x hx => h.vis x (List.mem_cons_of_mem _ hx), h.sound, h.le, h.chg, h.same, ?_, h.strict⟩
  intro hc c hc1 hc2
  by_cases hcr : c = r
  · subst hcr; exact hr hc
  · apply h.closed hc c hc1
    simp [hcr, hc2]

/-- contract of the recursive call inside `hasNM` -/
def DetOK (g : Gram) (f : Nat) (det : Nat → St → St) : Prop :=
  ∀ r st, r < g.length → Sound g st.kinds → unv g.length st.visited ≤ f →
    Post g st (det r st) ∧ r ∈ (det r st).visited

theorem change_false_of {g : Gram} {a b : St} (h : Post g a b) (hb : b.change = false) : a.change = false := by
  cases ha : a.change with
  | false => rfl
  | true => rw [h.chg ha] at hb; cases hb

mutual
theorem hasNM_post (g : Gram) (f : Nat) (det : Nat → St → St) (hdet : DetOK g f det) :
    ∀ (b : Body) (st : St), (∀ s ∈ b.refs, s < g.length) → Sound g st.kinds →
      unv g.length st.visited ≤ f →
      Post g st (hasNM det b st).1 ∧
      ((hasNM det b st).2 = true → ∃ s, s ∈ b.refs ∧ (hasNM det b st).1.kinds s ≠ .mtch) ∧
      ((hasNM det b st).2 = false → (hasNM det b st).1.change = false →
          ∀ s ∈ b.refs, (hasNM det b st).1.kinds s = .mtch)
  | .lit, st, _, hs, _ => by
      simp only [hasNM, Body.refs]
      exact ⟨Post.refl hs, (fun h => by cases h), (fun _ _ s hs => by cases hs)⟩
  | .ref r, st, hr, hs, hu => by
      simp only [hasNM, Body.refs]
      have hd := hdet r st (hr r (by simp [Body.refs])) hs hu
      refine ⟨hd.1, ?_, ?_⟩
      · intro h
        refine ⟨r, by simp, ?_⟩
        simpa using h
      · intro h _ s hs
        simp only [List.mem_singleton] at hs
        subst hs
        simpa using h
  | .seq xs, st, hr, hs, hu => by
      simp only [hasNM, Body.refs]
      exact hasNML_post g f det hdet xs st (by simpa [Body.refs] using hr) hs hu
  | .choice xs, st, hr, hs, hu => by
      simp only [hasNM, Body.refs]
      exact hasNML_post g f det hdet xs st (by simpa [Body.refs] using hr) hs hu
  | .other xs, st, hr, hs, hu => by
      simp only [hasNM, Body.refs]
      exact hasNML_post g f det hdet xs st (by simpa [Body.refs] using hr) hs hu
theorem hasNML_post (g : Gram) (f : Nat) (det : Nat → St → St) (hdet : DetOK g f det) :
    ∀ (xs : List Body) (st : St), (∀ s ∈ refsL xs, s < g.length) → Sound g st.kinds →
      unv g.length st.visited ≤ f →
      Post g st (hasNML det xs st).1 ∧
      ((hasNML det xs st).2 = true → ∃ s, s ∈ refsL xs ∧ (hasNML det xs st).1.kinds s ≠ .mtch) ∧
      ((hasNML det xs st).2 = false → (hasNML det xs st).1.change = false →
          ∀ s ∈ refsL xs, (hasNML det xs st).1.kinds s = .mtch)
  | [], st, _, hs, _ => by
      simp only [hasNML, refsL]
      exact ⟨Post.refl hs, (fun h => by cases h), (fun _ _ s hs => by cases hs)⟩
  | x :: xs, st, hr, hs, hu => by
      have hx := hasNM_post g f det hdet x st
        (fun s h => hr s (by simp [refsL, h])) hs hu
      rcases hres : hasNM det x st with ⟨st1, b⟩
      rw [hres] at hx
      cases b with
      | true =>
        simp only [hasNML, hres, refsL]
        refine ⟨hx.1, ?_, (fun h => by cases h)⟩
        intro _
        obtain ⟨s, hs1, hs2⟩ := hx.2.1 rfl
        exact ⟨s, by simp [hs1], hs2⟩
      | false =>
        simp only [hasNML, hres, refsL]
        have hu1 : unv g.length st1.visited ≤ f :=
          Nat.le_trans (unv_mono _ _ _ hx.1.vis) hu
        have hrest := hasNML_post g f det hdet xs st1
          (fun s h => hr s (by simp [refsL, h])) hx.1.sound hu1
        refine ⟨hx.1.trans hrest.1, ?_, ?_⟩
        · intro h
          obtain ⟨s, hs1, hs2⟩ := hrest.2.1 h
          exact ⟨s, by simp [hs1], hs2⟩
        · intro h hc s hs'
          rcases List.mem_append.mp hs' with h1 | h2
          · have hc1 := change_false_of hrest.1 hc
            have := hx.2.2 rfl hc1 s h1
            rw [hrest.1.same hc]; exact this
          · exact hrest.2.2 h hc s h2
end

theorem upd_same (k : Kinds) (r : Nat) (v : Kind) : upd k r v r = v := by simp [upd]
theorem upd_other (k : Kinds) (r x : Nat) (v : Kind) (h : x ≠ r) : upd k r v x = k x := by simp [upd, h]

theorem sound_upd_common {g : Gram} {k : Kinds} {r : Nat} (hs : Sound g k) (ha : HasA g r) :
    Sound g (upd k r .common) := by
  constructor
  · intro x hx
    by_cases hxr : x = r
    · subst hxr; exact ha
    · rw [upd_other _ _ _ _ hxr] at hx; exact hs.common x hx
  · intro x hx
    by_cases hxr : x = r
    · subst hxr; rw [upd_same] at hx; cases hx
    · rw [upd_other _ _ _ _ hxr] at hx; exact hs.abstr x hx

theorem sound_upd_abstr {g : Gram} {k : Kinds} {r : Nat} (hs : Sound g k) (ha : NoA g r)
    (hn : NonMatch g r) : Sound g (upd k r .abstr) := by
  constructor
  · intro x hx
    by_cases hxr : x = r
    · subst hxr; rw [upd_same] at hx; cases hx
    · rw [upd_other _ _ _ _ hxr] at hx; exact hs.common x hx
  · intro x hx
    by_cases hxr : x = r
    · subst hxr; exact ⟨ha, hn⟩
    · rw [upd_other _ _ _ _ hxr] at hx; exact hs.abstr x hx

theorem le_upd {k : Kinds} {r : Nat} (v : Kind) (hm : k r = .mtch) :
    ∀ x, k x ≠ .mtch → upd k r v x = k x := by
  intro x hx
  by_cases hxr : x = r
  · subst hxr; exact absurd hm hx
  · exact upd_other _ _ _ _ hxr

theorem determine_ok (g : Gram) (hwf : WF g) : ∀ f, DetOK g f (determine g f)
  | 0 => by
    intro r st hr hs hu
    simp only [determine]
    exact ⟨Post.refl hs, mem_of_unv_zero _ _ _ hr (Nat.le_zero.mp hu)⟩
  | f + 1 => by
    intro r st hr hs hu
    have ih := determine_ok g hwf f
    simp only [determine]
    by_cases hv : r ∈ st.visited
    · rw [if_pos hv]
      exact ⟨Post.refl hs, hv⟩
    · rw [if_neg hv]
      have hu0 : unv g.length (r :: st.visited) ≤ f := by
        have := unv_cons_lt g.length st.visited r hr hv
        omega
      have hget : g[r]? = some g[r] := List.getElem?_eq_getElem hr
      rw [hget]
      simp only
      generalize hrule : g[r] = rule at hget
      cases hattr : rule.hasAttrs with
      | true =>
        simp only [if_true]
        by_cases hk : st.kinds r = .common
        · simp only [hk, ne_eq, not_true, if_false]
          refine ⟨Post.push (Post.refl hs) ?_, by simp⟩
          intro _ rule' hr'
          rw [hget] at hr'; cases hr'
          exact ⟨fun _ => hk, fun h => by rw [hattr] at h; cases h⟩
        · simp only [ne_eq, hk, not_false_eq_true, if_true]
          have hm : st.kinds r = .mtch := by
            cases hkr : st.kinds r with
            | mtch => rfl
            | common => exact absurd hkr hk
            | abstr => exact (HasA_NoA_false ⟨rule, hget, hattr⟩ (hs.abstr r hkr).1).elim
          refine ⟨?_, by simp⟩
          exact ⟨fun x hx => List.mem_cons_of_mem _ hx, sound_upd_common hs ⟨rule, hget, hattr⟩,
            le_upd _ hm, fun _ => rfl, (fun h => by cases h),
            (fun h => by cases h), fun _ => Or.inr ⟨r, hr, hm, by simp [upd]⟩⟩
      | false =>
        simp only [Bool.false_eq_true, if_false]
        have hrefs : ∀ s ∈ rule.body.refs, s < g.length := fun s h => hwf.ref_lt hget h
        have hs0 : Sound g ({ st with visited := r :: st.visited } : St).kinds := hs
        have hb := hasNM_post g f (determine g f) ih rule.body
          { st with visited := r :: st.visited } hrefs hs0 hu0
        rcases hres : hasNM (determine g f) rule.body { st with visited := r :: st.visited } with ⟨st1, ab⟩
        rw [hres] at hb
        simp only
        have hr1 : r ∈ st1.visited := hb.1.vis r (by simp)
        by_cases hcond : (ab && st1.kinds r != .abstr) = true
        · simp only [hcond, if_true]
          simp only [Bool.and_eq_true, bne_iff_ne, ne_eq] at hcond
          obtain ⟨hab, hna⟩ := hcond
          obtain ⟨s, hs1, hs2⟩ := hb.2.1 hab
          have hnm : NonMatch g r := NonMatch.ref hget hs1 (hb.1.sound.nonmatch hs2)
          have hm1 : st1.kinds r = .mtch := by
            cases hkr : st1.kinds r with
            | mtch => rfl
            | abstr => exact absurd hkr hna
            | common => exact (HasA_NoA_false (hb.1.sound.common r hkr) ⟨rule, hget, hattr⟩).elim
          have hm0 : st.kinds r = .mtch := by
            apply Classical.byContradiction
            intro h
            have := hb.1.le r h
            rw [hm1] at this
            exact h this.symm
          have hstep : Post g st1 { st1 with kinds := upd st1.kinds r .abstr, change := true } := by
            exact ⟨fun x hx => hx, sound_upd_abstr hb.1.sound ⟨rule, hget, hattr⟩ hnm,
              le_upd _ hm1, fun _ => rfl, (fun h => by cases h),
              (fun h => by cases h), fun _ => Or.inr ⟨r, hr, hm1, by simp [upd]⟩⟩
          exact ⟨Post.push (hb.1.trans hstep) (fun h => by cases h), hr1⟩
        · simp only [hcond, Bool.false_eq_true, if_false]
          refine ⟨Post.push hb.1 ?_, hr1⟩
          intro hc rule' hr'
          rw [hget] at hr'; cases hr'
          refine ⟨(fun h => by rw [hattr] at h; cases h), ?_⟩
          intro _ ⟨s, hs1, hs2⟩
          cases hab : ab with
          | false =>
            have := hb.2.2 hab hc s hs1
            exact absurd this hs2
          | true =>
            rw [hab] at hcond
            simp only [Bool.true_and, bne_iff_ne, ne_eq, Decidable.not_not] at hcond
            exact hcond

/-! ### one pass, all passes -/

theorem fold_post (g : Gram) (hwf : WF g) :
    ∀ (l : List Nat) (st : St), (∀ r ∈ l, r < g.length) → Sound g st.kinds →
      Post g st (l.foldl (fun st r => determine g (g.length + 1) r st) st) ∧
      ∀ r ∈ l, r ∈ (l.foldl (fun st r => determine g (g.length + 1) r st) st).visited
  | [], st, _, hs => ⟨Post.refl hs, fun r h => by cases h⟩
  | a :: l, st, hl, hs => by
    simp only [List.foldl_cons]
    have hu : unv g.length st.visited ≤ g.length + 1 := Nat.le_trans (unv_le _ _) (Nat.le_succ _)
    have ha := determine_ok g hwf (g.length + 1) a st (hl a (by simp)) hs hu
    have hrest := fold_post g hwf l (determine g (g.length + 1) a st)
      (fun r h => hl r (by simp [h])) ha.1.sound
    refine ⟨ha.1.trans hrest.1, ?_⟩
    intro r hr
    rcases List.mem_cons.mp hr with h | h
    · subst h; exact hrest.1.vis _ ha.2
    · exact hrest.2 r h

theorem onePass_post (g : Gram) (hwf : WF g) (k : Kinds) (hs : Sound g k) :
    Post g ⟨k, [], false⟩ (onePass g k) ∧ ∀ r, r < g.length → r ∈ (onePass g k).visited := by
  have := fold_post g hwf (List.range g.length) ⟨k, [], false⟩ (fun r h => List.mem_range.mp h) hs
  exact ⟨this.1, fun r hr => this.2 r (List.mem_range.mpr hr)⟩

/-- rules `< n` that are still match rules -/
def nMatch (n : Nat) (k : Kinds) : Nat := ((List.range n).filter (fun x => decide (k x = .mtch))).length

theorem passes_ok (g : Gram) (hwf : WF g) :
    ∀ (p : Nat) (k : Kinds), Sound g k → nMatch g.length k < p →
      (passes g p k).2 = true ∧ Sound g (passes g p k).1 ∧ ∀ c, c < g.length → Closed g (passes g p k).1 c
  | 0, k, _, h => by omega
  | p + 1, k, hs, hm => by
    have hp := onePass_post g hwf k hs
    simp only [passes]
    cases hc : (onePass g k).change with
    | true =>
      simp only [if_true]
      apply passes_ok g hwf p _ hp.1.sound
      rcases hp.1.strict hc with h | ⟨r, hr, hm1, hm2⟩
      · cases h
      · have : nMatch g.length (onePass g k).kinds < nMatch g.length k := by
          unfold nMatch
          apply filter_len_lt _ _ _ _ r (List.mem_range.mpr hr)
          · simpa using hm1
          · simpa using hm2
          · intro x _ hx
            simp only [decide_eq_true_eq] at hx ⊢
            apply Classical.byContradiction
            intro hne
            have := hp.1.le x hne
            rw [hx] at this
            exact hne this.symm
        omega
    | false =>
      simp only [Bool.false_eq_true, if_false]
      refine ⟨trivial, hp.1.sound, ?_⟩
      intro c hcl
      exact hp.1.closed hc c (hp.2 c hcl) (by simp)

theorem nMatch_le (n : Nat) (k : Kinds) : nMatch n k ≤ n := by
  unfold nMatch
  have := List.length_filter_le (fun x => decide (k x = .mtch)) (List.range n)
  simpa using this

/-- sound and closed kinds are exactly the specified ones -/
theorem kindSpec_of_sound_closed (g : Gram) (k : Kinds) (hs : Sound g k)
    (hc : ∀ c, c < g.length → Closed g k c) : KindSpec g k := by
  have hnm : ∀ r, NonMatch g r → k r ≠ .mtch := by
    intro r h
    induction h with
    | attrs hr ha =>
      rw [(hc _ (lt_of_getElem? hr) _ hr).1 ha]; simp
    | @ref r rule s hr hs' _ ih =>
      cases hattr : rule.hasAttrs with
      | true => rw [(hc _ (lt_of_getElem? hr) _ hr).1 hattr]; simp
      | false => rw [(hc _ (lt_of_getElem? hr) _ hr).2 hattr ⟨s, hs', ih⟩]; simp
  intro r
  refine ⟨⟨hs.common r, ?_⟩, ⟨hs.abstr r, ?_⟩, ⟨?_, ?_⟩⟩
  · intro ⟨rule, hr, ha⟩
    exact (hc _ (lt_of_getElem? hr) _ hr).1 ha
  · intro ⟨hno, hn⟩
    have h1 := hnm r hn
    cases hk : k r with
    | mtch => exact absurd hk h1
    | abstr => rfl
    | common => exact (HasA_NoA_false (hs.common r hk) hno).elim
  · intro hk hn
    exact hnm r hn hk
  · intro hn
    apply Classical.byContradiction
    intro hk
    exact hn (hs.nonmatch hk)

theorem determineAll_spec (g : Gram) (hwf : WF g) :
    (determineAll g).2 = true ∧ KindSpec g (kindsOf g) := by
  have h := passes_ok g hwf (g.length + 1) initKinds (Sound.init g)
    (Nat.lt_succ_of_le (nMatch_le _ _))
  exact ⟨h.1, kindSpec_of_sound_closed g _ h.2.1 h.2.2⟩

end RuleTypes
