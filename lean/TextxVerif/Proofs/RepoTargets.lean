import TextxVerif.Proofs.RepoHistory
/-!
Reference targets along a history (C17 "every reference to an element of a file points to the single
instance of that element"): the recorded targets of a model are never touched by a later load, and in
every state a history reaches, every target of every cached model is an element of the model itself or
of the unique instance of a file in the repository.
-/
namespace Repo

/-! ## no load touches the targets of an existing model -/

def ParseTgt (parse : Parse) : Prop := ∀ st g, (parse st g).1.tgt = st.tgt

theorem registerSelf_tgt (st : St) (i : Inst) : (st.registerSelf i).tgt = st.tgt := by
  unfold St.registerSelf; split <;> rfl

theorem removeFromRepos_tgt (st : St) (ms rm : List Inst) : (removeFromRepos st ms rm).tgt = st.tgt := by
  unfold removeFromRepos; split <;> rfl

theorem cleanupA_tgt (st : St) (j : Inst) : (cleanupA st j).tgt = st.tgt := removeFromRepos_tgt _ _ _

theorem removeNew_tgt (glob : Bool) (st : St) (before : List Inst) : (removeNew glob st before).tgt = st.tgt := by
  unfold removeNew; split <;> rfl

theorem base_tgt (S : Spec) (st : St) : (base S st).tgt = st.tgt := by
  unfold base; split <;> rfl

theorem mainStart_tgt (S : Spec) (b : St) (f : File) : (mainStart S b f).tgt = b.tgt := by
  unfold mainStart
  cases S.glob <;> rfl

theorem loadModelWith_tgt {parse : Parse} (hp : ParseTgt parse) (st : St) (i : Inst) (g : File) :
    (loadModelWith parse st i g).1.tgt = st.tgt := by
  unfold loadModelWith
  split
  · rfl
  · split
    · rfl
    · have := hp st g
      cases hpe : parse st g with
      | mk st' rj =>
        obtain ⟨r', j⟩ := rj
        rw [hpe] at this
        cases r' with
        | ok => exact this
        | fail k => exact this
        | fuel => exact this

theorem loadCalls_tgt {parse : Parse} (hp : ParseTgt parse) (i : Inst) :
    ∀ (cs : List (Option File)) (st : St), (loadCalls parse i st cs).1.tgt = st.tgt := by
  intro cs
  induction cs with
  | nil => intro st; rfl
  | cons c cs ih =>
    intro st
    simp only [loadCalls]
    cases c with
    | none => exact registerSelf_tgt _ _
    | some g =>
      simp only
      have h1 := loadModelWith_tgt hp (st.registerSelf i) i g
      cases hl : loadModelWith parse (st.registerSelf i) i g with
      | mk st2 r2 =>
        rw [hl] at h1
        cases r2 with
        | ok => exact (ih st2).trans (h1.trans (registerSelf_tgt _ _))
        | fail k => exact h1.trans (registerSelf_tgt _ _)
        | fuel => exact h1.trans (registerSelf_tgt _ _)

theorem internal_tgt (S : Spec) : ∀ fuel, ParseTgt (internal S fuel)
  | 0 => fun st _ => by simp only [internal]
  | fuel + 1 => by
    intro st g
    rw [internal_unfold]
    split
    · rfl
    · have h1 := loadCalls_tgt (internal_tgt S fuel) st.next (S.calls g) (afterCallback S st g)
      have h0 : (afterCallback S st g).tgt = st.tgt := rfl
      cases hl : loadCalls (internal S fuel) st.next (afterCallback S st g) (S.calls g) with
      | mk st2 r2 =>
        rw [hl] at h1
        cases r2 with
        | ok => simp only; split <;> exact h1.trans h0
        | fuel => exact h1.trans h0
        | fail k => exact (cleanupA_tgt _ _).trans (h1.trans h0)

theorem finishMain_tgt_old (S : Spec) {b : St} (f : File) {st1 : St} (hI : Inv b.all b.next b.loc st1)
    (i : Inst) (hi : i < b.next) : (finishMain S b f st1).1.tgt i = st1.tgt i := by
  have hnm : ((included st1 b.next).filter st1.constr).contains i = false := by
    cases hc : ((included st1 b.next).filter st1.constr).contains i
    · rfl
    · have := constr_included_ge hI _ (Nat.le_refl _) i (by simpa using hc)
      exact absurd hi (Nat.not_lt.2 this)
  have e2 : ((st1.setTargets S ((included st1 b.next).filter st1.constr)).endConstruction
      ((included st1 b.next).filter st1.constr)).tgt i = st1.tgt i := by
    simp only [St.endConstruction, St.setTargets, hnm]
    rfl
  unfold finishMain
  simp only
  split
  · rw [cleanupA_tgt, removeFromRepos_tgt]
  · split
    · rw [cleanupA_tgt, removeFromRepos_tgt]; exact e2
    · split
      · rw [removeNew_tgt]; exact e2
      · exact e2

/-- whatever the outcome, a main load leaves the targets of every model that existed before as they were -/
theorem loadMain_tgt_old (S : Spec) (fuel : Nat) (st0 : St) (f : File) (hwf : WF (base S st0))
    (i : Inst) (hi : i < st0.next) : (loadMain S fuel st0 f).1.tgt i = st0.tgt i := by
  have hB := hwf.baseOK
  have hi' : i < (base S st0).next := by rw [base_next]; exact hi
  rw [loadMain_unfold]
  split
  · split
    · rw [removeNew_tgt, base_tgt]
    · exact congrFun (base_tgt S st0) i
  · rename_i hnc
    split
    · exact congrFun (base_tgt S st0) i
    · have hf : S.glob = true → f ∉ (base S st0).all.keys := fun hg => by
        have : (base S st0).all.has f = false := by
          cases hh : (base S st0).all.has f
          · rfl
          · rw [hg, hh] at hnc; simp at hnc
        exact (Dict.has_false_iff _ _).1 this
      obtain ⟨hIa, hGa, _, hlt, hca, _, _, _⟩ := mainStart_facts S hwf f hf
      have ht := loadCalls_tgt (internal_tgt S fuel) (base S st0).next (S.calls f) (mainStart S (base S st0) f)
      cases hl : loadCalls (internal S fuel) (base S st0).next (mainStart S (base S st0) f) (S.calls f) with
      | mk st1 r1 =>
        rw [hl] at ht
        have ht' : st1.tgt = st0.tgt := by rw [ht, mainStart_tgt, base_tgt]
        obtain ⟨hI1, _⟩ := loadCalls_safe (internal_safe hB S fuel) _ (Nat.le_refl _) (S.calls f) _ st1 r1
          hIa hGa hlt hca hl
        cases r1 with
        | fuel => simp only; rw [ht']
        | fail k' => simp only; rw [cleanupA_tgt, ht']
        | ok => simp only; rw [finishMain_tgt_old S f hI1 i hi', ht']

theorem loadStr_tgt_old (S : Spec) (fuel : Nat) (st0 : St) (a : File) (hwf : WF (base S st0))
    (ha : a ∉ (base S st0).all.keys) (i : Inst) (hi : i < st0.next) :
    (loadStr S fuel st0 a).1.tgt i = st0.tgt i := by
  cases hc : S.calls a with
  | cons c cs =>
    rw [loadStr_eq_loadMain S fuel st0 a ha (Or.inr (by rw [hc]; exact List.cons_ne_nil _ _))]
    exact loadMain_tgt_old S fuel st0 a hwf i hi
  | nil =>
    rw [loadStr_nocalls S fuel st0 a hc]
    split
    · exact congrFun (base_tgt S st0) i
    · obtain ⟨hI, _, _, _, _, _⟩ := strStart_facts S hwf a
      rw [finishMain_tgt_old S a hI i (by rw [base_next]; exact hi)]
      exact congrFun (base_tgt S st0) i

/-! ## every target of every cached model is an element of the single instance of a file -/

/-- every recorded element target of every model in the dict is an element (`n ∈ defsOf x`) of the model
itself or of a model that is the dict's entry for its file -/
def TgtOK (st : St) : Prop :=
  ∀ e ∈ st.all, ∀ x n, Target.elem x n ∈ st.tgt e.2 →
    (x = e.2 ∨ (st.fileOf x, x) ∈ st.all) ∧ (st.defsOf x).contains n = true

theorem TgtOK.init : TgtOK St.init := by intro e he; simp [St.init] at he

theorem tgtOK_base_noGlob (S : Spec) (st : St) (hg : S.glob = false) : TgtOK (base S st) := by
  unfold base
  rw [hg]
  intro e he
  simp at he

theorem LoadOK.tgtOK {S : Spec} {b : St} {f : File} {st' : St} {j : Inst} (hok : LoadOK S b f st' j)
    (hwf : WF b) (hT : TgtOK b) (hold : ∀ i, i < b.next → st'.tgt i = b.tgt i) : TgtOK st' := by
  obtain ⟨N, hN, _⟩ := hok.invW.split
  have hsub : ∀ e ∈ b.all, e ∈ st'.all := fun e he => by rw [hN]; exact List.mem_append_left _ he
  intro e he x n ht
  rcases Nat.lt_or_ge e.2 b.next with hlt | hge
  · have heB := hok.invW.mem_B_of_lt e he hlt
    rw [hold e.2 hlt] at ht
    obtain ⟨h1, h2⟩ := hT e heB x n ht
    have hx : x < b.next := by
      rcases h1 with h1 | h1
      · rw [h1]; exact hlt
      · exact hwf.lt _ h1
    refine ⟨?_, by rw [hok.stable.defsOf x hx]; exact h2⟩
    rcases h1 with h1 | h1
    · exact Or.inl h1
    · right
      rw [hok.stable.fileOf x hx]
      exact hsub _ h1
  · have hm : e.2 ∈ included st' j := mem_included_of_mem_all j e he
    have htm := hok.tgt e.2 hge hm
    have : some (Target.elem x n) ∈ resolveAll S st' e.2 := by
      rw [← htm]; exact List.mem_map_of_mem ht
    unfold resolveAll at this
    obtain ⟨n', _, hn'⟩ := List.mem_map.1 this
    obtain ⟨_, hx, hd⟩ := lookup_elem S st' e.2 n' x n hn'
    refine ⟨?_, ?_⟩
    · rcases hx with hx | ⟨e', he', hex⟩
      · exact Or.inl hx
      · have hin := hok.locSub e.2 hm e' he'
        have hf := hok.wf.file e' hin
        right
        rw [← hex, hf]
        exact hin
    · have hk := (lookup_elem S st' e.2 n' x n hn').1
      rw [hk]; exact hd

theorem tgtOK_of_fail {st0 st' : St} (hwf : WF st0) (hT : TgtOK st0) (hall : st'.all = st0.all)
    (hS : Stable st0 st') (hold : ∀ i, i < st0.next → st'.tgt i = st0.tgt i) : TgtOK st' := by
  intro e he x n ht
  rw [hall] at he
  have hlt := hwf.lt e he
  rw [hold e.2 hlt] at ht
  obtain ⟨h1, h2⟩ := hT e he x n ht
  have hx : x < st0.next := by
    rcases h1 with h1 | h1
    · rw [h1]; exact hlt
    · exact hwf.lt _ h1
  refine ⟨?_, by rw [hS.defsOf x hx]; exact h2⟩
  rcases h1 with h1 | h1
  · exact Or.inl h1
  · right
    rw [hS.fileOf x hx, hall]
    exact h1

theorem loadMain_tgtOK (S : Spec) (fuel : Nat) (st : St) (f : File) (hg : S.glob = true) (hwf : WF st)
    (hT : TgtOK st) (hnf : (loadMain S fuel st f).2.1 ≠ .fuel) : TgtOK (loadMain S fuel st f).1 := by
  have hb := base_of_glob S st hg
  have hold := loadMain_tgt_old S fuel st f (hwf.base S)
  cases hl : loadMain S fuel st f with
  | mk st' rj =>
    obtain ⟨r, j⟩ := rj
    rw [hl] at hnf hold
    cases r with
    | ok =>
      have hok := (loadMain_ok S fuel st f (hwf.base S) hl).toLoad
      rw [hb] at hok
      exact hok.tgtOK hwf hT hold
    | fail k =>
      obtain ⟨hI, hall, hS⟩ := loadMain_fail S fuel st f (hwf.base S) hl
      rw [hb] at hall hS
      exact tgtOK_of_fail hwf hT (hall hg) hS hold
    | fuel => exact absurd rfl hnf

theorem loadStr_tgtOK (S : Spec) (fuel : Nat) (st : St) (a : File) (hg : S.glob = true) (hwf : WF st)
    (hT : TgtOK st) (ha : a ∉ (base S st).all.keys) (hnf : (loadStr S fuel st a).2.1 ≠ .fuel) :
    TgtOK (loadStr S fuel st a).1 := by
  have hb := base_of_glob S st hg
  have hold := loadStr_tgt_old S fuel st a (hwf.base S) ha
  cases hl : loadStr S fuel st a with
  | mk st' rj =>
    obtain ⟨r, j⟩ := rj
    rw [hl] at hnf hold
    cases r with
    | ok =>
      have hok := loadStr_ok S fuel st a (hwf.base S) ha hl
      rw [hb] at hok
      exact hok.tgtOK hwf hT hold
    | fail k =>
      obtain ⟨hI, hall, hS⟩ := loadStr_fail S fuel st a (hwf.base S) ha hl
      rw [hb] at hall hS
      exact tgtOK_of_fail hwf hT (hall hg) hS hold
    | fuel => exact absurd rfl hnf

theorem preload_tgtOK (S : Spec) (hg : S.glob = true) (fuel : Nat) :
    ∀ (calls : List (Option File)) (st : St), WF st → TgtOK st → (Repo.preload S fuel st calls).2 ≠ .fuel →
      TgtOK (Repo.preload S fuel st calls).1 := by
  intro calls
  induction calls with
  | nil => intro st _ hT _; exact hT
  | cons c cs ih =>
    intro st hwf hT hnf
    cases c with
    | none => exact hT
    | some g =>
      cases hhas : st.all.has g with
      | true =>
        rw [preload_cons_cached S fuel st g cs hhas] at hnf ⊢
        exact ih st hwf hT hnf
      | false =>
        cases hl : loadMain S fuel st g with
        | mk st1 rj =>
          obtain ⟨r1, j1⟩ := rj
          have hnf1 : (loadMain S fuel st g).2.1 ≠ .fuel := by
            intro h
            apply hnf
            rw [hl] at h
            simp only at h
            subst h
            simp [Repo.preload, hhas, hl]
          have hT1 := loadMain_tgtOK S fuel st g hg hwf hT hnf1
          have hw1 := loadMain_wf S fuel st g hg hwf hnf1
          rw [hl] at hT1 hw1
          cases r1 with
          | ok =>
            rw [preload_cons_ok S fuel st st1 g j1 cs hhas hl] at hnf ⊢
            exact ih st1 hw1 hT1 hnf
          | fail k =>
            have : Repo.preload S fuel st (some g :: cs) = (st1, .fail k) := by simp [Repo.preload, hhas, hl]
            rw [this]; exact hT1
          | fuel => exact absurd (by rw [hl]) hnf1

/-- one step of a history keeps the targets of all cached models valid -/
theorem Op.run_tgtOK (S : Spec) (fuel : Nat) (st : St) (op : Op) (hwf : WF (base S st)) (hT : TgtOK (base S st))
    (hnf : (op.run S fuel st).2.1 ≠ .fuel) :
    ∀ T : Spec, T.glob = S.glob → TgtOK (base T (op.run S fuel st).1) := by
  intro T hT'
  cases hg : S.glob with
  | false => exact tgtOK_base_noGlob T _ (by rw [hT', hg])
  | true =>
    rw [base_of_glob T _ (by rw [hT', hg])]
    have hb := base_of_glob S st hg
    rw [hb] at hwf hT
    cases op with
    | file f => exact loadMain_tgtOK S fuel st f hg hwf hT hnf
    | str a0 =>
      exact loadStr_tgtOK S fuel st _ hg hwf hT (by rw [base_all_eq]; exact anonKey_fresh a0 _) hnf
    | preload calls =>
      have hnf' : (Repo.preload { S with glob := true } fuel (base S st) calls).2 ≠ .fuel := hnf
      show TgtOK (Repo.preload { S with glob := true } fuel (base S st) calls).1
      rw [hb] at hnf' ⊢
      exact preload_tgtOK _ rfl fuel calls st hwf hT hnf'

theorem runOps_tgtOK (g : Bool) : ∀ (ops : List (Spec × Nat × Op)) (st : St),
    (∀ T : Spec, T.glob = g → WF (base T st) ∧ TgtOK (base T st)) → HistOK g ops st →
    ∀ T : Spec, T.glob = g → TgtOK (base T (runOps ops st))
  | [], _, h, _ => fun T hT => (h T hT).2
  | (S, fuel, op) :: rest, st, h, hh => by
    obtain ⟨hg, hnf, hr⟩ := hh
    exact runOps_tgtOK g rest _ (fun T hT =>
      ⟨Op.run_wf S fuel st op (h S hg).1 hnf T (by rw [hT, hg]),
       Op.run_tgtOK S fuel st op (h S hg).1 (h S hg).2 hnf T (by rw [hT, hg])⟩) hr

end Repo
