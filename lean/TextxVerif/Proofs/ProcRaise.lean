import TextxVerif.ProcRaise
import TextxVerif.Proofs.ProcWalk
import TextxVerif.Proofs.LinkLoc
/-! Helper lemmas for `Proc.walkE` / `Proc.siteOf` (C33 tied to the walk and to text offsets). -/
namespace Proc

/-! ### `cut` -/

theorem cut_append (R : Raises) (l1 l2 : List Entry) :
    cut R (l1 ++ l2) =
      match cut R l1 with
      | some f => some f
      | none =>
        match cut R l2 with
        | some f => some ⟨l1 ++ f.log, f.call⟩
        | none => none := by
  induction l1 with
  | nil => simp only [List.nil_append, cut]; cases cut R l2 <;> rfl
  | cons e es ih =>
    simp only [List.cons_append, cut]
    by_cases hr : R e.rule e.id = true
    · simp [hr]
    · simp only [hr, Bool.false_eq_true, if_false]
      rw [ih]
      cases h1 : cut R es with
      | some f => simp
      | none =>
        cases h2 : cut R l2 with
        | some f => simp
        | none => simp

theorem cut_none_iff (R : Raises) (l : List Entry) : cut R l = none ↔ ∀ e ∈ l, R e.rule e.id = false := by
  induction l with
  | nil => simp [cut]
  | cons e es ih =>
    simp only [cut, List.mem_cons, forall_eq_or_imp]
    by_cases hr : R e.rule e.id = true
    · simp [hr]
    · simp only [hr, Bool.false_eq_true, if_false]
      have hr' : R e.rule e.id = false := by simpa using hr
      cases h1 : cut R es with
      | some f =>
        simp only [reduceCtorEq, false_iff, not_and]
        intro _ hall
        rw [ih.2 hall] at h1
        cases h1
      | none =>
        simp only [true_iff]
        exact ⟨by first | exact hr' | trivial, ih.1 h1⟩

theorem cut_some (R : Raises) (l : List Entry) (f : Fail) (h : cut R l = some f) :
    ∃ post, l = f.log ++ f.call :: post ∧ (∀ e ∈ f.log, R e.rule e.id = false) ∧
      R f.call.rule f.call.id = true := by
  induction l generalizing f with
  | nil => simp [cut] at h
  | cons e es ih =>
    simp only [cut] at h
    by_cases hr : R e.rule e.id = true
    · simp only [hr, if_true, Option.some.injEq] at h
      subst h
      exact ⟨es, by simp, by simp, hr⟩
    · simp only [hr, Bool.false_eq_true, if_false] at h
      have hr' : R e.rule e.id = false := by simpa using hr
      cases h1 : cut R es with
      | none => rw [h1] at h; simp at h
      | some g =>
        rw [h1] at h
        simp only [Option.some.injEq] at h
        subst h
        obtain ⟨post, h2, h3, h4⟩ := ih g h1
        refine ⟨post, ?_, ?_, h4⟩
        · simp only [List.cons_append]; rw [← h2]
        · intro x hx
          rcases List.mem_cons.1 hx with rfl | hx
          · exact hr'
          · exact h3 x hx

/-- the first element satisfying `P` of a list is unique (and so is the prefix before it) -/
theorem first_true_unique {α : Type} (P : α → Bool) : ∀ (a b p p' : List α) (x y : α),
    (∀ k ∈ a, P k = false) → (∀ k ∈ b, P k = false) → P x = true → P y = true →
    a ++ x :: p = b ++ y :: p' → x = y ∧ a = b
  | [], [], p, p', x, y, _, _, _, _, h => by
      simp only [List.nil_append, List.cons.injEq] at h
      exact ⟨h.1, rfl⟩
  | [], w :: ws, p, p', x, y, _, hb, hx, _, h => by
      simp only [List.nil_append, List.cons_append, List.cons.injEq] at h
      have := hb w (by simp)
      rw [← h.1, hx] at this
      exact absurd this (by simp)
  | z :: zs, [], p, p', x, y, ha, _, _, hy, h => by
      simp only [List.nil_append, List.cons_append, List.cons.injEq] at h
      have := ha z (by simp)
      rw [h.1, hy] at this
      exact absurd this (by simp)
  | z :: zs, w :: ws, p, p', x, y, ha, hb, hx, hy, h => by
      simp only [List.cons_append, List.cons.injEq] at h
      have := first_true_unique P zs ws p p' x y (fun k hk => ha k (by simp [hk]))
        (fun k hk => hb k (by simp [hk])) hx hy h.2
      exact ⟨this.1, by rw [h.1, this.2]⟩

/-! ### lifting a finished walk to the walk with raising calls -/

/-- the result of an exception-free walk step, seen through `R` -/
def liftE {α : Type} (R : Raises) (x : List Entry × α) : Except Fail (List Entry × α) :=
  match cut R x.1 with
  | some f => .error f
  | none => .ok x

def liftRes (R : Raises) (r : Res) : Except Fail Res :=
  match cut R r.log with
  | some f => .error f
  | none => .ok r

theorem cut_singleton (R : Raises) (e : Entry) :
    cut R [e] = if R e.rule e.id then some ⟨[], e⟩ else none := by
  simp [cut]

theorem objStepE_lift (M : MM) (S : Script) (R : Raises) (id cls : Nat) (fs : Fields) (gm : Nat)
    (r : List Entry × Fields) :
    objStepE M S R id cls fs gm (liftE R r) = liftRes R (objStep M S id cls fs gm r) := by
  unfold objStepE liftRes objStep
  by_cases hk : M.kind gm = .mtch
  · simp [hk, cut]
  · simp only [hk, if_false]
    rw [cut_append]
    unfold liftE
    cases h1 : cut R r.1 with
    | some f => simp
    | none =>
      simp only
      rw [cut_append]
      cases hown : (decide (cls ≠ gm) && M.hasProc cls) <;> cases hg : M.hasProc gm <;>
        cases hR1 : R cls id <;> cases hR2 : R gm id <;>
        simp [cut, hR1, hR2]

mutual
theorem walkFieldsE_lift (M : MM) (S : Script) (R : Raises) : ∀ (fs : Fields),
    walkFieldsE M S R fs = liftE R (walkFields M S fs)
  | .nil => by simp [walkFieldsE, walkFields, liftE, cut]
  | .cons a v rest => by
      rw [walkFieldsE, walkFields, walkFieldsE_lift M S R rest]
      have hslot : (if a.cont then walkSlotE M S R a.many a.cls v else .ok ([], v)) =
          liftE R (if a.cont then walkSlot M S a.many a.cls v else ([], v)) := by
        by_cases hc : a.cont = true
        · simp only [hc, if_true]; exact walkSlotE_lift M S R a.many a.cls v
        · simp [hc, liftE, cut]
      rw [hslot]
      generalize (if a.cont then walkSlot M S a.many a.cls v else ([], v)) = s
      generalize walkFields M S rest = t
      unfold liftE
      simp only
      rw [cut_append]
      cases h1 : cut R s.1 with
      | some f => simp
      | none =>
        cases h2 : cut R t.1 with
        | some f => simp
        | none => simp
theorem walkSlotE_lift (M : MM) (S : Script) (R : Raises) (many : Bool) (gm : Nat) : ∀ (v : Val),
    walkSlotE M S R many gm v = liftE R (walkSlot M S many gm v)
  | .none => by simp [walkSlotE, walkSlot, liftE, cut]
  | .prim _ => by simp [walkSlotE, walkSlot, liftE, cut]
  | .list xs => by
      rw [walkSlotE, walkSlot]
      cases many
      · simp [liftE, cut]
      · simp only [if_true]
        rw [walkItemsE_lift M S R gm xs]
        generalize walkItems M S gm xs = t
        unfold liftE
        simp only
        cases h1 : cut R t.1 with
        | some f => simp
        | none => simp
  | .obj id cls fs => by
      rw [walkSlotE, walkSlot]
      cases many
      · simp only [Bool.false_eq_true, if_false]
        rw [walkFieldsE_lift M S R fs, objStepE_lift]
        generalize objStep M S id cls fs gm (walkFields M S fs) = t
        unfold liftRes liftE
        simp only
        cases h1 : cut R t.log with
        | some f => simp
        | none => simp
      · simp [liftE, cut]
theorem walkItemsE_lift (M : MM) (S : Script) (R : Raises) (gm : Nat) : ∀ (xs : Vals),
    walkItemsE M S R gm xs = liftE R (walkItems M S gm xs)
  | .nil => by simp [walkItemsE, walkItems, liftE, cut]
  | .cons x xs => by
      rw [walkItemsE, walkItems, walkItemsE_lift M S R gm xs, walkSlotE_lift M S R false gm x]
      generalize walkSlot M S false gm x = s
      generalize walkItems M S gm xs = t
      unfold liftE
      simp only
      rw [cut_append]
      cases h1 : cut R s.1 with
      | some f => simp
      | none =>
        cases h2 : cut R t.1 with
        | some f => simp
        | none => simp
end

/-- **Simulation.** The walk with raising processors is the exception-free walk cut at
its first raising call. -/
theorem walkE_eq (M : MM) (S : Script) (R : Raises) (v : Val) (gm : Nat) :
    walkE M S R v gm = liftRes R (walk M S v gm) := by
  cases v with
  | obj id cls fs =>
    simp only [walkE, walk]
    rw [walkFieldsE_lift, objStepE_lift]
  | none => simp [walkE, walk, liftRes, cut]
  | prim t => simp [walkE, walk, liftRes, cut]
  | list xs => simp [walkE, walk, liftRes, cut]

theorem walkE_error (M : MM) (S : Script) (R : Raises) (v : Val) (gm : Nat) (f : Fail)
    (h : walkE M S R v gm = .error f) : cut R (walk M S v gm).log = some f := by
  rw [walkE_eq] at h
  unfold liftRes at h
  cases h1 : cut R (walk M S v gm).log with
  | some g => rw [h1] at h; simp only [Except.error.injEq] at h; rw [h]
  | none => rw [h1] at h; simp at h

theorem walkE_ok (M : MM) (S : Script) (R : Raises) (v : Val) (gm : Nat) (r : Res)
    (h : walkE M S R v gm = .ok r) : cut R (walk M S v gm).log = none ∧ r = walk M S v gm := by
  rw [walkE_eq] at h
  unfold liftRes at h
  cases h1 : cut R (walk M S v gm).log with
  | some g => rw [h1] at h; simp at h
  | none => rw [h1] at h; simp only [Except.ok.injEq] at h; exact ⟨rfl, h.symm⟩

/-- every processor call is made on an object of the value -/
theorem walk_ids (M : MM) (S : Script) (v : Val) (gm : Nat) (e : Entry) (he : e ∈ (walk M S v gm).log) :
    e.id ∈ oids v := by
  have := walkSlot_ids M S false gm v e (by rw [walkSlot_false]; exact he)
  exact this

/-! ### `loadE` -/

theorem loadE_error (S : Script) (R : Raises) : ∀ (ms : List (MM × Val)) (k : Nat) (f : Fail),
    loadE S R ms = .error (k, f) →
    ∃ mv, ms[k]? = some mv ∧ walkE mv.1 S R mv.2 mv.2.cls = .error f ∧
      ∀ j, j < k → ∃ mj r, ms[j]? = some mj ∧ walkE mj.1 S R mj.2 mj.2.cls = .ok r
  | [], k, f, h => by simp [loadE] at h
  | mv :: vs, k, f, h => by
      rw [loadE] at h
      cases h1 : walkE mv.1 S R mv.2 mv.2.cls with
      | error g =>
        rw [h1] at h
        simp only [Except.error.injEq, Prod.mk.injEq] at h
        obtain ⟨hk, hg⟩ := h
        subst hk; subst hg
        exact ⟨mv, by simp, h1, fun j hj => absurd hj (Nat.not_lt_zero j)⟩
      | ok r =>
        rw [h1] at h
        simp only at h
        cases h2 : loadE S R vs with
        | ok rs => rw [h2] at h; simp at h
        | error kf =>
          rw [h2] at h
          simp only [Except.error.injEq, Prod.mk.injEq] at h
          obtain ⟨hk, hg⟩ := h
          obtain ⟨k', f'⟩ := kf
          simp only at hk hg
          subst hk; subst hg
          obtain ⟨mv', hm, hw, hprev⟩ := loadE_error S R vs k' f' h2
          refine ⟨mv', by simpa using hm, hw, ?_⟩
          intro j hj
          cases j with
          | zero => exact ⟨mv, r, by simp, h1⟩
          | succ j =>
            obtain ⟨mj, rj, h3, h4⟩ := hprev j (by omega)
            exact ⟨mj, rj, by simpa using h3, h4⟩

/-! ### `siteOf` -/

theorem siteOf_spec (file : Option Nat) (text : List Char) (pos posEnd : Nat) (h : pos ≤ text.length) :
    siteOf file text pos posEnd =
      ⟨file, (LinkLoc.lineColSpec text pos).1, (LinkLoc.lineColSpec text pos).2, posEnd - pos⟩ := by
  unfold siteOf
  rw [LinkLoc.posToLineCol_spec text pos h]
  simp

end Proc
