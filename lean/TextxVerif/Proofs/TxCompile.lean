import TextxVerif.Proofs.TxEmit
import TextxVerif.Proofs.TxCompileSpec
/-!
# Where the block of a sub-expression lies in the table `Tx.compile` produces

`Tx.compile` lays the rules out one after the other (`emitRules`), each rule as the
pre-order block of its body (`emit`), with the first node promoted to the rule's root
node or a wrapper `Sequence` put in front.  This file shows that for every rule of the
grammar and every proper sub-expression `e` of its body (`Sub`), and for the body itself
when the rule is wrapped, the table of the compiled parser model contains the block
`emit rootOf e` *unchanged* at the place its own numbering says — so that the simulation
theorem about emitted blocks (`Sim.sim` + `emit_repr`) speaks about what `compile` really
produces.
-/
namespace Tx.Sim
open Peg Tx

/-- `Sub e b`: `e` is a proper sub-expression of `b` -/
inductive Sub : Expr → Expr → Prop
  | seq {x : Expr} {xs : List Expr} {sup : Bool} : x ∈ xs → Sub x (.seq xs sup)
  | alt {x : Expr} {xs : List Expr} {sup : Bool} : x ∈ xs → Sub x (.alt xs sup)
  | unord {x : Expr} {xs : List Expr} {sep : Option Sep} {eol sup : Bool} : x ∈ xs → Sub x (.unord xs sep eol sup)
  | rep {op : RepOp} {x : Expr} {sep : Option Sep} {eol sup : Bool} : Sub x (.rep op x sep eol sup)
  | asgn {a : String} {op : AsgOp} {x : Expr} {sep : Option Sep} {eol sup : Bool} : Sub x (.asgn a op x sep eol sup)
  | pred {neg : Bool} {x : Expr} {sup : Bool} : Sub x (.pred neg x sup)
  | trans {a b c : Expr} : Sub a b → Sub b c → Sub a c

/-- the block of `e` lies inside `l`, which starts at table index `n`, behind at least `k` nodes -/
def Inside (rootOf : String → Nat) (e : Expr) (l : List CNode) (n k : Nat) : Prop :=
  ∃ pre post, l = pre ++ emit rootOf e (n + pre.length) ++ post ∧ k ≤ pre.length

theorem emitList_mem (rootOf : String → Nat) (x : Expr) : ∀ (xs : List Expr), x ∈ xs → ∀ n,
    Inside rootOf x (emitList rootOf xs n) n 0
  | [], h, _ => by simp at h
  | y :: ys, h, n => by
    rcases List.mem_cons.mp h with rfl | h
    · exact ⟨[], emitList rootOf ys (n + size x), by simp [emitList], Nat.le_refl _⟩
    · obtain ⟨pre, post, hl, _⟩ := emitList_mem rootOf x ys h (n + size y)
      refine ⟨emit rootOf y n ++ pre, post, ?_, Nat.zero_le _⟩
      simp only [emitList, hl, List.length_append, emit_length, List.append_assoc, Nat.add_assoc]

theorem Inside.cons {rootOf : String → Nat} {e : Expr} {l : List CNode} {n k : Nat} (c : CNode)
    (h : Inside rootOf e l (n+1) k) : Inside rootOf e (c :: l) n (k+1) := by
  obtain ⟨pre, post, hl, hk⟩ := h
  refine ⟨c :: pre, post, ?_, by simp; omega⟩
  simp only [hl, List.length_cons, List.cons_append]
  rw [show n + (pre.length + 1) = n + 1 + pre.length by omega]

theorem Inside.append_right {rootOf : String → Nat} {e : Expr} {l : List CNode} {n k : Nat} (t : List CNode)
    (h : Inside rootOf e l n k) : Inside rootOf e (l ++ t) n k := by
  obtain ⟨pre, post, hl, hk⟩ := h
  exact ⟨pre, post ++ t, by simp [hl], hk⟩

theorem Inside.self (rootOf : String → Nat) (e : Expr) (n : Nat) : Inside rootOf e (emit rootOf e n) n 0 :=
  ⟨[], [], by simp, Nat.le_refl _⟩

/-- the block of a proper sub-expression lies inside the block of the expression, behind its head node -/
theorem emit_sub (rootOf : String → Nat) {e b : Expr} (h : Sub e b) : ∀ n, Inside rootOf e (emit rootOf b n) n 1 := by
  induction h with
  | seq hm => intro n; simpa [emit] using (emitList_mem rootOf _ _ hm (n+1)).cons _
  | alt hm => intro n; simpa [emit] using (emitList_mem rootOf _ _ hm (n+1)).cons _
  | unord hm => intro n; simpa [emit] using ((emitList_mem rootOf _ _ hm (n+1)).append_right _).cons _
  | rep => intro n; simpa [emit] using ((Inside.self rootOf _ (n+1)).append_right _).cons _
  | asgn => intro n; simpa [emit] using ((Inside.self rootOf _ (n+1)).append_right _).cons _
  | pred => intro n; simpa [emit] using (Inside.self rootOf _ (n+1)).cons _
  | trans _ _ ih1 ih2 =>
    intro n
    obtain ⟨p2, q2, h2, hk2⟩ := ih2 n
    obtain ⟨p1, q1, h1, _⟩ := ih1 (n + p2.length)
    refine ⟨p2 ++ p1, q1 ++ q2, ?_, by simp; omega⟩
    rw [h2, h1]
    simp only [List.length_append, List.append_assoc, Nat.add_assoc]

theorem Sub.not_ref {e : Expr} {name : String} {sup : Bool} (h : Sub e (.ref name sup)) : False := by
  generalize hb : Expr.ref name sup = b at h
  induction h with
  | trans _ _ _ ih2 => exact ih2 hb
  | _ => cases hb

theorem promote_inside {rootOf : String → Nat} {e : Expr} {l : List CNode} {n : Nat} (r : Rule)
    (h : Inside rootOf e l n 1) : Inside rootOf e (promote r l) n 1 := by
  obtain ⟨pre, post, hl, hk⟩ := h
  cases pre with
  | nil => simp at hk
  | cons c pre =>
    have hp : ∀ (c : CNode) (t : List CNode), ∃ c', promote r (c :: t) = c' :: t := fun c t => ⟨_, rfl⟩
    obtain ⟨c', hc'⟩ := hp c (pre ++ emit rootOf e (n + (c :: pre).length) ++ post)
    refine ⟨c' :: pre, post, ?_, by simp⟩
    rw [hl]
    simpa using hc'

/-- where the rule `r` hands the expression `e` an unchanged block: a proper sub-expression of its body,
or the body itself below the wrapper `Sequence` -/
def InRule (e : Expr) (r : Rule) : Prop :=
  Sub e r.body ∨ (e = r.body ∧ r.wrapped = true ∧ r.aliasOf = none)

theorem emitRule_inside (rootOf : String → Nat) {e : Expr} {r : Rule} (h : InRule e r) (n : Nat) :
    Inside rootOf e (emitRule rootOf r n) n 1 := by
  unfold emitRule
  rcases h with h | ⟨rfl, hw, ha⟩
  · have ha : r.aliasOf = none := by
      unfold Rule.aliasOf
      split
      · rename_i name hb; rw [hb] at h; exact (Sub.not_ref h).elim
      · rfl
    simp only [ha, Option.isSome_none, Bool.false_eq_true, if_false]
    split
    · exact (((emit_sub rootOf h (n+1))).cons _).imp fun pre ⟨post, hl, hk⟩ => ⟨post, hl, by omega⟩
    · exact promote_inside r (emit_sub rootOf h n)
  · simp only [ha, Option.isSome_none, Bool.false_eq_true, if_false, hw, if_true]
    exact (Inside.self rootOf _ (n+1)).cons _

theorem emitRule_length (rootOf : String → Nat) (r : Rule) (n : Nat) : (emitRule rootOf r n).length = ruleSize r := by
  unfold emitRule ruleSize
  split
  · rfl
  · split
    · simp [emit_length]; omega
    · have : ∀ l : List CNode, (promote r l).length = l.length := by intro l; cases l <;> simp [promote]
      rw [this, emit_length]

theorem emitRules_inside (rootOf : String → Nat) {e : Expr} {r : Rule} (h : InRule e r) : ∀ (rs : List Rule), r ∈ rs →
    ∀ n, Inside rootOf e (emitRules rootOf rs n) n 0
  | [], hm, _ => by simp at hm
  | q :: qs, hm, n => by
    rcases List.mem_cons.mp hm with rfl | hm
    · obtain ⟨pre, post, hl, _⟩ := emitRule_inside rootOf h n
      exact ⟨pre, post ++ emitRules rootOf qs (n + ruleSize r), by simp [emitRules, hl], Nat.zero_le _⟩
    · obtain ⟨pre, post, hl, _⟩ := emitRules_inside rootOf h qs hm (n + ruleSize q)
      refine ⟨emitRule rootOf q n ++ pre, post, ?_, Nat.zero_le _⟩
      simp only [emitRules, hl, List.length_append, emitRule_length, List.append_assoc, Nat.add_assoc]

end Tx.Sim
