import TextxVerif.RrelSpec
/-!
Helper lemmas for C11: the atoms against their declarative description,
soundness of the CPS search, the closure argument for completeness.
-/
namespace Rrel

/-! ## atoms -/

/-- the triple a step of mode `m` yields for element `x` -/
def stepOf (m : Mode) (ns : List String) (x : Obj) : Obj × List String × Bool :=
  match m with
  | .tilde => (x, ns, false)
  | .fixed _ => (x, ns, true)
  | .consume => (x, ns.tail, true)

theorem cand_iff (H : Heap) (m : Mode) (ns : List String) (l : List Obj) (x : Obj)
    (ns' : List String) (b : Bool) :
    Cand H m ns l x ns' b ↔ x ∈ cands H m ns l ∧ (x, ns', b) = stepOf m ns x := by
  cases m with
  | tilde => simp [Cand, cands, stepOf]
  | fixed f => simp [Cand, cands, stepOf]; grind
  | consume =>
    cases ns with
    | nil => simp [Cand, cands, stepOf]
    | cons n rest => simp [Cand, cands, stepOf]; grind

theorem cands_nil_iff (H : Heap) (m : Mode) (ns : List String) (l : List Obj) :
    cands H m ns l = [] ↔ ∀ x ns' b, ¬ Cand H m ns l x ns' b := by
  constructor
  · intro h x ns' b hc
    have := ((cand_iff H m ns l x ns' b).1 hc).1
    simp [h] at this
  · intro h
    cases hc : cands H m ns l with
    | nil => rfl
    | cons x xs =>
      exfalso
      exact h x (stepOf m ns x).2.1 (stepOf m ns x).2.2
        ((cand_iff H m ns l x _ _).2 ⟨by simp [hc], by cases m <;> rfl⟩)

theorem navLookup_some (H : Heap) (a : String) (m : Mode) (ns : List String) :
    ∀ (sts : List Obj) (c : List Obj), navLookup H a m ns sts = some c →
      (c = [] ∧ ∀ p ∈ sts, ∃ lp, H.attr p a = some lp ∧ cands H m ns lp = []) ∨
      (∃ pre st post l, sts = pre ++ st :: post ∧
        (∀ p ∈ pre, ∃ lp, H.attr p a = some lp ∧ cands H m ns lp = []) ∧
        H.attr st a = some l ∧ cands H m ns l = c ∧ c ≠ [])
  | [], c, h => by
    simp [navLookup] at h
    exact Or.inl ⟨h, by simp⟩
  | s :: rest, c, h => by
    simp only [navLookup] at h
    cases hs : H.attr s a with
    | none => simp [hs] at h
    | some l =>
      simp only [hs] at h
      by_cases hc : (cands H m ns l).isEmpty
      · simp only [hc, if_true] at h
        have hnil : cands H m ns l = [] := by simpa using hc
        rcases navLookup_some H a m ns rest c h with ⟨h1, h2⟩ | ⟨pre, st, post, l', h1, h2, h3, h4, h5⟩
        · left
          refine ⟨h1, ?_⟩
          intro p hp
          rcases List.mem_cons.1 hp with rfl | hp
          · exact ⟨l, hs, hnil⟩
          · exact h2 p hp
        · right
          refine ⟨s :: pre, st, post, l', by simp [h1], ?_, h3, h4, h5⟩
          intro p hp
          rcases List.mem_cons.1 hp with rfl | hp
          · exact ⟨l, hs, hnil⟩
          · exact h2 p hp
      · simp only [hc] at h
        right
        have : cands H m ns l = c := by simpa using h
        refine ⟨[], s, rest, l, by simp, by simp, hs, this, ?_⟩
        intro hcn
        rw [← this] at hcn
        simp [hcn] at hc

/-- determinism of the "first start that yields something" description -/
theorem firstStart_unique (H : Heap) (a : String) (m : Mode) (ns : List String) (sts : List Obj)
    {pre st post l pre' st' post' l'}
    (h1 : sts = pre ++ st :: post)
    (hp : ∀ p ∈ pre, ∃ lp, H.attr p a = some lp ∧ cands H m ns lp = [])
    (hl : H.attr st a = some l) (hne : cands H m ns l ≠ [])
    (h1' : sts = pre' ++ st' :: post')
    (hp' : ∀ p ∈ pre', ∃ lp, H.attr p a = some lp ∧ cands H m ns lp = [])
    (hl' : H.attr st' a = some l') (hne' : cands H m ns l' ≠ []) :
    st = st' ∧ l = l' := by
  induction sts generalizing pre pre' with
  | nil => cases pre <;> simp at h1
  | cons x xs ih =>
    cases pre with
    | nil =>
      cases pre' with
      | nil =>
        simp at h1 h1'
        obtain ⟨rfl, _⟩ := h1
        obtain ⟨rfl, _⟩ := h1'
        rw [hl] at hl'
        exact ⟨rfl, by simpa using hl'⟩
      | cons y ys =>
        simp at h1 h1'
        obtain ⟨rfl, _⟩ := h1
        obtain ⟨rfl, _⟩ := h1'
        obtain ⟨lp, h2, h3⟩ := hp' x (by simp)
        rw [hl] at h2
        cases h2
        exact absurd h3 hne
    | cons y ys =>
      cases pre' with
      | nil =>
        simp at h1 h1'
        obtain ⟨rfl, _⟩ := h1
        obtain ⟨rfl, _⟩ := h1'
        obtain ⟨lp, h2, h3⟩ := hp x (by simp)
        rw [hl'] at h2
        cases h2
        exact absurd h3 hne'
      | cons z zs =>
        simp at h1 h1'
        exact ih (pre := ys) (pre' := zs) h1.2 (fun p hp0 => hp p (by simp [hp0])) h1'.2
          (fun p hp0 => hp' p (by simp [hp0]))

theorem navLookup_first (H : Heap) (a : String) (m : Mode) (ns : List String) :
    ∀ (pre : List Obj) (st : Obj) (post : List Obj) (l : List Obj),
      (∀ p ∈ pre, ∃ lp, H.attr p a = some lp ∧ cands H m ns lp = []) →
      H.attr st a = some l → cands H m ns l ≠ [] →
      navLookup H a m ns (pre ++ st :: post) = some (cands H m ns l)
  | [], st, post, l, _, hl, hne => by
    simp [navLookup, hl, hne]
  | p :: pre, st, post, l, hp, hl, hne => by
    obtain ⟨lp, h1, h2⟩ := hp p (by simp)
    simp only [List.cons_append, navLookup, h1, h2, List.isEmpty_nil, if_true]
    exact navLookup_first H a m ns pre st post l (fun q hq => hp q (by simp [hq])) hl hne

theorem atomRes_nav (H : Heap) (attr : String) (m : Mode) (f : Bool) (o : Obj) (ns : List String) :
    atomRes H (.nav attr m) f o ns =
      if m = .consume ∧ ns = [] then some []
      else (navLookup H attr m ns (starts H (if f then root H o else o))).map
        (·.map (stepOf m ns)) := by
  unfold atomRes
  simp only
  split
  · rfl
  · cases navLookup H attr m ns (starts H (if f then root H o else o)) with
    | none => rfl
    | some l =>
      simp only [Option.map]
      congr 1
      apply List.map_congr_left
      intro x _
      cases m <;> rfl

theorem atomRes_sound (H : Heap) (a : Atom) (f : Bool) (o : Obj) (ns : List String)
    (l : List (Obj × List String × Bool)) (r : Obj × List String × Bool)
    (h : atomRes H a f o ns = some l) (hr : r ∈ l) : AtomStep H a f o ns r := by
  cases a with
  | nav attr m =>
    rw [atomRes_nav] at h
    split at h
    · cases h; simp at hr
    · cases hn : navLookup H attr m ns (starts H (if f then root H o else o)) with
      | none => simp [hn] at h
      | some c =>
        simp only [hn, Option.map, Option.some.injEq] at h
        subst h
        obtain ⟨x, hx, rfl⟩ := List.mem_map.1 hr
        rcases navLookup_some H attr m ns _ c hn with ⟨h1, _⟩ | ⟨pre, st, post, l', h1, h2, h3, h4, _⟩
        · subst h1; simp at hx
        · refine ⟨pre, st, post, l', h1, ?_, h3, ?_⟩
          · intro p hp
            obtain ⟨lp, h5, h6⟩ := h2 p hp
            exact ⟨lp, h5, (cands_nil_iff H m ns lp).1 h6⟩
          · have hfst : (stepOf m ns x).1 = x := by cases m <;> rfl
            rw [cand_iff]
            rw [hfst]
            exact ⟨h4 ▸ hx, by cases m <;> rfl⟩
  | parent T =>
    simp only [atomRes] at h
    cases hf : (anc H o).find? (fun p => H.conf p T) with
    | none => simp [hf] at h; subst h; simp at hr
    | some p =>
      simp only [hf, Option.some.injEq] at h
      subst h
      simp only [List.mem_singleton] at hr
      subst hr
      obtain ⟨hp, as, bs, h1, h2⟩ := List.find?_eq_some_iff_append.1 hf
      exact ⟨as, bs, h1, fun q hq => by simpa using h2 q hq, by simpa using hp, rfl, rfl⟩
  | dots n =>
    simp only [atomRes] at h
    by_cases hn : n ≤ 1
    · simp only [hn, if_true, Option.some.injEq] at h
      subst h
      simp only [List.mem_singleton] at hr
      subst hr
      exact ⟨Or.inl ⟨hn, rfl⟩, rfl, rfl⟩
    · simp only [hn, if_false] at h
      cases hg : (anc H o)[n - 2]? with
      | none => simp [hg] at h; subst h; simp at hr
      | some p =>
        simp only [hg, Option.some.injEq] at h
        subst h
        simp only [List.mem_singleton] at hr
        subst hr
        exact ⟨Or.inr ⟨by omega, hg⟩, rfl, rfl⟩

theorem atomRes_complete (H : Heap) (a : Atom) (f : Bool) (o : Obj) (ns : List String)
    (r : Obj × List String × Bool) (h : AtomStep H a f o ns r) :
    ∃ l, atomRes H a f o ns = some l ∧ r ∈ l := by
  cases a with
  | nav attr m =>
    obtain ⟨pre, st, post, l, h1, h2, h3, h4⟩ := h
    have hc := (cand_iff H m ns l r.1 r.2.1 r.2.2).1 h4
    have hne : cands H m ns l ≠ [] := by
      intro h0; rw [h0] at hc; simp at hc
    rw [atomRes_nav]
    have hno : ¬ (m = .consume ∧ ns = []) := by
      rintro ⟨rfl, rfl⟩
      simp [cands] at hne
    rw [if_neg hno, h1]
    rw [navLookup_first H attr m ns pre st post l
      (fun p hp => by
        obtain ⟨lp, h5, h6⟩ := h2 p hp
        exact ⟨lp, h5, (cands_nil_iff H m ns lp).2 h6⟩) h3 hne]
    refine ⟨_, rfl, ?_⟩
    exact List.mem_map.2 ⟨r.1, hc.1, hc.2.symm⟩
  | parent T =>
    obtain ⟨pre, post, h1, h2, h3, h4, h5⟩ := h
    have : (anc H o).find? (fun p => H.conf p T) = some r.1 :=
      List.find?_eq_some_iff_append.2 ⟨by simpa using h3, pre, post, h1, fun q hq => by simp [h2 q hq]⟩
    refine ⟨[(r.1, ns, false)], by simp [atomRes, this], ?_⟩
    obtain ⟨r1, r2, r3⟩ := r
    simp at h4 h5
    simp [h4, h5]
  | dots n =>
    obtain ⟨h1, h4, h5⟩ := h
    obtain ⟨r1, r2, r3⟩ := r
    simp at h4 h5 h1
    subst h4 h5
    rcases h1 with ⟨hn, rfl⟩ | ⟨hn, hg⟩
    · exact ⟨[(r1, r2, false)], by simp [atomRes, hn], by simp⟩
    · have : ¬ n ≤ 1 := by omega
      exact ⟨[(r1, r2, false)], by simp [atomRes, this, hg], by simp⟩

/-! ## soundness of the search -/

theorem feed_found (k : St → Vis → Res) (r : St) :
    ∀ (l : List St) (V : Vis), feed k l V = .found r → ∃ t ∈ l, ∃ V', k t V' = .found r
  | [], V, h => by simp [feed] at h
  | x :: xs, V, h => by
    simp only [feed] at h
    cases hk : k x V with
    | cont V1 =>
      simp only [hk] at h
      obtain ⟨t, ht, V', h'⟩ := feed_found k r xs V1 h
      exact ⟨t, by simp [ht], V', h'⟩
    | found s =>
      simp only [hk] at h
      exact ⟨x, by simp, V, by rw [hk, h]⟩
    | postponed => simp [hk] at h
    | fuel => simp [hk] at h

theorem star_of_exp_star (H : Heap) (i : Nat) (e : E) (m t : St)
    (h : Exp H (.star i e) false m t) : Star (fun x y => Exp H e false x y) m t := by
  simp only [Exp, zeros] at h
  rcases h with h | ⟨m', h1, h2⟩
  · simp at h; subst h; exact Star.refl _
  · exact Star.step h1 h2

theorem eval_sound (H : Heap) :
    ∀ (n : Nat) (e : E) (f : Bool) (s : St) (V : Vis) (k : St → Vis → Res) (r : St),
      eval H n e f s V k = .found r → ∃ t V', Exp H e f s t ∧ k t V' = .found r
  | 0, e, f, s, V, k, r, h => by simp [eval] at h
  | n+1, .atom i a, f, s, V, k, r, h => by
    simp only [eval] at h
    cases hg : guard f s i V with
    | none => simp [hg] at h
    | some V1 =>
      simp only [hg] at h
      cases ha : applyAtom H a f s with
      | none => simp [ha] at h
      | some l =>
        simp only [ha] at h
        obtain ⟨t, ht, V', hk⟩ := feed_found k r l V1 h
        simp only [applyAtom] at ha
        cases har : atomRes H a f s.o s.ns with
        | none => simp [har] at ha
        | some l0 =>
          simp only [har, Option.map, Option.some.injEq] at ha
          subst ha
          obtain ⟨r0, hr0, rfl⟩ := List.mem_map.1 ht
          exact ⟨_, V', ⟨r0, atomRes_sound H a f s.o s.ns l0 r0 har hr0, rfl⟩, hk⟩
  | n+1, .grp i e, f, s, V, k, r, h => by
    simp only [eval] at h
    cases hg : guard f s i V with
    | none => simp [hg] at h
    | some V1 =>
      simp only [hg] at h
      obtain ⟨t, V', h1, h2⟩ := eval_sound H n e f s V1 k r h
      exact ⟨t, V', h1, h2⟩
  | n+1, .alt a b, f, s, V, k, r, h => by
    simp only [eval] at h
    cases ha : eval H n a f s V k with
    | cont V1 =>
      simp only [ha] at h
      obtain ⟨t, V', h1, h2⟩ := eval_sound H n b f s V1 k r h
      exact ⟨t, V', Or.inr h1, h2⟩
    | found s' =>
      simp only [ha] at h
      cases h
      obtain ⟨t, V', h1, h2⟩ := eval_sound H n a f s V k r ha
      exact ⟨t, V', Or.inl h1, h2⟩
    | postponed => simp [ha] at h
    | fuel => simp [ha] at h
  | n+1, .cat a b, f, s, V, k, r, h => by
    simp only [eval] at h
    obtain ⟨m, V1, h1, h2⟩ := eval_sound H n a f s V _ r h
    obtain ⟨t, V', h3, h4⟩ := eval_sound H n b false m V1 k r h2
    exact ⟨t, V', ⟨m, h1, h3⟩, h4⟩
  | n+1, .star i e, f, s, V, k, r, h => by
    simp only [eval] at h
    cases hg : guard f s i V with
    | none => simp [hg] at h
    | some V1 =>
      simp only [hg] at h
      cases hz : feed k (zeros H e f s) V1 with
      | cont V2 =>
        simp only [hz] at h
        obtain ⟨m, V3, h1, h2⟩ := eval_sound H n e f s V2 _ r h
        obtain ⟨t, V', h3, h4⟩ := eval_sound H n (.star i e) false m V3 k r h2
        exact ⟨t, V', Or.inr ⟨m, h1, star_of_exp_star H i e m t h3⟩, h4⟩
      | found s' =>
        simp only [hz] at h
        cases h
        obtain ⟨t, ht, V', hk⟩ := feed_found k r _ V1 hz
        exact ⟨t, V', Or.inl ht, hk⟩
      | postponed => simp [hz] at h
      | fuel => simp [hz] at h

/-! ## `Postponed` only comes from unresolved attributes -/

theorem navLookup_ne_none (H : Heap) (hres : ∀ o a, H.attr o a ≠ none) (a : String) (m : Mode)
    (ns : List String) : ∀ sts : List Obj, navLookup H a m ns sts ≠ none
  | [] => by simp [navLookup]
  | s :: rest => by
    simp only [navLookup]
    cases hs : H.attr s a with
    | none => exact absurd hs (hres s a)
    | some l =>
      simp only
      split
      · exact navLookup_ne_none H hres a m ns rest
      · simp

theorem atomRes_ne_none (H : Heap) (hres : ∀ o a, H.attr o a ≠ none) (a : Atom) (f : Bool)
    (o : Obj) (ns : List String) : atomRes H a f o ns ≠ none := by
  cases a with
  | nav attr m =>
    rw [atomRes_nav]
    split
    · simp
    · cases h : navLookup H attr m ns (starts H (if f then root H o else o)) with
      | none => exact absurd h (navLookup_ne_none H hres attr m ns _)
      | some l => simp
  | parent T =>
    simp only [atomRes]
    split <;> simp
  | dots n =>
    simp only [atomRes]
    split
    · simp
    · split <;> simp

theorem feed_ne_postponed (k : St → Vis → Res) (hk : ∀ t V, k t V ≠ .postponed) :
    ∀ (l : List St) (V : Vis), feed k l V ≠ .postponed
  | [], V => by simp [feed]
  | x :: xs, V => by
    simp only [feed]
    cases hx : k x V with
    | cont V1 => exact feed_ne_postponed k hk xs V1
    | found s => simp
    | postponed => exact absurd hx (hk x V)
    | fuel => simp

theorem eval_ne_postponed (H : Heap) (hres : ∀ o a, H.attr o a ≠ none) :
    ∀ (n : Nat) (e : E) (f : Bool) (s : St) (V : Vis) (k : St → Vis → Res),
      (∀ t V, k t V ≠ .postponed) → eval H n e f s V k ≠ .postponed := by
  intro n
  induction n with
  | zero => intro e f s V k _; simp [eval]
  | succ n ih =>
    intro e f s V k hk
    cases e with
    | atom i a =>
      simp only [eval]
      cases guard f s i V with
      | none => simp
      | some V1 =>
        simp only
        cases ha : applyAtom H a f s with
        | none =>
          simp only [applyAtom, Option.map_eq_none_iff] at ha
          exact absurd ha (atomRes_ne_none H hres a f s.o s.ns)
        | some l => exact feed_ne_postponed k hk l V1
    | grp i e =>
      simp only [eval]
      cases guard f s i V with
      | none => simp
      | some V1 => exact ih e f s V1 k hk
    | alt a b =>
      simp only [eval]
      cases ha : eval H n a f s V k with
      | cont V1 => exact ih b f s V1 k hk
      | found s' => simp
      | postponed => exact absurd ha (ih a f s V k hk)
      | fuel => simp
    | cat a b =>
      simp only [eval]
      exact ih a f s V _ (fun t V1 => ih b false t V1 k hk)
    | star i e =>
      simp only [eval]
      cases guard f s i V with
      | none => simp
      | some V1 =>
        simp only
        cases hz : feed k (zeros H e f s) V1 with
        | cont V2 => exact ih e f s V2 _ (fun t V3 => ih (.star i e) false t V3 k hk)
        | found s' => simp
        | postponed => exact absurd hz (feed_ne_postponed k hk _ V1)
        | fuel => simp

end Rrel
