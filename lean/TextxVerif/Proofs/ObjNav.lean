import TextxVerif.Obj.Nav
/-! Helper lemmas for C05: tree-shaped heaps, parent chains, the `get_children` traversal. -/
namespace Obj

/-- The containment part of a heap is a forest that agrees with the parent pointers:
every contained object points back to its (unique) container, containers are older than
their contents (allocation order), no object is listed twice, contained objects exist.
Reference attributes are unconstrained. -/
structure TreeHeap (h : Heap) : Prop where
  parent_of_cont : ∀ p c, c ∈ contIds h p → parentOf h c = some p
  parent_lt : ∀ c p, parentOf h c = some p → p < c
  nodup : ∀ p, (contIds h p).Nodup
  exists_of_cont : ∀ p c, c ∈ contIds h p → (h.get c).isSome = true

theorem TreeHeap.lt_of_cont {h : Heap} (T : TreeHeap h) {p c : Nat} (hc : c ∈ contIds h p) : p < c :=
  T.parent_lt c p (T.parent_of_cont p c hc)

theorem get_lt {h : Heap} {x : Nat} {o : HObj} (hx : h.get x = some o) : x < h.length := by
  unfold Heap.get at hx
  exact (List.getElem?_eq_some_iff.mp hx).1

theorem contIds_nil_of_none {h : Heap} {x : Nat} (hx : h.get x = none) : contIds h x = [] := by
  simp [contIds, hx]

/-! ## parent chains -/

/-- the objects up the parent chain, nearest first -/
def ancestors (h : Heap) : Nat → Nat → List Nat
  | 0, _ => []
  | f + 1, x =>
    match parentOf h x with
    | none => []
    | some p => p :: ancestors h f p

/-- canonical fuel -/
def anc (h : Heap) (x : Nat) : List Nat := ancestors h (x + 1) x

theorem ancestors_fuel {h : Heap} (hlt : ∀ c p, parentOf h c = some p → p < c) :
    ∀ f1 f2 x, x < f1 → x < f2 → ancestors h f1 x = ancestors h f2 x := by
  intro f1
  induction f1 with
  | zero => intro f2 x h1; omega
  | succ a ih =>
    intro f2 x h1 h2
    cases f2 with
    | zero => omega
    | succ b =>
      unfold ancestors
      cases hp : parentOf h x with
      | none => rfl
      | some p =>
        have := hlt x p hp
        simp only []
        rw [ih b p (by omega) (by omega)]

theorem anc_unfold {h : Heap} (hlt : ∀ c p, parentOf h c = some p → p < c) (x : Nat) :
    anc h x = match parentOf h x with
      | none => []
      | some p => p :: anc h p := by
  unfold anc
  conv => lhs; unfold ancestors
  cases hp : parentOf h x with
  | none => rfl
  | some p =>
    have := hlt x p hp
    simp only []
    rw [ancestors_fuel hlt x (p + 1) p (by omega) (by omega)]

theorem anc_of_parent {h : Heap} (hlt : ∀ c p, parentOf h c = some p → p < c) {x p : Nat}
    (hp : parentOf h x = some p) : anc h x = p :: anc h p := by
  rw [anc_unfold hlt x, hp]

theorem anc_of_root {h : Heap} (hlt : ∀ c p, parentOf h c = some p → p < c) {x : Nat}
    (hp : parentOf h x = none) : anc h x = [] := by
  rw [anc_unfold hlt x, hp]

theorem mem_anc_lt {h : Heap} (hlt : ∀ c p, parentOf h c = some p → p < c) :
    ∀ x a, a ∈ anc h x → a < x := by
  intro x
  induction x using Nat.strongRecOn with
  | _ x ih =>
    intro a ha
    rw [anc_unfold hlt x] at ha
    cases hp : parentOf h x with
    | none => simp [hp] at ha
    | some p =>
      simp only [hp, List.mem_cons] at ha
      have hpx := hlt x p hp
      rcases ha with rfl | ha
      · exact hpx
      · have := ih p hpx a ha; omega

theorem anc_trans {h : Heap} (hlt : ∀ c p, parentOf h c = some p → p < c) :
    ∀ c a b, a ∈ anc h b → b ∈ anc h c → a ∈ anc h c := by
  intro c
  induction c using Nat.strongRecOn with
  | _ c ih =>
    intro a b hab hbc
    rw [anc_unfold hlt c] at hbc ⊢
    cases hp : parentOf h c with
    | none => simp [hp] at hbc
    | some p =>
      simp only [hp, List.mem_cons] at hbc ⊢
      rcases hbc with rfl | hbc
      · exact Or.inr hab
      · exact Or.inr (ih p (hlt c p hp) a b hab hbc)

/-- on one parent chain the smaller of two members is an ancestor of the larger -/
theorem anc_linear {h : Heap} (hlt : ∀ c p, parentOf h c = some p → p < c) :
    ∀ y a b, a ∈ anc h y → (b ∈ anc h y ∨ b = y) → a < b → a ∈ anc h b := by
  intro y
  induction y using Nat.strongRecOn with
  | _ y ih =>
    intro a b ha hb hab
    rcases hb with hb | rfl
    · rw [anc_unfold hlt y] at ha hb
      cases hp : parentOf h y with
      | none => simp [hp] at ha
      | some p =>
        simp only [hp, List.mem_cons] at ha hb
        have hpy := hlt y p hp
        rcases hb with rfl | hb
        · rcases ha with rfl | ha
          · omega
          · exact ha
        · rcases ha with rfl | ha
          · have := mem_anc_lt hlt _ _ hb; omega
          · exact ih p hpy a b ha (Or.inl hb) hab
    · exact ha

/-- ancestor-or-self -/
def AncS (h : Heap) (a z : Nat) : Prop := a = z ∨ a ∈ anc h z

theorem AncS.le {h : Heap} (hlt : ∀ c p, parentOf h c = some p → p < c) {a z : Nat} (ha : AncS h a z) : a ≤ z := by
  rcases ha with rfl | ha
  · exact Nat.le_refl _
  · exact Nat.le_of_lt (mem_anc_lt hlt _ _ ha)

theorem AncS.trans {h : Heap} (hlt : ∀ c p, parentOf h c = some p → p < c) {a b c : Nat}
    (hab : AncS h a b) (hbc : AncS h b c) : AncS h a c := by
  rcases hab with rfl | hab
  · exact hbc
  · rcases hbc with rfl | hbc
    · exact Or.inr hab
    · exact Or.inr (anc_trans hlt c a b hab hbc)

theorem AncS.of_cont {h : Heap} (T : TreeHeap h) {p c : Nat} (hc : c ∈ contIds h p) : AncS h p c := by
  right
  rw [anc_of_parent T.parent_lt (T.parent_of_cont p c hc)]
  exact List.mem_cons_self

/-- two objects contained in the same object that are both above `z` coincide -/
theorem child_unique {h : Heap} (T : TreeHeap h) {x c1 c2 z : Nat}
    (h1 : c1 ∈ contIds h x) (h2 : c2 ∈ contIds h x) (a1 : AncS h c1 z) (a2 : AncS h c2 z) : c1 = c2 := by
  have hlt := T.parent_lt
  have key : ∀ c1 c2, c1 ∈ contIds h x → c2 ∈ contIds h x → AncS h c1 z → AncS h c2 z → c1 < c2 → False := by
    intro c1 c2 h1 h2 a1 a2 hlt12
    have hx1 := T.lt_of_cont h1
    have hc1 : c1 ∈ anc h z := by
      rcases a1 with rfl | a1
      · rcases a2 with rfl | a2
        · omega
        · have := mem_anc_lt hlt _ _ a2; omega
      · exact a1
    have hb : c2 ∈ anc h z ∨ c2 = z := by
      rcases a2 with rfl | a2
      · exact Or.inr rfl
      · exact Or.inl a2
    have h12 := anc_linear hlt z c1 c2 hc1 hb hlt12
    rw [anc_of_parent hlt (T.parent_of_cont x c2 h2)] at h12
    rcases List.mem_cons.mp h12 with rfl | h12
    · omega
    · have := mem_anc_lt hlt _ _ h12; omega
  rcases Nat.lt_trichotomy c1 c2 with hl | he | hg
  · exact (key c1 c2 h1 h2 a1 a2 hl).elim
  · exact he
  · exact (key c2 c1 h2 h1 a2 a1 hg).elim

/-! ## get_model / get_parent_of_type -/

/-- `x` is (transitively) contained in `r`, every object on the way satisfying `fol` -/
inductive Reach (h : Heap) (fol : Nat → Bool) : Nat → Nat → Prop
  | here {x : Nat} : (h.get x).isSome = true → Reach h fol x x
  | down {x c y : Nat} : c ∈ contIds h x → fol c = true → Reach h fol c y → Reach h fol x y

theorem Reach.ancS {h : Heap} (T : TreeHeap h) {fol : Nat → Bool} {x y : Nat} (r : Reach h fol x y) : AncS h x y := by
  induction r with
  | here _ => exact Or.inl rfl
  | down hc _ _ ih => exact (AncS.of_cont T hc).trans T.parent_lt ih

theorem Reach.mono {h : Heap} {fol : Nat → Bool} {x y : Nat} (r : Reach h fol x y) : Reach h (fun _ => true) x y := by
  induction r with
  | here hx => exact Reach.here hx
  | down hc _ _ ih => exact Reach.down hc rfl ih

theorem getModel_of_ancS {h : Heap} (hlt : ∀ c p, parentOf h c = some p → p < c) {r : Nat}
    (hr : parentOf h r = none) : ∀ x, AncS h r x → ∀ fuel, x < fuel → getModel h fuel x = some r := by
  intro x
  induction x using Nat.strongRecOn with
  | _ x ih =>
    intro ha fuel hf
    cases fuel with
    | zero => omega
    | succ f =>
      unfold getModel
      cases hp : parentOf h x with
      | none =>
        rcases ha with rfl | ha
        · rfl
        · rw [anc_of_root hlt hp] at ha; cases ha
      | some p =>
        have hpx := hlt x p hp
        simp only []
        rcases ha with rfl | ha
        · rw [hr] at hp; cases hp
        · rw [anc_of_parent hlt hp] at ha
          have hap : AncS h r p := by
            rcases List.mem_cons.mp ha with rfl | ha
            · exact Or.inl rfl
            · exact Or.inr ha
          exact ih p hpx hap f (by omega)

theorem getModel_of_reach {h : Heap} (T : TreeHeap h) {r x : Nat} (hr : parentOf h r = none)
    (hx : Reach h (fun _ => true) r x) : ∀ fuel, x < fuel → getModel h fuel x = some r :=
  getModel_of_ancS T.parent_lt hr x (hx.ancS T)

theorem getParentOfType_eq {h : Heap} (hlt : ∀ c p, parentOf h c = some p → p < c) (typ : Nat) :
    ∀ fuel x, x < fuel →
      getParentOfType h typ fuel x = some ((anc h x).find? (fun a => clsOf h a == some typ)) := by
  intro fuel
  induction fuel with
  | zero => intro x hx; omega
  | succ f ih =>
    intro x hx
    unfold getParentOfType
    rw [anc_unfold hlt x]
    cases hp : parentOf h x with
    | none => simp
    | some p =>
      have hpx := hlt x p hp
      simp only [List.find?_cons]
      by_cases hc : clsOf h p = some typ
      · simp [hc]
      · have hc' : (clsOf h p == some typ) = false := by simpa using hc
        simp only [hc, if_false, hc']
        exact ih p (by omega)

end Obj
