import TextxVerif.Load.History
/-!
# A parser that does not memoize never touches the memo caches

`ParsingExpression.parse` reads and writes `_result_cache` only under `if parser.memoization:`.
Here: with `g.memo = false` the Arpeggio mirror returns the `cache` component of the parser state
unchanged, whatever the node, the input and the fuel.  Proved helper by helper, parametric in the
sub-parser (the same modular structure as the mirror).
-/
namespace Peg

/-- the sub-parser leaves the cache component alone -/
def Keeps (p : SubParser) : Prop := ∀ e s, (p e s).2.cache = s.cache

def KeepsB (b : PState → Res × PState) : Prop := ∀ s, (b s).2.cache = s.cache

@[simp] theorem nmRaise_cache (s : PState) (pos : Nat) : (s.nmRaise pos).cache = s.cache := by
  unfold PState.nmRaise; split <;> (try split) <;> (try split) <;> rfl

@[simp] theorem setWs_cache (s : PState) (w : List Char) : (s.setWs w).cache = s.cache := rfl
@[simp] theorem setEolterm_cache (s : PState) (b : Bool) : (s.setEolterm b).cache = s.cache := rfl
@[simp] theorem skipWs_cache (g : Grammar) (s : PState) : (skipWs g s).cache = s.cache := rfl

theorem seqLoop_keeps {p : SubParser} (h : Keeps p) :
    ∀ es s acc, (seqLoop p es s acc).2.cache = s.cache := by
  intro es
  induction es with
  | nil => intro s acc; simp [seqLoop]
  | cons e es ih =>
    intro s acc
    have h1 := h e s
    simp only [seqLoop]
    grind

theorem choiceLoop_keeps {p : SubParser} (h : Keeps p) :
    ∀ es c s, (choiceLoop p es c s).2.cache = s.cache := by
  intro es
  induction es with
  | nil => intro c s; simp [choiceLoop]
  | cons e es ih =>
    intro c s
    have h1 := h e s
    simp only [choiceLoop]
    grind

theorem repLoop_keeps {p : SubParser} (h : Keeps p) (e : Nat) (sep : Option Nat) :
    ∀ k s acc f pv, (repLoop p e sep k s acc f pv).2.cache = s.cache := by
  intro k
  induction k with
  | zero => intro s acc f pv; simp [repLoop]
  | succ k ih =>
    intro s acc f pv
    simp only [repLoop]
    unfold Keeps at h
    grind

theorem unordFor_keeps {p : SubParser} (h : Keeps p) :
    ∀ es pl s se m, (unordFor p es pl s se m).2.cache = s.cache := by
  intro es
  induction es with
  | nil => intro pl s se m; simp [unordFor]
  | cons e es ih =>
    intro pl s se m
    have h1 := h e s
    simp only [unordFor]
    grind

theorem unordLoop_keeps {p : SubParser} (h : Keeps p) (sep : Option Nat) :
    ∀ k todo s acc f sr, (unordLoop p sep k todo s acc f sr).2.cache = s.cache := by
  intro k
  induction k with
  | zero => intro todo s acc f sr; simp [unordLoop]
  | succ k ih =>
    intro todo s acc f sr
    have hf := @unordFor_keeps p h
    cases todo with
    | nil => simp [unordLoop]
    | cons e0 es0 =>
      simp only [unordLoop]
      unfold Keeps at h
      grind

theorem commentsIter_keeps (g : Grammar) {p : SubParser} (h : Keeps p) (cm : Nat) :
    ∀ k, KeepsB (commentsIter g p cm k) := by
  intro k
  induction k with
  | zero => intro s; simp [commentsIter]
  | succ k ih =>
    intro s
    have h1 := h cm s
    unfold KeepsB at ih
    simp only [commentsIter]
    grind [skipWs_cache]

theorem commentsLoop_keeps (g : Grammar) {p : SubParser} (h : Keeps p) (k : Nat) :
    KeepsB (commentsLoop g p k) := by
  intro s
  unfold commentsLoop
  cases hc : g.comments with
  | none => rfl
  | some cm => exact commentsIter_keeps g h cm k s

theorem matchNode_keeps (g : Grammar) {pc : PState → Res × PState} (h : KeepsB pc) (id : Nat) (nd : Node) :
    KeepsB (matchNode g pc id nd) := by
  intro s
  unfold matchNode
  unfold KeepsB at h
  grind [skipWs_cache, nmRaise_cache]

theorem withWsCtx_keeps (nd : Node) {b : PState → Res × PState} (h : KeepsB b) : KeepsB (withWsCtx nd b) := by
  intro s
  unfold withWsCtx
  unfold KeepsB at h
  grind [setWs_cache]

theorem withEol_keeps (nd : Node) {b : PState → Res × PState} (h : KeepsB b) : KeepsB (withEol nd b) := by
  intro s
  unfold withEol
  unfold KeepsB at h
  grind [setEolterm_cache]

theorem bodyNode_keeps {p : SubParser} (h : Keeps p) (k : Nat) (nd : Node) : KeepsB (bodyNode p k nd) := by
  intro s
  have hseq := withWsCtx_keeps nd (b := fun s1 => seqLoop p nd.kids s1 []) (fun s1 => seqLoop_keeps h nd.kids s1 []) s
  have hch := withWsCtx_keeps nd (b := fun s1 => choiceLoop p nd.kids s.pos s1) (fun s1 => choiceLoop_keeps h nd.kids s.pos s1) s
  have hun := withEol_keeps nd (b := fun s1 => unordLoop p nd.sep k nd.kids s1 [] true .none)
    (fun s1 => unordLoop_keeps h nd.sep k nd.kids s1 [] true .none) s
  unfold bodyNode
  cases hk : nd.kind <;> simp only []
  case seq => grind
  case choice => grind [nmRaise_cache]
  case opt =>
    unfold Keeps at h
    grind
  case star =>
    cases hkids : nd.kids with
    | nil => rfl
    | cons e es =>
      cases es with
      | nil => exact withEol_keeps nd (b := fun s1 => repLoop p e nd.sep k s1 [] false false)
                 (fun s1 => repLoop_keeps h e nd.sep k s1 [] false false) s
      | cons _ _ => rfl
  case plus =>
    cases hkids : nd.kids with
    | nil => rfl
    | cons e es =>
      cases es with
      | nil => exact withEol_keeps nd (b := fun s1 => repLoop p e nd.sep k s1 [] true false)
                 (fun s1 => repLoop_keeps h e nd.sep k s1 [] true false) s
      | cons _ _ => rfl
  case unord => grind [nmRaise_cache]
  case andP =>
    unfold Keeps at h
    grind
  case notP =>
    unfold Keeps at h
    grind [nmRaise_cache]
  all_goals rfl

theorem wrap_keeps (id : Nat) (nd : Node) {b : PState → Res × PState} (h : KeepsB b) :
    KeepsB (wrap false id nd b) := by
  intro s
  have h1 := h s
  unfold wrap cacheHit cacheStore
  grind

theorem nodeParse_keeps (g : Grammar) (hm : g.memo = false) {p : SubParser} (h : Keeps p) (k id : Nat) :
    KeepsB (nodeParse g p k id) := by
  intro s
  unfold nodeParse
  cases hn : g.nodes[id]? with
  | none => rfl
  | some nd =>
    simp only []
    have hmatch := matchNode_keeps g (commentsLoop_keeps g h k) id nd s
    have hwrap := wrap_keeps id nd (bodyNode_keeps h k nd) s
    rw [hm]
    cases hk : nd.kind <;> simp only [] <;> assumption

/-- **Frame.**  Without memoization the cache component is returned unchanged. -/
theorem parse_keeps (g : Grammar) (hm : g.memo = false) : ∀ n, Keeps (parse g n) := by
  intro n
  induction n with
  | zero => intro e s; rfl
  | succ n ih => intro e s; exact nodeParse_keeps g hm ih n e s

end Peg
