import TextxVerif.Out.Cli
/-!
Helper definitions and lemmas for C30: the *specification side* of a `textx
generate` command line (a list of model files and custom arguments, rendered to
tokens) and the facts about `Cli.parseLoop`, `Cli.validate`, `Cli.genLoop`,
`Cli.checkLoop` used by `Props/C30.lean`.
-/
namespace Cli

/-! ## command lines as the user means them -/

/-- one element of a command line: a model file, or a custom argument `--name`
with (`some v`) or without (`none`) a value -/
inductive Item
  | file (f : Str)
  | arg (name : Str) (value : Option Str)
  deriving DecidableEq, Repr

/-- the tokens typed on the command line -/
def render : List Item → List Str
  | [] => []
  | .file f :: r => f :: render r
  | .arg n none :: r => ('-' :: '-' :: n) :: render r
  | .arg n (some v) :: r => ('-' :: '-' :: n) :: v :: render r

/-- Command lines the property quantifies over: model files and values do not
themselves look like switches, and a bare flag is followed by the end of the line
or by another `--name` (a bare flag directly followed by a file name *is* a valued
argument, by the CLI's syntax). -/
def WF : List Item → Prop
  | [] => True
  | .file f :: r => isSwitch f = false ∧ WF r
  | .arg _ (some v) :: r => isSwitch v = false ∧ WF r
  | .arg _ none :: r => (match r with | .file _ :: _ => False | _ => True) ∧ WF r

def toVal : Option Str → Val
  | none => .flag
  | some s => .str (stripQuotes s)

/-- the model files named on the command line, in order -/
def expFiles : List Item → List Str
  | [] => []
  | .file f :: r => f :: expFiles r
  | .arg _ _ :: r => expFiles r

/-- the keyword arguments the generator must receive (`d` = those collected so far) -/
def expDict : List Item → Dict → Dict
  | [], d => d
  | .file _ :: r, d => expDict r d
  | .arg n v :: r, d => expDict r (dset d (norm n) (toVal v))

/-- value of the last custom argument whose normalised name is `k` -/
def lastVal : List Item → Str → Option Val
  | [], _ => none
  | .file _ :: r, k => lastVal r k
  | .arg n v :: r, k =>
    match lastVal r k with
    | some x => some x
    | none => if norm n = k then some (toVal v) else none

/-! ## the argument loop -/

theorem isSwitch_dashes (n : Str) : isSwitch ('-' :: '-' :: n) = true := rfl

theorem parseLoop_nil (files : List Str) (d : Dict) : parseLoop [] files d = (files, d) := by
  rw [parseLoop]

theorem parseLoop_file (m : Str) (rest files : List Str) (d : Dict) (h : isSwitch m = false) :
    parseLoop (m :: rest) files d = parseLoop rest (files ++ [m]) d := by
  rw [parseLoop]; simp [h]

theorem parseLoop_flag_end (n : Str) (files : List Str) (d : Dict) :
    parseLoop [('-' :: '-' :: n)] files d = (files, dset d (norm n) .flag) := by
  rw [parseLoop]; simp [isSwitch_dashes]

theorem parseLoop_flag_switch (n v : Str) (rest files : List Str) (d : Dict) (h : isSwitch v = true) :
    parseLoop (('-' :: '-' :: n) :: v :: rest) files d =
      parseLoop (v :: rest) files (dset d (norm n) .flag) := by
  rw [parseLoop]; simp [isSwitch_dashes, h]

theorem parseLoop_valued (n v : Str) (rest files : List Str) (d : Dict) (h : isSwitch v = false) :
    parseLoop (('-' :: '-' :: n) :: v :: rest) files d =
      parseLoop rest files (dset d (norm n) (.str (stripQuotes v))) := by
  rw [parseLoop]; simp [isSwitch_dashes, h]

/-- the loop computes exactly what the command line means -/
theorem parseLoop_render (items : List Item) (hwf : WF items) (files : List Str) (d : Dict) :
    parseLoop (render items) files d = (files ++ expFiles items, expDict items d) := by
  induction items generalizing files d with
  | nil => simp [render, expFiles, expDict, parseLoop_nil]
  | cons it r ih =>
    cases it with
    | file f =>
      obtain ⟨hf, hr⟩ := hwf
      simp only [render, expFiles, expDict]
      rw [parseLoop_file _ _ _ _ hf, ih hr]
      simp
    | arg n v =>
      cases v with
      | some v =>
        obtain ⟨hv, hr⟩ := hwf
        simp only [render, expFiles, expDict, toVal]
        rw [parseLoop_valued _ _ _ _ _ hv, ih hr]
      | none =>
        obtain ⟨hnext, hr⟩ := hwf
        simp only [expFiles, expDict, toVal]
        cases r with
        | nil => simp [render, expFiles, expDict, parseLoop_flag_end]
        | cons it2 r2 =>
          cases it2 with
          | file f => exact absurd hnext (by simp)
          | arg n2 v2 =>
            have ih' := ih hr files (dset d (norm n) .flag)
            cases v2 with
            | none =>
              simp only [render] at ih' ⊢
              rw [parseLoop_flag_switch _ _ _ _ _ (isSwitch_dashes n2)]
              exact ih'
            | some w =>
              simp only [render] at ih' ⊢
              rw [parseLoop_flag_switch _ _ _ _ _ (isSwitch_dashes n2)]
              exact ih'

/-! ## dictionaries -/

theorem dget_dset (d : Dict) (k k' : Str) (v : Val) :
    dget (dset d k v) k' = if k = k' then some v else dget d k' := by
  induction d with
  | nil =>
    simp only [dset, dget]
  | cons e r ih =>
    obtain ⟨a, b⟩ := e
    simp only [dset]
    by_cases h : a = k
    · subst h
      simp only [if_true, dget]
      by_cases h2 : a = k' <;> simp [h2]
    · simp only [h, if_false, dget, ih]
      by_cases h2 : a = k'
      · subst h2
        have : ¬ k = a := fun e => h e.symm
        simp [this]
      · simp [h2]

theorem dkeys_dset (d : Dict) (k : Str) (v : Val) (x : Str) :
    x ∈ dkeys (dset d k v) ↔ x = k ∨ x ∈ dkeys d := by
  induction d with
  | nil => simp [dset, dkeys]
  | cons e r ih =>
    obtain ⟨a, b⟩ := e
    simp only [dset]
    by_cases h : a = k
    · subst h; simp [dkeys]
    · simp only [h, if_false]
      simp only [dkeys, List.map_cons, List.mem_cons] at ih ⊢
      rw [ih]
      constructor
      · rintro (h1 | h1 | h1) <;> simp [h1]
      · rintro (h1 | h1 | h1) <;> simp [h1]

theorem dget_isSome_iff (d : Dict) (k : Str) : (dget d k).isSome ↔ k ∈ dkeys d := by
  induction d with
  | nil => simp [dget, dkeys]
  | cons e r ih =>
    obtain ⟨a, b⟩ := e
    simp only [dget, dkeys, List.map_cons, List.mem_cons]
    by_cases h : a = k
    · simp [h]
    · simp only [h, if_false]
      have : ¬ k = a := fun e => h e.symm
      simp only [dkeys] at ih
      simp [ih, this]

theorem dget_expDict (items : List Item) (d : Dict) (k : Str) :
    dget (expDict items d) k = (lastVal items k).or (dget d k) := by
  induction items generalizing d with
  | nil => simp [expDict, lastVal]
  | cons it r ih =>
    cases it with
    | file f => simp [expDict, lastVal, ih]
    | arg n v =>
      simp only [expDict, lastVal, ih, dget_dset]
      cases h : lastVal r k with
      | some x => simp
      | none =>
        by_cases h2 : norm n = k <;> simp [h2]

theorem dkeys_expDict (items : List Item) (d : Dict) (k : Str) :
    k ∈ dkeys (expDict items d) ↔ (∃ n v, Item.arg n v ∈ items ∧ norm n = k) ∨ k ∈ dkeys d := by
  induction items generalizing d with
  | nil => simp [expDict]
  | cons it r ih =>
    cases it with
    | file f => simp [expDict, ih]
    | arg n v =>
      simp only [expDict, ih, dkeys_dset, List.mem_cons]
      constructor
      · rintro (⟨n', v', hm, hk⟩ | h | h)
        · exact .inl ⟨n', v', .inr hm, hk⟩
        · exact .inl ⟨n, v, .inl rfl, h.symm⟩
        · exact .inr h
      · rintro (⟨n', v', hm | hm, hk⟩ | h)
        · cases hm; exact .inr (.inl hk.symm)
        · exact .inl ⟨n', v', hm, hk⟩
        · exact .inr (.inr h)

theorem lastVal_of_unique (items : List Item) (n : Str) (v : Option Str)
    (hmem : Item.arg n v ∈ items)
    (huniq : ∀ n' v', Item.arg n' v' ∈ items → norm n' = norm n → n' = n ∧ v' = v) :
    lastVal items (norm n) = some (toVal v) := by
  induction items with
  | nil => cases hmem
  | cons it r ih =>
    cases it with
    | file f =>
      simp only [lastVal]
      have hm : Item.arg n v ∈ r := by
        rcases List.mem_cons.1 hmem with h | h
        · cases h
        · exact h
      exact ih hm (fun n' v' h' => huniq n' v' (List.mem_cons_of_mem _ h'))
    | arg n0 v0 =>
      simp only [lastVal]
      by_cases hin : Item.arg n v ∈ r
      · rw [ih hin (fun n' v' h' => huniq n' v' (List.mem_cons_of_mem _ h'))]
      · have h0 : Item.arg n0 v0 = Item.arg n v := by
          rcases List.mem_cons.1 hmem with h | h
          · exact h.symm
          · exact absurd h hin
        cases h0
        -- no later item has the same normalised name
        have hnone : lastVal r (norm n) = none := by
          have : ∀ r' : List Item, (∀ n' v', Item.arg n' v' ∈ r' → norm n' = norm n → Item.arg n' v' ∈ r → False) →
              (∀ x, x ∈ r' → x ∈ r) → lastVal r' (norm n) = none := by
            intro r'
            induction r' with
            | nil => intros; rfl
            | cons a t iht =>
              intro hno hsub
              cases a with
              | file f => simp only [lastVal]; exact iht (fun n' v' h' => hno n' v' (List.mem_cons_of_mem _ h')) (fun x hx => hsub x (List.mem_cons_of_mem _ hx))
              | arg a1 a2 =>
                simp only [lastVal]
                rw [iht (fun n' v' h' => hno n' v' (List.mem_cons_of_mem _ h')) (fun x hx => hsub x (List.mem_cons_of_mem _ hx))]
                by_cases he : norm a1 = norm n
                · exact absurd (hsub _ (List.mem_cons_self)) (fun hh => hno a1 a2 (List.mem_cons_self) he hh)
                · simp [he]
          refine this r ?_ (fun x hx => hx)
          intro n' v' h' he _
          obtain ⟨e1, e2⟩ := huniq n' v' (List.mem_cons_of_mem _ h') he
          subst e1; subst e2
          exact hin h'
        simp [hnone]

theorem norm_no_dash (s : Str) : '-' ∉ norm s := by
  induction s with
  | nil => simp [norm]
  | cons c r ih =>
    simp only [norm, List.map_cons, List.mem_cons, not_or] at ih ⊢
    refine ⟨?_, ih⟩
    by_cases h : c = '-'
    · simp [h]
    · simp only [h, if_false]; exact fun e => h e.symm

/-! ## validation -/

theorem validate_none_iff (ps : List Param) (given : List Str) :
    validate (some ps) given = none ↔
      (∀ p ∈ ps, p.mandatory = true → p.name ∈ given) ∧ (∀ k ∈ given, k ∈ ps.map (·.name)) := by
  unfold validate
  simp only
  cases h1 : ps.find? (fun p => p.mandatory && !given.contains p.name) with
  | some p =>
    have hp := List.find?_some h1
    have hm := List.mem_of_find?_eq_some h1
    simp only [Bool.and_eq_true, Bool.not_eq_true', List.contains_eq_mem, decide_eq_false_iff_not] at hp
    simp only [reduceCtorEq, false_iff, not_and]
    intro hall
    exact absurd (hall p hm hp.1) hp.2
  | none =>
    rw [List.find?_eq_none] at h1
    have hmand : ∀ p ∈ ps, p.mandatory = true → p.name ∈ given := by
      intro p hp hm
      have := h1 p hp
      simp only [Bool.and_eq_true, Bool.not_eq_true', List.contains_eq_mem, decide_eq_false_iff_not,
        not_and, Decidable.not_not] at this
      exact this hm
    cases h2 : given.find? (fun k => !(ps.map (·.name)).contains k) with
    | some k =>
      have hk := List.find?_some h2
      have hm := List.mem_of_find?_eq_some h2
      simp only [Bool.not_eq_true', List.contains_eq_mem, decide_eq_false_iff_not] at hk
      simp only [reduceCtorEq, false_iff, not_and]
      intro _ hall
      exact hk (hall k hm)
    | none =>
      rw [List.find?_eq_none] at h2
      simp only [true_iff]
      refine ⟨hmand, ?_⟩
      intro k hk
      have := h2 k hk
      simpa using this

theorem validate_undeclared_none (given : List Str) : validate none given = none := rfl

/-- which error is reported: a missing mandatory parameter takes precedence -/
theorem validate_missing_iff (ps : List Param) (given : List Str) :
    (∃ n, validate (some ps) given = some (.missing n)) ↔
      ∃ p ∈ ps, p.mandatory = true ∧ p.name ∉ given := by
  unfold validate
  simp only
  cases h1 : ps.find? (fun p => p.mandatory && !given.contains p.name) with
  | some p =>
    have hp := List.find?_some h1
    have hm := List.mem_of_find?_eq_some h1
    simp only [Bool.and_eq_true, Bool.not_eq_true', List.contains_eq_mem, decide_eq_false_iff_not] at hp
    constructor
    · intro _; exact ⟨p, hm, hp.1, hp.2⟩
    · intro _; exact ⟨p.name, rfl⟩
  | none =>
    rw [List.find?_eq_none] at h1
    constructor
    · rintro ⟨n, hn⟩
      exfalso
      simp only at hn
      split at hn <;> cases hn
    · rintro ⟨p, hp, hm, hn⟩
      have := h1 p hp
      simp [hm, hn] at this

/-! ## the generation loop -/

theorem generateOne_ok (env : Env) (lang : Str) (anyP : Bool) (file : Option Str) (d : Dict) (c : Call)
    (h : generateOne env lang anyP file d = .ok c) :
    c = { file := file, kwargs := d } ∧
      ∃ decl, findGen env.gens lang anyP = some decl ∧ validate decl (dkeys d) = none := by
  unfold generateOne at h
  cases hg : findGen env.gens lang anyP with
  | none => simp [hg] at h
  | some decl =>
    simp only [hg] at h
    cases hv : validate decl (dkeys d) with
    | some e => simp [hv] at h
    | none =>
      simp only [hv] at h
      injection h with h
      exact ⟨h.symm, decl, rfl, hv⟩

theorem findGen_mem (gens : List (Str × Option (List Param))) (lang : Str) (anyP : Bool)
    (decl : Option (List Param)) (h : findGen gens lang anyP = some decl) :
    ∃ l, (l, decl) ∈ gens := by
  unfold findGen at h
  cases h1 : gens.find? (·.1 = lang) with
  | some e =>
    simp only [h1] at h
    injection h with h
    exact ⟨e.1, by have := List.mem_of_find?_eq_some h1; rw [← h]; exact this⟩
  | none =>
    simp only [h1] at h
    cases anyP with
    | false => simp at h
    | true =>
      simp only [if_true] at h
      cases h2 : gens.find? (·.1 = "any".toList) with
      | some e =>
        simp only [h2] at h
        injection h with h
        exact ⟨e.1, by have := List.mem_of_find?_eq_some h2; rw [← h]; exact this⟩
      | none => rw [h2] at h; simp at h

/-- every call made by the loop carries the same keyword dictionary, and the
calls already made are kept in front -/
theorem genLoop_calls (env : Env) (ex : Option Str) (d : Dict) (files : List Str) (calls : List Call) :
    ∃ more : List Call, (genLoop env ex d files calls).calls = calls ++ more ∧
      (∀ c ∈ more, c.kwargs = d) ∧
      (∃ k, k ≤ files.length ∧ more.map (·.file) = (files.take k).map some) ∧
      ((genLoop env ex d files calls).exit = 0 → more.map (·.file) = files.map some) := by
  induction files generalizing calls with
  | nil => exact ⟨[], by simp [genLoop], by simp, ⟨0, by simp⟩, by simp⟩
  | cons f rest ih =>
    have stop : ∀ e, (∃ more : List Call, (({ exit := 1, calls := calls, fail := some e } : GenResult)).calls = calls ++ more ∧
        (∀ c ∈ more, c.kwargs = d) ∧
        (∃ k, k ≤ (f :: rest).length ∧ more.map (·.file) = ((f :: rest).take k).map some) ∧
        ((({ exit := 1, calls := calls, fail := some e } : GenResult)).exit = 0 → more.map (·.file) = (f :: rest).map some)) :=
      fun e => ⟨[], by simp, by simp, ⟨0, by simp⟩, by simp⟩
    unfold genLoop
    split
    · exact stop _
    · rename_i lang hl
      split
      · exact stop _
      · exact stop _
      · split
        · exact stop _
        · rename_i call hc
          obtain ⟨hcall, _⟩ := generateOne_ok _ _ _ _ _ _ hc
          obtain ⟨more, h1, h2, ⟨k, hk, h3⟩, h4⟩ := ih (calls ++ [call])
          refine ⟨call :: more, by rw [h1]; simp, ?_, ⟨k + 1, by simp [hk], ?_⟩, ?_⟩
          · intro c hc'
            rcases List.mem_cons.1 hc' with h | h
            · rw [h, hcall]
            · exact h2 c h
          · simp [h3, hcall]
          · intro h0
            simp [h4 h0, hcall]

/-- if no registered generator accepts the given keys, the loop calls no generator -/
theorem genLoop_reject (env : Env) (ex : Option Str) (d : Dict) (files : List Str) (calls : List Call)
    (hne : files ≠ [])
    (hrej : ∀ l decl, (l, decl) ∈ env.gens → validate decl (dkeys d) ≠ none) :
    (genLoop env ex d files calls).exit = 1 ∧ (genLoop env ex d files calls).calls = calls := by
  cases files with
  | nil => exact absurd rfl hne
  | cons f rest =>
    unfold genLoop
    split
    · simp
    · split
      · simp
      · simp
      · split
        · simp
        · rename_i call hc
          obtain ⟨_, decl, hg, hv⟩ := generateOne_ok _ _ _ _ _ _ hc
          obtain ⟨l, hl⟩ := findGen_mem _ _ _ _ hg
          exact absurd hv (hrej l decl hl)

/-- a file for which the loop reaches the generator call -/
def Accepts (env : Env) (ex : Option Str) (d : Dict) (f : Str) : Prop :=
  (fileInfo env f).res = .ok ∧
    ∃ lang decl, langFor env ex f = some lang ∧ findGen env.gens lang ex.isNone = some decl ∧
      validate decl (dkeys d) = none

theorem genLoop_all (env : Env) (ex : Option Str) (d : Dict) (files : List Str) (calls : List Call)
    (hacc : ∀ f ∈ files, Accepts env ex d f) :
    genLoop env ex d files calls =
      { exit := 0, calls := calls ++ files.map (fun f => { file := some f, kwargs := d }), fail := none } := by
  induction files generalizing calls with
  | nil => simp [genLoop]
  | cons f rest ih =>
    obtain ⟨hres, lang, decl, hl, hg, hv⟩ := hacc f (List.mem_cons_self)
    have ih' := fun calls => ih calls (fun g hg => hacc g (List.mem_cons_of_mem _ hg))
    unfold genLoop
    rw [hl]
    simp only [hres]
    have hone : generateOne env lang ex.isNone (some f) d = .ok { file := some f, kwargs := d } := by
      unfold generateOne; simp [hg, hv]
    rw [hone]
    simp only
    rw [ih']
    simp

theorem genLoop_exit_01 (env : Env) (ex : Option Str) (d : Dict) (files : List Str) (calls : List Call) :
    (genLoop env ex d files calls).exit = 0 ∨ (genLoop env ex d files calls).exit = 1 := by
  induction files generalizing calls with
  | nil => simp [genLoop]
  | cons f rest ih =>
    unfold genLoop
    split
    · simp
    · split
      · simp
      · simp
      · split
        · simp
        · exact ih _

/-- the branch without model files: at most one call, with the parsed dictionary and no model -/
theorem runNoModel_calls (env : Env) (ex : Option Str) (d : Dict) :
    ((runNoModel env ex d).calls = [] ∧ (runNoModel env ex d).exit = 1) ∨
    ((runNoModel env ex d).calls = [{ file := none, kwargs := d }] ∧ (runNoModel env ex d).exit = 0 ∧
      ∃ decl, findGen env.gens (ex.getD "textx".toList) ex.isNone = some decl ∧
        validate decl (dkeys d) = none) := by
  unfold runNoModel
  split
  · simp
  · split
    · simp
    · split
      · simp
      · rename_i call hc
        obtain ⟨hcall, hdecl⟩ := generateOne_ok _ _ _ _ _ _ hc
        right
        exact ⟨by simp [hcall], rfl, hdecl⟩

/-! ## the check loop -/

/-- `textx check` gets through file `f` -/
def loads (env : Env) (explicit : Bool) (f : Str) : Bool :=
  (explicit || (fileInfo env f).lang.isSome) && (fileInfo env f).res == .ok

/-- what is logged for the file at which the loop stops -/
def failMsgs (env : Env) (explicit : Bool) (f : Str) : List Msg :=
  if !explicit && (fileInfo env f).lang.isNone then [.error .registration]
  else match (fileInfo env f).res with
    | .noFile => []
    | .loadErr l c => [.error (.located f l c)]
    | .ok => []

theorem checkLoop_step_ok (env : Env) (ex : Bool) (f : Str) (rest : List Str) (msgs : List Msg)
    (h : loads env ex f = true) :
    checkLoop env ex (f :: rest) msgs = checkLoop env ex rest (msgs ++ [.ok f]) := by
  unfold loads at h
  simp only [Bool.and_eq_true, Bool.or_eq_true, beq_iff_eq] at h
  obtain ⟨h1, h2⟩ := h
  rw [checkLoop]
  have : (!ex && (fileInfo env f).lang.isNone) = false := by
    rcases h1 with h1 | h1
    · simp [h1]
    · cases hl : (fileInfo env f).lang <;> simp_all
  simp [this, h2]

theorem checkLoop_step_fail (env : Env) (ex : Bool) (f : Str) (rest : List Str) (msgs : List Msg)
    (h : loads env ex f = false) :
    checkLoop env ex (f :: rest) msgs = { exit := 1, msgs := msgs ++ failMsgs env ex f } := by
  rw [checkLoop]
  unfold failMsgs
  by_cases h1 : (!ex && (fileInfo env f).lang.isNone) = true
  · simp [h1]
  · simp only [h1]
    have h1' : (ex || (fileInfo env f).lang.isSome) = true := by
      cases ex <;> cases hl : (fileInfo env f).lang <;> simp_all
    unfold loads at h
    rw [h1'] at h
    simp only [Bool.true_and, beq_eq_false_iff_ne] at h
    cases hr : (fileInfo env f).res with
    | ok => exact absurd hr h
    | noFile => simp
    | loadErr l c => simp

theorem checkLoop_all (env : Env) (ex : Bool) (files : List Str) (msgs : List Msg)
    (h : ∀ f ∈ files, loads env ex f = true) :
    checkLoop env ex files msgs = { exit := 0, msgs := msgs ++ files.map .ok } := by
  induction files generalizing msgs with
  | nil => simp [checkLoop]
  | cons f rest ih =>
    rw [checkLoop_step_ok _ _ _ _ _ (h f List.mem_cons_self),
      ih _ (fun g hg => h g (List.mem_cons_of_mem _ hg))]
    simp

theorem checkLoop_first_fail (env : Env) (ex : Bool) (pre : List Str) (f : Str) (rest : List Str)
    (msgs : List Msg) (hpre : ∀ g ∈ pre, loads env ex g = true) (hf : loads env ex f = false) :
    checkLoop env ex (pre ++ f :: rest) msgs =
      { exit := 1, msgs := msgs ++ pre.map .ok ++ failMsgs env ex f } := by
  induction pre generalizing msgs with
  | nil => simp [checkLoop_step_fail _ _ _ _ _ hf]
  | cons g pre ih =>
    rw [List.cons_append, checkLoop_step_ok _ _ _ _ _ (hpre g List.mem_cons_self),
      ih _ (fun x hx => hpre x (List.mem_cons_of_mem _ hx))]
    simp

theorem checkLoop_exit_iff (env : Env) (ex : Bool) (files : List Str) (msgs : List Msg) :
    (checkLoop env ex files msgs).exit = 0 ↔ ∀ f ∈ files, loads env ex f = true := by
  induction files generalizing msgs with
  | nil => simp [checkLoop]
  | cons f rest ih =>
    by_cases h : loads env ex f = true
    · rw [checkLoop_step_ok _ _ _ _ _ h, ih]
      simp [h]
    · have h' : loads env ex f = false := by simpa using h
      rw [checkLoop_step_fail _ _ _ _ _ h']
      simp [h']

theorem checkLoop_exit_01 (env : Env) (ex : Bool) (files : List Str) (msgs : List Msg) :
    (checkLoop env ex files msgs).exit = 0 ∨ (checkLoop env ex files msgs).exit = 1 := by
  induction files generalizing msgs with
  | nil => simp [checkLoop]
  | cons f rest ih =>
    by_cases h : loads env ex f = true
    · rw [checkLoop_step_ok _ _ _ _ _ h]; exact ih _
    · have h' : loads env ex f = false := by simpa using h
      rw [checkLoop_step_fail _ _ _ _ _ h']; simp

end Cli
