import TextxVerif.ResolveOrder
import TextxVerif.Proofs.Resolve
import TextxVerif.Proofs.ResolveAttrs
import TextxVerif.Proofs.ResolveQuery
/-! Helper lemmas: resolution orders (`ValidOrder`), the resolver's own sequence is one,
the round over several files is a pass over the concatenation (C08, C09). -/
namespace Resolve

/-- a (monotone) provider only looks at which references are resolved -/
theorem ready_congr (P : Provider) {S S' : List Ref} (h : ∀ x, x ∈ S ↔ x ∈ S') (r : Ref) :
    P.ready S r = P.ready S' r := by
  cases h1 : P.ready S r <;> cases h2 : P.ready S' r <;> try rfl
  · have := P.mono S' S r (fun x hx => (h x).2 hx) h2
    rw [h1] at this; exact this
  · have := P.mono S S' r (fun x hx => (h x).1 hx) h1
    rw [h2] at this; exact this.symm

/-- the scan, spelled out position by position -/
theorem validOrderFrom_iff (P : Provider) : ∀ (σ S : List Ref),
    validOrderFrom P S σ = true ↔
      ∀ i (h : i < σ.length), P.ready ((σ.take i).reverse ++ S) σ[i] = true
  | [], S => by simp [validOrderFrom]
  | r :: rs, S => by
      simp only [validOrderFrom, Bool.and_eq_true, validOrderFrom_iff P rs (r :: S)]
      constructor
      · rintro ⟨h0, hs⟩ i hi
        cases i with
        | zero => simpa using h0
        | succ i =>
          have := hs i (by simpa using hi)
          simpa [List.take_succ_cons] using this
      · intro h
        refine ⟨by have := h 0 (by simp); simpa [List.getElem_cons_zero] using this, ?_⟩
        intro i hi
        have := h (i + 1) (by simpa using hi)
        simpa [List.take_succ_cons] using this

/-- the executable check decides the literal statement -/
theorem validOrder_iff (P : Provider) (σ : List Ref) : validOrder P σ = true ↔ ValidOrder P σ := by
  unfold validOrder ValidOrder
  rw [validOrderFrom_iff]
  constructor
  · intro h i hi
    rw [← h i hi]
    exact ready_congr P (by simp) _
  · intro h i hi
    rw [← h i hi]
    exact ready_congr P (by simp) _

theorem validOrderFrom_append (P : Provider) : ∀ (σ τ S : List Ref),
    validOrderFrom P S (σ ++ τ) = (validOrderFrom P S σ && validOrderFrom P (σ.reverse ++ S) τ)
  | [], τ, S => by simp [validOrderFrom]
  | r :: rs, τ, S => by
      simp only [List.cons_append, validOrderFrom, validOrderFrom_append P rs τ (r :: S),
        List.reverse_cons, List.append_assoc, List.cons_append, List.nil_append, Bool.and_assoc]

/-- the resolved list of the resolver (most recent first): every entry was ready given the
entries behind it -/
def ChainR (P : Provider) : List Ref → Prop
  | [] => True
  | r :: res => P.ready res r = true ∧ ChainR P res

theorem step_chain (P : Provider) : ∀ p res, ChainR P res → ChainR P (step P p res).2
  | [], res, h => by simpa [step] using h
  | r :: rs, res, h => by
      by_cases hr : P.ready res r = true
      · simp only [step, hr, if_true]
        exact step_chain P rs (r :: res) ⟨hr, h⟩
      · simp only [step, hr]
        exact step_chain P rs res h

theorem loop_chain (P : Provider) : ∀ n p res, ChainR P res → ChainR P (loop P n p res).2
  | 0, p, res, h => by simpa [loop] using h
  | n+1, p, res, h => by
      simp only [loop]
      split
      · exact step_chain P p res h
      · exact loop_chain P n _ _ (step_chain P p res h)

theorem chainR_validOrder (P : Provider) : ∀ res, ChainR P res → validOrder P res.reverse = true
  | [], _ => by simp [validOrder, validOrderFrom]
  | r :: res, h => by
      have ih := chainR_validOrder P res h.2
      unfold validOrder at ih ⊢
      rw [List.reverse_cons, validOrderFrom_append, ih]
      simp [validOrderFrom, h.1]

/-- the resolution sequence of the loop is a valid order -/
theorem loop_validOrder (P : Provider) (n : Nat) (refs : List Ref) :
    ValidOrder P (loop P n refs []).2.reverse :=
  (validOrder_iff P _).1 (chainR_validOrder P _ (loop_chain P n refs [] trivial))

/-- everything on a valid order is derivable -/
theorem validOrderFrom_derivable (P : Provider) (U : List Ref) : ∀ (σ S : List Ref),
    validOrderFrom P S σ = true → (∀ x, x ∈ S → Derivable P U x) → (∀ x, x ∈ σ → x ∈ U) →
    ∀ x, x ∈ σ → Derivable P U x
  | [], _, _, _, _, x, hx => by simp at hx
  | r :: rs, S, h, hS, hU, x, hx => by
      simp only [validOrderFrom, Bool.and_eq_true] at h
      have hr : Derivable P U r := Derivable.step S (hU r (by simp)) hS h.1
      rcases List.mem_cons.1 hx with rfl | hx
      · exact hr
      · refine validOrderFrom_derivable P U rs (r :: S) h.2 ?_ (fun y hy => hU y (by simp [hy])) x hx
        intro y hy
        rcases List.mem_cons.1 hy with rfl | hy
        · exact hr
        · exact hS y hy

theorem validOrder_derivable (P : Provider) (U σ : List Ref) (h : ValidOrder P σ)
    (hU : ∀ x, x ∈ σ → x ∈ U) : ∀ x, x ∈ σ → Derivable P U x :=
  validOrderFrom_derivable P U σ [] ((validOrder_iff P σ).2 h) (by simp) hU

/-- a pass neither loses nor duplicates a reference -/
theorem step_perm (P : Provider) : ∀ p res,
    ((step P p res).1 ++ (step P p res).2).Perm (p ++ res)
  | [], res => by simp [step]
  | r :: rs, res => by
      by_cases hr : P.ready res r = true
      · simp only [step, hr, if_true]
        exact (step_perm P rs (r :: res)).trans (List.perm_middle)
      · simp only [step, hr, List.cons_append]
        exact (step_perm P rs res).cons r

theorem loop_perm (P : Provider) : ∀ n p res,
    ((loop P n p res).1 ++ (loop P n p res).2).Perm (p ++ res)
  | 0, p, res => by simp [loop]
  | n+1, p, res => by
      simp only [loop]
      split
      · exact step_perm P p res
      · exact (loop_perm P n _ _).trans (step_perm P p res)

/-- on success the resolution sequence is an arrangement of the references -/
theorem loop_seq_perm (P : Provider) (n : Nat) (refs : List Ref) (hok : (loop P n refs []).1 = []) :
    (loop P n refs []).2.reverse.Perm refs := by
  have := loop_perm P n refs []
  rw [hok] at this
  simpa using (List.reverse_perm _).trans this

/-- whatever the outcome, the resolution sequence is an arrangement of the resolved references -/
theorem loop_seq_perm_filter (P : Provider) (n : Nat) (refs : List Ref) (hnd : refs.Nodup) :
    (loop P n refs []).2.reverse.Perm (refs.filter (fun r => decide (r ∈ (loop P n refs []).2))) := by
  have hres : (loop P n refs []).2.Nodup := loop_res_nodup P n refs [] hnd List.nodup_nil (by simp)
  refine (List.perm_ext_iff_of_nodup ((List.reverse_perm _).nodup_iff.2 hres)
    (hnd.sublist List.filter_sublist)).2 ?_
  intro x
  simp only [List.mem_reverse, List.mem_filter, decide_eq_true_eq]
  constructor
  · intro hx
    have := (loop_partition P n refs [] x).2 (Or.inr hx)
    exact ⟨by simpa using this, hx⟩
  · exact fun h => h.2

/-! ## the round over several files = a pass over the concatenation -/

theorem step_append (P : Provider) : ∀ p q res,
    step P (p ++ q) res =
      ((step P p res).1 ++ (step P q (step P p res).2).1, (step P q (step P p res).2).2)
  | [], q, res => by simp [step]
  | r :: rs, q, res => by
      by_cases hr : P.ready res r = true
      · simp only [List.cons_append, step, hr, if_true]
        exact step_append P rs q (r :: res)
      · simp only [List.cons_append, step, hr]
        rw [step_append P rs q res]
        simp

theorem roundFiles_eq (P : Provider) : ∀ fs res,
    ((roundFiles P fs res).1.flatten, (roundFiles P fs res).2) = step P fs.flatten res
  | [], res => by simp [roundFiles, step]
  | f :: fs, res => by
      have ih := roundFiles_eq P fs (step P f res).2
      simp only [roundFiles, List.flatten_cons, step_append]
      rw [← ih]

theorem loopFiles_eq (P : Provider) : ∀ n fs res,
    ((loopFiles P n fs res).1.flatten, (loopFiles P n fs res).2) = loop P n fs.flatten res
  | 0, fs, res => by simp [loopFiles, loop]
  | n+1, fs, res => by
      have h := roundFiles_eq P fs res
      have h1 : (roundFiles P fs res).1.flatten = (step P fs.flatten res).1 := by rw [← h]
      have h2 : (roundFiles P fs res).2 = (step P fs.flatten res).2 := by rw [← h]
      simp only [loopFiles, loop, h1]
      split
      · rw [h1, h2]
      · rw [loopFiles_eq P n _ _, h1, h2]

/-! ## the loop whose providers ask the resolver -/

/-- on success the resolution sequence of `loopQ` is an arrangement of all references -/
theorem loopQ_seq_perm (W : Ref → List Wait) (fs0 : List (List CRef)) (hnd : (idsOf fs0).Nodup)
    (n : Nat) (hn : pendingCount fs0 < n) (hok : pendingCount (loopQ W n fs0 []).1 = 0) :
    (loopQ W n fs0 []).2.reverse.Perm (idsOf fs0) := by
  have hsp := loopQ_start W fs0 hnd n hn
  refine (List.perm_ext_iff_of_nodup ((List.reverse_perm _).nodup_iff.2 hsp.2.1) hnd).2 ?_
  intro x
  rw [List.mem_reverse]
  constructor
  · intro hx
    cases hsp.2.2.1 x hx with
    | step S hU _ _ => exact hU
  · intro hx
    apply Classical.byContradiction
    intro hno
    have hp := (loopQ_pending W fs0 hnd n hn x).2
      ⟨hx, fun hd => hno ((loopQ_lfp W fs0 hnd n hn x).2 hd)⟩
    rw [pendingCount_eq_ids] at hok
    rw [List.eq_nil_of_length_eq_zero hok] at hp
    simp at hp

/-- a pass run with a provider `P'` that is at least as strict as `P` on every set containing
what was resolved when the pass started keeps the resolved list a chain of `P` -/
theorem step_chain_of (P P' : Provider) (res0 : List Ref)
    (himp : ∀ S r, (∀ x, x ∈ res0 → x ∈ S) → P'.ready S r = true → P.ready S r = true) :
    ∀ p res, (∀ x, x ∈ res0 → x ∈ res) → ChainR P res → ChainR P (step P' p res).2
  | [], res, _, h => by simpa [step] using h
  | r :: rs, res, h0, h => by
      by_cases hr : P'.ready res r = true
      · simp only [step, hr, if_true]
        exact step_chain_of P P' res0 himp rs (r :: res) (fun y hy => by simp [h0 y hy])
          ⟨himp res r h0 hr, h⟩
      · simp only [step, hr]
        exact step_chain_of P P' res0 himp rs res h0 h

/-- one round from an exact state keeps the resolved list a chain by the meaning of the
conditions, although the answers of the resolver are stale within the round -/
theorem roundQ_chain (W : Ref → List Wait) (fs0 : List (List CRef)) (hnd : (idsOf fs0).Nodup) :
    ∀ (todo t0 done d0 : List (List CRef)) (res : List Ref), fs0 = d0 ++ t0 →
    Forall₂ (Ex res) d0 done → Forall₂ (Ex res) t0 todo →
    ChainR (specP W fs0) res → ChainR (specP W fs0) (roundQ W done todo res).2
  | [], t0, done, d0, res, _, _, ht, hc => by
      cases ht
      simpa [roundQ] using hc
  | f :: todo, t0, done, d0, res, hfs, hd, ht, hc => by
      cases ht with
      | @cons f0 _ t0' _ hf ht' =>
      subst hfs
      have hdis := ids_disjoint_of_nodup hnd
      have hinv : Forall₂ (Ex res) (d0 ++ f0 :: t0') (done ++ f :: todo) :=
        forall₂_append hd (.cons hf ht')
      have hfnd : (f.map (·.id)).Nodup := (hf.1.map (·.id)).nodup hdis.1
      have hfdis : ∀ c, c ∈ f → c.id ∉ res := fun c hc => ((hf.2 c).1 hc).2
      have hfsub : ∀ x, x ∈ f.map (·.id) → x ∈ f0.map (·.id) := by
        intro x hx
        obtain ⟨c, hc, rfl⟩ := List.mem_map.1 hx
        exact List.mem_map.2 ⟨c, ((hf.2 c).1 hc).1, rfl⟩
      simp only [roundQ]
      generalize hsq : stepQ W (done ++ f :: todo) f res = sq
      have hmono : ∀ x, x ∈ res → x ∈ sq.2 := fun x hx => hsq ▸ stepQ_res_mono W _ f res x hx
      have hnew : ∀ x, x ∈ sq.2 → x ∈ res ∨ x ∈ f0.map (·.id) := by
        intro x hx
        rcases stepQ_res_new W (done ++ f :: todo) f res x (hsq ▸ hx) with h | h
        · exact Or.inl h
        · exact Or.inr (hfsub x h)
      have hp : Ex sq.2 f0 sq.1 := by
        refine ⟨(hsq ▸ stepQ_sublist W _ f res).trans hf.1, fun c => ?_⟩
        have hm := stepQ_mem W (done ++ f :: todo) f res hfnd hfdis c
        rw [hsq] at hm
        rw [hm, hf.2 c]
        constructor
        · rintro ⟨⟨a, _⟩, b⟩; exact ⟨a, b⟩
        · rintro ⟨a, b⟩; exact ⟨⟨a, fun hin => b (hmono _ hin)⟩, b⟩
      have hd' : Forall₂ (Ex sq.2) d0 done :=
        forall₂_imp_mem hd (fun g0 hg g h => h.mono_res (f0.map (·.id)) hmono hnew (hdis.2.1 g0 hg))
      have ht'' : Forall₂ (Ex sq.2) t0' todo :=
        forall₂_imp_mem ht' (fun g0 hg g h => h.mono_res (f0.map (·.id)) hmono hnew (hdis.2.2 g0 hg))
      have hc' : ChainR (specP W (d0 ++ f0 :: t0')) sq.2 := by
        rw [← hsq, stepQ_res]
        exact step_chain_of (specP W (d0 ++ f0 :: t0')) (snapP W (done ++ f :: todo)) res
          (fun S r hS hr => spec_of_ready W hinv S hS r hr) _ res (fun _ h => h) hc
      exact roundQ_chain W (d0 ++ f0 :: t0') hnd todo t0' (done ++ [sq.1]) (d0 ++ [f0]) sq.2
        (by simp) (forall₂_append hd' (.cons hp .nil)) ht'' hc'

theorem loopQ_chain (W : Ref → List Wait) (fs0 : List (List CRef)) (hnd : (idsOf fs0).Nodup) :
    ∀ (n : Nat) (fs : List (List CRef)) (res : List Ref), Forall₂ (Ex res) fs0 fs → res.Nodup →
    (∀ x, x ∈ res → Derivable (specP W fs0) (idsOf fs0) x) →
    ChainR (specP W fs0) res → ChainR (specP W fs0) (loopQ W n fs res).2
  | 0, fs, res, _, _, _, hc => by simpa [loopQ] using hc
  | n+1, fs, res, hinv, hres, hs, hc => by
      have hr := roundQ_spec W fs0 hnd fs fs0 [] [] res (by simp) .nil hinv hres hs
      have hch := roundQ_chain W fs0 hnd fs fs0 [] [] res (by simp) .nil hinv hc
      simp only [loopQ]
      split
      · exact hch
      · exact loopQ_chain W fs0 hnd n _ _ hr.1 hr.2.1 hr.2.2.1 hch

/-- the resolution sequence of `loopQ` is a valid order by the meaning of the conditions -/
theorem loopQ_validOrder (W : Ref → List Wait) (fs0 : List (List CRef)) (hnd : (idsOf fs0).Nodup)
    (n : Nat) : ValidOrder (specP W fs0) (loopQ W n fs0 []).2.reverse :=
  (validOrder_iff _ _).1 (chainR_validOrder _ _
    (loopQ_chain W fs0 hnd n fs0 [] (forall₂_refl Ex.start fs0) List.nodup_nil (by simp) trivial))

/-- the pinned list branch (`attr_value.append(resolved)`) as a fold -/
theorem listAfterPinned_eq (seq : List LRef) : listAfterPinned seq = seq := by
  have : ∀ acc : List LRef, seq.foldl (fun acc r => acc ++ [r]) acc = acc ++ seq := by
    induction seq with
    | nil => intro acc; simp
    | cons r rs ih => intro acc; simp [ih]
  simpa [listAfterPinned] using this []

end Resolve
